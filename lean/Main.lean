import A2lVerif.Driver.ItemList
import A2lVerif.Driver.Limits
import A2lVerif.Driver.Encoding
import A2lVerif.Driver.Sort
import A2lVerif.Driver.Tree
import A2lVerif.Driver.Lex
import A2lVerif.Driver.Graph
import A2lVerif.Driver.Cleanup
import A2lVerif.Driver.Include
import A2lVerif.Driver.Merge
import A2lVerif.Driver.A2ml
import A2lVerif.Driver.Typed
import A2lVerif.Driver.Checker
import A2lVerif.Driver.IncludeWriter
import A2lVerif.Driver.IfCleanup
/-! `a2lmodel`: one request per line on stdin, one canonical answer per line on stdout. -/
open A2l

def dispatch (line : String) : String :=
  match (line.trimAscii.toString.splitOn " ").filter (· ≠ "") with
  | "il" :: args => IL.handle args
  | "aml" :: args => Aml.handle args
  | "typ" :: args => Typed.handle args
  | "amlrt" :: args => Typed.handleRt args
  | "cln" :: args => Cl.handle args
  | "inc" :: args => Inc.handle args
  | "incw" :: args => IncW.handle args
  | "ifcl" :: args => IfCl.handle args
  | "mrg" :: args => Mg.handle args
  | "mrgraw" :: args => Mg.handleRaw args
  | "lim" :: args => Lim.handle args
  | "a2l" :: args => Tree.handle args
  | "a2lfresh" :: args => Tree.handleFresh args
  | "lex" :: args => Lex.handle args
  | "chk" :: args => Gr.handleChk false args
  | "chkset" :: args => Gr.handleChk true args
  | "chkthis" :: args => Gr.handleChkThis args
  | "chkfull" :: args => Chk.handleFull args
  | "srt" :: args => Srt.handle args
  | "dec" :: args => Enc.handle "dec" args
  | "load" :: args => Enc.handle "load" args
  | _ => "bad-request"

partial def loop (h : IO.FS.Stream) (out : IO.FS.Stream) : IO Unit := do
  let line ← h.getLine
  if line.isEmpty then return ()
  out.putStrLn (dispatch line)
  loop h out

def main : IO Unit := do
  let out ← IO.getStdout
  loop (← IO.getStdin) out
  out.flush
