import A2lVerif.Model.Basic
import A2lVerif.Model.ItemList
