import A2lVerif.Model.Limits
import Mathlib.Algebra.Order.Field.Rat
import Mathlib.Algebra.Order.Field.Basic
import Mathlib.Tactic.Linarith
import Mathlib.Tactic.Ring
import Mathlib.Tactic.NormNum
/-! helper lemmas for C12 -/
namespace A2l.Lim

theorem maxF32_pos : 0 < maxF32 := by
  unfold maxF32
  exact mul_pos (by norm_num) (pow_pos (by norm_num) _)

theorem maxF64_pos : 0 < maxF64 := by
  unfold maxF64
  have h : (1 : Rat) < 2 ^ 53 := by norm_num
  exact mul_pos (by linarith) (pow_pos (by norm_num) _)

theorem datatypeLimits_fst_le_snd (dt : DataType) : (datatypeLimits dt).1 ≤ (datatypeLimits dt).2 := by
  cases dt <;> simp only [datatypeLimits]
  case float32 => linarith [maxF32_pos]
  case float64 => linarith [maxF64_pos]
  all_goals norm_num

theorem ratAbs_nonneg (x : Rat) : 0 ≤ ratAbs x := by
  unfold ratAbs
  split <;> linarith

/-! ### shape of `calcLimits` -/

theorem calcLimits_direct (dt : DataType) : calcLimits .direct dt = some (datatypeLimits dt) := by
  rcases h : datatypeLimits dt with ⟨lo, hi⟩
  simp [calcLimits, h]

theorem calcLimits_absent (dt : DataType) : calcLimits .absent dt = some (datatypeLimits dt) := by
  rcases h : datatypeLimits dt with ⟨lo, hi⟩
  simp [calcLimits, h]

theorem calcLimits_form (dt : DataType) : calcLimits .form dt = some (-maxF64, maxF64) := by
  simp [calcLimits]

theorem calcLimits_linear (a b : Rat) (dt : DataType) :
    calcLimits (.linear (some (a, b))) dt =
      if a ≥ 0 then some (a * (datatypeLimits dt).1 + b, a * (datatypeLimits dt).2 + b)
      else some (a * (datatypeLimits dt).2 + b, a * (datatypeLimits dt).1 + b) := by
  rcases h : datatypeLimits dt with ⟨lo, hi⟩
  simp [calcLimits, h]

theorem calcLimits_ratFunc_general (a b c d e f : Rat) (dt : DataType)
    (hn : ¬(a = 0 ∧ d = 0 ∧ e = 0 ∧ f ≠ 0 ∧ b ≠ 0)) :
    calcLimits (.ratFunc (some (a, b, c, d, e, f))) dt = some (-maxF64, maxF64) := by
  rcases h : datatypeLimits dt with ⟨lo, hi⟩
  simp only [calcLimits, h]
  rw [if_neg hn]

theorem calcLimits_ratFunc_linear (b c f : Rat) (hb : b ≠ 0) (hf : f ≠ 0) (dt : DataType) :
    calcLimits (.ratFunc (some (0, b, c, 0, 0, f))) dt =
      if f * ((datatypeLimits dt).1 / b) - c / b > f * ((datatypeLimits dt).2 / b) - c / b then
        some (f * ((datatypeLimits dt).2 / b) - c / b, f * ((datatypeLimits dt).1 / b) - c / b)
      else
        some (f * ((datatypeLimits dt).1 / b) - c / b, f * ((datatypeLimits dt).2 / b) - c / b) := by
  rcases h : datatypeLimits dt with ⟨lo, hi⟩
  simp only [calcLimits, h]
  rw [if_pos ⟨trivial, trivial, trivial, hf, hb⟩]

/-! ### the linear case over an abstract interval -/

theorem linear_interval (a b lo hi : Rat) (hle : lo ≤ hi) :
    ∃ L U, (if a ≥ 0 then some (a * lo + b, a * hi + b) else some (a * hi + b, a * lo + b)) = some (L, U) ∧
      (∀ x, lo ≤ x → x ≤ hi → L ≤ a * x + b ∧ a * x + b ≤ U) ∧
      (∃ x, lo ≤ x ∧ x ≤ hi ∧ a * x + b = L) ∧
      (∃ x, lo ≤ x ∧ x ≤ hi ∧ a * x + b = U) := by
  by_cases ha : a ≥ 0
  · refine ⟨a * lo + b, a * hi + b, by rw [if_pos ha], ?_, ⟨lo, le_refl _, hle, rfl⟩, ⟨hi, hle, le_refl _, rfl⟩⟩
    intro x h1 h2
    have := mul_le_mul_of_nonneg_left h1 ha
    have := mul_le_mul_of_nonneg_left h2 ha
    constructor <;> linarith
  · refine ⟨a * hi + b, a * lo + b, by rw [if_neg ha], ?_, ⟨hi, hle, le_refl _, rfl⟩, ⟨lo, le_refl _, hle, rfl⟩⟩
    intro x h1 h2
    have ha' : 0 ≤ -a := by linarith [not_le.mp ha]
    have := mul_le_mul_of_nonneg_left h1 ha'
    have := mul_le_mul_of_nonneg_left h2 ha'
    constructor <;> linarith

/-! ### the linear RAT_FUNC case over an abstract interval -/

theorem func_eq (b c f y : Rat) : f * (y / b) - c / b = (f * y - c) / b := by ring

/-- `b` and `f` of the same sign: the raw→phys map is increasing -/
theorem ratfunc_mono_iff (b c f x y : Rat) (h : 0 < b * f) :
    (y ≤ (b * x + c) / f ↔ (f * y - c) / b ≤ x) ∧ ((b * x + c) / f ≤ y ↔ x ≤ (f * y - c) / b) := by
  rcases lt_or_gt_of_ne (show b ≠ 0 by rintro rfl; simp at h) with hb | hb
  · have hf : f < 0 := by
      by_contra hf
      have : b * f ≤ 0 := mul_nonpos_of_nonpos_of_nonneg hb.le (not_lt.mp hf)
      linarith
    rw [le_div_iff_of_neg hf, div_le_iff_of_neg hb, div_le_iff_of_neg hf, le_div_iff_of_neg hb]
    constructor <;> constructor <;> intro _ <;> linarith
  · have hf : 0 < f := by
      by_contra hf
      have : b * f ≤ 0 := mul_nonpos_of_nonneg_of_nonpos hb.le (not_lt.mp hf)
      linarith
    rw [le_div_iff₀ hf, div_le_iff₀ hb, div_le_iff₀ hf, le_div_iff₀ hb]
    constructor <;> constructor <;> intro _ <;> linarith

/-- `b` and `f` of opposite sign: the raw→phys map is decreasing -/
theorem ratfunc_anti_iff (b c f x y : Rat) (h : b * f < 0) :
    (y ≤ (b * x + c) / f ↔ x ≤ (f * y - c) / b) ∧ ((b * x + c) / f ≤ y ↔ (f * y - c) / b ≤ x) := by
  rcases lt_or_gt_of_ne (show b ≠ 0 by rintro rfl; simp at h) with hb | hb
  · have hf : 0 < f := by
      by_contra hf
      have : 0 ≤ b * f := mul_nonneg_of_nonpos_of_nonpos hb.le (not_lt.mp hf)
      linarith
    rw [le_div_iff₀ hf, le_div_iff_of_neg hb, div_le_iff₀ hf, div_le_iff_of_neg hb]
    constructor <;> constructor <;> intro _ <;> linarith
  · have hf : f < 0 := by
      by_contra hf
      have : 0 ≤ b * f := mul_nonneg hb.le (not_lt.mp hf)
      linarith
    rw [le_div_iff_of_neg hf, le_div_iff₀ hb, div_le_iff_of_neg hf, div_le_iff₀ hb]
    constructor <;> constructor <;> intro _ <;> linarith

theorem ratfunc_interval (b c f lo hi : Rat) (hb : b ≠ 0) (hf : f ≠ 0) (hle : lo ≤ hi) :
    ∃ L U,
      (if f * (lo / b) - c / b > f * (hi / b) - c / b then
        some (f * (hi / b) - c / b, f * (lo / b) - c / b)
      else some (f * (lo / b) - c / b, f * (hi / b) - c / b)) = some (L, U) ∧
      ∀ x, (lo ≤ (b * x + c) / f ∧ (b * x + c) / f ≤ hi) ↔ (L ≤ x ∧ x ≤ U) := by
  simp only [func_eq]
  rcases lt_or_gt_of_ne (mul_ne_zero hb hf) with hs | hs
  · -- decreasing
    have hul : (f * hi - c) / b ≤ (f * lo - c) / b := by
      have h1 := (ratfunc_anti_iff b c f ((f * lo - c) / b) lo hs).2.2 (le_refl _)
      exact ((ratfunc_anti_iff b c f ((f * lo - c) / b) hi hs).2).1 (le_trans h1 hle)
    by_cases hgt : (f * lo - c) / b > (f * hi - c) / b
    · refine ⟨_, _, by rw [if_pos hgt], fun x => ?_⟩
      rw [(ratfunc_anti_iff b c f x lo hs).1, (ratfunc_anti_iff b c f x hi hs).2]
      exact and_comm
    · have heq : (f * lo - c) / b = (f * hi - c) / b := le_antisymm (not_lt.mp hgt) hul
      refine ⟨_, _, by rw [if_neg hgt], fun x => ?_⟩
      rw [(ratfunc_anti_iff b c f x lo hs).1, (ratfunc_anti_iff b c f x hi hs).2, heq]
      exact and_comm
  · -- increasing
    have hlu : (f * lo - c) / b ≤ (f * hi - c) / b := by
      have h1 := (ratfunc_mono_iff b c f ((f * hi - c) / b) hi hs).1.2 (le_refl _)
      exact ((ratfunc_mono_iff b c f ((f * hi - c) / b) lo hs).1).1 (le_trans hle h1)
    refine ⟨_, _, by rw [if_neg (not_lt.mpr hlu)], fun x => ?_⟩
    rw [(ratfunc_mono_iff b c f x lo hs).1, (ratfunc_mono_iff b c f x hi hs).2]

/-! ### the decision -/

theorem limitsValid_eq_false_iff (ex cl : Rat × Rat) :
    limitsValid ex cl = false ↔ (ex.1 < cl.1 - ratAbs (cl.1 * tol) ∨ ex.2 > cl.2 + ratAbs (cl.2 * tol)) := by
  rw [← Bool.not_eq_true]
  simp only [limitsValid, Bool.and_eq_true, decide_eq_true_eq, not_and_or, not_le]
  constructor <;> (rintro (h | h) <;> [left; right] <;> linarith)

theorem limitsValidStrict_eq_false_iff (ex cl : Rat × Rat) :
    limitsValidStrict ex cl = false ↔ (ex.1 < cl.1 ∨ ex.2 > cl.2) := by
  simp only [limitsValidStrict, Bool.not_eq_false', Bool.or_eq_true, decide_eq_true_eq, gt_iff_lt]

theorem reportsError_of_calc (carrier : Carrier) (conv : Conv) (dt : DataType) (ex cl : Rat × Rat)
    (h : calcLimits conv dt = some cl) :
    reportsError carrier conv dt ex = some (!limitsValid ex cl) := by
  unfold reportsError
  rw [h]

end A2l.Lim
