import A2lVerif.Lemmas.IfDataWrite
/-!
# IF_DATA, part G: the uids of the tagged items that the parser produces

`sequential_id` only grows, every tagged item gets the next id when its tag has been read, so the items of every
tagged struct / union carry non-zero, strictly increasing uids in parse order (`UidOk`). This is what
`write_eq_render` (Lemmas/IfDataWrite.lean) needs: the stable sort by uid in `add_group` is the identity.
-/
namespace A2l.IfData
open A2l.Tree A2l.Aml A2l.G A2l.Sc

variable {e : Env}

/-- `sequential_id` did not fall below `lo` (also when the function failed), and `Q` holds for a result -/
def MQ {α : Type} (lo : Nat) (r : PRes α) (Q : α → PState → Prop) : Prop :=
  match r with
  | .ok a s' => lo ≤ s'.seqId ∧ Q a s'
  | .err _ s' => lo ≤ s'.seqId
  | .panic => True
  | .fuel => True

def Tr {α : Type} : α → PState → Prop := fun _ _ => True

/-- a function that never lowers `sequential_id` -/
def Mono {α : Type} (m : PM α) (e : Env) : Prop := ∀ (s : PState) (lo : Nat), lo ≤ s.seqId → MQ lo (m e s) Tr

theorem MQ.bind {α β} {lo : Nat} {m : PM α} {f : α → PM β} {s : PState} {Q1 : α → PState → Prop}
    {Q2 : β → PState → Prop} (h1 : MQ lo (m e s) Q1)
    (h2 : ∀ a s1, lo ≤ s1.seqId → Q1 a s1 → MQ lo (f a e s1) Q2) : MQ lo ((m >>= f) e s) Q2 := by
  rw [bind_eq]
  cases h : m e s with
  | ok a s1 => rw [h] at h1; exact h2 a s1 h1.1 h1.2
  | err d s1 => rw [h] at h1; exact h1
  | panic => trivial
  | fuel => trivial

theorem MQ.attemptB {α β} {lo : Nat} {m : PM α} {f : Except Diag α → PM β} {s : PState} {Q1 : α → PState → Prop}
    {Q2 : β → PState → Prop} (h1 : MQ lo (m e s) Q1)
    (hok : ∀ a s1, lo ≤ s1.seqId → Q1 a s1 → MQ lo (f (.ok a) e s1) Q2)
    (herr : ∀ d s1, lo ≤ s1.seqId → MQ lo (f (.error d) e s1) Q2) : MQ lo ((A2l.Tree.attempt m >>= f) e s) Q2 := by
  rw [bind_eq]
  unfold A2l.Tree.attempt
  cases h : m e s with
  | ok a s1 => rw [h] at h1; exact hok a s1 h1.1 h1.2
  | err d s1 => rw [h] at h1; exact herr d s1 h1
  | panic => trivial
  | fuel => trivial

theorem MQ.lineOffset {β} {lo : Nat} {f : Nat → PM β} {s : PState} {Q : β → PState → Prop}
    (h : ∀ n, MQ lo (f n e s) Q) : MQ lo ((getLineOffset >>= f) e s) Q := by
  rw [bind_eq]
  rcases getLineOffset_cases e s with h1 | ⟨n, h1⟩
  · rw [h1]; trivial
  · rw [h1]; exact h n

theorem MQ.weaken {α} {lo lo' : Nat} {r : PRes α} {Q Q' : α → PState → Prop} (h : MQ lo r Q) (hlo : lo' ≤ lo)
    (hq : ∀ a s, Q a s → Q' a s) : MQ lo' r Q' := by
  cases r with
  | ok a s => exact ⟨Nat.le_trans hlo h.1, hq a s h.2⟩
  | err d s => exact Nat.le_trans hlo h
  | panic => trivial
  | fuel => trivial

theorem MQ.pure {α} {lo : Nat} {a : α} {s : PState} {Q : α → PState → Prop} (hlo : lo ≤ s.seqId) (hq : Q a s) :
    MQ lo ((Pure.pure a : PM α) e s) Q := ⟨hlo, hq⟩

theorem MQ.fail {α} {lo : Nat} {k : DK} {s : PState} {Q : α → PState → Prop} (hlo : lo ≤ s.seqId) :
    MQ lo ((A2l.Tree.fail k : PM α) e s) Q := hlo

/-! ## the primitives -/

theorem getToken_mono (ctx : Ctx) : Mono (getToken ctx) e := by
  intro s lo hlo
  rw [getToken_eval]
  cases e.toks[s.pos]? with
  | none => exact hlo
  | some t => exact ⟨hlo, trivial⟩

theorem expectTokenAux_mono (ctx : Ctx) (ty : Nat) : ∀ fuel, Mono (expectTokenAux ctx ty fuel) e
  | 0 => fun _ _ _ => trivial
  | fuel + 1 => by
    intro s lo hlo
    rw [expectTokenAux]
    refine MQ.bind (getToken_mono ctx s lo hlo) ?_
    intro t s1 hlo1 _
    split
    · exact expectTokenAux_mono ctx ty fuel s1 lo hlo1
    · split
      · exact MQ.fail hlo1
      · exact MQ.pure hlo1 trivial

theorem expectToken_mono (ctx : Ctx) (ty : Nat) : Mono (expectToken ctx ty) e := by
  intro s lo hlo
  unfold expectToken
  simp only [getEnv_bind]
  exact expectTokenAux_mono ctx ty _ s lo hlo

theorem errorOrLog_mono (k : DK) : Mono (errorOrLog k) e := by
  intro s lo hlo
  unfold errorOrLog
  simp only [getEnv_bind]
  split
  · exact MQ.fail hlo
  · exact ⟨hlo, trivial⟩

theorem getIdentifier_mono (ctx : Ctx) : Mono (getIdentifier ctx) e := by
  intro s lo hlo
  unfold getIdentifier
  refine MQ.bind (expectToken_mono ctx 0 s lo hlo) ?_
  intro t s1 hlo1 _
  cases t.text with
  | nil => trivial
  | cons c tl =>
    dsimp only
    split
    · refine MQ.bind (errorOrLog_mono _ s1 lo hlo1) ?_
      intro _ s2 hlo2 _
      exact MQ.pure hlo2 trivial
    · exact MQ.pure hlo1 trivial

theorem getString_mono (ctx : Ctx) : Mono (getString ctx) e := by
  intro s lo hlo
  unfold getString
  simp only [peekToken_bind]
  generalize e.toks[s.pos]? = o
  split
  · refine MQ.bind (getIdentifier_mono ctx s lo hlo) ?_
    intro _ s1 hlo1 _
    refine MQ.bind (errorOrLog_mono _ s1 lo hlo1) ?_
    intro _ s2 hlo2 _
    exact MQ.pure hlo2 trivial
  · refine MQ.bind (expectToken_mono ctx 4 s lo hlo) ?_
    intro t s1 hlo1 _
    cases unescape (stripQuotes t.text) with
    | ok r => exact MQ.pure hlo1 trivial
    | panic => trivial

theorem getStringMaxlen_mono (ctx : Ctx) (n : Nat) : Mono (getStringMaxlen ctx n) e := by
  intro s lo hlo
  unfold getStringMaxlen
  refine MQ.bind (getString_mono ctx s lo hlo) ?_
  intro _ s1 hlo1 _
  dsimp only
  split
  · refine MQ.bind (errorOrLog_mono _ s1 lo hlo1) ?_
    intro _ s2 hlo2 _
    exact MQ.pure hlo2 trivial
  · exact MQ.pure hlo1 trivial

theorem getInteger_mono (ctx : Ctx) (w : Nat) : Mono (getInteger ctx w) e := by
  intro s lo hlo
  unfold getInteger
  refine MQ.bind (expectToken_mono ctx 5 s lo hlo) ?_
  intro t s1 hlo1 _
  cases parseInt (intTyOf w) t.text with
  | none => exact MQ.fail hlo1
  | some r => exact MQ.pure hlo1 trivial

theorem getDouble_mono (ctx : Ctx) : Mono (getDouble ctx) e := by
  intro s lo hlo
  unfold getDouble
  refine MQ.bind (expectToken_mono ctx 5 s lo hlo) ?_
  intro t s1 hlo1 _
  cases t.fl with
  | none => exact MQ.fail hlo1
  | some r => exact MQ.pure hlo1 trivial

theorem getFloat_mono (f32 : List Char → Option (List Char)) (ctx : Ctx) : Mono (getFloat f32 ctx) e := by
  intro s lo hlo
  unfold getFloat
  refine MQ.bind (expectToken_mono ctx 5 s lo hlo) ?_
  intro t s1 hlo1 _
  cases f32 t.text with
  | none => exact MQ.fail hlo1
  | some r => exact MQ.pure hlo1 trivial

theorem skipComments_mono (ctx : Ctx) : ∀ fuel, Mono (skipComments ctx fuel) e
  | 0 => fun _ _ _ => trivial
  | fuel + 1 => by
    intro s lo hlo
    rw [skipComments]
    simp only [peekToken_bind]
    cases e.toks[s.pos]? with
    | none => exact MQ.pure hlo trivial
    | some t =>
      dsimp only
      split
      · refine MQ.bind (getToken_mono ctx s lo hlo) ?_
        intro _ s1 hlo1 _
        exact skipComments_mono ctx fuel s1 lo hlo1
      · exact MQ.pure hlo trivial

theorem endOfTagged_mono (newctx : Ctx) (tag : List Char) (isBlock : Bool) : Mono (endOfTagged newctx tag isBlock) e := by
  intro s lo hlo
  unfold endOfTagged
  split
  · refine MQ.bind (expectToken_mono newctx 2 s lo hlo) ?_
    intro _ s1 hlo1 _
    refine MQ.lineOffset ?_
    intro off
    refine MQ.bind (expectToken_mono newctx 0 s1 lo hlo1) ?_
    intro t s2 hlo2 _
    dsimp only
    split
    · exact hlo2
    · exact MQ.pure hlo2 trivial
  · exact MQ.pure hlo trivial

theorem getNextTagOrComment_mono (ctx : Ctx) : Mono (getNextTagOrComment ctx) e := by
  intro s lo hlo
  unfold getNextTagOrComment
  simp only [getTokenpos_bind, peekToken_bind]
  generalize e.toks[s.pos]? = o
  split
  · simp only [modifyState_bind]
    refine MQ.lineOffset ?_
    intro off
    exact MQ.pure hlo trivial
  · refine MQ.bind (getToken_mono ctx s lo hlo) ?_
    intro _ s1 hlo1 _
    refine MQ.lineOffset ?_
    intro off
    refine MQ.attemptB (expectToken_mono ctx 0 s1 lo hlo1) ?_ ?_
    · intro tok s2 hlo2 _
      exact MQ.pure hlo2 trivial
    · intro d s2 hlo2
      simp only [setTokenpos_bind]
      exact hlo2
  · refine MQ.attemptB (expectToken_mono ctx 0 s lo hlo) ?_ ?_
    · intro tok s1 hlo1 _
      refine MQ.lineOffset ?_
      intro off
      exact MQ.pure hlo1 trivial
    · intro d s1 hlo1
      refine MQ.lineOffset ?_
      intro off
      simp only [setTokenpos_bind]
      exact MQ.pure hlo1 trivial

/-! ## the interpreter -/

theorem uidOk_struct (l : Nat) (items : List Gen) : UidOk (.struct l items) = UidOkL items := by rw [UidOk]
theorem uidOk_block (l : Nat) (items : List Gen) : UidOk (.block l items) = UidOkL items := by rw [UidOk]
theorem uidOk_array (items : List Gen) : UidOk (.array items) = UidOkL items := by rw [UidOk]
theorem uidOk_seq (items : List Gen) : UidOk (.seq items) = UidOkL items := by rw [UidOk]
theorem uidOk_ts (items : List (TItem Gen)) : UidOk (.taggedStruct items) = UidOkT items := by rw [UidOk]
theorem uidOk_tu (items : List (TItem Gen)) : UidOk (.taggedUnion items) = UidOkT items := by rw [UidOk]
theorem uidOkL_cons (g : Gen) (rest : List Gen) : UidOkL (g :: rest) = (UidOk g ∧ UidOkL rest) := by rw [UidOkL]
theorem uidOkL_nil : UidOkL [] = True := by rw [UidOkL]
theorem uidOkT_nil : UidOkT [] = True := by rw [UidOkT]
theorem uidOkT_cons (it : TItem Gen) (rest : List (TItem Gen)) : UidOkT (it :: rest) =
    (it.uid ≠ 0 ∧ (∀ x ∈ rest, it.uid < x.uid) ∧ UidOk it.data ∧ UidOkT rest) := by rw [UidOkT]

theorem uidOk_makeBlock (d : Gen) (line : Nat) (h : UidOk d) : UidOk (makeBlock d line) := by
  unfold makeBlock
  split
  · rw [uidOk_struct] at h; rw [uidOk_block]; exact h
  · rw [uidOk_block, uidOkL_cons, uidOkL_nil]; exact ⟨h, trivial⟩

theorem uidOkL_append : ∀ (a b : List Gen), UidOkL a → UidOkL b → UidOkL (a ++ b)
  | [], b, _, hb => hb
  | x :: a, b, ha, hb => by
    rw [uidOkL_cons] at ha
    rw [List.cons_append, uidOkL_cons]
    exact ⟨ha.1, uidOkL_append a b ha.2 hb⟩

def UidP (p : PM Gen) (e : Env) : Prop := ∀ (s : PState) (lo : Nat), lo ≤ s.seqId → MQ lo (p e s) (fun g _ => UidOk g)

def UidD (d : List Char → Option (Bool × (Ctx → PM Gen))) (e : Env) : Prop :=
  ∀ tag b p, d tag = some (b, p) → ∀ ctx, UidP (p ctx) e

theorem arrayLoop_uid {p : PM Gen} (hp : UidP p e) : ∀ (n : Nat) (s : PState) (lo : Nat), lo ≤ s.seqId →
    MQ lo (arrayLoop p n e s) (fun vs _ => UidOkL vs)
  | 0, s, lo, hlo => by rw [arrayLoop]; exact MQ.pure hlo trivial
  | n + 1, s, lo, hlo => by
    rw [arrayLoop]
    simp only [getTokenpos_bind]
    refine MQ.bind (hp s lo hlo) ?_
    intro v s1 hlo1 hv
    simp only [getTokenpos_bind]
    split
    · exact MQ.pure hlo1 (by rw [uidOkL_cons, uidOkL_nil]; exact ⟨hv, trivial⟩)
    · refine MQ.bind (arrayLoop_uid hp n s1 lo hlo1) ?_
      intro vs s2 hlo2 hvs
      exact MQ.pure hlo2 (by rw [uidOkL_cons]; exact ⟨hv, hvs⟩)

theorem uidOkL_reverse_cons (v : Gen) (acc : List Gen) (hv : UidOk v) (h : UidOkL acc.reverse) :
    UidOkL (v :: acc).reverse := by
  rw [List.reverse_cons]
  exact uidOkL_append _ _ h (by rw [uidOkL_cons, uidOkL_nil]; exact ⟨hv, trivial⟩)

theorem seqLoop_uid {p : PM Gen} (hp : UidP p e) : ∀ (fuel : Nat) (acc : List Gen) (s : PState) (lo : Nat),
    lo ≤ s.seqId → UidOkL acc.reverse → MQ lo (seqLoop p fuel acc e s) (fun vs _ => UidOkL vs)
  | 0, _, _, _, _, _ => trivial
  | fuel + 1, acc, s, lo, hlo, hacc => by
    rw [seqLoop]
    simp only [getTokenpos_bind]
    refine MQ.attemptB (hp s lo hlo) ?_ ?_
    · intro v s1 hlo1 hv
      simp only [getTokenpos_bind]
      split
      · simp only [setTokenpos_bind]
        exact MQ.pure hlo1 hacc
      · exact seqLoop_uid hp fuel (v :: acc) s1 lo hlo1 (uidOkL_reverse_cons v acc hv hacc)
    · intro d s1 hlo1
      simp only [setTokenpos_bind]
      exact MQ.pure hlo1 hacc

/-- an item produced between `s` and `s'`: its uid is one of the ids handed out in between -/
def ItemQ (s : PState) (r : Option (TItem Gen)) (s' : PState) : Prop :=
  ∀ it, r = some it → s.seqId < it.uid ∧ it.uid ≤ s'.seqId ∧ UidOk it.data

theorem taggedItem_uid {d : List Char → Option (Bool × (Ctx → PM Gen))} (hd : UidD d e) (ctx : Ctx) (s : PState)
    (lo : Nat) (hlo : lo ≤ s.seqId) : MQ lo (taggedItem d ctx e s) (ItemQ s) := by
  unfold taggedItem
  simp only [getTokenpos_bind, getEnv_bind]
  refine MQ.bind (Q1 := fun _ s1 => s.seqId ≤ s1.seqId) ?_ ?_
  · have := skipComments_mono ctx (e.toks.size + 1) s s.seqId (Nat.le_refl _) (e := e)
    cases hr : skipComments ctx (e.toks.size + 1) e s with
    | ok a s1 => rw [hr] at this; exact ⟨Nat.le_trans hlo this.1, this.1⟩
    | err d s1 => rw [hr] at this; exact Nat.le_trans hlo this
    | panic => trivial
    | fuel => trivial
  · intro _ s1 hlo1 hs1
    have hreset : ∀ s2 : PState, lo ≤ s2.seqId →
        MQ lo ((do setTokenpos s.pos; pure (none : Option (TItem Gen)) : PM _) e s2) (ItemQ s) := by
      intro s2 h2
      simp only [setTokenpos_bind]
      exact MQ.pure h2 (fun it h => by cases h)
    refine MQ.attemptB (Q1 := fun _ s2 => s.seqId ≤ s2.seqId) ?_ ?_ ?_
    · have := getNextTagOrComment_mono ctx s1 s.seqId hs1 (e := e)
      cases hr : getNextTagOrComment ctx e s1 with
      | ok a s2 => rw [hr] at this; exact ⟨Nat.le_trans hlo this.1, this.1⟩
      | err d s2 => rw [hr] at this; exact Nat.le_trans hlo this
      | panic => trivial
      | fuel => trivial
    · intro bc s2 hlo2 hs2
      cases bc with
      | comment tok off => exact hreset s2 hlo2
      | none => exact hreset s2 hlo2
      | block tok isBlock startOff =>
        dsimp only
        cases hdt : d tok.text with
        | none => exact hreset s2 hlo2
        | some bp =>
          obtain ⟨b, p⟩ := bp
          dsimp only
          split
          · exact hreset s2 hlo2
          · simp only [getNextId_bind]
            have h3 := hd _ _ _ hdt ⟨tok.text, tok.fileid, tok.line⟩ { s2 with seqId := s2.seqId + 1 }
              (s2.seqId + 1) (Nat.le_refl _)
            have h3' : MQ lo (p ⟨tok.text, tok.fileid, tok.line⟩ e { s2 with seqId := s2.seqId + 1 })
                (fun g s3 => UidOk g ∧ s2.seqId + 1 ≤ s3.seqId) := by
              cases hr : p ⟨tok.text, tok.fileid, tok.line⟩ e { s2 with seqId := s2.seqId + 1 } with
              | ok g s3 => rw [hr] at h3; exact ⟨by have := h3.1; omega, h3.2, h3.1⟩
              | err d s3 => rw [hr] at h3; have : s2.seqId + 1 ≤ s3.seqId := h3; show lo ≤ s3.seqId; omega
              | panic => trivial
              | fuel => trivial
            refine MQ.bind h3' ?_
            intro data s3 hlo3 hq3
            refine MQ.bind (Q1 := fun _ s4 => s3.seqId ≤ s4.seqId) ?_ ?_
            · have := endOfTagged_mono ⟨tok.text, tok.fileid, tok.line⟩ tok.text isBlock s3 s3.seqId (Nat.le_refl _) (e := e)
              cases hr : endOfTagged ⟨tok.text, tok.fileid, tok.line⟩ tok.text isBlock e s3 with
              | ok a s4 => rw [hr] at this; exact ⟨Nat.le_trans hlo3 this.1, this.1⟩
              | err d s4 => rw [hr] at this; exact Nat.le_trans hlo3 this
              | panic => trivial
              | fuel => trivial
            · intro endOff s4 hlo4 hs4
              refine MQ.pure hlo4 ?_
              intro it hit
              cases hit
              exact ⟨by show s.seqId < s2.seqId + 1; omega, by show s2.seqId + 1 ≤ s4.seqId; omega,
                uidOk_makeBlock _ _ hq3.1⟩
    · intro d' s2 hlo2
      simp only [setTokenpos_bind]
      exact MQ.pure hlo2 (fun it h => by cases h)

theorem uidOk_none : UidOk .none := by simp [UidOk]
theorem uidOk_int (w off : Nat) (v : Int) (hex : Bool) : UidOk (.int w off v hex) := by simp [UidOk]
theorem uidOk_float (off : Nat) (t : List Char) : UidOk (.float off t) := by simp [UidOk]
theorem uidOk_double (off : Nat) (t : List Char) : UidOk (.double off t) := by simp [UidOk]
theorem uidOk_str (off : Nat) (t : List Char) : UidOk (.str off t) := by simp [UidOk]
theorem uidOk_enumItem (off : Nat) (t : List Char) : UidOk (.enumItem off t) := by simp [UidOk]

/-- strengthening of a `MQ` result by what it says relative to the start state -/
theorem MQ.rel {α} {m : PM α} {s : PState} {lo : Nat} {Q : α → PState → Prop} (hlo : lo ≤ s.seqId)
    (h : MQ s.seqId (m e s) Q) : MQ lo (m e s) (fun a s' => Q a s' ∧ s.seqId ≤ s'.seqId) := by
  cases hr : m e s with
  | ok a s1 => rw [hr] at h; exact ⟨Nat.le_trans hlo h.1, h.2, h.1⟩
  | err d s1 => rw [hr] at h; exact Nat.le_trans hlo h
  | panic => trivial
  | fuel => trivial

/-- the items appended by a loop: increasing uids, all handed out since `s` -/
def ItemsQ (s : PState) (new : List (TItem Gen)) (s' : PState) : Prop :=
  UidOkT new ∧ ∀ x ∈ new, s.seqId < x.uid ∧ x.uid ≤ s'.seqId

theorem ItemsQ.cons {s s1 s' : PState} {it : TItem Gen} {new : List (TItem Gen)}
    (hit : s.seqId < it.uid ∧ it.uid ≤ s1.seqId ∧ UidOk it.data) (h : ItemsQ s1 new s') (h1 : s1.seqId ≤ s'.seqId) :
    ItemsQ s (it :: new) s' := by
  refine ⟨?_, ?_⟩
  · rw [uidOkT_cons]
    exact ⟨by omega, fun x hx => by have := h.2 x hx; omega, hit.2.2, h.1⟩
  · intro x hx
    rcases List.mem_cons.1 hx with rfl | hx'
    · exact ⟨hit.1, by omega⟩
    · have := h.2 x hx'; exact ⟨by omega, this.2⟩

theorem tsLoop_uid {d : List Char → Option (Bool × (Ctx → PM Gen))} (hd : UidD d e) (rep : List Char → Bool) (ctx : Ctx) :
    ∀ (fuel : Nat) (acc : List (TItem Gen)) (s : PState) (lo : Nat), lo ≤ s.seqId →
    MQ lo (tsLoop d rep ctx fuel acc e s) (fun vs s' => ∃ new, vs = acc.reverse ++ new ∧ ItemsQ s new s' ∧ s.seqId ≤ s'.seqId)
  | 0, _, _, _, _ => trivial
  | fuel + 1, acc, s, lo, hlo => by
    rw [tsLoop]
    refine MQ.bind (MQ.rel hlo (taggedItem_uid hd ctx s s.seqId (Nat.le_refl _))) ?_
    intro r s1 hlo1 hq
    cases r with
    | none => exact MQ.pure hlo1 ⟨[], by simp, ⟨by rw [uidOkT_nil]; trivial, fun x hx => (by cases hx)⟩, hq.2⟩
    | some it =>
      dsimp only
      split
      · exact MQ.fail hlo1
      refine MQ.weaken (tsLoop_uid hd rep ctx fuel (it :: acc) s1 lo hlo1) (Nat.le_refl _) ?_
      intro vs s' ⟨new, hvs, hnew, hmono⟩
      refine ⟨it :: new, by simp [hvs], ItemsQ.cons (hq.1 it rfl) hnew hmono, by have := hq.2; omega⟩

theorem scalar_uid {α} {m : PM α} (hm : Mono m e) {g : α → Nat → Gen} (hg : ∀ v off, UidOk (g v off)) :
    UidP (m >>= fun v => getLineOffset >>= fun off => pure (g v off)) e := by
  intro s lo hlo
  refine MQ.bind (hm s lo hlo) ?_
  intro v s1 hlo1 _
  refine MQ.lineOffset ?_
  intro off
  exact MQ.pure hlo1 (hg v off)

mutual
theorem itemP_uid (f32 : List Char → Option (List Char)) : ∀ (sp : Spec) (ctx : Ctx), UidP (itemP f32 sp ctx) e
  | .none, ctx => by
    intro s lo hlo; rw [itemP]; exact MQ.pure hlo uidOk_none
  | .int w, ctx => by
    intro s lo hlo
    rw [itemP]
    refine MQ.bind (getInteger_mono ctx w s lo hlo) ?_
    intro ⟨v, hex⟩ s1 hlo1 _
    refine MQ.lineOffset ?_
    intro off
    exact MQ.pure hlo1 (uidOk_int ..)
  | .float, ctx => by
    rw [itemP]; exact scalar_uid (getFloat_mono f32 ctx) (fun _ _ => uidOk_float ..)
  | .double, ctx => by
    rw [itemP]; exact scalar_uid (getDouble_mono ctx) (fun _ _ => uidOk_double ..)
  | .array of dim, ctx => by
    intro s lo hlo
    rw [itemP.eq_def]
    dsimp only
    split
    · exact scalar_uid (getStringMaxlen_mono ctx dim) (fun _ _ => uidOk_str ..) s lo hlo
    · refine MQ.bind (arrayLoop_uid (itemP_uid f32 of ctx) dim s lo hlo) ?_
      intro vs s1 hlo1 hvs
      exact MQ.pure hlo1 (by rw [uidOk_array]; exact hvs)
  | .enum items, ctx => by
    intro s lo hlo
    rw [itemP]
    refine MQ.bind (getIdentifier_mono ctx s lo hlo) ?_
    intro v s1 hlo1 _
    refine MQ.lineOffset ?_
    intro off
    split
    · exact MQ.pure hlo1 (uidOk_enumItem ..)
    · exact MQ.fail hlo1
  | .struct items, ctx => by
    intro s lo hlo
    rw [itemP]
    refine MQ.bind (itemsP_uid f32 items ctx s lo hlo) ?_
    intro vs s1 hlo1 hvs
    exact MQ.pure hlo1 (by rw [uidOk_struct]; exact hvs)
  | .seq of, ctx => by
    intro s lo hlo
    rw [itemP]
    simp only [getEnv_bind]
    refine MQ.bind (seqLoop_uid (itemP_uid f32 of ctx) _ [] s lo hlo (by rw [List.reverse_nil, uidOkL_nil]; trivial)) ?_
    intro vs s1 hlo1 hvs
    exact MQ.pure hlo1 (by rw [uidOk_seq]; exact hvs)
  | .taggedStruct items, ctx => by
    intro s lo hlo
    rw [itemP]
    simp only [getEnv_bind]
    refine MQ.bind (tsLoop_uid (dispatch_uid f32 items) _ ctx _ [] s lo hlo) ?_
    intro vs s1 hlo1 ⟨new, hvs, hnew, _⟩
    refine MQ.pure hlo1 ?_
    rw [uidOk_ts, hvs]
    simpa using hnew.1
  | .taggedUnion items, ctx => by
    intro s lo hlo
    rw [itemP]
    refine MQ.bind (taggedItem_uid (dispatch_uid f32 items) ctx s lo hlo) ?_
    intro r s1 hlo1 hq
    cases r with
    | none => exact MQ.pure hlo1 (by rw [uidOk_tu, uidOkT_nil]; trivial)
    | some it =>
      refine MQ.pure hlo1 ?_
      have := hq it rfl
      rw [uidOk_tu, uidOkT_cons, uidOkT_nil]
      exact ⟨by omega, fun x hx => (by cases hx), this.2.2, trivial⟩

theorem itemsP_uid (f32 : List Char → Option (List Char)) : ∀ (l : List Spec) (ctx : Ctx) (s : PState) (lo : Nat),
    lo ≤ s.seqId → MQ lo (itemsP f32 l ctx e s) (fun vs _ => UidOkL vs)
  | [], ctx, s, lo, hlo => by
    rw [itemsP]; exact MQ.pure hlo (by rw [uidOkL_nil]; trivial)
  | sp :: rest, ctx, s, lo, hlo => by
    rw [itemsP]
    refine MQ.bind (itemP_uid f32 sp ctx s lo hlo) ?_
    intro v s1 hlo1 hv
    refine MQ.bind (itemsP_uid f32 rest ctx s1 lo hlo1) ?_
    intro vs s2 hlo2 hvs
    exact MQ.pure hlo2 (by rw [uidOkL_cons]; exact ⟨hv, hvs⟩)

theorem dispatch_uid (f32 : List Char → Option (List Char)) : ∀ (l : List (Tagged Spec)), UidD (dispatch f32 l) e
  | [] => by
    intro tag b p h; rw [dispatch] at h; cases h
  | t :: rest => by
    intro tag b p h
    rw [dispatch] at h
    split at h
    · cases h
      intro ctx
      exact itemP_uid f32 t.item ctx
    · exact dispatch_uid f32 rest tag b p h
end

theorem fromSpec_uid (f32 : List Char → Option (List Char)) (ctx : Ctx) (sp : Spec) (s : PState) (lo : Nat)
    (hlo : lo ≤ s.seqId) : MQ lo (fromSpec f32 ctx sp e s) (fun r _ => ∀ g, r = some g → UidOk g) := by
  unfold fromSpec
  simp only [getTokenpos_bind]
  have hreset : ∀ s1 : PState, lo ≤ s1.seqId →
      MQ lo ((do setTokenpos s.pos; pure (none : Option Gen) : PM _) e s1) (fun r _ => ∀ g, r = some g → UidOk g) := by
    intro s1 h1
    simp only [setTokenpos_bind]
    exact MQ.pure h1 (fun g h => by cases h)
  refine MQ.attemptB (itemP_uid f32 sp ctx s lo hlo) ?_ ?_
  · intro g s1 hlo1 hg
    dsimp only
    simp only [getEnv_bind]
    refine MQ.bind (skipComments_mono ctx _ s1 lo hlo1) ?_
    intro _ s2 hlo2 _
    simp only [peekToken_bind]
    cases e.toks[s2.pos]? with
    | none => exact hreset s2 hlo2
    | some t =>
      dsimp only
      split
      · exact MQ.pure hlo2 (fun g' h => by cases h; exact uidOk_makeBlock _ _ hg)
      · exact hreset s2 hlo2
  · intro d s1 hlo1
    exact hreset s1 hlo1

theorem trySpecs_uid (f32 : List Char → Option (List Char)) (ctx : Ctx) : ∀ (specs : List Spec) (s : PState) (lo : Nat),
    lo ≤ s.seqId → MQ lo (trySpecs f32 ctx specs e s) (fun r _ => ∀ g, r = some g → UidOk g)
  | [], s, lo, hlo => by
    rw [trySpecs]; exact MQ.pure hlo (fun g h => by cases h)
  | sp :: rest, s, lo, hlo => by
    rw [trySpecs]
    refine MQ.bind (fromSpec_uid f32 ctx sp s lo hlo) ?_
    intro r s1 hlo1 hr
    cases r with
    | some g => exact MQ.pure hlo1 hr
    | none => exact trySpecs_uid f32 ctx rest s1 lo hlo1

/-! ## the fallback -/

structure AllUid (e : Env) (fuel : Nat) : Prop where
  u : ∀ ctx isB dp acc (s : PState) lo, lo ≤ s.seqId → UidOkL acc.reverse →
    MQ lo (unknownIfdata fuel ctx isB dp acc e s) (fun g _ => UidOk g)
  ts : ∀ ctx dp (s : PState) lo, lo ≤ s.seqId → MQ lo (unknownTaggedstruct fuel ctx dp e s) (fun g _ => UidOk g)
  l : ∀ ctx dp acc (s : PState) lo, lo ≤ s.seqId →
    MQ lo (unknownTsLoop fuel ctx dp acc e s)
      (fun vs s' => ∃ new, vs = acc.reverse ++ new ∧ ItemsQ s new s' ∧ s.seqId ≤ s'.seqId)

theorem allUid_zero : AllUid e 0 := by
  constructor
  · intro ctx isB dp acc s lo _ _; rw [unknownIfdata.eq_def]; trivial
  · intro ctx dp s lo _; rw [unknownTaggedstruct.eq_def]; trivial
  · intro ctx dp acc s lo _; rw [unknownTsLoop.eq_def]; trivial

theorem u_scalar_uid {α} {fuel : Nat} (ih : AllUid e fuel) {m : PM α} (hm : Mono m e) {g : α → Nat → Gen}
    (hg : ∀ v off, UidOk (g v off)) {ctx : Ctx} {isB : Bool} {dp : Nat} {acc : List Gen} {s : PState} {lo : Nat}
    (hlo : lo ≤ s.seqId) (hacc : UidOkL acc.reverse) :
    MQ lo ((m >>= fun v => getLineOffset >>= fun off => unknownIfdata fuel ctx isB dp (g v off :: acc)) e s)
      (fun g _ => UidOk g) := by
  refine MQ.bind (hm s lo hlo) ?_
  intro v s1 hlo1 _
  refine MQ.lineOffset ?_
  intro off
  exact ih.u ctx isB dp _ s1 lo hlo1 (uidOkL_reverse_cons _ acc (hg v off) hacc)

theorem u_number_uid {fuel : Nat} (ih : AllUid e fuel) {ctx : Ctx} {isB : Bool} {dp : Nat} {acc : List Gen} {s : PState} {lo : Nat}
    (hlo : lo ≤ s.seqId) (hacc : UidOkL acc.reverse) (K : Except Diag (Int × Bool) → PM Gen) (w : Nat)
    (hok : ∀ v hex, K (.ok (v, hex)) = (getLineOffset >>= fun off => unknownIfdata fuel ctx isB dp (.int w off v hex :: acc)))
    (herr : ∀ d s1, lo ≤ s1.seqId → MQ lo (K (.error d) e s1) (fun g _ => UidOk g)) :
    MQ lo ((attempt (getInteger ctx w) >>= K) e s) (fun g _ => UidOk g) := by
  refine MQ.attemptB (getInteger_mono ctx w s lo hlo) ?_ herr
  intro ⟨v, hex⟩ s1 hlo1 _
  rw [hok]
  refine MQ.lineOffset ?_
  intro off
  exact ih.u ctx isB dp _ s1 lo hlo1 (uidOkL_reverse_cons _ acc (uidOk_int ..) hacc)

theorem undo_uid {β} {lo : Nat} {f : Unit → PM β} {s : PState} {Q : β → PState → Prop}
    (h : ∀ s1 : PState, s1.seqId = s.seqId → MQ lo (f () e s1) Q) : MQ lo ((undoGetToken >>= f) e s) Q := by
  rw [undo_bind]
  split
  · trivial
  · exact h _ rfl

theorem u_uid_step {fuel : Nat} (ih : AllUid e fuel) (ctx : Ctx) (isB : Bool) (dp : Nat) (acc : List Gen) (s : PState)
    (lo : Nat) (hlo : lo ≤ s.seqId) (hacc : UidOkL acc.reverse) :
    MQ lo (unknownIfdata (fuel + 1) ctx isB dp acc e s) (fun g _ => UidOk g) := by
  rw [unknownIfdata.eq_def]
  dsimp only
  split
  · exact MQ.fail hlo
  simp only [peekToken_bind]
  have hdone : MQ lo ((Pure.pure (Gen.struct 0 acc.reverse) : PM Gen) e s) (fun g _ => UidOk g) :=
    MQ.pure hlo (by rw [uidOk_struct]; exact hacc)
  cases e.toks[s.pos]? with
  | none => exact MQ.fail hlo
  | some t =>
    dsimp only
    split
    · exact u_scalar_uid ih (getIdentifier_mono ctx) (fun _ _ => uidOk_enumItem ..) hlo hacc
    split
    · exact u_scalar_uid ih (getString_mono ctx) (fun _ _ => uidOk_str ..) hlo hacc
    split
    · refine u_number_uid ih hlo hacc _ 2 (fun _ _ => rfl) ?_
      intro _ s1 hlo1
      refine undo_uid ?_
      intro s2 h2
      refine u_number_uid ih (by omega) hacc _ 3 (fun _ _ => rfl) ?_
      intro _ s3 hlo3
      refine undo_uid ?_
      intro s4 h4
      refine u_number_uid ih (by omega) hacc _ 7 (fun _ _ => rfl) ?_
      intro _ s5 hlo5
      refine undo_uid ?_
      intro s6 h6
      exact u_scalar_uid ih (getDouble_mono ctx) (fun _ _ => uidOk_double ..) (by omega) hacc
    split
    · split
      · refine MQ.bind (ih.ts ctx dp s lo hlo) ?_
        intro ts s1 hlo1 hts
        exact ih.u ctx isB dp _ s1 lo hlo1 (uidOkL_reverse_cons _ acc hts hacc)
      · exact hdone
    split
    · exact hdone
    split
    · exact ih.u ctx isB dp acc s lo hlo hacc
    · refine MQ.bind (getToken_mono ctx s lo hlo) ?_
      intro _ s1 hlo1 _
      exact ih.u ctx isB dp acc s1 lo hlo1 hacc

theorem ts_uid_step {fuel : Nat} (ih : AllUid e fuel) (ctx : Ctx) (dp : Nat) (s : PState) (lo : Nat)
    (hlo : lo ≤ s.seqId) :
    MQ lo (unknownTaggedstruct (fuel + 1) ctx dp e s) (fun g _ => UidOk g) := by
  rw [unknownTaggedstruct.eq_def]
  dsimp only
  simp only [getEnv_bind]
  refine MQ.bind (skipComments_mono ctx _ s lo hlo) ?_
  intro _ s1 hlo1 _
  refine MQ.bind (ih.l ctx dp [] s1 lo hlo1) ?_
  intro items s2 hlo2 ⟨new, hitems, hnew, _⟩
  have hok : UidOk (.taggedStruct items) := by
    rw [uidOk_ts, hitems]; simpa using hnew.1
  simp only [peekToken_bind]
  cases e.toks[s2.pos]? with
  | none => exact MQ.pure hlo2 hok
  | some t =>
    dsimp only
    split
    · exact MQ.fail hlo2
    · exact MQ.pure hlo2 hok

theorem l_uid_step {fuel : Nat} (ih : AllUid e fuel) (ctx : Ctx) (dp : Nat) (acc : List (TItem Gen)) (s : PState)
    (lo : Nat) (hlo : lo ≤ s.seqId) :
    MQ lo (unknownTsLoop (fuel + 1) ctx dp acc e s)
      (fun vs s' => ∃ new, vs = acc.reverse ++ new ∧ ItemsQ s new s' ∧ s.seqId ≤ s'.seqId) := by
  refine MQ.weaken (lo := s.seqId) ?_ hlo (fun _ _ h => h)
  rw [unknownTsLoop.eq_def]
  dsimp only
  have hstop : ∀ s1 : PState, s.seqId ≤ s1.seqId →
      MQ s.seqId ((Pure.pure acc.reverse : PM (List (TItem Gen))) e s1)
        (fun vs s' => ∃ new, vs = acc.reverse ++ new ∧ ItemsQ s new s' ∧ s.seqId ≤ s'.seqId) := by
    intro s1 h1
    exact MQ.pure h1 ⟨[], by simp, ⟨by rw [uidOkT_nil]; trivial, fun x hx => (by cases hx)⟩, h1⟩
  refine MQ.attemptB (getNextTagOrComment_mono ctx s s.seqId (Nat.le_refl _)) ?_ ?_
  · intro bc s1 hlo1 _
    cases bc with
    | comment tok off =>
      refine MQ.weaken (ih.l ctx dp acc s1 s.seqId hlo1) (Nat.le_refl _) ?_
      intro vs s' ⟨new, hvs, hnew, hmono⟩
      refine ⟨new, hvs, ⟨hnew.1, fun x hx => ?_⟩, by omega⟩
      have := hnew.2 x hx
      exact ⟨by omega, this.2⟩
    | none => exact hstop s1 hlo1
    | block tok isBlock startOff =>
      dsimp only
      simp only [getNextId_bind]
      have hu := ih.u ⟨tok.text, tok.fileid, tok.line⟩ isBlock (dp + 1) [] { s1 with seqId := s1.seqId + 1 } (s1.seqId + 1)
        (Nat.le_refl _) (by rw [List.reverse_nil, uidOkL_nil]; trivial)
      refine MQ.bind (MQ.rel (s := { s1 with seqId := s1.seqId + 1 }) (show s.seqId ≤ s1.seqId + 1 by omega) hu) ?_
      intro result s2 hlo2 hq2
      refine MQ.bind (MQ.rel hlo2 (endOfTagged_mono _ _ _ s2 s2.seqId (Nat.le_refl _))) ?_
      intro endOff s3 hlo3 hq3
      refine MQ.weaken (ih.l ctx dp _ s3 s.seqId hlo3) (Nat.le_refl _) ?_
      intro vs s' ⟨new, hvs, hnew, hmono⟩
      have h2 : s1.seqId + 1 ≤ s2.seqId := hq2.2
      refine ⟨(⟨tok.line, s1.seqId + 1, startOff, endOff, tok.text, result, isBlock⟩ : TItem Gen) :: new, by simp [hvs],
        ItemsQ.cons (s1 := s3) ⟨?_, ?_, hq2.1⟩ hnew hmono, ?_⟩
      · show s.seqId < s1.seqId + 1; omega
      · show s1.seqId + 1 ≤ s3.seqId; have := hq3.2; omega
      · omega
  · intro d s1 hlo1
    exact hstop s1 hlo1

theorem allUid (e : Env) : ∀ fuel, AllUid e fuel
  | 0 => allUid_zero
  | fuel + 1 =>
    have ih := allUid e fuel
    ⟨fun ctx isB dp acc s lo hlo hacc => u_uid_step ih ctx isB dp acc s lo hlo hacc,
     fun ctx dp s lo hlo => ts_uid_step ih ctx dp s lo hlo,
     fun ctx dp acc s lo hlo => l_uid_step ih ctx dp acc s lo hlo⟩

theorem unknownStart_uid (ctx : Ctx) (s : PState) (lo : Nat) (hlo : lo ≤ s.seqId) :
    MQ lo (unknownStart ctx e s) (fun g _ => UidOk g) := by
  unfold unknownStart
  simp only [getEnv_bind, peekToken_bind]
  have hA := allUid e (unknownFuel e.toks.size)
  have hnil : UidOkL ([] : List Gen).reverse := by rw [List.reverse_nil, uidOkL_nil]; trivial
  cases e.toks[s.pos]? with
  | none => exact hA.u ctx true 0 [] s lo hlo hnil
  | some t =>
    dsimp only
    split
    · refine MQ.bind (getToken_mono ctx s lo hlo) ?_
      intro token s1 hlo1 _
      refine MQ.lineOffset ?_
      intro startOff
      simp only [getNextId_bind]
      refine MQ.bind (hA.u _ true 0 [] { s1 with seqId := s1.seqId + 1 } lo (by show lo ≤ s1.seqId + 1; omega) hnil) ?_
      intro result s2 hlo2 hres
      refine undo_uid ?_
      intro s3 h3
      refine MQ.lineOffset ?_
      intro endOff
      refine MQ.attemptB (getToken_mono ctx s3 lo (by omega)) ?_ ?_
      · intro _ s4 hlo4 _
        refine MQ.pure hlo4 ?_
        rw [uidOk_block, uidOkL_cons, uidOkL_nil, uidOk_tu, uidOkT_cons, uidOkT_nil]
        exact ⟨⟨by show s1.seqId + 1 ≠ 0; omega, fun x hx => (by cases hx), hres, trivial⟩, trivial⟩
      · intro d s4 hlo4
        refine MQ.pure hlo4 ?_
        rw [uidOk_block, uidOkL_cons, uidOkL_nil, uidOk_tu, uidOkT_cons, uidOkT_nil]
        exact ⟨⟨by show s1.seqId + 1 ≠ 0; omega, fun x hx => (by cases hx), hres, trivial⟩, trivial⟩
    · exact hA.u ctx true 0 [] s lo hlo hnil

/-- **the data that `parse_ifdata` stores carries increasing non-zero uids** -/
theorem parseIfdata_uid (f32 : List Char → Option (List Char)) (specs : List Spec) (ctx : Ctx) (s : PState) :
    MQ s.seqId (parseIfdata f32 specs ctx e s) (fun r _ => ∀ g, r.1 = some g → UidOk g) := by
  unfold parseIfdata
  simp only [peekToken_bind]
  cases e.toks[s.pos]? with
  | none => exact MQ.pure (Nat.le_refl _) (fun g h => by cases h)
  | some t =>
    dsimp only
    split
    · refine MQ.bind (trySpecs_uid f32 ctx specs s s.seqId (Nat.le_refl _)) ?_
      intro r s1 hlo1 hr
      cases r with
      | some g => exact MQ.pure hlo1 (fun g' h => hr g' h)
      | none =>
        dsimp only
        refine MQ.bind (unknownStart_uid ctx s1 s.seqId hlo1) ?_
        intro g s2 hlo2 hg
        exact MQ.pure hlo2 (fun g' h => by cases h; exact hg)
    · exact MQ.pure (Nat.le_refl _) (fun g h => by cases h)

theorem parseIfdata_uidOk {f32 : List Char → Option (List Char)} {specs : List Spec} {ctx : Ctx} {s s' : PState}
    {g : Gen} {valid : Bool} (h : parseIfdata f32 specs ctx e s = .ok (some g, valid) s') : UidOk g := by
  have := parseIfdata_uid (e := e) f32 specs ctx s
  rw [h] at this
  exact this.2 g rfl

end A2l.IfData
