import A2lVerif.Lemmas.IfDataTop
/-!
# IF_DATA, part C': the nesting limit of the fallback bounds the height of the stored data

`genDepth g` is the height of a `GenericIfData` tree: the number of nested calls of `GenericIfData::write` /
`write_item` (and of every other function that walks the tree: `merge_includes`, `Drop`, `Clone`, `PartialEq`) that the
tree causes. `parse_unknown_ifdata` at depth `d` returns a tree of height at most `2 * (MAX_NESTING_DEPTH + 1 - d)`: two
levels (`Struct`, `TaggedStruct`) per nested block. No hypothesis on the tokens.

The second part is the limit seen from outside: `n` blocks inside each other are kept for `n ≤ MAX_NESTING_DEPTH` and
rejected with `NestingTooDeep` for every larger `n`.
-/
namespace A2l.IfData
open A2l.Tree A2l.Aml A2l.G A2l.Sc

variable {e : Env}

mutual
/-- the height of the tree: a leaf is 1 -/
def genDepth : Gen → Nat
  | .array items => genDepthL items + 1
  | .seq items => genDepthL items + 1
  | .struct _ items => genDepthL items + 1
  | .block _ items => genDepthL items + 1
  | .taggedStruct items => genDepthT items + 1
  | .taggedUnion items => genDepthT items + 1
  | .none => 1
  | .int _ _ _ _ => 1
  | .float _ _ => 1
  | .double _ _ => 1
  | .str _ _ => 1
  | .enumItem _ _ => 1
def genDepthL : List Gen → Nat
  | [] => 0
  | g :: rest => max (genDepth g) (genDepthL rest)
def genDepthT : List (TItem Gen) → Nat
  | [] => 0
  | it :: rest => max (genDepth it.data) (genDepthT rest)
end

theorem genDepthL_nil : genDepthL [] = 0 := by rw [genDepthL]
theorem genDepthL_cons (g : Gen) (rest : List Gen) : genDepthL (g :: rest) = max (genDepth g) (genDepthL rest) := by
  rw [genDepthL]
theorem genDepthT_nil : genDepthT [] = 0 := by rw [genDepthT]
theorem genDepthT_cons (it : TItem Gen) (rest : List (TItem Gen)) :
    genDepthT (it :: rest) = max (genDepth it.data) (genDepthT rest) := by rw [genDepthT]
theorem genDepth_struct (line : Nat) (items : List Gen) : genDepth (.struct line items) = genDepthL items + 1 := by
  rw [genDepth]
theorem genDepth_block (line : Nat) (items : List Gen) : genDepth (.block line items) = genDepthL items + 1 := by
  rw [genDepth]
theorem genDepth_taggedStruct (items : List (TItem Gen)) : genDepth (.taggedStruct items) = genDepthT items + 1 := by
  rw [genDepth]
theorem genDepth_taggedUnion (items : List (TItem Gen)) : genDepth (.taggedUnion items) = genDepthT items + 1 := by
  rw [genDepth]
theorem genDepth_enumItem (off : Nat) (v : List Char) : genDepth (.enumItem off v) = 1 := by rw [genDepth]
theorem genDepth_str (off : Nat) (v : List Char) : genDepth (.str off v) = 1 := by rw [genDepth]
theorem genDepth_int (w off : Nat) (v : Int) (hex : Bool) : genDepth (.int w off v hex) = 1 := by rw [genDepth]
theorem genDepth_double (off : Nat) (v : List Char) : genDepth (.double off v) = 1 := by rw [genDepth]

theorem genDepthL_append : ∀ (l1 l2 : List Gen), genDepthL (l1 ++ l2) = max (genDepthL l1) (genDepthL l2)
  | [], l2 => by rw [List.nil_append, genDepthL_nil, Nat.zero_max]
  | g :: l1, l2 => by
    rw [List.cons_append, genDepthL_cons, genDepthL_cons, genDepthL_append l1 l2, Nat.max_assoc]

theorem genDepthL_reverse : ∀ (l : List Gen), genDepthL l.reverse = genDepthL l
  | [] => rfl
  | g :: l => by
    rw [List.reverse_cons, genDepthL_append, genDepthL_reverse l, genDepthL_cons, genDepthL_cons, genDepthL_nil]
    omega

theorem genDepthT_append : ∀ (l1 l2 : List (TItem Gen)), genDepthT (l1 ++ l2) = max (genDepthT l1) (genDepthT l2)
  | [], l2 => by rw [List.nil_append, genDepthT_nil, Nat.zero_max]
  | g :: l1, l2 => by
    rw [List.cons_append, genDepthT_cons, genDepthT_cons, genDepthT_append l1 l2, Nat.max_assoc]

theorem genDepthT_reverse : ∀ (l : List (TItem Gen)), genDepthT l.reverse = genDepthT l
  | [] => rfl
  | g :: l => by
    rw [List.reverse_cons, genDepthT_append, genDepthT_reverse l, genDepthT_cons, genDepthT_cons, genDepthT_nil]
    omega

/-! ## the induction over the recursion of the fallback -/

/-- the bound for `parse_unknown_ifdata` at depth `dp` -/
def depthBound (dp : Nat) : Nat := 2 * (maxNestingDepth + 1 - dp)

/-- "if there is a result, it satisfies `Q`" -/
def DQ {α : Type} (Q : α → Prop) : PRes α → Prop
  | .ok a _ => Q a
  | _ => True

theorem DQ.bind {α β} {Q : β → Prop} {m : PM α} {f : α → PM β} {s : PState}
    (h : ∀ a s1, m e s = .ok a s1 → DQ Q (f a e s1)) : DQ Q ((m >>= f) e s) :=
  spec_bind (P := DQ Q) trivial trivial (fun _ _ _ => trivial) h

theorem DQ.lineOffset {β} {Q : β → Prop} {f : Nat → PM β} {s : PState} (h : ∀ n, DQ Q (f n e s)) :
    DQ Q ((getLineOffset >>= f) e s) :=
  spec_lineOffset (P := DQ Q) trivial h

theorem DQ.attempt {α β} {Q : β → Prop} {m : PM α} {f : Except Diag α → PM β} {s : PState}
    (herr : ∀ d s1, DQ Q (f (.error d) e s1)) (hok : ∀ a s1, DQ Q (f (.ok a) e s1)) : DQ Q ((attempt m >>= f) e s) :=
  spec_attempt (P := DQ Q) trivial trivial (fun d s1 _ => herr d s1) (fun a s1 _ => hok a s1)

theorem DQ.undo {β} {Q : β → Prop} {f : Unit → PM β} {s : PState} (h : ∀ s1, DQ Q (f () e s1)) :
    DQ Q ((undoGetToken >>= f) e s) := by
  rw [undo_bind]
  split
  · trivial
  · exact h _

structure AllD (e : Env) (fuel : Nat) : Prop where
  u : ∀ ctx isB dp acc s, (dp ≤ maxNestingDepth → genDepthL acc + 1 ≤ depthBound dp) →
    DQ (fun g => genDepth g ≤ depthBound dp) (unknownIfdata fuel ctx isB dp acc e s)
  ts : ∀ ctx dp s, dp ≤ maxNestingDepth →
    DQ (fun g => genDepth g + 1 ≤ depthBound dp) (unknownTaggedstruct fuel ctx dp e s)
  l : ∀ ctx dp acc s, dp ≤ maxNestingDepth → genDepthT acc ≤ depthBound (dp + 1) →
    DQ (fun items => genDepthT items ≤ depthBound (dp + 1)) (unknownTsLoop fuel ctx dp acc e s)

theorem allD_zero : AllD e 0 := by
  constructor
  · intro ctx isB dp acc s _; rw [unknownIfdata.eq_def]; trivial
  · intro ctx dp s _; rw [unknownTaggedstruct.eq_def]; trivial
  · intro ctx dp acc s _ _; rw [unknownTsLoop.eq_def]; trivial

/-- a scalar of the fallback: a leaf is added to the items -/
theorem u_scalar_d {α} {fuel : Nat} (ih : AllD e fuel) {m : PM α} {g : α → Nat → Gen} (hg : ∀ v off, genDepth (g v off) = 1)
    {ctx : Ctx} {isB : Bool} {dp : Nat} {acc : List Gen} {s : PState} (hdp : dp ≤ maxNestingDepth)
    (hacc : genDepthL acc + 1 ≤ depthBound dp) :
    DQ (fun g => genDepth g ≤ depthBound dp)
      ((m >>= fun v => getLineOffset >>= fun off => unknownIfdata fuel ctx isB dp (g v off :: acc)) e s) := by
  refine DQ.bind ?_
  intro v s1 _
  refine DQ.lineOffset ?_
  intro off
  refine ih.u ctx isB dp _ s1 ?_
  intro _
  rw [genDepthL_cons, hg]
  have : 2 ≤ depthBound dp := by unfold depthBound; omega
  omega

theorem u_number_d {fuel : Nat} (ih : AllD e fuel) {ctx : Ctx} {isB : Bool} {dp : Nat} {acc : List Gen} {s : PState}
    (hdp : dp ≤ maxNestingDepth) (hacc : genDepthL acc + 1 ≤ depthBound dp)
    (K : Except Diag (Int × Bool) → PM Gen) (w : Nat)
    (hok : ∀ v hex, K (.ok (v, hex)) = (getLineOffset >>= fun off => unknownIfdata fuel ctx isB dp (.int w off v hex :: acc)))
    (herr : ∀ d s1, DQ (fun g => genDepth g ≤ depthBound dp) (K (.error d) e s1)) :
    DQ (fun g => genDepth g ≤ depthBound dp) ((attempt (getInteger ctx w) >>= K) e s) := by
  refine DQ.attempt herr ?_
  intro ⟨v, hex⟩ s1
  rw [hok]
  refine DQ.lineOffset ?_
  intro off
  refine ih.u ctx isB dp _ s1 ?_
  intro _
  rw [genDepthL_cons, genDepth_int]
  have : 2 ≤ depthBound dp := by unfold depthBound; omega
  omega

theorem u_d_step {fuel : Nat} (ih : AllD e fuel) (ctx : Ctx) (isB : Bool) (dp : Nat) (acc : List Gen) (s : PState)
    (hacc' : dp ≤ maxNestingDepth → genDepthL acc + 1 ≤ depthBound dp) :
    DQ (fun g => genDepth g ≤ depthBound dp) (unknownIfdata (fuel + 1) ctx isB dp acc e s) := by
  rw [unknownIfdata.eq_def]
  dsimp only
  split
  · trivial
  rename_i hdp'
  have hdp : dp ≤ maxNestingDepth := by omega
  have hacc := hacc' hdp
  simp only [peekToken_bind]
  have hdone : DQ (fun g => genDepth g ≤ depthBound dp) ((Pure.pure (Gen.struct 0 acc.reverse) : PM Gen) e s) := by
    show genDepth (Gen.struct 0 acc.reverse) ≤ depthBound dp
    rw [genDepth_struct, genDepthL_reverse]
    exact hacc
  cases e.toks[s.pos]? with
  | none => trivial
  | some t =>
    dsimp only
    split
    · exact u_scalar_d ih (fun _ _ => genDepth_enumItem ..) hdp hacc
    split
    · exact u_scalar_d ih (fun _ _ => genDepth_str ..) hdp hacc
    split
    · refine u_number_d ih hdp hacc _ 2 (fun _ _ => rfl) ?_
      intro _ s1
      refine DQ.undo ?_
      intro s2
      refine u_number_d ih hdp hacc _ 3 (fun _ _ => rfl) ?_
      intro _ s3
      refine DQ.undo ?_
      intro s4
      refine u_number_d ih hdp hacc _ 7 (fun _ _ => rfl) ?_
      intro _ s5
      refine DQ.undo ?_
      intro s6
      exact u_scalar_d ih (fun _ _ => genDepth_double ..) hdp hacc
    split
    · split
      · refine DQ.bind ?_
        intro ts s1 h
        have hts := ih.ts ctx dp s hdp
        rw [h] at hts
        refine ih.u ctx isB dp _ s1 ?_
        intro _
        rw [genDepthL_cons]
        have : genDepth ts + 1 ≤ depthBound dp := hts
        omega
      · exact hdone
    split
    · exact hdone
    split
    · exact ih.u ctx isB dp acc s hacc'
    · refine DQ.bind ?_
      intro _ s1 _
      exact ih.u ctx isB dp acc s1 hacc'

theorem depthBound_succ {dp : Nat} (h : dp ≤ maxNestingDepth) : depthBound (dp + 1) + 2 = depthBound dp := by
  unfold depthBound
  omega

theorem ts_d_step {fuel : Nat} (ih : AllD e fuel) (ctx : Ctx) (dp : Nat) (s : PState) (hdp : dp ≤ maxNestingDepth) :
    DQ (fun g => genDepth g + 1 ≤ depthBound dp) (unknownTaggedstruct (fuel + 1) ctx dp e s) := by
  rw [unknownTaggedstruct.eq_def]
  dsimp only
  simp only [getEnv_bind]
  refine DQ.bind ?_
  intro _ s1 _
  refine DQ.bind ?_
  intro items s2 h
  have hl := ih.l ctx dp [] s1 hdp (by rw [genDepthT_nil]; exact Nat.zero_le _)
  rw [h] at hl
  have hitems : genDepthT items ≤ depthBound (dp + 1) := hl
  have hres : genDepth (Gen.taggedStruct items) + 1 ≤ depthBound dp := by
    rw [genDepth_taggedStruct, ← depthBound_succ hdp]
    omega
  simp only [peekToken_bind]
  cases e.toks[s2.pos]? with
  | none => exact hres
  | some t =>
    dsimp only
    split
    · trivial
    · exact hres

theorem l_d_step {fuel : Nat} (ih : AllD e fuel) (ctx : Ctx) (dp : Nat) (acc : List (TItem Gen)) (s : PState)
    (hdp : dp ≤ maxNestingDepth) (hacc : genDepthT acc ≤ depthBound (dp + 1)) :
    DQ (fun items => genDepthT items ≤ depthBound (dp + 1)) (unknownTsLoop (fuel + 1) ctx dp acc e s) := by
  rw [unknownTsLoop.eq_def]
  dsimp only
  have hstop : ∀ s1 : PState, DQ (fun items => genDepthT items ≤ depthBound (dp + 1))
      ((Pure.pure acc.reverse : PM (List (TItem Gen))) e s1) := by
    intro s1
    show genDepthT acc.reverse ≤ _
    rw [genDepthT_reverse]
    exact hacc
  refine DQ.attempt (fun d s1 => hstop s1) ?_
  intro bc s1
  cases bc with
  | comment tok off => exact ih.l ctx dp acc s1 hdp hacc
  | none => exact hstop s1
  | block tok isBlock startOff =>
    dsimp only
    simp only [getNextId_bind]
    refine DQ.bind ?_
    intro result s2 h
    have hu := ih.u ⟨tok.text, tok.fileid, tok.line⟩ isBlock (dp + 1) [] { s1 with seqId := s1.seqId + 1 }
      (by intro h1; rw [genDepthL_nil]; unfold depthBound; omega)
    rw [h] at hu
    have hres : genDepth result ≤ depthBound (dp + 1) := hu
    refine DQ.bind ?_
    intro endOff s3 _
    refine ih.l ctx dp _ s3 hdp ?_
    rw [genDepthT_cons]
    show max (genDepth result) _ ≤ _
    omega

theorem allD (e : Env) : ∀ fuel, AllD e fuel
  | 0 => allD_zero
  | fuel + 1 =>
    have ih := allD e fuel
    ⟨fun ctx isB dp acc s hacc => u_d_step ih ctx isB dp acc s hacc,
     fun ctx dp s hdp => ts_d_step ih ctx dp s hdp,
     fun ctx dp acc s hdp hacc => l_d_step ih ctx dp acc s hdp hacc⟩

/-- `parse_unknown_ifdata` called with `depth = dp` (and no items yet) returns a tree of height at most
    `2 * (MAX_NESTING_DEPTH + 1 - dp)`; in particular it returns nothing when `dp > MAX_NESTING_DEPTH` -/
theorem unknownIfdata_genDepth {fuel : Nat} {ctx : Ctx} {isB : Bool} {dp : Nat} {s : PState} {g : Gen} {s' : PState}
    (h : unknownIfdata fuel ctx isB dp [] e s = .ok g s') : genDepth g ≤ 2 * (maxNestingDepth + 1 - dp) := by
  have := (allD e fuel).u ctx isB dp [] s (by intro h1; rw [genDepthL_nil]; unfold depthBound; omega)
  rw [h] at this
  exact this

theorem unknownIfdata_ok_depth {fuel : Nat} {ctx : Ctx} {isB : Bool} {dp : Nat} {acc : List Gen} {s : PState} {g : Gen}
    {s' : PState} (h : unknownIfdata fuel ctx isB dp acc e s = .ok g s') : dp ≤ maxNestingDepth := by
  rcases Nat.lt_or_ge maxNestingDepth dp with hlt | hge
  · rcases unknownIfdata_deep (e := e) fuel ctx isB dp acc s hlt with h' | h' <;> rw [h'] at h <;> cases h
  · exact hge

/-- `parse_unknown_ifdata_start`: two more levels (`Block`, `TaggedUnion`) when the content starts with an identifier -/
theorem unknownStart_genDepth {ctx : Ctx} {s : PState} {g : Gen} {s' : PState} (h : unknownStart ctx e s = .ok g s') :
    genDepth g ≤ 2 * maxNestingDepth + 4 := by
  have key : DQ (fun g => genDepth g ≤ 2 * maxNestingDepth + 4) (unknownStart ctx e s) := by
    unfold unknownStart
    simp only [getEnv_bind, peekToken_bind]
    have hA := allD e (unknownFuel e.toks.size)
    have hnil : 0 ≤ maxNestingDepth → genDepthL [] + 1 ≤ depthBound 0 := by
      intro _; rw [genDepthL_nil]; unfold depthBound; omega
    have hdirect : ∀ ctx (s : PState), DQ (fun g => genDepth g ≤ 2 * maxNestingDepth + 4)
        (unknownIfdata (unknownFuel e.toks.size) ctx true 0 [] e s) := by
      intro ctx s
      have := hA.u ctx true 0 [] s hnil
      cases hr : unknownIfdata (unknownFuel e.toks.size) ctx true 0 [] e s with
      | ok g s1 =>
        rw [hr] at this
        have h1 : genDepth g ≤ depthBound 0 := this
        show genDepth g ≤ _
        unfold depthBound at h1
        omega
      | err d s1 => trivial
      | panic => trivial
      | fuel => trivial
    cases e.toks[s.pos]? with
    | none => exact hdirect ctx s
    | some t =>
      dsimp only
      split
      · refine DQ.bind ?_
        intro token s1 _
        refine DQ.lineOffset ?_
        intro startOff
        simp only [getNextId_bind]
        refine DQ.bind ?_
        intro result s2 hr
        have := hA.u ⟨token.text, token.fileid, token.line⟩ true 0 [] { s1 with seqId := s1.seqId + 1 } hnil
        rw [hr] at this
        have h1 : genDepth result ≤ depthBound 0 := this
        refine DQ.undo ?_
        intro s3
        refine DQ.lineOffset ?_
        intro endOff
        refine DQ.attempt ?_ ?_ <;>
        · intro _ s4
          show genDepth (Gen.block startOff [Gen.taggedUnion [_]]) ≤ _
          rw [genDepth_block, genDepthL_cons, genDepthL_nil, genDepth_taggedUnion, genDepthT_cons, genDepthT_nil]
          show max (max (genDepth result) 0 + 1) 0 + 1 ≤ _
          unfold depthBound at h1
          omega
      · exact hdirect ctx s
  rw [h] at key
  exact key

/-- `parse_ifdata`: data that is stored with the flag "invalid" comes from the fallback -/
theorem parseIfdata_invalid_genDepth {f32 : List Char → Option (List Char)} {specs : List Spec} {ctx : Ctx}
    {s s' : PState} {g : Gen} (h : parseIfdata f32 specs ctx e s = .ok (some g, false) s') :
    genDepth g ≤ 2 * maxNestingDepth + 4 := by
  unfold parseIfdata at h
  simp only [peekToken_bind] at h
  cases ht : e.toks[s.pos]? with
  | none => rw [ht] at h; cases h
  | some t =>
    rw [ht] at h
    dsimp only at h
    split at h
    · obtain ⟨r1, s1, h1, h2⟩ := bind_ok h
      cases r1 with
      | some g' => cases h2
      | none =>
        dsimp only at h2
        obtain ⟨g', s2, h3, h4⟩ := bind_ok h2
        cases h4
        exact unknownStart_genDepth h3
    · cases h

/-! ## `n` blocks inside each other -/

def tokBegin : PTok := { ty := 1, text := "/begin".toList, line := 1, sym := noSym }
def tokEnd : PTok := { ty := 2, text := "/end".toList, line := 1, sym := noSym }
def tokA : PTok := { ty := 0, text := ['a'], line := 1, sym := noSym }
def tokIfData : PTok := { ty := 0, text := ['I', 'F', '_', 'D', 'A', 'T', 'A'], line := 1, sym := noSym }

/-- `/begin a` `n` times -/
def opens : Nat → List PTok
  | 0 => []
  | n + 1 => tokBegin :: tokA :: opens n
/-- `/end a` `n` times -/
def closes : Nat → List PTok
  | 0 => []
  | n + 1 => tokEnd :: tokA :: closes n
/-- `/begin a /begin a ... /end a /end a /end IF_DATA`: the content of an IF_DATA block with `n` blocks inside each
    other, up to the end of the IF_DATA block -/
def nestedToks (n : Nat) : Array PTok := (opens n ++ (closes n ++ [tokEnd, tokIfData])).toArray

theorem scanV_opens (lim : Nat) (rest : List PTok) : ∀ (n : Nat) (st : List (List Char)), st.length ≤ lim →
    scanV lim .normal st (opens n ++ rest) =
      if lim < st.length + n then .tooDeep else scanV lim .normal (List.replicate n ['a'] ++ st) rest
  | 0, st, hst => by
    rw [opens, List.nil_append, if_neg (by omega)]
    rfl
  | n + 1, st, hst => by
    rw [opens, List.cons_append, List.cons_append, scanV_normal, if_pos (show tokBegin.ty = 1 from rfl), scanV_beginTag,
      if_neg (show ¬ tokA.ty = 6 by decide), if_pos (show tokA.ty = 0 from rfl)]
    by_cases hl : lim ≤ st.length
    · rw [if_pos hl, if_pos (by omega)]
    · rw [if_neg hl, scanV_opens lim rest n _ (by simp only [List.length_cons]; omega)]
      have hlen : (tokA.text :: st).length + n = st.length + (n + 1) := by simp only [List.length_cons]; omega
      rw [hlen]
      have hst : List.replicate n ['a'] ++ tokA.text :: st = List.replicate (n + 1) ['a'] ++ st := by
        rw [List.replicate_succ', List.append_assoc]
        rfl
      rw [hst]

theorem scanV_closes (lim : Nat) (rest : List PTok) : ∀ (n : Nat) (st : List (List Char)),
    scanV lim .normal (List.replicate n ['a'] ++ st) (closes n ++ rest) = scanV lim .normal st rest
  | 0, st => rfl
  | n + 1, st => by
    rw [closes, List.cons_append, List.cons_append, scanV_normal, if_neg (show ¬ tokEnd.ty = 1 by decide),
      if_pos (show tokEnd.ty = 2 from rfl), List.replicate_succ, List.cons_append]
    dsimp only
    rw [scanV_endTag, if_neg (show ¬ tokA.ty = 6 by decide), if_pos (show tokA.ty = 0 from rfl)]
    dsimp only
    rw [if_pos (show tokA.text = ['a'] from rfl)]
    exact scanV_closes lim rest n st

theorem verdictAt_nested (n : Nat) :
    verdictAt (nestedToks n) 0 = if maxNestingDepth < n then .tooDeep else .accept := by
  unfold verdictAt nestedToks
  rw [List.drop_zero, scanV_opens _ _ _ _ (Nat.zero_le _)]
  simp only [List.length_nil, Nat.zero_add, List.append_nil]
  split
  · rfl
  · have := scanV_closes maxNestingDepth [tokEnd, tokIfData] n []
    rw [List.append_nil] at this
    rw [this]
    rfl

/-- the tokens of `nestedToks` -/
def Plain (t : PTok) : Prop := t = tokBegin ∨ t = tokEnd ∨ t = tokA ∨ t = tokIfData

theorem plain_opens : ∀ (n : Nat) (t : PTok), t ∈ opens n → Plain t
  | 0, t, h => by rw [opens] at h; cases h
  | n + 1, t, h => by
    rw [opens] at h
    rcases List.mem_cons.1 h with rfl | h
    · exact .inl rfl
    · rcases List.mem_cons.1 h with rfl | h
      · exact .inr (.inr (.inl rfl))
      · exact plain_opens n t h

theorem plain_closes : ∀ (n : Nat) (t : PTok), t ∈ closes n → Plain t
  | 0, t, h => by rw [closes] at h; cases h
  | n + 1, t, h => by
    rw [closes] at h
    rcases List.mem_cons.1 h with rfl | h
    · exact .inr (.inl rfl)
    · rcases List.mem_cons.1 h with rfl | h
      · exact .inr (.inr (.inl rfl))
      · exact plain_closes n t h

theorem plain_nested (n : Nat) (i : Nat) (h : i < (nestedToks n).size) : Plain (nestedToks n)[i] := by
  have hm : (nestedToks n)[i] ∈ (nestedToks n).toList := by
    rw [Array.mem_toList_iff]; exact Array.getElem_mem h
  unfold nestedToks at hm
  rw [List.toList_toArray] at hm
  rcases List.mem_append.1 hm with h1 | h1
  · exact plain_opens n _ h1
  · rcases List.mem_append.1 h1 with h2 | h2
    · exact plain_closes n _ h2
    · rcases List.mem_cons.1 h2 with h3 | h3
      · exact .inr (.inl h3)
      · rcases List.mem_cons.1 h3 with h4 | h4
        · exact .inr (.inr (.inr h4))
        · cases h4

theorem plain_facts {t : PTok} (h : Plain t) :
    t.line = 1 ∧ t.ty ≤ 2 ∧ (t.ty = 0 → t.text ≠ [] ∧ IdentOk t) := by
  rcases h with rfl | rfl | rfl | rfl
  · exact ⟨rfl, by decide, fun h => by cases h⟩
  · exact ⟨rfl, by decide, fun h => by cases h⟩
  · exact ⟨rfl, by decide, fun _ => ⟨by decide,
      show ¬ (isAsciiDigit 'a' || decide (utf8Len ['a'] > 1024)) = true by decide⟩⟩
  · exact ⟨rfl, by decide, fun _ => ⟨by decide,
      show ¬ (isAsciiDigit 'I' || decide (utf8Len ['I', 'F', '_', 'D', 'A', 'T', 'A'] > 1024)) = true by decide⟩⟩

theorem nested_size_pos (n : Nat) : 0 < (nestedToks n).size := by
  unfold nestedToks
  simp only [List.size_toArray, List.length_append, List.length_cons, List.length_nil]
  omega

theorem nested_tokOk (n : Nat) : TokOk (nestedToks n) := by
  refine ⟨?_, ?_, ?_, ?_⟩
  · intro i hi; rw [(plain_facts (plain_nested n i hi)).1]; exact Nat.le_refl _
  · intro i j hi hj _; rw [(plain_facts (plain_nested n i hi)).1, (plain_facts (plain_nested n j hj)).1]
    exact Nat.le_refl _
  · intro i hi h0; exact ((plain_facts (plain_nested n i hi)).2.2 h0).1
  · intro i j hi hj _ h6
    have := (plain_facts (plain_nested n i hi)).2.1
    omega

theorem nested_get (n : Nat) (strict : Bool) {i : Nat} {t : PTok} (ht : (specialEnv (nestedToks n) strict).toks[i]? = some t) :
    Plain t := by
  have hlt := lt_of_getElem?_some ht
  rw [show (specialEnv (nestedToks n) strict).toks = nestedToks n from rfl, getElem?_pos (nestedToks n) i hlt] at ht
  cases ht
  exact plain_nested n i hlt

theorem nested_noInc (n : Nat) (strict : Bool) : NoInc (specialEnv (nestedToks n) strict) := by
  intro i t ht
  have := (plain_facts (nested_get n strict ht)).2.1
  omega

theorem nested_atomsOk (n : Nat) (strict : Bool) : AtomsOk (specialEnv (nestedToks n) strict) := by
  intro i t ht
  have hf := plain_facts (nested_get n strict ht)
  refine ⟨by omega, fun h5 => by omega, fun h0 _ => (hf.2.2 h0).2⟩

/-- the limit seen from outside -/
theorem unknownStart_nested (n : Nat) (strict : Bool) (ctx : Ctx) (s : PState) (hs : s.pos = 0) :
    (n ≤ maxNestingDepth → ∃ g s', unknownStart ctx (specialEnv (nestedToks n) strict) s = .ok g s') ∧
    (maxNestingDepth < n →
      ∃ line s', unknownStart ctx (specialEnv (nestedToks n) strict) s = .err ⟨.nestingTooDeep, line⟩ s') := by
  obtain ⟨h1, h2, _⟩ := unknownStart_verdict (nestedToks n) strict (fun _ => none) (nested_tokOk n) (nested_size_pos n)
    (nested_noInc n strict) (nested_atomsOk n strict) ctx s (by rw [hs]; exact Nat.zero_le _)
  rw [hs, verdictAt_nested] at h1 h2
  constructor
  · intro hn
    rw [if_neg (by omega)] at h1
    obtain ⟨g, s', h, _⟩ := h1 rfl
    exact ⟨g, s', h⟩
  · intro hn
    rw [if_pos hn] at h2
    exact h2 rfl

end A2l.IfData
