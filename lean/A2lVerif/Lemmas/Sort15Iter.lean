import A2lVerif.Lemmas.Sort15Ties
/-! C15 over k calls: the invariant of `Sort15Ties` (no duplicate keys, single sections single, object lists tie-sorted)
    survives a call; hence any number of calls that return keeps the written order of the elements placed at the start. -/
namespace A2l.Srt.L15
open List A2l.ListOrder

/-! ### keys are untouched -/

theorem sortOptional_keys {es es' : List Elem} {n n' : Nat} (h : sortOptional es n = .ok (es', n')) :
    es'.map Elem.key = es.map Elem.key := by
  match es with
  | [] => simp [sortOptional] at h; obtain ⟨rfl, -⟩ := h; rfl
  | a :: rest =>
    rw [sortOptional] at h
    by_cases hu : a.uid = 0
    · simp only [hu, ↓reduceIte, Out.ok.injEq, Prod.mk.injEq] at h
      obtain ⟨rfl, -⟩ := h
      simp [Elem.key]
    · simp only [hu, ↓reduceIte, dbl] at h
      by_cases h2 : 2 * a.uid ≤ u32max
      · simp only [h2, ↓reduceIte] at h
        by_cases h3 : 2 * a.uid + 1 ≤ u32max
        · simp only [h3, ↓reduceIte, Out.ok.injEq, Prod.mk.injEq] at h
          obtain ⟨rfl, -⟩ := h
          simp [Elem.key]
        · simp [h3] at h
      · simp [h2] at h

theorem doubleAll_keys (es : List Elem) : ∀ es', doubleAll es = .ok es' → es'.map Elem.key = es.map Elem.key := by
  induction es with
  | nil => intro _ h; simp [doubleAll] at h; subst h; rfl
  | cons a es ih =>
    intro es' h
    rw [doubleAll] at h
    by_cases h2 : 2 * a.uid ≤ u32max
    · cases hr : doubleAll es with
      | panic => simp [dbl, h2, hr] at h
      | ok es'' =>
        simp [dbl, h2, hr] at h
        subst h
        simp [ih _ hr, Elem.key]
    · simp [dbl, h2] at h

theorem keepF_keys (M : Nat) (es : List Elem) : ∀ es', es.foldr (keepF M) (.ok []) = .ok es' →
    es'.map Elem.key = es.map Elem.key := by
  induction es with
  | nil => intro _ h; simp at h; subst h; rfl
  | cons a es ih =>
    intro es' h
    rw [List.foldr_cons] at h
    cases hr : es.foldr (keepF M) (.ok []) with
    | panic => simp [keepF, hr] at h
    | ok rest =>
      simp only [keepF, hr] at h
      by_cases hu : a.uid = 0
      · simp only [hu, ne_eq, not_true_eq_false, ↓reduceIte, dblInc] at h
        by_cases h3 : 2 * M + 1 ≤ u32max
        · simp only [h3, ↓reduceIte, Out.ok.injEq] at h
          subst h
          simp [ih _ hr, Elem.key]
        · simp [h3] at h
      · simp only [ne_eq, hu, not_false_eq_true, ↓reduceIte, dbl] at h
        by_cases h2 : 2 * a.uid ≤ u32max
        · simp only [h2, ↓reduceIte, Out.ok.injEq] at h
          subst h
          simp [ih _ hr, Elem.key]
        · simp [h2] at h

theorem sortKeepList_keys {es es' : List Elem} (h : sortKeepList es = .ok es') :
    es'.map Elem.key = es.map Elem.key := by
  rw [sortKeepList_eq] at h
  split at h
  · simp only [Out.ok.injEq] at h; subst h; rfl
  · exact keepF_keys _ _ _ h

theorem sortObjectlistNew_keys {es es' : List Elem} (h : sortObjectlistNew es = .ok es') :
    (es'.map Elem.key).Perm (es.map Elem.key) := by
  have h' : renumber 0 (es.mergeSort newLe) = .ok es' := h
  rw [renumber_keys _ _ _ h']
  exact (List.mergeSort_perm es newLe).map _

theorem sniSections_keys (rs : List RSection) : ∀ (next : Nat) (rs' : List RSection),
    sniSections next rs = .ok rs' →
    ((rs'.flatMap (·.sec.elems)).map Elem.key).Perm ((rs.flatMap (·.sec.elems)).map Elem.key) := by
  induction rs with
  | nil => intro _ _ h; simp [sniSections] at h; subst h; exact List.Perm.refl _
  | cons r rs ih =>
    intro next rs' h
    rw [sniSections] at h
    simp only [List.flatMap_cons, List.map_append]
    cases hrule : r.rule <;> simp only [hrule] at h
    · cases h1 : sortOptional r.sec.elems next with
      | panic => simp [h1] at h
      | ok p =>
        obtain ⟨es, n'⟩ := p
        simp only [h1] at h
        cases h2 : sniSections n' rs with
        | panic => simp [h2] at h
        | ok rs'' =>
          simp only [h2, Out.ok.injEq] at h
          subst h
          simp only [List.flatMap_cons, List.map_append, sortOptional_keys h1]
          exact List.Perm.append_left _ (ih _ _ h2)
    · cases h1 : sortKeepList r.sec.elems with
      | panic => simp [h1] at h
      | ok es =>
        simp only [h1] at h
        cases h2 : sniSections next rs with
        | panic => simp [h2] at h
        | ok rs'' =>
          simp only [h2, Out.ok.injEq] at h
          subst h
          simp only [List.flatMap_cons, List.map_append, sortKeepList_keys h1]
          exact List.Perm.append_left _ (ih _ _ h2)
    · cases h1 : sortObjectlistNew r.sec.elems with
      | panic => simp [h1] at h
      | ok es =>
        simp only [h1] at h
        cases h2 : sniSections next rs with
        | panic => simp [h2] at h
        | ok rs'' =>
          simp only [h2, Out.ok.injEq] at h
          subst h
          simp only [List.flatMap_cons, List.map_append]
          exact List.Perm.append (sortObjectlistNew_keys h1) (ih _ _ h2)
    · cases h1 : sortOptional r.sec.elems 0 with
      | panic => simp [h1] at h
      | ok p =>
        obtain ⟨es, n'⟩ := p
        simp only [h1] at h
        cases h2 : sniSections next rs with
        | panic => simp [h2] at h
        | ok rs'' =>
          simp only [h2, Out.ok.injEq] at h
          subst h
          simp only [List.flatMap_cons, List.map_append, sortOptional_keys h1]
          exact List.Perm.append_left _ (ih _ _ h2)

theorem sortNewItems_keys {m m' : RModule} (h : sortNewItems m = .ok m') :
    (m'.toModule.all.map Elem.key).Perm (m.toModule.all.map Elem.key) := by
  obtain ⟨h1, h2⟩ := sortNewItems_ok_iff h
  rw [all_eq, all_eq, List.map_append, List.map_append, doubleAll_keys _ _ h2]
  exact List.Perm.append_right _ (sniSections_keys _ _ _ h1)

/-! ### object lists are tie-sorted after a call -/

/-- where an element of the renumbered list comes from -/
theorem renumber_origin (es : List Elem) : ∀ (last : Nat) (es' : List Elem), renumber last es = .ok es' →
    OddOrZero last → ∀ b' ∈ es', ∃ b ∈ es, b'.line = b.line ∧ b'.name = b.name ∧
      ((b.uid ≠ 0 ∧ b'.uid = 2 * b.uid) ∨ (b.uid = 0 ∧ OddOrZero b'.uid)) := by
  induction es with
  | nil => intro _ _ h _ b' hb'; simp [renumber] at h; subst h; cases hb'
  | cons a es ih =>
    intro last es' h hl b' hb'
    rcases renumber_cons_ok h with ⟨ha, _, es'', hr, rfl⟩ | ⟨ha, es'', hr, rfl⟩
    · rcases List.mem_cons.1 hb' with rfl | hb'
      · exact ⟨a, List.mem_cons_self, rfl, rfl, Or.inl ⟨ha, rfl⟩⟩
      · obtain ⟨b, hb, hrest⟩ := ih _ _ hr (Or.inr (by omega)) b' hb'
        exact ⟨b, List.mem_cons_of_mem _ hb, hrest⟩
    · rcases List.mem_cons.1 hb' with rfl | hb'
      · exact ⟨a, List.mem_cons_self, rfl, rfl, Or.inr ⟨ha, hl⟩⟩
      · obtain ⟨b, hb, hrest⟩ := ih _ _ hr hl b' hb'
        exact ⟨b, List.mem_cons_of_mem _ hb, hrest⟩

/-- the tie relation of `TieSortedList` -/
def TieRel (a b : Elem) : Prop := a.uid ≠ 0 → a.uid = b.uid → a.line = b.line → a.name ≤ b.name

theorem renumber_tiePairwise (es : List Elem) : ∀ (last : Nat) (es' : List Elem), renumber last es = .ok es' →
    OddOrZero last → es.Pairwise (fun a b => newLe a b = true) → es'.Pairwise TieRel := by
  induction es with
  | nil => intro _ _ h _ _; simp [renumber] at h; subst h; exact List.Pairwise.nil
  | cons a es ih =>
    intro last es' h hl hs
    rw [List.pairwise_cons] at hs
    rcases renumber_cons_ok h with ⟨ha, _, es'', hr, rfl⟩ | ⟨ha, es'', hr, rfl⟩
    · rw [List.pairwise_cons]
      refine ⟨?_, ih _ _ hr (Or.inr (by omega)) hs.2⟩
      intro b' hb' _ hu hline
      obtain ⟨b, hb, hbl, hbn, hcase⟩ := renumber_origin _ _ _ hr (Or.inr (by omega)) b' hb'
      have hle := hs.1 b hb
      rw [newLe_eq, lexLe_iff] at hle
      rw [hbn]
      rcases hcase with ⟨_, hbu⟩ | ⟨_, hodd⟩
      · -- both placed: equal uids, equal lines, so the sort put them in name order
        have h1 : a.uid = b.uid := by simp only at hu; omega
        have h2 : a.line = b.line := by simp only at hline; omega
        by_cases hn : a.name ≤ b.name
        · exact hn
        · simp only [hn, and_false, or_false] at hle; omega
      · -- a placed (even uid), b new (odd or zero): the uids differ
        exfalso
        simp only at hu
        rcases hodd with h0 | h1 <;> omega
    · rw [List.pairwise_cons]
      refine ⟨?_, ih _ _ hr hl hs.2⟩
      intro b' hb' hne hu hline
      obtain ⟨b, hb, hbl, hbn, hcase⟩ := renumber_origin _ _ _ hr hl b' hb'
      have hle := hs.1 b hb
      rw [newLe_eq, lexLe_iff] at hle
      rw [hbn]
      rcases hcase with ⟨hbne, hbu⟩ | ⟨hb0, _⟩
      · -- a new (odd or zero), b placed (even, not zero): the uids differ
        exfalso
        simp only at hu hne
        rcases hl with h0 | h1 <;> omega
      · -- both new: equal lines, so the sort put them in name order
        have h2 : a.line = b.line := by simp only at hline; omega
        by_cases hn : a.name ≤ b.name
        · exact hn
        · simp only [hn, and_false, or_false] at hle; omega

theorem sortObjectlistNew_tieSorted {es es' : List Elem} (h : sortObjectlistNew es = .ok es') :
    TieSortedList es' := by
  have h' : renumber 0 (es.mergeSort newLe) = .ok es' := h
  have hp := renumber_tiePairwise _ _ _ h' (Or.inl rfl) (pairwise_mergeSort_newLe es)
  intro a b hab
  exact List.pairwise_iff_forall_sublist.1 hp hab

theorem sniSections_tieSorted (rs : List RSection) : ∀ (next : Nat) (rs' : List RSection),
    sniSections next rs = .ok rs' → ∀ r' ∈ rs', r'.rule = .objectList → TieSortedList r'.sec.elems := by
  induction rs with
  | nil => intro _ _ h r' hr'; simp [sniSections] at h; subst h; cases hr'
  | cons r rs ih =>
    intro next rs' h r' hr' hrule'
    rw [sniSections] at h
    cases hrule : r.rule <;> simp only [hrule] at h
    · cases h1 : sortOptional r.sec.elems next with
      | panic => simp [h1] at h
      | ok p =>
        obtain ⟨es, n'⟩ := p
        simp only [h1] at h
        cases h2 : sniSections n' rs with
        | panic => simp [h2] at h
        | ok rs'' =>
          simp only [h2, Out.ok.injEq] at h
          subst h
          rcases List.mem_cons.1 hr' with rfl | hr'
          · simp [hrule] at hrule'
          · exact ih _ _ h2 r' hr' hrule'
    · cases h1 : sortKeepList r.sec.elems with
      | panic => simp [h1] at h
      | ok es =>
        simp only [h1] at h
        cases h2 : sniSections next rs with
        | panic => simp [h2] at h
        | ok rs'' =>
          simp only [h2, Out.ok.injEq] at h
          subst h
          rcases List.mem_cons.1 hr' with rfl | hr'
          · simp [hrule] at hrule'
          · exact ih _ _ h2 r' hr' hrule'
    · cases h1 : sortObjectlistNew r.sec.elems with
      | panic => simp [h1] at h
      | ok es =>
        simp only [h1] at h
        cases h2 : sniSections next rs with
        | panic => simp [h2] at h
        | ok rs'' =>
          simp only [h2, Out.ok.injEq] at h
          subst h
          rcases List.mem_cons.1 hr' with rfl | hr'
          · exact sortObjectlistNew_tieSorted h1
          · exact ih _ _ h2 r' hr' hrule'
    · cases h1 : sortOptional r.sec.elems 0 with
      | panic => simp [h1] at h
      | ok p =>
        obtain ⟨es, n'⟩ := p
        simp only [h1] at h
        cases h2 : sniSections next rs with
        | panic => simp [h2] at h
        | ok rs'' =>
          simp only [h2, Out.ok.injEq] at h
          subst h
          rcases List.mem_cons.1 hr' with rfl | hr'
          · simp [hrule] at hrule'
          · exact ih _ _ h2 r' hr' hrule'

theorem sortNewItems_tieSorted {m m' : RModule} (h : sortNewItems m = .ok m') : TieSorted m' := by
  obtain ⟨h1, _⟩ := sortNewItems_ok_iff h
  exact sniSections_tieSorted _ _ _ h1

/-! ### k calls -/

/-- placed before the first of k calls: the uid is not 0 and divisible by 2^k -/
def placedK (k : Nat) (e : Elem) : Bool := e.uid != 0 && e.uid % 2 ^ k == 0
def dblK (k : Nat) (e : Elem) : Elem := { e with uid := 2 ^ k * e.uid }

/-- the invariant: no two elements with the same (tag, name, content); `Option` sections hold at most one element;
    elements of an object list that share a uid and a line stand in name order -/
structure IterInv (m : RModule) : Prop where
  keys : (m.toModule.all.map Elem.key).Nodup
  singles : ∀ r ∈ m.sections, isSingle r.rule → r.sec.elems.length ≤ 1
  ties : TieSorted m

theorem iterInv_step {m m' : RModule} (h : sortNewItems m = .ok m') (hi : IterInv m) : IterInv m' :=
  ⟨(sortNewItems_keys h).symm.nodup hi.keys, (sortNewItems_step h hi.singles).2, sortNewItems_tieSorted h⟩

theorem placedK_succ_dblK (k : Nat) (e : Elem) : placedK (k + 1) (dblK k e) = wasPlaced e := by
  have hpos : 0 < 2 ^ k := Nat.two_pow_pos k
  have hne : 2 ^ k ≠ 0 := by omega
  simp only [placedK, dblK, wasPlaced]
  have h1 : (2 ^ k * e.uid != 0) = (e.uid != 0) := by
    rw [Bool.eq_iff_iff]
    simp only [bne_iff_ne, ne_eq, Nat.mul_eq_zero, hne, false_or]
  have h2 : (2 ^ k * e.uid % 2 ^ (k + 1) == 0) = (e.uid % 2 == 0) := by
    rw [Nat.pow_succ, Nat.mul_mod_mul_left, Bool.eq_iff_iff]
    simp only [beq_iff_eq, Nat.mul_eq_zero, hne, false_or]
  rw [h1, h2]

theorem placedK_succ_imp (k : Nat) (e : Elem) (h : placedK (k + 1) e = true) : placedK k e = true := by
  simp only [placedK, Bool.and_eq_true, bne_iff_ne, ne_eq, beq_iff_eq] at h ⊢
  refine ⟨h.1, ?_⟩
  have hd : 2 ^ (k + 1) ∣ e.uid := Nat.dvd_of_mod_eq_zero h.2
  have : 2 ^ k ∣ e.uid := Nat.dvd_trans ⟨2, by rw [Nat.pow_succ]⟩ hd
  exact Nat.mod_eq_zero_of_dvd this

theorem dblK_succ (k : Nat) (e : Elem) : dblK k (dblE e) = dblK (k + 1) e := by
  simp only [dblK, dblE, Nat.pow_succ]
  congr 1
  rw [Nat.mul_assoc]

/-- **any number of calls that return keeps the written order of the elements that were placed at the start** -/
theorem iterate_placed_stable (k : Nat) : ∀ (m m' : RModule), iterate k m = .ok m' → IterInv m →
    (writeOrder m'.toModule).filter (placedK k) = ((writeOrder m.toModule).filter placed).map (dblK k) := by
  induction k with
  | zero =>
    intro m m' h _
    simp only [iterate, Out.ok.injEq] at h
    subst h
    have h1 : placedK 0 = placed := by
      funext e; simp [placedK, placed, Nat.mod_one]
    have h2 : dblK 0 = id := by
      funext e; simp [dblK]
    rw [h1, h2, List.map_id]
  | succ k ih =>
    intro m m' h hi
    rw [iterate] at h
    cases h1 : sortNewItems m with
    | panic => simp [h1] at h
    | ok m1 =>
      simp only [h1] at h
      have hi1 := iterInv_step h1 hi
      have hk := ih m1 m' h hi1
      have hone := writeOrder_placed_stable_ties h1 hi.singles (nodup_of_map_nodup _ hi.keys) hi.ties
      -- filter by placedK (k+1) = filter the placedK k part once more
      have hsplit : (writeOrder m'.toModule).filter (placedK (k + 1)) =
          ((writeOrder m'.toModule).filter (placedK k)).filter (placedK (k + 1)) := by
        rw [List.filter_filter]
        apply List.filter_congr
        intro e _
        by_cases hp : placedK (k + 1) e = true
        · simp [hp, placedK_succ_imp k e hp]
        · simp [hp]
      rw [hsplit, hk, List.filter_map]
      have hf : ((writeOrder m1.toModule).filter placed).filter (placedK (k + 1) ∘ dblK k) =
          (writeOrder m1.toModule).filter wasPlaced := by
        rw [List.filter_filter]
        apply List.filter_congr
        intro e _
        simp only [Function.comp, placedK_succ_dblK]
        by_cases hw : wasPlaced e = true
        · simp [hw, placed_of_wasPlaced e hw]
        · simp [hw]
      rw [hf, hone, List.map_map]
      apply List.map_congr_left
      intro e _
      exact dblK_succ k e

end A2l.Srt.L15
