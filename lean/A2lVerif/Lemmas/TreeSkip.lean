import A2lVerif.Model.Tree
/-! helper lemmas for C07 (the unknown-element skipper) -/
namespace A2l.Tree

/-- nesting depth change of a token list (`/begin` = +1, `/end` = -1) -/
def depth : List PTok → Int
  | [] => 0
  | t :: ts => (if t.ty = 1 then 1 else if t.ty = 2 then -1 else 0) + depth ts

/-- no prefix closes more blocks than it opened, starting at depth `d` -/
def NoDipFrom : Int → List PTok → Prop
  | _, [] => True
  | d, t :: ts =>
    if t.ty = 1 then NoDipFrom (d + 1) ts
    else if t.ty = 2 then 0 ≤ d - 1 ∧ NoDipFrom (d - 1) ts
    else NoDipFrom d ts

/-- `last_token_position` after reading a token list, `d` if the list is empty -/
def lastLineOf : Nat → List PTok → Nat
  | d, [] => d
  | _, t :: ts => lastLineOf t.line ts

/-! ## the monad and the cursor primitives -/

theorem bind_def {α β} (m : PM α) (f : α → PM β) (e : Env) (s : PState) :
    (m >>= f) e s = match m e s with
      | .ok a s' => f a e s'
      | .err d s' => .err d s'
      | .panic => .panic
      | .fuel => .fuel := rfl

theorem pure_def {α} (a : α) (e : Env) (s : PState) : (pure a : PM α) e s = .ok a s := rfl

/-- the cursor stands in front of `t` -/
theorem getElem?_of_split {toks : Array PTok} {pre rest : List PTok} {t : PTok} {n : Nat}
    (h : toks.toList = pre ++ t :: rest) (hn : n = pre.length) : toks[n]? = some t := by
  subst hn
  rw [← Array.getElem?_toList, h]
  simp

/-- the cursor stands at the end -/
theorem getElem?_of_end {toks : Array PTok} {pre : List PTok} {n : Nat}
    (h : toks.toList = pre) (hn : n = pre.length) : toks[n]? = none := by
  subst hn
  rw [← Array.getElem?_toList, h]
  simp

/-- some token follows the cursor -/
theorem getElem?_of_ne_nil {toks : Array PTok} {pre l : List PTok} {n : Nat}
    (h : toks.toList = pre ++ l) (hn : n = pre.length) (hl : l ≠ []) : ∃ t, toks[n]? = some t := by
  cases l with
  | nil => exact absurd rfl hl
  | cons t l => exact ⟨t, getElem?_of_split h hn⟩

theorem getToken_some (ctx : Ctx) (e : Env) (s : PState) (t : PTok) (h : e.toks[s.pos]? = some t) :
    getToken ctx e s = .ok t { s with pos := s.pos + 1, lastLine := t.line } := by
  simp only [getToken, bind_def, getEnv, getState, h, setState, pure_def]

theorem getToken_none (ctx : Ctx) (e : Env) (s : PState) (h : e.toks[s.pos]? = none) :
    getToken ctx e s = .err ⟨.unexpectedEOF, s.lastLine⟩ s := by
  simp only [getToken, bind_def, getEnv, getState, h, fail]

theorem undoGetToken_succ (e : Env) (s : PState) (n : Nat) (h : s.pos = n + 1) :
    undoGetToken e s = .ok () { s with pos := n } := by
  simp only [undoGetToken, bind_def, getState, h]
  simp [setState]

/-! ## one turn of the loop -/

/-- the loop body after `get_token` -/
def skipStep (ctx : Ctx) (itemTag : List Char) (itemIsBlock : Bool) (stop : List Nat) (balance : Int) (fuel : Nat)
    (t : PTok) : PM Unit :=
  match t.ty with
  | 1 => skipUnknownLoop ctx itemTag itemIsBlock stop (balance + 1) fuel
  | 2 =>
    if balance - 1 = -1 then undoGetToken
    else skipUnknownLoop ctx itemTag itemIsBlock stop (balance - 1) fuel
  | 0 =>
    if itemIsBlock then
      if balance = 0 then
        if t.text = itemTag then pure () else fail .incorrectEndTag
      else skipUnknownLoop ctx itemTag itemIsBlock stop balance fuel
    else
      if (balance = 0 ∨ balance = 1) ∧ stop.contains t.sym then do
        undoGetToken
        if balance = 1 then undoGetToken
      else skipUnknownLoop ctx itemTag itemIsBlock stop balance fuel
  | _ =>
    if itemIsBlock ∧ balance = 0 then fail .incorrectEndTag
    else skipUnknownLoop ctx itemTag itemIsBlock stop balance fuel

theorem skipStep_begin {ctx : Ctx} {tag : List Char} {ib : Bool} {stop : List Nat} {b : Int} {fuel : Nat} {t : PTok}
    (h : t.ty = 1) : skipStep ctx tag ib stop b fuel t = skipUnknownLoop ctx tag ib stop (b + 1) fuel := by
  simp only [skipStep, h]

theorem skipStep_end {ctx : Ctx} {tag : List Char} {ib : Bool} {stop : List Nat} {b : Int} {fuel : Nat} {t : PTok}
    (h : t.ty = 2) : skipStep ctx tag ib stop b fuel t =
      if b - 1 = -1 then undoGetToken else skipUnknownLoop ctx tag ib stop (b - 1) fuel := by
  simp only [skipStep, h]

theorem skipStep_ident_block {ctx : Ctx} {tag : List Char} {stop : List Nat} {b : Int} {fuel : Nat} {t : PTok}
    (h : t.ty = 0) : skipStep ctx tag true stop b fuel t =
      if b = 0 then (if t.text = tag then pure () else fail .incorrectEndTag)
      else skipUnknownLoop ctx tag true stop b fuel := by
  simp only [skipStep, h, ↓reduceIte]

theorem skipStep_ident_keyword {ctx : Ctx} {tag : List Char} {stop : List Nat} {b : Int} {fuel : Nat} {t : PTok}
    (h : t.ty = 0) : skipStep ctx tag false stop b fuel t =
      if (b = 0 ∨ b = 1) ∧ stop.contains t.sym then (do undoGetToken; if b = 1 then undoGetToken)
      else skipUnknownLoop ctx tag false stop b fuel := by
  simp only [skipStep, h, Bool.false_eq_true, ↓reduceIte]

theorem skipStep_other {ctx : Ctx} {tag : List Char} {ib : Bool} {stop : List Nat} {b : Int} {fuel : Nat} {t : PTok}
    (h0 : t.ty ≠ 0) (h1 : t.ty ≠ 1) (h2 : t.ty ≠ 2) : skipStep ctx tag ib stop b fuel t =
      if ib ∧ b = 0 then fail .incorrectEndTag else skipUnknownLoop ctx tag ib stop b fuel := by
  obtain ⟨n, hn⟩ : ∃ n, t.ty = n + 3 := ⟨t.ty - 3, by omega⟩
  simp only [skipStep, hn]

theorem skipUnknownLoop_succ (ctx : Ctx) (tag : List Char) (ib : Bool) (stop : List Nat) (b : Int) (fuel : Nat) :
    skipUnknownLoop ctx tag ib stop b (fuel + 1) = (getToken ctx >>= skipStep ctx tag ib stop b fuel) := rfl

/-- reading token `t` in front of the cursor -/
theorem skipUnknownLoop_some (ctx : Ctx) (tag : List Char) (ib : Bool) (stop : List Nat) (b : Int) (fuel : Nat)
    (e : Env) (s : PState) (t : PTok) (h : e.toks[s.pos]? = some t) :
    skipUnknownLoop ctx tag ib stop b (fuel + 1) e s =
      skipStep ctx tag ib stop b fuel t e { s with pos := s.pos + 1, lastLine := t.line } := by
  rw [skipUnknownLoop_succ, bind_def, getToken_some ctx e s t h]

theorem skipUnknownLoop_none (ctx : Ctx) (tag : List Char) (ib : Bool) (stop : List Nat) (b : Int) (fuel : Nat)
    (e : Env) (s : PState) (h : e.toks[s.pos]? = none) :
    skipUnknownLoop ctx tag ib stop b (fuel + 1) e s = .err ⟨.unexpectedEOF, s.lastLine⟩ s := by
  rw [skipUnknownLoop_succ, bind_def, getToken_none ctx e s h]

/-- **inside the unknown element the loop only counts**: while the balance stays at or above the level at which the
    loop looks at tokens (`1` for a block: the level of its own `/end TAG`; `0` for a keyword: the level of the
    enclosing block's tags), every token is consumed. For a keyword the identifiers must not be in the stop list. -/
theorem skipUnknownLoop_body (ctx : Ctx) (tag : List Char) (ib : Bool) (stop : List Nat) (e : Env) :
    ∀ (body pre rest : List PTok) (s : PState) (b : Int) (fuel : Nat),
      e.toks.toList = pre ++ body ++ rest → s.pos = pre.length →
      (if ib then 1 else 0) ≤ b → NoDipFrom (b - (if ib then 1 else 0)) body →
      (ib = false → ∀ t ∈ body, t.ty = 0 → ¬ stop.contains t.sym = true) →
      body.length < fuel →
      skipUnknownLoop ctx tag ib stop b fuel e s =
        skipUnknownLoop ctx tag ib stop (b + depth body) (fuel - body.length) e
          { s with pos := pre.length + body.length, lastLine := lastLineOf s.lastLine body }
  | [], pre, rest, s, b, fuel, _, hpos, _, _, _, _ => by
    cases s
    simp only [depth, lastLineOf, List.length_nil, Nat.add_zero, Nat.sub_zero, Int.add_zero] at hpos ⊢
    rw [hpos]
  | t :: body, pre, rest, s, b, fuel, htoks, hpos, hb, hnd, hns, hfuel => by
    obtain ⟨fuel, rfl⟩ : ∃ f, fuel = f + 1 := ⟨fuel - 1, by simp only [List.length_cons] at hfuel; omega⟩
    have hget : e.toks[s.pos]? = some t :=
      getElem?_of_split (pre := pre) (rest := body ++ rest) (by simpa using htoks) hpos
    have htoks' : e.toks.toList = (pre ++ [t]) ++ body ++ rest := by simpa using htoks
    have hns' : ib = false → ∀ t ∈ body, t.ty = 0 → ¬ stop.contains t.sym = true :=
      fun h u hu => hns h u (List.mem_cons_of_mem _ hu)
    have hfuel' : body.length < fuel := by simp only [List.length_cons] at hfuel; omega
    have hlen : (t :: body).length = body.length + 1 := rfl
    have hpos' : ({ s with pos := s.pos + 1, lastLine := t.line } : PState).pos = (pre ++ [t]).length := by
      simp [hpos]
    rw [skipUnknownLoop_some ctx tag ib stop b fuel e s t hget]
    have key : ∀ b', (if ib then 1 else 0) ≤ b' → NoDipFrom (b' - (if ib then 1 else 0)) body →
        b' + depth body = b + depth (t :: body) →
        skipUnknownLoop ctx tag ib stop b' fuel e { s with pos := s.pos + 1, lastLine := t.line } =
        skipUnknownLoop ctx tag ib stop (b + depth (t :: body)) (fuel + 1 - (t :: body).length) e
          { s with pos := pre.length + (t :: body).length, lastLine := lastLineOf s.lastLine (t :: body) } := by
      intro b' hb' hnd' hd
      rw [skipUnknownLoop_body ctx tag ib stop e body (pre ++ [t]) rest _ b' fuel htoks' hpos' hb' hnd' hns' hfuel',
        hd, hlen]
      simp only [lastLineOf, List.length_append, List.length_singleton, Nat.add_sub_add_right]
      congr 2
      omega
    by_cases h1 : t.ty = 1
    · rw [skipStep_begin h1]
      simp only [NoDipFrom, h1, ↓reduceIte] at hnd
      exact key (b + 1) (by omega) (by rw [show b + 1 - (if ib = true then 1 else 0) = b - (if ib = true then 1 else 0) + 1 by omega]; exact hnd)
        (by simp only [depth, h1, ↓reduceIte]; omega)
    by_cases h2 : t.ty = 2
    · have h12 : ¬ (2 : Nat) = 1 := by decide
      simp only [NoDipFrom, h2, h12, ↓reduceIte] at hnd
      have hne : ¬ (b - 1 = -1) := by omega
      rw [skipStep_end h2, if_neg hne]
      exact key (b - 1) (by omega) (by rw [show b - 1 - (if ib = true then 1 else 0) = b - (if ib = true then 1 else 0) - 1 by omega]; exact hnd.2)
        (by simp only [depth, h2, h12, ↓reduceIte]; omega)
    simp only [NoDipFrom, h1, h2, ↓reduceIte] at hnd
    have hd : b + depth body = b + depth (t :: body) := by simp only [depth, h1, h2, ↓reduceIte]; omega
    by_cases h0 : t.ty = 0
    · cases ib with
      | true =>
        have hne : ¬ (b = 0) := by simp only [↓reduceIte] at hb; omega
        rw [skipStep_ident_block h0, if_neg hne]
        exact key b hb hnd hd
      | false =>
        have hne : ¬ ((b = 0 ∨ b = 1) ∧ stop.contains t.sym = true) :=
          fun h => hns rfl t (List.mem_cons_self ..) h0 h.2
        rw [skipStep_ident_keyword h0, if_neg hne]
        exact key b hb hnd hd
    · have hne : ¬ (ib = true ∧ b = 0) := by
        rintro ⟨hib, hb0⟩
        simp only [hib, ↓reduceIte] at hb
        omega
      rw [skipStep_other h0 h1 h2, if_neg hne]
      exact key b hb hnd hd

/-! ## the entry point -/

theorem handleUnknown_strict (ctx : Ctx) (tag : List Char) (ib : Bool) (stop : List Nat) (e : Env) (s : PState)
    (hs : e.strict = true) :
    handleUnknownTaggedstructTag ctx tag ib stop e s = .err ⟨.unknownSubBlock, s.lastLine⟩ s := by
  simp only [handleUnknownTaggedstructTag, errorOrLog, bind_def, getEnv, hs, ↓reduceIte, fail]

/-- non-strict mode, at least one more token: log, probe the cursor (this moves `lastLine`), run the loop -/
theorem handleUnknown_nonstrict (ctx : Ctx) (tag : List Char) (ib : Bool) (stop : List Nat) (e : Env) (s : PState)
    (t : PTok) (hns : e.strict = false) (hget : e.toks[s.pos]? = some t) :
    handleUnknownTaggedstructTag ctx tag ib stop e s =
      skipUnknownLoop ctx tag ib stop (if ib then 1 else 0) (e.toks.size + 1) e
        { s with log := ⟨.unknownSubBlock, s.lastLine⟩ :: s.log, lastLine := t.line } := by
  have hget' : e.toks[({ s with log := ⟨.unknownSubBlock, s.lastLine⟩ :: s.log } : PState).pos]? = some t := hget
  simp only [handleUnknownTaggedstructTag, errorOrLog, bind_def, getEnv, hns, Bool.false_eq_true, ↓reduceIte,
    logWarning, modifyState, getToken_some ctx e _ t hget']
  rw [undoGetToken_succ e _ s.pos rfl]

/-- non-strict mode at the end of the token array: `UnexpectedEOF` (after the log entry) -/
theorem handleUnknown_nonstrict_eof (ctx : Ctx) (tag : List Char) (ib : Bool) (stop : List Nat) (e : Env) (s : PState)
    (hns : e.strict = false) (hget : e.toks[s.pos]? = none) :
    handleUnknownTaggedstructTag ctx tag ib stop e s =
      .err ⟨.unexpectedEOF, s.lastLine⟩ { s with log := ⟨.unknownSubBlock, s.lastLine⟩ :: s.log } := by
  have hget' : e.toks[({ s with log := ⟨.unknownSubBlock, s.lastLine⟩ :: s.log } : PState).pos]? = none := hget
  simp only [handleUnknownTaggedstructTag, errorOrLog, bind_def, getEnv, hns, Bool.false_eq_true, ↓reduceIte,
    logWarning, modifyState, getToken_none ctx e _ hget']

end A2l.Tree
