/-! Generic lemmas about the relative order of two members of a list (`[a, b] <+ l`: `a` stands before `b` in `l`). -/
namespace A2l.ListOrder
open List

theorem pair_sublist_cons_iff {α} {a b x : α} {l : List α} :
    [a, b] <+ x :: l ↔ [a, b] <+ l ∨ (a = x ∧ b ∈ l) := by
  rw [List.sublist_cons_iff]
  constructor
  · rintro (h | ⟨r, hr, hs⟩)
    · exact .inl h
    · simp only [List.cons.injEq] at hr
      obtain ⟨rfl, rfl⟩ := hr
      exact .inr ⟨rfl, List.singleton_sublist.1 hs⟩
  · rintro (h | ⟨rfl, hb⟩)
    · exact .inl h
    · exact .inr ⟨[b], rfl, List.singleton_sublist.2 hb⟩

theorem mem_of_pair_sublist {α} {a b : α} {l : List α} (h : [a, b] <+ l) : a ∈ l ∧ b ∈ l :=
  ⟨h.subset List.mem_cons_self, h.subset (List.mem_cons_of_mem _ List.mem_cons_self)⟩

/-- two different members stand in one of the two orders -/
theorem pair_or_swap {α} {a b : α} {l : List α} (ha : a ∈ l) (hb : b ∈ l) (hne : a ≠ b) :
    [a, b] <+ l ∨ [b, a] <+ l := by
  induction l with
  | nil => cases ha
  | cons x l ih =>
    rcases List.mem_cons.1 ha with rfl | ha' <;> rcases List.mem_cons.1 hb with rfl | hb'
    · exact absurd rfl hne
    · exact .inl (pair_sublist_cons_iff.2 (.inr ⟨rfl, hb'⟩))
    · exact .inr (pair_sublist_cons_iff.2 (.inr ⟨rfl, ha'⟩))
    · rcases ih ha' hb' with h | h
      · exact .inl (pair_sublist_cons_iff.2 (.inl h))
      · exact .inr (pair_sublist_cons_iff.2 (.inl h))

/-- in a list without duplicates two members stand in one order only -/
theorem nodup_pair_not_swap {α} {a b : α} {l : List α} (hn : l.Nodup) (h1 : [a, b] <+ l) (h2 : [b, a] <+ l) : False := by
  induction l with
  | nil => cases h1
  | cons x l ih =>
    rw [List.nodup_cons] at hn
    rcases pair_sublist_cons_iff.1 h1 with h1' | ⟨rfl, hb⟩ <;> rcases pair_sublist_cons_iff.1 h2 with h2' | ⟨hbx, ha⟩
    · exact ih hn.2 h1' h2'
    · subst hbx; exact hn.1 (mem_of_pair_sublist h1').2
    · exact hn.1 (mem_of_pair_sublist h2').2
    · subst hbx; exact hn.1 hb

/-- two lists with the same members, one of them without duplicates, in which every two members stand in the same
    order, are equal -/
theorem eq_of_perm_of_pairs {α} : ∀ {A B : List α}, A.Perm B → A.Nodup →
    (∀ x y, [x, y] <+ B → [x, y] <+ A) → A = B
  | [], [], _, _, _ => rfl
  | [], b :: B, h, _, _ => by simp at h
  | a :: A, [], h, _, _ => by simp at h
  | a :: A, b :: B, hp, hn, hord => by
    have hab : a = b := by
      by_cases hab : a = b
      · exact hab
      · exfalso
        have haB : a ∈ B := by
          have := hp.subset List.mem_cons_self
          rcases List.mem_cons.1 this with h | h
          · exact absurd h hab
          · exact h
        have h1 : [b, a] <+ b :: B := pair_sublist_cons_iff.2 (.inr ⟨rfl, haB⟩)
        have h2 := hord b a h1
        rcases pair_sublist_cons_iff.1 h2 with h3 | ⟨hba, _⟩
        · exact (List.nodup_cons.1 hn).1 (mem_of_pair_sublist h3).2
        · exact hab hba.symm
    subst hab
    have hp' : A.Perm B := (List.perm_cons a).1 hp
    have hn' := (List.nodup_cons.1 hn)
    have : A = B := eq_of_perm_of_pairs hp' hn'.2 (fun x y hxy => by
      have h1 : [x, y] <+ a :: B := pair_sublist_cons_iff.2 (.inl hxy)
      rcases pair_sublist_cons_iff.1 (hord x y h1) with h | ⟨hxa, hy⟩
      · exact h
      · exfalso
        -- x = a, but x ∈ B ~ A and a ∉ A
        subst hxa
        exact hn'.1 (hp'.symm.subset (mem_of_pair_sublist hxy).1))
    rw [this]

theorem nodup_map_of_injective {α β} {f : α → β} (hf : ∀ a b, f a = f b → a = b) :
    ∀ {l : List α}, l.Nodup → (l.map f).Nodup
  | [], _ => by simp
  | a :: l, h => by
    rw [List.nodup_cons] at h
    rw [List.map_cons, List.nodup_cons]
    refine ⟨?_, nodup_map_of_injective hf h.2⟩
    intro hm
    obtain ⟨b, hb, hfb⟩ := List.mem_map.1 hm
    exact h.1 (hf b a hfb ▸ hb)

theorem nodup_of_map_nodup {α β} (f : α → β) : ∀ {l : List α}, (l.map f).Nodup → l.Nodup
  | [], _ => by simp
  | a :: l, h => by
    rw [List.map_cons, List.nodup_cons] at h
    rw [List.nodup_cons]
    exact ⟨fun ha => h.1 (List.mem_map.2 ⟨a, ha, rfl⟩), nodup_of_map_nodup f h.2⟩

end A2l.ListOrder
