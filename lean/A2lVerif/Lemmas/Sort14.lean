import A2lVerif.Model.Sort
/-! helper lemmas for C14 / C15 -/
namespace A2l.Srt

/-! ## `assignSeq` -/

@[simp] theorem length_assignSeq (u : Nat) (l : List Elem) : (assignSeq u l).length = l.length := by
  induction l generalizing u with
  | nil => rfl
  | cons e es ih => simp [assignSeq, ih]

theorem map_key_assignSeq (u : Nat) (l : List Elem) : (assignSeq u l).map Elem.key = l.map Elem.key := by
  induction l generalizing u with
  | nil => rfl
  | cons e es ih => simp [assignSeq, ih, Elem.key]

theorem map_name_assignSeq (u : Nat) (l : List Elem) : (assignSeq u l).map (·.name) = l.map (·.name) := by
  induction l generalizing u with
  | nil => rfl
  | cons e es ih => simp [assignSeq, ih]

theorem map_uid_assignSeq (u : Nat) (l : List Elem) :
    (assignSeq u l).map (·.uid) = List.range' u l.length := by
  induction l generalizing u with
  | nil => rfl
  | cons e es ih => simp [assignSeq, ih, List.range'_succ]

theorem assignSeq_assignSeq (u v : Nat) (l : List Elem) : assignSeq u (assignSeq v l) = assignSeq u l := by
  induction l generalizing u v with
  | nil => rfl
  | cons e es ih => simp [assignSeq, ih]

/-! ## `nameLe` -/

theorem nameLe_trans (a b c : Elem) : nameLe a b = true → nameLe b c = true → nameLe a c = true := by
  simp only [nameLe, decide_eq_true_eq]
  exact String.le_trans

theorem nameLe_total (a b : Elem) : (nameLe a b || nameLe b a) = true := by
  simp only [nameLe, Bool.or_eq_true, decide_eq_true_eq]
  exact String.le_total _ _

theorem pairwise_nameLe_mergeSort (l : List Elem) :
    (l.mergeSort nameLe).Pairwise (fun a b => nameLe a b = true) :=
  List.pairwise_mergeSort nameLe_trans nameLe_total l

theorem pairwise_nameLe_iff (l : List Elem) :
    l.Pairwise (fun a b => nameLe a b = true) ↔ (l.map (·.name)).Pairwise (· ≤ ·) := by
  rw [List.pairwise_map]
  simp [nameLe]

theorem pairwise_nameLe_assignSeq (u : Nat) (l : List Elem)
    (h : l.Pairwise (fun a b => nameLe a b = true)) :
    (assignSeq u l).Pairwise (fun a b => nameLe a b = true) := by
  rw [pairwise_nameLe_iff] at h ⊢
  rwa [map_name_assignSeq]

theorem mergeSort_assignSeq_mergeSort (u : Nat) (l : List Elem) :
    (assignSeq u (l.mergeSort nameLe)).mergeSort nameLe = assignSeq u (l.mergeSort nameLe) :=
  List.mergeSort_of_pairwise (pairwise_nameLe_assignSeq u _ (pairwise_nameLe_mergeSort l))

/-! ## `sortSection` -/

/-- the elements of a section in the documented order -/
def canonSec (s : Section) : List Elem :=
  match s.kind with
  | .byName => s.elems.mergeSort nameLe
  | _ => s.elems

theorem canonical_eq (m : Module) : canonical m = m.sections.flatMap canonSec := rfl

theorem sortSection_kind (u : Nat) (s : Section) : (sortSection u s).1.kind = s.kind := by
  unfold sortSection; split <;> rfl

theorem sortSection_key (u : Nat) (s : Section) :
    (sortSection u s).1.elems.map Elem.key = (canonSec s).map Elem.key := by
  unfold sortSection canonSec
  split <;> rename_i hk <;> simp only [hk]
  · simp [Elem.key, Function.comp_def]
  · exact map_key_assignSeq _ _
  · exact map_key_assignSeq _ _

theorem canonSec_perm (s : Section) : (canonSec s).Perm s.elems := by
  unfold canonSec
  split
  · exact List.mergeSort_perm _ _
  · exact List.Perm.refl _

theorem sortSection_perm (u : Nat) (s : Section) :
    ((sortSection u s).1.elems.map Elem.key).Perm (s.elems.map Elem.key) := by
  rw [sortSection_key]
  exact (canonSec_perm s).map _

theorem sortSection_le (u : Nat) (s : Section) : u ≤ (sortSection u s).2 := by
  unfold sortSection; split <;> simp

/-- uids handed out in one section: strictly increasing, inside `[u, next)` -/
theorem sortSection_uids (u : Nat) (s : Section) (hwf : s.kind = .single → s.elems.length ≤ 1) :
    ((sortSection u s).1.elems.map (·.uid)).Pairwise (· < ·) ∧
    ∀ x ∈ (sortSection u s).1.elems.map (·.uid), u ≤ x ∧ x < (sortSection u s).2 := by
  unfold sortSection
  split <;> rename_i hk
  · have hl := hwf hk
    match h : s.elems, hl with
    | [], _ => simp
    | [e], _ => simp
  · simp only [map_uid_assignSeq]
    refine ⟨List.pairwise_lt_range', ?_⟩
    intro x hx
    simp [List.mem_range'_1] at hx
    omega
  · simp only [map_uid_assignSeq, List.length_mergeSort]
    refine ⟨List.pairwise_lt_range', ?_⟩
    intro x hx
    simp [List.mem_range'_1] at hx
    omega

theorem sortSection_idem (u : Nat) (s : Section) :
    sortSection u (sortSection u s).1 = sortSection u s := by
  obtain ⟨k, es⟩ := s
  cases k
  · simp [sortSection, Function.comp_def]
  · simp [sortSection, assignSeq_assignSeq]
  · simp [sortSection, mergeSort_assignSeq_mergeSort, assignSeq_assignSeq]

theorem sortSection_names (u : Nat) (s : Section) (hk : s.kind = .byName) :
    (sortSection u s).1.elems.Pairwise (fun a b => a.name ≤ b.name) := by
  have h := pairwise_nameLe_assignSeq u _ (pairwise_nameLe_mergeSort s.elems)
  unfold sortSection
  simp only [hk]
  simpa [nameLe] using h

/-! ## `sortSections` -/

theorem sortSections_cons (u : Nat) (s : Section) (ss : List Section) :
    sortSections u (s :: ss) = (sortSection u s).1 :: sortSections (sortSection u s).2 ss := rfl

@[simp] theorem length_sortSections (u : Nat) (ss : List Section) :
    (sortSections u ss).length = ss.length := by
  induction ss generalizing u with
  | nil => rfl
  | cons s ss ih => simp [sortSections_cons, ih]

theorem sortSections_getElem (u : Nat) (ss : List Section) (i : Nat) (h : i < ss.length)
    (h' : i < (sortSections u ss).length) :
    ((sortSections u ss)[i]).kind = (ss[i]).kind ∧
    (((sortSections u ss)[i]).elems.map Elem.key).Perm ((ss[i]).elems.map Elem.key) := by
  induction ss generalizing u i with
  | nil => simp at h
  | cons s ss ih =>
    cases i with
    | zero => exact ⟨sortSection_kind u s, sortSection_perm u s⟩
    | succ i =>
      simp only [sortSections_cons, List.getElem_cons_succ]
      exact ih _ i (by simpa using h) (by simpa [sortSections_cons] using h')

theorem sortSections_key (u : Nat) (ss : List Section) :
    ((sortSections u ss).flatMap (·.elems)).map Elem.key = (ss.flatMap canonSec).map Elem.key := by
  induction ss generalizing u with
  | nil => rfl
  | cons s ss ih =>
    simp only [sortSections_cons, List.flatMap_cons, List.map_append, sortSection_key, ih]

theorem sortSections_uids (u : Nat) (ss : List Section)
    (hwf : ∀ s ∈ ss, s.kind = .single → s.elems.length ≤ 1) :
    (((sortSections u ss).flatMap (·.elems)).map (·.uid)).Pairwise (· < ·) ∧
    ∀ x ∈ ((sortSections u ss).flatMap (·.elems)).map (·.uid), u ≤ x := by
  induction ss generalizing u with
  | nil => simp [sortSections]
  | cons s ss ih =>
    have h1 := sortSection_uids u s (hwf s (by simp))
    have h2 := ih (sortSection u s).2 (fun t ht => hwf t (by simp [ht]))
    have hle := sortSection_le u s
    simp only [sortSections_cons, List.flatMap_cons, List.map_append, List.pairwise_append,
      List.mem_append]
    refine ⟨⟨h1.1, h2.1, ?_⟩, ?_⟩
    · intro a ha b hb
      have := (h1.2 a ha).2
      have := h2.2 b hb
      omega
    · intro x hx
      rcases hx with hx | hx
      · exact (h1.2 x hx).1
      · have := h2.2 x hx
        omega

theorem sortSections_idem (u : Nat) (ss : List Section) :
    sortSections u (sortSections u ss) = sortSections u ss := by
  induction ss generalizing u with
  | nil => rfl
  | cons s ss ih =>
    rw [sortSections_cons, sortSections_cons, sortSection_idem, ih]

theorem sortSections_names (u : Nat) (ss : List Section) (s : Section)
    (hs : s ∈ sortSections u ss) (hk : s.kind = .byName) :
    s.elems.Pairwise (fun a b => a.name ≤ b.name) := by
  induction ss generalizing u with
  | nil => simp [sortSections] at hs
  | cons t ss ih =>
    rw [sortSections_cons, List.mem_cons] at hs
    rcases hs with rfl | hs
    · rw [sortSection_kind] at hk
      exact sortSection_names u t hk
    · exact ih _ hs

/-! ## the writer -/

theorem writerLe_of_lt (a b : Elem) (ha : a.uid ≠ 0) (hb : b.uid ≠ 0) (h : a.uid < b.uid) :
    writerLe a b = true := by
  have hne : a.uid ≠ b.uid := by omega
  simp [writerLe, ha, hb, hne]
  omega

theorem mergeSort_writerLe_of_increasing (l : List Elem)
    (h : (l.map (·.uid)).Pairwise (· < ·)) (h0 : ∀ e ∈ l, e.uid ≠ 0) :
    l.mergeSort writerLe = l := by
  apply List.mergeSort_of_pairwise
  rw [List.pairwise_map] at h
  exact h.imp_of_mem (fun ha hb hlt => writerLe_of_lt _ _ (h0 _ ha) (h0 _ hb) hlt)

end A2l.Srt
