import A2lVerif.Model.Sort
/-! helper lemmas for C14 / C15 -/
namespace A2l.Srt
end A2l.Srt
