import A2lVerif.Lemmas.TypedStore
/-!
# Typed IF_DATA access, part J: `load (store v) == v` for every value of the generated type, whatever its layout

`load_store_rec` needs the locations in `__block_info` to be consistent (`TypedOk`). A value that a user builds with
the generated `new(..)` and by pushing to the `Vec`s has default locations (and, for a sequence, possibly fewer
locations than elements: `store` then uses `unwrap_or_default()`), so it is not `TypedOk` in general. Here:
`Shaped S v` (the fields have the right types; nothing is said about `__block_info`) implies that the stored value
loads, and the result is `Eqv` to `v`: equal in the sense of the generated `PartialEq`, which compares all fields and
ignores `__block_info` at every level.
-/
namespace A2l.Typed
open A2l.Aml A2l.IfData

def shBlockWith (shf : List TVal → Bool) (v : TVal) : Bool :=
  match v with
  | .struct _ fs => shf fs
  | _ => false

def shMemberWith (shf : List TVal → Bool) (rep : Bool) (field : TVal) : Bool :=
  match field with
  | .opt none => !rep
  | .opt (some v) => !rep && shBlockWith shf v
  | .multi vs => rep && vs.all (shBlockWith shf)
  | _ => false

mutual
/-- `v` is a value of the Rust type of an item of type `t` (nothing is required of the `__block_info` inside) -/
def shItem : OTy → TVal → Bool
  | .none, _ => false
  | .int _, v => match v with | .int _ => true | _ => false
  | .float, v => match v with | .float _ => true | _ => false
  | .double, v => match v with | .double _ => true | _ => false
  | .str, v => match v with | .str _ => true | _ => false
  | .array of dim, v => match v with | .array vs => vs.length == dim && vs.all (shItem of) | _ => false
  | .enum names, v => match v with | .enum s => names.contains s | _ => false
  | .struct items, v => match v with | .struct _ fs => shFields items fs | _ => false
  | .seq of, v => match v with | .seq vs => vs.all (shItem of) | _ => false
  | .tagged _ _, _ => false
def shFields : List OTy → List TVal → Bool
  | [], fs => fs.isEmpty
  | t :: rest, fs =>
    match t with
    | .tagged _ members => shMembers members fs && shFields rest (fs.drop members.length)
    | t =>
      match fs with
      | v :: fs' => shItem t v && shFields rest fs'
      | [] => false
def shMembers : List (OTag OTy) → List TVal → Bool
  | [], _ => true
  | m :: rest, fs =>
    match fs with
    | f :: fs' => shMemberWith (shFields m.items) m.rep f && shMembers rest fs'
    | [] => false
end

/-- `v` is a value of the root type generated for `S`, with any `__block_info` -/
def Shaped (S : Spec) (v : TVal) : Prop := shBlockWith (shFields (rootItems S)) v = true

instance (S : Spec) (v : TVal) : Decidable (Shaped S v) := by unfold Shaped; infer_instance

mutual
/-- the generated `PartialEq`: all fields, not `__block_info` -/
def Eqv : TVal → TVal → Prop
  | .int a, w => w = .int a
  | .float a, w => w = .float a
  | .double a, w => w = .double a
  | .str a, w => w = .str a
  | .enum a, w => w = .enum a
  | .array a, w => ∃ b, w = .array b ∧ EqvL a b
  | .seq a, w => ∃ b, w = .seq b ∧ EqvL a b
  | .struct _ fs, w => ∃ info' fs', w = .struct info' fs' ∧ EqvL fs fs'
  | .opt none, w => w = .opt none
  | .opt (some v), w => ∃ v', w = .opt (some v') ∧ Eqv v v'
  | .multi a, w => ∃ b, w = .multi b ∧ EqvL a b
def EqvL : List TVal → List TVal → Prop
  | [], b => b = []
  | x :: a, b => ∃ y b', b = y :: b' ∧ Eqv x y ∧ EqvL a b'
end

theorem EqvL_append : ∀ {a b a' b' : List TVal}, EqvL a b → EqvL a' b' → EqvL (a ++ a') (b ++ b')
  | [], b, a', b', h, h' => by rw [EqvL] at h; subst h; exact h'
  | x :: a, b, a', b', h, h' => by
    rw [EqvL] at h
    obtain ⟨y, b1, rfl, h1, h2⟩ := h
    rw [List.cons_append, List.cons_append, EqvL]
    exact ⟨y, b1 ++ b', rfl, h1, EqvL_append h2 h'⟩

theorem EqvL_length : ∀ {a b : List TVal}, EqvL a b → a.length = b.length
  | [], b, h => by rw [EqvL] at h; subst h; rfl
  | x :: a, b, h => by
    rw [EqvL] at h
    obtain ⟨y, b1, rfl, _, h2⟩ := h
    simp [EqvL_length h2]

/-! ## equations -/

theorem shItem_int (w : Nat) (v : TVal) : shItem (.int w) v = match v with | .int _ => true | _ => false := by cases v <;> rfl
theorem shItem_float (v : TVal) : shItem .float v = match v with | .float _ => true | _ => false := by cases v <;> rfl
theorem shItem_double (v : TVal) : shItem .double v = match v with | .double _ => true | _ => false := by cases v <;> rfl
theorem shItem_str (v : TVal) : shItem .str v = match v with | .str _ => true | _ => false := by cases v <;> rfl
theorem shItem_array (of : OTy) (dim : Nat) (v : TVal) : shItem (.array of dim) v =
    match v with | .array vs => vs.length == dim && vs.all (shItem of) | _ => false := by cases v <;> rfl
theorem shItem_enum (names : List (List Char)) (v : TVal) : shItem (.enum names) v =
    match v with | .enum s => names.contains s | _ => false := by cases v <;> rfl
theorem shItem_struct (items : List OTy) (v : TVal) : shItem (.struct items) v =
    match v with | .struct _ fs => shFields items fs | _ => false := by cases v <;> rfl
theorem shItem_seq (of : OTy) (v : TVal) : shItem (.seq of) v =
    match v with | .seq vs => vs.all (shItem of) | _ => false := by cases v <;> rfl

theorem shFields_nil (fs : List TVal) : shFields [] fs = fs.isEmpty := by rw [shFields]
theorem shFields_cons_tagged (u : Bool) (ms : List (OTag OTy)) (rest : List OTy) (fs : List TVal) :
    shFields (.tagged u ms :: rest) fs = (shMembers ms fs && shFields rest (fs.drop ms.length)) := by rw [shFields]
theorem shFields_cons_item (t : OTy) (ht : isTagged t = false) (rest : List OTy) (fs : List TVal) :
    shFields (t :: rest) fs = match fs with | v :: fs' => shItem t v && shFields rest fs' | [] => false := by
  cases t <;> first | rfl | (simp [isTagged] at ht)
theorem shMembers_cons (m : OTag OTy) (rest : List (OTag OTy)) (fs : List TVal) : shMembers (m :: rest) fs =
    match fs with | f :: fs' => shMemberWith (shFields m.items) m.rep f && shMembers rest fs' | [] => false := by
  cases fs <;> rfl

/-! ## lists -/

theorem loadArr_storeList_eqv {f : Gen → LRes (TVal × Loc)} {sf : TVal → Loc → Gen} {sh : TVal → Bool} (d : Loc)
    (h : ∀ v l, sh v = true → ∃ v' l', f (sf v l) = .ok (v', l') ∧ Eqv v v') : ∀ (vs : List TVal) (ls : List Loc),
    vs.all sh = true → ∃ rs, loadArr f vs.length (storeList sf d vs ls) = .ok rs ∧ EqvL vs (rs.map (·.1))
  | [], _, _ => ⟨[], rfl, by simp only [List.map_nil]; rw [EqvL]⟩
  | v :: vs, ls, h' => by
    simp only [List.all_cons, Bool.and_eq_true] at h'
    obtain ⟨v', l', hv, he⟩ := h v (ls.headD d) h'.1
    obtain ⟨rs, hrs, hes⟩ := loadArr_storeList_eqv d h vs ls.tail h'.2
    refine ⟨(v', l') :: rs, by simp only [List.length_cons, storeList, loadArr, List.headD_cons, List.tail_cons, hv, hrs,
      LRes.ok_bind, LRes.pure_def], ?_⟩
    simp only [List.map_cons]
    rw [EqvL]
    exact ⟨v', _, rfl, he, hes⟩

theorem mapL_storeList_eqv {f : Gen → LRes (TVal × Loc)} {sf : TVal → Loc → Gen} {sh : TVal → Bool} (d : Loc)
    (h : ∀ v l, sh v = true → ∃ v' l', f (sf v l) = .ok (v', l') ∧ Eqv v v') : ∀ (vs : List TVal) (ls : List Loc),
    vs.all sh = true → ∃ rs, mapL f (storeList sf d vs ls) = .ok rs ∧ EqvL vs (rs.map (·.1))
  | [], _, _ => ⟨[], rfl, by simp only [List.map_nil]; rw [EqvL]⟩
  | v :: vs, ls, h' => by
    simp only [List.all_cons, Bool.and_eq_true] at h'
    obtain ⟨v', l', hv, he⟩ := h v (ls.headD d) h'.1
    obtain ⟨rs, hrs, hes⟩ := mapL_storeList_eqv d h vs ls.tail h'.2
    refine ⟨(v', l') :: rs, by simp only [storeList, mapL, hv, hrs, LRes.ok_bind, LRes.pure_def], ?_⟩
    simp only [List.map_cons]
    rw [EqvL]
    exact ⟨v', _, rfl, he, hes⟩

theorem mapL_map_eqv {α : Type} {f : α → LRes TVal} {g : TVal → α} : ∀ (vs : List TVal),
    (∀ v ∈ vs, ∃ v', f (g v) = .ok v' ∧ Eqv v v') → ∃ ws, mapL f (vs.map g) = .ok ws ∧ EqvL vs ws
  | [], _ => ⟨[], rfl, by rw [EqvL]⟩
  | v :: vs, h => by
    obtain ⟨v', hv, he⟩ := h v (List.mem_cons_self ..)
    obtain ⟨ws, hws, hes⟩ := mapL_map_eqv vs (fun w hw => h w (List.mem_cons_of_mem _ hw))
    refine ⟨v' :: ws, by simp only [List.map_cons, mapL, hv, hws, LRes.ok_bind, LRes.pure_def], ?_⟩
    rw [EqvL]
    exact ⟨v', ws, rfl, he, hes⟩

/-! ## members -/

theorem loadMember_storeMember_eqv {lf : List Gen → LRes (List TVal × List Loc)} {sf : List TVal → List Loc → List Gen}
    {shf : List TVal → Bool} (h : ∀ fs locs, shf fs = true → ∃ fs' locs', lf (sf fs locs) = .ok (fs', locs') ∧ EqvL fs fs')
    (tag : List Char) (rep b : Bool) (f : TVal) (hf : shMemberWith shf rep f = true) (items : List (TItem Gen))
    (hitems : itemsOf items tag = storeMember sf tag b f) : ∃ f', loadMember lf tag rep items = .ok f' ∧ Eqv f f' := by
  have hblock : ∀ v, shBlockWith shf v = true → ∃ v',
      loadBlockWith lf (mkItem sf tag b v).data (mkItem sf tag b v).uid (mkItem sf tag b v).startOff (mkItem sf tag b v).endOff = .ok v' ∧
        Eqv v v' := by
    intro v hv
    cases v with
    | struct info fs =>
      simp only [shBlockWith] at hv
      obtain ⟨fs', locs', hl, he⟩ := h fs info.locs hv
      refine ⟨.struct ⟨info.line, info.uid, info.startOff, info.endOff, locs'⟩ fs', by
        simp only [mkItem, loadBlockWith, hl, LRes.ok_bind, LRes.pure_def], ?_⟩
      rw [Eqv]
      exact ⟨_, _, rfl, he⟩
    | _ => simp [shBlockWith] at hv
  unfold loadMember
  rw [hasTag_eq, hitems]
  cases f with
  | opt o =>
    cases o with
    | none =>
      simp only [shMemberWith, Bool.not_eq_true'] at hf
      refine ⟨.opt none, by simp [hf, storeMember], by rw [Eqv]⟩
    | some v =>
      simp only [shMemberWith, Bool.and_eq_true, Bool.not_eq_true'] at hf
      obtain ⟨v', hv, he⟩ := hblock v hf.2
      refine ⟨.opt (some v'), ?_, by rw [Eqv]; exact ⟨v', rfl, he⟩⟩
      simp only [hf.1, storeMember, List.isEmpty_cons, Bool.not_false, if_true, hv, LRes.ok_bind, LRes.pure_def]
      rfl
  | multi vs =>
    simp only [shMemberWith, Bool.and_eq_true, List.all_eq_true] at hf
    obtain ⟨ws, hws, hes⟩ := mapL_map_eqv (f := fun it : TItem Gen => loadBlockWith lf it.data it.uid it.startOff it.endOff)
      (g := mkItem sf tag b) vs (fun v hv => hblock v (hf.2 v hv))
    refine ⟨.multi ws, ?_, by rw [Eqv]; exact ⟨ws, rfl, hes⟩⟩
    simp only [hf.1, if_true, storeMember, hws, LRes.ok_bind, LRes.pure_def]
  | _ => simp [shMemberWith] at hf

/-! ## the theorem -/

theorem load_store_eqv_rec :
    (∀ t, distinctTy t = true → ∀ v l, shItem t v = true → ∃ v' l', loadItem t (storeItem t v l) = .ok (v', l') ∧ Eqv v v') ∧
    (∀ ts, distinctL ts = true → ∀ fs locs, shFields ts fs = true →
      ∃ fs' locs', loadFields ts (storeFields ts fs locs) = .ok (fs', locs') ∧ EqvL fs fs') ∧
    (∀ ms, distinctM ms = true → nodupB (tagsOfM ms) = true → ∀ fs pre g, shMembers ms fs = true →
      (∀ it ∈ pre, it.tag ∉ tagsOfM ms) → tagItems g = .ok (pre ++ storeMembers ms fs) →
      ∃ fs', loadMembers ms g = .ok fs' ∧ EqvL (fs.take ms.length) fs') := by
  refine OTy.induct'
    (P := fun t => distinctTy t = true → ∀ v l, shItem t v = true →
      ∃ v' l', loadItem t (storeItem t v l) = .ok (v', l') ∧ Eqv v v')
    (PL := fun ts => distinctL ts = true → ∀ fs locs, shFields ts fs = true →
      ∃ fs' locs', loadFields ts (storeFields ts fs locs) = .ok (fs', locs') ∧ EqvL fs fs')
    (PM := fun ms => distinctM ms = true → nodupB (tagsOfM ms) = true → ∀ fs pre g, shMembers ms fs = true →
      (∀ it ∈ pre, it.tag ∉ tagsOfM ms) → tagItems g = .ok (pre ++ storeMembers ms fs) →
      ∃ fs', loadMembers ms g = .ok fs' ∧ EqvL (fs.take ms.length) fs')
    ?_ ?_ ?_ ?_ ?_ ?_ ?_ ?_ ?_ ?_ ?_ ?_ ?_ ?_ ?_
  · intro _ v l h; simp [shItem] at h
  · intro w _ v l h
    rw [shItem_int] at h
    cases v <;> simp at h
    rename_i i
    exact ⟨.int i, .int l.offOf l.hexOf, by simp [storeItem_int, loadItem_int], by rw [Eqv]⟩
  · intro _ v l h
    rw [shItem_float] at h
    cases v <;> simp at h
    rename_i i
    exact ⟨.float i, .off l.offOf, by simp [storeItem_float, loadItem_float], by rw [Eqv]⟩
  · intro _ v l h
    rw [shItem_double] at h
    cases v <;> simp at h
    rename_i i
    exact ⟨.double i, .off l.offOf, by simp [storeItem_double, loadItem_double], by rw [Eqv]⟩
  · intro _ v l h
    rw [shItem_str] at h
    cases v <;> simp at h
    rename_i i
    exact ⟨.str i, .off l.offOf, by simp [storeItem_str, loadItem_str], by rw [Eqv]⟩
  · intro of dim ih hd v l h
    rw [distinctTy] at hd
    rw [shItem_array] at h
    cases v <;> simp only [Bool.and_eq_true, beq_iff_eq, Bool.false_eq_true] at h
    rename_i vs
    obtain ⟨rs, hrs, hes⟩ := loadArr_storeList_eqv (f := loadItem of) (sf := storeItem of) (sh := shItem of) (defLoc of)
      (ih hd) vs l.listOf h.2
    rw [h.1] at hrs
    refine ⟨.array (rs.map (·.1)), .arr (rs.map (·.2)), by simp [storeItem_array, loadItem_array, hrs], ?_⟩
    rw [Eqv]
    exact ⟨_, rfl, hes⟩
  · intro names _ v l h
    rw [shItem_enum] at h
    cases v <;> simp only [Bool.false_eq_true] at h
    rename_i i
    refine ⟨.enum i, .off l.offOf, by rw [storeItem_enum, loadItem_enum]; simp only [h, if_true], by rw [Eqv]⟩
  · intro items ih hd v l h
    rw [distinctTy] at hd
    rw [shItem_struct] at h
    cases v <;> simp only [Bool.false_eq_true] at h
    rename_i info fs
    obtain ⟨fs', locs', hl, he⟩ := ih hd fs info.locs h
    refine ⟨.struct ⟨info.line, 0, 0, 0, locs'⟩ fs', .off info.line, by simp [storeItem_struct, loadItem_struct, hl], ?_⟩
    rw [Eqv]
    exact ⟨_, _, rfl, he⟩
  · intro of ih hd v l h
    rw [distinctTy] at hd
    rw [shItem_seq] at h
    cases v <;> simp only [Bool.false_eq_true] at h
    rename_i vs
    obtain ⟨rs, hrs, hes⟩ := mapL_storeList_eqv (f := loadItem of) (sf := storeItem of) (sh := shItem of) (defLoc of)
      (ih hd) vs l.listOf h
    refine ⟨.seq (rs.map (·.1)), .seq (rs.map (·.2)), by simp [storeItem_seq, loadItem_seq, hrs], ?_⟩
    rw [Eqv]
    exact ⟨_, rfl, hes⟩
  · intro u ms _ _ v l h; simp [shItem] at h
  · intro _ fs locs h
    rw [shFields_nil] at h
    simp only [List.isEmpty_iff] at h
    subst h
    exact ⟨[], [], by rw [storeFields_nil, loadFields]; rfl, by rw [EqvL]⟩
  · intro u ms rest ihm ihr hd fs locs h
    rw [distinctL, distinctTy] at hd
    simp only [Bool.and_eq_true] at hd
    rw [shFields_cons_tagged] at h
    simp only [Bool.and_eq_true] at h
    obtain ⟨ms', hms, hem⟩ := ihm hd.1.2 hd.1.1 fs [] (if u then Gen.taggedUnion (storeMembers ms fs) else Gen.taggedStruct (storeMembers ms fs))
      h.1 (by intro it hit; cases hit) (by cases u <;> rfl)
    obtain ⟨fs', locs', hl, he⟩ := ihr hd.2 (fs.drop ms.length) locs h.2
    refine ⟨ms' ++ fs', locs', by simp [storeFields_cons_tagged, loadFields_cons_tagged, hms, hl], ?_⟩
    have := EqvL_append hem he
    rwa [List.take_append_drop] at this
  · intro t rest ht iht ihr hd fs locs h
    rw [distinctL] at hd
    simp only [Bool.and_eq_true] at hd
    rw [shFields_cons_item t ht] at h
    cases fs with
    | nil => simp at h
    | cons v fs1 =>
      simp only [Bool.and_eq_true] at h
      obtain ⟨v', l', hv, hev⟩ := iht hd.1 v (locs.headD (defLoc t)) h.1
      obtain ⟨fs', locs', hl, he⟩ := ihr hd.2 fs1 locs.tail h.2
      refine ⟨v' :: fs', l' :: locs', by
        simp only [storeFields_cons_item t ht, loadFields_cons_item t ht, List.headD_cons, List.tail_cons, hv, hl,
          LRes.ok_bind, LRes.pure_def], ?_⟩
      rw [EqvL]
      exact ⟨v', fs', rfl, hev, he⟩
  · intro _ _ fs pre g _ _ _
    exact ⟨[], by rw [loadMembers]; rfl, by simp only [List.length_nil, List.take_zero]; rw [EqvL]⟩
  · intro m rest ihm ihr hd hn fs pre g hok hpre hg
    rw [distinctM] at hd
    simp only [Bool.and_eq_true] at hd
    rw [tagsOfM, nodupB_cons] at hn
    rw [shMembers_cons] at hok
    cases fs with
    | nil => simp at hok
    | cons f fs1 =>
      simp only [Bool.and_eq_true] at hok
      rw [storeMembers_cons] at hg
      simp only [List.headD_cons, List.tail_cons] at hg
      have hitems : itemsOf (pre ++ (storeMember (storeFields m.items) m.tag m.isBlock f ++ storeMembers rest fs1)) m.tag =
          storeMember (storeFields m.items) m.tag m.isBlock f := by
        rw [itemsOf_append, itemsOf_append, itemsOf_none pre, itemsOf_all _ _ (storeMember_tag _ _ _ _), itemsOf_none]
        · simp
        · intro it hit he
          exact hn.1 (he ▸ storeMembers_tags rest fs1 it hit)
        · intro it hit he
          exact hpre it hit (by rw [tagsOfM, he]; exact List.mem_cons_self ..)
      obtain ⟨f', hf', hef⟩ := loadMember_storeMember_eqv (shf := shFields m.items) (sf := storeFields m.items) (ihm hd.1)
        m.tag m.rep m.isBlock f hok.1 _ hitems
      obtain ⟨fs', hfs', hes⟩ := ihr hd.2 hn.2 fs1 (pre ++ storeMember (storeFields m.items) m.tag m.isBlock f) g hok.2 (by
        intro it hit
        rcases List.mem_append.1 hit with h | h
        · intro hmem
          exact hpre it h (by rw [tagsOfM]; exact List.mem_cons_of_mem _ hmem)
        · rw [storeMember_tag _ _ _ _ it h]
          exact hn.1) (by rw [hg, List.append_assoc])
      refine ⟨f' :: fs', by simp only [loadMembers, hg, hf', hfs', LRes.ok_bind, LRes.pure_def], ?_⟩
      simp only [List.length_cons, List.take_succ_cons]
      rw [EqvL]
      exact ⟨f', fs', rfl, hef, hes⟩

/-- storing any value of the generated root type and loading it back gives an equal value (the generated `==`) -/
theorem typedLoadAt_typedStore_eqv (S : Spec) (v : TVal) (hd : TagsDistinct S) (hv : Shaped S v) (u so eo : Nat) :
    ∃ v', typedLoadAt S (typedStore S v) u so eo = .ok v' ∧ Eqv v v' := by
  unfold Shaped at hv
  cases v with
  | struct info fs =>
    simp only [shBlockWith] at hv
    obtain ⟨fs', locs', hl, he⟩ := load_store_eqv_rec.2.1 _ hd fs info.locs hv
    refine ⟨.struct ⟨info.line, u, so, eo, locs'⟩ fs', by
      simp only [typedLoadAt, typedStore, loadBlockWith, hl, LRes.ok_bind, LRes.pure_def], ?_⟩
    rw [Eqv]
    exact ⟨_, _, rfl, he⟩
  | _ => simp [shBlockWith] at hv

end A2l.Typed
