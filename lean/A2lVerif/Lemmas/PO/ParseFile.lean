import A2lVerif.Lemmas.PO.Root
/-! # C02 / C01 gap, fragment "file": what `parse_file` returns in strict mode -/
namespace A2l.Tree
open A2l.G A2l.Sc

/-- what is known of the root value `v` that `parse_file` returned: `items` = its sub-elements in input order,
    `ver` = the file version found by `parse_version`, `rarms` = the arms of the root type -/
structure FilePost (e : Env) (lx : LexEnv) (X : Array PTok) (rarms : List Arm) (v : Val) (items : List OT) (ver : Nat) :
    Prop where
  val : ∃ info ch cm, v = .block e.known.tyA2lFile info [] ch cm ∧ info.startOff = 0 ∧ info.endOff = 0
  ord : InOrder e v items
  canon : OT.posAll e.code items → Canon e v items
  sibc : ∃ items', OT.SibPL e.code items items' ∧ Canon e v items'
  wf : OT.wfL (mkC e lx X ver) rarms false items
  mult : MultOk true rarms items
  head : HeadOk (mkC e lx X ver) items
  lexv : OT.lexVL items
  eokL : OT.endOkL items
  nb : OT.noBumpL false items
  idseq : OT.idSeqOkL (mkC e lx X ver) 0 items []
  sim : TSim lx e.toks.toList (OT.toksL 0 items)

/-- what is assumed of the root type: a keyword without parameters whose tagged part is `rarms`; the arm with the version
    tag is the version keyword -/
structure RootOk (e : Env) (rarms : List Arm) : Prop where
  root : e.table.lookup e.known.tyA2lFile = some (.block false [] rarms true)
  verArm : ∀ a ∈ rarms, a.tag = e.known.tagAsap2Version → a.ty = e.known.tyAsap2Version

theorem nodup_filter_single (o : OT) (p : OT → Bool) : ([o].filter p).length ≤ 1 := by
  have := List.length_filter_le p [o]
  simpa using this

section
variable {e : Env} {lx : LexEnv} (hin : InOk e lx) (X : Array PTok)
include hin

/-- **`parse_file` in strict mode** -/
theorem parseFile_post (htab : tableOk e.table e.known = true) (hshape : shapeOk e.table = true) (htags : TagsOk e)
    (hns : NoSpecialOk e) {rarms : List Arm} (hroot : RootOk e rarms) {fuel : Nat} {s0 : PState} {v : Val} {s : PState}
    (h : parseFile fuel e s0 = .ok v s) (hp0 : s0.pos = 0) :
    ∃ items ver, FilePost e lx X rarms v items ver := by
  have hst := hin.strict
  rw [parseFile_unfold] at h
  obtain ⟨ver, s1, hv, h⟩ := bind_eq_ok h
  simp only [modifyState_bind] at h
  obtain ⟨file, s2, hf, h⟩ := bind_eq_ok h
  simp only [peekToken_bind] at h
  cases hend : e.toks[s2.pos]? with
  | some tk =>
    rw [hend] at h
    dsimp only at h
    rw [bind_def, errorOrLog_strict' hst] at h
    cases h
  | none =>
    rw [hend] at h
    cases h
    -- `parse_version`
    obtain ⟨t, sv1, vctx, vv, sv2, vty, vinfo, major, mh1, mo1, mw1, minor, mh2, mo2, mw2, vc1, vc2, o1, hty, hsym, hpv, hvv,
      hver, hp1, -⟩ := parseVersion_ok hin hv
    -- the root
    cases fuel with
    | zero => rw [parseType] at hf; cases hf
    | succ f =>
      rw [parseType_block_unfold f _ _ 0 e _ hroot.root] at hf
      unfold typeBody at hf
      obtain ⟨fields, sR1, hi1, h2⟩ := bind_eq_ok hf
      cases f with
      | zero => rw [parseItems] at hi1; cases hi1
      | succ f' =>
        rw [parseItems] at hi1
        cases hi1
        dsimp only at h2
        simp only [if_true] at h2
        obtain ⟨⟨children, comments⟩, sL, h3, h4⟩ := bind_eq_ok h2
        dsimp only at h4
        obtain ⟨u, s3, h5, h6⟩ := bind_eq_ok h4
        obtain ⟨hs3, hmult⟩ := multCheck_ok hst _ _ _ h5
        rw [hs3] at h6
        simp only [Bool.false_eq_true, if_false] at h6
        cases h6
        clear h5 hs3 h4 h2
        obtain ⟨-, harmsB, -⟩ := shapeOk_block hshape hroot.root
        have harms : ArmsOk e rarms := ⟨harmsB, fun a ha => (htags _ _ _ _ _ hroot.root a ha).1,
          fun a ha => (htags _ _ _ _ _ hroot.root a ha).2⟩
        -- leading comments
        obtain ⟨cs, hseg, hcs⟩ := o1.toks
        have hsz1 : sv1.pos ≤ e.toks.size := by have := lt_of_getElem?_some o1.last; have := o1.pos; omega
        rw [hp0] at hseg
        generalize hsR : ({ pos := s1.pos, lastLine := s1.lastLine, seqId := s1.seqId + 1, log := s1.log, ver := ver } : PState) = sR at h3
        have hsRp : sR.pos = 0 := by rw [← hsR]; exact hp1
        have hsRv : sR.ver = ver := by rw [← hsR]
        obtain ⟨fuel1, sA, a1, a2, a3, a4, a5, a6, a7⟩ := tagged_skip_comments o1.nc cs (f' + 1) sR sv1.pos
          (by rw [hsRp]; exact hseg) hcs hsz1 h3
        obtain ⟨fuel2, off, s1c, i, arm, s2c, vc, s3c, hnt, hfi, harm, hform, hnew, p2, q2, v2, h5, hempty, h8⟩ :=
          root_first hst a5 a6 hty hend
        obtain ⟨oc, -, -, hpc⟩ := hnt
        have hnt' : NextTagPost e sA (.block t false off) s1c := ⟨oc, hty, a6, hpc⟩
        have hfidt : t.fileid = 0 := hin.fid _ t a6
        obtain ⟨ihT, ihL⟩ := parse_goals hin X hshape htags hns fuel2
        obtain ⟨cinfo, cfields, cch, ccm, its, isB, cits, carms, cht, rfl, nf⟩ := ihT arm.ty _ off s2c vc s3c h5 hfidt
        have hver2 : s2c.ver = sA.ver := by rw [v2, oc.ver]
        rw [hver2] at nf
        obtain ⟨f3, hwf, hlexN, hendN, hidN, hsimN⟩ := child_node hin X harms (pib := false) hnt' hfi harm hform hnew p2 q2 v2 nf
        -- it is the version keyword
        obtain ⟨hi, htag, -⟩ := List.findIdx?_eq_some_iff_getElem.1 hfi
        have hAi : rarms[i] = arm := by rw [List.getElem?_eq_getElem hi] at harm; exact Option.some.inj harm
        have htagEq : arm.tag = e.known.tagAsap2Version := by
          rw [hAi] at htag; rw [← hsym]; simpa using htag
        have hmem : arm ∈ rarms := List.mem_of_getElem? harm
        have htyEq : arm.ty = e.known.tyAsap2Version := hroot.verArm arm hmem htagEq
        obtain ⟨wa, wb, hlk⟩ := tableOk_version htab
        rw [htyEq] at h5
        obtain ⟨i1, i2, x, hx, y, hy, ox, oy, ox', oy', hvv', hvc'⟩ := versionType_det hlk hpv h5
          (by rw [p2, hpc]; omega)
        rw [hvv] at hvv'
        injection hvv' with _ _ hfl _ _
        injection hfl with hm1 hfl2
        injection hfl2 with hm2 _
        injection hm1 with hmajor _ _ _
        injection hm2 with hminor _ _ _
        injection hvc' with _ _ hcf hcch hccm
        have hlk' := nf.lookup
        rw [htyEq, hlk] at hlk'
        injection hlk' with hlk''
        injection hlk'' with hB hI hA hT
        have hits : its = [] := nf.nil hT.symm
        have heo : cinfo.endOff = 0 := nf.eoff hB.symm
        -- the rest of the loop
        have hinv0 := (LInv.init e rarms sA.seqId).childStep (q' := s3c.seqId) harm nf.canon nf.sibc nf.ord
          (by have := nf.uidlt; rw [q2, oc.seq] at this; exact this) nf.uidle
        simp only [List.nil_append] at hinv0
        have hnr0 : NR rarms [OT.node i (symText e.symbols arm.tag) arm.block arm.ty cinfo.startOff cinfo.endOff
            (cfields.map normField) its] := fun j a _ _ => nodup_filter_single _ _
        obtain ⟨xs, sub', cm', R', hcm, inv', nr', res'⟩ := ihL (rootCtx e) rarms false _ [] s3c children comments _ h8 rfl
          harms _ _ _ hinv0 hnr0
        have hver3 : s3c.ver = ver := by rw [f3.ver, a3, hsRv]
        have hverA : sA.ver = ver := by rw [a3, hsRv]
        rw [hver3] at res'
        rw [hverA] at hwf
        subst hcm
        refine ⟨_ :: xs, ver, ⟨⟨_, children, _, rfl, rfl, rfl⟩, inv'.toInOrder hroot.root _ rfl _,
          fun hpa => inv'.toCanon hroot.root hpa _ _ (by simp), inv'.toSibCanon hroot.root _ _ (by simp), ⟨hwf, res'.wf⟩, multOk_of_check inv' nr' hmult, ?_,
          ⟨hlexN, res'.lexv⟩, ⟨hendN, res'.eokL⟩,
          (by simp only [OT.noBumpL]
              exact ⟨(fun h => by cases h), nf.nb, res'.nb (fun h => by cases h) false (fun h => by cases h)⟩),
          ?_, ?_⟩⟩
        · -- the head is the version keyword, with the version `parse_version` found
          simp only [HeadOk]
          have hstc : (mkC e lx X ver).e.strict = true := hst
          rw [if_pos hstc]
          refine ⟨major, minor, ⟨i, symText e.symbols arm.tag, cinfo.startOff, hx, ox', wa, hy, oy', wb, ?_, ?_⟩, hver⟩
          · rw [hform, htyEq, heo, hits, hcf, hmajor, hminor]
            rfl
          · simp only [OT.wf] at hwf
            obtain ⟨a', _, _, _, ha', -, -, -, -, -, -, -, hidx, -⟩ := hwf
            obtain ⟨hi', htag', -⟩ := List.findIdx?_eq_some_iff_getElem.1 hidx
            rw [hAi] at htag'
            have h1 : arm.tag = (mkC e lx X ver).lx.symOf (symText e.symbols arm.tag) := by simpa using htag'
            have h2 : arm.tag = lx.symOf (symText e.symbols arm.tag) := h1
            show lx.symOf (symText e.symbols arm.tag) = e.known.tagAsap2Version
            rw [← h2]; exact htagEq
        · -- sequences of identifiers
          have htail : tailFrom e s.pos = [] := by
            unfold tailFrom
            apply List.drop_eq_nil_of_le
            rcases Nat.lt_or_ge s.pos e.toks.size with hlt | hge
            · rw [getElem?_pos e.toks _ hlt] at hend; cases hend
            · simpa using hge
          have hnr0 : NextRel (tailFrom e s.pos) [] := by rw [htail]; simp [NextRel, nextNCp, nextNC]
          have hfi0 : FollowId [] := by intro w hw; simp [nextNC] at hw
          rw [hverA] at hidN
          refine ⟨hidN _ ?_ ?_ 0, res'.idseq (.inr hend) [] hnr0 hfi0 0⟩
          · rw [tailFrom_seg e res'.fwd.pos]
            exact NextRel.of_sim (res'.sim (.inr hend) 0) hnr0
          · exact followId_toksL _ hst 0 rarms false [] xs res'.wf hfi0
        · -- the tokens
          have hsz : e.toks.size ≤ s.pos := by
            rcases Nat.lt_or_ge s.pos e.toks.size with hlt | hge
            · rw [getElem?_pos e.toks _ hlt] at hend; cases hend
            · exact hge
          rw [← seg_of_ge e hsz]
          have e1 : seg e 0 s.pos = seg e sR.pos sA.pos ++ (seg e sA.pos s3c.pos ++ seg e s3c.pos s.pos) := by
            rw [seg_append e f3.pos res'.fwd.pos, seg_append e a4 (by have := f3.pos; have := res'.fwd.pos; omega), hsRp]
          rw [e1]
          have c1 := TSim.comments (lx := lx) _ a7
          have c2 := (hsimN 0).append (res'.sim (.inr hend) 0)
          have := c1.append c2
          simpa [OT.toksL] using this

end
end A2l.Tree
