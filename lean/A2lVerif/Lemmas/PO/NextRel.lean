import A2lVerif.Lemmas.PO.Hyps
/-! # C02 / C01 gap: the next significant token of the input and of the written stream

Needed to derive `SeqStops` (what follows a sequence of identifiers in the WRITTEN stream) from what followed it in the
INPUT. -/
namespace A2l.Tree
open A2l.G A2l.Sc

/-- the first token that is not a comment -/
def nextNCp : List PTok → Option PTok
  | [] => none
  | t :: ts => if t.ty = 6 then nextNCp ts else some t

/-- the next significant tokens of the input and of the written stream agree: both absent, or of the same kind and,
    for identifiers, the same text -/
def NextRel (ts : List PTok) (rest : List WTok) : Prop :=
  match nextNCp ts, nextNC rest with
  | none, none => True
  | some t, some w => w.ty = t.ty ∧ (t.ty = 0 → w.text = t.text)
  | _, _ => False

theorem NextRel.of_sim {lx : LexEnv} {ts : List PTok} {ws : List WTok} (h : TSim lx ts ws) {ts' : List PTok}
    {rest : List WTok} (hr : NextRel ts' rest) : NextRel (ts ++ ts') (ws ++ rest) := by
  induction h with
  | nil => exact hr
  | skip t ts ws h6 _ ih =>
    unfold NextRel
    simp only [List.cons_append, nextNCp, h6, if_true]
    exact ih
  | tok t w ts ws h1 _ ih =>
    unfold NextRel
    have hty := h1.ty_eq
    by_cases h6 : t.ty = 6
    · have hw6 : w.ty = 6 := by rw [hty]; exact h6
      simp only [List.cons_append, nextNCp, nextNC, h6, hw6, if_true]
      exact ih
    · have hw6 : ¬ w.ty = 6 := by rw [hty]; exact h6
      simp only [List.cons_append, nextNCp, nextNC, h6, hw6, if_false]
      refine ⟨hty, fun h0 => ?_⟩
      cases h1 with
      | ident _ _ htext => exact htext
      | begin_ h0' _ _ => rw [h0] at h0'; cases h0'
      | end_ h0' _ _ => rw [h0] at h0'; cases h0'
      | str _ h0' _ _ _ => rw [h0] at h0'; cases h0'
      | int _ _ _ h0' _ _ _ => rw [h0] at h0'; cases h0'
      | dbl _ h0' _ _ _ => rw [h0] at h0'; cases h0'
      | cmt h0' _ _ => rw [h0] at h0'; cases h0'

theorem nextNCp_append_comments {cs : List PTok} (h : ∀ x ∈ cs, x.ty = 6) (ts : List PTok) :
    nextNCp (cs ++ ts) = nextNCp ts := by
  induction cs with
  | nil => rfl
  | cons c cs ih =>
    simp only [List.cons_append, nextNCp, h c List.mem_cons_self, if_true]
    exact ih (fun x hx => h x (List.mem_cons_of_mem _ hx))

/-- the next significant token behind the position where `m` started, if `m` consumed comments and then `t` -/
theorem OneTok.nextNCp {e : Env} {s s' : PState} {t : PTok} (h : OneTok e s t s') :
    A2l.Tree.nextNCp (tailFrom e s.pos) = some t := by
  obtain ⟨cs, hc1, hc2⟩ := h.toks
  rw [tailFrom_seg e (Nat.le_of_lt h.pos), hc1, List.append_assoc, nextNCp_append_comments hc2]
  simp [A2l.Tree.nextNCp, h.nc]

/-! ## `expect_token` forwards: comments, then a token of the expected kind -/

theorem expectTokenAux_fwd (ctx : Ctx) (ty : Nat) (h6 : ty ≠ 6) (e : Env) (t : PTok) (hty : t.ty = ty) :
    ∀ (cs : List PTok) (fuel : Nat) (s : PState) (rest : List PTok), (∀ x ∈ cs, x.ty = 6) →
      tailFrom e s.pos = cs ++ t :: rest → cs.length + 1 ≤ fuel →
      ∃ s', expectTokenAux ctx ty fuel e s = .ok t s' ∧ s'.seqId = s.seqId ∧ s'.ver = s.ver
  | [], fuel, s, rest, _, ht, hf => by
    obtain ⟨f, rfl⟩ : ∃ f, fuel = f + 1 := ⟨fuel - 1, by simp at hf; omega⟩
    have h0 : e.toks[s.pos]? = some t := by
      have : (tailFrom e s.pos)[0]? = some t := by rw [ht]; rfl
      unfold tailFrom at this
      rw [List.getElem?_drop] at this
      simpa using this
    rw [expectTokenAux_succ, bind_def, getToken_eval, h0]
    dsimp only
    rw [if_neg (by rw [hty]; exact h6), if_neg (by simp [hty])]
    exact ⟨_, rfl, rfl, rfl⟩
  | c :: cs, fuel, s, rest, hc, ht, hf => by
    obtain ⟨f, rfl⟩ : ∃ f, fuel = f + 1 := ⟨fuel - 1, by simp at hf; omega⟩
    have h0 : e.toks[s.pos]? = some c := by
      have : (tailFrom e s.pos)[0]? = some c := by rw [ht]; rfl
      unfold tailFrom at this
      rw [List.getElem?_drop] at this
      simpa using this
    have ht' : tailFrom e (s.pos + 1) = cs ++ t :: rest := by
      have := congrArg (List.drop 1) ht
      unfold tailFrom at this ⊢
      rw [List.drop_drop] at this
      simpa [Nat.add_comm] using this
    rw [expectTokenAux_succ, bind_def, getToken_eval, h0]
    dsimp only
    rw [if_pos (hc c List.mem_cons_self)]
    obtain ⟨s', h1, h2, h3⟩ := expectTokenAux_fwd ctx ty h6 e t hty cs f { s with pos := s.pos + 1, lastLine := c.line } rest
      (fun x hx => hc x (List.mem_cons_of_mem _ hx)) ht' (by simp at hf ⊢; omega)
    exact ⟨s', h1, h2, h3⟩

/-- the split of the remaining input at its next significant token -/
theorem nextNCp_split : ∀ (ts : List PTok) (t : PTok), nextNCp ts = some t →
    ∃ cs rest, ts = cs ++ t :: rest ∧ (∀ x ∈ cs, x.ty = 6) ∧ t.ty ≠ 6
  | [], _, h => by simp [nextNCp] at h
  | x :: xs, t, h => by
    by_cases h6 : x.ty = 6
    · simp only [nextNCp, h6, if_true] at h
      obtain ⟨cs, rest, h1, h2, h3⟩ := nextNCp_split xs t h
      refine ⟨x :: cs, rest, by rw [h1]; rfl, ?_, h3⟩
      intro y hy
      rcases List.mem_cons.1 hy with rfl | hy
      · exact h6
      · exact h2 y hy
    · simp only [nextNCp, h6, if_false, Option.some.injEq] at h
      subst h
      exact ⟨[], xs, rfl, by simp, h6⟩

/-- **an identifier parameter cannot fail in front of a well-formed identifier token** (strict mode): it succeeds, or
    `get_line_offset` panics -/
theorem parseItem_ident_not_err {e : Env} (fuel : Nat) (ctx : Ctx) (s : PState) (t : PTok)
    (hn : nextNCp (tailFrom e s.pos) = some t) (hty : t.ty = 0) (hid : IdentOk true t.text) (d : Diag) (s1 : PState) :
    parseItem (fuel + 1) ctx .ident e s ≠ .err d s1 := by
  obtain ⟨cs, rest, hts, hcs, -⟩ := nextNCp_split _ t hn
  have hsz : cs.length + 1 ≤ e.toks.size + 1 := by
    have : (tailFrom e s.pos).length ≤ e.toks.size := by unfold tailFrom; simp
    rw [hts] at this; simp at this; omega
  obtain ⟨s', h1, -, -⟩ := expectTokenAux_fwd ctx 0 (by decide) e t hty cs _ s rest hcs hts hsz
  obtain ⟨c, cs', htext, hv⟩ := hid
  obtain ⟨hdig, hlen⟩ := hv rfl
  rw [parseItem]
  unfold getIdentifier
  rw [bind_def, bind_def, expectToken_def, h1]
  simp only [htext]
  have hbad : ¬ ((isAsciiDigit c || decide (utf8Len (c :: cs') > 1024)) = true) := by
    rw [htext] at hlen
    simp [hdig]; omega
  rw [if_neg hbad]
  simp only [pure_def]
  rcases getLineOffset_cases e s' with hp | ⟨n, hp⟩
  · rw [bind_def, hp]; intro h; cases h
  · rw [bind_def, hp]; intro h; cases h

end A2l.Tree
