import A2lVerif.Lemmas.PO.ParseFile
import A2lVerif.Lemmas.PO.SeqOk
import A2lVerif.Props.C03Table
/-! # C02: the regenerated table of the shipped code satisfies the table hypotheses of the C02 / C01 theorems
    (re-checked by the kernel whenever the translator produces a different table) -/
namespace A2l.Tree
open A2l.G

theorem shipped_shapeOk' : shapeOk Shipped.table = true := by decide +kernel
theorem shipped_seqTblOk' : seqTblOk Shipped.table = true := by decide +kernel

/-- the check of `tagsOkB` for one table entry -/
def tagsEntryB (tbl : Table) (symbols : Array String) (en : Entry) : Bool :=
  match en.def_ with
  | .block _ _ arms _ => arms.all (fun a => identOkB (symText symbols a.tag) &&
      (!a.block || (match tbl.lookup a.ty with | some .special => true | _ => false) ||
        symText symbols a.tag != "A2ML".toList))
  | _ => true

theorem tagsOkB_eq (tbl : Table) (symbols : Array String) : tagsOkB tbl symbols = tbl.all (tagsEntryB tbl symbols) := rfl

theorem shipped_tags_1 : (Shipped.table.take 100).all (tagsEntryB Shipped.table symbols) = true := by decide +kernel
theorem shipped_tags_2 : ((Shipped.table.drop 100).take 100).all (tagsEntryB Shipped.table symbols) = true := by
  decide +kernel
theorem shipped_tags_3 : ((Shipped.table.drop 100).drop 100).all (tagsEntryB Shipped.table symbols) = true := by
  decide +kernel

theorem all_split3 {α} (l : List α) (p : α → Bool) (n m : Nat) :
    l.all p = ((l.take n).all p && (((l.drop n).take m).all p && ((l.drop n).drop m).all p)) := by
  rw [← List.all_append, ← List.all_append, List.take_append_drop, List.take_append_drop]

theorem shipped_tagsOkB : tagsOkB Shipped.table symbols = true := by
  rw [tagsOkB_eq, all_split3 Shipped.table _ 100 100, shipped_tags_1, shipped_tags_2, shipped_tags_3]
  rfl

/-- the arms of the root type `A2L_FILE` -/
def shippedRootArms : List Arm :=
  match Shipped.table.lookup shippedKnown.tyA2lFile with
  | some (.block _ _ arms _) => arms
  | _ => []

theorem shipped_root_lookup :
    Shipped.table.lookup shippedKnown.tyA2lFile = some (.block false [] shippedRootArms true) := by decide +kernel

theorem shipped_root_verArm : shippedRootArms.all (fun a =>
    a.tag != shippedKnown.tagAsap2Version || a.ty == shippedKnown.tyAsap2Version) = true := by decide +kernel

/-- **the shipped grammar satisfies every table hypothesis** of `parse_output_canonical`, `content_preserved` and
    `save_reload_stable_strict` -/
theorem shipped_hypotheses (e : Env) (ht : e.table = Shipped.table) (hs : e.symbols = symbols) (hk : e.known = shippedKnown) :
    tableOk e.table e.known = true ∧ shapeOk e.table = true ∧ seqTblOk e.table = true ∧ TagsOk e ∧
      RootOk e shippedRootArms := by
  refine ⟨by rw [ht, hk]; exact shipped_tableOk, by rw [ht]; exact shipped_shapeOk', by rw [ht]; exact shipped_seqTblOk',
    tagsOk_of_B (by rw [ht, hs]; exact shipped_tagsOkB), ⟨by rw [ht, hk]; exact shipped_root_lookup, ?_⟩⟩
  intro a ha htag
  have := List.all_eq_true.1 shipped_root_verArm a ha
  rw [hk] at htag ⊢
  simp only [Bool.or_eq_true, bne_iff_ne, ne_eq, beq_iff_eq] at this
  rcases this with h | h
  · exact absurd htag h
  · exact h

end A2l.Tree
