import A2lVerif.Lemmas.PO.Goals
/-! # C02 / C01 gap, fragment "tagged loop": one turn of the loop on arbitrary input (strict mode) -/
namespace A2l.Tree
open A2l.G A2l.Sc

theorem NR.append_cmt {arms : List Arm} {P : List OT} (h : NR arms P) (text : List Char) (off : Nat) :
    NR arms (P ++ [.cmt text off]) := by
  intro j a ha hr
  have := h j a ha hr
  simpa [List.filter_append, OT.isArm] using this

theorem MultOk_strict_of {arms : List Arm} {items : List OT} (h1 : NR arms items)
    (h2 : ∀ j a, arms[j]? = some a → a.required = true → (items.filter (OT.isArm j)).length ≠ 0) :
    MultOk true arms items := by
  intro j a ha
  exact ⟨fun hr => h1 j a ha hr, fun hreq h0 => absurd h0 (h2 j a ha hreq)⟩

section
variable {e : Env} {lx : LexEnv} (hin : InOk e lx) (X : Array PTok)
include hin

omit hin in
/-- the head of a sub-element (`/begin TAG` or `TAG`) corresponds to the written head -/
theorem head_sim {s s1 : PState} {tok : PTok} {isBlock : Bool} {off : Nat}
    (h : NextTagPost e s (.block tok isBlock off) s1) (ind so : Nat) :
    Adv2 s s1 ∧ TSim lx (seg e s.pos s1.pos) (headToks ind tok.text isBlock so) ∧ tok.ty = 0 ∧
      e.toks[s1.pos - 1]? = some tok := by
  cases isBlock with
  | false =>
    obtain ⟨o1, hty, -, -⟩ := h
    refine ⟨o1.fwd, ?_, hty, o1.last⟩
    simp only [headToks, Bool.false_eq_true, if_false]
    exact o1.sim (TokSim.ident tok ⟨0, tok.text, so, ind⟩ hty rfl rfl)
  | true =>
    obtain ⟨tb, h0, hb, o1, hty⟩ := h
    have hp := o1.pos
    simp only at hp
    refine ⟨⟨by omega, by rw [o1.seq]; exact Nat.le_refl _, o1.ver⟩, ?_, hty, o1.last⟩
    simp only [headToks, if_true]
    rw [← seg_append e (Nat.le_succ s.pos) (Nat.le_of_lt hp), seg_one e h0]
    exact TSim.tok tb ⟨1, beginText, so, ind⟩ _ _ (TokSim.begin_ tb _ hb rfl rfl)
      (o1.sim (TokSim.ident tok ⟨0, tok.text, 0, ind⟩ hty rfl rfl))

omit hin in
/-- a recognised tag: what the rest of the turn did (strict mode) -/
theorem tagged_child_inv (hst : e.strict = true) {fuel : Nat} {ctx : Ctx} {arms : List Arm} {pib : Bool}
    {ch : List (List Val)} {cm : List Cmt} {s : PState} {r : List (List Val) × List Cmt} {s' : PState}
    {tok : PTok} {isBlock : Bool} {off : Nat} {s1 : PState} {i : Nat} {arm : Arm}
    (h : parseTagged (fuel + 1) ctx arms pib ch cm e s = .ok r s')
    (h1 : getNextTagOrComment ctx e s = .ok (.block tok isBlock off) s1)
    (hfi : arms.findIdx? (·.tag == tok.sym) = some i) (harm : arms[i]? = some arm) :
    arm.block = isBlock ∧ ¬ (arm.vlo ≠ 0 ∧ s1.ver < arm.vlo) ∧ ∃ s2 v s3, s2.pos = s1.pos ∧ s2.seqId = s1.seqId ∧
      s2.ver = s1.ver ∧ parseType fuel arm.ty ⟨tok.text, tok.fileid, tok.line⟩ off e s2 = .ok v s3 ∧
      (arm.repeat_ = false → ∀ cs, ch[i]? = some cs → cs = []) ∧
      parseTagged fuel ctx arms pib (setAt ch i (· ++ [v])) cm e s3 = .ok r s' := by
  have hform : arm.block = isBlock := by
    by_cases hform : arm.block = isBlock
    · exact hform
    · exfalso
      rw [parseTagged_arm_form e s s1 ctx arms pib ch cm fuel tok isBlock off i arm h1 hfi harm hform] at h
      cases h
  have h' := h
  rw [parseTagged_arm_ok e s s1 ctx arms pib ch cm fuel tok isBlock off i arm h1 hfi harm hform] at h'
  unfold taggedArmBody at h'
  simp only [getState_bind] at h'
  obtain ⟨hnew, h3⟩ := condE_ok hst h'
  simp only [getState_bind] at h3
  obtain ⟨s2, p2, q2, v2, -, h4⟩ := condW_ok h3
  obtain ⟨v, s3, h5, h6⟩ := bind_eq_ok h4
  refine ⟨hform, hnew, s2, v, s3, p2, q2, v2, h5, ?_⟩
  cases hr : arm.repeat_ with
  | true => rw [hr] at h6; simp only [if_true] at h6; exact ⟨(fun h => by cases h), h6⟩
  | false =>
    rw [hr] at h6
    simp only [Bool.false_eq_true, if_false] at h6
    obtain ⟨hpres, h7⟩ := condE_ok hst h6
    have hnil : ∀ cs, ch[i]? = some cs → cs = [] := by
      intro cs hcs
      rw [hcs] at hpres
      cases cs with
      | nil => rfl
      | cons a as => simp at hpres
    rw [setAt_congr ch i (fun _ => [v]) (· ++ [v]) (fun x hx => by rw [hnil x hx]; rfl)] at h7
    exact ⟨fun _ => hnil, h7⟩

/-- **the node of a sub-element**: it is well-formed (`OT.wf`) and its written tokens correspond to the consumed ones -/
theorem child_node {arms : List Arm} {pib : Bool} (harms : ArmsOk e arms) {s s1 s2 s3 : PState} {tok : PTok}
    {isBlock : Bool} {off i : Nat} {arm : Arm} (hnt : NextTagPost e s (.block tok isBlock off) s1)
    (hfi : arms.findIdx? (·.tag == tok.sym) = some i) (harm : arms[i]? = some arm) (hform : arm.block = isBlock)
    (hnew : ¬ (arm.vlo ≠ 0 ∧ s1.ver < arm.vlo)) (p2 : s2.pos = s1.pos) (q2 : s2.seqId = s1.seqId) (v2 : s2.ver = s1.ver)
    {info : Info} {fields : List Val} {cch : List (List Val)} {ccm : List Cmt} {its : List OT} {isB : Bool}
    {cits : List ItemTy} {carms : List Arm} {cht : Bool}
    (nf : NodeFacts (mkC e lx X s.ver) e arm.ty ⟨tok.text, tok.fileid, tok.line⟩ off s2 s3 info fields cch ccm its isB
      cits carms cht) :
    Adv2 s s3 ∧
    OT.wf (mkC e lx X s.ver) arms pib (.node i (symText e.symbols arm.tag) arm.block arm.ty info.startOff info.endOff
      (fields.map normField) its) ∧
    OT.lexV (.node i (symText e.symbols arm.tag) arm.block arm.ty info.startOff info.endOff
      (fields.map normField) its) ∧
    OT.endOk (.node i (symText e.symbols arm.tag) arm.block arm.ty info.startOff info.endOff
      (fields.map normField) its) ∧
    (∀ rest, NextRel (tailFrom e s3.pos) rest → FollowId rest → ∀ ind, OT.idSeqOk (mkC e lx X s.ver) ind
      (.node i (symText e.symbols arm.tag) arm.block arm.ty info.startOff info.endOff (fields.map normField) its) rest) ∧
    ∀ ind, TSim lx (seg e s.pos s3.pos) (OT.toks ind (.node i (symText e.symbols arm.tag) arm.block arm.ty info.startOff
      info.endOff (fields.map normField) its)) := by
  have hst := hin.strict
  obtain ⟨hi, htag, -⟩ := List.findIdx?_eq_some_iff_getElem.1 hfi
  have hmem : arm ∈ arms := List.mem_of_getElem? harm
  have hab := List.all_eq_true.1 harms.shape arm hmem
  have htagEq : arm.tag = tok.sym := by
    have : arms[i] = arm := by rw [List.getElem?_eq_getElem hi] at harm; exact Option.some.inj harm
    rw [this] at htag; simpa using htag
  obtain ⟨f1, -, hty, hlast⟩ := head_sim (lx := lx) hnt 0 0
  obtain ⟨hnosym, hisB, hkw⟩ := armB_block hab nf.lookup
  subst hisB
  have htext : symText e.symbols arm.tag = tok.text := by
    rw [htagEq]; exact hin.symText _ tok hlast hty (by rw [← htagEq]; exact hnosym)
  have hf13 : Adv2 s s3 := ⟨by have := f1.pos; have := nf.fwd.pos; omega, by have := f1.seq; have := nf.fwd.seq; omega,
    by rw [nf.fwd.ver, v2, f1.ver]⟩
  have hcond : arm.block = true ∨ cht = false ∨ e.toks[s3.pos]? = none := by
    cases hb : arm.block with
    | true => exact .inl rfl
    | false => exact .inr (.inl (hkw hb))
  refine ⟨hf13, ?_, ?_, ⟨nf.eok, nf.eokL⟩, ?_, ?_⟩
  · simp only [OT.wf]
    refine ⟨arm, cits, carms, cht, harm, rfl, rfl, rfl, nf.lookup, ?_, ?_, ?_, ?_, map_normField_idem _, nf.fwf, nf.nil,
      nf.wfl, ?_⟩
    · intro hv
      exfalso
      apply hnew
      refine ⟨hv.1, ?_⟩
      have : (mkC e lx X s.ver).ver = s.ver := rfl
      rw [f1.ver]; rw [this] at hv; exact hv.2
    · intro hb; exact ⟨nf.eoff hb, hkw hb⟩
    · show IdentOk e.strict _
      rw [hst]; exact harms.tags arm hmem
    · show arms.findIdx? (fun x => x.tag == lx.symOf (symText e.symbols arm.tag)) = some i
      rw [htext, ← hin.sym _ tok hlast hty]; exact hfi
    · show MultOk e.strict carms its
      rw [hst]; exact nf.mult
  · simp only [OT.lexV]
    refine ⟨by rw [htext]; exact hin.identText _ tok hlast hty,
      fun hb => harms.noA2ml arm hmem hb (by rw [nf.lookup]; intro h; cases h), ?_, nf.lexv⟩
    intro f hf
    obtain ⟨g, hg, rfl⟩ := List.mem_map.1 hf
    exact fieldLex_normField (nf.lexf g hg)
  · intro rest hnr hfi ind
    obtain ⟨q1, q2⟩ := nf.idseq hcond rest hnr hfi ind (ind + 1)
    simp only [OT.idSeqOk]
    rw [htext]
    refine ⟨?_, q2⟩
    intro its' arms' ht' stop hl' hlast
    have hl'' : e.table.lookup arm.ty = some (.block arm.block its' arms' ht') := hl'
    rw [nf.lookup] at hl''
    injection hl'' with hl''
    injection hl'' with _ hits _ _
    subst hits
    exact q1 stop hlast
  · intro ind
    have hsim2 := nf.sim hcond ind (ind + 1)
    have hseg : seg e s.pos s3.pos = seg e s.pos s1.pos ++ seg e s2.pos s3.pos := by
      rw [p2, seg_append e f1.pos (by have := nf.fwd.pos; omega)]
    rw [hseg]
    simp only [OT.toks]
    obtain ⟨-, hsimh, -, -⟩ := head_sim (lx := lx) hnt ind info.startOff
    rw [← hform] at hsimh
    rw [htext, fieldsToks_normField]
    exact hsimh.append hsim2

/-- **one turn of the tagged loop** -/
theorem tagged_step (fuel : Nat) (ihT : TypeGoal e lx X fuel) (ihL : TaggedGoal e lx X fuel) :
    TaggedGoal e lx X (fuel + 1) := by
  intro ctx arms pib ch cm s ch' cmR s' h hfid harms P sub R hinv hnr
  have hst := hin.strict
  have horig := h
  rw [parseTagged] at h
  obtain ⟨bc, s1, h1, h2⟩ := bind_eq_ok h
  have hnt := getNextTagOrComment_ok h1
  cases bc with
  | none =>
    cases h2
    obtain ⟨p1, q1, v1, hpk⟩ := hnt
    refine ⟨[], sub, cm, R, rfl, by simpa using hinv.mono q1, by simpa using hnr,
      ⟨⟨by rw [p1]; exact Nat.le_refl _, q1, v1⟩, trivial, trivial, trivial, fun _ _ => p1, (fun _ _ _ h => by simp at h),
        (fun _ t0 h0 => (hpk t0 (by rw [← p1]; exact h0)).1), (fun _ _ _ _ _ => trivial), (fun _ _ _ => by simp [OT.noBumpL]),
        fun _ _ => by rw [p1, seg_self]; exact TSim.nil⟩⟩
  | comment tok off =>
    obtain ⟨h0, h6, rfl⟩ := hnt
    dsimp only at h2
    cases hp : pib with
    | true =>
      rw [hp] at h2
      simp only [if_true, getNextId_bind] at h2
      have hinc : (decide (tok.fileid ≠ 0)) = false := by simp [hin.fid _ _ h0]
      rw [hinc] at h2
      have hinv' := hinv.cmtStep tok.text ctx.line off
      obtain ⟨xs, sub', cm', R', hcm, inv', nr', res'⟩ := ihL ctx arms true ch _ _ ch' cmR s' h2 hfid harms
        (P ++ [.cmt tok.text off]) sub _ hinv' (hnr.append_cmt _ _)
      refine ⟨.cmt tok.text off :: xs, sub', cm', R', hcm, by simpa using inv', by simpa using nr', ?_⟩
      have hf := res'.fwd
      have hpos' : s.pos + 1 ≤ s'.pos := by have := hf.pos; simpa using this
      refine ⟨⟨by omega, by have := hf.seq; simp at this; omega, hf.ver⟩, ?_, ?_, ⟨trivial, res'.eokL⟩,
        (fun _ h => by cases h), ?_, res'.endnc, (fun hc tail hnr hfi ind => ⟨trivial, res'.idseq hc tail hnr hfi ind⟩), ?_, ?_⟩
      · exact ⟨by simp [OT.wf], res'.wf⟩
      · exact ⟨hin.cmtText _ tok h0 h6, res'.lexv⟩
      · intro _ text off' hl
        cases xs with
        | nil =>
          simp only [List.getLast?_singleton, Option.some.injEq, OT.cmt.injEq] at hl
          have hp2 := res'.nilpos rfl rfl
          simp only at hp2
          refine ⟨by omega, tok, ?_, h6, hl.1⟩
          rw [hp2]; simpa using h0
        | cons y ys =>
          rw [List.getLast?_cons_cons] at hl
          obtain ⟨a1, a2⟩ := res'.lastCmt rfl text off' hl
          simp only at a1
          exact ⟨by omega, a2⟩
      · intro hsz alc halc
        simp only [OT.noBumpL]
        refine ⟨fun ha => ?_, res'.nb hsz _ (fun hl => ⟨rfl, by simp, tok, by simpa using h0, h6, ?_⟩)⟩
        · obtain ⟨-, hp1, tc, htc, h6c, hlc⟩ := halc ha
          obtain ⟨sx, hpx, hoff⟩ := getNextTagOrComment_off h1
          have hszx := hsz rfl
          exact off_behind_line_comment hin hoff (by omega) (by omega) (by rw [hpx]; simpa using htc) h6c hlc
        · rw [← isLineCommentText_eq (hin.cmtText _ tok h0 h6)]; exact hl
      · intro hc ind
        have hp' := hf.pos
        simp only at hp'
        rw [← seg_append e (Nat.le_succ s.pos) hp', seg_one e h0]
        simp only [OT.toksL, OT.toks, List.cons_append, List.nil_append]
        exact TSim.tok tok ⟨6, tok.text, off, ind⟩ _ _ (TokSim.cmt tok _ h6 rfl rfl) (res'.sim hc ind)
    | false =>
      rw [hp] at h2
      simp only [Bool.false_eq_true, if_false] at h2
      obtain ⟨xs, sub', cm', R', hcm, inv', nr', res'⟩ := ihL ctx arms false ch cm _ ch' cmR s' h2 hfid harms P sub R hinv hnr
      refine ⟨xs, sub', cm', R', hcm, inv', nr', ?_⟩
      have hf := res'.fwd
      refine ⟨⟨by have := hf.pos; simp at this; omega, hf.seq, hf.ver⟩, res'.wf, res'.lexv, res'.eokL,
        (fun h => by cases h), (fun h => by cases h), (fun h => by cases h), res'.idseq, ?_, ?_⟩
      · intro hsz alc halc
        cases alc with
        | true => exact absurd (halc rfl).1 (by simp)
        | false => exact res'.nb hsz false (fun h => by cases h)
      intro hc ind
      have hp' := hf.pos
      simp only at hp'
      rw [← seg_append e (Nat.le_succ s.pos) hp', seg_one e h0]
      exact TSim.skip tok _ _ h6 (res'.sim hc ind)
  | block tok isBlock off =>
    cases hfi : arms.findIdx? (·.tag == tok.sym) with
    | none =>
      -- unknown tag
      dsimp -zeta only at h2
      rw [hfi] at h2
      dsimp -zeta only at h2
      cases hp : pib with
      | true =>
        exfalso
        rw [hp] at h2
        simp only [if_true] at h2
        obtain ⟨u, s2, h3, -⟩ := bind_eq_ok h2
        unfold handleUnknownTaggedstructTag at h3
        rw [bind_def, errorOrLog_strict' hst] at h3
        cases h3
      | false =>
        rw [hp] at h2
        simp only [Bool.false_eq_true, if_false] at h2
        obtain ⟨f1, -, hty, hlast⟩ := head_sim (lx := lx) hnt 0 0
        have hlt : s1.pos - 1 < e.toks.size := lt_of_getElem?_some hlast
        cases isBlock with
        | false =>
          simp only [Bool.false_eq_true, if_false, undo_bind] at h2
          split at h2
          · cases h2
          · cases h2
            obtain ⟨o1, -⟩ := hnt
            refine ⟨[], sub, cm, R, rfl, by simpa using hinv.mono f1.seq, by simpa using hnr, ⟨⟨?_, f1.seq, f1.ver⟩, trivial, trivial, trivial,
              (fun h => by cases h), (fun h => by cases h), (fun h => by cases h), (fun _ _ _ _ _ => trivial),
              (fun _ _ _ => by simp [OT.noBumpL]), ?_⟩⟩
            · have := o1.pos; show s.pos ≤ s1.pos - 1; omega
            · intro hc
              exfalso
              rcases hc with hc | hc
              · cases hc
              · have : (s1.pos - 1) < e.toks.size := hlt
                rw [getElem?_pos e.toks _ this] at hc; cases hc
        | true =>
          simp only [if_true, undo_bind] at h2
          split at h2
          · cases h2
          · split at h2
            · cases h2
            · cases h2
              obtain ⟨tb, h0, hb, o1, -⟩ := hnt
              have hp1 := o1.pos
              simp only at hp1
              refine ⟨[], sub, cm, R, rfl, by simpa using hinv.mono f1.seq, by simpa using hnr, ⟨⟨?_, f1.seq, f1.ver⟩, trivial, trivial, trivial,
              (fun h => by cases h), (fun h => by cases h), (fun h => by cases h), (fun _ _ _ _ _ => trivial),
              (fun _ _ _ => by simp [OT.noBumpL]), ?_⟩⟩
              · show s.pos ≤ s1.pos - 1 - 1; omega
              · intro hc
                exfalso
                rcases hc with hc | hc
                · cases hc
                · have : (s1.pos - 1 - 1) < e.toks.size := by omega
                  rw [getElem?_pos e.toks _ this] at hc; cases hc
    | some i =>
      obtain ⟨hi, -, -⟩ := List.findIdx?_eq_some_iff_getElem.1 hfi
      have harm : arms[i]? = some arms[i] := List.getElem?_eq_getElem hi
      generalize hA : arms[i] = arm at harm
      obtain ⟨hform, hnew, s2, v, s3, p2, q2, v2, h5, hempty, h8⟩ := tagged_child_inv hst horig h1 hfi harm
      obtain ⟨f1, -, hty, hlast⟩ := head_sim (lx := lx) hnt 0 0
      have hfid1 : tok.fileid = 0 := hin.fid _ tok hlast
      have hver2 : s2.ver = s.ver := by rw [v2, f1.ver]
      obtain ⟨info, fields, cch, ccm, its, isB, cits, carms, cht, rfl, nf⟩ :=
        ihT arm.ty ⟨tok.text, tok.fileid, tok.line⟩ off s2 v s3 h5 hfid1
      rw [hver2] at nf
      obtain ⟨f3, hwf, hlexN, hendN, hidN, hsimN⟩ := child_node hin X harms (pib := pib) hnt hfi harm hform hnew p2 q2 v2 nf
      -- a non-repeating arm is still empty
      have hcsi : ∃ cs, ch[i]? = some cs := by
        have : i < ch.length := by rw [hinv.len1]; exact hi
        exact ⟨_, List.getElem?_eq_getElem this⟩
      obtain ⟨cs, hcs⟩ := hcsi
      -- the invariant behind the element
      have hq : s.seqId ≤ s2.seqId := by rw [q2]; exact f1.seq
      have hinv' := hinv.childStep (q' := s3.seqId) harm nf.canon nf.sibc nf.ord (by have := nf.uidlt; omega) nf.uidle
      have hnr' : NR arms (P ++ [.node i (symText e.symbols arm.tag) arm.block arm.ty info.startOff info.endOff
          (fields.map normField) its]) := by
        intro j a ha hrep
        rw [List.filter_append, List.length_append]
        by_cases hji : j = i
        · subst hji
          have haa : a = arm := by rw [harm] at ha; exact (Option.some.inj ha).symm
          subst haa
          have h0 : (P.filter (OT.isArm j)).length = 0 := by
            rw [← hinv.cnt j cs hcs, hempty hrep cs hcs]; rfl
          simp [OT.isArm, h0]
        · have := hnr j a ha hrep
          have hne : (i == j) = false := by simp; omega
          simp [OT.isArm, hne]; exact this
      obtain ⟨xs, sub', cm', R', hcm, inv', nr', res'⟩ := ihL ctx arms pib _ cm s3 ch' cmR s' h8 hfid harms _ _ _ hinv' hnr'
      refine ⟨_ :: xs, sub', cm', R', hcm, by simpa using inv', by simpa using nr', ?_⟩
      have hver3 : s3.ver = s.ver := f3.ver
      rw [hver3] at res'
      refine ⟨f3.trans res'.fwd, ⟨hwf, res'.wf⟩, ⟨hlexN, res'.lexv⟩, ⟨hendN, res'.eokL⟩, (fun _ h => by cases h), ?_,
        res'.endnc, ?_, ?_, ?_⟩
      · intro hpb text off' hl
        cases xs with
        | nil => simp at hl
        | cons y ys =>
          rw [List.getLast?_cons_cons] at hl
          obtain ⟨a1, a2⟩ := res'.lastCmt hpb text off' hl
          exact ⟨by have := f3.pos; omega, a2⟩
      · intro hc tail hnr hfi ind
        simp only [OT.idSeqOkL]
        refine ⟨hidN _ ?_ ?_ ind, res'.idseq hc tail hnr hfi ind⟩
        · rw [tailFrom_seg e res'.fwd.pos]
          exact NextRel.of_sim (res'.sim hc ind) hnr
        · exact followId_toksL _ hst ind arms pib tail xs res'.wf hfi
      · intro hsz alc halc
        simp only [OT.noBumpL]
        refine ⟨fun ha => ?_, nf.nb, res'.nb hsz false (fun h => by cases h)⟩
        obtain ⟨hpb, hp1, tc, htc, h6c, hlc⟩ := halc ha
        obtain ⟨sx, hpx, hoff⟩ := getNextTagOrComment_off h1
        have hszx := hsz hpb
        rw [nf.soff]
        have hs1 : s.pos + 1 ≤ s1.pos := by
          cases isBlock with
          | false => have := hnt.2.2.2; omega
          | true => obtain ⟨tb, -, -, o1, -⟩ := hnt; have := o1.pos; simp at this; omega
        have h3 : s1.pos ≤ s3.pos := by have := nf.fwd.pos; omega
        exact off_behind_line_comment hin hoff (by omega) (by have := res'.fwd.pos; omega) (by rw [hpx]; simpa using htc) h6c hlc
      intro hc ind
      rw [← seg_append e f3.pos res'.fwd.pos]
      simp only [OT.toksL]
      exact (hsimN ind).append (res'.sim hc ind)

end
end A2l.Tree
