import A2lVerif.Lemmas.RT.LexToks
/-! # C02, text-level front end: the shapes of the tokens `tokenize_core` produces

A second loop invariant (beside `Inv` of Lemmas/Lex.lean): what the bytes of identifier and comment tokens look like, and
that the token behind a `//` comment stands on a later line. -/
namespace A2l.Lex

/-- every byte in `[a, e)` satisfies `p` -/
def AllIn (b : Bytes) (p : UInt8 → Bool) (a e : Nat) : Prop := ∀ q, a ≤ q → q < e → ∃ c, b[q]? = some c ∧ p c = true

/-- a `//` comment token: blanks, `//`, no line break -/
def LineC (b : Bytes) (t : Token) : Prop :=
  t.ttype = .comment ∧ ∃ st, t.startpos ≤ st ∧ AllIn b (· == 32) t.startpos st ∧ b[st]? = some 47 ∧ b[st + 1]? = some 47 ∧
    st + 2 ≤ t.endpos ∧ t.endpos ≤ b.size ∧ AllIn b (· != 10) (st + 1) t.endpos

/-- a `/* … */` comment token: blanks, then a block comment up to its first `*/` -/
def BlockC (b : Bytes) (t : Token) : Prop :=
  t.ttype = .comment ∧ ∃ st, t.startpos ≤ st ∧ AllIn b (· == 32) t.startpos st ∧ st ≤ t.endpos ∧ t.endpos ≤ b.size ∧
    BlockCore (b.extract st t.endpos).toList

/-- the shape of a token; `inc` = "there is an `/include` token" (the word behind it is a path) -/
structure TShape (b : Bytes) (inc : Prop) (t : Token) : Prop where
  ident : t.ttype = .identifier → inc ∨ (∃ c, b[t.startpos]? = some c ∧ (isAlpha c || c == 95) = false) ∨
    (AllIn b isIdentChar t.startpos t.endpos ∧ t.startpos < t.endpos ∧ t.endpos ≤ b.size)
  cmt : t.ttype = .comment → LineC b t ∨ BlockC b t

/-- the scanner stands directly behind the `//` comment `t`, in front of its line break or at the end of the input -/
def Pend (b : Bytes) (s : State) (t : Token) : Prop :=
  s.bytepos = t.endpos ∧ s.line = t.line ∧ (s.bytepos = b.size ∨ b[s.bytepos]? = some 10)

def HasInc (toks : List Token) : Prop := ∃ t ∈ toks, t.ttype = .include

structure Inv2 (b : Bytes) (s : State) : Prop where
  shapes : ∀ t ∈ s.tokens.toList, TShape b (HasInc s.tokens.toList) t
  lc : ∀ t ∈ s.tokens.toList, LineC b t → t.line < s.line ∨ Pend b s t
  lcp : s.tokens.toList.Pairwise (fun a c => LineC b a → a.line < c.line)

theorem TShape.mono {b : Bytes} {p q : Prop} {t : Token} (h : TShape b p t) (hpq : p → q) : TShape b q t :=
  ⟨fun hi => by
    rcases h.ident hi with h1 | h1
    · exact .inl (hpq h1)
    · exact .inr h1, h.cmt⟩

theorem getElem?_extract_list (b : Bytes) (a e j : Nat) (he : e ≤ b.size) (hj : a + j < e) :
    (b.extract a e).toList[j]? = b[a + j]? := by
  rw [Array.getElem?_toList, Array.getElem?_extract]
  rw [if_pos (by omega)]

theorem length_extract_list (b : Bytes) (a e : Nat) (he : e ≤ b.size) : (b.extract a e).toList.length = e - a := by
  simp; omega

/-- `find_block_comment_end`'s loop stops at the FIRST `*/` -/
theorem commentLoop_first (b : Bytes) (pos : Nat) (h1 : 1 ≤ pos) :
    ∃ p, commentLoop b pos = .ok p ∧ pos ≤ p ∧ (p < b.size → b[p - 1]? = some 42 ∧ b[p]? = some 47) ∧
      ∀ q, pos ≤ q → q < p → ¬ (b[q - 1]? = some 42 ∧ b[q]? = some 47) := by
  fun_induction commentLoop b pos with
  | case1 => omega
  | case2 pos hlt hne hnone =>
    have : pos - 1 < b.size := by omega
    simp at hnone; omega
  | case3 pos hlt hne prev hprev hc =>
    refine ⟨pos, rfl, Nat.le_refl _, fun _ => ?_, fun q h2 h3 => by omega⟩
    simp at hc
    rw [hprev, hc.1, getElem?_of_lt hlt, hc.2]
    exact ⟨rfl, rfl⟩
  | case4 pos hlt hne prev hprev hc ih =>
    obtain ⟨p, h2, h3, h4, h5⟩ := ih (by omega)
    refine ⟨p, h2, by omega, h4, fun q hq1 hq2 => ?_⟩
    by_cases hqp : q = pos
    · subst hqp
      intro hh
      rw [hprev, getElem?_of_lt hlt] at hh
      simp at hh
      simp [hh.1, hh.2] at hc
    · exact h5 q (by omega) hq2
  | case5 pos hn => exact ⟨pos, rfl, Nat.le_refl _, fun h => by omega, fun q h2 h3 => by omega⟩

/-- the bytes between `/*` at `st` and the end found by `find_block_comment_end` are a block comment -/
theorem blockCore_of_find (b : Bytes) (st q : Nat) (h0 : b[st]? = some 47) (h1 : b[st + 1]? = some 42)
    (h : findBlockCommentEnd b (st + 2) = .ok q) : st + 4 ≤ q ∧ q ≤ b.size ∧ BlockCore (b.extract st q).toList := by
  obtain ⟨p, hp1, hp2, hp3, hp4⟩ := commentLoop_first b (st + 2 + 1) (by omega)
  simp only [findBlockCommentEnd, hp1] at h
  by_cases hps : p ≥ b.size
  · simp [hps] at h
  · simp only [hps, if_false] at h
    cases h
    have hlt : p < b.size := by omega
    obtain ⟨e1, e2⟩ := hp3 hlt
    have hsz : p + 1 ≤ b.size := by omega
    refine ⟨by omega, hsz, ?_⟩
    have hlen := length_extract_list b st (p + 1) hsz
    refine ⟨by rw [hlen]; omega, ?_, ?_, ?_, ?_⟩
    · rw [getElem?_extract_list b st (p + 1) 0 hsz (by omega)]; simpa using h0
    · rw [getElem?_extract_list b st (p + 1) 1 hsz (by omega)]; exact h1
    · rw [hlen]
      constructor
      · rw [getElem?_extract_list b st (p + 1) _ hsz (by omega)]
        rw [show st + (p + 1 - st - 2) = p - 1 by omega]; exact e1
      · rw [getElem?_extract_list b st (p + 1) _ hsz (by omega)]
        rw [show st + (p + 1 - st - 1) = p by omega]; exact e2
    · intro j hj1 hj2
      rw [hlen] at hj2
      rw [getElem?_extract_list b st (p + 1) _ hsz (by omega), getElem?_extract_list b st (p + 1) _ hsz (by omega)]
      have := hp4 (st + j) (by omega) (by omega)
      rw [show st + j - 1 = st + (j - 1) by omega] at this
      exact this

/-! ## the invariant is preserved -/

theorem nlCount_pos_of_nl (b : Bytes) (p q : Nat) (hpq : p < q) (hq : q ≤ b.size) (h : b[p]? = some 10) :
    1 ≤ nlCount b p q := by
  have hlt : p < b.size := by omega
  rw [nlCount_add b p (p + 1) q (by omega) (by omega) hq, nlCount_succ b p p (Nat.le_refl _) hlt, nlCount_self]
  rw [getElem?_of_lt hlt] at h
  have h10 : b[p] = 10 := Option.some.inj h
  simp [h10]

theorem notPend {b : Bytes} {s : State} {t : Token} {c : UInt8} (hc : b[s.bytepos]? = some c) (hws : isWs c = false)
    (h : Pend b s t) : False := by
  obtain ⟨-, -, h3⟩ := h
  rcases h3 with h3 | h3
  · have := getElem?_some_lt hc; omega
  · rw [hc] at h3; cases h3; revert hws; decide

theorem Inv2.move {b : Bytes} {s : State} (inv2 : Inv2 b s) (p' line' : Nat) (sep : Bool) (hline : s.line ≤ line')
    (hp : ∀ t ∈ s.tokens.toList, LineC b t → Pend b s t → s.line < line') :
    Inv2 b { tokens := s.tokens, bytepos := p', separated := sep, line := line' } where
  shapes := inv2.shapes
  lc := by
    intro t ht hl
    left
    rcases inv2.lc t ht hl with h | h
    · simp only; omega
    · have := hp t ht hl h; have := h.2.1; simp only; omega
  lcp := inv2.lcp

theorem Inv2.push {b : Bytes} {s : State} (inv2 : Inv2 b s) (tk : Token) (p' line' : Nat) (sep : Bool)
    (hlt : ∀ t ∈ s.tokens.toList, LineC b t → t.line < s.line) (h5 : s.line ≤ tk.line) (h6 : tk.line ≤ line')
    (hshape : TShape b (HasInc (s.tokens.toList ++ [tk])) tk)
    (hpend : LineC b tk → tk.line < line' ∨
      Pend b { tokens := s.tokens.push tk, bytepos := p', separated := sep, line := line' } tk) :
    Inv2 b { tokens := s.tokens.push tk, bytepos := p', separated := sep, line := line' } where
  shapes := by
    intro t ht
    simp only [Array.toList_push, List.mem_append, List.mem_singleton] at ht ⊢
    rcases ht with ht | ht
    · exact (inv2.shapes t ht).mono (fun ⟨x, hx, hi⟩ => ⟨x, List.mem_append_left _ hx, hi⟩)
    · subst ht; simpa using hshape
  lc := by
    intro t ht hl
    simp only [Array.toList_push, List.mem_append, List.mem_singleton] at ht
    rcases ht with ht | ht
    · left; have := hlt t ht hl; simp only; omega
    · subst ht; exact hpend hl
  lcp := by
    simp only [Array.toList_push, List.pairwise_append]
    refine ⟨inv2.lcp, List.pairwise_singleton _ _, ?_⟩
    intro a ha c hc hl
    simp only [List.mem_singleton] at hc; subst hc
    have := hlt a ha hl; omega

/-- a token that is neither an identifier nor a comment has no shape obligations -/
theorem TShape.other {b : Bytes} {inc : Prop} {t : Token} (h1 : t.ttype ≠ .identifier) (h2 : t.ttype ≠ .comment) :
    TShape b inc t := ⟨fun h => absurd h h1, fun h => absurd h h2⟩

theorem notLineC_of_ne {b : Bytes} {t : Token} (h : t.ttype ≠ .comment) : ¬ LineC b t := fun hl => h hl.1

/-- the first byte behind the blanks of a comment token is where its `/` stands -/
theorem lineC_start {b : Bytes} {t : Token} {st : Nat} (hl : LineC b t) (h1 : t.startpos ≤ st)
    (hbl : AllIn b (· == 32) t.startpos st) (h47 : b[st]? = some 47) : b[st + 1]? = some 47 := by
  obtain ⟨-, st', a1, a2, a3, a4, -, -, -⟩ := hl
  have : st' = st := by
    rcases Nat.lt_trichotomy st' st with h | h | h
    · obtain ⟨c, hc, hc32⟩ := hbl st' a1 h
      rw [a3] at hc; cases hc; simp at hc32
    · exact h
    · obtain ⟨c, hc, hc32⟩ := a2 st h1 h
      rw [h47] at hc; cases hc; simp at hc32
  subst this; exact a4

/-- what one iteration guarantees for the shape invariant -/
def Good2 (b : Bytes) : StepRes → Prop
  | .cont s' => Inv2 b s'
  | _ => True

theorem invalidToken_good2 {b : Bytes} (p l : Nat) : Good2 b (invalidToken b p l) := by
  unfold invalidToken
  simp only
  split <;> exact True.intro

theorem stepKeyword_good2 {b : Bytes} {s : State} (inv2 : Inv2 b s)
    (hold : ∀ t ∈ s.tokens.toList, LineC b t → t.line < s.line) (len : Nat) (tt : TokType)
    (ht1 : tt ≠ .identifier) (ht2 : tt ≠ .comment) :
    Good2 b (stepKeyword s s.bytepos (s.bytepos + 1) len tt) := by
  unfold stepKeyword
  split
  · exact True.intro
  · exact inv2.push _ _ _ _ hold (Nat.le_refl _) (Nat.le_refl _) (TShape.other ht1 ht2)
      (fun hl => absurd hl (notLineC_of_ne ht2))

theorem stepSlash_good2 {b : Bytes} {s : State} {hi : Nat} (inv : Inv b s hi) (inv2 : Inv2 b s)
    (hold : ∀ t ∈ s.tokens.toList, LineC b t → t.line < s.line)
    (hc : b[s.bytepos]? = some 47) (h1 : s.bytepos + 1 < b.size) : Good2 b (stepSlash b s) := by
  unfold stepSlash
  simp only
  rw [getElem?_of_lt h1]
  simp only
  obtain ⟨cs, hcs, hcs1, hcs2⟩ := commentStart_spec b s.bytepos inv.pos_le
  have hbl : AllIn b (· == 32) cs s.bytepos := fun q h1 h2 => ⟨32, hcs2 q h1 h2, rfl⟩
  split
  · -- block comment
    rename_i hstar
    have hstar : b[s.bytepos + 1] = 42 := by simpa using hstar
    have hs1 : b[s.bytepos + 1]? = some 42 := by rw [getElem?_of_lt h1, hstar]
    split
    · exact True.intro
    · exact True.intro
    · rename_i q hq
      obtain ⟨g1, g2, g3⟩ := blockCore_of_find b s.bytepos q hc hs1 hq
      rw [hcs]
      simp only
      rw [countNewlines_eq (b := b) (a := s.bytepos) (e := q) (by omega) g2]
      simp only
      refine inv2.push _ _ _ _ hold (Nat.le_refl _) (by simp only; omega) ?_ ?_
      · refine ⟨(fun h => by simp at h), fun _ => .inr ⟨rfl, s.bytepos, hcs1, hbl, by simp only; omega, g2, g3⟩⟩
      · intro hl
        exfalso
        have := lineC_start hl hcs1 hbl hc
        rw [hs1] at this; cases this
  · split
    · -- line comment
      rename_i _ hsl
      have hsl : b[s.bytepos + 1] = 47 := by simpa using hsl
      have hs1 : b[s.bytepos + 1]? = some 47 := by rw [getElem?_of_lt h1, hsl]
      rw [hcs]
      simp only
      have hgt := skipWhile_gt b notNewline (s.bytepos + 1) h1 (by rw [hsl]; decide)
      have hle := skipWhile_le b notNewline (s.bytepos + 1) (by omega)
      have hstop := skipWhile_stop b notNewline (s.bytepos + 1) (by omega)
      have hall := skipWhile_all b notNewline (s.bytepos + 1)
      refine inv2.push _ _ _ _ hold (Nat.le_refl _) (Nat.le_refl _) ?_ ?_
      · refine ⟨(fun h => by simp at h), fun _ => .inl ⟨rfl, s.bytepos, hcs1, hbl, hc, hs1, by simp only; omega, hle, ?_⟩⟩
        intro q hq1 hq2
        obtain ⟨c, hc1, hc2⟩ := hall q hq1 hq2
        exact ⟨c, hc1, by simpa [notNewline] using hc2⟩
      · intro _
        right
        refine ⟨rfl, rfl, ?_⟩
        rcases hstop with h | ⟨c, h, hc'⟩
        · exact .inl h
        · have : c = 10 := by simpa [notNewline] using hc'
          subst this; exact .inr h
    · -- keywords
      split
      · exact True.intro
      · exact stepKeyword_good2 inv2 hold 5 .begin (by decide) (by decide)
      · split
        · exact True.intro
        · exact stepKeyword_good2 inv2 hold 3 .end_ (by decide) (by decide)
        · split
          · exact True.intro
          · exact stepKeyword_good2 inv2 hold 7 .include (by decide) (by decide)
          · exact invalidToken_good2 _ _

theorem stepString_good2 {b : Bytes} {s : State} (inv2 : Inv2 b s)
    (hold : ∀ t ∈ s.tokens.toList, LineC b t → t.line < s.line) (hlt : s.bytepos < b.size) :
    Good2 b (stepString b s) := by
  unfold stepString
  simp only
  split
  · exact True.intro
  · have := findStringEnd_spec b (s.bytepos + 1) (by omega)
    split
    · exact True.intro
    · exact True.intro
    · rename_i q h; rw [h] at this
      obtain ⟨n, hn⟩ := countNewlines_ok (b := b) (a := s.bytepos) (e := q) (by omega) this.2.1
      rw [hn]
      simp only
      exact inv2.push _ _ _ _ hold (by simp only; omega) (Nat.le_refl _) (TShape.other (by simp) (by simp))
        (fun hl => absurd hl (notLineC_of_ne (by simp)))

theorem stepPath_good2 {b : Bytes} {s : State} (inv2 : Inv2 b s)
    (hold : ∀ t ∈ s.tokens.toList, LineC b t → t.line < s.line)
    (hinc : ∃ t ∈ s.tokens.toList, t.ttype = .include) : Good2 b (stepPath b s) := by
  unfold stepPath
  simp only
  split
  · exact True.intro
  · obtain ⟨t, ht, hti⟩ := hinc
    exact inv2.push _ _ _ _ hold (Nat.le_refl _) (Nat.le_refl _)
      ⟨fun _ => .inl ⟨t, List.mem_append_left _ ht, hti⟩, (fun h => by simp at h)⟩
      (fun hl => absurd hl (notLineC_of_ne (by simp)))

theorem stepIdent_good2 {b : Bytes} {s : State} {hi : Nat} (inv : Inv b s hi) (inv2 : Inv2 b s)
    (hold : ∀ t ∈ s.tokens.toList, LineC b t → t.line < s.line) (hlt : s.bytepos < b.size)
    (hc : isIdentChar b[s.bytepos] = true) : Good2 b (stepIdent b s) := by
  unfold stepIdent
  simp only
  split
  · exact True.intro
  · have hgt := skipWhile_gt b isIdentChar s.bytepos hlt hc
    have hle := skipWhile_le b isIdentChar s.bytepos inv.pos_le
    have hall := skipWhile_all b isIdentChar s.bytepos
    generalize hq : skipWhile b isIdentChar s.bytepos = q at *
    have inv2a := inv2.push { ttype := .identifier, startpos := s.bytepos, endpos := q, line := s.line } q s.line false
      hold (Nat.le_refl _) (Nat.le_refl _)
      ⟨fun _ => .inr (.inr ⟨hall, hgt, hle⟩), (fun h => by simp at h)⟩
      (fun hl => absurd hl (notLineC_of_ne (by simp)))
    have hold' : ∀ t ∈ (s.tokens.push { ttype := .identifier, startpos := s.bytepos, endpos := q, line := s.line }).toList,
        LineC b t → t.line < s.line := by
      intro t ht hl
      simp only [Array.toList_push, List.mem_append, List.mem_singleton] at ht
      rcases ht with ht | ht
      · exact hold t ht hl
      · subst ht; exact absurd hl (notLineC_of_ne (by simp))
    obtain ⟨bp', line', toks', h1, h2⟩ := handleA2ml_spec b q s.line
      (s.tokens.push { ttype := .identifier, startpos := s.bytepos, endpos := q, line := s.line }) hle
      (by intro t ht; simp at ht; subst ht; simp only; omega)
    rw [h1]
    simp only
    rcases h2 with ⟨h3, h4, h5⟩ | ⟨h3, h4, h5, h6, h7⟩
    · subst h3 h4 h5
      exact inv2a.move _ _ _ (Nat.le_refl _) (fun t ht hl hp => by
        have := hold' t ht hl; have := hp.2.1; simp only at this; omega)
    · subst h7
      exact inv2a.push _ _ _ _ hold' (Nat.le_refl _) h5 (TShape.other (by simp) (by simp))
        (fun hl => absurd hl (notLineC_of_ne (by simp)))

theorem stepNumber_good2 {b : Bytes} {s : State} (inv2 : Inv2 b s)
    (hold : ∀ t ∈ s.tokens.toList, LineC b t → t.line < s.line) (hlt : s.bytepos < b.size)
    (hnalpha : (isAlpha b[s.bytepos] || b[s.bytepos] == 95) = false) : Good2 b (stepNumber b s) := by
  unfold stepNumber
  simp only
  split
  · exact True.intro
  · generalize skipWhile b isNumChar (s.bytepos + 1) = q
    have hnum : Good2 b (stepNumberTok b s q) := by
      unfold stepNumberTok
      simp only
      split
      · exact True.intro
      · split
        · exact True.intro
        · exact inv2.push _ _ _ _ hold (Nat.le_refl _) (Nat.le_refl _) (TShape.other (by simp) (by simp))
            (fun hl => absurd hl (notLineC_of_ne (by simp)))
    by_cases hq : q = b.size
    · rw [if_pos hq]; exact hnum
    · rw [if_neg hq]
      have hmove : Inv2 b { s with bytepos := q, separated := false } :=
        inv2.move _ _ _ (Nat.le_refl _) (fun t ht hl hp => by have := hold t ht hl; have := hp.2.1; omega)
      split
      · exact True.intro
      · exact hnum
      · split
        · split
          · exact inv2.push _ _ _ _ hold (Nat.le_refl _) (Nat.le_refl _)
              ⟨fun _ => .inr (.inl ⟨_, getElem?_of_lt hlt, hnalpha⟩), (fun h => by simp at h)⟩
              (fun hl => absurd hl (notLineC_of_ne (by simp)))
          · exact hmove
        · exact hmove

theorem step_good2 {b : Bytes} {s : State} {hi : Nat} (inv : Inv b s hi) (inv2 : Inv2 b s) (hlt : s.bytepos < b.size) :
    Good2 b (step b s) := by
  have hc0 := getElem?_of_lt hlt
  have hold : isWs b[s.bytepos] = false → ∀ t ∈ s.tokens.toList, LineC b t → t.line < s.line := by
    intro hws t ht hl
    rcases inv2.lc t ht hl with h | h
    · exact h
    · exact (notPend hc0 hws h).elim
  unfold step
  simp only
  rw [hc0]
  simp only
  split
  · -- whitespace
    rename_i hws
    have hgt := skipWhile_gt b isWs s.bytepos hlt hws
    have hle := skipWhile_le b isWs s.bytepos inv.pos_le
    rw [countNewlines_eq (b := b) (a := s.bytepos) (e := skipWhile b isWs s.bytepos) (by omega) hle]
    refine inv2.move _ _ _ (by omega) ?_
    intro t _ _ hp
    rcases hp.2.2 with h | h
    · omega
    · have := nlCount_pos_of_nl b s.bytepos _ hgt hle h; omega
  · rename_i hws
    have hws : isWs b[s.bytepos] = false := by simpa using hws
    have hold := hold hws
    split
    · rename_i h
      simp only [Bool.and_eq_true, beq_iff_eq, decide_eq_true_eq] at h
      exact stepSlash_good2 inv inv2 hold (by rw [hc0, h.1]) h.2
    · split
      · exact stepString_good2 inv2 hold hlt
      · split
        · exact True.intro
        · rename_i h
          split at h
          · cases h
          · cases hb : s.tokens.back? with
            | none => simp [hb] at h
            | some t =>
              simp [hb] at h
              refine stepPath_good2 inv2 hold ⟨t, ?_, h.1.1⟩
              rw [Array.back?_eq_getElem?] at hb
              have := List.mem_of_getElem? (l := s.tokens.toList) (i := s.tokens.size - 1) (a := t) (by simpa using hb)
              exact this
        · split
          · rename_i _ h
            exact stepIdent_good2 inv inv2 hold hlt (isAlpha_identChar h)
          · rename_i _ hna
            split
            · exact stepNumber_good2 inv2 hold hlt (by simpa using hna)
            · exact invalidToken_good2 _ _

/-! ## the main loop -/

/-- what the token list of a successful run satisfies -/
structure Shapes (b : Bytes) (ts : List Token) : Prop where
  shapes : ∀ t ∈ ts, TShape b (HasInc ts) t
  lcp : ts.Pairwise (fun a c => LineC b a → a.line < c.line)

theorem loop_shapes (b : Bytes) : ∀ (fuel : Nat) (s : State) (hi : Nat), Inv b s hi → Inv2 b s → ∀ ts,
    loop b fuel s = .ok ts → Shapes b ts := by
  intro fuel
  induction fuel with
  | zero => intro s hi _ _ ts h; simp [loop] at h
  | succ fuel ih =>
    intro s hi inv inv2 ts h
    unfold loop at h
    by_cases hlt : s.bytepos < b.size
    · rw [if_pos hlt] at h
      have hg := step_good inv hlt
      have hg2 := step_good2 inv inv2 hlt
      revert h hg hg2
      generalize step b s = r
      intro h hg hg2
      cases r with
      | panic => cases h
      | err k l => cases h
      | cont s' =>
        obtain ⟨_, hi', inv'⟩ := hg
        exact ih s' hi' inv' hg2 ts h
    · rw [if_neg hlt] at h
      cases h
      exact ⟨inv2.shapes, inv2.lcp⟩

theorem initState_inv2 (b : Bytes) : Inv2 b initState where
  shapes := fun t ht => by simp [initState] at ht
  lc := fun t ht => by simp [initState] at ht
  lcp := by simp [initState]

theorem tokenize_shapes (b : Bytes) (ts : List Token) (h : tokenize b = .ok ts) : Shapes b ts :=
  loop_shapes b (b.size + 1) initState 0 (initState_inv b) (initState_inv2 b) ts h

end A2l.Lex
