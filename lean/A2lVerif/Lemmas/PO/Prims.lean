import A2lVerif.Lemmas.PO.Basic
/-! # C02 / C01 gap: what a successful call of a cursor primitive says (strict mode) -/
namespace A2l.Tree
open A2l.G A2l.Sc

/-- `m` consumed comments and then the token `t` -/
structure OneTok (e : Env) (s : PState) (t : PTok) (s' : PState) : Prop where
  toks : ∃ cs, seg e s.pos s'.pos = cs ++ [t] ∧ ∀ x ∈ cs, x.ty = 6
  pos : s.pos < s'.pos
  last : e.toks[s'.pos - 1]? = some t
  seq : s'.seqId = s.seqId
  ver : s'.ver = s.ver
  nc : t.ty ≠ 6

theorem OneTok.fwd {e : Env} {s s' : PState} {t : PTok} (h : OneTok e s t s') : Adv2 s s' :=
  ⟨Nat.le_of_lt h.pos, by rw [h.seq]; exact Nat.le_refl _, h.ver⟩

theorem OneTok.sim {e : Env} {s s' : PState} {t : PTok} (h : OneTok e s t s') {lx : LexEnv} {w : WTok}
    (hw : TokSim lx t w) : TSim lx (seg e s.pos s'.pos) [w] := by
  obtain ⟨cs, h1, h2⟩ := h.toks
  rw [h1]; exact TSim.one h2 hw

/-- the state may change behind the token as long as cursor, ids and version stay -/
theorem OneTok.move {e : Env} {s s1 s' : PState} {t : PTok} (h : OneTok e s t s1) (hp : s'.pos = s1.pos)
    (hq : s'.seqId = s1.seqId) (hv : s'.ver = s1.ver) : OneTok e s t s' :=
  ⟨by rw [hp]; exact h.toks, by rw [hp]; exact h.pos, by rw [hp]; exact h.last, by rw [hq, h.seq], by rw [hv, h.ver], h.nc⟩

/-- the cursor stood on a token that is not a comment: that token was read -/
theorem OneTok.first {e : Env} {s s' : PState} {t t0 : PTok} (h : OneTok e s t s') (h0 : e.toks[s.pos]? = some t0)
    (hnc : t0.ty ≠ 6) : t = t0 ∧ s'.pos = s.pos + 1 := by
  obtain ⟨cs, hc1, hc2⟩ := h.toks
  rw [seg_cons e h0 h.pos] at hc1
  have hsz : s'.pos ≤ e.toks.size := by have := lt_of_getElem?_some h.last; have := h.pos; omega
  cases cs with
  | cons c cs' =>
    simp only [List.cons_append, List.cons.injEq] at hc1
    exact absurd (hc2 c List.mem_cons_self) (by rw [← hc1.1]; exact hnc)
  | nil =>
    simp only [List.nil_append, List.cons.injEq] at hc1
    have hl := seg_length e (a := s.pos + 1) hsz
    rw [hc1.2] at hl
    have := h.pos
    exact ⟨hc1.1.symm, by simp at hl; omega⟩

/-- the first token behind a position that is not a comment is unique -/
theorem OneTok.unique {e : Env} {s s' s0 s0' : PState} {t t0 : PTok} (h : OneTok e s t s') (h0 : OneTok e s0 t0 s0')
    (hp : s.pos = s0.pos) : t = t0 ∧ s'.pos = s0'.pos := by
  obtain ⟨cs, hc1, hc2⟩ := h.toks
  obtain ⟨cs0, hd1, hd2⟩ := h0.toks
  have hsz : s'.pos ≤ e.toks.size := by have := lt_of_getElem?_some h.last; have := h.pos; omega
  have hsz0 : s0'.pos ≤ e.toks.size := by have := lt_of_getElem?_some h0.last; have := h0.pos; omega
  have hl := seg_length e (a := s.pos) hsz
  have hl0 := seg_length e (a := s0.pos) hsz0
  rw [hc1] at hl
  rw [hd1] at hl0
  have hpos := h.pos
  have hpos0 := h0.pos
  -- both segments are prefixes of the tokens from `s.pos` on
  have key : ∀ (n : Nat) (cs cs0 : List PTok) (l : List PTok), (∀ x ∈ cs, x.ty = 6) → (∀ x ∈ cs0, x.ty = 6) →
      t.ty ≠ 6 → t0.ty ≠ 6 → l.take (cs.length + 1) = cs ++ [t] → l.take (cs0.length + 1) = cs0 ++ [t0] → cs.length = n →
      t = t0 ∧ cs.length = cs0.length := by
    intro n
    induction n with
    | zero =>
      intro cs cs0 l a1 a2 a3 a4 a5 a6 a7
      have : cs = [] := List.eq_nil_of_length_eq_zero a7
      subst this
      cases l with
      | nil => simp at a5
      | cons x l =>
        simp only [List.length_nil, Nat.zero_add, List.take_succ_cons, List.take_zero, List.nil_append, List.cons.injEq,
          and_true] at a5
        subst a5
        cases cs0 with
        | nil => simp at a6; exact ⟨a6, rfl⟩
        | cons c cs0' =>
          simp only [List.length_cons, List.take_succ_cons, List.cons_append, List.cons.injEq] at a6
          exact absurd (a2 c List.mem_cons_self) (by rw [← a6.1]; exact a3)
    | succ n ih =>
      intro cs cs0 l a1 a2 a3 a4 a5 a6 a7
      cases cs with
      | nil => simp at a7
      | cons c cs' =>
        cases l with
        | nil => simp at a5
        | cons x l =>
          simp only [List.length_cons, List.take_succ_cons, List.cons_append, List.cons.injEq] at a5
          cases cs0 with
          | nil =>
            simp only [List.length_nil, Nat.zero_add, List.take_succ_cons, List.take_zero, List.nil_append, List.cons.injEq,
              and_true] at a6
            exact absurd (a1 c List.mem_cons_self) (by rw [← a5.1, a6]; exact a4)
          | cons c0 cs0' =>
            simp only [List.length_cons, List.take_succ_cons, List.cons_append, List.cons.injEq] at a6
            obtain ⟨r1, r2⟩ := ih cs' cs0' l (fun x hx => a1 x (List.mem_cons_of_mem _ hx))
              (fun x hx => a2 x (List.mem_cons_of_mem _ hx)) a3 a4 a5.2 a6.2 (by simpa using a7)
            exact ⟨r1, by simp [r2]⟩
  have e1 : (e.toks.toList.drop s.pos).take (cs.length + 1) = cs ++ [t] := by
    have : cs.length + 1 = s'.pos - s.pos := by simpa using hl
    rw [this]; exact hc1
  have e2 : (e.toks.toList.drop s.pos).take (cs0.length + 1) = cs0 ++ [t0] := by
    have : cs0.length + 1 = s0'.pos - s0.pos := by simpa using hl0
    rw [this, hp]; exact hd1
  obtain ⟨r1, r2⟩ := key cs.length cs cs0 _ hc2 hd2 h.nc h0.nc e1 e2 rfl
  refine ⟨r1, ?_⟩
  simp only [List.length_append, List.length_cons, List.length_nil] at hl hl0
  omega

theorem expectTokenAux_ok (ctx : Ctx) (ty : Nat) (e : Env) : ∀ (fuel : Nat) (s : PState) (t : PTok) (s' : PState),
    expectTokenAux ctx ty fuel e s = .ok t s' → OneTok e s t s' ∧ t.ty = ty ∧ s'.lastLine = t.line ∧ s'.log = s.log
  | 0, s, t, s', h => by rw [expectTokenAux] at h; cases h
  | fuel + 1, s, t, s', h => by
    rw [expectTokenAux_succ, bind_def, getToken_eval] at h
    cases h0 : e.toks[s.pos]? with
    | none => rw [h0] at h; cases h
    | some t0 =>
      rw [h0] at h
      dsimp only at h
      by_cases h6 : t0.ty = 6
      · rw [if_pos h6] at h
        obtain ⟨ih, ih2, ih3, ih4⟩ := expectTokenAux_ok ctx ty e fuel _ t s' h
        obtain ⟨cs, hc1, hc2⟩ := ih.toks
        have hp := ih.pos
        simp only at hp hc1
        refine ⟨⟨⟨t0 :: cs, ?_, ?_⟩, by omega, ih.last, ih.seq, ih.ver, ih.nc⟩, ih2, ih3, ih4⟩
        · rw [← seg_append e (Nat.le_succ s.pos) (Nat.le_of_lt hp), seg_one e h0, hc1]; rfl
        · intro x hx
          rcases List.mem_cons.1 hx with rfl | hx
          · exact h6
          · exact hc2 x hx
      · rw [if_neg h6] at h
        by_cases hne : t0.ty ≠ ty
        · rw [if_pos hne] at h; cases h
        · rw [if_neg hne] at h
          have hty : t0.ty = ty := by simpa using hne
          cases h
          exact ⟨⟨⟨[], by simpa using seg_one e h0, by simp⟩, Nat.lt_succ_self _, by simpa using h0, rfl, rfl, h6⟩,
            hty, rfl, rfl⟩

theorem expectToken_ok {ctx : Ctx} {ty : Nat} {e : Env} {s : PState} {t : PTok} {s' : PState}
    (h : expectToken ctx ty e s = .ok t s') : OneTok e s t s' ∧ t.ty = ty ∧ s'.lastLine = t.line ∧ s'.log = s.log :=
  expectTokenAux_ok ctx ty e _ s t s' h

/-- `get_identifier` in strict mode: the token is a well-formed identifier -/
theorem getIdentifier_ok {ctx : Ctx} {e : Env} (hst : e.strict = true) {s : PState} {text : List Char} {s' : PState}
    (h : getIdentifier ctx e s = .ok text s') :
    ∃ t, OneTok e s t s' ∧ t.ty = 0 ∧ text = t.text ∧ IdentOk e.strict text := by
  unfold getIdentifier at h
  obtain ⟨t, s1, h1, h2⟩ := bind_eq_ok h
  obtain ⟨o1, hty, -, -⟩ := expectToken_ok h1
  cases htext : t.text with
  | nil => rw [htext] at h2; cases h2
  | cons c cs =>
    rw [htext] at h2
    dsimp only at h2
    obtain ⟨hp, h3⟩ := condE_ok hst (f := fun _ => (pure (c :: cs) : PM (List Char))) h2
    cases h3
    refine ⟨t, o1, hty, htext.symm, c, cs, rfl, fun _ => ?_⟩
    simp only [Bool.or_eq_true, decide_eq_true_eq, not_or] at hp
    exact ⟨by simpa using hp.1, by omega⟩

/-- `get_string` in strict mode: a String token (an identifier in its place is an error) -/
theorem getString_ok {ctx : Ctx} {e : Env} (hst : e.strict = true) {s : PState} {str : List Char} {s' : PState}
    (h : getString ctx e s = .ok str s') :
    ∃ t, OneTok e s t s' ∧ t.ty = 4 ∧ unescape (stripQuotes t.text) = .ok str := by
  unfold getString at h
  simp only [peekToken_bind] at h
  have key : ∀ (h' : (expectToken ctx 4 >>= fun t => match unescape (stripQuotes t.text) with
      | .ok s => pure s | .panic => panic : PM (List Char)) e s = .ok str s'),
      ∃ t, OneTok e s t s' ∧ t.ty = 4 ∧ unescape (stripQuotes t.text) = .ok str := by
    intro h'
    obtain ⟨t, s1, h1, h2⟩ := bind_eq_ok h'
    obtain ⟨o1, hty, -, -⟩ := expectToken_ok h1
    cases hu : unescape (stripQuotes t.text) with
    | panic => rw [hu] at h2; cases h2
    | ok r =>
      rw [hu] at h2
      cases h2
      exact ⟨t, o1, hty, hu⟩
  cases h0 : e.toks[s.pos]? with
  | none => rw [h0] at h; exact key h
  | some t0 =>
    rw [h0] at h
    obtain ⟨ty0, text0, line0, fid0, sym0, fl0⟩ := t0
    cases ty0 with
    | zero =>
      exfalso
      obtain ⟨text, s1, h1, h2⟩ := bind_eq_ok h
      rw [bind_def, errorOrLog_strict' hst] at h2
      cases h2
    | succ n => exact key h

theorem getStringMaxlen_ok {ctx : Ctx} {n : Nat} {e : Env} (hst : e.strict = true) {s : PState} {str : List Char}
    {s' : PState} (h : getStringMaxlen ctx n e s = .ok str s') :
    ∃ t, OneTok e s t s' ∧ t.ty = 4 ∧ unescape (stripQuotes t.text) = .ok str ∧ utf8Len str ≤ n := by
  unfold getStringMaxlen at h
  obtain ⟨text, s1, h1, h2⟩ := bind_eq_ok h
  obtain ⟨t, o1, hty, hu⟩ := getString_ok hst h1
  obtain ⟨hp, h3⟩ := condE_ok hst (f := fun _ => (pure text : PM (List Char))) h2
  cases h3
  exact ⟨t, o1, hty, hu, by omega⟩

theorem getInteger_ok {ctx : Ctx} {w : Nat} {e : Env} {s : PState} {r : Int × Bool} {s' : PState}
    (h : getInteger ctx w e s = .ok r s') :
    ∃ t, OneTok e s t s' ∧ t.ty = 5 ∧ parseInt (intTyOf w) t.text = some r := by
  unfold getInteger at h
  obtain ⟨t, s1, h1, h2⟩ := bind_eq_ok h
  obtain ⟨o1, hty, -, -⟩ := expectToken_ok h1
  cases hp : parseInt (intTyOf w) t.text with
  | none => rw [hp] at h2; cases h2
  | some r' =>
    rw [hp] at h2
    cases h2
    exact ⟨t, o1, hty, hp⟩

/-- `get_integer` fails on a literal that does not fit the type: `MalformedNumber` -/
theorem getInteger_err {ctx : Ctx} {w : Nat} {e : Env} {s : PState} {t : PTok} {s1 : PState}
    (h1 : expectToken ctx 5 e s = .ok t s1) (hp : parseInt (intTyOf w) t.text = none) :
    getInteger ctx w e s = .err ⟨.malformedNumber, s1.lastLine⟩ s1 := by
  unfold getInteger
  rw [bind_def, h1]
  simp only [hp]
  rfl

theorem getDouble_ok {ctx : Ctx} {e : Env} {s : PState} {r : List Char} {s' : PState}
    (h : getDouble ctx e s = .ok r s') : ∃ t, OneTok e s t s' ∧ t.ty = 5 ∧ t.fl = some r := by
  unfold getDouble at h
  obtain ⟨t, s1, h1, h2⟩ := bind_eq_ok h
  obtain ⟨o1, hty, -, -⟩ := expectToken_ok h1
  cases hp : t.fl with
  | none => rw [hp] at h2; cases h2
  | some r' =>
    rw [hp] at h2
    cases h2
    exact ⟨t, o1, hty, hp⟩

/-- the generated enum parser in strict mode -/
theorem parseEnum_ok {items : List EnumItem} {ctx : Ctx} {e : Env} (hst : e.strict = true) {s : PState}
    {name : List Char} {s' : PState} (h : parseEnum items ctx e s = .ok name s') :
    ∃ t it, OneTok e s t s' ∧ t.ty = 0 ∧ name = t.text ∧ IdentOk e.strict name ∧
      lookupEnumItem items t.sym = some it ∧ ¬ (it.vlo ≠ 0 ∧ s.ver < it.vlo) := by
  unfold parseEnum at h
  obtain ⟨nm, s1, h1, h2⟩ := bind_eq_ok h
  obtain ⟨t, o1, hty, hnm, hid⟩ := getIdentifier_ok hst h1
  simp only [getEnv_bind, getState_bind, o1.last] at h2
  cases hl : lookupEnumItem items t.sym with
  | none => rw [hl] at h2; cases h2
  | some it =>
    rw [hl] at h2
    dsimp only at h2
    obtain ⟨hp, h3⟩ := condE_ok hst (f := fun _ => (if it.vhi ≠ 0 ∧ s1.ver > it.vhi then
      logWarning .enumRefDeprecated >>= fun _ => pure nm else pure nm : PM (List Char))) h2
    obtain ⟨s2, p2, q2, v2, -, h4⟩ := condW_ok (f := fun _ => (pure nm : PM (List Char))) h3
    cases h4
    refine ⟨t, it, o1.move p2 q2 v2, hty, hnm, hid, hl, ?_⟩
    rw [← o1.ver]; exact hp

/-- a scalar read followed by `get_line_offset` -/
theorem withOff_ok {α} {m : PM α} {g : α → Nat → Val} {e : Env} {s : PState} {r : Val} {s' : PState}
    (h : (m >>= fun v => getLineOffset >>= fun off => pure (g v off)) e s = .ok r s') :
    ∃ a off, m e s = .ok a s' ∧ r = g a off := by
  obtain ⟨a, s1, h1, h2⟩ := bind_eq_ok h
  obtain ⟨off, s2, h3, h4⟩ := bind_eq_ok h2
  have := getLineOffset_ok h3
  subst this
  cases h4
  exact ⟨a, off, h1, rfl⟩

end A2l.Tree
