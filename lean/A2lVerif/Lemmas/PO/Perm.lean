import A2lVerif.Lemmas.PO.Compose
/-! # C02: content preservation when the writer reorders siblings

`OT.SibL items items'`: `items'` arises from `items` by permuting siblings, at every depth (layout offsets and arm indices
are free). The value sequences of the two written streams are permutations of each other. -/
namespace A2l.Tree
open A2l.G A2l.Sc

mutual
theorem OT.Sib.keys : ∀ {x y : OT}, OT.Sib x y → ∀ ind, ((x.toks ind).map wkey).Perm ((y.toks ind).map wkey)
  | _, _, .cmt t o o', ind => by simp [OT.toks, wkey]
  | _, _, .node i i' tag blk ty so so' eo eo' fields items items' h, ind => by
    have ih := OT.SibL.keys h (ind + 1)
    have h1 : (headToks ind tag blk so).map wkey = (headToks ind tag blk so').map wkey := by
      unfold headToks; split <;> simp [wkey]
    have h2 : (closeToks ind tag blk eo).map wkey = (closeToks ind tag blk eo').map wkey := by
      unfold closeToks; split <;> simp [wkey]
    simp only [OT.toks, List.map_append, h1, h2]
    exact List.Perm.append_left _ (List.Perm.append_left _ (List.Perm.append_right _ ih))
theorem OT.SibL.keys : ∀ {xs ys : List OT}, OT.SibL xs ys → ∀ ind,
    ((OT.toksL ind xs).map wkey).Perm ((OT.toksL ind ys).map wkey)
  | _, _, .nil, _ => List.Perm.refl _
  | _, _, .cons x y xs ys h1 h2, ind => by
    simp only [OT.toksL, List.map_append]
    exact List.Perm.append (OT.Sib.keys h1 ind) (OT.SibL.keys h2 ind)
  | _, _, .swap x y l, ind => by
    simp only [OT.toksL, List.map_append, ← List.append_assoc]
    exact List.Perm.append_right _ List.perm_append_comm
  | _, _, .trans a b c h1 h2, ind => (OT.SibL.keys h1 ind).trans (OT.SibL.keys h2 ind)
end

/-- the value of a written token (its line does not matter) -/
def wval (lx : LexEnv) (k : Nat × List Char) : TV := tokVal ((⟨k.1, k.2, 0, 0⟩ : WTok).toPTok lx 0)

theorem tokVal_toPTok (lx : LexEnv) (w : WTok) (line : Nat) : tokVal (w.toPTok lx line) = wval lx (wkey w) := rfl

theorem vals_mkToksFrom (lx : LexEnv) : ∀ (ws : List WTok) (line : Nat),
    (mkToksFrom lx line ws).map tokVal = (ws.map wkey).map (wval lx)
  | [], _ => rfl
  | w :: ws, line => by
    simp only [mkToksFrom, List.map_cons, vals_mkToksFrom lx ws, tokVal_toPTok]

theorem valuesOf_written (lx : LexEnv) (xs : List OT) :
    valuesOf (mkToks lx (OT.toksL 0 (OT.fixL false xs))).toArray = ((OT.toksL 0 xs).map wkey).map (wval lx) := by
  simp only [valuesOf, mkToks, vals_mkToksFrom, keys_fixL]

/-- **sibling permutations permute the written values** -/
theorem values_perm_of_sib (lx : LexEnv) {items items' : List OT} (h : OT.SibL items items') :
    (valuesOf (mkToks lx (OT.toksL 0 (OT.fixL false items))).toArray).Perm
      (valuesOf (mkToks lx (OT.toksL 0 (OT.fixL false items'))).toArray) := by
  rw [valuesOf_written, valuesOf_written]
  exact (h.keys 0).map _

section
variable {e : Env} {lx : LexEnv} (hin : InOk e lx)
include hin

/-- **theorem 2 up to a permutation of siblings**: whatever sibling permutation `items'` of the input-order items the
    writer emits, the values of its tokens are a permutation of a list that is the input value sequence with comments
    deleted -/
theorem content_preserved_perm_lemma (htab : tableOk e.table e.known = true) (hshape : shapeOk e.table = true)
    (htags : TagsOk e) (hns : NoSpecialOk e) {rarms : List Arm} (hroot : RootOk e rarms) {fuel : Nat} {v : Val} {s : PState}
    (h : parseFile fuel e {} = .ok v s) :
    ∃ items, InOrder e v items ∧ ∀ items', OT.SibL items items' →
      ∃ perm, perm.Perm (valuesOf (mkToks lx (OT.toksL 0 (OT.fixL false items'))).toArray) ∧
        Pres (valuesOf e.toks) perm := by
  obtain ⟨items, h1, -, h3⟩ := content_preserved_lemma hin htab hshape htags hns hroot h
  exact ⟨items, h1, fun items' hs => ⟨_, values_perm_of_sib lx hs, h3⟩⟩

/-- **the writer's order is a reordering of the position-restricted siblings of the input order**, and theorem 2 in its
    permutation form:
    `items` = the sub-elements in input order, `items'` = in the order in which `stringify` writes them -/
theorem content_preserved_perm_full (htab : tableOk e.table e.known = true) (hshape : shapeOk e.table = true)
    (htags : TagsOk e) (hns : NoSpecialOk e) {rarms : List Arm} (hroot : RootOk e rarms) {fuel : Nat} {v : Val} {s : PState}
    (h : parseFile fuel e {} = .ok v s) :
    ∃ items items', InOrder e v items ∧ OT.SibPL e.code items items' ∧ Canon e v items' ∧
      (valuesOf (mkToks lx (OT.toksL 0 (OT.fixL false items))).toArray).Perm
        (valuesOf (mkToks lx (OT.toksL 0 (OT.fixL false items'))).toArray) ∧
      Pres (valuesOf e.toks) (valuesOf (mkToks lx (OT.toksL 0 (OT.fixL false items))).toArray) := by
  obtain ⟨items, ver, fp⟩ := parseFile_post hin #[] htab hshape htags hns hroot h rfl
  obtain ⟨items', hs, hc⟩ := fp.sibc
  refine ⟨items, items', fp.ord, hs, hc, values_perm_of_sib lx hs.toSibL, ?_⟩
  have := (fp.sim.fixL false).pres (fun t ht hty r hr => by
    obtain ⟨i, hi⟩ := List.getElem?_of_mem ht
    exact hin.fl i t r (by simpa using hi) hty hr) 1
  simpa [valuesOf, mkToks] using this

end
end A2l.Tree
