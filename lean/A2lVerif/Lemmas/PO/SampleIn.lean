import A2lVerif.Lemmas.PO.Compose
import A2lVerif.Lemmas.RT.Sample
/-! # C02: the hypotheses are satisfiable — the sample file of Lemmas/RT/Sample.lean as INPUT of a strict load

`V 1 71` / `/begin P p "hi" ON` / ` /* c */` / `C 0x5` / `/end P`: a root keyword with a version keyword and a block that
has an identifier, a string and an enum parameter, a comment and a repeating child keyword with a hex parameter. -/
namespace A2l.Tree
open A2l.G A2l.Sc

theorem mkToksFrom_mem (lx : LexEnv) : ∀ (ws : List WTok) (line : Nat) (t : PTok), t ∈ mkToksFrom lx line ws →
    ∃ w ∈ ws, ∃ l, t = w.toPTok lx l
  | [], _, _, h => by simp [mkToksFrom] at h
  | w :: ws, line, t, h => by
    simp only [mkToksFrom, List.mem_cons] at h
    rcases h with rfl | h
    · exact ⟨w, List.mem_cons_self, _, rfl⟩
    · obtain ⟨w', hw', l, hl⟩ := mkToksFrom_mem lx ws _ t h
      exact ⟨w', List.mem_cons_of_mem _ hw', l, hl⟩

theorem streamLex_mem : ∀ (ws : List WTok) (prev : Option WTok), StreamLex prev ws → ∀ w ∈ ws, TokLex w
  | [], _, _, _, hw => by simp at hw
  | x :: xs, prev, h, w, hw => by
    rcases List.mem_cons.1 hw with rfl | hw
    · exact h.1
    · exact streamLex_mem xs (some x) h.2.2.2 w hw

/-- **the hypotheses about the input tokens hold for every lexable written stream** whose identifiers the symbol table
    knows and whose numbers the float codec leaves alone -/
theorem inOk_of_stream {e : Env} {lx : LexEnv} {ws : List WTok} (hst : e.strict = true)
    (ht : e.toks = (mkToks lx ws).toArray) (hlex : StreamLex none ws)
    (hsym : ∀ w ∈ ws, w.ty = 0 → lx.symOf w.text ≠ noSym → symText e.symbols (lx.symOf w.text) = w.text)
    (hfl : ∀ w ∈ ws, w.ty = 5 → ∀ r, lx.flOf w.text = some r → lx.flOf r = some r ∧ NumText r)
    (hline : ∀ (i : Nat) (t t' : PTok), e.toks[i]? = some t → t.ty = 6 → isLineCmt t.text = true →
      e.toks[i + 1]? = some t' → t.line + countNewlines t.text < t'.line) : InOk e lx := by
  have key : ∀ (i : Nat) (t : PTok), e.toks[i]? = some t → ∃ w ∈ ws, ∃ l, t = w.toPTok lx l := by
    intro i t h
    rw [ht] at h
    have : t ∈ mkToks lx ws := List.mem_of_getElem? (by simpa using h)
    exact mkToksFrom_mem lx ws 1 t this
  refine ⟨hst, ?_, ?_, ?_, ?_, ?_, ?_, ?_, hline⟩
  · intro i t h hty
    obtain ⟨w, -, l, rfl⟩ := key i t h
    simp only [WTok.toPTok] at hty ⊢
    rw [if_pos hty]
  · intro i t h hty hns
    obtain ⟨w, hw, l, rfl⟩ := key i t h
    simp only [WTok.toPTok] at hty hns ⊢
    rw [if_pos hty] at hns ⊢
    exact hsym w hw hty hns
  · intro i t h
    obtain ⟨w, -, l, rfl⟩ := key i t h
    rfl
  · intro i t r h hty hr
    obtain ⟨w, hw, l, rfl⟩ := key i t h
    simp only [WTok.toPTok] at hty hr
    rw [if_pos hty] at hr
    exact (hfl w hw hty r hr).1
  · intro i t h hty
    obtain ⟨w, hw, l, rfl⟩ := key i t h
    have := streamLex_mem ws none hlex w hw
    simp only [WTok.toPTok] at hty ⊢
    unfold TokLex at this
    rw [hty] at this
    exact this
  · intro i t h hty
    obtain ⟨w, hw, l, rfl⟩ := key i t h
    have := streamLex_mem ws none hlex w hw
    simp only [WTok.toPTok] at hty ⊢
    unfold TokLex at this
    rw [hty] at this
    exact this
  · intro i t r h hty hr
    obtain ⟨w, hw, l, rfl⟩ := key i t h
    simp only [WTok.toPTok] at hty hr
    rw [if_pos hty] at hr
    exact (hfl w hw hty r hr).2

namespace SampleIn

/-- the environment of a strict load whose tokens are those of the sample text -/
def eS : Env := { Sample.e0 with toks := (mkToks Sample.lx Sample.stream).toArray }

theorem e1_eq : Sample.e1 = eS := by
  unfold Sample.e1 eS
  rw [Sample.fix_items, Sample.toksL_items]

def okB : PRes Val → Bool
  | .ok _ _ => true
  | _ => false

theorem parses : ∃ v s, parseFile 100 eS {} = .ok v s := by
  have h : okB (parseFile 100 eS {}) = true := by decide +kernel
  cases hp : parseFile 100 eS {} with
  | ok v s => exact ⟨v, s, rfl⟩
  | err d s => rw [hp] at h; cases h
  | panic => rw [hp] at h; cases h
  | fuel => rw [hp] at h; cases h

theorem stream_lex : StreamLex none Sample.stream := by
  have := Sample.lexable
  rwa [Sample.fix_items, Sample.toksL_items] at this

theorem inOk : InOk eS Sample.lx := by
  refine inOk_of_stream rfl rfl stream_lex ?_ ?_ ?_
  · intro w hw hty hns
    simp only [Sample.stream, List.mem_cons, List.mem_singleton, List.not_mem_nil, or_false] at hw
    rcases hw with rfl | rfl | rfl | rfl | rfl | rfl | rfl | rfl | rfl | rfl | rfl | rfl | rfl <;>
      first | (simp at hty; done) | (exfalso; exact hns (by decide)) | (simp [symText, eS, Sample.e0, Sample.syms, Sample.lx, Sample.symOf])
  · intro w hw hty r hr
    have hrr : r = w.text := by
      simp only [Sample.lx] at hr; exact (Option.some.inj hr).symm
    subst hrr
    refine ⟨rfl, ?_⟩
    have := streamLex_mem _ none stream_lex w hw
    unfold TokLex at this
    rw [hty] at this
    exact this

  · -- the only comment of the sample is a block comment
    intro i t t' h h6 hl
    exfalso
    have hmem : t ∈ mkToks Sample.lx Sample.stream := List.mem_of_getElem? (by simpa [eS] using h)
    obtain ⟨w, hw, l, rfl⟩ := mkToksFrom_mem Sample.lx Sample.stream 1 t hmem
    simp only [Sample.stream, List.mem_cons, List.mem_singleton, List.not_mem_nil, or_false] at hw
    rcases hw with rfl | rfl | rfl | rfl | rfl | rfl | rfl | rfl | rfl | rfl | rfl | rfl | rfl <;>
      first | (simp [WTok.toPTok] at h6; done) | (exact absurd (show isLineCmt Sample.cmtText = true from hl) (by decide))

theorem tableOk_ : tableOk eS.table eS.known = true := by decide
theorem shapeOk_ : shapeOk eS.table = true := by decide

theorem tagsOk : TagsOk eS := tagsOk_of_B (by decide)

theorem noSpecial : NoSpecialOk eS := by
  intro ty ctx off s v s' hl
  exfalso
  obtain ⟨en, hen, hd⟩ := lookup_mem hl
  simp only [eS, Sample.e0, Sample.tbl, List.mem_cons, List.mem_singleton, List.not_mem_nil, or_false] at hen
  rcases hen with rfl | rfl | rfl | rfl | rfl <;> simp at hd

theorem rootOk : RootOk eS Sample.rarms := by
  refine ⟨rfl, ?_⟩
  intro a ha htag
  simp only [Sample.rarms, List.mem_cons, List.mem_singleton, List.not_mem_nil, or_false] at ha
  rcases ha with rfl | rfl
  · rfl
  · simp [eS, Sample.e0] at htag

theorem seqTblOk_ : seqTblOk eS.table = true := by decide

theorem obstacles : Obstacles eS Sample.items := by
  refine ⟨?_, ?_⟩
  · simp [OT.posAll, PosSorted, OT.posDeepL, OT.posDeep, Sample.items, Sample.verO, Sample.projO, Sample.projItems,
      Sample.childO, OT.pos, posRestrict, codeLookup, eS, Sample.e0]
  · intro o ho
    simp [Sample.items] at ho
    subst ho
    rfl

end SampleIn
end A2l.Tree
