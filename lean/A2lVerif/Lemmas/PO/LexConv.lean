import A2lVerif.Lemmas.PO.LexShape
import A2lVerif.Lemmas.PO.Hyps
/-! # C02, text-level front end: from the byte shapes of tokenizer tokens to the text facts in `InOk` -/
namespace A2l.Tree
open A2l.Lex A2l.Sc

/-! ## bytes and characters -/

/-- the character of an ASCII byte -/
def ofB (x : UInt8) : Char := Char.ofNat x.toNat

theorem ofB_ascii {x : UInt8} (h : x < 128) : IsAscii (ofB x) ∧ asciiB (ofB x) = x := by
  have key : ∀ n : Fin 128, IsAscii (Char.ofNat n.val) ∧ asciiB (Char.ofNat n.val) = UInt8.ofNat n.val := by
    unfold IsAscii asciiB; decide +kernel
  have hlt : x.toNat < 128 := by simpa [UInt8.lt_iff_toNat_lt] using h
  have := key ⟨x.toNat, hlt⟩
  simp only [UInt8.ofNat_toNat] at this
  exact this

theorem encL_map_ofB : ∀ (l : List UInt8), (∀ x ∈ l, x < 128) → encL (l.map ofB) = l
  | [], _ => rfl
  | x :: l, h => by
    have hx := ofB_ascii (h x List.mem_cons_self)
    rw [List.map_cons, encL_cons, enc_ascii hx.1, hx.2, encL_map_ofB l (fun y hy => h y (List.mem_cons_of_mem _ hy))]
    rfl

theorem decodeL_ascii (l : List UInt8) (h : ∀ x ∈ l, x < 128) : decodeL l = l.map ofB := by
  conv => lhs; rw [← encL_map_ofB l h]
  exact decodeL_encL _

/-- the first byte of an encoded text is ASCII: so is the first character -/
theorem encL_cons_ascii {c : Char} {cs : List Char} {x : UInt8} {rest : List UInt8}
    (h : encL (c :: cs) = x :: rest) (hx : x < 128) : IsAscii c ∧ asciiB c = x ∧ encL cs = rest := by
  rw [encL_cons] at h
  by_cases ha : IsAscii c
  · rw [enc_ascii ha] at h
    simp only [List.cons_append, List.nil_append, List.cons.injEq] at h
    exact ⟨ha, h.1, h.2⟩
  · have h128 := enc_nonascii ha
    cases hc : String.utf8EncodeChar c with
    | nil => exact absurd hc (by simp)
    | cons y ys =>
      rw [hc] at h h128
      simp only [List.cons_append, List.cons.injEq] at h
      have := h128 y List.mem_cons_self
      rw [h.1] at this
      exact absurd this (by simp [UInt8.le_iff_toNat_le, UInt8.lt_iff_toNat_lt] at hx ⊢; omega)

theorem encL_eq_cons_ascii {t : List Char} {x : UInt8} {rest : List UInt8} (h : encL t = x :: rest) (hx : x < 128) :
    ∃ c cs, t = c :: cs ∧ IsAscii c ∧ asciiB c = x ∧ encL cs = rest := by
  cases t with
  | nil => simp [encL] at h
  | cons c cs => exact ⟨c, cs, rfl, encL_cons_ascii h hx⟩

theorem encL_blanks : ∀ (k : Nat) (t : List Char) (rest : List UInt8), encL t = List.replicate k 32 ++ rest →
    ∃ t', t = List.replicate k ' ' ++ t' ∧ encL t' = rest
  | 0, t, rest, h => ⟨t, by simp, by simpa using h⟩
  | k + 1, t, rest, h => by
    rw [List.replicate_succ, List.cons_append] at h
    obtain ⟨c, cs, rfl, ha, hb, hcs⟩ := encL_eq_cons_ascii h (by decide)
    have hc : c = ' ' := asciiB_inj ha (by decide) (by rw [hb]; rfl)
    obtain ⟨t', ht', he⟩ := encL_blanks k cs rest hcs
    exact ⟨t', by rw [hc, ht', List.replicate_succ, List.cons_append], he⟩

theorem cmtRest_blanks (k : Nat) (c : Char) (r : List Char) (hc : c ≠ ' ') :
    cmtRest (List.replicate k ' ' ++ c :: r) = c :: r := by
  unfold cmtRest
  induction k with
  | zero => simp [List.dropWhile_cons, hc]
  | succ k ih => rw [List.replicate_succ, List.cons_append, List.dropWhile_cons]; simp only [decide_true, if_true]; exact ih

/-! ## slices of the input -/

theorem extract_getElem? (b : Bytes) (a e j : Nat) (he : e ≤ b.size) :
    (b.extract a e).toList[j]? = if a + j < e then b[a + j]? else none := by
  split
  · rename_i h; exact getElem?_extract_list b a e j he h
  · rename_i h
    rw [List.getElem?_eq_none_iff, length_extract_list b a e he]; omega

theorem extract_append (b : Bytes) (a m e : Nat) (h1 : a ≤ m) (h2 : m ≤ e) (he : e ≤ b.size) :
    (b.extract a e).toList = (b.extract a m).toList ++ (b.extract m e).toList := by
  apply List.ext_getElem?
  intro j
  rw [extract_getElem? b a e j he, List.getElem?_append, length_extract_list b a m (by omega),
    extract_getElem? b a m j (by omega), extract_getElem? b m e _ he]
  by_cases hj : j < m - a
  · rw [if_pos hj, if_pos (by omega), if_pos (by omega)]
  · rw [if_neg hj]
    have : m + (j - (m - a)) = a + j := by omega
    rw [this]

theorem extract_cons (b : Bytes) (a e : Nat) (c : UInt8) (h : a < e) (he : e ≤ b.size) (hc : b[a]? = some c) :
    (b.extract a e).toList = c :: (b.extract (a + 1) e).toList := by
  apply List.ext_getElem?
  intro j
  rw [extract_getElem? b a e j he]
  cases j with
  | zero => rw [if_pos (by omega)]; simpa using hc
  | succ j =>
    rw [List.getElem?_cons_succ, extract_getElem? b (a + 1) e j he]
    have : a + (j + 1) = a + 1 + j := by omega
    rw [this]

theorem extract_all (b : Bytes) (p : UInt8 → Bool) (a e : Nat) (he : e ≤ b.size) (h : AllIn b p a e) :
    ∀ x ∈ (b.extract a e).toList, p x = true := by
  intro x hx
  obtain ⟨j, hj⟩ := List.getElem?_of_mem hx
  rw [extract_getElem? b a e j he] at hj
  split at hj
  · rename_i hlt
    obtain ⟨c, hc, hp⟩ := h (a + j) (by omega) hlt
    rw [hc] at hj; cases hj; exact hp
  · cases hj

theorem extract_blanks (b : Bytes) (a e : Nat) (he : e ≤ b.size) (h : AllIn b (· == 32) a e) :
    (b.extract a e).toList = List.replicate (e - a) 32 := by
  rw [List.eq_replicate_iff]
  refine ⟨length_extract_list b a e he, fun x hx => ?_⟩
  simpa using extract_all b _ a e he h x hx

/-! ## identifier tokens -/

theorem identText_of_shape (b : Bytes) (a e : Nat) (hall : AllIn b isIdentChar a e) (hlt : a < e) (he : e ≤ b.size)
    (hfirst : ∀ c, b[a]? = some c → (isAlpha c || c == 95) = true) :
    IdentText (decodeL (b.extract a e).toList) := by
  have hid := extract_all b isIdentChar a e he hall
  have h128 : ∀ x ∈ (b.extract a e).toList, x < 128 := fun x hx => (isIdentChar_ascii (hid x hx)).1
  rw [decodeL_ascii _ h128]
  have hc := getElem?_of_lt (show a < b.size by omega)
  rw [extract_cons b a e _ hlt he hc] at hid h128 ⊢
  refine ⟨ofB b[a], _, List.map_cons, ?_, ?_⟩
  · intro x hx
    obtain ⟨y, hy, rfl⟩ := List.mem_map.1 hx
    have := ofB_ascii (h128 y hy)
    exact ⟨this.1, by rw [this.2]; exact hid y hy⟩
  · rw [(ofB_ascii (h128 _ List.mem_cons_self)).2]
    exact hfirst _ hc

/-! ## comment tokens -/

/-- what a `//` comment token's text looks like -/
theorem lineC_text {b : Bytes} {t : Token} {text : List Char} (hl : LineC b t)
    (henc : (b.extract t.startpos t.endpos).toList = encL text) :
    ∃ k r, text = List.replicate k ' ' ++ '/' :: '/' :: r ∧ ∀ c ∈ r, c ≠ '\n' := by
  obtain ⟨-, st, a1, a2, a3, a4, a5, a6, a7⟩ := hl
  rw [extract_append b _ st _ a1 (by omega) a6, extract_blanks b _ st (by omega) a2,
    extract_cons b st _ 47 (by omega) a6 a3, extract_cons b (st + 1) _ 47 (by omega) a6 a4] at henc
  obtain ⟨t1, ht1, he1⟩ := encL_blanks _ text _ henc.symm
  obtain ⟨c1, t2, rfl, ha1, hb1, he2⟩ := encL_eq_cons_ascii he1 (by decide)
  obtain ⟨c2, r, rfl, ha2, hb2, he3⟩ := encL_eq_cons_ascii he2 (by decide)
  have hc1 : c1 = '/' := asciiB_inj ha1 (by decide) (by rw [hb1]; rfl)
  have hc2 : c2 = '/' := asciiB_inj ha2 (by decide) (by rw [hb2]; rfl)
  subst hc1 hc2
  refine ⟨_, r, ht1, ?_⟩
  intro c hc hnl
  subst hnl
  have hmem : (10 : UInt8) ∈ encL r := by
    unfold encL
    rw [List.mem_flatMap]
    exact ⟨'\n', hc, by decide⟩
  rw [he3] at hmem
  have := extract_all b (· != 10) (st + 1 + 1) t.endpos a6 (fun q h1 h2 => a7 q (by omega) h2) 10 hmem
  simp at this

/-- what a block comment token's text looks like -/
theorem blockC_text {b : Bytes} {t : Token} {text : List Char} (hl : BlockC b t)
    (henc : (b.extract t.startpos t.endpos).toList = encL text) :
    ∃ k r, text = List.replicate k ' ' ++ '/' :: '*' :: r ∧ BlockCore (encL ('/' :: '*' :: r)) := by
  obtain ⟨-, st, a1, a2, a3, a4, a5⟩ := hl
  rw [extract_append b _ st _ a1 a3 a4, extract_blanks b _ st (by omega) a2] at henc
  obtain ⟨t1, ht1, he1⟩ := encL_blanks _ text _ henc.symm
  rw [← he1] at a5
  have h0 := a5.h0
  have h1 := a5.h1
  cases t1 with
  | nil => simp [encL] at h0
  | cons c1 t2 =>
    cases hb : encL (c1 :: t2) with
    | nil => rw [hb] at h0; simp at h0
    | cons x rest =>
      rw [hb] at h0 h1
      simp only [List.getElem?_cons_zero, Option.some.injEq] at h0
      subst h0
      obtain ⟨ha1, hb1, he2⟩ := encL_cons_ascii hb (by decide)
      have hc1 : c1 = '/' := asciiB_inj ha1 (by decide) (by rw [hb1]; rfl)
      subst hc1
      rw [List.getElem?_cons_succ] at h1
      cases t2 with
      | nil => rw [← he2] at h1; simp [encL] at h1
      | cons c2 r =>
        cases hb2 : encL (c2 :: r) with
        | nil => rw [← he2, hb2] at h1; simp at h1
        | cons y rest2 =>
          rw [← he2, hb2] at h1
          simp only [List.getElem?_cons_zero, Option.some.injEq] at h1
          subst h1
          obtain ⟨ha2, hb3, -⟩ := encL_cons_ascii hb2 (by decide)
          have hc2 : c2 = '*' := asciiB_inj ha2 (by decide) (by rw [hb3]; rfl)
          subst hc2
          exact ⟨_, r, ht1, a5⟩

theorem commentText_line (k : Nat) (r : List Char) (hr : ∀ c ∈ r, c ≠ '\n') :
    isLineCmt (List.replicate k ' ' ++ '/' :: '/' :: r) = true ∧ CommentText (List.replicate k ' ' ++ '/' :: '/' :: r) ∧
      countNewlines (List.replicate k ' ' ++ '/' :: '/' :: r) = 0 := by
  have hrest := cmtRest_blanks k '/' ('/' :: r) (by decide)
  have hl : isLineCmt (List.replicate k ' ' ++ '/' :: '/' :: r) = true := by unfold isLineCmt; rw [hrest]; rfl
  refine ⟨hl, ?_, ?_⟩
  · unfold CommentText
    rw [if_pos hl]
    exact ⟨r, hrest, hr⟩
  · apply countNewlines_zero_of
    intro c hc
    rw [List.mem_append] at hc
    rcases hc with hc | hc
    · rw [List.eq_of_mem_replicate hc]; decide
    · simp only [List.mem_cons] at hc
      rcases hc with hc | hc | hc
      · rw [hc]; decide
      · rw [hc]; decide
      · exact hr c hc

theorem commentText_block (k : Nat) (r : List Char) (hb : BlockCore (encL ('/' :: '*' :: r))) :
    isLineCmt (List.replicate k ' ' ++ '/' :: '*' :: r) = false ∧ CommentText (List.replicate k ' ' ++ '/' :: '*' :: r) := by
  have hrest := cmtRest_blanks k '/' ('*' :: r) (by decide)
  have hl : isLineCmt (List.replicate k ' ' ++ '/' :: '*' :: r) = false := by unfold isLineCmt; rw [hrest]; rfl
  refine ⟨hl, ?_⟩
  unfold CommentText
  rw [hl, hrest]
  exact hb

/-! ## the tokens of a tokenizer run -/

/-- what is assumed about the text beside "the tokenizer accepts it": no `/include` (the model parses one file), every
    identifier token starts with a letter or `_` (the tokenizer also makes identifier tokens of `-xyz`, `1z`, `5_a`), and
    the bytes of every comment token are UTF-8 -/
structure TextOk (bytes : Bytes) (ts : List Token) : Prop where
  noInclude : ∀ t ∈ ts, t.ttype ≠ .include
  identFirst : ∀ t ∈ ts, t.ttype = .identifier → ∀ c, bytes[t.startpos]? = some c → (isAlpha c || c == 95) = true
  utf8 : ∀ t ∈ ts, t.ttype = .comment → ∃ text, (bytes.extract t.startpos t.endpos).toList = encL text

theorem convTok_text (lx : LexEnv) (b : Bytes) (t : Token) :
    (convTok lx b t).text = decodeL (b.extract t.startpos t.endpos).toList := rfl

theorem lexer_identText {bytes : Bytes} {ts : List Token} (h : tokenize bytes = .ok ts) (ok : TextOk bytes ts)
    (lx : LexEnv) : ∀ tk ∈ ts, tk.ttype = .identifier → IdentText (convTok lx bytes tk).text := by
  intro tk htk hty
  have hs := (tokenize_shapes bytes ts h).shapes tk htk
  rcases hs.ident hty with ⟨x, hx, hxi⟩ | ⟨c, hc, hcf⟩ | ⟨hall, hlt, he⟩
  · exact absurd hxi (ok.noInclude x hx)
  · have := ok.identFirst tk htk hty c hc
    rw [hcf] at this; cases this
  · rw [convTok_text]
    exact identText_of_shape bytes _ _ hall hlt he (ok.identFirst tk htk hty)

theorem lexer_cmt {bytes : Bytes} {ts : List Token} (h : tokenize bytes = .ok ts) (ok : TextOk bytes ts)
    (lx : LexEnv) : ∀ tk ∈ ts, tk.ttype = .comment →
      CommentText (convTok lx bytes tk).text ∧
      (isLineCmt (convTok lx bytes tk).text = true → LineC bytes tk ∧ countNewlines (convTok lx bytes tk).text = 0) := by
  intro tk htk hty
  obtain ⟨text, henc⟩ := ok.utf8 tk htk hty
  have htext : (convTok lx bytes tk).text = text := by rw [convTok_text, henc, decodeL_encL]
  rw [htext]
  rcases ((tokenize_shapes bytes ts h).shapes tk htk).cmt hty with hl | hb
  · obtain ⟨k, r, rfl, hr⟩ := lineC_text hl henc
    have := commentText_line k r hr
    exact ⟨this.2.1, fun _ => ⟨hl, this.2.2⟩⟩
  · obtain ⟨k, r, rfl, hr⟩ := blockC_text hb henc
    have := commentText_block k r hr
    exact ⟨this.2, fun hl => by rw [this.1] at hl; cases hl⟩

theorem lexer_lineCmt {bytes : Bytes} {ts : List Token} (h : tokenize bytes = .ok ts) (ok : TextOk bytes ts)
    (lx : LexEnv) (i : Nat) (tk tk' : Token) (h1 : ts[i]? = some tk) (h2 : ts[i + 1]? = some tk')
    (hty : tk.ttype = .comment) (hl : isLineCmt (convTok lx bytes tk).text = true) :
    tk.line + countNewlines (convTok lx bytes tk).text < tk'.line := by
  have hm : tk ∈ ts := List.mem_of_getElem? h1
  obtain ⟨hlc, hz⟩ := (lexer_cmt h ok lx tk hm hty).2 hl
  have hp := (tokenize_shapes bytes ts h).lcp
  rw [List.pairwise_iff_getElem] at hp
  obtain ⟨hi1, e1⟩ := List.getElem?_eq_some_iff.1 h1
  obtain ⟨hi2, e2⟩ := List.getElem?_eq_some_iff.1 h2
  have := hp i (i + 1) hi1 hi2 (by omega)
  rw [e1, e2] at this
  have := this hlc
  omega

/-- the token facts of `InOk` for the output of the tokenizer; what remains are the assumptions about the symbol table
    (`symText`) and the float codec (`fl`, `numText`) -/
theorem inOk_of_lexer_lemma (e : Env) (lx : LexEnv) (bytes : Bytes) (ts : List Token) (h : tokenize bytes = .ok ts)
    (ok : TextOk bytes ts) (htoks : e.toks = (ts.map (convTok lx bytes)).toArray) (hstrict : e.strict = true)
    (hsym : ∀ (i : Nat) (t : PTok), e.toks[i]? = some t → t.ty = 0 → t.sym ≠ noSym → symText e.symbols t.sym = t.text)
    (hfl : ∀ (i : Nat) (t : PTok) (r : List Char), e.toks[i]? = some t → t.ty = 5 → t.fl = some r →
      lx.flOf r = some r ∧ NumText r) : InOk e lx := by
  have hget : ∀ (i : Nat) (t : PTok), e.toks[i]? = some t → ∃ tk, ts[i]? = some tk ∧ t = convTok lx bytes tk := by
    intro i t hi
    rw [htoks] at hi
    simp only [List.getElem?_toArray, List.getElem?_map, Option.map_eq_some_iff] at hi
    obtain ⟨tk, h1, h2⟩ := hi
    exact ⟨tk, h1, h2.symm⟩
  refine ⟨hstrict, ?_, hsym, ?_, fun i t r a b c => (hfl i t r a b c).1, ?_, ?_, fun i t r a b c => (hfl i t r a b c).2, ?_⟩
  · intro i t hi hty
    obtain ⟨tk, -, rfl⟩ := hget i t hi
    have : tokCode tk.ttype = 0 := hty
    simp only [convTok, this, if_true]
  · intro i t hi
    obtain ⟨tk, -, rfl⟩ := hget i t hi
    rfl
  · intro i t hi hty
    obtain ⟨tk, h1, rfl⟩ := hget i t hi
    have hk : tk.ttype = .identifier := by
      have : tokCode tk.ttype = 0 := hty
      revert this; cases tk.ttype <;> simp [tokCode]
    exact lexer_identText h ok lx tk (List.mem_of_getElem? h1) hk
  · intro i t hi hty
    obtain ⟨tk, h1, rfl⟩ := hget i t hi
    exact (lexer_cmt h ok lx tk (List.mem_of_getElem? h1) (tokCode_eq_six.1 hty)).1
  · intro i t t' hi hty hl hi'
    obtain ⟨tk, h1, rfl⟩ := hget i t hi
    obtain ⟨tk', h2, rfl⟩ := hget (i + 1) t' hi'
    exact lexer_lineCmt h ok lx i tk tk' h1 h2 (tokCode_eq_six.1 hty) hl

end A2l.Tree
