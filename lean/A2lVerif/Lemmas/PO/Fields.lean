import A2lVerif.Lemmas.PO.Scalars
import A2lVerif.Lemmas.PO.Frame
import A2lVerif.Lemmas.PO.NextRel
/-! # C02 / C01 gap, fragment "fields": structs, arrays, sequences and parameter lists the parser accepted -/
namespace A2l.Tree
open A2l.G A2l.Sc

/-- what is known of a parameter the parser returned -/
structure ItemPost (c : RCfg) (e : Env) (it : ItemTy) (s : PState) (v : Val) (s' : PState) : Prop where
  fwd : Adv2 s s'
  wf : FieldWf c it (normField v)
  sim : ∀ ind, TSim c.lx (seg e s.pos s'.pos) (fieldToks ind v)
  lex : FieldLex v
  /-- a sequence of identifiers ends in front of a token that ends it, in every written stream whose next significant
      token is the input's -/
  seqk : ∀ stop, it = .seq .ident stop → ∀ rest, NextRel (tailFrom e s'.pos) rest → FollowId rest →
    SeqStops c .ident stop (nextNC rest)

theorem scalarOk_not_block {c : RCfg} {it : ItemTy} {ty : Nat} {info : Info} {fs : List Val} {ch : List (List Val)}
    {cm : List Cmt} (h : ScalarOk c it (.block ty info fs ch cm)) : False := by
  cases it <;> simp [ScalarOk] at h

theorem scalarOk_of_normElem {c : RCfg} {it : ItemTy} {v : Val} (h : ScalarOk c it (normElem v)) :
    ScalarOk c it v ∧ normElem v = v ∧ ∀ ind, elemToks ind v = scalarToks ind v := by
  cases v with
  | block ty info fs ch cm => exact (scalarOk_not_block h).elim
  | ident _ _ => exact ⟨h, rfl, fun _ => rfl⟩
  | str _ _ => exact ⟨h, rfl, fun _ => rfl⟩
  | int _ _ _ _ => exact ⟨h, rfl, fun _ => rfl⟩
  | dbl _ _ => exact ⟨h, rfl, fun _ => rfl⟩
  | enum _ _ => exact ⟨h, rfl, fun _ => rfl⟩
  | arr _ => exact ⟨h, rfl, fun _ => rfl⟩
  | seq _ => exact ⟨h, rfl, fun _ => rfl⟩

theorem elemOk_eq_scalarOk (c : RCfg) {it : ItemTy} (h : ∀ ty, it ≠ .structRef ty) (v : Val) :
    ElemOk c it v = ScalarOk c it v := by
  cases it <;> first | rfl | exact absurd rfl (h _)

theorem scalarTy_not_struct {tbl : Table} {it : ItemTy} (h : scalarTyB tbl it = true) : ∀ ty, it ≠ .structRef ty := by
  intro ty hh; subst hh; simp [scalarTyB] at h

/-- an accepted element is not an array / sequence value: as a parameter it is written with the same tokens -/
theorem elemOk_field {c : RCfg} {it : ItemTy} {v : Val} (h : ElemOk c it (normElem v)) :
    normField v = normElem v ∧ ∀ ind, fieldToks ind v = elemToks ind v := by
  cases v with
  | arr vs =>
    exfalso
    cases it <;> simp [ElemOk, ScalarOk, normElem] at h
  | seq vs =>
    exfalso
    cases it <;> simp [ElemOk, ScalarOk, normElem] at h
  | block _ _ _ _ _ => exact ⟨rfl, fun _ => rfl⟩
  | ident _ _ => exact ⟨rfl, fun _ => rfl⟩
  | str _ _ => exact ⟨rfl, fun _ => rfl⟩
  | int _ _ _ _ => exact ⟨rfl, fun _ => rfl⟩
  | dbl _ _ => exact ⟨rfl, fun _ => rfl⟩
  | enum _ _ => exact ⟨rfl, fun _ => rfl⟩

theorem fieldWf_of_elemOk {c : RCfg} {it : ItemTy} (hna : ∀ of n, it ≠ .arr of n) (hns : ∀ of st, it ≠ .seq of st)
    {v : Val} (h : ElemOk c it v) : FieldWf c it v := by
  cases it <;> first | exact h | exact absurd rfl (hna _ _) | exact absurd rfl (hns _ _)

section
variable {e : Env} {lx : LexEnv} (hin : InOk e lx) (X : Array PTok)
include hin

/-- **the parameters of a struct** (all scalars) -/
theorem parseItems_scalars_post (ctx : Ctx) : ∀ (fuel : Nat) (sits : List ItemTy),
    (∀ it ∈ sits, scalarTyB e.table it = true) → ∀ (s : PState) (fs : List Val) (s' : PState),
    parseItems fuel ctx sits e s = .ok fs s' →
    Adv2 s s' ∧ ScalarsOk (mkC e lx X s.ver) sits fs ∧ (∀ ind, TSim lx (seg e s.pos s'.pos) (fs.flatMap (scalarToks ind))) ∧
      ∀ f ∈ fs, ScalarLex f
  | 0, _, _, s, fs, s', h => by rw [parseItems] at h; cases h
  | fuel + 1, [], _, s, fs, s', h => by
    rw [parseItems] at h
    cases h
    exact ⟨Adv2.refl _, trivial, fun _ => by rw [seg_self]; exact TSim.nil, by simp⟩
  | fuel + 1, it :: its, hall, s, fs, s', h => by
    rw [parseItems] at h
    obtain ⟨v, s1, h1, h2⟩ := bind_eq_ok h
    obtain ⟨vs, s2, h3, h4⟩ := bind_eq_ok h2
    cases h4
    cases fuel with
    | zero => rw [parseItem] at h1; cases h1
    | succ fuel =>
      have hit := hall it List.mem_cons_self
      have p1 := parseItem_scalar_post hin X fuel ctx it hit s v s1 h1
      obtain ⟨f2, ok2, sim2, lex2⟩ := parseItems_scalars_post ctx (fuel + 1) its (fun x hx => hall x (List.mem_cons_of_mem _ hx)) s1 vs _ h3
      have hok := p1.ok
      rw [elemOk_eq_scalarOk _ (scalarTy_not_struct hit)] at hok
      obtain ⟨hok1, -, htoks⟩ := scalarOk_of_normElem hok
      rw [p1.fwd.ver] at ok2
      refine ⟨p1.fwd.trans f2, ⟨hok1, ok2⟩, fun ind => ?_, ?_⟩
      · rw [← seg_append e p1.fwd.pos f2.pos, List.flatMap_cons, ← htoks ind]
        exact (p1.sim ind).append (sim2 ind)
      · intro f hf
        rcases List.mem_cons.1 hf with rfl | hf
        · have := p1.lex
          cases f with
          | block _ _ _ _ _ => exact (scalarOk_not_block hok).elim
          | ident _ _ => exact this
          | str _ _ => exact this
          | int _ _ _ _ => exact this
          | dbl _ _ => exact this
          | enum _ _ => exact this
          | arr _ => trivial
          | seq _ => trivial
        · exact lex2 f hf

/-- **an element of an array or sequence**: a scalar or a struct of scalars -/
theorem parseItem_elem_post (fuel : Nat) (ctx : Ctx) (it : ItemTy) (hit : elemTyB e.table it = true)
    (s : PState) (v : Val) (s' : PState) (h : parseItem fuel ctx it e s = .ok v s') :
    ElemPost (mkC e lx X s.ver) e it s v s' := by
  cases fuel with
  | zero => rw [parseItem] at h; cases h
  | succ fuel =>
    by_cases hst : ∃ ty, it = .structRef ty
    · obtain ⟨ty, rfl⟩ := hst
      simp only [elemTyB] at hit
      obtain ⟨sits, hl, hne, hall⟩ := simpleStruct_of_B hit
      rw [parseItem] at h
      cases fuel with
      | zero => rw [parseType] at h; cases h
      | succ fuel =>
        rw [parseType] at h
        simp only [getEnv_bind, hl, getNextId_bind] at h
        obtain ⟨fs, s1, h1, h2⟩ := bind_eq_ok h
        simp only [Bool.false_eq_true, if_false, pure_bind_eval, List.zip_nil_left, List.foldlM_nil] at h2
        cases h2
        obtain ⟨f1, ok1, sim1, lex1⟩ := parseItems_scalars_post hin X ctx fuel sits hall _ fs _ h1
        refine ⟨⟨f1.pos, Nat.le_trans (Nat.le_succ _) f1.seq, f1.ver⟩, ?_, fun ind => sim1 ind, (fun h => by cases h), lex1⟩
        exact ⟨rfl, rfl, rfl, rfl, sits, hl, hne, ok1⟩
    · have hsc : scalarTyB e.table it = true := by
        cases it <;> first | exact hit | exact absurd ⟨_, rfl⟩ hst
      exact parseItem_scalar_post hin X fuel ctx it hsc s v s' h

/-- **the elements of an array** -/
theorem parseArr_post (ctx : Ctx) (of : ItemTy) (hof : elemTyB e.table of = true) : ∀ (fuel n : Nat) (s : PState)
    (vs : List Val) (s' : PState), parseArr fuel ctx of n e s = .ok vs s' →
    Adv2 s s' ∧ vs.length = n ∧ (∀ v ∈ vs, ElemOk (mkC e lx X s.ver) of (normElem v) ∧ ElemLex v) ∧
      ∀ ind, TSim lx (seg e s.pos s'.pos) (vs.flatMap (elemToks ind))
  | 0, _, s, vs, s', h => by rw [parseArr] at h; cases h
  | fuel + 1, 0, s, vs, s', h => by
    rw [parseArr] at h
    cases h
    exact ⟨Adv2.refl _, rfl, by simp, fun _ => by rw [seg_self]; exact TSim.nil⟩
  | fuel + 1, n + 1, s, vs, s', h => by
    rw [parseArr] at h
    obtain ⟨v, s1, h1, h2⟩ := bind_eq_ok h
    obtain ⟨vs1, s2, h3, h4⟩ := bind_eq_ok h2
    cases h4
    have p1 := parseItem_elem_post hin X fuel ctx of hof s v s1 h1
    obtain ⟨f2, len2, ok2, sim2⟩ := parseArr_post ctx of hof fuel n s1 vs1 _ h3
    simp only [p1.fwd.ver] at ok2
    refine ⟨p1.fwd.trans f2, by simp [len2], ?_, fun ind => ?_⟩
    · intro x hx
      rcases List.mem_cons.1 hx with rfl | hx
      · exact ⟨p1.ok, p1.lex⟩
      · exact ok2 x hx
    · rw [← seg_append e p1.fwd.pos f2.pos, List.flatMap_cons]
      exact (p1.sim ind).append (sim2 ind)

omit hin in
/-- an identifier parameter the parser accepted -/
theorem parseItem_ident_inv (hst : e.strict = true) {fuel : Nat} {ctx : Ctx} {s : PState} {v : Val} {s' : PState}
    (h : parseItem fuel ctx .ident e s = .ok v s') : ∃ t off, OneTok e s t s' ∧ t.ty = 0 ∧ v = .ident t.text off := by
  cases fuel with
  | zero => rw [parseItem] at h; cases h
  | succ fuel =>
    rw [parseItem] at h
    obtain ⟨text, off, h1, rfl⟩ := withOff_ok (g := fun v off => Val.ident v off) h
    obtain ⟨t, o1, hty, htext, -⟩ := getIdentifier_ok hst h1
    exact ⟨t, off, o1, hty, by rw [htext]⟩

/-- **a sequence of identifiers ends in front of a token that ends it**: the next significant token of the written
    stream (the same as the input's) is not an identifier, or it is the stop tag the loop saw; an identifier that
    passes `get_identifier` cannot have made the element parser fail -/
theorem seqStops_ident {ctx : Ctx} {stop : List Nat} {p : Nat}
    (hend : (∃ t, nextNCp (tailFrom e p) = some t ∧ t.ty = 0 ∧ stop.contains t.sym = true ∧ ∃ i : Nat, e.toks[i]? = some t) ∨
      (∃ f s0 d s1, s0.pos = p ∧ parseItem f ctx .ident e s0 = .err d s1))
    {ver : Nat} {rest : List WTok} (hnr : NextRel (tailFrom e p) rest) (hfid : FollowId rest) :
    SeqStops (mkC e lx X ver) .ident stop (nextNC rest) := by
  cases hw : nextNC rest with
  | none => trivial
  | some w =>
    by_cases h0 : w.ty = 0
    · right
      unfold NextRel at hnr
      rw [hw] at hnr
      cases hn : nextNCp (tailFrom e p) with
      | none => rw [hn] at hnr; exact hnr.elim
      | some t =>
        rw [hn] at hnr
        obtain ⟨hty, htext⟩ := hnr
        have ht0 : t.ty = 0 := by rw [← hty]; exact h0
        have hidok := hfid w hw h0
        have hne : w.text ≠ [] := by
          obtain ⟨c, cs, hc, -⟩ := hidok
          rw [hc]; exact List.cons_ne_nil _ _
        refine ⟨rfl, h0, hne, ?_⟩
        rcases hend with ⟨t', hn', -, hcont, i, hi⟩ | ⟨f, s0, d, s1, hp0, herr⟩
        · rw [hn] at hn'
          cases hn'
          show stop.contains (lx.symOf w.text) = true
          rw [htext ht0, ← hin.sym i t hi ht0]; exact hcont
        · exfalso
          cases f with
          | zero => rw [parseItem] at herr; cases herr
          | succ f =>
            refine parseItem_ident_not_err f ctx s0 t (by rw [hp0]; exact hn) ht0 ?_ d s1 herr
            rw [← htext ht0]; exact hidok
    · left
      exact ⟨by simpa [firstTy, firstTyS] using h0, by simp [firstTy, firstTyS]⟩

/-- **the elements of a sequence**: everything the greedy loop accepted is a well-formed element that is not a stop
    tag; the cursor stands behind the last accepted element -/
theorem parseSeq_post (ctx : Ctx) (of : ItemTy) (stop : List Nat) (hof : elemTyB e.table of = true)
    (hstop : stop ≠ [] → of = .ident) : ∀ (fuel : Nat) (acc : List Val) (s : PState) (vs : List Val) (s' : PState),
    parseSeq fuel ctx of stop acc e s = .ok vs s' →
    ∃ new, vs = acc.reverse ++ new ∧ Adv2 s s' ∧
      (∀ v ∈ new, ElemOk (mkC e lx X s.ver) of (normElem v) ∧ elemStopFree (mkC e lx X s.ver) stop (normElem v) ∧
        ElemLex v) ∧
      (∀ ind, TSim lx (seg e s.pos s'.pos) (new.flatMap (elemToks ind))) ∧
      ((∃ t, nextNCp (tailFrom e s'.pos) = some t ∧ t.ty = 0 ∧ stop.contains t.sym = true ∧ ∃ i : Nat, e.toks[i]? = some t) ∨
       (∃ f s0 d s1, s0.pos = s'.pos ∧ parseItem f ctx of e s0 = .err d s1))
  | 0, _, s, vs, s', h => by rw [parseSeq] at h; cases h
  | fuel + 1, acc, s, vs, s', h => by
    rw [parseSeq] at h
    simp only [getTokenpos_bind] at h
    obtain ⟨r, s1, h1, h2⟩ := bind_eq_ok h
    have hfr := Framed.parseItem_elem e fuel ctx of hof
    unfold attempt at h1
    cases hp : parseItem fuel ctx of e s with
    | panic => rw [hp] at h1; cases h1
    | fuel => rw [hp] at h1; cases h1
    | err d s1' =>
      rw [hp] at h1
      cases h1
      simp only [setTokenpos_bind] at h2
      cases h2
      have := hfr.err hp
      exact ⟨[], by simp, ⟨Nat.le_refl _, this.1, this.2⟩, by simp, fun _ => by rw [seg_self]; exact TSim.nil,
        .inr ⟨fuel, s, d, _, rfl, hp⟩⟩
    | ok v s1' =>
      rw [hp] at h1
      cases h1
      have p1 := parseItem_elem_post hin X fuel ctx of hof s v s1 hp
      simp only [getEnv_bind, getState_bind] at h2
      change (if isStopOf stop e.toks[s1.pos - 1]? = true then
        (setTokenpos s.pos >>= fun _ => pure acc.reverse) else parseSeq fuel ctx of stop (v :: acc)) e s1 = .ok vs s' at h2
      by_cases hs : isStopOf stop e.toks[s1.pos - 1]? = true
      · rw [if_pos hs] at h2
        simp only [setTokenpos_bind] at h2
        cases h2
        refine ⟨[], by simp, ⟨Nat.le_refl _, p1.fwd.seq, p1.fwd.ver⟩, by simp, fun _ => by rw [seg_self]; exact TSim.nil,
          .inl ?_⟩
        have hne : stop ≠ [] := by
          intro h0; subst h0; simp [isStopOf] at hs
        have hid := hstop hne
        subst hid
        obtain ⟨t, off, o1, hty, -⟩ := parseItem_ident_inv hin.strict hp
        refine ⟨t, o1.nextNCp, hty, ?_, _, o1.last⟩
        rw [o1.last] at hs
        cases hst : stop with
        | nil => exact absurd hst hne
        | cons a as => rw [hst] at hs; simpa [isStopOf] using hs
      · rw [if_neg hs] at h2
        obtain ⟨new, hvs, f2, ok2, sim2, hend⟩ := parseSeq_post ctx of stop hof hstop fuel (v :: acc) s1 vs s' h2
        simp only [p1.fwd.ver] at ok2
        refine ⟨v :: new, by rw [hvs]; simp, p1.fwd.trans f2, ?_, fun ind => ?_, hend⟩
        · intro x hx
          rcases List.mem_cons.1 hx with rfl | hx
          · refine ⟨p1.ok, ?_, p1.lex⟩
            cases hst : stop with
            | nil =>
              cases normElem x <;> simp [elemStopFree]
            | cons a as =>
              have hid := hstop (by rw [hst]; exact List.cons_ne_nil _ _)
              obtain ⟨t, off, hat, hty, rfl⟩ := p1.identLast hid
              rw [hat, hst] at hs
              simp only [isStopOf, Bool.not_eq_true] at hs
              show List.contains (a :: as) (lx.symOf t.text) = false
              rw [← hin.sym _ t hat hty]; exact hs
          · exact ok2 x hx
        · rw [← seg_append e p1.fwd.pos f2.pos, List.flatMap_cons]
          exact (p1.sim ind).append (sim2 ind)

/-- **a parameter** -/
theorem parseItem_post (fuel : Nat) (ctx : Ctx) (it : ItemTy) (hit : itemTyB e.table it = true)
    (s : PState) (v : Val) (s' : PState) (h : parseItem fuel ctx it e s = .ok v s') :
    ItemPost (mkC e lx X s.ver) e it s v s' := by
  by_cases harr : ∃ of n, it = .arr of n
  · obtain ⟨of, n, rfl⟩ := harr
    simp only [itemTyB] at hit
    cases fuel with
    | zero => rw [parseItem] at h; cases h
    | succ fuel =>
      rw [parseItem] at h
      obtain ⟨vs, s1, h1, h2⟩ := bind_eq_ok h
      cases h2
      obtain ⟨f1, len1, ok1, sim1⟩ := parseArr_post hin X ctx of hit fuel n s vs _ h1
      refine ⟨f1, ?_, fun ind => sim1 ind, fun x hx => (ok1 x hx).2, fun _ h => by cases h⟩
      refine ⟨by simp [len1], ?_⟩
      intro x hx
      obtain ⟨y, hy, rfl⟩ := List.mem_map.1 hx
      exact (ok1 y hy).1
  by_cases hseq : ∃ of stop, it = .seq of stop
  · obtain ⟨of, stop, rfl⟩ := hseq
    simp only [itemTyB, Bool.and_eq_true, Bool.or_eq_true, List.isEmpty_iff, beq_iff_eq] at hit
    have hstop : stop ≠ [] → of = .ident := fun hne => by
      rcases hit.2 with h0 | h0
      · exact absurd h0 hne
      · exact h0
    cases fuel with
    | zero => rw [parseItem] at h; cases h
    | succ fuel =>
      rw [parseItem] at h
      obtain ⟨vs, s1, h1, h2⟩ := bind_eq_ok h
      cases h2
      obtain ⟨new, hvs, f1, ok1, sim1, hend⟩ := parseSeq_post hin X ctx of stop hit.1 hstop fuel [] s vs _ h1
      simp only [List.reverse_nil, List.nil_append] at hvs
      subst hvs
      refine ⟨f1, ⟨?_, elemTyOk_of_B hit.1, hstop, ?_⟩, fun ind => sim1 ind, fun x hx => (ok1 x hx).2.2, ?_⟩
      · intro x hx
        obtain ⟨y, hy, rfl⟩ := List.mem_map.1 hx
        exact (ok1 y hy).1
      · intro x hx
        obtain ⟨y, hy, rfl⟩ := List.mem_map.1 hx
        exact (ok1 y hy).2.1
      · intro stop' hit' rest hnr hfid
        injection hit' with hof' hstop'
        subst hof' hstop'
        exact seqStops_ident hin X hend hnr hfid
  · have hel : elemTyB e.table it = true := by
      cases it <;> first | exact hit | exact absurd ⟨_, _, rfl⟩ harr | exact absurd ⟨_, _, rfl⟩ hseq
    have p1 := parseItem_elem_post hin X fuel ctx it hel s v s' h
    obtain ⟨hn, ht⟩ := elemOk_field p1.ok
    refine ⟨p1.fwd, ?_, fun ind => by rw [ht ind]; exact p1.sim ind, ?_, fun st h => absurd ⟨_, _, h⟩ hseq⟩
    · rw [hn]
      exact fieldWf_of_elemOk (fun of n hh => harr ⟨of, n, hh⟩) (fun of st hh => hseq ⟨of, st, hh⟩) p1.ok
    · have hl := p1.lex
      have hok := p1.ok
      cases v with
      | arr vs => exfalso; cases it <;> simp [ElemOk, ScalarOk, normElem] at hok
      | seq vs => exfalso; cases it <;> simp [ElemOk, ScalarOk, normElem] at hok
      | block _ _ _ _ _ => exact hl
      | ident _ _ => exact hl
      | str _ _ => exact hl
      | int _ _ _ _ => exact hl
      | dbl _ _ => exact hl
      | enum _ _ => exact hl

/-- **fragment "fields"**: the parameter list of an element the parser accepted is well-typed (`FieldsWf`: the
    hypothesis of the round-trip theorem about parameters, apart from what follows a sequence) and its written tokens
    correspond one by one to the consumed significant tokens -/
theorem parseItems_post (ctx : Ctx) : ∀ (fuel : Nat) (its : List ItemTy), (∀ it ∈ its, itemTyB e.table it = true) →
    ∀ (s : PState) (fs : List Val) (s' : PState), parseItems fuel ctx its e s = .ok fs s' →
    Adv2 s s' ∧ FieldsWf (mkC e lx X s.ver) its (fs.map normField) ∧
      (∀ ind, TSim lx (seg e s.pos s'.pos) (fieldsToks ind fs)) ∧ (∀ f ∈ fs, FieldLex f) ∧
      (∀ stop, its.getLast? = some (.seq .ident stop) → ∀ rest, NextRel (tailFrom e s'.pos) rest → FollowId rest →
        SeqStops (mkC e lx X s.ver) .ident stop (nextNC rest))
  | 0, _, _, s, fs, s', h => by rw [parseItems] at h; cases h
  | fuel + 1, [], _, s, fs, s', h => by
    rw [parseItems] at h
    cases h
    exact ⟨Adv2.refl _, trivial, fun _ => by rw [seg_self]; exact TSim.nil, by simp, fun _ h => by simp at h⟩
  | fuel + 1, it :: its, hall, s, fs, s', h => by
    rw [parseItems] at h
    obtain ⟨v, s1, h1, h2⟩ := bind_eq_ok h
    obtain ⟨vs, s2, h3, h4⟩ := bind_eq_ok h2
    cases h4
    have p1 := parseItem_post hin X fuel ctx it (hall it List.mem_cons_self) s v s1 h1
    obtain ⟨f2, ok2, sim2, lex2, seq2⟩ := parseItems_post ctx fuel its (fun x hx => hall x (List.mem_cons_of_mem _ hx)) s1 vs _ h3
    rw [p1.fwd.ver] at ok2 seq2
    refine ⟨p1.fwd.trans f2, ⟨p1.wf, ok2⟩, fun ind => ?_, ?_, ?_⟩
    rotate_left 2
    · intro stop hl rest hnr hfid
      cases its with
      | nil =>
        simp only [List.getLast?_singleton, Option.some.injEq] at hl
        cases fuel with
        | zero => rw [parseItems] at h3; cases h3
        | succ f =>
          rw [parseItems] at h3
          cases h3
          exact p1.seqk stop hl rest hnr hfid
      | cons it2 more =>
        rw [List.getLast?_cons_cons] at hl
        exact seq2 stop hl rest hnr hfid
    · rw [← seg_append e p1.fwd.pos f2.pos]
      simp only [fieldsToks, List.flatMap_cons]
      exact (p1.sim ind).append (sim2 ind)
    · intro f hf
      rcases List.mem_cons.1 hf with rfl | hf
      · exact p1.lex
      · exact lex2 f hf

end
end A2l.Tree
