import A2lVerif.Lemmas.PO.Shipped
import A2lVerif.Lemmas.PO.Fix
/-! # C02 / C01 gap: with the shipped grammar a file in position order ends in a block

The top-level items `ASAP2_VERSION`, `A2ML_VERSION`, `PROJECT` are position-restricted (1, 2, 3), `PROJECT` is a required
block: if the top-level items stand in position order, the last one is `PROJECT`. -/
namespace A2l.Tree
open A2l.G A2l.Sc

/-- the position of an arm's type if it is a constant (`pos_restrict` ≥ 100) -/
def constPos (code : List CodeEntry) (ty : Nat) : Option Nat :=
  match codeLookup code ty with
  | some (.block _ _ _ _ _ p) => if p = 0 ∨ p = 1 then none else some (p - 100)
  | _ => none

theorem posRestrict_const {code : List CodeEntry} {ty p : Nat} (h : constPos code ty = some p) (fields : List Val) :
    posRestrict code ty fields = some p := by
  unfold constPos at h
  unfold posRestrict
  split at h
  · rename_i a b c d f q hq
    rw [hq]
    dsimp only
    split at h
    · cases h
    · rename_i hne
      rw [if_neg (fun h0 => hne (.inl h0)), if_neg (fun h1 => hne (.inr h1))]
      exact h
  · cases h

/-- every root arm has a constant position, and a required block arm stands behind every keyword arm -/
def rootPosB (code : List CodeEntry) (rarms : List Arm) : Bool :=
  rarms.all (fun a => (constPos code a.ty).isSome) &&
  rarms.any (fun b => b.block && b.required &&
    rarms.all (fun a => a.block || decide ((constPos code a.ty).getD 0 < (constPos code b.ty).getD 0)))

/-- **the last top-level item is a block** if the top-level items stand in position order -/
theorem lastIsBlock_of_pos {c : RCfg} {rarms : List Arm} {items : List OT} (hroot : rootPosB c.e.code rarms = true)
    (hwf : OT.wfL c rarms false items) (hmult : MultOk true rarms items) (hps : PosSorted c.e.code items) :
    LastIsBlock items := by
  intro o ho
  cases hb : o.isBlk with
  | true => rfl
  | false =>
    exfalso
    simp only [rootPosB, Bool.and_eq_true, List.all_eq_true, List.any_eq_true, Bool.or_eq_true, decide_eq_true_eq] at hroot
    obtain ⟨hconst, b, hbm, ⟨hbb, hbr⟩, hbl⟩ := hroot
    -- every item is a node of its arm
    have hnode : ∀ x ∈ items, ∃ arm tag blk ty so eo fields its a, x = .node arm tag blk ty so eo fields its ∧
        rarms[arm]? = some a ∧ a.ty = ty ∧ blk = a.block := by
      intro x hx
      have : ∀ (xs : List OT), OT.wfL c rarms false xs → ∀ x ∈ xs, OT.wf c rarms false x := by
        intro xs
        induction xs with
        | nil => intro _ x hx; simp at hx
        | cons y ys ih =>
          intro h x hx
          simp only [OT.wfL] at h
          rcases List.mem_cons.1 hx with rfl | hx
          · exact h.1
          · exact ih h.2 x hx
      have hw := this items hwf x hx
      cases x with
      | cmt _ _ => simp [OT.wf] at hw
      | node arm tag blk ty so eo fields its =>
        simp only [OT.wf] at hw
        obtain ⟨a, _, _, _, h1, h2, _, h4, _⟩ := hw
        exact ⟨arm, tag, blk, ty, so, eo, fields, its, a, rfl, h1, h2, h4⟩
    -- the required block item
    obtain ⟨jb, hjb⟩ := List.getElem?_of_mem hbm
    have hcnt : (items.filter (OT.isArm jb)).length ≠ 0 := by
      intro h0
      have := ((hmult jb b hjb).2 hbr h0).2
      cases this
    obtain ⟨ob, hob⟩ := List.exists_mem_of_length_pos (Nat.pos_of_ne_zero hcnt)
    obtain ⟨hobm, hobarm⟩ := List.mem_filter.1 hob
    obtain ⟨armb, tagb, blkb, tyb, sob, eob, fieldsb, itsb, ab, rfl, hab1, hab2, hab4⟩ := hnode ob hobm
    simp only [OT.isArm, beq_iff_eq] at hobarm
    subst hobarm
    have hab : ab = b := by rw [hjb] at hab1; exact (Option.some.inj hab1).symm
    subst hab
    -- the last item
    have hom : o ∈ items := List.mem_of_getLast? ho
    obtain ⟨armo, tago, blko, tyo, soo, eoo, fieldso, itso, ao, rfl, hao1, hao2, hao4⟩ := hnode o hom
    simp only [OT.isBlk] at hb
    have haob : ao.block = false := by rw [← hao4]; exact hb
    have haom : ao ∈ rarms := List.mem_of_getElem? hao1
    obtain ⟨init, hinit⟩ : ∃ init, items = init ++ [OT.node armo tago blko tyo soo eoo fieldso itso] :=
      List.getLast?_eq_some_iff.1 ho
    have hobi : OT.node armb tagb blkb tyb sob eob fieldsb itsb ∈ init := by
      rw [hinit] at hobm
      rcases List.mem_append.1 hobm with h | h
      · exact h
      · simp only [List.mem_singleton] at h
        injection h with _ _ hblk
        rw [hab4, hbb, hb] at hblk; cases hblk
    -- positions
    obtain ⟨pb, hpb⟩ := Option.isSome_iff_exists.1 (hconst ab hbm)
    obtain ⟨pa, hpa⟩ := Option.isSome_iff_exists.1 (hconst ao haom)
    have hlt : pa < pb := by
      have := hbl ao haom
      rw [haob, hpa, hpb] at this
      simpa using this
    have hposb : (OT.node armb tagb blkb tyb sob eob fieldsb itsb).pos c.e.code = some pb := by
      simp only [OT.pos, ← hab2]; exact posRestrict_const hpb _
    have hposo : (OT.node armo tago blko tyo soo eoo fieldso itso).pos c.e.code = some pa := by
      simp only [OT.pos, ← hao2]; exact posRestrict_const hpa _
    unfold PosSorted at hps
    rw [hinit, List.filter_append, List.pairwise_append] at hps
    have hfo : OT.node armo tago blko tyo soo eoo fieldso itso ∈
        [OT.node armo tago blko tyo soo eoo fieldso itso].filter (fun o => (o.pos c.e.code).isSome) := by
      simp [hposo]
    have hfb : OT.node armb tagb blkb tyb sob eob fieldsb itsb ∈ init.filter (fun o => (o.pos c.e.code).isSome) :=
      List.mem_filter.2 ⟨hobi, by simp [hposb]⟩
    have := hps.2.2 _ hfb _ hfo
    rw [hposb, hposo] at this
    simp at this
    omega

theorem shipped_rootPos : rootPosB Shipped.code shippedRootArms = true := by decide +kernel

end A2l.Tree
