import A2lVerif.Lemmas.PO.Wf
import A2lVerif.Lemmas.PO.Sib
/-! # C02 / C01 gap: the invariant of the tagged loop on arbitrary input

`LoopInv` of Lemmas/RT/LoopInv.lean with the canonical relation of the sub-elements made conditional on the position
order of their items (`OT.posAll`): the parser builds values whose position-restricted items may be out of order
(finding `reserved-order`), `Canon` then holds for the sorted list only. -/
namespace A2l.Tree
open A2l.G A2l.Sc

theorem OT.posAll_of_mem {code : List CodeEntry} {P : List OT} (h : OT.posDeepL code P) {x : OT} (hx : x ∈ P)
    (hc : x.isCmt = false) : OT.posAll code (OT.itemsOf x) := by
  have := OT.posDeepL_mem code P h x hx
  cases x with
  | cmt _ _ => simp [OT.isCmt] at hc
  | node _ _ _ _ _ _ _ items => simpa [OT.posDeep, OT.posAll, OT.itemsOf] using this

/-- what is known after the items `P` of a tagged part have been read back: `ch` / `sub` / `cm` = accumulated children,
    their own ordered items, comments (newest first); `R` = the group entries of `P` with their new keys -/
structure LInv (e : Env) (arms : List Arm) (P : List OT) (ch : List (List Val)) (sub : List (List (List OT)))
    (cm : List Cmt) (R : List GE) (q : Nat) : Prop where
  len1 : ch.length = arms.length
  len2 : sub.length = ch.length
  par : ∀ (i : Nat) (cs : List Val) (ss : List (List OT)), ch[i]? = some cs → sub[i]? = some ss → ss.length = cs.length
  perm : (gesFrom e.symbols 0 arms ch sub ++ cm.reverse.map cmtGE).Perm R
  rot : R.map (·.ot) = P
  sorted : R.Pairwise (fun a b => a.uid < b.uid)
  bound : ∀ g ∈ R, 0 < g.uid ∧ g.uid ≤ q
  canon : ∀ (i j : Nat) (cs : List Val) (ss : List (List OT)) (v : Val) (o : List OT),
    ch[i]? = some cs → sub[i]? = some ss → cs[j]? = some v → ss[j]? = some o → OT.posAll e.code o → Canon e v o
  /-- every child is in canonical relation to SOME reordering of the siblings below it -/
  sib : ∀ (i j : Nat) (cs : List Val) (ss : List (List OT)) (v : Val) (o : List OT),
    ch[i]? = some cs → sub[i]? = some ss → cs[j]? = some v → ss[j]? = some o → ∃ o', OT.SibPL e.code o o' ∧ Canon e v o'
  inP : ∀ (i j : Nat) (ss : List (List OT)) (o : List OT), sub[i]? = some ss → ss[j]? = some o →
    ∃ x ∈ P, x.isCmt = false ∧ OT.itemsOf x = o
  blk : ∀ cs ∈ ch, ∀ v ∈ cs, Val.isBlock v = true
  cnt : ∀ (i : Nat) (cs : List Val), ch[i]? = some cs → cs.length = (P.filter (OT.isArm i)).length
  cmi : ∀ x ∈ cm, x.included = false
  arm : ∀ (k : Nat) (a : Arm) (cs : List Val) (ss : List (List OT)), arms[k]? = some a → ch[k]? = some cs →
    sub[k]? = some ss → (gesArm e.symbols k a cs ss).map (·.ot) = P.filter (OT.isArm k)
  cmo : cm.reverse.map (fun x => OT.cmt x.text x.startOff) = P.filter OT.isCmt
  ord : ∀ (i j : Nat) (cs : List Val) (ss : List (List OT)) (v : Val) (o : List OT),
    ch[i]? = some cs → sub[i]? = some ss → cs[j]? = some v → ss[j]? = some o → InOrder e v o

theorem LInv.init (e : Env) (arms : List Arm) (q : Nat) :
    LInv e arms [] (arms.map fun _ => []) (arms.map fun _ => []) [] [] q where
  len1 := by simp
  len2 := by simp
  par := by
    intro i cs ss h1 h2
    simp only [List.getElem?_map, Option.map_eq_some_iff] at h1 h2
    obtain ⟨_, _, rfl⟩ := h1; obtain ⟨_, _, rfl⟩ := h2; rfl
  perm := by simp [gesFrom_nil]
  rot := rfl
  sorted := List.Pairwise.nil
  bound := by simp
  canon := by
    intro i j cs ss v o h1 _ h3 _
    simp only [List.getElem?_map, Option.map_eq_some_iff] at h1
    obtain ⟨_, _, rfl⟩ := h1; simp at h3
  sib := by
    intro i j cs ss v o h1 _ h3 _
    simp only [List.getElem?_map, Option.map_eq_some_iff] at h1
    obtain ⟨_, _, rfl⟩ := h1; simp at h3
  inP := by
    intro i j ss o h1 h2
    simp only [List.getElem?_map, Option.map_eq_some_iff] at h1
    obtain ⟨_, _, rfl⟩ := h1; simp at h2
  blk := by
    intro cs hcs v hv
    simp only [List.mem_map] at hcs
    obtain ⟨_, _, rfl⟩ := hcs; simp at hv
  cnt := by
    intro i cs h1
    simp only [List.getElem?_map, Option.map_eq_some_iff] at h1
    obtain ⟨_, _, rfl⟩ := h1; rfl
  cmi := by simp
  arm := by
    intro k a cs ss _ h1 h2
    simp only [List.getElem?_map, Option.map_eq_some_iff] at h1 h2
    obtain ⟨_, _, rfl⟩ := h1; obtain ⟨_, _, rfl⟩ := h2; rfl
  cmo := rfl
  ord := by
    intro i j cs ss v o h1 _ h3 _
    simp only [List.getElem?_map, Option.map_eq_some_iff] at h1
    obtain ⟨_, _, rfl⟩ := h1; simp at h3

theorem LInv.mono {e : Env} {arms : List Arm} {P : List OT} {ch : List (List Val)} {sub : List (List (List OT))}
    {cm : List Cmt} {R : List GE} {q q' : Nat} (h : LInv e arms P ch sub cm R q) (hq : q ≤ q') :
    LInv e arms P ch sub cm R q' :=
  { h with bound := fun g hg => ⟨(h.bound g hg).1, Nat.le_trans (h.bound g hg).2 hq⟩ }

/-- a comment has been read -/
theorem LInv.cmtStep {e : Env} {arms : List Arm} {P : List OT} {ch : List (List Val)} {sub : List (List (List OT))}
    {cm : List Cmt} {R : List GE} {q : Nat} (h : LInv e arms P ch sub cm R q) (text : List Char) (line off : Nat) :
    LInv e arms (P ++ [.cmt text off]) ch sub (⟨text, line, q + 1, off, false⟩ :: cm)
      (R ++ [⟨q + 1, line, .cmt text off⟩]) (q + 1) where
  len1 := h.len1
  len2 := h.len2
  par := h.par
  perm := by
    simp only [List.reverse_cons, List.map_append, List.map_cons, List.map_nil, ← List.append_assoc]
    exact List.Perm.append_right _ h.perm
  rot := by simp [h.rot]
  sorted := by
    rw [List.pairwise_append]
    refine ⟨h.sorted, List.pairwise_singleton _ _, ?_⟩
    intro a ha b hb
    simp only [List.mem_singleton] at hb; subst hb
    have := (h.bound a ha).2
    show a.uid < q + 1; omega
  bound := by
    intro g hg
    rcases List.mem_append.1 hg with hg | hg
    · have := h.bound g hg; omega
    · simp only [List.mem_singleton] at hg; subst hg; exact ⟨Nat.succ_pos _, Nat.le_refl _⟩
  canon := h.canon
  sib := h.sib
  inP := by
    intro i j ss o h1 h2
    obtain ⟨x, hx, h3⟩ := h.inP i j ss o h1 h2
    exact ⟨x, List.mem_append_left _ hx, h3⟩
  blk := h.blk
  cnt := by
    intro i cs h1
    rw [h.cnt i cs h1, List.filter_append]
    simp [OT.isArm]
  cmi := by
    intro x hx
    rcases List.mem_cons.1 hx with rfl | hx
    · rfl
    · exact h.cmi x hx
  arm := by
    intro k a cs ss h1 h2 h3
    rw [h.arm k a cs ss h1 h2 h3, List.filter_append]
    simp [OT.isArm]
  cmo := by
    rw [List.filter_append, ← h.cmo]
    simp [List.filter, OT.isCmt]
  ord := h.ord

/-- a sub-element of arm `i` has been read -/
theorem LInv.childStep {e : Env} {arms : List Arm} {P : List OT} {ch : List (List Val)} {sub : List (List (List OT))}
    {cm : List Cmt} {R : List GE} {q q' : Nat} (h : LInv e arms P ch sub cm R q) {i : Nat} {a : Arm}
    (ha : arms[i]? = some a) {cty : Nat} {cinfo : Info} {cfields : List Val} {cch : List (List Val)} {ccm : List Cmt}
    {its : List OT} (hcanon : OT.posAll e.code its → Canon e (.block cty cinfo cfields cch ccm) its)
    (hsib : ∃ its', OT.SibPL e.code its its' ∧ Canon e (.block cty cinfo cfields cch ccm) its')
    (hord : InOrder e (.block cty cinfo cfields cch ccm) its) (hu1 : q < cinfo.uid)
    (hu2 : cinfo.uid ≤ q') :
    LInv e arms
      (P ++ [.node i (symText e.symbols a.tag) a.block cty cinfo.startOff cinfo.endOff (cfields.map normField) its])
      (setAt ch i (· ++ [.block cty cinfo cfields cch ccm])) (setAt sub i (· ++ [its])) cm
      (R ++ [⟨cinfo.uid, cinfo.line,
        .node i (symText e.symbols a.tag) a.block cty cinfo.startOff cinfo.endOff (cfields.map normField) its⟩]) q' where
  len1 := by rw [setAt_length]; exact h.len1
  len2 := by rw [setAt_length, setAt_length]; exact h.len2
  par := by
    intro j cs ss h1 h2
    obtain ⟨cs0, hc0, rfl⟩ := setAt_get h1
    obtain ⟨ss0, hs0, rfl⟩ := setAt_get h2
    have := h.par j cs0 ss0 hc0 hs0
    split <;> simp [this]
  perm := by
    have hp := gesFrom_setAt e.symbols (.block cty cinfo cfields cch ccm) its arms 0 i ch sub a ha h.len1
      (by rw [h.len2, h.len1]) (h.par i)
    simp only [Nat.zero_add, childGE] at hp
    refine ((List.Perm.append_right _ hp).trans ?_).trans (List.Perm.append_right _ h.perm)
    simp only [List.append_assoc]
    exact List.Perm.append_left _ List.perm_append_comm
  rot := by simp [h.rot]
  sorted := by
    rw [List.pairwise_append]
    refine ⟨h.sorted, List.pairwise_singleton _ _, ?_⟩
    intro x hx b hb
    simp only [List.mem_singleton] at hb; subst hb
    have := (h.bound x hx).2
    show x.uid < cinfo.uid; omega
  bound := by
    intro g hg
    rcases List.mem_append.1 hg with hg | hg
    · have := h.bound g hg; omega
    · simp only [List.mem_singleton] at hg; subst hg; exact ⟨by show 0 < cinfo.uid; omega, hu2⟩
  inP := by
    intro j k ss o h2 h4
    obtain ⟨ss0, hs0, rfl⟩ := setAt_get h2
    by_cases hji : j = i
    · rw [if_pos hji] at h4
      by_cases hk : k < ss0.length
      · rw [List.getElem?_append_left hk] at h4
        obtain ⟨x, hx, h3⟩ := h.inP j k ss0 o hs0 h4
        exact ⟨x, List.mem_append_left _ hx, h3⟩
      · have hk' : k = ss0.length := by
          have : k < (ss0 ++ [its]).length := (List.getElem?_eq_some_iff.1 h4).1
          simp at this; omega
        subst hk'
        rw [List.getElem?_append_right (Nat.le_refl _)] at h4
        simp only [Nat.sub_self, List.getElem?_cons_zero, Option.some.injEq] at h4
        subst h4
        exact ⟨_, List.mem_append_right _ List.mem_cons_self, rfl, rfl⟩
    · rw [if_neg hji] at h4
      obtain ⟨x, hx, h3⟩ := h.inP j k ss0 o hs0 h4
      exact ⟨x, List.mem_append_left _ hx, h3⟩
  canon := by
    intro j k cs ss v o h1 h2 h3 h4
    obtain ⟨cs0, hc0, rfl⟩ := setAt_get h1
    obtain ⟨ss0, hs0, rfl⟩ := setAt_get h2
    have hlen := h.par j cs0 ss0 hc0 hs0
    by_cases hji : j = i
    · rw [if_pos hji] at h3 h4
      by_cases hk : k < cs0.length
      · rw [List.getElem?_append_left hk] at h3
        rw [List.getElem?_append_left (by omega)] at h4
        exact h.canon j k cs0 ss0 v o hc0 hs0 h3 h4
      · have hk' : k = cs0.length := by
          have : k < (cs0 ++ [Val.block cty cinfo cfields cch ccm]).length := (List.getElem?_eq_some_iff.1 h3).1
          simp at this; omega
        subst hk'
        rw [List.getElem?_append_right (Nat.le_refl _)] at h3
        rw [List.getElem?_append_right (by omega)] at h4
        simp only [Nat.sub_self, List.getElem?_cons_zero, Option.some.injEq] at h3
        rw [← hlen] at h4
        simp only [Nat.sub_self, List.getElem?_cons_zero, Option.some.injEq] at h4
        subst h3; subst h4
        exact hcanon
    · rw [if_neg hji] at h3 h4
      exact h.canon j k cs0 ss0 v o hc0 hs0 h3 h4
  sib := by
    intro j k cs ss v o h1 h2 h3 h4
    obtain ⟨cs0, hc0, rfl⟩ := setAt_get h1
    obtain ⟨ss0, hs0, rfl⟩ := setAt_get h2
    have hlen := h.par j cs0 ss0 hc0 hs0
    by_cases hji : j = i
    · rw [if_pos hji] at h3 h4
      by_cases hk : k < cs0.length
      · rw [List.getElem?_append_left hk] at h3
        rw [List.getElem?_append_left (by omega)] at h4
        exact h.sib j k cs0 ss0 v o hc0 hs0 h3 h4
      · have hk' : k = cs0.length := by
          have : k < (cs0 ++ [Val.block cty cinfo cfields cch ccm]).length := (List.getElem?_eq_some_iff.1 h3).1
          simp at this; omega
        subst hk'
        rw [List.getElem?_append_right (Nat.le_refl _)] at h3
        rw [List.getElem?_append_right (by omega)] at h4
        simp only [Nat.sub_self, List.getElem?_cons_zero, Option.some.injEq] at h3
        rw [← hlen] at h4
        simp only [Nat.sub_self, List.getElem?_cons_zero, Option.some.injEq] at h4
        subst h3; subst h4
        exact hsib
    · rw [if_neg hji] at h3 h4
      exact h.sib j k cs0 ss0 v o hc0 hs0 h3 h4
  blk := by
    intro cs hcs v hv
    obtain ⟨j, hj⟩ := List.getElem?_of_mem hcs
    obtain ⟨cs0, hc0, rfl⟩ := setAt_get hj
    have hold := h.blk cs0 (List.mem_of_getElem? hc0)
    split at hv
    · rcases List.mem_append.1 hv with hv | hv
      · exact hold v hv
      · simp only [List.mem_singleton] at hv; subst hv; rfl
    · exact hold v hv
  cnt := by
    intro j cs h1
    obtain ⟨cs0, hc0, rfl⟩ := setAt_get h1
    have := h.cnt j cs0 hc0
    rw [List.filter_append]
    by_cases hji : j = i
    · subst hji; simp [OT.isArm, this]
    · have : (i == j) = false := by simp; omega
      simp [OT.isArm, this, hji, h.cnt j cs0 hc0]
  cmi := h.cmi
  arm := by
    intro k a' cs ss h1 h2 h3
    obtain ⟨cs0, hc0, rfl⟩ := setAt_get h2
    obtain ⟨ss0, hs0, rfl⟩ := setAt_get h3
    have hold := h.arm k a' cs0 ss0 h1 hc0 hs0
    rw [List.filter_append]
    by_cases hki : k = i
    · subst hki
      have haa : a' = a := by rw [ha] at h1; exact (Option.some.inj h1).symm
      subst haa
      rw [if_pos rfl, if_pos rfl, gesArm_append _ _ _ _ _ _ _ (h.par k cs0 ss0 hc0 hs0), List.map_append, hold]
      simp [childGE, OT.isArm]
    · rw [if_neg hki, if_neg hki, hold]
      have : (i == k) = false := by simp; omega
      simp [OT.isArm, this]
  cmo := by
    rw [List.filter_append, ← h.cmo]
    simp [List.filter, OT.isCmt]
  ord := by
    intro j k cs ss v o h1 h2 h3 h4
    obtain ⟨cs0, hc0, rfl⟩ := setAt_get h1
    obtain ⟨ss0, hs0, rfl⟩ := setAt_get h2
    have hlen := h.par j cs0 ss0 hc0 hs0
    by_cases hji : j = i
    · rw [if_pos hji] at h3 h4
      by_cases hk : k < cs0.length
      · rw [List.getElem?_append_left hk] at h3
        rw [List.getElem?_append_left (by omega)] at h4
        exact h.ord j k cs0 ss0 v o hc0 hs0 h3 h4
      · have hk' : k = cs0.length := by
          have : k < (cs0 ++ [Val.block cty cinfo cfields cch ccm]).length := (List.getElem?_eq_some_iff.1 h3).1
          simp at this; omega
        subst hk'
        rw [List.getElem?_append_right (Nat.le_refl _)] at h3
        rw [List.getElem?_append_right (by omega)] at h4
        simp only [Nat.sub_self, List.getElem?_cons_zero, Option.some.injEq] at h3
        rw [← hlen] at h4
        simp only [Nat.sub_self, List.getElem?_cons_zero, Option.some.injEq] at h4
        subst h3; subst h4
        exact hord
    · rw [if_neg hji] at h3 h4
      exact h.ord j k cs0 ss0 v o hc0 hs0 h3 h4

/-- at the end of the loop: the accumulated children and comments are in canonical relation to the items read,
    provided these stand in position order (recursively) -/
theorem LInv.toCanon {e : Env} {arms : List Arm} {items : List OT} {ch : List (List Val)} {sub : List (List (List OT))}
    {cm : List Cmt} {R : List GE} {q : Nat} (h : LInv e arms items ch sub cm R q)
    {ty : Nat} {isB : Bool} {its : List ItemTy} (hl : e.table.lookup ty = some (.block isB its arms true))
    (hpa : OT.posAll e.code items) (info : Info) (fields : List Val) (hfs : ∀ f ∈ fields, FieldShape f) :
    Canon e (.block ty info fields ch cm.reverse) items := by
  have hcan : ∀ (i j : Nat) (cs : List Val) (ss : List (List OT)) (v : Val) (o : List OT),
      ch[i]? = some cs → sub[i]? = some ss → cs[j]? = some v → ss[j]? = some o → Canon e v o := by
    intro i j cs ss v o h1 h2 h3 h4
    obtain ⟨x, hx, hc, rfl⟩ := h.inP i j ss o h2 h4
    exact h.canon i j cs ss v _ h1 h2 h3 h4 (OT.posAll_of_mem hpa.2 hx hc)
  have hc := Canon.mk (e := e) (info := info) (fields := fields) (comments := cm.reverse) hl sub (fun _ => h.len1)
    h.len2 h.par hcan h.blk (by intro x hx; exact h.cmi x (List.mem_reverse.1 hx)) hfs
  have hsort : sortGE e.code (gesFrom e.symbols 0 arms ch sub ++ cm.reverse.map cmtGE) = R := by
    unfold sortGE
    rw [mergeSort_of_perm_uid h.perm h.sorted (fun g hg => (h.bound g hg).1)]
    apply applyPosG_of_sorted
    have hps := hpa.1
    unfold PosSorted at hps
    rw [← h.rot, List.filter_map, List.pairwise_map] at hps
    exact hps
  rw [hsort, h.rot] at hc
  exact hc

/-- at the end of the loop, WITHOUT position order: the accumulated children and comments are in canonical relation to
    a reordering of the items read in which only position-restricted items change places (at every depth): the order
    `sortGE` gives them — sorting by key restores the input order, `apply_position_restrictions` refills the restricted
    slots -/
theorem LInv.toSibCanon {e : Env} {arms : List Arm} {items : List OT} {ch : List (List Val)} {sub : List (List (List OT))}
    {cm : List Cmt} {R : List GE} {q : Nat} (h : LInv e arms items ch sub cm R q)
    {ty : Nat} {isB : Bool} {its : List ItemTy} (hl : e.table.lookup ty = some (.block isB its arms true))
    (info : Info) (fields : List Val) (hfs : ∀ f ∈ fields, FieldShape f) :
    ∃ items', OT.SibPL e.code items items' ∧ Canon e (.block ty info fields ch cm.reverse) items' := by
  obtain ⟨sub', s1, s2, s3, s4⟩ := exists_canon_sub e ch sub h.len2 h.par h.sib
  have hc := Canon.mk (e := e) (info := info) (fields := fields) (comments := cm.reverse) hl sub' (fun _ => h.len1)
    s1 s2 s3 h.blk (by intro x hx; exact h.cmi x (List.mem_reverse.1 hx)) hfs
  simp only [if_true] at hc
  refine ⟨_, ?_, hc⟩
  -- the new group entries, in input order
  have hall : All2 (GERel e.code) (gesFrom e.symbols 0 arms ch sub ++ cm.reverse.map cmtGE)
      (gesFrom e.symbols 0 arms ch sub' ++ cm.reverse.map cmtGE) :=
    (s4 0 arms).append (All2.refl (GERel.refl e.code) _)
  obtain ⟨R', hp', hR'⟩ := All2.perm_transport h.perm hall
  have huid : R'.map (·.uid) = R.map (·.uid) := GERel.uids hR'
  have hsorted' : R'.Pairwise (fun a b => a.uid < b.uid) := by
    have : (R'.map (·.uid)).Pairwise (· < ·) := by rw [huid]; exact List.pairwise_map.2 h.sorted
    exact List.pairwise_map.1 this
  have hpos' : ∀ g ∈ R', 0 < g.uid := by
    intro g hg
    have : g.uid ∈ R.map (·.uid) := by rw [← huid]; exact List.mem_map_of_mem hg
    obtain ⟨g0, hg0, he⟩ := List.mem_map.1 this
    rw [← he]; exact (h.bound g0 hg0).1
  have hsort : sortGE e.code (gesFrom e.symbols 0 arms ch sub' ++ cm.reverse.map cmtGE) =
      applyPosG (fun g => g.ot.pos e.code) R' := by
    unfold sortGE
    rw [mergeSort_of_perm_uid hp' hsorted' hpos']
  rw [hsort, ← applyPosG_map (fun g : GE => g.ot) (fun g => g.ot.pos e.code) (OT.pos e.code) (fun _ => rfl)]
  refine .trans _ (R'.map (·.ot)) _ ?_ (applyPosG_sibP e.code _)
  rw [← h.rot]
  exact OT.SibPL.of_all (hR'.map _ _ (fun _ _ hab => hab.2.2))

/-- at the end of the loop: the accumulated lists stand in the order of the items read -/
theorem LInv.toInOrder {e : Env} {arms : List Arm} {items : List OT} {ch : List (List Val)} {sub : List (List (List OT))}
    {cm : List Cmt} {R : List GE} {q : Nat} (h : LInv e arms items ch sub cm R q)
    {ty : Nat} {isB : Bool} {its : List ItemTy} (hl : e.table.lookup ty = some (.block isB its arms true))
    (info : Info) (hfid : info.fileid = 0) (fields : List Val) :
    InOrder e (.block ty info fields ch cm.reverse) items :=
  InOrder.mk hl sub (fun _ => h.len1) h.len2 h.par (fun _ => h.arm) (fun _ => h.cmo) h.blk
    (by intro x hx; exact h.cmi x (List.mem_reverse.1 hx)) (by intro h0; cases h0) hfid h.ord

end A2l.Tree
