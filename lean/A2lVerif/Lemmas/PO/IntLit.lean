import A2lVerif.Lemmas.PO.Prims
/-! # C02: integer literals at parser level -/
namespace A2l.Tree
open A2l.G A2l.Sc

/-- an integer parameter the parser accepted: the token, and the value `get_integer` made of its text -/
theorem parseItem_int_inv {fuel : Nat} {ctx : Ctx} {w : Nat} {e : Env} {s : PState} {v : Val} {s' : PState}
    (h : parseItem fuel ctx (.int w) e s = .ok v s') :
    ∃ t x hex off, OneTok e s t s' ∧ t.ty = 5 ∧ v = .int x hex off w ∧ parseInt (intTyOf w) t.text = some (x, hex) := by
  cases fuel with
  | zero => rw [parseItem] at h; cases h
  | succ fuel =>
    rw [parseItem] at h
    obtain ⟨⟨x, hex⟩, s1, h1, h2⟩ := bind_eq_ok h
    obtain ⟨off, s2, h3, h4⟩ := bind_eq_ok h2
    have := getLineOffset_ok h3
    subst this
    cases h4
    obtain ⟨t, o1, hty, hp⟩ := getInteger_ok h1
    exact ⟨t, x, hex, off, o1, hty, rfl, hp⟩

/-- a Number token whose text `get_integer` rejects: the parameter parser fails with `MalformedNumber` at the line of
    that token, in the state behind it -/
theorem parseItem_int_err {fuel : Nat} {ctx : Ctx} {w : Nat} {e : Env} {s : PState} {t : PTok} {s1 : PState}
    (h1 : expectToken ctx 5 e s = .ok t s1) (hp : parseInt (intTyOf w) t.text = none) :
    parseItem (fuel + 1) ctx (.int w) e s = .err ⟨.malformedNumber, t.line⟩ s1 := by
  rw [parseItem, bind_def, getInteger_err h1 hp]
  obtain ⟨-, -, hl, -⟩ := expectToken_ok h1
  rw [hl]

end A2l.Tree
