import A2lVerif.Lemmas.PO.Final
import A2lVerif.Lemmas.PO.Values
import A2lVerif.Lemmas.PO.Keys
import A2lVerif.Lemmas.PO.LastBlock
/-! # C02 / C01: the composed statements -/
namespace A2l.Tree
open A2l.G A2l.Sc

/-- the named obstacles, as conditions on the sub-elements `items` of the loaded root value in input order:
    * `pos`   position-restricted items stand in position order, in every block (finding `reserved-order`)
    * `last`  the last top-level item is a block: the file does not end in a keyword parameter
    (the third obstacle of C01, "a sequence is followed by a token that ends it", is derived for strict loads:
    `seqOk_of_filePost`; no END offset is bumped either: the writer's `ends_in_line_comment` is exact on the loaded
    content and the parser never records offset 0 behind a line comment, `fixEo_of_endOk`) -/
structure Obstacles (e : Env) (items : List OT) : Prop where
  pos : OT.posAll e.code items
  last : LastIsBlock items

section
variable {e : Env} {lx : LexEnv} (hin : InOk e lx)
include hin

/-- **theorem 1** -/
theorem parse_output_canonical_lemma (htab : tableOk e.table e.known = true) (hshape : shapeOk e.table = true)
    (hseqT : seqTblOk e.table = true) (htags : TagsOk e) (hns : NoSpecialOk e) {rarms : List Arm} (hroot : RootOk e rarms) {fuel : Nat} {v : Val} {s : PState}
    (h : parseFile fuel e {} = .ok v s) :
    ∃ items ver info ch cm, v = .block e.known.tyA2lFile info [] ch cm ∧ info.startOff = 0 ∧ info.endOff = 0 ∧
      InOrder e v items ∧ TSim lx e.toks.toList (OT.toksL 0 (OT.fixL false items)) ∧
      (OT.posAll e.code items → Canon e v items) ∧
      StreamLex none (OT.toksL 0 (OT.fixL false items)) ∧ OT.fixL false items = items ∧
      (∀ X, OT.posAll e.code items → LastIsBlock items → Writable (mkC e lx X ver) rarms (OT.fixL false items)) := by
  obtain ⟨items, ver, fp⟩ := parseFile_post hin #[] htab hshape htags hns hroot h rfl
  obtain ⟨info, ch, cm, hv, h1, h2⟩ := fp.val
  exact ⟨items, ver, info, ch, cm, hv, h1, h2, fp.ord, fp.sim.fixL false, fp.canon, streamLex_of_filePost fp,
    fixL_of_noBump items false fp.nb (lexWL_of _ items rarms false fp.wf fp.lexv) fp.eokL,
    fun X hp hl => writable_of_filePost hin.strict hroot fp X hp (seqOk_of_filePost hseqT fp X) hl⟩

/-- **theorem 4**: strict load, write, load, write -/
theorem save_reload_strict_lemma (htab : tableOk e.table e.known = true) (hshape : shapeOk e.table = true)
    (hseqT : seqTblOk e.table = true) (htags : TagsOk e) (hns : NoSpecialOk e) {rarms : List Arm} (hroot : RootOk e rarms) {fuel : Nat} {v : Val} {s : PState}
    (h : parseFile fuel e {} = .ok v s) :
    ∃ items, InOrder e v items ∧ (Obstacles e items →
      (∃ F0, ∀ F, F0 ≤ F → writeFile e v F = renderToks (OT.toksL 0 (OT.fixL false items))) ∧
      (∃ ts, Lex.tokenize (encL (renderToks (OT.toksL 0 (OT.fixL false items)))).toArray = .ok ts ∧
        (ts.map (convTok lx (encL (renderToks (OT.toksL 0 (OT.fixL false items)))).toArray)).toArray =
          (mkToks lx (OT.toksL 0 (OT.fixL false items))).toArray) ∧
      (∀ fuel', OT.needL 0 (OT.fixL false items) + 20 ≤ fuel' →
        ∃ v' s', parseFile fuel' { e with toks := (mkToks lx (OT.toksL 0 (OT.fixL false items))).toArray } {} = .ok v' s' ∧
          (∃ F0, ∀ F, F0 ≤ F →
            writeFile { e with toks := (mkToks lx (OT.toksL 0 (OT.fixL false items))).toArray } v' F = writeFile e v F) ∧
          LayoutEq v v')) := by
  obtain ⟨items, ver, info, ch, cm, rfl, h1, h2, hord, -, hcan, hlex, hfix, hw⟩ :=
    parse_output_canonical_lemma hin htab hshape hseqT htags hns hroot h
  refine ⟨items, hord, fun ob => ?_⟩
  obtain ⟨r1, r2, r3⟩ := save_reload_text e lx ver rarms items info ch cm (hcan ob.pos) hlex
    (hw _ ob.pos ob.last)
  refine ⟨r1, r2, fun fuel' hf => ?_⟩
  obtain ⟨v', s', p1, p2, p3⟩ := r3 fuel' hf
  exact ⟨v', s', p1, p2, p3 hord hfix h1 h2⟩

/-- **theorem 4 for grammars whose top-level items are position-restricted with a required block last** (`rootPosB`,
    true of the shipped grammar): position order is the only obstacle -/
theorem save_reload_strict_pos_lemma (htab : tableOk e.table e.known = true) (hshape : shapeOk e.table = true)
    (hseqT : seqTblOk e.table = true) (htags : TagsOk e) (hns : NoSpecialOk e) {rarms : List Arm} (hroot : RootOk e rarms)
    (hrp : rootPosB e.code rarms = true) {fuel : Nat} {v : Val} {s : PState} (h : parseFile fuel e {} = .ok v s) :
    ∃ items, InOrder e v items ∧ (OT.posAll e.code items →
      (∃ F0, ∀ F, F0 ≤ F → writeFile e v F = renderToks (OT.toksL 0 (OT.fixL false items))) ∧
      (∃ ts, Lex.tokenize (encL (renderToks (OT.toksL 0 (OT.fixL false items)))).toArray = .ok ts ∧
        (ts.map (convTok lx (encL (renderToks (OT.toksL 0 (OT.fixL false items)))).toArray)).toArray =
          (mkToks lx (OT.toksL 0 (OT.fixL false items))).toArray) ∧
      (∀ fuel', OT.needL 0 (OT.fixL false items) + 20 ≤ fuel' →
        ∃ v' s', parseFile fuel' { e with toks := (mkToks lx (OT.toksL 0 (OT.fixL false items))).toArray } {} = .ok v' s' ∧
          (∃ F0, ∀ F, F0 ≤ F →
            writeFile { e with toks := (mkToks lx (OT.toksL 0 (OT.fixL false items))).toArray } v' F = writeFile e v F) ∧
          LayoutEq v v')) := by
  obtain ⟨items, ver, fp⟩ := parseFile_post hin #[] htab hshape htags hns hroot h rfl
  obtain ⟨info, ch, cm, rfl, h1, h2⟩ := fp.val
  refine ⟨items, fp.ord, fun hpos => ?_⟩
  have hlast : LastIsBlock items := lastIsBlock_of_pos (c := mkC e lx #[] ver) hrp fp.wf fp.mult hpos.1
  obtain ⟨r1, r2, r3⟩ := save_reload_text e lx ver rarms items info ch cm (fp.canon hpos) (streamLex_of_filePost fp)
    (writable_of_filePost hin.strict hroot fp _ hpos (seqOk_of_filePost hseqT fp _) hlast)
  refine ⟨r1, r2, fun fuel' hf => ?_⟩
  obtain ⟨v', s', p1, p2, p3⟩ := r3 fuel' hf
  exact ⟨v', s', p1, p2, p3 fp.ord
    (fixL_of_noBump items false fp.nb (lexWL_of (mkC e lx #[] ver) items rarms false fp.wf fp.lexv) fp.eokL) h1 h2⟩

/-- **theorem 2**, token level: the values of the tokens of the written stream are those of the input tokens with the
    skipped comments deleted -/
theorem content_preserved_lemma (htab : tableOk e.table e.known = true) (hshape : shapeOk e.table = true)
    (htags : TagsOk e) (hns : NoSpecialOk e) {rarms : List Arm} (hroot : RootOk e rarms) {fuel : Nat} {v : Val} {s : PState}
    (h : parseFile fuel e {} = .ok v s) :
    ∃ items, InOrder e v items ∧ (OT.posAll e.code items → Canon e v items) ∧
      Pres (valuesOf e.toks) (valuesOf (mkToks lx (OT.toksL 0 (OT.fixL false items))).toArray) := by
  obtain ⟨items, ver, fp⟩ := parseFile_post hin #[] htab hshape htags hns hroot h rfl
  refine ⟨items, fp.ord, fp.canon, ?_⟩
  have := (fp.sim.fixL false).pres (fun t ht hty r hr => by
    obtain ⟨i, hi⟩ := List.getElem?_of_mem ht
    exact hin.fl i t r (by simpa using hi) hty hr) 1
  simpa [valuesOf, mkToks] using this

end
end A2l.Tree
