import A2lVerif.Lemmas.PO.Hyps
/-! # C02 / C01 gap: the well-formedness predicates do not look at the token array of their configuration -/
namespace A2l.Tree
open A2l.G A2l.Sc

section
variable {e : Env} {lx : LexEnv} {ver : Nat} (X X' : Array PTok)

theorem scalarOk_X {it : ItemTy} {v : Val} (h : ScalarOk (mkC e lx X ver) it v) : ScalarOk (mkC e lx X' ver) it v := by
  cases it <;> cases v <;> exact h

theorem scalarsOk_X : ∀ (its : List ItemTy) (vs : List Val), ScalarsOk (mkC e lx X ver) its vs →
    ScalarsOk (mkC e lx X' ver) its vs
  | [], [], _ => trivial
  | [], _ :: _, h => by simp [ScalarsOk] at h
  | _ :: _, [], h => by simp [ScalarsOk] at h
  | it :: its, v :: vs, h => ⟨scalarOk_X X X' h.1, scalarsOk_X its vs h.2⟩

theorem elemOk_X {it : ItemTy} {v : Val} (h : ElemOk (mkC e lx X ver) it v) : ElemOk (mkC e lx X' ver) it v := by
  cases it with
  | structRef ty =>
    cases v <;> simp only [ElemOk] at h ⊢
    case block ty' info fs ch cm =>
      obtain ⟨h1, h2, h3, h4, sits, h5, h6, h7⟩ := h
      exact ⟨h1, h2, h3, h4, sits, h5, h6, scalarsOk_X X X' sits fs h7⟩
  | ident => exact scalarOk_X X X' (it := .ident) h
  | string => exact scalarOk_X X X' (it := .string) h
  | double => exact scalarOk_X X X' (it := .double) h
  | float => exact scalarOk_X X X' (it := .float) h
  | int w => exact scalarOk_X X X' (it := .int w) h
  | strMax n => exact scalarOk_X X X' (it := .strMax n) h
  | enumRef ty => exact scalarOk_X X X' (it := .enumRef ty) h
  | arr of n => cases v <;> exact h
  | seq of stop => cases v <;> exact h

theorem elemStopFree_X {stop : List Nat} {v : Val} (h : elemStopFree (mkC e lx X ver) stop v) :
    elemStopFree (mkC e lx X' ver) stop v := by
  cases v <;> exact h

theorem fieldWf_X {it : ItemTy} {v : Val} (h : FieldWf (mkC e lx X ver) it v) : FieldWf (mkC e lx X' ver) it v := by
  cases it with
  | arr of n =>
    cases v <;> simp only [FieldWf] at h ⊢
    case arr vs => exact ⟨h.1, fun x hx => elemOk_X X X' (h.2 x hx)⟩
  | seq of stop =>
    cases v <;> simp only [FieldWf] at h ⊢
    case seq vs =>
      exact ⟨fun x hx => elemOk_X X X' (h.1 x hx), h.2.1, h.2.2.1, fun x hx => elemStopFree_X X X' (h.2.2.2 x hx)⟩
  | ident => exact elemOk_X X X' (it := .ident) h
  | string => exact elemOk_X X X' (it := .string) h
  | double => exact elemOk_X X X' (it := .double) h
  | float => exact elemOk_X X X' (it := .float) h
  | int w => exact elemOk_X X X' (it := .int w) h
  | strMax n => exact elemOk_X X X' (it := .strMax n) h
  | enumRef ty => exact elemOk_X X X' (it := .enumRef ty) h
  | structRef ty => exact elemOk_X X X' (it := .structRef ty) h

theorem fieldsWf_X : ∀ (its : List ItemTy) (vs : List Val), FieldsWf (mkC e lx X ver) its vs →
    FieldsWf (mkC e lx X' ver) its vs
  | [], [], _ => trivial
  | [], _ :: _, h => by simp [FieldsWf] at h
  | _ :: _, [], h => by simp [FieldsWf] at h
  | it :: its, v :: vs, h => ⟨fieldWf_X X X' h.1, fieldsWf_X its vs h.2⟩

mutual
theorem wf_X : ∀ (o : OT) (parms : List Arm) (pib : Bool), OT.wf (mkC e lx X ver) parms pib o →
    OT.wf (mkC e lx X' ver) parms pib o
  | .cmt _ _, _, _, h => h
  | .node arm tag blk ty so eo fields items, parms, pib, h => by
    simp only [OT.wf] at h ⊢
    obtain ⟨a, its, arms, ht, h1, h2, h3, h4, h5, h6, h7, h8, h9, h10, h11, h12, h13, h14⟩ := h
    exact ⟨a, its, arms, ht, h1, h2, h3, h4, h5, h6, h7, h8, h9, h10, fieldsWf_X X X' its fields h11, h12,
      wfL_X items arms blk h13, h14⟩
/-- `OT.wfL` for the configuration with another token array -/
theorem wfL_X : ∀ (xs : List OT) (parms : List Arm) (pib : Bool), OT.wfL (mkC e lx X ver) parms pib xs →
    OT.wfL (mkC e lx X' ver) parms pib xs
  | [], _, _, _ => trivial
  | x :: xs, parms, pib, h => by
    simp only [OT.wfL] at h ⊢
    exact ⟨wf_X x parms pib h.1, wfL_X xs parms pib h.2⟩
end

theorem seqStops_X {of : ItemTy} {stop : List Nat} {o : Option WTok} (h : SeqStops (mkC e lx X ver) of stop o) :
    SeqStops (mkC e lx X' ver) of stop o := by
  cases o <;> exact h

mutual
theorem idSeqOk_X : ∀ (o : OT) (ind : Nat) (rest : List WTok), OT.idSeqOk (mkC e lx X ver) ind o rest →
    OT.idSeqOk (mkC e lx X' ver) ind o rest
  | .cmt _ _, _, _, h => h
  | .node arm tag blk ty so eo fields items, ind, rest, h => by
    simp only [OT.idSeqOk] at h ⊢
    exact ⟨fun its arms ht stop hl hlast => seqStops_X X X' (h.1 its arms ht stop hl hlast), idSeqOkL_X items (ind + 1) _ h.2⟩
/-- `OT.idSeqOkL` for the configuration with another token array -/
theorem idSeqOkL_X : ∀ (xs : List OT) (ind : Nat) (rest : List WTok), OT.idSeqOkL (mkC e lx X ver) ind xs rest →
    OT.idSeqOkL (mkC e lx X' ver) ind xs rest
  | [], _, _, _ => trivial
  | x :: xs, ind, rest, h => by
    simp only [OT.idSeqOkL] at h ⊢
    exact ⟨idSeqOk_X x ind _ h.1, idSeqOkL_X xs ind rest h.2⟩
end

end
end A2l.Tree
