import A2lVerif.Lemmas.PO.LexConv
/-! # C02, text-level front end: the bytes of a token of a `String` are UTF-8

`bytes = encL chars` (the input is a `String`): token boundaries are char boundaries (`tokenize_post`, C03), and a slice of
`encL chars` between two char boundaries is `encL` of a sublist of `chars`. -/
namespace A2l.Tree
open A2l.Lex A2l.Sc

/-- continuation byte -/
def Cont (x : UInt8) : Prop := 0x80 ≤ x ∧ x < 0xC0

theorem cont_tail (a : UInt8) : Cont (a &&& 63 ||| 128) := by
  have key : ∀ n : Fin 256, Cont (UInt8.ofNat n.val &&& 63 ||| 128) := by unfold Cont; decide +kernel
  have := key ⟨a.toNat, a.toNat_lt⟩
  simpa using this

theorem lead2 (a : UInt8) : ¬ Cont (a &&& 31 ||| 192) := by
  have key : ∀ n : Fin 256, ¬ Cont (UInt8.ofNat n.val &&& 31 ||| 192) := by unfold Cont; decide +kernel
  have := key ⟨a.toNat, a.toNat_lt⟩
  simpa using this

theorem lead3 (a : UInt8) : ¬ Cont (a &&& 15 ||| 224) := by
  have key : ∀ n : Fin 256, ¬ Cont (UInt8.ofNat n.val &&& 15 ||| 224) := by unfold Cont; decide +kernel
  have := key ⟨a.toNat, a.toNat_lt⟩
  simpa using this

theorem lead4 (a : UInt8) : ¬ Cont (a &&& 7 ||| 240) := by
  have key : ∀ n : Fin 256, ¬ Cont (UInt8.ofNat n.val &&& 7 ||| 240) := by unfold Cont; decide +kernel
  have := key ⟨a.toNat, a.toNat_lt⟩
  simpa using this

/-- the encoding of a character: a byte that is not a continuation byte, then continuation bytes; more than one byte
    only if all are `≥ 0x80` -/
theorem enc_shape (c : Char) : ∃ h tl, String.utf8EncodeChar c = h :: tl ∧ ¬ Cont h ∧ (∀ x ∈ tl, Cont x) ∧
    (tl ≠ [] → 0x80 ≤ h) := by
  rcases Char.utf8Size_eq c with h' | h' | h' | h'
  · have ha : IsAscii c := Char.utf8Size_eq_one_iff.1 h'
    refine ⟨_, [], enc_ascii ha, ?_, by simp, by simp⟩
    have : asciiB c < 128 := by
      have hv : c.val.toNat ≤ 127 := UInt32.le_iff_toNat_le.1 ha
      unfold asciiB
      rw [UInt8.lt_iff_toNat_lt, UInt32.toNat_toUInt8, Nat.mod_eq_of_lt (by omega)]
      exact Nat.lt_succ_of_le hv
    exact not_cont_of_ascii this
  · have hna : ¬ IsAscii c := fun h => by rw [Char.utf8Size_eq_one_iff.2 h] at h'; cases h'
    have h128 := enc_nonascii hna
    rw [String.utf8EncodeChar_eq_cons_cons h'] at h128 ⊢
    exact ⟨_, _, rfl, lead2 _, by
      intro x hx; simp only [List.mem_cons, List.not_mem_nil, or_false] at hx; subst hx; exact cont_tail _,
      fun _ => h128 _ List.mem_cons_self⟩
  · have hna : ¬ IsAscii c := fun h => by rw [Char.utf8Size_eq_one_iff.2 h] at h'; cases h'
    have h128 := enc_nonascii hna
    rw [String.utf8EncodeChar_eq_cons_cons_cons h'] at h128 ⊢
    exact ⟨_, _, rfl, lead3 _, by
      intro x hx; simp only [List.mem_cons, List.not_mem_nil, or_false] at hx
      rcases hx with rfl | rfl <;> exact cont_tail _,
      fun _ => h128 _ List.mem_cons_self⟩
  · have hna : ¬ IsAscii c := fun h => by rw [Char.utf8Size_eq_one_iff.2 h] at h'; cases h'
    have h128 := enc_nonascii hna
    rw [String.utf8EncodeChar_eq_cons_cons_cons_cons h'] at h128 ⊢
    exact ⟨_, _, rfl, lead4 _, by
      intro x hx; simp only [List.mem_cons, List.not_mem_nil, or_false] at hx
      rcases hx with rfl | rfl | rfl <;> exact cont_tail _,
      fun _ => h128 _ List.mem_cons_self⟩

/-- char boundary of a byte list -/
def BndL (l : List UInt8) (p : Nat) : Prop := p = l.length ∨ ∃ x, l[p]? = some x ∧ ¬ Cont x

/-- a char boundary of `encL cs` splits it into `encL` of a prefix and `encL` of the rest -/
theorem encL_split : ∀ (cs : List Char) (p : Nat), BndL (encL cs) p → p ≤ (encL cs).length →
    ∃ k, (encL cs).take p = encL (cs.take k) ∧ (encL cs).drop p = encL (cs.drop k)
  | [], p, _, hp => ⟨0, by simp [encL], by simp [encL]⟩
  | c :: cs, p, hb, hp => by
    obtain ⟨h, tl, he, hh, htl, -⟩ := enc_shape c
    by_cases h0 : p = 0
    · subst h0; exact ⟨0, by simp [encL], by simp⟩
    · rw [encL_cons, he] at hb hp ⊢
      by_cases hlt : p < (h :: tl).length
      · exfalso
        rcases hb with hb | ⟨x, hx, hnc⟩
        · simp only [List.length_append] at hb; omega
        · rw [List.getElem?_append_left hlt] at hx
          obtain ⟨q, rfl⟩ : ∃ q, p = q + 1 := ⟨p - 1, by omega⟩
          rw [List.getElem?_cons_succ] at hx
          exact hnc (htl x (List.mem_of_getElem? hx))
      · have hge : (h :: tl).length ≤ p := by omega
        have hb' : BndL (encL cs) (p - (h :: tl).length) := by
          rcases hb with hb | ⟨x, hx, hnc⟩
          · left; simp only [List.length_append] at hb; omega
          · right; rw [List.getElem?_append_right hge] at hx; exact ⟨x, hx, hnc⟩
        obtain ⟨k, k1, k2⟩ := encL_split cs (p - (h :: tl).length) hb'
          (by simp only [List.length_append] at hp; omega)
        refine ⟨k + 1, ?_, ?_⟩
        · rw [List.take_append, List.take_of_length_le hge, k1, List.take_succ_cons, encL_cons, he]
        · rw [List.drop_append, List.drop_of_length_le hge, k2, List.drop_succ_cons]; rfl

/-- a slice of `encL cs` between two char boundaries is `encL` of a sublist -/
theorem encL_slice (cs : List Char) (a e : Nat) (hae : a ≤ e) (he : e ≤ (encL cs).length)
    (ha : BndL (encL cs) a) (hb : BndL (encL cs) e) : ∃ text, ((encL cs).drop a).take (e - a) = encL text := by
  obtain ⟨k, -, k2⟩ := encL_split cs a ha (by omega)
  rw [k2]
  have hb' : BndL (encL (cs.drop k)) (e - a) := by
    rw [← k2]
    rcases hb with hb | ⟨x, hx, hnc⟩
    · left; rw [List.length_drop]; omega
    · right; refine ⟨x, ?_, hnc⟩
      rw [List.getElem?_drop]
      have : a + (e - a) = e := by omega
      rw [this]; exact hx
  obtain ⟨k', k1', -⟩ := encL_split (cs.drop k) (e - a) hb' (by rw [← k2, List.length_drop]; omega)
  exact ⟨_, k1'⟩

/-- a continuation byte of `encL cs` is not the first byte and follows a byte `≥ 0x80` -/
theorem encL_cont_prev : ∀ (cs : List Char) (p : Nat) (x : UInt8), (encL cs)[p]? = some x → Cont x →
    0 < p ∧ ∃ y, (encL cs)[p - 1]? = some y ∧ 0x80 ≤ y
  | [], p, x, hx, _ => by simp [encL] at hx
  | c :: cs, p, x, hx, hc => by
    obtain ⟨h, tl, he, hh, htl, hbig⟩ := enc_shape c
    rw [encL_cons, he] at hx ⊢
    by_cases hlt : p < (h :: tl).length
    · rw [List.getElem?_append_left hlt] at hx
      cases p with
      | zero => simp at hx; subst hx; exact absurd hc hh
      | succ q =>
        refine ⟨by omega, ?_⟩
        have hq : q < (h :: tl).length := by omega
        rw [List.getElem?_append_left (by simpa using hq)]
        have hne : tl ≠ [] := by intro h0; subst h0; simp at hlt
        cases q with
        | zero => exact ⟨h, by simp, hbig hne⟩
        | succ r =>
          simp only [Nat.add_sub_cancel, List.getElem?_cons_succ]
          have hr : r < tl.length := by simp at hq; omega
          exact ⟨tl[r], List.getElem?_eq_getElem hr, (htl _ (List.getElem_mem hr)).1⟩
    · have hge : (h :: tl).length ≤ p := by omega
      rw [List.getElem?_append_right hge] at hx
      obtain ⟨hp, y, hy, hy8⟩ := encL_cont_prev cs _ x hx hc
      refine ⟨by omega, y, ?_, hy8⟩
      rw [List.getElem?_append_right (by omega)]
      have : p - 1 - (h :: tl).length = p - (h :: tl).length - 1 := by omega
      rw [this]; exact hy

theorem utf8Ok_encL (cs : List Char) : Utf8Ok (encL cs).toArray := by
  intro p hp hc
  have hx : (encL cs)[p]? = some (encL cs).toArray[p] := by
    simp only [List.getElem_toArray]
    exact List.getElem?_eq_getElem (by simpa using hp)
  obtain ⟨h0, y, hy, hy8⟩ := encL_cont_prev cs p _ hx hc
  refine ⟨h0, ?_⟩
  have hlt : p - 1 < (encL cs).length := by simp at hp; omega
  rw [List.getElem?_eq_getElem hlt] at hy
  simp only [List.getElem_toArray]
  cases hy
  exact hy8

theorem bndL_of_bnd {l : List UInt8} {p : Nat} (h : Bnd l.toArray p) : BndL l p := by
  rcases h with h | ⟨c, hc, hn⟩
  · left; simpa using h
  · right; exact ⟨c, by simpa using hc, hn⟩

/-- **the bytes of every token of a `String` are UTF-8** -/
theorem token_bytes_utf8 (cs : List Char) (ts : List Token) (h : tokenize (encL cs).toArray = .ok ts) :
    ∀ t ∈ ts, ∃ text, ((encL cs).toArray.extract t.startpos t.endpos).toList = encL text := by
  intro t ht
  have hpost := tokenize_post (encL cs).toArray
  rw [h] at hpost
  have h1 := hpost.1 t ht
  have h2 := hpost.2.2.2.1 (utf8Ok_encL cs) t ht
  have hsz : (encL cs).toArray.size = (encL cs).length := by simp
  obtain ⟨text, htext⟩ := encL_slice cs t.startpos t.endpos (by omega) (by omega) (bndL_of_bnd h2.1) (bndL_of_bnd h2.2)
  refine ⟨text, ?_⟩
  rw [← htext]
  apply List.ext_getElem?
  intro j
  rw [extract_getElem? _ _ _ _ (by omega), List.getElem?_take, List.getElem?_drop]
  by_cases hj : j < t.endpos - t.startpos
  · rw [if_pos (by omega), if_pos hj]; simp
  · rw [if_neg (by omega), if_neg hj]

/-- `TextOk` for a text that is a `String` -/
theorem textOk_of_string (cs : List Char) (ts : List Token) (h : tokenize (encL cs).toArray = .ok ts)
    (hninc : ∀ t ∈ ts, t.ttype ≠ .include)
    (hfirst : ∀ t ∈ ts, t.ttype = .identifier → ∀ c, (encL cs).toArray[t.startpos]? = some c →
      (isAlpha c || c == 95) = true) : TextOk (encL cs).toArray ts :=
  ⟨hninc, hfirst, fun t ht _ => token_bytes_utf8 cs ts h t ht⟩

end A2l.Tree
