import A2lVerif.Lemmas.TreeRoundTrip
/-! # C02 (content preservation) / C01 gap: basic notions

What a *strict* successful run of the parser says about the tokens it consumed and about the value it returns.

* `seg e a b`        the input tokens from cursor position `a` (inclusive) to `b` (exclusive)
* `TokSim lx t w`    the input token `t` and the written token `w` are of the same kind and carry the same value
* `TSim lx ts ws`     `ts` with some comment tokens deleted corresponds token by token (`TokSim`) to `ws`
* `Adv2 s s'`         the cursor did not move backwards, ids were only consumed, the file version is unchanged
-/
namespace A2l.Tree
open A2l.G A2l.Sc

/-! ## segments of the token array -/

def seg (e : Env) (a b : Nat) : List PTok := (e.toks.toList.drop a).take (b - a)

theorem seg_self (e : Env) (a : Nat) : seg e a a = [] := by simp [seg]

theorem seg_append (e : Env) {a b c : Nat} (h1 : a ≤ b) (h2 : b ≤ c) : seg e a b ++ seg e b c = seg e a c := by
  unfold seg
  have h : c - a = (b - a) + (c - b) := by omega
  rw [h, List.take_add, List.drop_drop]
  congr 3
  omega

theorem seg_one (e : Env) {a : Nat} {t : PTok} (h : e.toks[a]? = some t) : seg e a (a + 1) = [t] := by
  unfold seg
  have hlt : a < e.toks.toList.length := by
    have := lt_of_getElem?_some h; simpa using this
  rw [List.drop_eq_getElem_cons hlt]
  have : e.toks.toList[a] = t := by
    have h' : e.toks.toList[a]? = some t := by simpa using h
    rw [List.getElem?_eq_getElem hlt] at h'
    exact Option.some.inj h'
  simp [this]

theorem seg_all (e : Env) : seg e 0 e.toks.size = e.toks.toList := by
  unfold seg
  simp only [List.drop_zero, Nat.sub_zero]
  exact List.take_of_length_le (by simp)

theorem seg_length_le (e : Env) (a b : Nat) : (seg e a b).length ≤ b - a := by
  unfold seg; simp; omega

theorem seg_length (e : Env) {a b : Nat} (h : b ≤ e.toks.size) : (seg e a b).length = b - a := by
  unfold seg
  simp only [List.length_take, List.length_drop, Array.length_toList]
  omega

theorem seg_cons (e : Env) {a b : Nat} {t : PTok} (h : e.toks[a]? = some t) (hab : a < b) :
    seg e a b = t :: seg e (a + 1) b := by
  rw [← seg_append e (Nat.le_succ a) hab, seg_one e h]; rfl

theorem seg_head (e : Env) {a b : Nat} {x : PTok} {rest : List PTok} (h : seg e a b = x :: rest) :
    e.toks[a]? = some x := by
  unfold seg at h
  have h1 : ((e.toks.toList.drop a).take (b - a))[0]? = some x := by rw [h]; rfl
  rw [List.getElem?_take] at h1
  split at h1
  · rw [List.getElem?_drop] at h1
    simpa using h1
  · cases h1

theorem seg_of_ge (e : Env) {b : Nat} (h : e.toks.size ≤ b) : seg e 0 b = e.toks.toList := by
  unfold seg
  simp only [List.drop_zero, Nat.sub_zero]
  exact List.take_of_length_le (by simpa using h)

/-- the tokens from `a` on -/
def tailFrom (e : Env) (a : Nat) : List PTok := e.toks.toList.drop a

theorem tailFrom_seg (e : Env) {a b : Nat} (h : a ≤ b) : tailFrom e a = seg e a b ++ tailFrom e b := by
  unfold tailFrom seg
  rw [show e.toks.toList.drop b = (e.toks.toList.drop a).drop (b - a) by rw [List.drop_drop]; congr 1; omega]
  exact (List.take_append_drop _ _).symm

/-! ## how the cursor state moves -/

structure Adv2 (s s' : PState) : Prop where
  pos : s.pos ≤ s'.pos
  seq : s.seqId ≤ s'.seqId
  ver : s'.ver = s.ver

theorem Adv2.refl (s : PState) : Adv2 s s := ⟨Nat.le_refl _, Nat.le_refl _, rfl⟩
theorem Adv2.trans {s s1 s2 : PState} (h1 : Adv2 s s1) (h2 : Adv2 s1 s2) : Adv2 s s2 :=
  ⟨Nat.le_trans h1.pos h2.pos, Nat.le_trans h1.seq h2.seq, by rw [h2.ver, h1.ver]⟩

/-! ## token correspondence -/

/-- the input token `t` and the written token `w` are of the same kind and carry the same value:
    identifiers and comments the same text; `/begin`, `/end` the kind; strings the same unescaped value; numbers the
    same integer value and notation (`w` is what `add_integer` prints for what `get_integer` read) or the same
    float text (`w` is what the float codec made of `t`) -/
inductive TokSim (lx : LexEnv) : PTok → WTok → Prop
  | ident (t : PTok) (w : WTok) (h0 : t.ty = 0) (hw : w.ty = 0) (htext : w.text = t.text) : TokSim lx t w
  | begin_ (t : PTok) (w : WTok) (h0 : t.ty = 1) (hw : w.ty = 1) (htext : w.text = beginText) : TokSim lx t w
  | end_ (t : PTok) (w : WTok) (h0 : t.ty = 2) (hw : w.ty = 2) (htext : w.text = endText) : TokSim lx t w
  | str (t : PTok) (w : WTok) (str : List Char) (h0 : t.ty = 4) (hw : w.ty = 4)
      (hval : unescape (stripQuotes t.text) = .ok str) (htext : w.text = '"' :: (escape str ++ ['"'])) : TokSim lx t w
  | int (t : PTok) (w : WTok) (ity : IntTy) (v : Int) (hex : Bool) (h0 : t.ty = 5) (hw : w.ty = 5)
      (hval : parseInt ity t.text = some (v, hex)) (htext : w.text = printInt ity v hex) : TokSim lx t w
  | dbl (t : PTok) (w : WTok) (r : List Char) (h0 : t.ty = 5) (hw : w.ty = 5)
      (hval : t.fl = some r) (htext : w.text = r) : TokSim lx t w
  | cmt (t : PTok) (w : WTok) (h0 : t.ty = 6) (hw : w.ty = 6) (htext : w.text = t.text) : TokSim lx t w

theorem TokSim.ty_eq {lx : LexEnv} {t : PTok} {w : WTok} (h : TokSim lx t w) : w.ty = t.ty := by
  cases h <;> simp [*]

/-- `ts` with some comment tokens deleted corresponds token by token to `ws` -/
inductive TSim (lx : LexEnv) : List PTok → List WTok → Prop
  | nil : TSim lx [] []
  | skip (t : PTok) (ts : List PTok) (ws : List WTok) (h6 : t.ty = 6) (h : TSim lx ts ws) : TSim lx (t :: ts) ws
  | tok (t : PTok) (w : WTok) (ts : List PTok) (ws : List WTok) (h1 : TokSim lx t w) (h : TSim lx ts ws) :
      TSim lx (t :: ts) (w :: ws)

theorem TSim.append {lx : LexEnv} {ts ts' : List PTok} {ws ws' : List WTok} (h1 : TSim lx ts ws) (h2 : TSim lx ts' ws') :
    TSim lx (ts ++ ts') (ws ++ ws') := by
  induction h1 with
  | nil => exact h2
  | skip t ts ws h6 _ ih => exact TSim.skip t _ _ h6 ih
  | tok t w ts ws h1 _ ih => exact TSim.tok t w _ _ h1 ih

theorem TSim.comments {lx : LexEnv} : ∀ (cs : List PTok), (∀ x ∈ cs, x.ty = 6) → TSim lx cs []
  | [], _ => TSim.nil
  | c :: cs, h => TSim.skip c cs [] (h c List.mem_cons_self) (TSim.comments cs (fun x hx => h x (List.mem_cons_of_mem _ hx)))

theorem TSim.single {lx : LexEnv} {t : PTok} {w : WTok} (h : TokSim lx t w) : TSim lx [t] [w] :=
  TSim.tok t w [] [] h TSim.nil

/-- comments, then one significant token -/
theorem TSim.one {lx : LexEnv} {cs : List PTok} {t : PTok} {w : WTok} (hc : ∀ x ∈ cs, x.ty = 6) (h : TokSim lx t w) :
    TSim lx (cs ++ [t]) [w] := by
  have := TSim.append (TSim.comments (lx := lx) cs hc) (TSim.single h)
  simpa using this

/-! ## strict mode: `error_or_log` is an error -/

theorem errorOrLog_strict' {e : Env} (hst : e.strict = true) (k : DK) (s : PState) :
    errorOrLog k e s = .err ⟨k, s.lastLine⟩ s := by
  simp only [errorOrLog, getEnv_bind, hst, if_true]
  rfl

theorem errorOrLogNoLine_strict' {e : Env} (hst : e.strict = true) (k : DK) (s : PState) :
    errorOrLogNoLine k e s = .err ⟨k, 0⟩ s := by
  simp only [errorOrLogNoLine, getEnv_bind, hst, if_true]
  rfl

/-- `if p { error_or_log(k)? }; rest` succeeded in strict mode: `p` was false -/
theorem condE_ok {e : Env} (hst : e.strict = true) {β} {p : Prop} [Decidable p] {k : DK} {f : PUnit → PM β}
    {s : PState} {v : β} {s' : PState}
    (h : (if p then errorOrLog k >>= f else f ()) e s = .ok v s') : ¬ p ∧ f () e s = .ok v s' := by
  by_cases hp : p
  · rw [if_pos hp, bind_def, errorOrLog_strict' hst] at h; cases h
  · rw [if_neg hp] at h; exact ⟨hp, h⟩

theorem condE_ok' {e : Env} (hst : e.strict = true) {β} {p : Prop} [Decidable p] {k : DK} {f : PUnit → PM β}
    {s : PState} {v : β} {s' : PState}
    (h : ((if p then errorOrLog k else pure ()) >>= f) e s = .ok v s') : ¬ p ∧ f () e s = .ok v s' := by
  by_cases hp : p
  · rw [if_pos hp, bind_def, errorOrLog_strict' hst] at h; cases h
  · rw [if_neg hp] at h; exact ⟨hp, h⟩

/-- `if p { log_warning(k) }; rest`: only the log changes -/
theorem condW_ok {e : Env} {β} {p : Prop} [Decidable p] {k : DK} {f : PUnit → PM β}
    {s : PState} {v : β} {s' : PState}
    (h : (if p then logWarning k >>= f else f ()) e s = .ok v s') :
    ∃ s1, s1.pos = s.pos ∧ s1.seqId = s.seqId ∧ s1.ver = s.ver ∧ s1.lastLine = s.lastLine ∧ f () e s1 = .ok v s' := by
  by_cases hp : p
  · rw [if_pos hp, bind_def, logWarning_eval] at h
    exact ⟨{ s with log := ⟨k, s.lastLine⟩ :: s.log }, rfl, rfl, rfl, rfl, h⟩
  · rw [if_neg hp] at h; exact ⟨s, rfl, rfl, rfl, rfl, h⟩

theorem condF_ok {e : Env} {β} {p : Prop} [Decidable p] {k : DK} {f : PUnit → PM β}
    {s : PState} {v : β} {s' : PState}
    (h : (if p then (fail k : PM PUnit) >>= f else f ()) e s = .ok v s') : ¬ p ∧ f () e s = .ok v s' := by
  by_cases hp : p
  · rw [if_pos hp] at h; cases h
  · rw [if_neg hp] at h; exact ⟨hp, h⟩

theorem getLineOffset_ok {e : Env} {s s' : PState} {n : Nat} (h : getLineOffset e s = .ok n s') : s' = s := by
  rcases getLineOffset_cases e s with h1 | ⟨m, h1⟩
  · rw [h1] at h; cases h
  · rw [h1] at h; cases h; rfl

/-- the value of `get_line_offset` behind a token that is neither the first nor the last one -/
theorem getLineOffset_val {e : Env} {s s' : PState} {n : Nat} (h : getLineOffset e s = .ok n s')
    (h1 : s.pos > 1) (h2 : s.pos < e.toks.size) {prev cur : PTok} (hp : e.toks[s.pos - 2]? = some prev)
    (hc : e.toks[s.pos - 1]? = some cur) (hf : prev.fileid = cur.fileid) :
    n = cur.line - (if prev.ty = 6 then prev.line + countNewlines prev.text else prev.line) := by
  unfold getLineOffset at h
  simp only [getEnv_bind, getState_bind] at h
  rw [if_pos ⟨h1, h2⟩, hp, hc] at h
  dsimp only at h
  rw [if_pos hf] at h
  by_cases h6 : prev.ty = 6
  · simp only [h6, if_true] at h ⊢
    by_cases hlt : cur.line < prev.line + countNewlines prev.text
    · rw [if_pos hlt] at h; cases h
    · rw [if_neg hlt] at h; cases h; rfl
  · simp only [h6, if_false] at h ⊢
    by_cases hlt : cur.line < prev.line
    · rw [if_pos hlt] at h; cases h
    · rw [if_neg hlt] at h; cases h; rfl

end A2l.Tree
