import A2lVerif.Lemmas.PO.Fields
import A2lVerif.Lemmas.PO.LInv
import A2lVerif.Lemmas.PO.NextTag
import A2lVerif.Lemmas.PO.Fix
/-! # C02 / C01 gap: what is proved of `T::parse` and of the tagged loop (statements) -/
namespace A2l.Tree
open A2l.G A2l.Sc

/-- the arms of a tagged part are of the supported shape and their tags are identifiers -/
structure ArmsOk (e : Env) (arms : List Arm) : Prop where
  shape : arms.all (armB e.table) = true
  tags : ∀ a ∈ arms, IdentOk true (symText e.symbols a.tag)
  noA2ml : ∀ a ∈ arms, a.block = true → e.table.lookup a.ty ≠ some .special → symText e.symbols a.tag ≠ "A2ML".toList

/-- what is known of a block / keyword value `.block ty info fields ch cm` that `T::parse` returned; `items` = its
    sub-elements and comments in the order in which they stood in the input -/
structure NodeFacts (c : RCfg) (e : Env) (ty : Nat) (ctx : Ctx) (off : Nat) (s s' : PState)
    (info : Info) (fields : List Val) (ch : List (List Val)) (cm : List Cmt) (items : List OT)
    (isB : Bool) (its : List ItemTy) (arms : List Arm) (ht : Bool) : Prop where
  fwd : Adv2 s s'
  lookup : e.table.lookup ty = some (.block isB its arms ht)
  uidlt : s.seqId < info.uid
  uidle : info.uid ≤ s'.seqId
  soff : info.startOff = off
  fid : info.fileid = 0
  eoff : isB = false → info.endOff = 0
  fwf : FieldsWf c its (fields.map normField)
  nil : ht = false → items = []
  wfl : OT.wfL c arms isB items
  mult : MultOk true arms items
  ord : InOrder e (.block ty info fields ch cm) items
  canon : OT.posAll e.code items → Canon e (.block ty info fields ch cm) items
  /-- without position order: canonical relation to a reordering of position-restricted siblings (at every depth) -/
  sibc : ∃ items', OT.SibPL e.code items items' ∧ Canon e (.block ty info fields ch cm) items'
  lexf : ∀ f ∈ fields, FieldLex f
  lexv : OT.lexVL items
  eok : isB = true → ∀ text off, items.getLast? = some (.cmt text off) → isLineCmt text = true → 1 ≤ info.endOff
  eokL : OT.endOkL items
  /-- no item stands on the line of a line comment in front of it: the writer bumps no offset -/
  nb : OT.noBumpL false items
  /-- sequences of identifiers end where they should, in every written stream that goes on like the input -/
  idseq : (isB = true ∨ ht = false ∨ e.toks[s'.pos]? = none) → ∀ rest, NextRel (tailFrom e s'.pos) rest → FollowId rest →
    ∀ ind ind', (∀ stop, its.getLast? = some (.seq .ident stop) → SeqStops c .ident stop
        (nextNC (OT.toksL ind' items ++ (closeToks ind ctx.element isB info.endOff ++ rest)))) ∧
      OT.idSeqOkL c ind' items (closeToks ind ctx.element isB info.endOff ++ rest)
  /-- the written tokens correspond to the consumed ones (for a keyword with a tagged part — only the root — if the
      loop ran to the end of the file) -/
  sim : (isB = true ∨ ht = false ∨ e.toks[s'.pos]? = none) → ∀ ind ind', TSim c.lx (seg e s.pos s'.pos)
    (fieldsToks ind' fields ++ (OT.toksL ind' items ++ closeToks ind ctx.element isB info.endOff))

def TypePost (c : RCfg) (e : Env) (ty : Nat) (ctx : Ctx) (off : Nat) (s : PState) (v : Val) (s' : PState) : Prop :=
  ∃ info fields ch cm items isB its arms ht, v = .block ty info fields ch cm ∧
    NodeFacts c e ty ctx off s s' info fields ch cm items isB its arms ht

/-- what is known of the items `xs` one run of the tagged loop read -/
structure LoopRes (c : RCfg) (e : Env) (arms : List Arm) (pib : Bool) (s s' : PState) (xs : List OT) : Prop where
  fwd : Adv2 s s'
  wf : OT.wfL c arms pib xs
  lexv : OT.lexVL xs
  eokL : OT.endOkL xs
  /-- bookkeeping for the `/end` behind a trailing line comment -/
  nilpos : pib = true → xs = [] → s'.pos = s.pos
  lastCmt : pib = true → ∀ text off, xs.getLast? = some (.cmt text off) →
    s.pos < s'.pos ∧ ∃ t, e.toks[s'.pos - 1]? = some t ∧ t.ty = 6 ∧ t.text = text
  endnc : pib = true → ∀ t0, e.toks[s'.pos]? = some t0 → t0.ty ≠ 6
  idseq : (pib = true ∨ e.toks[s'.pos]? = none) → ∀ tail, NextRel (tailFrom e s'.pos) tail → FollowId tail →
    ∀ ind, OT.idSeqOkL c ind xs tail
  /-- if tokens remain behind the loop of a block (its `/end`): no offset has to be bumped; `alc` = the token in front
      of the loop's first item is a line comment -/
  nb : (pib = true → s'.pos < e.toks.size) → ∀ alc, (alc = true → pib = true ∧ 1 ≤ s.pos ∧
      ∃ tc, e.toks[s.pos - 1]? = some tc ∧ tc.ty = 6 ∧ isLineCmt tc.text = true) → OT.noBumpL alc xs
  sim : (pib = true ∨ e.toks[s'.pos]? = none) → ∀ ind, TSim c.lx (seg e s.pos s'.pos) (OT.toksL ind xs)

/-- non-repeating arms occur at most once -/
def NR (arms : List Arm) (P : List OT) : Prop :=
  ∀ j a, arms[j]? = some a → a.repeat_ = false → (P.filter (OT.isArm j)).length ≤ 1

/-- no `special` parser (A2ML, IF_DATA) returns a value: the loaded file has no such element.
    (`Canon` relates values of block types only; a hypothesis "the special parsers return well-formed values" of the
    same shape as `TypePost` cannot be satisfied by a parser that succeeds, because `TypePost` asks for a block type) -/
def NoSpecialOk (e : Env) : Prop :=
  ∀ ty ctx off s v s', e.table.lookup ty = some .special → e.special ty ctx off e.toks e.strict s ≠ .ok v s'

section
variable (e : Env) (lx : LexEnv) (X : Array PTok)

def TypeGoal (fuel : Nat) : Prop :=
  ∀ ty ctx off s v s', parseType fuel ty ctx off e s = .ok v s' → ctx.fileid = 0 →
    TypePost (mkC e lx X s.ver) e ty ctx off s v s'

def TaggedGoal (fuel : Nat) : Prop :=
  ∀ ctx arms pib ch cm s ch' cmR s', parseTagged fuel ctx arms pib ch cm e s = .ok (ch', cmR) s' →
    ctx.fileid = 0 → ArmsOk e arms →
    ∀ P sub R, LInv e arms P ch sub cm R s.seqId → NR arms P →
    ∃ xs sub' cm' R', cmR = cm'.reverse ∧ LInv e arms (P ++ xs) ch' sub' cm' R' s'.seqId ∧ NR arms (P ++ xs) ∧
      LoopRes (mkC e lx X s.ver) e arms pib s s' xs

end

theorem normElem_idem (v : Val) : normElem (normElem v) = normElem v := by cases v <;> rfl

theorem normField_idem (v : Val) : normField (normField v) = normField v := by
  cases v with
  | arr vs => simp [normField, normElem_idem]
  | seq vs => simp [normField, normElem_idem]
  | block _ _ _ _ _ => rfl
  | ident _ _ => rfl
  | str _ _ => rfl
  | int _ _ _ _ => rfl
  | dbl _ _ => rfl
  | enum _ _ => rfl

theorem elemLex_normElem {v : Val} (h : ElemLex v) : ElemLex (normElem v) := by cases v <;> exact h

theorem fieldLex_normField {v : Val} (h : FieldLex v) : FieldLex (normField v) := by
  cases v with
  | arr vs =>
    intro x hx
    obtain ⟨y, hy, rfl⟩ := List.mem_map.1 hx
    exact elemLex_normElem (h y hy)
  | seq vs =>
    intro x hx
    obtain ⟨y, hy, rfl⟩ := List.mem_map.1 hx
    exact elemLex_normElem (h y hy)
  | block _ _ _ _ _ => exact h
  | ident _ _ => exact h
  | str _ _ => exact h
  | int _ _ _ _ => exact h
  | dbl _ _ => exact h
  | enum _ _ => exact h

theorem map_normField_idem (fs : List Val) : (fs.map normField).map normField = fs.map normField := by
  simp [normField_idem]

theorem armB_block {tbl : Table} {a : Arm} {isB : Bool} {its : List ItemTy} {arms : List Arm} {ht : Bool}
    (h : armB tbl a = true) (hl : tbl.lookup a.ty = some (.block isB its arms ht)) :
    a.tag ≠ noSym ∧ isB = a.block ∧ (isB = false → ht = false) := by
  unfold armB at h
  rw [hl] at h
  simp only [Bool.and_eq_true, bne_iff_ne, ne_eq, beq_iff_eq, Bool.or_eq_true, Bool.not_eq_true'] at h
  refine ⟨h.1, h.2.1, fun hb => ?_⟩
  rcases h.2.2 with h' | h'
  · rw [hb] at h'; cases h'
  · exact h'

end A2l.Tree
