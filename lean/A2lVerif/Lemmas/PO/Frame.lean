import A2lVerif.Lemmas.PO.Hyps
/-! # C02 / C01 gap: ids are only consumed and the file version stays, also when an element parser fails

Needed for the greedy sequence loop: the state after a failed attempt is kept (apart from the cursor). -/
namespace A2l.Tree
open A2l.G A2l.Sc

/-- in every outcome that has a state: ids were only consumed, the version is unchanged -/
def Framed {α} (m : PM α) (e : Env) : Prop :=
  ∀ s, match m e s with
    | .ok _ s1 => s.seqId ≤ s1.seqId ∧ s1.ver = s.ver
    | .err _ s1 => s.seqId ≤ s1.seqId ∧ s1.ver = s.ver
    | _ => True

theorem Framed.ok {α} {m : PM α} {e : Env} (h : Framed m e) {s : PState} {a : α} {s1 : PState} (h1 : m e s = .ok a s1) :
    s.seqId ≤ s1.seqId ∧ s1.ver = s.ver := by
  have := h s; rw [h1] at this; exact this

theorem Framed.err {α} {m : PM α} {e : Env} (h : Framed m e) {s : PState} {d : Diag} {s1 : PState}
    (h1 : m e s = .err d s1) : s.seqId ≤ s1.seqId ∧ s1.ver = s.ver := by
  have := h s; rw [h1] at this; exact this

theorem Framed.pure {α} (a : α) (e : Env) : Framed (Pure.pure a : PM α) e := fun _ => ⟨Nat.le_refl _, rfl⟩
theorem Framed.fail {α} (k : DK) (e : Env) : Framed (A2l.Tree.fail k : PM α) e := fun _ => ⟨Nat.le_refl _, rfl⟩
theorem Framed.panic {α} (e : Env) : Framed (A2l.Tree.panic : PM α) e := fun _ => trivial
theorem Framed.outOfFuel {α} (e : Env) : Framed (A2l.Tree.outOfFuel : PM α) e := fun _ => trivial

theorem Framed.bind {α β} {m : PM α} {f : α → PM β} {e : Env} (h1 : Framed m e) (h2 : ∀ a, Framed (f a) e) :
    Framed (m >>= f) e := by
  intro s
  rw [bind_def]
  have a1 := h1 s
  cases hm : m e s with
  | ok a s1 =>
    rw [hm] at a1
    dsimp only
    have a2 := h2 a s1
    cases hf : f a e s1 with
    | ok b s2 => rw [hf] at a2; exact ⟨Nat.le_trans a1.1 a2.1, by rw [a2.2, a1.2]⟩
    | err d s2 => rw [hf] at a2; exact ⟨Nat.le_trans a1.1 a2.1, by rw [a2.2, a1.2]⟩
    | panic => trivial
    | fuel => trivial
  | err d s1 => rw [hm] at a1; exact a1
  | panic => trivial
  | fuel => trivial

theorem Framed.attempt {α} {m : PM α} {e : Env} (h : Framed m e) : Framed (A2l.Tree.attempt m) e := by
  intro s
  unfold A2l.Tree.attempt
  have a1 := h s
  cases hm : m e s with
  | ok a s1 => rw [hm] at a1; exact a1
  | err d s1 => rw [hm] at a1; exact a1
  | panic => trivial
  | fuel => trivial

theorem Framed.ite {α} {p : Prop} [Decidable p] {a b : PM α} {e : Env} (h1 : Framed a e) (h2 : Framed b e) :
    Framed (if p then a else b) e := by
  split
  · exact h1
  · exact h2

theorem Framed.getEnv_bind {β} {f : Env → PM β} {e : Env} (h : Framed (f e) e) : Framed (getEnv >>= f) e := h
theorem Framed.getState_bind {β} {f : PState → PM β} {e : Env} (h : ∀ s0, Framed (f s0) e) : Framed (getState >>= f) e :=
  fun s => h s s
theorem Framed.peekToken_bind {β} {f : Option PTok → PM β} {e : Env} (h : ∀ o, Framed (f o) e) :
    Framed (peekToken >>= f) e := fun s => h _ s
theorem Framed.getTokenpos_bind {β} {f : Nat → PM β} {e : Env} (h : ∀ p, Framed (f p) e) :
    Framed (getTokenpos >>= f) e := fun s => h _ s

theorem Framed.modify {g : PState → PState} (e : Env) (hg : ∀ s, s.seqId ≤ (g s).seqId ∧ (g s).ver = s.ver) :
    Framed (modifyState g) e := fun s => hg s

theorem Framed.setTokenpos (p : Nat) (e : Env) : Framed (setTokenpos p) e :=
  Framed.modify e (fun _ => ⟨Nat.le_refl _, rfl⟩)

theorem Framed.getNextId (e : Env) : Framed getNextId e := fun _ => ⟨Nat.le_succ _, rfl⟩

theorem Framed.getToken (ctx : Ctx) (e : Env) : Framed (getToken ctx) e := by
  intro s
  rw [getToken_eval]
  cases e.toks[s.pos]? <;> exact ⟨Nat.le_refl _, rfl⟩

theorem Framed.logWarning (k : DK) (e : Env) : Framed (logWarning k) e := fun _ => ⟨Nat.le_refl _, rfl⟩

theorem Framed.errorOrLog (k : DK) (e : Env) : Framed (errorOrLog k) e := by
  intro s
  have h : A2l.Tree.errorOrLog k e s =
      (if e.strict = true then A2l.Tree.fail k else A2l.Tree.logWarning k : PM Unit) e s := rfl
  rw [h]
  cases e.strict
  · exact ⟨Nat.le_refl _, rfl⟩
  · exact ⟨Nat.le_refl _, rfl⟩

theorem Framed.getLineOffset (e : Env) : Framed getLineOffset e := by
  intro s
  rcases getLineOffset_cases e s with h | ⟨n, h⟩
  · rw [h]; trivial
  · rw [h]; exact ⟨Nat.le_refl _, rfl⟩

theorem Framed.expectTokenAux (ctx : Ctx) (ty : Nat) (e : Env) : ∀ fuel, Framed (expectTokenAux ctx ty fuel) e
  | 0 => by rw [A2l.Tree.expectTokenAux]; exact Framed.outOfFuel e
  | fuel + 1 => by
    rw [expectTokenAux_succ]
    refine Framed.bind (Framed.getToken ctx e) (fun t => ?_)
    exact Framed.ite (Framed.expectTokenAux ctx ty e fuel) (Framed.ite (Framed.fail _ e) (Framed.pure _ e))

theorem Framed.expectToken (ctx : Ctx) (ty : Nat) (e : Env) : Framed (expectToken ctx ty) e := by
  unfold A2l.Tree.expectToken
  exact Framed.getEnv_bind (Framed.expectTokenAux ctx ty e _)

theorem Framed.getIdentifier (ctx : Ctx) (e : Env) : Framed (getIdentifier ctx) e := by
  unfold A2l.Tree.getIdentifier
  refine Framed.bind (Framed.expectToken ctx 0 e) (fun t => ?_)
  cases t.text with
  | nil => exact Framed.panic e
  | cons c cs =>
    dsimp only
    exact Framed.ite (Framed.bind (Framed.errorOrLog _ e) (fun _ => Framed.pure _ e)) (Framed.pure _ e)

theorem Framed.getString (ctx : Ctx) (e : Env) : Framed (getString ctx) e := by
  unfold A2l.Tree.getString
  refine Framed.peekToken_bind (fun o => ?_)
  split
  · exact Framed.bind (Framed.getIdentifier ctx e) (fun _ => Framed.bind (Framed.errorOrLog _ e) (fun _ => Framed.pure _ e))
  · refine Framed.bind (Framed.expectToken ctx 4 e) (fun t => ?_)
    split
    · exact Framed.pure _ e
    · exact Framed.panic e

theorem Framed.getStringMaxlen (ctx : Ctx) (n : Nat) (e : Env) : Framed (getStringMaxlen ctx n) e := by
  unfold A2l.Tree.getStringMaxlen
  refine Framed.bind (Framed.getString ctx e) (fun t => ?_)
  dsimp only
  exact Framed.ite (Framed.bind (Framed.errorOrLog _ e) (fun _ => Framed.pure _ e)) (Framed.pure _ e)

theorem Framed.getInteger (ctx : Ctx) (w : Nat) (e : Env) : Framed (getInteger ctx w) e := by
  unfold A2l.Tree.getInteger
  refine Framed.bind (Framed.expectToken ctx 5 e) (fun t => ?_)
  split
  · exact Framed.pure _ e
  · exact Framed.fail _ e

theorem Framed.getDouble (ctx : Ctx) (e : Env) : Framed (getDouble ctx) e := by
  unfold A2l.Tree.getDouble
  refine Framed.bind (Framed.expectToken ctx 5 e) (fun t => ?_)
  split
  · exact Framed.pure _ e
  · exact Framed.fail _ e

theorem Framed.parseEnum (items : List EnumItem) (ctx : Ctx) (e : Env) : Framed (parseEnum items ctx) e := by
  unfold A2l.Tree.parseEnum
  refine Framed.bind (Framed.getIdentifier ctx e) (fun name => ?_)
  refine Framed.getEnv_bind (Framed.getState_bind (fun s0 => ?_))
  dsimp only
  generalize lookupEnumItem items _ = o
  cases o with
  | none => exact Framed.fail _ e
  | some it =>
    dsimp only
    refine Framed.ite (Framed.bind (Framed.errorOrLog _ e) (fun _ => ?_)) ?_
    · exact Framed.ite (Framed.bind (Framed.logWarning _ e) (fun _ => Framed.pure _ e)) (Framed.pure _ e)
    · exact Framed.ite (Framed.bind (Framed.logWarning _ e) (fun _ => Framed.pure _ e)) (Framed.pure _ e)

theorem Framed.withOff {α} {m : PM α} {g : α → Nat → Val} {e : Env} (h : Framed m e) :
    Framed (m >>= fun v => A2l.Tree.getLineOffset >>= fun off => Pure.pure (g v off)) e :=
  Framed.bind h (fun _ => Framed.bind (Framed.getLineOffset e) (fun _ => Framed.pure _ e))

/-- scalar parameters -/
theorem Framed.parseItem_scalar (e : Env) (fuel : Nat) (ctx : Ctx) (it : ItemTy) (hit : scalarTyB e.table it = true) :
    Framed (parseItem fuel ctx it) e := by
  cases fuel with
  | zero => rw [parseItem]; exact Framed.outOfFuel e
  | succ fuel =>
    cases it with
    | ident => rw [parseItem]; exact Framed.withOff (Framed.getIdentifier ctx e)
    | string => rw [parseItem]; exact Framed.withOff (Framed.getString ctx e)
    | double => rw [parseItem]; exact Framed.withOff (Framed.getDouble ctx e)
    | float => rw [parseItem]; exact Framed.withOff (Framed.getDouble ctx e)
    | int w =>
      rw [parseItem]
      exact Framed.bind (Framed.getInteger ctx w e) (fun _ => Framed.bind (Framed.getLineOffset e) (fun _ => Framed.pure _ e))
    | strMax n => rw [parseItem]; exact Framed.bind (Framed.getStringMaxlen ctx n e) (fun _ => Framed.pure _ e)
    | enumRef ty =>
      rw [parseItem]
      refine Framed.getEnv_bind ?_
      split
      · exact Framed.withOff (Framed.parseEnum _ ctx e)
      · exact Framed.panic e
    | structRef ty => simp [scalarTyB] at hit
    | arr of n => simp [scalarTyB] at hit
    | seq of stop => simp [scalarTyB] at hit

/-- lists of scalar parameters -/
theorem Framed.parseItems_scalars (e : Env) (ctx : Ctx) : ∀ (fuel : Nat) (its : List ItemTy),
    (∀ it ∈ its, scalarTyB e.table it = true) → Framed (parseItems fuel ctx its) e
  | 0, _, _ => by rw [parseItems]; exact Framed.outOfFuel e
  | fuel + 1, [], _ => by rw [parseItems]; exact Framed.pure _ e
  | fuel + 1, it :: its, h => by
    rw [parseItems]
    refine Framed.bind (Framed.parseItem_scalar e fuel ctx it (h it List.mem_cons_self)) (fun _ => ?_)
    exact Framed.bind (Framed.parseItems_scalars e ctx fuel its (fun x hx => h x (List.mem_cons_of_mem _ hx)))
      (fun _ => Framed.pure _ e)

/-- elements of arrays and sequences: scalars and structs of scalars -/
theorem Framed.parseItem_elem (e : Env) (fuel : Nat) (ctx : Ctx) (it : ItemTy) (hit : elemTyB e.table it = true) :
    Framed (parseItem fuel ctx it) e := by
  by_cases hst : ∃ ty, it = .structRef ty
  · obtain ⟨ty, rfl⟩ := hst
    simp only [elemTyB] at hit
    obtain ⟨sits, hl, -, hall⟩ := simpleStruct_of_B hit
    cases fuel with
    | zero => rw [parseItem]; exact Framed.outOfFuel e
    | succ fuel =>
      rw [parseItem]
      cases fuel with
      | zero => rw [parseType]; exact Framed.outOfFuel e
      | succ fuel =>
        rw [parseType]
        refine Framed.getEnv_bind ?_
        rw [hl]
        dsimp only
        refine Framed.bind (Framed.getNextId e) (fun uid => ?_)
        refine Framed.bind (Framed.parseItems_scalars e ctx fuel sits hall) (fun fields => ?_)
        simp only [Bool.false_eq_true, if_false, List.zip_nil_left, List.foldlM_nil]
        exact Framed.pure _ e
  · have : scalarTyB e.table it = true := by
      cases it <;> first | exact hit | exact absurd ⟨_, rfl⟩ hst
    exact Framed.parseItem_scalar e fuel ctx it this

end A2l.Tree
