import A2lVerif.Lemmas.PO.Wf
/-! # C02 / C01 gap: the well-formedness predicates do not look at the line offsets the writer bumps (`OT.fixL`) -/
namespace A2l.Tree
open A2l.G A2l.Sc

theorem filter_isArm_fixL (j : Nat) : ∀ (xs : List OT) (alc : Bool),
    ((OT.fixL alc xs).filter (OT.isArm j)).length = (xs.filter (OT.isArm j)).length
  | [], _ => by simp [OT.fixL]
  | .cmt text off :: rest, alc => by
    simp only [OT.fixL, List.filter_cons, OT.isArm, Bool.false_eq_true, if_false]
    exact filter_isArm_fixL j rest _
  | .node arm tag blk ty so eo fields items :: rest, alc => by
    simp only [OT.fixL]
    by_cases hh : (arm == j) = true
    · rw [List.filter_cons_of_pos (by simpa [OT.isArm] using hh), List.filter_cons_of_pos (by simpa [OT.isArm] using hh)]
      simp only [List.length_cons, filter_isArm_fixL j rest false]
    · rw [List.filter_cons_of_neg (by simpa [OT.isArm] using hh), List.filter_cons_of_neg (by simpa [OT.isArm] using hh)]
      exact filter_isArm_fixL j rest false

theorem multOk_fixL {st : Bool} {arms : List Arm} {xs : List OT} (alc : Bool) (h : MultOk st arms xs) :
    MultOk st arms (OT.fixL alc xs) := by
  intro j a ha
  rw [filter_isArm_fixL]
  exact h j a ha

theorem map_pos_fixL (code : List CodeEntry) : ∀ (xs : List OT) (alc : Bool),
    (OT.fixL alc xs).map (OT.pos code) = xs.map (OT.pos code)
  | [], _ => by simp [OT.fixL]
  | .cmt text off :: rest, alc => by
    simp only [OT.fixL, List.map_cons, OT.pos, map_pos_fixL code rest]
  | .node arm tag blk ty so eo fields items :: rest, alc => by
    simp only [OT.fixL, List.map_cons, OT.pos, map_pos_fixL code rest]

theorem posSorted_iff_map (code : List CodeEntry) (l : List OT) :
    PosSorted code l ↔ ((l.map (OT.pos code)).filter Option.isSome).Pairwise (fun a b => a.getD 0 ≤ b.getD 0) := by
  unfold PosSorted
  rw [List.filter_map, List.pairwise_map]
  rfl

theorem posSorted_fixL {code : List CodeEntry} {xs : List OT} (alc : Bool) (h : PosSorted code xs) :
    PosSorted code (OT.fixL alc xs) := by
  rw [posSorted_iff_map] at h ⊢
  rw [map_pos_fixL]; exact h

mutual
theorem wf_fix_items (c : RCfg) : ∀ (o : OT) (arms : List Arm) (blk : Bool), OT.wfL c arms blk o.itemsOf →
    OT.wfL c arms blk (OT.fixL false o.itemsOf)
  | .node _ _ _ _ _ _ _ items, arms, blk, h => wfL_fixL c items false arms blk h
  | .cmt _ _, _, _, _ => by simp [OT.itemsOf, OT.fixL, OT.wfL]
/-- `OT.wfL` does not look at the offsets -/
theorem wfL_fixL (c : RCfg) : ∀ (xs : List OT) (alc : Bool) (parms : List Arm) (pib : Bool),
    OT.wfL c parms pib xs → OT.wfL c parms pib (OT.fixL alc xs)
  | [], _, _, _, _ => by simp [OT.fixL, OT.wfL]
  | .cmt text off :: rest, alc, parms, pib, h => by
    simp only [OT.wfL, OT.wf] at h
    simp only [OT.fixL, OT.wfL, OT.wf]
    exact ⟨h.1, wfL_fixL c rest _ parms pib h.2⟩
  | .node arm tag blk ty so eo fields items :: rest, alc, parms, pib, h => by
    simp only [OT.wfL] at h
    obtain ⟨hn, hr⟩ := h
    simp only [OT.wf] at hn
    obtain ⟨a, its, arms, ht, h1, h2, h3, h4, h5, h6, h7, h8, h9, h10, h11, h12, h13, h14⟩ := hn
    simp only [OT.fixL, OT.wfL]
    refine ⟨?_, wfL_fixL c rest false parms pib hr⟩
    simp only [OT.wf]
    refine ⟨a, its, arms, ht, h1, h2, h3, h4, h5, h6,
      (fun hb => ⟨by rw [hb, fixEo_kw]; exact (h7 hb).1, (h7 hb).2⟩), h8, h9, h10, h11, ?_, ?_, multOk_fixL false h14⟩
    · intro hht; rw [h12 hht]; simp [OT.fixL]
    · have := wf_fix_items c (.node arm tag blk ty so eo fields items) arms blk (by simpa [OT.itemsOf] using h13)
      simpa [OT.itemsOf] using this
end

mutual
theorem posDeep_fix_items (code : List CodeEntry) : ∀ (o : OT), OT.posDeepL code o.itemsOf →
    OT.posDeepL code (OT.fixL false o.itemsOf)
  | .node _ _ _ _ _ _ _ items, h => posDeepL_fixL code items false h
  | .cmt _ _, _ => by simp [OT.itemsOf, OT.fixL, OT.posDeepL]
/-- position order does not look at the offsets -/
theorem posDeepL_fixL (code : List CodeEntry) : ∀ (xs : List OT) (alc : Bool), OT.posDeepL code xs →
    OT.posDeepL code (OT.fixL alc xs)
  | [], _, _ => by simp [OT.fixL, OT.posDeepL]
  | .cmt text off :: rest, alc, h => by
    simp only [OT.posDeepL, OT.posDeep] at h
    simp only [OT.fixL, OT.posDeepL, OT.posDeep]
    exact ⟨trivial, posDeepL_fixL code rest _ h.2⟩
  | .node arm tag blk ty so eo fields items :: rest, alc, h => by
    simp only [OT.posDeepL, OT.posDeep] at h
    simp only [OT.fixL, OT.posDeepL, OT.posDeep]
    refine ⟨⟨posSorted_fixL false h.1.1, ?_⟩, posDeepL_fixL code rest false h.2⟩
    have := posDeep_fix_items code (.node arm tag blk ty so eo fields items) (by simpa [OT.itemsOf] using h.1.2)
    simpa [OT.itemsOf] using this
end

theorem posAll_fixL {code : List CodeEntry} {xs : List OT} (h : OT.posAll code xs) : OT.posAll code (OT.fixL false xs) :=
  ⟨posSorted_fixL false h.1, posDeepL_fixL code xs false h.2⟩

/-! ## no offset has to be bumped: every item behind a line comment starts on a new line -/

/-- every item that stands directly behind a line comment has a line break in front of it (`alc` = the item in front of
    the list is a line comment) -/
def OT.noBumpL : Bool → List OT → Prop
  | _, [] => True
  | alc, .cmt text off :: rest => (alc = true → 1 ≤ off) ∧ OT.noBumpL (isLineCommentText text) rest
  | alc, .node _ _ _ _ so _ _ items :: rest => (alc = true → 1 ≤ so) ∧ OT.noBumpL false items ∧ OT.noBumpL false rest

theorem bumpOff_eq {alc : Bool} {off : Nat} (h : alc = true → 1 ≤ off) : bumpOff alc off = off := by
  unfold bumpOff
  split
  · rename_i hh; have := h hh.1; omega
  · rfl

/-- the end offset of a loaded element is the one the writer uses: behind a `//` comment as last item the parser
    recorded an offset ≥ 1 (`OT.endOk`: the `/end` token stood on a later line), and otherwise the writer's
    `ends_in_line_comment` says "no" (`endsLC_fixL`: it is exact on lexable content) -/
theorem fixEo_of_endOk (blk : Bool) (eo : Nat) (fields : List Val) (items : List OT) (hf : ∀ f ∈ fields, FieldLex f)
    (hw : OT.lexWL items)
    (he : blk = true → ∀ text off, items.getLast? = some (.cmt text off) → isLineCmt text = true → 1 ≤ eo) :
    OT.fixEo blk eo fields (OT.fixL false items) = eo := by
  cases hl : OT.lastLC items with
  | false => exact fixEo_of_not_last_cmt blk eo fields items hf hw hl
  | true =>
    cases blk with
    | false => exact fixEo_kw
    | true =>
      unfold OT.lastLC at hl
      cases hg : items.getLast? with
      | none => rw [hg] at hl; cases hl
      | some x =>
        rw [hg] at hl
        cases x with
        | node _ _ _ _ _ _ _ _ => cases hl
        | cmt text off => exact fixEo_of_pos (he rfl text off hg hl)

mutual
theorem fix_noBump_items : ∀ (o : OT), OT.noBumpL false o.itemsOf → OT.lexWL o.itemsOf → OT.endOkL o.itemsOf →
    OT.fixL false o.itemsOf = o.itemsOf
  | .node _ _ _ _ _ _ _ items, h, hw, he => fixL_of_noBump items false h hw he
  | .cmt _ _, _, _, _ => by simp [OT.itemsOf, OT.fixL]
/-- then the writer's offsets are the loaded ones: no start offset is bumped (`OT.noBumpL`), and no end offset either
    (`fixEo_of_endOk`, for lexable items whose trailing line comments have a line break in front of `/end`) -/
theorem fixL_of_noBump : ∀ (xs : List OT) (alc : Bool), OT.noBumpL alc xs → OT.lexWL xs → OT.endOkL xs →
    OT.fixL alc xs = xs
  | [], _, _, _, _ => by simp [OT.fixL]
  | .cmt text off :: rest, alc, h, hw, he => by
    simp only [OT.noBumpL] at h
    simp only [OT.lexWL] at hw
    simp only [OT.endOkL] at he
    simp only [OT.fixL, bumpOff_eq h.1, fixL_of_noBump rest _ h.2 hw.2 he.2]
  | .node arm tag blk ty so eo fields items :: rest, alc, h, hw, he => by
    simp only [OT.noBumpL] at h
    simp only [OT.lexWL, OT.lexW] at hw
    simp only [OT.endOkL, OT.endOk] at he
    have h1 := fix_noBump_items (.node arm tag blk ty so eo fields items) (by simpa [OT.itemsOf] using h.2.1)
      (by simpa [OT.itemsOf] using hw.1.2.2.2.1) (by simpa [OT.itemsOf] using he.1.2)
    simp only [OT.itemsOf] at h1
    have h2 := fixEo_of_endOk blk eo fields items hw.1.2.2.1 hw.1.2.2.2.1 he.1.1
    rw [h1] at h2
    simp only [OT.fixL, bumpOff_eq h.1, h1, fixL_of_noBump rest false h.2.2 hw.2 he.2, h2]
end

/-! ## the last root item is a block -/

def OT.isBlk : OT → Bool
  | .node _ _ blk _ _ _ _ _ => blk
  | .cmt _ _ => false

/-- the last item is a block (`/begin … /end`): the file does not end in a keyword parameter -/
def LastIsBlock (items : List OT) : Prop := ∀ o, items.getLast? = some o → o.isBlk = true

theorem toks_ne_nil (o : OT) (ind : Nat) : o.toks ind ≠ [] := by
  obtain ⟨w, rest, h, -⟩ := toks_head_off o ind
  rw [h]; exact List.cons_ne_nil _ _

theorem toksL_ne_nil {xs : List OT} (h : xs ≠ []) (ind : Nat) : OT.toksL ind xs ≠ [] := by
  cases xs with
  | nil => exact absurd rfl h
  | cons x xs =>
    simp only [OT.toksL]
    intro h0
    exact toks_ne_nil x ind (List.append_eq_nil_iff.1 h0).1

theorem fixL_eq_nil {xs : List OT} {alc : Bool} (h : OT.fixL alc xs = []) : xs = [] := by
  cases xs with
  | nil => rfl
  | cons x xs => cases x <;> simp [OT.fixL] at h

theorem kwNextL_fixL (ind : Nat) : ∀ (xs : List OT) (alc : Bool), LastIsBlock xs → OT.kwNextL ind (OT.fixL alc xs) []
  | [], _, _ => by simp [OT.fixL, OT.kwNextL]
  | .cmt text off :: rest, alc, h => by
    simp only [OT.fixL, OT.kwNextL, OT.kwNext, true_and]
    refine kwNextL_fixL ind rest _ ?_
    intro o ho
    cases rest with
    | nil => simp at ho
    | cons y ys => exact h o (by rw [List.getLast?_cons_cons]; exact ho)
  | .node arm tag blk ty so eo fields items :: rest, alc, h => by
    simp only [OT.fixL, OT.kwNextL, OT.kwNext]
    refine ⟨?_, ?_⟩
    · intro hb
      cases rest with
      | nil =>
        have := h _ rfl
        simp only [OT.isBlk] at this
        rw [hb] at this; cases this
      | cons y ys =>
        simp only [List.append_nil]
        exact toksL_ne_nil (fun h0 => by have := fixL_eq_nil h0; cases this) ind
    · refine kwNextL_fixL ind rest false ?_
      intro o ho
      cases rest with
      | nil => simp at ho
      | cons y ys => exact h o (by rw [List.getLast?_cons_cons]; exact ho)

end A2l.Tree
