import A2lVerif.Lemmas.PO.ParseFile
import A2lVerif.Lemmas.PO.Fix
import A2lVerif.Lemmas.PO.Congr
import A2lVerif.Lemmas.PO.SeqOk
/-! # C02 / C01 gap: from `parse_file`'s result to the hypotheses of `save_reload_stable_partial` -/
namespace A2l.Tree
open A2l.G A2l.Sc

mutual
theorem lexW_of (c : RCfg) : ∀ (o : OT) (parms : List Arm) (pib : Bool), o.wf c parms pib → o.lexV → o.lexW
  | .cmt _ _, _, _, _, h => by simpa [OT.lexV, OT.lexW] using h
  | .node arm tag blk ty so eo fields items, parms, pib, hw, hv => by
    simp only [OT.wf] at hw
    obtain ⟨a, its, arms, ht, -, -, -, -, -, -, h7, -, -, -, -, h12, h13, -⟩ := hw
    simp only [OT.lexV] at hv
    simp only [OT.lexW]
    exact ⟨hv.1, hv.2.1, hv.2.2.1, lexWL_of c items arms blk h13 hv.2.2.2, fun hb => h12 (h7 hb).2⟩
theorem lexWL_of (c : RCfg) : ∀ (xs : List OT) (parms : List Arm) (pib : Bool), OT.wfL c parms pib xs → OT.lexVL xs →
    OT.lexWL xs
  | [], _, _, _, _ => by simp [OT.lexWL]
  | x :: xs, parms, pib, hw, hv => by
    simp only [OT.wfL] at hw
    simp only [OT.lexVL] at hv
    simp only [OT.lexWL]
    exact ⟨lexW_of c x parms pib hw.1 hv.1, lexWL_of c xs parms pib hw.2 hv.2⟩
end

theorem headOk_fixL {c : RCfg} {items : List OT} (hst : c.e.strict = true) (h : HeadOk c items) :
    HeadOk c (OT.fixL false items) := by
  cases items with
  | nil => simp [HeadOk] at h
  | cons o more =>
    cases o with
    | cmt _ _ => simp [HeadOk] at h
    | node i tag blk ty so eo fields its =>
      simp only [HeadOk, hst, if_true] at h
      obtain ⟨major, minor, ⟨vi, vtag, vso, h1, o1, w1, h2, o2, w2, heq, hsym⟩, hver⟩ := h
      injection heq with e1 e2 e3 e4 e5 e6 e7 e8
      subst e1 e2 e3 e4 e5 e6 e7 e8
      simp only [OT.fixL, HeadOk, hst, if_true]
      exact ⟨major, minor, ⟨i, tag, bumpOff false so, h1, o1, w1, h2, o2, w2, rfl, hsym⟩, hver⟩

theorem root_no_cmt {c : RCfg} {parms : List Arm} : ∀ (xs : List OT), OT.wfL c parms false xs → ∀ x ∈ xs, x.isCmt = false
  | [], _, _, hx => by simp at hx
  | y :: ys, h, x, hx => by
    simp only [OT.wfL] at h
    rcases List.mem_cons.1 hx with rfl | hx
    · cases x with
      | cmt _ _ => simp [OT.wf] at h
      | node _ _ _ _ _ _ _ _ => rfl
    · exact root_no_cmt ys h.2 x hx

section
variable {e : Env} {lx : LexEnv}

/-- **`SeqStops` in the written stream**, derived: sequences of identifiers from the input (`FilePost.idseq`), the others
    from the table hypothesis `seqTblOk` -/
theorem seqOk_of_filePost {X0 : Array PTok} {rarms : List Arm} {v : Val} {items : List OT} {ver : Nat}
    (htbl : seqTblOk e.table = true) (fp : FilePost e lx X0 rarms v items ver) (X : Array PTok) :
    OT.seqOkL (mkC e lx X ver) 0 (OT.fixL false items) [] := by
  have h1 := seqOkL_of (mkC e lx X ver) htbl items 0 rarms false [] (wfL_X X0 X items rarms false fp.wf)
    (idSeqOkL_X X0 X items 0 [] fp.idseq) (by intro w hw; simp [nextNC] at hw)
  exact seqOkL_fixL _ items false 0 [] [] rfl h1

/-- **`Writable`** for the offsets the writer uses, from what `parse_file` established and the named obstacles:
    position order (`hpos`), the file does not end in a keyword (`hlast`); `hseq` (sequences end where they should in the
    written stream) is derived by `seqOk_of_filePost` -/
theorem writable_of_filePost (hst : e.strict = true) {X0 : Array PTok} {rarms : List Arm} {v : Val} {items : List OT}
    {ver : Nat} (hroot : RootOk e rarms) (fp : FilePost e lx X0 rarms v items ver) (X : Array PTok)
    (hpos : OT.posAll e.code items)
    (hseq : OT.seqOkL (mkC e lx X ver) 0 (OT.fixL false items) [])
    (hlast : LastIsBlock items) :
    Writable (mkC e lx X ver) rarms (OT.fixL false items) := by
  have hwf : OT.wfL (mkC e lx X ver) rarms false (OT.fixL false items) :=
    wfL_fixL _ items false rarms false (wfL_X X0 X items rarms false fp.wf)
  have hpa := posAll_fixL hpos
  refine ⟨hroot.root, ?_, ?_, hpa.1, ?_⟩
  · intro ver' hv
    have : ver' = ver := hv hst
    subst this
    exact OT.okL_of_wf (mkC e lx X ver') _ 0 rarms false [] hwf hseq hpa.2 (kwNextL_fixL 0 items false hlast)
  · show MultOk e.strict rarms _
    rw [hst]; exact multOk_fixL false fp.mult
  · have h1 : HeadOk (mkC e lx X ver) items := by
      have := fp.head
      cases items with
      | nil => simp [HeadOk] at this
      | cons o more =>
        cases o with
        | cmt _ _ => simp [HeadOk] at this
        | node _ _ _ _ _ _ _ _ => exact this
    exact headOk_fixL hst h1

/-- **lexability** of what the writer emits, from the token shapes -/
theorem streamLex_of_filePost {X0 : Array PTok} {rarms : List Arm} {v : Val} {items : List OT} {ver : Nat}
    (fp : FilePost e lx X0 rarms v items ver) :
    StreamLex none (OT.toksL 0 (OT.fixL false items)) := by
  refine streamLex_of_lexW items (lexWL_of _ items rarms false fp.wf fp.lexv) ?_
  intro text off hl
  have hmem : OT.cmt text off ∈ items := List.mem_of_getLast? hl
  have := root_no_cmt items fp.wf _ hmem
  simp [OT.isCmt] at this

end
end A2l.Tree
