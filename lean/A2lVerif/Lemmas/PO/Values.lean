import A2lVerif.Lemmas.PO.Basic
/-! # C02: the value of a token, defined on token arrays independently of the parser -/
namespace A2l.Tree
open A2l.G A2l.Sc

instance (cs : List Char) : Decidable (IsHexLit cs) := by
  unfold IsHexLit
  split <;> infer_instance

/-- **the value of a token**: kind and text for `/begin`, `/end`, identifiers (tags, names, enum values) and comments;
    the unescaped value for strings; for numbers the reader's integer value of the literal (`literalValue`: hex = the
    unsigned magnitude), its notation (hex or not) and the float the codec makes of it -/
inductive TV where
  | ident (text : List Char)
  | begin_
  | end_
  | str (val : Out (List Char))
  | num (lit : Option Int) (hex : Bool) (fl : Option (List Char))
  | cmt (text : List Char)
  | other (ty : Nat)

def tokVal (t : PTok) : TV :=
  match t.ty with
  | 0 => .ident t.text
  | 1 => .begin_
  | 2 => .end_
  | 4 => .str (unescape (stripQuotes t.text))
  | 5 => .num (literalValue t.text) (decide (IsHexLit t.text)) t.fl
  | 6 => .cmt t.text
  | n => .other n

/-- the value sequence of a token array -/
def valuesOf (toks : Array PTok) : List TV := toks.toList.map tokVal

/-- two token values are the same: equal, or numbers with the same integer value and notation, or numbers with the
    same float value (an integer parameter is compared as an integer, a float parameter as a float) -/
def TV.same : TV → TV → Prop
  | .num l1 h1 f1, .num l2 h2 f2 => (l1 = l2 ∧ h1 = h2 ∧ l1 ≠ none) ∨ (f1 = f2 ∧ f1 ≠ none)
  | a, b => a = b

def TV.isCmt : TV → Bool
  | .cmt _ => true
  | _ => false

/-- `out` is `inp` with some comments deleted, token by token the same value -/
inductive Pres : List TV → List TV → Prop
  | nil : Pres [] []
  | drop (c : TV) (xs ys : List TV) (hc : c.isCmt = true) (h : Pres xs ys) : Pres (c :: xs) ys
  | keep (x y : TV) (xs ys : List TV) (hxy : TV.same x y) (h : Pres xs ys) : Pres (x :: xs) (y :: ys)

/-! ## integers -/

theorem parseInt_flag {t : IntTy} {cs : List Char} {v : Int} {h : Bool} (hp : parseInt t cs = some (v, h)) :
    h = true ↔ IsHexLit cs := by
  by_cases hh : IsHexLit cs
  · obtain ⟨x, rest, rfl, hx, hr⟩ := (isHexLit_iff _).1 hh
    rw [parseInt_hex_spec t x rest hx hr] at hp
    constructor
    · intro _; exact hh
    · intro _
      split at hp
      · split at hp
        · cases hp; rfl
        · cases hp
      · cases hp
  · rw [parseInt_nonhex t cs hh] at hp
    constructor
    · intro h1
      subst h1
      cases hd : parseDec t cs with
      | none => rw [hd] at hp; cases hp
      | some w => rw [hd] at hp; cases hp
    · intro h1; exact absurd h1 hh

theorem wrapTo_inj (t : IntTy) (n m : Nat) (hn : n < 2 ^ t.bits) (hm : m < 2 ^ t.bits) (h : wrapTo t n = wrapTo t m) :
    n = m := by
  unfold wrapTo at h
  rw [Nat.mod_eq_of_lt hn, Nat.mod_eq_of_lt hm] at h
  cases t <;> simp [IntTy.bits, IntTy.signed] at h hn hm ⊢ <;> (try split at h) <;> (try split at h) <;> omega

/-- **an accepted integer literal and what the writer prints for it have the same value and the same notation** -/
theorem int_value_preserved {t : IntTy} {cs : List Char} {v : Int} {h : Bool} (hp : parseInt t cs = some (v, h)) :
    literalValue (printInt t v h) = literalValue cs ∧ (IsHexLit (printInt t v h) ↔ IsHexLit cs) ∧
      literalValue cs ≠ none := by
  have hr := parseInt_inRange t cs v h hp
  have rt := int_roundtrip t v h hr
  have f1 := parseInt_flag hp
  have f2 := parseInt_flag rt
  refine ⟨?_, by rw [← f1, ← f2], ?_⟩
  · cases h with
    | false =>
      rw [(int_faithful_dec t cs v hp).1, (int_faithful_dec t _ v rt).1]
    | true =>
      obtain ⟨n, h1, h2, h3, -, -⟩ := int_faithful_hex t cs v hp
      obtain ⟨m, g1, g2, g3, -, -⟩ := int_faithful_hex t _ v rt
      have := wrapTo_inj t n m h2 g2 (by rw [← h3, ← g3])
      rw [h1, g1, this]
  · cases h with
    | false => rw [(int_faithful_dec t cs v hp).1]; simp
    | true =>
      obtain ⟨n, h1, -⟩ := int_faithful_hex t cs v hp
      rw [h1]; simp

/-! ## from token correspondence to values -/

theorem stripQuotes_quoted (body : List Char) : stripQuotes ('"' :: (body ++ ['"'])) = body := by
  simp [stripQuotes]

/-- corresponding tokens have the same value (the float codec being idempotent on the token's float text) -/
theorem TokSim.same {lx : LexEnv} {t : PTok} {w : WTok} (h : TokSim lx t w)
    (hfl : t.ty = 5 → ∀ r, t.fl = some r → lx.flOf r = some r) (line : Nat) :
    TV.same (tokVal t) (tokVal (w.toPTok lx line)) := by
  cases h with
  | ident h0 hw htext => simp [tokVal, WTok.toPTok, h0, hw, htext, TV.same]
  | begin_ h0 hw htext => simp [tokVal, WTok.toPTok, h0, hw, TV.same]
  | end_ h0 hw htext => simp [tokVal, WTok.toPTok, h0, hw, TV.same]
  | str str h0 hw hval htext =>
    simp only [tokVal, WTok.toPTok, h0, hw, htext, hval, stripQuotes_quoted, unescape_escape str, TV.same]
  | int ity v hex h0 hw hval htext =>
    obtain ⟨a1, a2, a3⟩ := int_value_preserved hval
    simp only [tokVal, WTok.toPTok, h0, hw, htext, TV.same]
    left
    refine ⟨a1.symm, ?_, a3⟩
    by_cases hh : IsHexLit t.text
    · simp [hh, a2.2 hh]
    · have hh' : ¬ IsHexLit (printInt ity v hex) := fun h' => hh (a2.1 h')
      simp [hh, hh']
  | dbl r h0 hw hval htext =>
    simp only [tokVal, WTok.toPTok, h0, hw, htext, TV.same, if_true]
    right
    exact ⟨by rw [hval, hfl h0 r hval], by rw [hval]; simp⟩
  | cmt h0 hw htext => simp [tokVal, WTok.toPTok, h0, hw, htext, TV.same]

/-- **content preservation at token level**: if `ts` corresponds to the written stream `ws` then the values of the
    parser tokens of `ws` (whatever their line numbers) are those of `ts` with the skipped comments deleted -/
theorem TSim.pres {lx : LexEnv} {ts : List PTok} {ws : List WTok} (h : TSim lx ts ws)
    (hfl : ∀ t ∈ ts, t.ty = 5 → ∀ r, t.fl = some r → lx.flOf r = some r) :
    ∀ line, Pres (ts.map tokVal) ((mkToksFrom lx line ws).map tokVal) := by
  induction h with
  | nil => intro _; exact Pres.nil
  | skip t ts ws h6 _ ih =>
    intro line
    refine Pres.drop _ _ _ ?_ (ih (fun x hx => hfl x (List.mem_cons_of_mem _ hx)) line)
    simp [tokVal, h6, TV.isCmt]
  | tok t w ts ws h1 _ ih =>
    intro line
    simp only [List.map_cons, mkToksFrom]
    exact Pres.keep _ _ _ _ (h1.same (hfl t List.mem_cons_self) _) (ih (fun x hx => hfl x (List.mem_cons_of_mem _ hx)) _)

end A2l.Tree
