import A2lVerif.Lemmas.PO.Compose
/-! # C02: counterexamples (model level, small tables, strict mode) that show which hypotheses are needed -/
namespace A2l.Tree.Counter2
open A2l.G A2l.Sc

def okB : PRes Val → Bool
  | .ok _ _ => true
  | _ => false

def errKind : PRes Val → Option DK
  | .err d _ => some d.kind
  | _ => none

/-! ## a sequence that ends for a reason other than the kind of the next token (`Obstacles.seq`)

`K 1 2 300` where `K` takes a sequence of `u8` followed by one `u16`: the greedy sequence loop stops at `300` because
`get_integer::<u8>` rejects it (the error is swallowed: `sequence_item.is_err()`), the `u16` parameter then reads it.
The strict load succeeds, the written tokens are the same, the reload succeeds — but `SeqStops` (the condition under
which Lemmas/RT proves that a written sequence is read back) is false: the token behind the sequence is a Number token,
the kind that starts an element. `Obstacles.seq` is a hypothesis of the PROOF of the round trip, not of the round trip. -/

/-- root keyword with the version keyword `V <u16> <u16>` and a keyword `K (<u8>)* <u16>` -/
def sTbl : Table :=
  [⟨0, .block false [] [⟨1, 2, false, false, false, 0, 0⟩, ⟨0, 1, false, true, false, 0, 0⟩] true⟩,
   ⟨1, .block false [.seq (.int 4) [], .int 5] [] false⟩, ⟨2, .block false [.int 5, .int 5] [] false⟩]
def sEnv (toks : Array PTok) : Env :=
  { toks := toks, strict := true, table := sTbl, known := ⟨0, 2, 1⟩, symbols := #["K", "V"] }
/-- tokens of `V 1 71 K 1 2 300` -/
def sToks : Array PTok :=
  #[⟨0, ['V'], 1, 0, 1, none⟩, ⟨5, ['1'], 1, 0, noSym, none⟩, ⟨5, ['7', '1'], 1, 0, noSym, none⟩,
    ⟨0, ['K'], 1, 0, 0, none⟩, ⟨5, ['1'], 1, 0, noSym, none⟩, ⟨5, ['2'], 1, 0, noSym, none⟩,
    ⟨5, ['3', '0', '0'], 1, 0, noSym, none⟩]
def sLx : LexEnv := ⟨fun t => if t = ['K'] then 0 else if t = ['V'] then 1 else noSym, fun _ => none⟩

theorem seq_value_end_loads : okB (runParseFile (sEnv sToks)) = true := by decide +kernel

/-- the token behind the sequence `1 2` is the number `300`: `SeqStops` is false -/
theorem seq_value_end_not_seqStops (X : Array PTok) (off ind : Nat) (rest : List WTok) :
    ¬ FieldSeqOk (mkC (sEnv sToks) sLx X 6) (.seq (.int 4) []) (⟨5, ['3', '0', '0'], off, ind⟩ :: rest) := by
  simp [FieldSeqOk, SeqStops, nextNC, firstTy, firstTyS]

/-! ## a float whose printed text is not a number token (`InOk.fl`, `InOk.numText`)

`F 1e999`: `str::parse::<f64>` gives infinity, `add_float` prints `inf`. The writer emits the text of the value
verbatim (`writeItem`), the tokenizer reads `inf` as an identifier, and `get_double` rejects it. -/

def fTbl : Table :=
  [⟨0, .block false [] [⟨1, 2, false, false, false, 0, 0⟩, ⟨0, 1, false, true, false, 0, 0⟩] true⟩,
   ⟨1, .block false [.double] [] false⟩, ⟨2, .block false [.int 5, .int 5] [] false⟩]
def fEnv (toks : Array PTok) : Env :=
  { toks := toks, strict := true, table := fTbl, known := ⟨0, 2, 1⟩, symbols := #["F", "V"] }
/-- tokens of `V 1 71 F 1e999`; the float codec turns `1e999` into `inf` -/
def fToks1 : Array PTok :=
  #[⟨0, ['V'], 1, 0, 1, none⟩, ⟨5, ['1'], 1, 0, noSym, none⟩, ⟨5, ['7', '1'], 1, 0, noSym, none⟩,
    ⟨0, ['F'], 1, 0, 0, none⟩, ⟨5, "1e999".toList, 1, 0, noSym, some "inf".toList⟩]
/-- tokens of the written text ` V 1 71 F inf` -/
def fToks2 : Array PTok :=
  #[⟨0, ['V'], 1, 0, 1, none⟩, ⟨5, ['1'], 1, 0, noSym, none⟩, ⟨5, ['7', '1'], 1, 0, noSym, none⟩,
    ⟨0, ['F'], 1, 0, 0, none⟩, ⟨0, "inf".toList, 1, 0, noSym, none⟩]

theorem inf_loads : okB (runParseFile (fEnv fToks1)) = true := by decide +kernel
theorem inf_written_verbatim (e : Env) (F indent off : Nat) :
    writeItem (F + 1) e indent (.dbl "inf".toList off) = addWhitespace indent off ++ "inf".toList := rfl
theorem inf_reload_fails : errKind (runParseFile (fEnv fToks2)) = some .unexpectedTokenType := by decide +kernel
/-- the hypothesis that excludes it: `inf` is not a number text -/
theorem inf_not_numText : ¬ NumText "inf".toList := by
  rintro ⟨c, cs, h, -, h1, -⟩
  have : c = 'i' := by
    have := congrArg List.head? h
    simpa using this.symm
  subst this
  revert h1
  decide

/-! ## comments that are dropped: at file level, and in front of a parameter

`/* a */ V 1 /* b */ 71`: the strict load succeeds (after the fix of `parse_version` in the model: the real code
compares the identifier that `get_identifier` returns, behind the comment); no comment is stored: the root is not a
block (`the parent is not a block, so preserving the comment is currently not supported`), and `expect_token` skips
comments in front of parameters. -/

def cToks : Array PTok :=
  #[⟨6, "/* a */".toList, 1, 0, noSym, none⟩, ⟨0, ['V'], 1, 0, 1, none⟩, ⟨5, ['1'], 1, 0, noSym, none⟩,
    ⟨6, "/* b */".toList, 1, 0, noSym, none⟩, ⟨5, ['7', '1'], 1, 0, noSym, none⟩]

def noComments : Val → Bool
  | .block _ _ _ [[.block _ _ _ [] []], []] [] => true
  | _ => false

def commentsDroppedCheck : Bool :=
  match runParseFile (sEnv cToks) with
  | .ok v _ => noComments v
  | _ => false

theorem comments_dropped : commentsDroppedCheck = true := by decide +kernel

end A2l.Tree.Counter2
