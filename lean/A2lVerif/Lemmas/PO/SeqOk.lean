import A2lVerif.Lemmas.PO.Keys
import A2lVerif.Lemmas.PO.Fix
/-! # C02 / C01 gap: `SeqStops` in the written stream, from the structure of the written stream and the grammar table

In the written stream a sequence that is the LAST parameter of its element is followed by the tag of a sub-element or of
the next element, by `/begin`, by `/end`, or by nothing. For sequences of numbers that is a token of another kind; for
sequences of strings / enum values / structs if the element is a block whose sub-elements are all blocks; for sequences of
IDENTIFIERS it is the input that decides (`OT.idSeqOk`, derived from the parse in `Lemmas/PO/Fields.lean`). -/
namespace A2l.Tree
open A2l.G A2l.Sc

/-- a sequence occurs only as the last parameter -/
def seqLastB : List ItemTy → Bool
  | [] => true
  | [_] => true
  | it :: rest => (match it with | .seq _ _ => false | _ => true) && seqLastB rest

/-- a sequence is a sequence of identifiers, or of elements that start with a number, or the element is a block whose
    sub-elements are all blocks -/
def seqTyB (tbl : Table) (isB : Bool) (arms : List Arm) : ItemTy → Bool
  | .seq of _ => of == .ident || firstTy tbl of == 5 || (isB && arms.all (·.block))
  | _ => true

/-- **the table hypothesis about sequences** (decidable; true of the shipped table: `shipped_seqTblOk`) -/
def seqTblOk (tbl : Table) : Bool :=
  tbl.all (fun en => match en.def_ with
    | .block isB items arms _ => seqLastB items && items.all (seqTyB tbl isB arms)
    | _ => true)

theorem seqTblOk_block {tbl : Table} {ty : Nat} {isB : Bool} {items : List ItemTy} {arms : List Arm} {ht : Bool}
    (h : seqTblOk tbl = true) (hl : tbl.lookup ty = some (.block isB items arms ht)) :
    seqLastB items = true ∧ ∀ it ∈ items, seqTyB tbl isB arms it = true := by
  obtain ⟨en, hmem, hd⟩ := lookup_mem hl
  have := List.all_eq_true.1 h en hmem
  rw [hd] at this
  simp only [Bool.and_eq_true, List.all_eq_true] at this
  exact this

/-- what follows is a tag, `/begin`, `/end`, or nothing -/
def Follow (rest : List WTok) : Prop := ∀ w, nextNC rest = some w → w.ty = 0 ∨ w.ty = 1 ∨ w.ty = 2
/-- what follows is `/begin`, `/end`, or nothing -/
def FollowB (rest : List WTok) : Prop := ∀ w, nextNC rest = some w → w.ty = 1 ∨ w.ty = 2

theorem follow_toksL (c : RCfg) (ind : Nat) (parms : List Arm) (pib : Bool) (more : List WTok) (xs : List OT)
    (h : OT.wfL c parms pib xs) (hm : Follow more) : Follow (OT.toksL ind xs ++ more) := by
  rcases nextNC_toksL c ind parms pib more xs h with h1 | ⟨w, h1, h2⟩
  · intro w hw; rw [h1] at hw; exact hm w hw
  · intro w' hw'
    rw [h1] at hw'
    cases hw'
    rcases h2 with h2 | ⟨h2, -⟩
    · exact .inr (.inl h2)
    · exact .inl h2

theorem followB_toksL (c : RCfg) (ind : Nat) (parms : List Arm) (pib : Bool) (more : List WTok) (xs : List OT)
    (h : OT.wfL c parms pib xs) (hall : ∀ a ∈ parms, a.block = true) (hm : FollowB more) :
    FollowB (OT.toksL ind xs ++ more) := by
  rcases nextNC_toksL c ind parms pib more xs h with h1 | ⟨w, h1, h2⟩
  · intro w hw; rw [h1] at hw; exact hm w hw
  · intro w' hw'
    rw [h1] at hw'
    cases hw'
    rcases h2 with h2 | ⟨-, -, a, ha, hb, -⟩
    · exact .inl h2
    · rw [hall a ha] at hb; cases hb

theorem follow_close (ind : Nat) (tag : List Char) (eo : Nat) (rest : List WTok) :
    FollowB (closeToks ind tag true eo ++ rest) := by
  intro w hw
  simp [closeToks, nextNC] at hw
  rw [← hw]; exact .inr rfl

theorem FollowB.follow {rest : List WTok} (h : FollowB rest) : Follow rest := fun w hw => .inr (h w hw)

/-- only the last parameter can be a sequence: the condition behind sequences is a condition on what follows the
    parameter list -/
theorem fieldsSeqOk_of_last (c : RCfg) (ind : Nat) : ∀ (its : List ItemTy) (fs : List Val) (rest : List WTok),
    its.length = fs.length → seqLastB its = true →
    (∀ of stop, its.getLast? = some (.seq of stop) → SeqStops c of stop (nextNC rest)) →
    FieldsSeqOk c ind its fs rest
  | [], _, _, _, _, _ => by simp [FieldsSeqOk]
  | _ :: _, [], _, _, _, _ => by simp [FieldsSeqOk]
  | [it], [f], rest, hlen, hl, h => by
    clear hlen hl
    simp only [FieldsSeqOk, fieldsToks, List.flatMap_nil, List.nil_append, and_true]
    cases it <;> simp only [FieldSeqOk]
    case seq of stop => exact h of stop rfl
  | [it], f :: f2 :: fs, rest, hlen, _, h => by simp at hlen
  | it :: it2 :: its, f :: fs, rest, hlen, hl, h => by
    simp only [seqLastB, Bool.and_eq_true] at hl
    simp only [FieldsSeqOk]
    refine ⟨?_, fieldsSeqOk_of_last c ind (it2 :: its) fs rest (by simpa using hlen) hl.2 (fun of stop hh => h of stop (by
      rw [List.getLast?_cons_cons]; exact hh))⟩
    have hl1 := hl.1
    clear hlen hl h
    cases it <;> simp only [FieldSeqOk]
    case seq of stop => simp at hl1

theorem fieldsWf_length (c : RCfg) : ∀ (its : List ItemTy) (fs : List Val), FieldsWf c its fs → its.length = fs.length
  | [], [], _ => rfl
  | [], _ :: _, h => by simp [FieldsWf] at h
  | _ :: _, [], h => by simp [FieldsWf] at h
  | _ :: its, _ :: fs, h => by simp [fieldsWf_length c its fs h.2]

/-- the condition behind the last parameter of an element, from the kind of what follows -/
theorem seqStops_of_follow (c : RCfg) {isB : Bool} {arms : List Arm} {of : ItemTy} {stop : List Nat} {rest : List WTok}
    (hty : seqTyB c.e.table isB arms (.seq of stop) = true) (hid : of = .ident → SeqStops c .ident stop (nextNC rest))
    (hf : Follow rest) (hfb : isB = true → (∀ a ∈ arms, a.block = true) → FollowB rest) :
    SeqStops c of stop (nextNC rest) := by
  by_cases hident : of = .ident
  · subst hident; exact hid rfl
  cases hn : nextNC rest with
  | none => trivial
  | some w =>
    left
    simp only [seqTyB, Bool.or_eq_true, beq_iff_eq, Bool.and_eq_true, List.all_eq_true] at hty
    rcases hty with (h1 | h5) | ⟨hb, hall⟩
    · exact absurd h1 hident
    · rw [h5]
      have := hf w hn
      exact ⟨by omega, by simp⟩
    · have := hfb hb hall w hn
      have hft : firstTy c.e.table of = 0 ∨ firstTy c.e.table of = 4 ∨ firstTy c.e.table of = 5 := by
        unfold firstTy
        cases of <;> simp [firstTyS]
        case structRef ty =>
          split
          · rename_i it _ _ _ _
            cases it <;> simp [firstTyS]
          · simp
      rcases hft with h | h | h <;> rw [h] <;> exact ⟨by omega, by omega⟩

mutual
/-- **`SeqStops` everywhere below `o`**, from what the parser checked (`OT.wf`), the table hypothesis, the derived
    condition for sequences of identifiers, and the kind of what follows `o` -/
theorem seqOk_of (c : RCfg) (htbl : seqTblOk c.e.table = true) : ∀ (o : OT) (ind : Nat) (parms : List Arm) (pib : Bool)
    (rest : List WTok), o.wf c parms pib → OT.idSeqOk c ind o rest → Follow rest → OT.seqOk c ind o rest
  | .cmt _ _, _, _, _, _, _, _, _ => by simp [OT.seqOk]
  | .node arm tag blk ty so eo fields items, ind, parms, pib, rest, hw, hid, hf => by
    simp only [OT.wf] at hw
    obtain ⟨a, its, arms, ht, -, -, -, -, h5, -, h7, -, -, -, h11, h12, h13, -⟩ := hw
    simp only [OT.idSeqOk] at hid
    obtain ⟨hlast, hty⟩ := seqTblOk_block htbl h5
    have hfc : Follow (closeToks ind tag blk eo ++ rest) := by
      cases blk with
      | true => exact (follow_close ind tag eo rest).follow
      | false => simpa [closeToks] using hf
    simp only [OT.seqOk]
    refine ⟨?_, seqOkL_of c htbl items (ind + 1) arms blk _ h13 hid.2 hfc⟩
    intro its' arms' ht' hl'
    rw [h5] at hl'
    injection hl' with hl'
    injection hl' with _ e1 e2 e3
    subst e1 e2 e3
    refine fieldsSeqOk_of_last c (ind + 1) its fields _ (fieldsWf_length c its fields h11) hlast ?_
    intro of stop hl
    have hmem : ItemTy.seq of stop ∈ its := List.mem_of_getLast? hl
    refine seqStops_of_follow c (hty _ hmem) ?_ (follow_toksL c (ind + 1) arms blk _ items h13 hfc) ?_
    · intro hof; subst hof
      exact hid.1 its arms ht stop h5 hl
    · intro hb hall
      subst hb
      exact followB_toksL c (ind + 1) arms true _ items h13 hall (follow_close ind tag eo rest)
theorem seqOkL_of (c : RCfg) (htbl : seqTblOk c.e.table = true) : ∀ (xs : List OT) (ind : Nat) (parms : List Arm)
    (pib : Bool) (rest : List WTok), OT.wfL c parms pib xs → OT.idSeqOkL c ind xs rest → Follow rest →
    OT.seqOkL c ind xs rest
  | [], _, _, _, _, _, _, _ => by simp [OT.seqOkL]
  | x :: xs, ind, parms, pib, rest, hw, hid, hf => by
    simp only [OT.wfL] at hw
    simp only [OT.idSeqOkL] at hid
    simp only [OT.seqOkL]
    exact ⟨seqOk_of c htbl x ind parms pib _ hw.1 hid.1 (follow_toksL c ind parms pib rest xs hw.2 hf),
      seqOkL_of c htbl xs ind parms pib rest hw.2 hid.2 hf⟩
end

/-! ## `SeqStops` does not look at the offsets -/

theorem nextNC_key : ∀ (a b : List WTok), a.map wkey = b.map wkey → (nextNC a).map wkey = (nextNC b).map wkey
  | [], [], _ => rfl
  | [], _ :: _, h => by simp at h
  | _ :: _, [], h => by simp at h
  | x :: xs, y :: ys, h => by
    simp only [List.map_cons, List.cons.injEq] at h
    have hty : x.ty = y.ty := congrArg Prod.fst h.1
    simp only [nextNC, hty]
    split
    · exact nextNC_key xs ys h.2
    · simp [h.1]

theorem seqStops_key (c : RCfg) (of : ItemTy) (stop : List Nat) {o1 o2 : Option WTok} (hk : o1.map wkey = o2.map wkey)
    (h : SeqStops c of stop o1) : SeqStops c of stop o2 := by
  cases o2 with
  | none => trivial
  | some w2 =>
    cases o1 with
    | none => simp at hk
    | some w1 =>
      simp only [Option.map_some, Option.some.injEq] at hk
      have h1 : w1.ty = w2.ty := congrArg Prod.fst hk
      have h2 : w1.text = w2.text := congrArg Prod.snd hk
      simp only [SeqStops] at h ⊢
      rw [← h1, ← h2]; exact h

theorem fieldsSeqOk_key (c : RCfg) (ind : Nat) : ∀ (its : List ItemTy) (fs : List Val) (a b : List WTok),
    a.map wkey = b.map wkey → FieldsSeqOk c ind its fs a → FieldsSeqOk c ind its fs b
  | [], _, _, _, _, _ => by simp [FieldsSeqOk]
  | _ :: _, [], _, _, _, _ => by simp [FieldsSeqOk]
  | it :: its, f :: fs, a, b, hk, h => by
    simp only [FieldsSeqOk] at h ⊢
    refine ⟨?_, fieldsSeqOk_key c ind its fs a b hk h.2⟩
    have h1 := h.1
    cases it <;> simp only [FieldSeqOk] at h1 ⊢
    case seq of stop =>
      exact seqStops_key c of stop (nextNC_key _ _ (by simp [hk])) h1

theorem keyApp {a b c d : List WTok} (h1 : a.map wkey = b.map wkey) (h2 : c.map wkey = d.map wkey) :
    (a ++ c).map wkey = (b ++ d).map wkey := by
  rw [List.map_append, List.map_append, h1, h2]

mutual
theorem seqOk_fix_items (c : RCfg) : ∀ (o : OT) (ind : Nat) (a b : List WTok), a.map wkey = b.map wkey →
    OT.seqOkL c ind o.itemsOf a → OT.seqOkL c ind (OT.fixL false o.itemsOf) b
  | .node _ _ _ _ _ _ _ items, ind, a, b, hk, h => seqOkL_fixL c items false ind a b hk h
  | .cmt _ _, _, _, _, _, _ => by simp [OT.itemsOf, OT.fixL, OT.seqOkL]
/-- the condition behind sequences holds for the bumped tree if it holds for the tree -/
theorem seqOkL_fixL (c : RCfg) : ∀ (xs : List OT) (alc : Bool) (ind : Nat) (a b : List WTok), a.map wkey = b.map wkey →
    OT.seqOkL c ind xs a → OT.seqOkL c ind (OT.fixL alc xs) b
  | [], _, _, _, _, _, _ => by simp [OT.fixL, OT.seqOkL]
  | .cmt text off :: rest, alc, ind, a, b, hk, h => by
    simp only [OT.seqOkL, OT.seqOk, true_and] at h
    simp only [OT.fixL, OT.seqOkL, OT.seqOk, true_and]
    exact seqOkL_fixL c rest _ ind a b hk h
  | .node arm tag blk ty so eo fields items :: rest, alc, ind, a, b, hk, h => by
    simp only [OT.seqOkL, OT.seqOk] at h
    obtain ⟨⟨h1, h2⟩, h3⟩ := h
    simp only [OT.fixL, OT.seqOkL, OT.seqOk]
    have hkr : (OT.toksL ind rest ++ a).map wkey = (OT.toksL ind (OT.fixL false rest) ++ b).map wkey :=
      keyApp (keys_fixL rest false ind).symm hk
    have hkc : (closeToks ind tag blk eo ++ (OT.toksL ind rest ++ a)).map wkey =
        (closeToks ind tag blk (OT.fixEo blk eo fields (OT.fixL false items)) ++
          (OT.toksL ind (OT.fixL false rest) ++ b)).map wkey := keyApp (closeToks_key ind tag blk _ _) hkr
    refine ⟨⟨?_, ?_⟩, seqOkL_fixL c rest false ind a b hk h3⟩
    · intro its arms ht hl
      exact fieldsSeqOk_key c (ind + 1) its fields _ _ (keyApp (keys_fixL items false (ind + 1)).symm hkc)
        (h1 its arms ht hl)
    · have := seqOk_fix_items c (.node arm tag blk ty so eo fields items) (ind + 1) _ _ hkc (by simpa [OT.itemsOf] using h2)
      simpa [OT.itemsOf] using this
end

end A2l.Tree

