import A2lVerif.Lemmas.PO.Basic
/-! # C02: token correspondence only looks at kind and text of the written tokens, not at their offsets -/
namespace A2l.Tree
open A2l.G A2l.Sc

def wkey (w : WTok) : Nat × List Char := (w.ty, w.text)

theorem TokSim.congr {lx : LexEnv} {t : PTok} {w w' : WTok} (h : TokSim lx t w) (hk : wkey w = wkey w') : TokSim lx t w' := by
  have h1 : w'.ty = w.ty := by have := congrArg Prod.fst hk; exact this.symm
  have h2 : w'.text = w.text := by have := congrArg Prod.snd hk; exact this.symm
  cases h with
  | ident h0 hw htext => exact TokSim.ident t w' h0 (by rw [h1, hw]) (by rw [h2, htext])
  | begin_ h0 hw htext => exact TokSim.begin_ t w' h0 (by rw [h1, hw]) (by rw [h2, htext])
  | end_ h0 hw htext => exact TokSim.end_ t w' h0 (by rw [h1, hw]) (by rw [h2, htext])
  | str str h0 hw hval htext => exact TokSim.str t w' str h0 (by rw [h1, hw]) hval (by rw [h2, htext])
  | int ity v hex h0 hw hval htext => exact TokSim.int t w' ity v hex h0 (by rw [h1, hw]) hval (by rw [h2, htext])
  | dbl r h0 hw hval htext => exact TokSim.dbl t w' r h0 (by rw [h1, hw]) hval (by rw [h2, htext])
  | cmt h0 hw htext => exact TokSim.cmt t w' h0 (by rw [h1, hw]) (by rw [h2, htext])

theorem TSim.congr {lx : LexEnv} {ts : List PTok} {ws : List WTok} (h : TSim lx ts ws) :
    ∀ ws', ws.map wkey = ws'.map wkey → TSim lx ts ws' := by
  induction h with
  | nil =>
    intro ws' hk
    cases ws' with
    | nil => exact TSim.nil
    | cons _ _ => simp at hk
  | skip t ts ws h6 _ ih => intro ws' hk; exact TSim.skip t ts ws' h6 (ih ws' hk)
  | tok t w ts ws h1 _ ih =>
    intro ws' hk
    cases ws' with
    | nil => simp at hk
    | cons w' ws'' =>
      simp only [List.map_cons, List.cons.injEq] at hk
      exact TSim.tok t w' ts ws'' (h1.congr hk.1) (ih ws'' hk.2)

theorem headToks_key (ind : Nat) (tag : List Char) (blk : Bool) (so so' : Nat) :
    (headToks ind tag blk so).map wkey = (headToks ind tag blk so').map wkey := by
  cases blk <;> simp [headToks, wkey]

theorem closeToks_key (ind : Nat) (tag : List Char) (blk : Bool) (eo eo' : Nat) :
    (closeToks ind tag blk eo).map wkey = (closeToks ind tag blk eo').map wkey := by
  cases blk <;> simp [closeToks, wkey]

mutual
theorem keys_fix_items : ∀ (o : OT) (ind : Nat),
    (OT.toksL ind (OT.fixL false o.itemsOf)).map wkey = (OT.toksL ind o.itemsOf).map wkey
  | .node _ _ _ _ _ _ _ items, ind => keys_fixL items false ind
  | .cmt _ _, _ => by simp [OT.itemsOf, OT.fixL]
/-- the tokens of the bumped tree have the same kinds and texts -/
theorem keys_fixL : ∀ (xs : List OT) (alc : Bool) (ind : Nat),
    (OT.toksL ind (OT.fixL alc xs)).map wkey = (OT.toksL ind xs).map wkey
  | [], _, _ => by simp [OT.fixL]
  | .cmt text off :: rest, alc, ind => by
    simp only [OT.fixL, OT.toksL, OT.toks, List.map_append, List.map_cons, List.map_nil, keys_fixL rest _ ind, wkey]
  | .node arm tag blk ty so eo fields items :: rest, alc, ind => by
    have h1 := keys_fix_items (.node arm tag blk ty so eo fields items) (ind + 1)
    simp only [OT.itemsOf] at h1
    simp only [OT.fixL, OT.toksL, OT.toks, List.map_append, keys_fixL rest false ind, h1,
      headToks_key ind tag blk (bumpOff alc so) so,
      closeToks_key ind tag blk (OT.fixEo blk eo fields (OT.fixL false items)) eo]
end

theorem TSim.fixL {lx : LexEnv} {ts : List PTok} {items : List OT} {ind : Nat} (h : TSim lx ts (OT.toksL ind items))
    (alc : Bool) : TSim lx ts (OT.toksL ind (OT.fixL alc items)) :=
  h.congr _ (keys_fixL items alc ind).symm

end A2l.Tree
