import A2lVerif.Lemmas.PO.Wf
/-! # C02: reorderings of siblings, and the writer's order (`sortGE`) as one of them -/
namespace A2l.Tree
open A2l.G A2l.Sc

mutual
/-- the same element up to the order of sub-elements (at every depth) and layout -/
inductive OT.Sib : OT → OT → Prop
  | cmt (t : List Char) (o o' : Nat) : OT.Sib (.cmt t o) (.cmt t o')
  | node (i i' : Nat) (tag : List Char) (blk : Bool) (ty so so' eo eo' : Nat) (fields : List Val) (items items' : List OT) :
      OT.SibL items items' → OT.Sib (.node i tag blk ty so eo fields items) (.node i' tag blk ty so' eo' fields items')
/-- a permutation of siblings, recursively -/
inductive OT.SibL : List OT → List OT → Prop
  | nil : OT.SibL [] []
  | cons (x y : OT) (xs ys : List OT) : OT.Sib x y → OT.SibL xs ys → OT.SibL (x :: xs) (y :: ys)
  | swap (x y : OT) (l : List OT) : OT.SibL (y :: x :: l) (x :: y :: l)
  | trans (a b c : List OT) : OT.SibL a b → OT.SibL b c → OT.SibL a c
end

theorem OT.SibL.refl : ∀ (xs : List OT), OT.SibL xs xs
  | [] => .nil
  | .cmt t o :: xs => .cons _ _ _ _ (.cmt t o o) (OT.SibL.refl xs)
  | .node i tag blk ty so eo fields items :: xs =>
    .cons _ _ _ _ (.node i i tag blk ty so so eo eo fields items items (OT.SibL.refl items)) (OT.SibL.refl xs)

theorem OT.Sib.refl : ∀ (x : OT), OT.Sib x x
  | .cmt t o => .cmt t o o
  | .node i tag blk ty so eo fields items => .node i i tag blk ty so so eo eo fields items items (OT.SibL.refl items)

theorem OT.SibL.of_perm {xs ys : List OT} (h : xs.Perm ys) : OT.SibL xs ys := by
  induction h with
  | nil => exact .nil
  | cons x _ ih => exact .cons x x _ _ (OT.Sib.refl x) ih
  | swap x y l => exact .swap x y l
  | trans _ _ ih1 ih2 => exact .trans _ _ _ ih1 ih2

/-- element-wise related lists -/
inductive All2 {α β : Type} (R : α → β → Prop) : List α → List β → Prop
  | nil : All2 R [] []
  | cons {x : α} {y : β} {xs : List α} {ys : List β} : R x y → All2 R xs ys → All2 R (x :: xs) (y :: ys)

theorem All2.append {α β : Type} {R : α → β → Prop} {a c : List α} {b d : List β} (h1 : All2 R a b) (h2 : All2 R c d) :
    All2 R (a ++ c) (b ++ d) := by
  induction h1 with
  | nil => exact h2
  | cons h _ ih => exact .cons h ih

theorem All2.map {α β γ δ : Type} {R : α → β → Prop} {Q : γ → δ → Prop} (f : α → γ) (g : β → δ)
    (hfg : ∀ a b, R a b → Q (f a) (g b)) {xs : List α} {ys : List β} (h : All2 R xs ys) : All2 Q (xs.map f) (ys.map g) := by
  induction h with
  | nil => exact .nil
  | cons h _ ih => exact .cons (hfg _ _ h) ih

theorem All2.refl {α : Type} {R : α → α → Prop} (hr : ∀ a, R a a) : ∀ (l : List α), All2 R l l
  | [] => .nil
  | a :: l => .cons (hr a) (All2.refl hr l)

/-- an element-wise relation is transported along a permutation -/
theorem All2.perm_transport {α β : Type} {R : α → β → Prop} {l1 l2 : List α} (hp : l1.Perm l2) :
    ∀ {m1 : List β}, All2 R l1 m1 → ∃ m2, m1.Perm m2 ∧ All2 R l2 m2 := by
  induction hp with
  | nil => intro m1 h; exact ⟨m1, List.Perm.refl _, h⟩
  | cons x _ ih =>
    intro m1 h
    cases h with
    | cons hxy ht =>
      obtain ⟨m2, p, q⟩ := ih ht
      exact ⟨_ :: m2, List.Perm.cons _ p, .cons hxy q⟩
  | swap x y l =>
    intro m1 h
    cases h with
    | cons h1 ht =>
      cases ht with
      | cons h2 ht2 => exact ⟨_, List.Perm.swap _ _ _, .cons h2 (.cons h1 ht2)⟩
  | trans _ _ ih1 ih2 =>
    intro m1 h
    obtain ⟨m2, p, q⟩ := ih1 h
    obtain ⟨m3, p', q'⟩ := ih2 q
    exact ⟨m3, p.trans p', q'⟩

theorem OT.SibL.of_all {xs ys : List OT} (h : All2 OT.Sib xs ys) : OT.SibL xs ys := by
  induction h with
  | nil => exact .nil
  | cons h1 _ ih => exact .cons _ _ _ _ h1 ih

/-! ## reorderings that move position-restricted items only -/

mutual
/-- the same element up to the order of POSITION-RESTRICTED sub-elements (at every depth) and layout -/
inductive OT.SibP (code : List CodeEntry) : OT → OT → Prop
  | cmt (t : List Char) (o o' : Nat) : OT.SibP code (.cmt t o) (.cmt t o')
  | node (i i' : Nat) (tag : List Char) (blk : Bool) (ty so so' eo eo' : Nat) (fields : List Val) (items items' : List OT) :
      OT.SibPL code items items' →
      OT.SibP code (.node i tag blk ty so eo fields items) (.node i' tag blk ty so' eo' fields items')
/-- a reordering of siblings in which only position-restricted items (`OT.pos code` is `some`) change places: generated
    by related heads, the exchange of two position-restricted items, transitivity -/
inductive OT.SibPL (code : List CodeEntry) : List OT → List OT → Prop
  | nil : OT.SibPL code [] []
  | cons (x y : OT) (xs ys : List OT) : OT.SibP code x y → OT.SibPL code xs ys → OT.SibPL code (x :: xs) (y :: ys)
  | swapFar (x y : OT) (m l : List OT) : (x.pos code).isSome = true → (y.pos code).isSome = true →
      OT.SibPL code (y :: (m ++ x :: l)) (x :: (m ++ y :: l))
  | trans (a b c : List OT) : OT.SibPL code a b → OT.SibPL code b c → OT.SibPL code a c
end

theorem OT.SibPL.refl (code : List CodeEntry) : ∀ (xs : List OT), OT.SibPL code xs xs
  | [] => .nil
  | .cmt t o :: xs => .cons _ _ _ _ (.cmt t o o) (OT.SibPL.refl code xs)
  | .node i tag blk ty so eo fields items :: xs =>
    .cons _ _ _ _ (.node i i tag blk ty so so eo eo fields items items (OT.SibPL.refl code items)) (OT.SibPL.refl code xs)

theorem OT.SibP.refl (code : List CodeEntry) : ∀ (x : OT), OT.SibP code x x
  | .cmt t o => .cmt t o o
  | .node i tag blk ty so eo fields items =>
    .node i i tag blk ty so so eo eo fields items items (OT.SibPL.refl code items)

theorem perm_exchange {α} (a x : α) (A B : List α) : (a :: (A ++ x :: B)).Perm (x :: (A ++ a :: B)) :=
  ((List.Perm.cons a List.perm_middle).trans (List.Perm.swap x a _)).trans (List.Perm.cons x List.perm_middle.symm)

mutual
theorem OT.SibP.toSib {code : List CodeEntry} : ∀ {x y : OT}, OT.SibP code x y → OT.Sib x y
  | _, _, .cmt t o o' => .cmt t o o'
  | _, _, .node i i' tag blk ty so so' eo eo' fields items items' h =>
    .node i i' tag blk ty so so' eo eo' fields items items' (OT.SibPL.toSibL h)
theorem OT.SibPL.toSibL {code : List CodeEntry} : ∀ {xs ys : List OT}, OT.SibPL code xs ys → OT.SibL xs ys
  | _, _, .nil => .nil
  | _, _, .cons x y xs ys h1 h2 => .cons x y xs ys (OT.SibP.toSib h1) (OT.SibPL.toSibL h2)
  | _, _, .swapFar x y m l _ _ => OT.SibL.of_perm (perm_exchange y x m l)
  | _, _, .trans a b c h1 h2 => .trans a b c (OT.SibPL.toSibL h1) (OT.SibPL.toSibL h2)
end

theorem OT.SibPL.of_all {code : List CodeEntry} {xs ys : List OT} (h : All2 (OT.SibP code) xs ys) :
    OT.SibPL code xs ys := by
  induction h with
  | nil => exact .nil
  | cons h1 _ ih => exact .cons _ _ _ _ h1 ih

/-- `refill` looks at the group only through "restricted or not" and the unrestricted items -/
theorem refillG_exchange {α} (isR : α → Bool) (a x : α) (ha : isR a = true) (hx : isR x = true) (l : List α) :
    ∀ (m s : List α), (m.filter isR).length < s.length →
      refillG isR (m ++ a :: l) s = refillG isR (m ++ x :: l) s
  | [], s, h => by
    cases s with
    | nil => simp at h
    | cons y ys => simp [refillG, ha, hx]
  | b :: m, s, h => by
    by_cases hb : isR b = true
    · cases s with
      | nil => simp at h
      | cons y ys =>
        simp only [List.filter_cons, hb, if_true, List.length_cons] at h
        simp only [List.cons_append, refillG, hb, if_true]
        rw [refillG_exchange isR a x ha hx l m ys (by omega)]
    · have hb' : isR b = false := by simpa using hb
      simp only [List.filter_cons, hb', Bool.false_eq_true, if_false] at h
      simp only [List.cons_append, refillG, hb', Bool.false_eq_true, if_false]
      rw [refillG_exchange isR a x ha hx l m s h]

/-- **refilling the restricted slots with a permutation of the restricted items moves restricted items only** -/
theorem refillG_sibP (code : List CodeEntry) : ∀ (n : Nat) (g s : List OT), g.length = n →
    s.Perm (g.filter (fun x => (x.pos code).isSome)) →
    OT.SibPL code g (refillG (fun x => (x.pos code).isSome) g s)
  | 0, g, s, hn, hp => by
    have : g = [] := List.length_eq_zero_iff.1 hn
    subst this
    simp only [List.filter_nil, List.perm_nil] at hp
    subst hp
    exact .nil
  | n + 1, g, s, hn, hp => by
    cases g with
    | nil => simp at hn
    | cons a g' =>
      have hlen : g'.length = n := by simpa using hn
      by_cases ha : (a.pos code).isSome = true
      · rw [List.filter_cons_of_pos (by simpa using ha)] at hp
        cases s with
        | nil => exact absurd hp.length_eq (by simp)
        | cons x xs =>
          simp only [refillG, ha, if_true]
          have hx : x ∈ a :: g'.filter (fun x => (x.pos code).isSome) := hp.mem_iff.1 List.mem_cons_self
          rcases List.mem_cons.1 hx with rfl | hx
          · exact .cons _ _ _ _ (OT.SibP.refl code _) (refillG_sibP code n g' xs hlen (List.Perm.cons_inv hp))
          · obtain ⟨hxg, hxr⟩ := List.mem_filter.1 hx
            have hxr : (x.pos code).isSome = true := by simpa using hxr
            obtain ⟨m, l, rfl⟩ := List.append_of_mem hxg
            have hp2 : xs.Perm ((m ++ a :: l).filter (fun x => (x.pos code).isSome)) := by
              rw [List.filter_append, List.filter_cons_of_pos (by simpa using hxr)] at hp
              rw [List.filter_append, List.filter_cons_of_pos (by simpa using ha)]
              exact List.Perm.cons_inv (hp.trans (perm_exchange a x _ _))
            have ih := refillG_sibP code n (m ++ a :: l) xs (by simpa using hlen) hp2
            have hl : (m.filter (fun x => (x.pos code).isSome)).length < xs.length := by
              rw [hp2.length_eq, List.filter_append, List.length_append, List.filter_cons_of_pos (by simpa using ha)]
              simp only [List.length_cons]; omega
            rw [refillG_exchange _ a x ha hxr l m xs hl] at ih
            exact .trans _ _ _ (.swapFar x a m l hxr ha) (.cons _ _ _ _ (OT.SibP.refl code x) ih)
      · have ha' : (a.pos code).isSome = false := by simpa using ha
        rw [List.filter_cons_of_neg (by simpa using ha')] at hp
        simp only [refillG, ha', Bool.false_eq_true, if_false]
        exact .cons _ _ _ _ (OT.SibP.refl code a) (refillG_sibP code n g' s hlen hp)

/-- **`apply_position_restrictions` moves position-restricted items only** -/
theorem applyPosG_sibP (code : List CodeEntry) (g : List OT) : OT.SibPL code g (applyPosG (OT.pos code) g) := by
  unfold applyPosG
  simp only []
  split
  · exact refillG_sibP code _ g _ rfl (List.mergeSort_perm _ _)
  · exact OT.SibPL.refl code g

/-! ## the writer's sort permutes -/

theorem refillG_perm {α} (isR : α → Bool) : ∀ (g s : List α), s.length = (g.filter isR).length →
    (refillG isR g s).Perm (g.filter (fun x => !isR x) ++ s)
  | [], s, h => by
    simp only [List.filter_nil, List.length_nil, List.length_eq_zero_iff] at h
    subst h; simp [refillG]
  | a :: g, s, h => by
    by_cases ha : isR a = true
    · simp only [List.filter_cons, ha, if_true, List.length_cons] at h
      cases s with
      | nil => simp at h
      | cons x xs =>
        simp only [refillG, ha, if_true, List.filter_cons, Bool.not_true, Bool.false_eq_true, if_false]
        have ih := refillG_perm isR g xs (by simpa using h)
        exact (List.Perm.cons x ih).trans List.perm_middle.symm
    · have ha' : isR a = false := by simpa using ha
      simp only [List.filter_cons, ha', Bool.false_eq_true, if_false] at h
      simp only [refillG, ha', Bool.false_eq_true, if_false, List.filter_cons, Bool.not_false, if_true, List.cons_append]
      exact List.Perm.cons a (refillG_perm isR g s h)

theorem applyPosG_perm {α} (pos : α → Option Nat) (l : List α) : (applyPosG pos l).Perm l := by
  unfold applyPosG
  simp only []
  split
  · have hp := List.mergeSort_perm (l.filter (fun x => (pos x).isSome)) (posLeG pos)
    refine (refillG_perm _ l _ hp.length_eq).trans ?_
    refine (List.Perm.append_left _ hp).trans ?_
    exact (List.perm_append_comm).trans (List.filter_append_perm _ l)
  · exact List.Perm.refl _

/-- **the writer's order is a permutation** of the group entries -/
theorem sortGE_perm (code : List CodeEntry) (ges : List GE) : (sortGE code ges).Perm ges :=
  (applyPosG_perm _ _).trans (List.mergeSort_perm ges geLe)

/-! ## canonical sub-lists for all children -/

/-- the same group entry up to a reordering of position-restricted items below it -/
def GERel (code : List CodeEntry) (g g' : GE) : Prop := g.uid = g'.uid ∧ g.line = g'.line ∧ OT.SibP code g.ot g'.ot

theorem GERel.refl (code : List CodeEntry) (g : GE) : GERel code g g := ⟨rfl, rfl, OT.SibP.refl code _⟩

theorem GERel.uids {code : List CodeEntry} {R R' : List GE} (h : All2 (GERel code) R R') :
    R'.map (·.uid) = R.map (·.uid) := by
  induction h with
  | nil => rfl
  | cons hxy _ ih => simp only [List.map_cons, ih, hxy.1]

section
variable (e : Env)

/-- the own items of the children of one arm, reordered so that every child is in canonical relation -/
theorem exists_canon_arm : ∀ (cs : List Val) (ss : List (List OT)), ss.length = cs.length →
    (∀ (j : Nat) (c : Val) (o : List OT), cs[j]? = some c → ss[j]? = some o →
      ∃ o', OT.SibPL e.code o o' ∧ Canon e c o') →
    ∃ ss' : List (List OT), ss'.length = cs.length ∧
      (∀ (j : Nat) (c : Val) (o' : List OT), cs[j]? = some c → ss'[j]? = some o' → Canon e c o') ∧
      ∀ (i : Nat) (a : Arm), All2 (GERel e.code) (gesArm e.symbols i a cs ss) (gesArm e.symbols i a cs ss')
  | [], [], _, _ => ⟨[], rfl, by intro j c o' h; simp at h, by intro i a; simp only [gesArm]; exact All2.nil⟩
  | [], _ :: _, h, _ => by simp at h
  | _ :: _, [], h, _ => by simp at h
  | c :: cs, o :: ss, hlen, hex => by
    obtain ⟨o', ho1, ho2⟩ := hex 0 c o rfl rfl
    obtain ⟨ss', h1, h2, h3⟩ := exists_canon_arm cs ss (by simpa using hlen)
      (fun j c' o'' a b => hex (j + 1) c' o'' (by simpa using a) (by simpa using b))
    refine ⟨o' :: ss', by simp [h1], ?_, ?_⟩
    · intro j c' o'' a b
      cases j with
      | zero =>
        simp only [List.getElem?_cons_zero, Option.some.injEq] at a b
        subst a; subst b; exact ho2
      | succ j => exact h2 j c' o'' (by simpa using a) (by simpa using b)
    · intro i a
      simp only [gesArm]
      refine All2.append ?_ (h3 i a)
      cases c <;> simp only [childGE] <;> first
        | exact All2.nil
        | exact All2.cons ⟨rfl, rfl, .node _ _ _ _ _ _ _ _ _ _ _ _ ho1⟩ All2.nil

/-- the same for all arms -/
theorem exists_canon_sub : ∀ (ch : List (List Val)) (sub : List (List (List OT))), sub.length = ch.length →
    (∀ (i : Nat) (cs : List Val) (ss : List (List OT)), ch[i]? = some cs → sub[i]? = some ss → ss.length = cs.length) →
    (∀ (i j : Nat) (cs : List Val) (ss : List (List OT)) (c : Val) (o : List OT), ch[i]? = some cs → sub[i]? = some ss →
      cs[j]? = some c → ss[j]? = some o → ∃ o', OT.SibPL e.code o o' ∧ Canon e c o') →
    ∃ sub' : List (List (List OT)), sub'.length = ch.length ∧
      (∀ (i : Nat) (cs : List Val) (ss' : List (List OT)), ch[i]? = some cs → sub'[i]? = some ss' →
        ss'.length = cs.length) ∧
      (∀ (i j : Nat) (cs : List Val) (ss' : List (List OT)) (c : Val) (o' : List OT), ch[i]? = some cs →
        sub'[i]? = some ss' → cs[j]? = some c → ss'[j]? = some o' → Canon e c o') ∧
      ∀ (k : Nat) (arms : List Arm), All2 (GERel e.code) (gesFrom e.symbols k arms ch sub) (gesFrom e.symbols k arms ch sub')
  | [], [], _, _, _ => ⟨[], rfl, by intro i cs ss' h; simp at h, by intro i j cs ss' c o' h; simp at h, by
      intro k arms; cases arms <;> simp only [gesFrom] <;> exact All2.nil⟩
  | [], _ :: _, h, _, _ => by simp at h
  | _ :: _, [], h, _, _ => by simp at h
  | cs :: ch, ss :: sub, hlen, hpar, hex => by
    obtain ⟨ss', a1, a2, a3⟩ := exists_canon_arm e cs ss (hpar 0 cs ss rfl rfl)
      (fun j c o a b => hex 0 j cs ss c o rfl rfl a b)
    obtain ⟨sub', b1, b2, b3, b4⟩ := exists_canon_sub ch sub (by simpa using hlen)
      (fun i cs' ss'' a b => hpar (i + 1) cs' ss'' (by simpa using a) (by simpa using b))
      (fun i j cs' ss'' c o a b => hex (i + 1) j cs' ss'' c o (by simpa using a) (by simpa using b))
    refine ⟨ss' :: sub', by simp [b1], ?_, ?_, ?_⟩
    · intro i cs' ss'' a b
      cases i with
      | zero =>
        simp only [List.getElem?_cons_zero, Option.some.injEq] at a b
        subst a; subst b; exact a1
      | succ i => exact b2 i cs' ss'' (by simpa using a) (by simpa using b)
    · intro i j cs' ss'' c o' a b
      cases i with
      | zero =>
        simp only [List.getElem?_cons_zero, Option.some.injEq] at a b
        subst a; subst b; exact a2 j c o'
      | succ i => exact b3 i j cs' ss'' c o' (by simpa using a) (by simpa using b)
    · intro k arms
      cases arms with
      | nil => simp only [gesFrom]; exact All2.nil
      | cons a arms =>
        simp only [gesFrom]
        exact All2.append (a3 k a) (b4 (k + 1) arms)

end
end A2l.Tree
