import A2lVerif.Lemmas.PO.Frame
/-! # C02 / C01 gap: what `get_next_tag_or_comment` found -/
namespace A2l.Tree
open A2l.G A2l.Sc

/-- the outcome of `get_next_tag_or_comment`, read off the tokens -/
def NextTagPost (e : Env) (s : PState) : BlockContent → PState → Prop
  | .comment tok _, s' =>
    e.toks[s.pos]? = some tok ∧ tok.ty = 6 ∧ s' = { s with pos := s.pos + 1 }
  | .block tok true _, s' =>
    ∃ tb, e.toks[s.pos]? = some tb ∧ tb.ty = 1 ∧ OneTok e { s with pos := s.pos + 1, lastLine := tb.line } tok s' ∧ tok.ty = 0
  | .block tok false _, s' => OneTok e s tok s' ∧ tok.ty = 0 ∧ e.toks[s.pos]? = some tok ∧ s'.pos = s.pos + 1
  | .none, s' => s'.pos = s.pos ∧ s.seqId ≤ s'.seqId ∧ s'.ver = s.ver ∧
      ∀ t0, e.toks[s.pos]? = some t0 → t0.ty ≠ 6 ∧ t0.ty ≠ 1 ∧ t0.ty ≠ 0

theorem getNextTagOrComment_ok {ctx : Ctx} {e : Env} {s : PState} {bc : BlockContent} {s' : PState}
    (h : getNextTagOrComment ctx e s = .ok bc s') : NextTagPost e s bc s' := by
  unfold getNextTagOrComment at h
  simp only [getTokenpos_bind, peekToken_bind] at h
  -- the third branch: an identifier, or nothing
  have key : (∀ t0, e.toks[s.pos]? = some t0 → t0.ty ≠ 6 ∧ t0.ty ≠ 1) → ∀ (h' : (attempt (expectToken ctx 0) >>= fun r => getLineOffset >>= fun off =>
      match r with
      | .ok tok => pure (.block tok false off)
      | .error _ => do setTokenpos s.pos; pure .none : PM BlockContent) e s = .ok bc s'), NextTagPost e s bc s' := by
    intro hpk h'
    obtain ⟨r, s1, h1, h2⟩ := bind_eq_ok h'
    obtain ⟨off, s2, h3, h4⟩ := bind_eq_ok h2
    have := getLineOffset_ok h3
    subst this
    unfold attempt at h1
    cases hx : expectToken ctx 0 e s with
    | ok tok sx =>
      rw [hx] at h1
      cases h1
      cases h4
      obtain ⟨o1, hty, -, -⟩ := expectToken_ok hx
      have hlt : s.pos < e.toks.size := by have := lt_of_getElem?_some o1.last; have := o1.pos; omega
      have h0 := getElem?_pos e.toks s.pos hlt
      obtain ⟨r1, r2⟩ := o1.first h0 (hpk _ h0).1
      exact ⟨o1, hty, by rw [r1]; exact h0, r2⟩
    | err d sx =>
      rw [hx] at h1
      cases h1
      simp only [setTokenpos_bind] at h4
      cases h4
      have := (Framed.expectToken ctx 0 e).err hx
      refine ⟨rfl, this.1, this.2, fun t0 h0 => ⟨(hpk t0 h0).1, (hpk t0 h0).2, fun h00 => ?_⟩⟩
      rw [expectToken_match ctx 0 e s t0 h0 h00 (by decide)] at hx
      cases hx
    | panic => rw [hx] at h1; cases h1
    | fuel => rw [hx] at h1; cases h1
  generalize ho : e.toks[s.pos]? = o at h
  revert h
  split
  · intro h
    simp only [modifyState_bind] at h
    obtain ⟨off, s2, h3, h4⟩ := bind_eq_ok h
    have := getLineOffset_ok h3
    subst this
    cases h4
    exact ⟨ho, rfl, rfl⟩
  · intro h
    obtain ⟨tb, s1, hg, h2⟩ := bind_eq_ok h
    rw [getToken_eval, ho] at hg
    cases hg
    obtain ⟨off, s2, h3, h4⟩ := bind_eq_ok h2
    have := getLineOffset_ok h3
    subst this
    obtain ⟨r, s3, h5, h6'⟩ := bind_eq_ok h4
    unfold attempt at h5
    rename_i text line fileid sym fl
    cases hx : expectToken ctx 0 e { s with pos := s.pos + 1, lastLine := line } with
    | ok tok sx =>
      rw [hx] at h5
      cases h5
      cases h6'
      obtain ⟨o1, hty, -, -⟩ := expectToken_ok hx
      exact ⟨_, ho, rfl, o1, hty⟩
    | err d sx =>
      rw [hx] at h5
      cases h5
      simp only [setTokenpos_bind] at h6'
      cases h6'
    | panic => rw [hx] at h5; cases h5
    | fuel => rw [hx] at h5; cases h5
  · intro h
    rename_i hn6 hn1
    refine key ?_ h
    intro t0 h0
    obtain ⟨ty0, text0, line0, fid0, sym0, fl0⟩ := t0
    refine ⟨fun h6 => ?_, fun h1 => ?_⟩
    · simp only at h6; subst h6; exact hn6 _ _ _ _ _ (ho.symm.trans h0)
    · simp only at h1; subst h1; exact hn1 _ _ _ _ _ (ho.symm.trans h0)

/-- where the line offset that `get_next_tag_or_comment` reports was measured: behind the first token it consumed -/
def NextTagOff (e : Env) (s : PState) : BlockContent → Prop
  | .comment _ off => ∃ sx, sx.pos = s.pos + 1 ∧ getLineOffset e sx = .ok off sx
  | .block _ _ off => ∃ sx, sx.pos = s.pos + 1 ∧ getLineOffset e sx = .ok off sx
  | .none => True

theorem getNextTagOrComment_off {ctx : Ctx} {e : Env} {s : PState} {bc : BlockContent} {s' : PState}
    (h : getNextTagOrComment ctx e s = .ok bc s') : NextTagOff e s bc := by
  have hpost := getNextTagOrComment_ok h
  unfold getNextTagOrComment at h
  simp only [getTokenpos_bind, peekToken_bind] at h
  generalize ho : e.toks[s.pos]? = o at h
  revert h
  split
  · intro h
    simp only [modifyState_bind] at h
    obtain ⟨off, s2, h3, h4⟩ := bind_eq_ok h
    have hs := getLineOffset_ok h3
    rw [hs] at h3
    cases h4
    exact ⟨_, rfl, h3⟩
  · intro h
    obtain ⟨tb, s1, hg, h2⟩ := bind_eq_ok h
    rw [getToken_eval, ho] at hg
    cases hg
    obtain ⟨off, s2, h3, h4⟩ := bind_eq_ok h2
    have hs := getLineOffset_ok h3
    rw [hs] at h3 h4
    obtain ⟨r, s3, h5, h6'⟩ := bind_eq_ok h4
    cases r with
    | ok tok =>
      cases h6'
      exact ⟨_, rfl, h3⟩
    | error d =>
      simp only [setTokenpos_bind] at h6'
      cases h6'
  · intro h
    obtain ⟨r, s1, h1, h2⟩ := bind_eq_ok h
    obtain ⟨off, s2, h3, h4⟩ := bind_eq_ok h2
    have hs := getLineOffset_ok h3
    rw [hs] at h3 h4
    cases r with
    | ok tok =>
      cases h4
      obtain ⟨-, -, -, hp⟩ := hpost
      exact ⟨_, hp, h3⟩
    | error d =>
      simp only [setTokenpos_bind] at h4
      cases h4
      trivial

/-- a line offset measured behind the token that follows a `//` comment is at least 1 -/
theorem off_behind_line_comment {e : Env} {lx : LexEnv} (hin : InOk e lx) {sx : PState} {off : Nat}
    (h : getLineOffset e sx = .ok off sx) (hp : 2 ≤ sx.pos) (hsz : sx.pos < e.toks.size) {tc : PTok}
    (htc : e.toks[sx.pos - 2]? = some tc) (h6 : tc.ty = 6) (hl : isLineCmt tc.text = true) : 1 ≤ off := by
  have hlt : sx.pos - 1 < e.toks.size := by omega
  have hcur := getElem?_pos e.toks (sx.pos - 1) hlt
  have hval := getLineOffset_val h (by omega) hsz htc hcur (by rw [hin.fid _ tc htc, hin.fid _ _ hcur])
  rw [if_pos h6] at hval
  have := hin.lineCmt (sx.pos - 2) tc _ htc h6 hl (by rw [show sx.pos - 2 + 1 = sx.pos - 1 by omega]; exact hcur)
  omega

end A2l.Tree
