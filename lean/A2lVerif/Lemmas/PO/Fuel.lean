import A2lVerif.Lemmas.PO.Compose
/-! # C02: the fuel of `runParseFile` (`4 · tokens + 64`) suffices to read a written stream back

`OT.needL` (the fuel bound of the read-back theorems of Lemmas/RT) is at most `3 · tokens + 13` if every parameter list
has at most one parameter without tokens: sequences are last (`seqTblOk`) and arrays have a positive dimension
(`arrTblOk`). -/
namespace A2l.Tree
open A2l.G A2l.Sc

def arrDimB : ItemTy → Bool
  | .arr _ n => decide (1 ≤ n)
  | _ => true

/-- **the table hypothesis about arrays**: no array parameter of dimension 0 (decidable; true of the shipped table) -/
def arrTblOk (tbl : Table) : Bool :=
  tbl.all (fun en => match en.def_ with
    | .block _ items _ _ => items.all arrDimB
    | _ => true)

theorem arrTblOk_block {tbl : Table} {ty : Nat} {isB : Bool} {items : List ItemTy} {arms : List Arm} {ht : Bool}
    (h : arrTblOk tbl = true) (hl : tbl.lookup ty = some (.block isB items arms ht)) : items.all arrDimB = true := by
  obtain ⟨en, hmem, hd⟩ := lookup_mem hl
  have := List.all_eq_true.1 h en hmem
  rw [hd] at this
  exact this

theorem scalarToks_pos {c : RCfg} {it : ItemTy} {v : Val} (ind : Nat) (h : ScalarOk c it v) :
    1 ≤ (scalarToks ind v).length := by
  cases it <;> cases v <;> simp [ScalarOk] at h <;> simp [scalarToks]

theorem elemToks_pos {c : RCfg} {it : ItemTy} {v : Val} (ind : Nat) (h : ElemOk c it v) :
    1 ≤ (elemToks ind v).length := by
  cases it with
  | structRef ty =>
    cases v <;> simp only [ElemOk] at h
    case block ty' info fs ch cm =>
      obtain ⟨-, -, -, -, sits, -, hne, hs⟩ := h
      cases sits with
      | nil => exact absurd rfl hne
      | cons it its =>
        cases fs with
        | nil => simp [ScalarsOk] at hs
        | cons f fs =>
          simp only [ScalarsOk] at hs
          have := scalarToks_pos ind hs.1
          simp only [elemToks, List.flatMap_cons, List.length_append]
          omega
  | ident => cases v <;> first | (simp [ElemOk, ScalarOk] at h; done) | simp [elemToks, scalarToks]
  | string => cases v <;> first | (simp [ElemOk, ScalarOk] at h; done) | simp [elemToks, scalarToks]
  | double => cases v <;> first | (simp [ElemOk, ScalarOk] at h; done) | simp [elemToks, scalarToks]
  | float => cases v <;> first | (simp [ElemOk, ScalarOk] at h; done) | simp [elemToks, scalarToks]
  | int w => cases v <;> first | (simp [ElemOk, ScalarOk] at h; done) | simp [elemToks, scalarToks]
  | strMax n => cases v <;> first | (simp [ElemOk, ScalarOk] at h; done) | simp [elemToks, scalarToks]
  | enumRef ty => cases v <;> first | (simp [ElemOk, ScalarOk] at h; done) | simp [elemToks, scalarToks]
  | arr of n => cases v <;> simp [ElemOk, ScalarOk] at h
  | seq of stop => cases v <;> simp [ElemOk, ScalarOk] at h

theorem length_le_flatMap {α β} (f : α → List β) : ∀ (vs : List α), (∀ v ∈ vs, 1 ≤ (f v).length) →
    vs.length ≤ (vs.flatMap f).length
  | [], _ => Nat.le_refl _
  | v :: vs, h => by
    have h1 := h v List.mem_cons_self
    have h2 := length_le_flatMap f vs (fun x hx => h x (List.mem_cons_of_mem _ hx))
    simp only [List.flatMap_cons, List.length_cons, List.length_append]
    omega

def notSeqB : ItemTy → Bool
  | .seq _ _ => false
  | _ => true

/-- a parameter that is not a sequence: `1 + vlen ≤ 2 · tokens`; a sequence: `≤ 2 · tokens + 1` -/
theorem fieldWf_count {c : RCfg} {it : ItemTy} {f : Val} (ind : Nat) (h : FieldWf c it f) (ha : arrDimB it = true) :
    1 + vlen f ≤ 2 * (fieldToks ind f).length + 1 ∧
      (notSeqB it = true → 1 + vlen f ≤ 2 * (fieldToks ind f).length) := by
  cases it with
  | arr of n =>
    cases f <;> simp only [FieldWf] at h
    case arr vs =>
      have hn : 1 ≤ n := by simpa [arrDimB] using ha
      have := length_le_flatMap (elemToks ind) vs (fun v hv => elemToks_pos ind (h.2 v hv))
      simp only [vlen, fieldToks]
      omega
  | seq of stop =>
    cases f <;> simp only [FieldWf] at h
    case seq vs =>
      have := length_le_flatMap (elemToks ind) vs (fun v hv => elemToks_pos ind (h.1 v hv))
      simp only [vlen, fieldToks]
      exact ⟨by omega, fun hh => by cases hh⟩
  | ident => cases f <;> first | (simp [FieldWf, ElemOk, ScalarOk] at h; done) | simp [vlen, fieldToks, elemToks, scalarToks]
  | string => cases f <;> first | (simp [FieldWf, ElemOk, ScalarOk] at h; done) | simp [vlen, fieldToks, elemToks, scalarToks]
  | double => cases f <;> first | (simp [FieldWf, ElemOk, ScalarOk] at h; done) | simp [vlen, fieldToks, elemToks, scalarToks]
  | float => cases f <;> first | (simp [FieldWf, ElemOk, ScalarOk] at h; done) | simp [vlen, fieldToks, elemToks, scalarToks]
  | int w => cases f <;> first | (simp [FieldWf, ElemOk, ScalarOk] at h; done) | simp [vlen, fieldToks, elemToks, scalarToks]
  | strMax n => cases f <;> first | (simp [FieldWf, ElemOk, ScalarOk] at h; done) | simp [vlen, fieldToks, elemToks, scalarToks]
  | enumRef ty => cases f <;> first | (simp [FieldWf, ElemOk, ScalarOk] at h; done) | simp [vlen, fieldToks, elemToks, scalarToks]
  | structRef ty =>
    have := elemToks_pos ind (it := .structRef ty) h
    cases f <;> simp only [FieldWf, ElemOk] at h
    case block => simp only [vlen, fieldToks] at this ⊢; omega

theorem fieldsWf_count {c : RCfg} (ind : Nat) : ∀ (its : List ItemTy) (fs : List Val), FieldsWf c its fs →
    seqLastB its = true → its.all arrDimB = true →
    fs.length + (fs.map vlen).sum ≤ 2 * (fieldsToks ind fs).length + 1
  | [], [], _, _, _ => by simp [fieldsToks]
  | [], _ :: _, h, _, _ => by simp [FieldsWf] at h
  | _ :: _, [], h, _, _ => by simp [FieldsWf] at h
  | [it], f :: fs, h, _, ha => by
    simp only [FieldsWf] at h
    cases fs with
    | cons _ _ => simp [FieldsWf] at h
    | nil =>
      have := (fieldWf_count ind h.1 (by simpa using ha)).1
      simp only [fieldsToks, List.flatMap_cons, List.flatMap_nil, List.append_nil, List.length_cons, List.length_nil,
        List.map_cons, List.map_nil, List.sum_cons, List.sum_nil]
      omega
  | it :: it2 :: its, f :: fs, h, hs, ha => by
    simp only [FieldsWf] at h
    simp only [seqLastB, Bool.and_eq_true] at hs
    simp only [List.all_cons, Bool.and_eq_true] at ha
    have h1 := (fieldWf_count ind h.1 ha.1).2 (by have := hs.1; cases it <;> first | rfl | exact this)
    have h2 := fieldsWf_count ind (it2 :: its) fs h.2 hs.2 (by simpa using ha.2)
    simp only [fieldsToks] at h2 ⊢
    simp only [List.flatMap_cons, List.length_cons, List.length_append, List.map_cons, List.sum_cons] at h2 ⊢
    omega

mutual
theorem need_le_tokens_lemma (c : RCfg) (hs : seqTblOk c.e.table = true) (ha : arrTblOk c.e.table = true) :
    ∀ (x : OT) (parms : List Arm) (pib : Bool) (ind : Nat), OT.wf c parms pib x →
      1 ≤ (x.toks ind).length ∧ x.need ind ≤ 3 * (x.toks ind).length + 12
  | .cmt text off, _, _, ind, _ => by simp [OT.toks, OT.need]
  | .node arm tag blk ty so eo fields items, parms, pib, ind, h => by
    simp only [OT.wf] at h
    obtain ⟨a, its, arms, ht, -, -, -, -, hl, -, -, -, -, -, hfw, -, hwl, -⟩ := h
    have hf := fieldsWf_count (ind + 1) its fields hfw (seqTblOk_block hs hl).1 (arrTblOk_block ha hl)
    have hi := needL_le_tokens_lemma c hs ha items arms blk (ind + 1) hwl
    have hh : 1 ≤ (headToks ind tag blk so).length := by unfold headToks; split <;> simp
    simp only [OT.toks, OT.need, fieldsNeed, List.length_append]
    omega
theorem needL_le_tokens_lemma (c : RCfg) (hs : seqTblOk c.e.table = true) (ha : arrTblOk c.e.table = true) :
    ∀ (xs : List OT) (parms : List Arm) (pib : Bool) (ind : Nat), OT.wfL c parms pib xs →
      OT.needL ind xs ≤ 3 * (OT.toksL ind xs).length + 13
  | [], _, _, _, _ => by simp [OT.needL]
  | x :: xs, parms, pib, ind, h => by
    simp only [OT.wfL] at h
    have h1 := need_le_tokens_lemma c hs ha x parms pib ind h.1
    have h2 := needL_le_tokens_lemma c hs ha xs parms pib ind h.2
    simp only [OT.needL, OT.toksL, List.length_append]
    omega
end

/-- the fuel of `runParseFile` on the parser tokens of a stream -/
theorem run_fuel_ok (c : RCfg) (hs : seqTblOk c.e.table = true) (ha : arrTblOk c.e.table = true)
    (xs : List OT) (parms : List Arm) (pib : Bool) (h : OT.wfL c parms pib xs) (lx : LexEnv) :
    OT.needL 0 xs + 20 ≤ 4 * (mkToks lx (OT.toksL 0 xs)).toArray.size + 64 := by
  have := needL_le_tokens_lemma c hs ha xs parms pib 0 h
  simp only [List.size_toArray, mkToks, mkToksFrom_length]
  omega

theorem shipped_arrTblOk : arrTblOk Shipped.table = true := by decide +kernel

end A2l.Tree
