import A2lVerif.Lemmas.PO.Prims
import A2lVerif.Lemmas.PO.Wf
/-! # C02 / C01 gap: the hypotheses about the input tokens and about the grammar table -/
namespace A2l.Tree
open A2l.G A2l.Sc

/-- the configuration the well-formedness predicates of Lemmas/RT are stated for: the environment of the load with any
    other token array (they do not look at the tokens), the driver's annotation functions, the file version -/
def mkC (e : Env) (lx : LexEnv) (X : Array PTok) (ver : Nat) : RCfg := ⟨{ e with toks := X }, lx, ver⟩

/-- **what is assumed of the input tokens** (all of it holds for `tokens.map (convTok lx bytes)`, see `InOk.of_conv`):
    strict mode; identifier tokens carry the symbol the driver's interning function gives their text, and an interned
    text is found again in the symbol table; no token comes from an include file; the float codec is idempotent on its
    own output (`1e999` → `inf` → not a number: the named obstacle "float text that is not a number token") -/
structure InOk (e : Env) (lx : LexEnv) : Prop where
  strict : e.strict = true
  sym : ∀ (i : Nat) (t : PTok), e.toks[i]? = some t → t.ty = 0 → t.sym = lx.symOf t.text
  symText : ∀ (i : Nat) (t : PTok), e.toks[i]? = some t → t.ty = 0 → t.sym ≠ noSym → symText e.symbols t.sym = t.text
  fid : ∀ (i : Nat) (t : PTok), e.toks[i]? = some t → t.fileid = 0
  fl : ∀ (i : Nat) (t : PTok) (r : List Char), e.toks[i]? = some t → t.ty = 5 → t.fl = some r → lx.flOf r = some r
  /-- token shapes (tokenizer facts): identifier tokens are identifiers, comment tokens are comments, and what the float
      codec makes of a number token is again a number token (`1e999` → `inf` is not) -/
  identText : ∀ (i : Nat) (t : PTok), e.toks[i]? = some t → t.ty = 0 → IdentText t.text
  cmtText : ∀ (i : Nat) (t : PTok), e.toks[i]? = some t → t.ty = 6 → CommentText t.text
  numText : ∀ (i : Nat) (t : PTok) (r : List Char), e.toks[i]? = some t → t.ty = 5 → t.fl = some r → NumText r
  /-- the token behind a `//` comment stands on a later line -/
  lineCmt : ∀ (i : Nat) (t t' : PTok), e.toks[i]? = some t → t.ty = 6 → isLineCmt t.text = true →
    e.toks[i + 1]? = some t' → t.line + countNewlines t.text < t'.line

/-- types of scalar parameters -/
def scalarTyB (tbl : Table) : ItemTy → Bool
  | .enumRef ty => match tbl.lookup ty with | some (.enum _) => true | _ => false
  | .structRef _ => false
  | .arr _ _ => false
  | .seq _ _ => false
  | _ => true

/-- a struct: a keyword type without tagged part whose parameters are scalars (at least one) -/
def simpleStructB (tbl : Table) (ty : Nat) : Bool :=
  match tbl.lookup ty with
  | some (.block false sits [] false) => !sits.isEmpty && sits.all (scalarTyB tbl)
  | _ => false

/-- types of array / sequence elements -/
def elemTyB (tbl : Table) : ItemTy → Bool
  | .structRef ty => simpleStructB tbl ty
  | it => scalarTyB tbl it

/-- types of parameters: elements, arrays and sequences of elements; a sequence with stop tags is a sequence of
    identifiers -/
def itemTyB (tbl : Table) : ItemTy → Bool
  | .arr of _ => elemTyB tbl of
  | .seq of stop => elemTyB tbl of && (stop.isEmpty || of == .ident)
  | it => elemTyB tbl it

/-- an arm of a tagged part: its type is a block / keyword type whose block flag is the arm's, a keyword has no tagged
    part of its own; or a `special` type; its tag is a symbol -/
def armB (tbl : Table) (a : Arm) : Bool :=
  (a.tag != noSym) &&
  (match tbl.lookup a.ty with
   | some (.block isB _ _ ht) => isB == a.block && (isB || !ht)
   | some .special => true
   | _ => false)

/-- **what is assumed of the grammar table** beyond `tableOk` (decidable; true of the shipped table:
    `shipped_shapeOk` in Props/C02.lean): parameters are scalars, structs of scalars, arrays / sequences of these;
    arms as in `armB`; a type without tagged part has no arms -/
def shapeOk (tbl : Table) : Bool :=
  tbl.all (fun en => match en.def_ with
    | .block _ items arms ht => items.all (itemTyB tbl) && arms.all (armB tbl) && (ht || arms.isEmpty)
    | _ => true)

theorem shapeOk_block {tbl : Table} {ty : Nat} {isB : Bool} {items : List ItemTy} {arms : List Arm} {ht : Bool}
    (h : shapeOk tbl = true) (hl : tbl.lookup ty = some (.block isB items arms ht)) :
    items.all (itemTyB tbl) = true ∧ arms.all (armB tbl) = true ∧ (ht = false → arms = []) := by
  obtain ⟨en, hmem, hd⟩ := lookup_mem hl
  have := List.all_eq_true.1 h en hmem
  rw [hd] at this
  simp only [Bool.and_eq_true, Bool.or_eq_true, List.isEmpty_iff] at this
  refine ⟨this.1.1, this.1.2, fun hf => ?_⟩
  rcases this.2 with h' | h'
  · rw [hf] at h'; cases h'
  · exact h'

/-- what is assumed of the tags (texts in the symbol table): they are identifiers `get_identifier` accepts, and
    no block is called `A2ML` (the tokenizer treats what follows `/begin A2ML` as one opaque token) -/
def TagsOk (e : Env) : Prop :=
  ∀ ty isB items arms ht, e.table.lookup ty = some (.block isB items arms ht) → ∀ a ∈ arms,
    IdentOk true (symText e.symbols a.tag) ∧
    (a.block = true → e.table.lookup a.ty ≠ some .special → symText e.symbols a.tag ≠ "A2ML".toList)

/-- decidable form of `TagsOk` -/
def identOkB (s : List Char) : Bool :=
  match s with
  | c :: _ => !isAsciiDigit c && decide (utf8Len s ≤ 1024)
  | [] => false

def tagsOkB (tbl : Table) (symbols : Array String) : Bool :=
  tbl.all (fun en => match en.def_ with
    | .block _ _ arms _ => arms.all (fun a => identOkB (symText symbols a.tag) &&
        (!a.block || (match tbl.lookup a.ty with | some .special => true | _ => false) ||
          symText symbols a.tag != "A2ML".toList))
    | _ => true)

theorem identOk_of_B {s : List Char} (h : identOkB s = true) : IdentOk true s := by
  unfold identOkB at h
  cases s with
  | nil => cases h
  | cons c cs =>
    simp only [Bool.and_eq_true, Bool.not_eq_true', decide_eq_true_eq] at h
    exact ⟨c, cs, rfl, fun _ => h⟩

theorem tagsOk_of_B {e : Env} (h : tagsOkB e.table e.symbols = true) : TagsOk e := by
  intro ty isB items arms ht hl a ha
  obtain ⟨en, hmem, hd⟩ := lookup_mem hl
  have h1 := List.all_eq_true.1 h en hmem
  rw [hd] at h1
  have h2 := List.all_eq_true.1 h1 a ha
  simp only [Bool.and_eq_true, Bool.or_eq_true, Bool.not_eq_true', bne_iff_ne, ne_eq] at h2
  refine ⟨identOk_of_B h2.1, fun hb hns => ?_⟩
  rcases h2.2 with (h3 | h3) | h3
  · rw [hb] at h3; cases h3
  · exfalso
    split at h3
    · rename_i heq; exact hns heq
    · cases h3
  · exact h3

theorem scalarTyOk_of_B {tbl : Table} {it : ItemTy} (h : scalarTyB tbl it = true) : ScalarTyOk tbl it := by
  cases it <;> simp only [scalarTyB] at h <;> simp only [ScalarTyOk]
  case enumRef ty =>
    split at h
    · rename_i items hl; exact ⟨items, hl⟩
    · cases h
  all_goals first | trivial | cases h

theorem simpleStruct_of_B {tbl : Table} {ty : Nat} (h : simpleStructB tbl ty = true) :
    ∃ sits, tbl.lookup ty = some (.block false sits [] false) ∧ sits ≠ [] ∧ ∀ it ∈ sits, scalarTyB tbl it = true := by
  unfold simpleStructB at h
  split at h
  · rename_i sits hl
    simp only [Bool.and_eq_true, Bool.not_eq_true', List.isEmpty_eq_false_iff, List.all_eq_true] at h
    exact ⟨sits, hl, h.1, h.2⟩
  · cases h

theorem elemTyOk_of_B {tbl : Table} {it : ItemTy} (h : elemTyB tbl it = true) : ElemTyOk tbl it := by
  cases it with
  | structRef ty =>
    simp only [elemTyB] at h
    obtain ⟨sits, hl, hne, hall⟩ := simpleStruct_of_B h
    obtain ⟨it1, its, rfl⟩ := List.exists_cons_of_ne_nil hne
    exact ⟨it1, its, hl, scalarTyOk_of_B (hall it1 List.mem_cons_self)⟩
  | ident => exact scalarTyOk_of_B (tbl := tbl) (it := .ident) h
  | string => exact scalarTyOk_of_B (tbl := tbl) (it := .string) h
  | double => exact scalarTyOk_of_B (tbl := tbl) (it := .double) h
  | float => exact scalarTyOk_of_B (tbl := tbl) (it := .float) h
  | int w => exact scalarTyOk_of_B (tbl := tbl) (it := .int w) h
  | strMax n => exact scalarTyOk_of_B (tbl := tbl) (it := .strMax n) h
  | enumRef ty => exact scalarTyOk_of_B (tbl := tbl) (it := .enumRef ty) h
  | arr of n => simp [elemTyB, scalarTyB] at h
  | seq of stop => simp [elemTyB, scalarTyB] at h

end A2l.Tree
