import A2lVerif.Lemmas.PO.Hyps
/-! # C02 / C01 gap, fragment "fields": what a successfully parsed scalar parameter is -/
namespace A2l.Tree
open A2l.G A2l.Sc

/-- what is known of an element (a scalar, or a struct of scalars) the parser returned: it is well-typed (`ElemOk`, the
    condition under which the written element is read back) and its written tokens correspond to the consumed ones -/
structure ElemPost (c : RCfg) (e : Env) (it : ItemTy) (s : PState) (v : Val) (s' : PState) : Prop where
  fwd : Adv2 s s'
  ok : ElemOk c it (normElem v)
  sim : ∀ ind, TSim c.lx (seg e s.pos s'.pos) (elemToks ind v)
  /-- an identifier element is the text of the last consumed token (the stop test of sequences looks at it) -/
  identLast : it = .ident → ∃ t off, e.toks[s'.pos - 1]? = some t ∧ t.ty = 0 ∧ v = .ident t.text off
  /-- its written tokens are read back by the tokenizer -/
  lex : ElemLex v

section
variable {e : Env} {lx : LexEnv} (hin : InOk e lx) (X : Array PTok)
include hin

omit hin in
theorem scalarOk_normElem {c : RCfg} {it : ItemTy} {v : Val} (h : ScalarOk c it v) : ElemOk c it (normElem v) := by
  cases it <;> cases v <;> simp only [ScalarOk] at h <;> exact h

/-- **a scalar parameter the parser accepted** (strict mode): identifier, string, number, enum value -/
theorem parseItem_scalar_post (fuel : Nat) (ctx : Ctx) (it : ItemTy) (hit : scalarTyB e.table it = true)
    (s : PState) (v : Val) (s' : PState) (h : parseItem (fuel + 1) ctx it e s = .ok v s') :
    ElemPost (mkC e lx X s.ver) e it s v s' := by
  have hst := hin.strict
  cases it with
  | ident =>
    rw [parseItem] at h
    obtain ⟨text, off, h1, rfl⟩ := withOff_ok (g := fun v off => Val.ident v off) h
    obtain ⟨t, o1, hty, htext, hid⟩ := getIdentifier_ok hst h1
    refine ⟨o1.fwd, scalarOk_normElem (it := .ident) (by exact hid), fun ind => ?_, fun _ => ⟨t, off, o1.last, hty, by rw [htext]⟩,
      by rw [htext]; exact hin.identText _ t o1.last hty⟩
    exact o1.sim (TokSim.ident t ⟨0, text, off, ind⟩ hty rfl htext)
  | string =>
    rw [parseItem] at h
    obtain ⟨str, off, h1, rfl⟩ := withOff_ok (g := fun v off => Val.str v off) h
    obtain ⟨t, o1, hty, hu⟩ := getString_ok hst h1
    refine ⟨o1.fwd, scalarOk_normElem (it := .string) trivial, fun ind => ?_, (fun h => by cases h), trivial⟩
    exact o1.sim (TokSim.str t ⟨4, _, off, ind⟩ str hty rfl hu rfl)
  | double =>
    rw [parseItem] at h
    obtain ⟨r, off, h1, rfl⟩ := withOff_ok (g := fun v off => Val.dbl v off) h
    obtain ⟨t, o1, hty, hfl⟩ := getDouble_ok h1
    refine ⟨o1.fwd, scalarOk_normElem (it := .double) ?_, fun ind => ?_, (fun h => by cases h), hin.numText _ t r o1.last hty hfl⟩
    · exact hin.fl _ t r o1.last hty hfl
    · exact o1.sim (TokSim.dbl t ⟨5, r, off, ind⟩ r hty rfl hfl rfl)
  | float =>
    rw [parseItem] at h
    obtain ⟨r, off, h1, rfl⟩ := withOff_ok (g := fun v off => Val.dbl v off) h
    obtain ⟨t, o1, hty, hfl⟩ := getDouble_ok h1
    refine ⟨o1.fwd, scalarOk_normElem (it := .float) ?_, fun ind => ?_, (fun h => by cases h), hin.numText _ t r o1.last hty hfl⟩
    · exact hin.fl _ t r o1.last hty hfl
    · exact o1.sim (TokSim.dbl t ⟨5, r, off, ind⟩ r hty rfl hfl rfl)
  | int w =>
    rw [parseItem] at h
    obtain ⟨⟨x, hex⟩, s1, h1, h2⟩ := bind_eq_ok h
    obtain ⟨off, s2, h3, h4⟩ := bind_eq_ok h2
    have := getLineOffset_ok h3
    subst this
    cases h4
    obtain ⟨t, o1, hty, hp⟩ := getInteger_ok h1
    refine ⟨o1.fwd, scalarOk_normElem (it := .int w) ⟨rfl, parseInt_inRange _ _ _ _ hp⟩, fun ind => ?_, (fun h => by cases h), trivial⟩
    exact o1.sim (TokSim.int t ⟨5, _, off, ind⟩ (intTyOf w) x hex hty rfl hp rfl)
  | strMax n =>
    rw [parseItem] at h
    obtain ⟨str, s1, h1, h2⟩ := bind_eq_ok h
    cases h2
    obtain ⟨t, o1, hty, hu, hlen⟩ := getStringMaxlen_ok hst h1
    refine ⟨o1.fwd, scalarOk_normElem (it := .strMax n) ⟨rfl, fun _ => hlen⟩, fun ind => ?_, (fun h => by cases h), trivial⟩
    exact o1.sim (TokSim.str t ⟨4, _, 0, ind⟩ str hty rfl hu rfl)
  | enumRef ty =>
    rw [parseItem] at h
    simp only [getEnv_bind] at h
    simp only [scalarTyB] at hit
    split at hit
    · rename_i items hl
      rw [hl] at h
      dsimp only at h
      obtain ⟨name, off, h1, rfl⟩ := withOff_ok (g := fun v off => Val.enum v off) h
      obtain ⟨t, eit, o1, hty, hname, hid, hlk, hver⟩ := parseEnum_ok hst h1
      refine ⟨o1.fwd, scalarOk_normElem (it := .enumRef ty) ?_, fun ind => ?_, (fun h => by cases h),
        by rw [hname]; exact hin.identText _ t o1.last hty⟩
      · refine ⟨items, eit, hl, hid, ?_, fun hv => absurd hv hver⟩
        show lookupEnumItem items (lx.symOf name) = some eit
        rw [hname, ← hin.sym _ t o1.last hty]; exact hlk
      · exact o1.sim (TokSim.ident t ⟨0, name, off, ind⟩ hty rfl hname)
    · cases hit
  | structRef ty => simp [scalarTyB] at hit
  | arr of n => simp [scalarTyB] at hit
  | seq of stop => simp [scalarTyB] at hit

end
end A2l.Tree
