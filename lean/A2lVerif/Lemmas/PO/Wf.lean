import A2lVerif.Lemmas.PO.Basic
/-! # C02 / C01 gap: the part of `OT.ok` that does not depend on the tokens that follow

`OT.ok c ind parms pib o rest` (Lemmas/RT/Defs.lean: "`o` can be read back when followed by `rest`") splits into

* `OT.wf c parms pib o`       types, parameters, multiplicities: what the parser checked when it built `o`
* `OT.seqOk c ind o rest`     every sequence parameter is followed by a token that ends it (`SeqStops`)
* `OT.posDeep code o`         position-restricted items stand in position order (`PosSorted`, recursively)
* a keyword is followed by a token.
-/
namespace A2l.Tree
open A2l.G A2l.Sc

/-! ## parameters -/

/-- `FieldOk` without the condition on the following token -/
def FieldWf (c : RCfg) : ItemTy → Val → Prop
  | .arr of n, .arr vs => vs.length = n ∧ (∀ v ∈ vs, ElemOk c of v)
  | .arr _ _, _ => False
  | .seq of stop, .seq vs =>
    (∀ v ∈ vs, ElemOk c of v) ∧ ElemTyOk c.e.table of ∧ (stop ≠ [] → of = .ident) ∧ (∀ v ∈ vs, elemStopFree c stop v)
  | .seq _ _, _ => False
  | it, v => ElemOk c it v

def FieldsWf (c : RCfg) : List ItemTy → List Val → Prop
  | [], [] => True
  | it :: its, f :: fs => FieldWf c it f ∧ FieldsWf c its fs
  | _, _ => False

/-- the condition on the token that follows a sequence parameter -/
def FieldSeqOk (c : RCfg) : ItemTy → List WTok → Prop
  | .seq of stop, rest => SeqStops c of stop (nextNC rest)
  | _, _ => True

def FieldsSeqOk (c : RCfg) (ind : Nat) : List ItemTy → List Val → List WTok → Prop
  | it :: its, f :: fs, rest => FieldSeqOk c it (fieldsToks ind fs ++ rest) ∧ FieldsSeqOk c ind its fs rest
  | _, _, _ => True

theorem fieldOk_of_wf (c : RCfg) {it : ItemTy} {v : Val} {rest : List WTok} (h : FieldWf c it v)
    (hs : FieldSeqOk c it rest) : FieldOk c it v rest := by
  cases it with
  | arr of n => cases v <;> simp only [FieldWf] at h <;> simp only [FieldOk] <;> exact h
  | seq of stop =>
    cases v <;> simp only [FieldWf] at h
    case seq vs => simp only [FieldOk]; exact ⟨h.1, h.2.1, h.2.2.1, h.2.2.2, hs⟩
  | ident => exact h
  | string => exact h
  | double => exact h
  | float => exact h
  | int w => exact h
  | strMax n => exact h
  | enumRef ty => exact h
  | structRef ty => exact h

theorem fieldsOk_of_wf (c : RCfg) (ind : Nat) : ∀ (its : List ItemTy) (fs : List Val) (rest : List WTok),
    FieldsWf c its fs → FieldsSeqOk c ind its fs rest → FieldsOk c ind its fs rest
  | [], [], _, _, _ => trivial
  | [], _ :: _, _, h, _ => by simp [FieldsWf] at h
  | _ :: _, [], _, h, _ => by simp [FieldsWf] at h
  | it :: its, f :: fs, rest, h, hs =>
    ⟨fieldOk_of_wf c h.1 hs.1, fieldsOk_of_wf c ind its fs rest h.2 hs.2⟩

/-! ## ordered trees -/

mutual
/-- what the parser checked when it built `o` (`parms` / `pib` = arms of the parent and whether the parent is a block) -/
def OT.wf (c : RCfg) (parms : List Arm) (pib : Bool) : OT → Prop
  | .node arm tag blk ty _ eo fields items =>
    ∃ a its arms ht, parms[arm]? = some a ∧ a.ty = ty ∧ tag = symText c.e.symbols a.tag ∧ blk = a.block ∧
      c.e.table.lookup ty = some (.block blk its arms ht) ∧
      (a.vlo ≠ 0 ∧ c.ver < a.vlo → c.e.strict = false) ∧
      (blk = false → eo = 0 ∧ ht = false) ∧
      IdentOk c.e.strict tag ∧ parms.findIdx? (·.tag == c.lx.symOf tag) = some arm ∧
      fields.map normField = fields ∧
      FieldsWf c its fields ∧
      (ht = false → items = []) ∧
      OT.wfL c arms blk items ∧
      MultOk c.e.strict arms items
  | .cmt _ _ => pib = true
def OT.wfL (c : RCfg) (parms : List Arm) (pib : Bool) : List OT → Prop
  | [] => True
  | x :: xs => OT.wf c parms pib x ∧ OT.wfL c parms pib xs
end

mutual
/-- every sequence parameter inside `o` is followed, in the written stream, by a token that ends it;
    `rest` = the tokens that follow `o` -/
def OT.seqOk (c : RCfg) (ind : Nat) : OT → List WTok → Prop
  | .node _ tag blk ty _ eo fields items, rest =>
    (∀ its arms ht, c.e.table.lookup ty = some (.block blk its arms ht) →
      FieldsSeqOk c (ind + 1) its fields (OT.toksL (ind + 1) items ++ (closeToks ind tag blk eo ++ rest))) ∧
    OT.seqOkL c (ind + 1) items (closeToks ind tag blk eo ++ rest)
  | .cmt _ _, _ => True
def OT.seqOkL (c : RCfg) (ind : Nat) : List OT → List WTok → Prop
  | [], _ => True
  | x :: xs, rest => OT.seqOk c ind x (OT.toksL ind xs ++ rest) ∧ OT.seqOkL c ind xs rest
end

mutual
/-- position-restricted items stand in position order, in every tagged part below `o` -/
def OT.posDeep (code : List CodeEntry) : OT → Prop
  | .node _ _ _ _ _ _ _ items => PosSorted code items ∧ OT.posDeepL code items
  | .cmt _ _ => True
def OT.posDeepL (code : List CodeEntry) : List OT → Prop
  | [] => True
  | x :: xs => OT.posDeep code x ∧ OT.posDeepL code xs
end

/-- the items of a tagged part and everything below stand in position order -/
def OT.posAll (code : List CodeEntry) (items : List OT) : Prop := PosSorted code items ∧ OT.posDeepL code items

mutual
/-- a keyword (an item that is not a block) is followed by a token -/
def OT.kwNext : OT → List WTok → Prop
  | .node _ _ blk _ _ _ _ _, rest => blk = false → rest ≠ []
  | .cmt _ _, _ => True
def OT.kwNextL (ind : Nat) : List OT → List WTok → Prop
  | [], _ => True
  | x :: xs, rest => OT.kwNext x (OT.toksL ind xs ++ rest) ∧ OT.kwNextL ind xs rest
end

mutual
/-- value-level lexability of the written tokens of `o` (`OT.lexW` without the clause about the `/end` behind a trailing
    line comment): tags and identifier values are identifier texts, no block is called `A2ML`, float texts are number
    texts, comments are comment texts -/
def OT.lexV : OT → Prop
  | .node _ tag blk _ _ _ fields items =>
    IdentText tag ∧ (blk = true → tag ≠ "A2ML".toList) ∧ (∀ f ∈ fields, FieldLex f) ∧ OT.lexVL items
  | .cmt text _ => CommentText text
def OT.lexVL : List OT → Prop
  | [] => True
  | x :: xs => OT.lexV x ∧ OT.lexVL xs
end

mutual
/-- a line comment that is the last item of a block is followed by a line break in front of `/end` -/
def OT.endOk : OT → Prop
  | .node _ _ blk _ _ eo _ items =>
    (blk = true → ∀ text off, items.getLast? = some (.cmt text off) → isLineCmt text = true → 1 ≤ eo) ∧ OT.endOkL items
  | .cmt _ _ => True
def OT.endOkL : List OT → Prop
  | [] => True
  | x :: xs => OT.endOk x ∧ OT.endOkL xs
end

/-- the identifier that follows (if the next significant token is one) passes `get_identifier` -/
def FollowId (rest : List WTok) : Prop := ∀ w, nextNC rest = some w → w.ty = 0 → IdentOk true w.text

mutual
/-- every sequence of IDENTIFIERS that is the last parameter of an element below `o` is followed, in the written stream,
    by a token that ends it -/
def OT.idSeqOk (c : RCfg) (ind : Nat) : OT → List WTok → Prop
  | .node _ tag blk ty _ eo _ items, rest =>
    (∀ its arms ht stop, c.e.table.lookup ty = some (.block blk its arms ht) → its.getLast? = some (.seq .ident stop) →
      SeqStops c .ident stop (nextNC (OT.toksL (ind + 1) items ++ (closeToks ind tag blk eo ++ rest)))) ∧
    OT.idSeqOkL c (ind + 1) items (closeToks ind tag blk eo ++ rest)
  | .cmt _ _, _ => True
def OT.idSeqOkL (c : RCfg) (ind : Nat) : List OT → List WTok → Prop
  | [], _ => True
  | x :: xs, rest => OT.idSeqOk c ind x (OT.toksL ind xs ++ rest) ∧ OT.idSeqOkL c ind xs rest
end

theorem nextNC_append_comments {cs : List WTok} (h : ∀ x ∈ cs, x.ty = 6) (ws : List WTok) :
    nextNC (cs ++ ws) = nextNC ws := by
  induction cs with
  | nil => rfl
  | cons c cs ih =>
    simp only [List.cons_append, nextNC, h c List.mem_cons_self, if_true]
    exact ih (fun x hx => h x (List.mem_cons_of_mem _ hx))

/-- the next significant token behind a list of well-formed items: the head of the first element, or what follows -/
theorem nextNC_toksL (c : RCfg) (ind : Nat) (parms : List Arm) (pib : Bool) (more : List WTok) : ∀ (xs : List OT),
    OT.wfL c parms pib xs →
    nextNC (OT.toksL ind xs ++ more) = nextNC more ∨
    ∃ w, nextNC (OT.toksL ind xs ++ more) = some w ∧
      (w.ty = 1 ∨ (w.ty = 0 ∧ IdentOk c.e.strict w.text ∧ ∃ a ∈ parms, a.block = false ∧ c.lx.symOf w.text = a.tag))
  | [], _ => .inl rfl
  | .cmt text off :: xs, h => by
    simp only [OT.wfL] at h
    simp only [OT.toksL, OT.toks, List.cons_append, List.nil_append, nextNC, if_true]
    exact nextNC_toksL c ind parms pib more xs h.2
  | .node arm tag blk ty so eo fields items :: xs, h => by
    simp only [OT.wfL, OT.wf] at h
    obtain ⟨⟨a, its, arms, ht, h1, -, -, h4, -, -, -, h8, h9, -⟩, -⟩ := h
    right
    cases blk with
    | true =>
      refine ⟨⟨1, beginText, so, ind⟩, ?_, .inl rfl⟩
      simp [OT.toksL, OT.toks, headToks, nextNC]
    | false =>
      refine ⟨⟨0, tag, so, ind⟩, ?_, .inr ⟨rfl, h8, a, List.mem_of_getElem? h1, h4.symm, ?_⟩⟩
      · simp [OT.toksL, OT.toks, headToks, nextNC]
      · obtain ⟨hi, htag, -⟩ := List.findIdx?_eq_some_iff_getElem.1 h9
        have : parms[arm] = a := by rw [List.getElem?_eq_getElem hi] at h1; exact Option.some.inj h1
        rw [this] at htag
        have h' : a.tag = c.lx.symOf tag := by simpa using htag
        exact h'.symm

theorem followId_toksL (c : RCfg) (hst : c.e.strict = true) (ind : Nat) (parms : List Arm) (pib : Bool) (more : List WTok)
    (xs : List OT) (h : OT.wfL c parms pib xs) (hm : FollowId more) : FollowId (OT.toksL ind xs ++ more) := by
  rcases nextNC_toksL c ind parms pib more xs h with h1 | ⟨w, h1, h2⟩
  · intro w hw; rw [h1] at hw; exact hm w hw
  · intro w' hw' h0
    rw [h1] at hw'
    cases hw'
    rcases h2 with h2 | ⟨-, h2, -⟩
    · rw [h0] at h2; cases h2
    · rw [hst] at h2; exact h2

theorem OT.lexVL_append : ∀ (xs ys : List OT), OT.lexVL xs → OT.lexVL ys → OT.lexVL (xs ++ ys)
  | [], _, _, h => h
  | x :: xs, ys, h1, h2 => by
    simp only [List.cons_append, OT.lexVL] at h1 ⊢
    exact ⟨h1.1, OT.lexVL_append xs ys h1.2 h2⟩

theorem OT.wfL_append (c : RCfg) (parms : List Arm) (pib : Bool) : ∀ (xs ys : List OT),
    OT.wfL c parms pib xs → OT.wfL c parms pib ys → OT.wfL c parms pib (xs ++ ys)
  | [], _, _, h => h
  | x :: xs, ys, h1, h2 => by
    simp only [List.cons_append, OT.wfL] at h1 ⊢
    exact ⟨h1.1, OT.wfL_append c parms pib xs ys h1.2 h2⟩

theorem OT.posDeepL_append (code : List CodeEntry) : ∀ (xs ys : List OT),
    OT.posDeepL code (xs ++ ys) ↔ OT.posDeepL code xs ∧ OT.posDeepL code ys
  | [], ys => by simp [OT.posDeepL]
  | x :: xs, ys => by
    simp only [List.cons_append, OT.posDeepL, OT.posDeepL_append code xs ys, and_assoc]

theorem OT.posDeepL_mem (code : List CodeEntry) : ∀ (xs : List OT), OT.posDeepL code xs → ∀ x ∈ xs, OT.posDeep code x
  | [], _, _, hx => by simp at hx
  | y :: ys, h, x, hx => by
    simp only [OT.posDeepL] at h
    rcases List.mem_cons.1 hx with rfl | hx
    · exact h.1
    · exact OT.posDeepL_mem code ys h.2 x hx

/-! ## from the parts to `OT.ok` -/

mutual
theorem OT.ok_of_wf (c : RCfg) : ∀ (o : OT) (ind : Nat) (parms : List Arm) (pib : Bool) (rest : List WTok),
    OT.wf c parms pib o → OT.seqOk c ind o rest → OT.posDeep c.e.code o → OT.kwNext o rest →
    OT.ok c ind parms pib o rest
  | .cmt _ _, _, _, _, _, h, _, _, _ => by simpa [OT.ok, OT.wf] using h
  | .node arm tag blk ty so eo fields items, ind, parms, pib, rest, h, hs, hp, hk => by
    simp only [OT.wf] at h
    obtain ⟨a, its, arms, ht, h1, h2, h3, h4, h5, h6, h7, h8, h9, h10, h11, h12, h13, h14⟩ := h
    simp only [OT.seqOk] at hs
    simp only [OT.posDeep] at hp
    simp only [OT.kwNext] at hk
    simp only [OT.ok]
    refine ⟨a, its, arms, ht, h1, h2, h3, h4, h5, h6, ?_, h8, h9, h10, ?_, h12, ?_, h14, hp.1⟩
    · intro hb; exact ⟨(h7 hb).1, hk hb, (h7 hb).2⟩
    · exact fieldsOk_of_wf c (ind + 1) its fields _ h11 (hs.1 its arms ht h5)
    · refine OT.okL_of_wf c items (ind + 1) arms blk _ h13 hs.2 hp.2 ?_
      -- inside a block every item is followed by `/end`; a keyword has no items
      cases hb : blk with
      | true => exact OT.kwNextL_of_ne_nil items (ind + 1) _ (by simp [closeToks])
      | false =>
        have := h12 (h7 hb).2
        subst this
        simp [OT.kwNextL]
theorem OT.okL_of_wf (c : RCfg) : ∀ (xs : List OT) (ind : Nat) (parms : List Arm) (pib : Bool) (rest : List WTok),
    OT.wfL c parms pib xs → OT.seqOkL c ind xs rest → OT.posDeepL c.e.code xs → OT.kwNextL ind xs rest →
    OT.okL c ind parms pib xs rest
  | [], _, _, _, _, _, _, _, _ => by simp [OT.okL]
  | x :: xs, ind, parms, pib, rest, h, hs, hp, hk => by
    simp only [OT.wfL] at h
    simp only [OT.seqOkL] at hs
    simp only [OT.posDeepL] at hp
    simp only [OT.kwNextL] at hk
    simp only [OT.okL]
    exact ⟨OT.ok_of_wf c x ind parms pib _ h.1 hs.1 hp.1 hk.1, OT.okL_of_wf c xs ind parms pib rest h.2 hs.2 hp.2 hk.2⟩
theorem OT.kwNextL_of_ne_nil : ∀ (xs : List OT) (ind : Nat) (rest : List WTok), rest ≠ [] → OT.kwNextL ind xs rest
  | [], _, _, _ => by simp [OT.kwNextL]
  | x :: xs, ind, rest, h => by
    simp only [OT.kwNextL]
    refine ⟨?_, OT.kwNextL_of_ne_nil xs ind rest h⟩
    cases x with
    | cmt _ _ => simp [OT.kwNext]
    | node _ _ _ _ _ _ _ _ => simp [OT.kwNext, h]
end

end A2l.Tree
