import A2lVerif.Lemmas.PO.Fuel
import A2lVerif.Lemmas.PO.Utf8
import A2lVerif.Lemmas.PO.SampleIn
/-! # C02: the theorems with the driver's fuel and with a text-level front end -/
namespace A2l.Tree
open A2l.G A2l.Sc

section
variable {e : Env} {lx : LexEnv}

/-- **theorem 4 with the driver's fuel**: both loads are `runParseFile` -/
theorem save_reload_strict_run_lemma (hin : InOk e lx) (htab : tableOk e.table e.known = true)
    (hshape : shapeOk e.table = true) (hseqT : seqTblOk e.table = true) (harr : arrTblOk e.table = true)
    (htags : TagsOk e) (hns : NoSpecialOk e) {rarms : List Arm} (hroot : RootOk e rarms) {v : Val} {s : PState}
    (h : runParseFile e = .ok v s) :
    ∃ items, InOrder e v items ∧ (Obstacles e items →
      (∃ F0, ∀ F, F0 ≤ F → writeFile e v F = renderToks (OT.toksL 0 (OT.fixL false items))) ∧
      (∃ ts, Lex.tokenize (encL (renderToks (OT.toksL 0 (OT.fixL false items)))).toArray = .ok ts ∧
        (ts.map (convTok lx (encL (renderToks (OT.toksL 0 (OT.fixL false items)))).toArray)).toArray =
          (mkToks lx (OT.toksL 0 (OT.fixL false items))).toArray) ∧
      ∃ v' s', runParseFile { e with toks := (mkToks lx (OT.toksL 0 (OT.fixL false items))).toArray } = .ok v' s' ∧
        (∃ F0, ∀ F, F0 ≤ F →
          writeFile { e with toks := (mkToks lx (OT.toksL 0 (OT.fixL false items))).toArray } v' F = writeFile e v F) ∧
        LayoutEq v v') := by
  obtain ⟨items, ver, fp⟩ := parseFile_post hin #[] htab hshape htags hns hroot h rfl
  obtain ⟨info, ch, cm, rfl, h1, h2⟩ := fp.val
  refine ⟨items, fp.ord, fun ob => ?_⟩
  obtain ⟨r1, r2, r3⟩ := save_reload_text e lx ver rarms items info ch cm (fp.canon ob.pos) (streamLex_of_filePost fp)
    (writable_of_filePost hin.strict hroot fp _ ob.pos (seqOk_of_filePost hseqT fp _) ob.last)
  refine ⟨r1, r2, ?_⟩
  have hfuel := run_fuel_ok (mkC e lx #[] ver) hseqT harr (OT.fixL false items) rarms false
    (wfL_fixL _ items false rarms false fp.wf) lx
  obtain ⟨v', s', p1, p2, p3⟩ := r3 _ hfuel
  exact ⟨v', s', p1, p2, p3 fp.ord
    (fixL_of_noBump items false fp.nb (lexWL_of (mkC e lx #[] ver) items rarms false fp.wf fp.lexv) fp.eokL) h1 h2⟩

end

/-! ## non-vacuity: the sample text, tokenized -/

deriving instance DecidableEq for PTok

namespace SampleText
open A2l.Lex

/-- the sample text of Lemmas/RT/Sample.lean (`Sample.text_items`) -/
def chars : List Char := " V 1 71\n/begin P p \"hi\" ON\n /* c */\n  C 0x5\n/end P".toList
def bytes : Bytes := (chars.map asciiB).toArray

theorem bytes_eq : bytes = (encL chars).toArray := by decide +kernel

def ts : List Token :=
  [⟨.identifier, 1, 2, 1⟩, ⟨.number, 3, 4, 1⟩, ⟨.number, 5, 7, 1⟩, ⟨.begin, 8, 14, 2⟩, ⟨.identifier, 15, 16, 2⟩,
   ⟨.identifier, 17, 18, 2⟩, ⟨.string, 19, 23, 2⟩, ⟨.identifier, 24, 26, 2⟩, ⟨.comment, 27, 35, 3⟩,
   ⟨.identifier, 38, 39, 4⟩, ⟨.number, 40, 43, 4⟩, ⟨.end_, 44, 48, 5⟩, ⟨.identifier, 49, 50, 5⟩]

theorem lexes : tokenize bytes = .ok ts := by decide +kernel

/-- the converted tokens are the tokens of `SampleIn.eS` -/
theorem toks_eq : SampleIn.eS.toks = (ts.map (convTok Sample.lx bytes)).toArray := by decide +kernel

theorem textOk : TextOk bytes ts := by
  refine ⟨by decide, ?_, ?_⟩
  · have key : ∀ t ∈ ts, t.ttype = .identifier →
        (match bytes[t.startpos]? with | some c => (isAlpha c || c == 95) | none => true) = true := by decide +kernel
    intro t ht hty c hc
    have := key t ht hty
    rw [hc] at this
    exact this
  · have key : ∀ t ∈ ts, t.ttype = .comment →
        encL (decodeL (bytes.extract t.startpos t.endpos).toList) = (bytes.extract t.startpos t.endpos).toList := by
      decide +kernel
    intro t ht hty
    exact ⟨_, (key t ht hty).symm⟩

theorem runs : ∃ v s, runParseFile SampleIn.eS = .ok v s := by
  have h : SampleIn.okB (runParseFile SampleIn.eS) = true := by decide +kernel
  cases hp : runParseFile SampleIn.eS with
  | ok v s => exact ⟨v, s, rfl⟩
  | err d s => rw [hp] at h; cases h
  | panic => rw [hp] at h; cases h
  | fuel => rw [hp] at h; cases h

end SampleText

end A2l.Tree
