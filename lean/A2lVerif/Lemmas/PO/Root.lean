import A2lVerif.Lemmas.PO.File
/-! # C02 / C01 gap, fragment "file": the first item of the root's tagged loop is the version keyword -/
namespace A2l.Tree
open A2l.G A2l.Sc

section
variable {e : Env} {lx : LexEnv} (hin : InOk e lx)
include hin

omit hin in
/-- leading comments of a parent that is not a block are dropped -/
theorem tagged_skip_comments {ctx : Ctx} {arms : List Arm} {ch : List (List Val)} {cm : List Cmt}
    {r : List (List Val) × List Cmt} {s' : PState} {t : PTok} (htnc : t.ty ≠ 6) : ∀ (cs : List PTok) (fuel : Nat)
    (s : PState) (p1 : Nat), seg e s.pos p1 = cs ++ [t] → (∀ x ∈ cs, x.ty = 6) → p1 ≤ e.toks.size →
    parseTagged fuel ctx arms false ch cm e s = .ok r s' →
    ∃ fuel' s0, s0.pos + 1 = p1 ∧ s0.seqId = s.seqId ∧ s0.ver = s.ver ∧ s.pos ≤ s0.pos ∧
      parseTagged fuel' ctx arms false ch cm e s0 = .ok r s' ∧ e.toks[s0.pos]? = some t ∧
      ∀ x ∈ seg e s.pos s0.pos, x.ty = 6
  | [], fuel, s, p1, hseg, _, hsz, h => by
    have h0 := seg_head e hseg
    have hl := seg_length e (a := s.pos) hsz
    rw [hseg] at hl
    simp only [List.nil_append, List.length_cons, List.length_nil] at hl
    refine ⟨fuel, s, by omega, rfl, rfl, Nat.le_refl _, h, h0, by rw [seg_self]; simp⟩
  | c :: cs, fuel, s, p1, hseg, hc, hsz, h => by
    have h0 := seg_head e hseg
    have hl := seg_length e (a := s.pos) hsz
    rw [hseg] at hl
    simp only [List.cons_append, List.length_cons, List.length_append, List.length_nil] at hl
    have hc6 : c.ty = 6 := hc c List.mem_cons_self
    cases fuel with
    | zero => rw [parseTagged] at h; cases h
    | succ fuel =>
      rw [parseTagged] at h
      obtain ⟨bc, s1, h1, h2⟩ := bind_eq_ok h
      have hnt := getNextTagOrComment_ok h1
      cases bc with
      | none =>
        obtain ⟨-, -, -, hpk⟩ := hnt
        exact absurd hc6 (hpk c h0).1
      | block tok isBlock off =>
        exfalso
        cases isBlock with
        | true =>
          obtain ⟨tb, htb, hb, -⟩ := hnt
          rw [h0] at htb; cases htb
          rw [hc6] at hb; cases hb
        | false =>
          obtain ⟨-, hty, htk, -⟩ := hnt
          rw [h0] at htk; cases htk
          rw [hc6] at hty; cases hty
      | comment tok off =>
        obtain ⟨htk, -, rfl⟩ := hnt
        simp only [Bool.false_eq_true, if_false] at h2
        have hseg' : seg e (s.pos + 1) p1 = cs ++ [t] := by
          rw [seg_cons e h0 (by omega)] at hseg
          simpa using hseg
        obtain ⟨fuel', s0, a1, a2, a3, a4, a5, a6, a7⟩ := tagged_skip_comments htnc cs fuel { s with pos := s.pos + 1 } p1 hseg'
          (fun x hx => hc x (List.mem_cons_of_mem _ hx)) hsz h2
        refine ⟨fuel', s0, a1, a2, a3, by simp at a4; omega, a5, a6, ?_⟩
        intro x hx
        have hp : s.pos < s0.pos := by simp at a4; omega
        rw [seg_cons e h0 hp] at hx
        rcases List.mem_cons.1 hx with rfl | hx
        · exact hc6
        · exact a7 x hx

omit hin in
/-- **the first turn of the root's loop that sees a keyword tag** (strict mode; the loop ran to the end of the file) -/
theorem root_first (hst : e.strict = true) {fuel : Nat} {ctx : Ctx} {arms : List Arm} {ch : List (List Val)}
    {cm : List Cmt} {r : List (List Val) × List Cmt} {s s' : PState} {t : PTok}
    (h : parseTagged fuel ctx arms false ch cm e s = .ok r s') (ht : e.toks[s.pos]? = some t) (hty : t.ty = 0)
    (hend : e.toks[s'.pos]? = none) :
    ∃ fuel' off s1 i arm s2 v s3, NextTagPost e s (.block t false off) s1 ∧
      arms.findIdx? (·.tag == t.sym) = some i ∧ arms[i]? = some arm ∧ arm.block = false ∧
      ¬ (arm.vlo ≠ 0 ∧ s1.ver < arm.vlo) ∧ s2.pos = s1.pos ∧ s2.seqId = s1.seqId ∧ s2.ver = s1.ver ∧
      parseType fuel' arm.ty ⟨t.text, t.fileid, t.line⟩ off e s2 = .ok v s3 ∧
      (arm.repeat_ = false → ∀ cs, ch[i]? = some cs → cs = []) ∧
      parseTagged fuel' ctx arms false (setAt ch i (· ++ [v])) cm e s3 = .ok r s' := by
  cases fuel with
  | zero => rw [parseTagged] at h; cases h
  | succ fuel =>
    have horig := h
    rw [parseTagged] at h
    obtain ⟨bc, s1, h1, h2⟩ := bind_eq_ok h
    have hnt := getNextTagOrComment_ok h1
    cases bc with
    | none =>
      obtain ⟨-, -, -, hpk⟩ := hnt
      exact absurd hty (hpk t ht).2.2
    | comment tok off =>
      obtain ⟨htk, h6, -⟩ := hnt
      rw [ht] at htk; cases htk
      rw [hty] at h6; cases h6
    | block tok isBlock off =>
      cases isBlock with
      | true =>
        obtain ⟨tb, htb, hb, -⟩ := hnt
        rw [ht] at htb; cases htb
        rw [hty] at hb; cases hb
      | false =>
        have hnt' := hnt
        obtain ⟨o1, -, htk, hp1⟩ := hnt
        rw [ht] at htk; cases htk
        cases hfi : arms.findIdx? (·.tag == t.sym) with
        | none =>
          exfalso
          dsimp -zeta only at h2
          rw [hfi] at h2
          simp only [Bool.false_eq_true, if_false, undo_bind] at h2
          split at h2
          · cases h2
          · cases h2
            have : (s1.pos - 1) < e.toks.size := by
              have := lt_of_getElem?_some ht; omega
            simp only at hend
            rw [getElem?_pos e.toks _ this] at hend; cases hend
        | some i =>
          obtain ⟨hi, -, -⟩ := List.findIdx?_eq_some_iff_getElem.1 hfi
          have harm : arms[i]? = some arms[i] := List.getElem?_eq_getElem hi
          obtain ⟨hform, hnew, s2, v, s3, p2, q2, v2, h5, hempty, h8⟩ := tagged_child_inv hst horig h1 hfi harm
          exact ⟨fuel, off, s1, i, arms[i], s2, v, s3, hnt', rfl, harm, hform, hnew, p2, q2, v2, h5, hempty, h8⟩

end
end A2l.Tree
