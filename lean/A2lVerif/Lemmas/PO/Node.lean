import A2lVerif.Lemmas.PO.Loop
/-! # C02 / C01 gap, fragment "node": `T::parse` on arbitrary input (strict mode), and the induction on the fuel -/
namespace A2l.Tree
open A2l.G A2l.Sc

theorem fieldWf_shape (c : RCfg) {it : ItemTy} {v : Val} (h : FieldWf c it v) : FieldShape v := by
  cases it with
  | arr of n =>
    cases v <;> simp only [FieldWf] at h
    case arr vs => exact fun x hx => elemOk_shape c (h.2 x hx)
  | seq of stop =>
    cases v <;> simp only [FieldWf] at h
    case seq vs => exact fun x hx => elemOk_shape c (h.1 x hx)
  | ident => have := elemOk_shape c (it := .ident) h; cases v <;> first | exact this | (simp [ElemShape, Val.isScalar] at this)
  | string => have := elemOk_shape c (it := .string) h; cases v <;> first | exact this | (simp [ElemShape, Val.isScalar] at this)
  | double => have := elemOk_shape c (it := .double) h; cases v <;> first | exact this | (simp [ElemShape, Val.isScalar] at this)
  | float => have := elemOk_shape c (it := .float) h; cases v <;> first | exact this | (simp [ElemShape, Val.isScalar] at this)
  | int w => have := elemOk_shape c (it := .int w) h; cases v <;> first | exact this | (simp [ElemShape, Val.isScalar] at this)
  | strMax n => have := elemOk_shape c (it := .strMax n) h; cases v <;> first | exact this | (simp [ElemShape, Val.isScalar] at this)
  | enumRef ty => have := elemOk_shape c (it := .enumRef ty) h; cases v <;> first | exact this | (simp [ElemShape, Val.isScalar] at this)
  | structRef ty => have := elemOk_shape c (it := .structRef ty) h; cases v <;> first | exact this | (simp [ElemShape, Val.isScalar] at this)

theorem fieldsWf_shape (c : RCfg) : ∀ (its : List ItemTy) (fs : List Val), FieldsWf c its fs → ∀ f ∈ fs, FieldShape f
  | [], [], _ => by simp
  | [], _ :: _, h => by simp [FieldsWf] at h
  | _ :: _, [], h => by simp [FieldsWf] at h
  | it :: its, v :: vs, h => by
    intro x hx
    rcases List.mem_cons.1 hx with rfl | hx
    · exact fieldWf_shape c h.1
    · exact fieldsWf_shape c its vs h.2 x hx

/-- the multiplicity checks behind the tagged loop passed (strict mode): no required arm is empty -/
theorem multCheck_ok {e : Env} (hst : e.strict = true) : ∀ (zs : List (Arm × List Val)) (s s' : PState),
    zs.foldlM (fun (_ : Unit) (ac : Arm × List Val) =>
        if ac.1.required ∧ ac.2.isEmpty then
          (if ac.1.repeat_ then errorOrLog .invalidMultiplicityNotPresent else fail .invalidMultiplicityNotPresent)
        else (pure () : PM Unit)) () e s = .ok () s' →
    s' = s ∧ ∀ z ∈ zs, ¬ (z.1.required = true ∧ z.2.isEmpty = true)
  | [], s, s', h => by
    rw [List.foldlM_nil] at h
    cases h
    exact ⟨rfl, by simp⟩
  | z :: zs, s, s', h => by
    rw [List.foldlM_cons] at h
    obtain ⟨u, s1, h1, h2⟩ := bind_eq_ok h
    by_cases hc : z.1.required = true ∧ z.2.isEmpty = true
    · exfalso
      rw [if_pos hc] at h1
      cases hr : z.1.repeat_ with
      | true => rw [hr] at h1; simp only [if_true] at h1; rw [errorOrLog_strict' hst] at h1; cases h1
      | false => rw [hr] at h1; cases h1
    · rw [if_neg hc] at h1
      cases h1
      obtain ⟨rfl, hall⟩ := multCheck_ok hst zs s s' h2
      refine ⟨rfl, ?_⟩
      intro x hx
      rcases List.mem_cons.1 hx with rfl | hx
      · exact hc
      · exact hall x hx

/-- the multiplicities of a tagged part whose loop and checks passed in strict mode -/
theorem multOk_of_check {e : Env} {arms : List Arm} {items : List OT} {ch : List (List Val)}
    {sub : List (List (List OT))} {cm : List Cmt} {R : List GE} {q : Nat} (inv : LInv e arms items ch sub cm R q)
    (nr : NR arms items) (hmult : ∀ z ∈ arms.zip ch, ¬ (z.1.required = true ∧ z.2.isEmpty = true)) :
    MultOk true arms items := by
  refine MultOk_strict_of nr ?_
  intro j a ha hreq h0
  have hj : j < ch.length := by
    rw [inv.len1]; exact (List.getElem?_eq_some_iff.1 ha).1
  have hcs : ch[j]? = some ch[j] := List.getElem?_eq_getElem hj
  have hz : (a, ch[j]) ∈ arms.zip ch :=
    List.mem_of_getElem? (List.getElem?_zip_eq_some.2 ⟨ha, hcs⟩)
  have hcnt := inv.cnt j _ hcs
  apply hmult _ hz
  refine ⟨hreq, ?_⟩
  simp only [List.isEmpty_iff]
  exact List.eq_nil_of_length_eq_zero (by rw [hcnt]; exact h0)

section
variable {e : Env} {lx : LexEnv} (hin : InOk e lx) (X : Array PTok)
include hin

/-- `/end TAG` -/
theorem closing_ok {ctx : Ctx} {s : PState} {g : Nat → Val} {v : Val} {s' : PState}
    (h : (do
      let _ ← expectToken ctx 2
      let endOff ← getLineOffset
      let ident ← getIdentifier ctx
      if ident ≠ ctx.element then errorOrLog .incorrectEndTag
      pure (g endOff) : PM Val) e s = .ok v s') :
    ∃ eo, v = g eo ∧ Adv2 s s' ∧ (∀ ind, TSim lx (seg e s.pos s'.pos) (closeToks ind ctx.element true eo)) ∧
      (∀ tc, 1 ≤ s.pos → e.toks[s.pos - 1]? = some tc → tc.ty = 6 → isLineCmt tc.text = true →
        (∀ t0, e.toks[s.pos]? = some t0 → t0.ty ≠ 6) → 1 ≤ eo) ∧ s.pos < e.toks.size := by
  have hst := hin.strict
  obtain ⟨t2, s1, h1, h2⟩ := bind_eq_ok h
  obtain ⟨eo, s2, h3, h4⟩ := bind_eq_ok h2
  have hs2 := getLineOffset_ok h3
  rw [hs2] at h3 h4
  clear hs2 s2
  obtain ⟨ident, s3, h5, h6⟩ := bind_eq_ok h4
  obtain ⟨hne, h7⟩ := condE_ok hst (f := fun _ => (pure (g eo) : PM Val)) h6
  cases h7
  obtain ⟨o1, hty1, -, -⟩ := expectToken_ok h1
  obtain ⟨t, o2, hty2, htext, -⟩ := getIdentifier_ok hst h5
  have hid : ident = ctx.element := by
    by_cases hh : ident = ctx.element
    · exact hh
    · exact absurd hh hne
  refine ⟨eo, rfl, o1.fwd.trans o2.fwd, fun ind => ?_, ?_,
    by have := lt_of_getElem?_some o1.last; have := o1.pos; omega⟩
  · rw [← seg_append e o1.fwd.pos o2.fwd.pos]
    simp only [closeToks, if_true]
    have s1' := o1.sim (lx := lx) (TokSim.end_ t2 ⟨2, endText, eo, ind⟩ hty1 rfl rfl)
    have s2' := o2.sim (lx := lx) (TokSim.ident t ⟨0, ctx.element, 0, ind⟩ hty2 rfl (by rw [← hid, htext]))
    exact s1'.append s2'
  · intro tc hp1 htc h6 hline hnc
    have hlt : s.pos < e.toks.size := by have := lt_of_getElem?_some o1.last; have := o1.pos; omega
    have h0 := getElem?_pos e.toks s.pos hlt
    obtain ⟨r1, r2⟩ := o1.first h0 (hnc _ h0)
    have hsz : s1.pos < e.toks.size := by have := lt_of_getElem?_some o2.last; have := o2.pos; omega
    have hval := getLineOffset_val h3 (by omega) hsz (prev := tc) (cur := t2)
      (by rw [r2]; simpa using htc) (by rw [r2, r1]; simpa using h0)
      (by rw [hin.fid _ tc htc, hin.fid _ t2 (by rw [r1]; exact h0)])
    rw [if_pos h6] at hval
    have := hin.lineCmt (s.pos - 1) tc t2 htc h6 hline (by rw [show s.pos - 1 + 1 = s.pos by omega, r1]; exact h0)
    omega

/-- **`T::parse`** -/
theorem type_step (hshape : shapeOk e.table = true) (htags : TagsOk e) (hns : NoSpecialOk e) (fuel : Nat)
    (ihL : TaggedGoal e lx X fuel) : TypeGoal e lx X (fuel + 1) := by
  intro ty ctx off s v s' h hfid
  have hst := hin.strict
  cases hl : e.table.lookup ty with
  | none => rw [parseType] at h; simp only [getEnv_bind, hl] at h; cases h
  | some d =>
    cases d with
    | enum _ => rw [parseType] at h; simp only [getEnv_bind, hl] at h; cases h
    | «opaque» => rw [parseType] at h; simp only [getEnv_bind, hl] at h; cases h
    | special =>
      rw [parseType] at h
      simp only [getEnv_bind, hl] at h
      exact absurd h (hns ty ctx off s v s' hl)
    | block isB its arms ht =>
      rw [parseType_block_unfold fuel ty ctx off e s hl] at h
      obtain ⟨hits, harmsB, hnoarms⟩ := shapeOk_block hshape hl
      have harms : ArmsOk e arms := ⟨harmsB, fun a ha => (htags ty isB its arms ht hl a ha).1,
        fun a ha => (htags ty isB its arms ht hl a ha).2⟩
      unfold typeBody at h
      obtain ⟨fields, s1, h1, h2⟩ := bind_eq_ok h
      obtain ⟨f1, fwf1, sim1, lexf1, seq1⟩ := parseItems_post hin X ctx fuel its (fun it hit => List.all_eq_true.1 hits it hit) _ fields s1 h1
      have hver0 : ({ s with seqId := s.seqId + 1 } : PState).ver = s.ver := rfl
      rw [hver0] at fwf1 seq1
      have hfs : ∀ f ∈ fields, FieldShape f := shape_of_norm rfl (fieldsWf_shape _ its _ fwf1)
      dsimp only at h2
      have h2' : ((if ht = true then parseTagged fuel ctx arms isB (arms.map fun _ => []) [] else pure ([], [])) >>=
          fun (x : List (List Val) × List Cmt) => (do
            let _ ← (arms.zip x.1).foldlM (fun (_ : Unit) (ac : Arm × List Val) =>
              if ac.1.required ∧ ac.2.isEmpty then
                (if ac.1.repeat_ then errorOrLog .invalidMultiplicityNotPresent else fail .invalidMultiplicityNotPresent)
              else pure ()) ()
            if isB then do
              let _ ← expectToken ctx 2
              let endOff ← getLineOffset
              let ident ← getIdentifier ctx
              if ident ≠ ctx.element then errorOrLog .incorrectEndTag
              pure (.block ty ⟨ctx.line, s.seqId + 1, off, endOff, ctx.fileid⟩ fields x.1 x.2)
            else
              pure (.block ty ⟨ctx.line, s.seqId + 1, off, 0, ctx.fileid⟩ fields x.1 x.2) : PM Val)) e s1 = .ok v s' := by
        cases ht
        · simp only [Bool.false_eq_true, if_false] at h2 ⊢; exact h2
        · simp only [if_true] at h2 ⊢; exact h2
      clear h2
      obtain ⟨⟨children, comments⟩, s2, h3, h4⟩ := bind_eq_ok h2'
      dsimp only at h4
      obtain ⟨u, s3, h5, h6⟩ := bind_eq_ok h4
      obtain ⟨hs3, hmult⟩ := multCheck_ok hst _ _ _ h5
      rw [hs3] at h6
      clear hs3 h5 s3
      -- the tagged part
      have htag : ∃ items, Adv2 s1 s2 ∧ (ht = false → items = []) ∧ OT.wfL (mkC e lx X s.ver) arms isB items ∧
          MultOk true arms items ∧ OT.lexVL items ∧ OT.endOkL items ∧
          (isB = true → ∀ text off, items.getLast? = some (.cmt text off) →
            1 ≤ s2.pos ∧ ∃ t, e.toks[s2.pos - 1]? = some t ∧ t.ty = 6 ∧ t.text = text) ∧
          (isB = true → ht = true → ∀ t0, e.toks[s2.pos]? = some t0 → t0.ty ≠ 6) ∧
          (∀ info, info.fileid = 0 → InOrder e (.block ty info fields children comments) items) ∧
          (∀ info, (OT.posAll e.code items → Canon e (.block ty info fields children comments) items) ∧
            ∃ items', OT.SibPL e.code items items' ∧ Canon e (.block ty info fields children comments) items') ∧
          ((isB = true ∨ ht = false ∨ e.toks[s2.pos]? = none) → ∀ tail, NextRel (tailFrom e s2.pos) tail → FollowId tail →
            ∀ ind, OT.idSeqOkL (mkC e lx X s.ver) ind items tail) ∧
          ((isB = true → s2.pos < e.toks.size) → OT.noBumpL false items) ∧
          ((isB = true ∨ ht = false ∨ e.toks[s2.pos]? = none) → ∀ ind, TSim lx (seg e s1.pos s2.pos) (OT.toksL ind items)) := by
        cases hht : ht with
        | false =>
          rw [hht] at h3 hl
          simp only [Bool.false_eq_true, if_false] at h3
          cases h3
          have ha := hnoarms hht
          subst ha
          refine ⟨[], Adv2.refl _, fun _ => rfl, trivial, ?_, trivial, trivial, (fun _ _ _ h => by simp at h),
            (fun _ h => by cases h), ?_, ?_, (fun _ _ _ _ _ => trivial), (fun _ => by simp [OT.noBumpL]),
            fun _ _ => by rw [seg_self]; exact TSim.nil⟩
          · intro j a ha; simp at ha
          · intro info hfid'
            exact InOrder.mk (e := e) (info := info) (fields := fields) (children := []) (comments := []) (items := [])
              hl [] (by intro h; cases h) rfl (by simp) (by intro h; cases h) (by intro h; cases h) (by simp) (by simp)
              (fun _ => ⟨rfl, rfl⟩) hfid' (by simp)
          · intro info
            have := Canon.mk (e := e) (info := info) (fields := fields) (children := []) (comments := []) hl []
              (by intro h; cases h) rfl (by simp) (by simp) (by simp) (by simp) hfs
            simp only [Bool.false_eq_true, if_false] at this
            exact ⟨fun _ => this, [], .nil, this⟩
        | true =>
          rw [hht] at h3 hl
          simp only [if_true] at h3
          obtain ⟨xs, sub', cm', R', hcm, inv', nr', res'⟩ := ihL ctx arms isB _ [] s1 children comments s2 h3 hfid harms
            [] _ [] (LInv.init e arms s1.seqId) (by intro j a _ _; simp)
          simp only [List.nil_append] at inv' nr'
          have hver1 : s1.ver = s.ver := f1.ver
          rw [hver1] at res'
          subst hcm
          have hcv : (isB = true ∨ true = false ∨ e.toks[s2.pos]? = none) → (isB = true ∨ e.toks[s2.pos]? = none) := by
            intro hc
            rcases hc with hc | hc | hc
            · exact .inl hc
            · cases hc
            · exact .inr hc
          refine ⟨xs, res'.fwd, (fun h => by cases h), res'.wf, ?_, res'.lexv, res'.eokL, ?_, (fun hb _ => res'.endnc hb),
            ?_, ?_, (fun hc => res'.idseq (hcv hc)), (fun hsz => res'.nb hsz false (fun h => by cases h)), ?_⟩
          · exact multOk_of_check inv' nr' hmult
          · intro hb text off' hl
            obtain ⟨a1, a2⟩ := res'.lastCmt hb text off' hl
            exact ⟨by omega, a2⟩
          · intro info hfid'
            exact inv'.toInOrder hl info hfid' fields
          · intro info
            exact ⟨fun hpa => inv'.toCanon hl hpa info fields hfs, inv'.toSibCanon hl info fields hfs⟩
          · intro hc ind
            refine res'.sim ?_ ind
            rcases hc with hc | hc | hc
            · exact .inl hc
            · cases hc
            · exact .inr hc
      obtain ⟨items, f2, hnil, hwfl, hmo, hlexv, heokL, hlastc, hendnc, hord, hcan, hidL, hnb, sim2⟩ := htag
      have hidkey : (isB = true ∨ ht = false ∨ e.toks[s2.pos]? = none) → ∀ cl, NextRel (tailFrom e s2.pos) cl → FollowId cl →
          ∀ ind', (∀ stop, its.getLast? = some (.seq .ident stop) →
            SeqStops (mkC e lx X s.ver) .ident stop (nextNC (OT.toksL ind' items ++ cl))) ∧
            OT.idSeqOkL (mkC e lx X s.ver) ind' items cl := by
        intro hc cl hnr hfi ind'
        refine ⟨fun stop hlast => ?_, hidL hc cl hnr hfi ind'⟩
        refine seq1 stop hlast _ ?_ (followId_toksL _ hst ind' arms isB cl items hwfl hfi)
        rw [tailFrom_seg e f2.pos]
        exact NextRel.of_sim (sim2 hc ind') hnr
      have hs1seq : s.seqId + 1 ≤ s1.seqId := f1.seq
      have hf12 : Adv2 s s2 := ⟨Nat.le_trans f1.pos f2.pos, by have := f2.seq; omega, by rw [f2.ver, f1.ver]⟩
      have hsim12 : (isB = true ∨ ht = false ∨ e.toks[s2.pos]? = none) → ∀ ind, TSim lx (seg e s.pos s2.pos)
          (fieldsToks ind fields ++ OT.toksL ind items) := by
        intro hc ind
        have hp1 : s.pos ≤ s1.pos := f1.pos
        rw [← seg_append e hp1 f2.pos]
        exact (sim1 ind).append (sim2 hc ind)
      cases hB : isB with
      | false =>
        rw [hB] at h6
        simp only [Bool.false_eq_true, if_false] at h6
        cases h6
        refine ⟨_, fields, children, comments, items, false, its, arms, ht, rfl, ?_⟩
        rw [hB] at hl hwfl
        refine ⟨hf12, hl, Nat.lt_succ_self _, (by have := f2.seq; show s.seqId + 1 ≤ s'.seqId; omega), rfl, hfid,
          (fun _ => rfl), fwf1, hnil, hwfl, hmo, hord _ hfid, (hcan _).1, (hcan _).2, lexf1, hlexv, (fun h => by cases h), heokL,
          hnb (fun h => by rw [hB] at h; cases h), ?_, ?_⟩
        · intro hc rest hnr hfi ind ind'
          have := hidkey (by rw [hB]; exact hc) rest hnr hfi ind'
          simpa [closeToks] using this
        intro hc ind ind'
        have := hsim12 (by rw [hB]; exact hc) ind'
        simp only [closeToks, Bool.false_eq_true, if_false, List.append_nil]
        exact this
      | true =>
        rw [hB] at h6
        simp only [if_true] at h6
        obtain ⟨eo, rfl, f3, sim3, heo, hsz2⟩ := closing_ok hin (g := fun endOff =>
          Val.block ty ⟨ctx.line, s.seqId + 1, off, endOff, ctx.fileid⟩ fields children comments) h6
        refine ⟨_, fields, children, comments, items, true, its, arms, ht, rfl, ?_⟩
        rw [hB] at hl hwfl
        refine ⟨hf12.trans f3, hl, Nat.lt_succ_self _,
          (by have := f2.seq; have := f3.seq; show s.seqId + 1 ≤ s'.seqId; omega),
          rfl, hfid, (fun h => by cases h), fwf1, hnil, hwfl, hmo, hord _ hfid, (hcan _).1, (hcan _).2, lexf1, hlexv, ?_, heokL,
          hnb (fun _ => hsz2), ?_, ?_⟩
        · intro _ text off' hl hline
          obtain ⟨hp1, tc, htc, h6c, htx⟩ := hlastc hB text off' hl
          have hht : ht = true := by
            cases hht : ht with
            | true => rfl
            | false => rw [hnil hht] at hl; simp at hl
          exact heo tc hp1 htc h6c (by rw [htx]; exact hline) (hendnc hB hht)
        · intro _ rest hnr hfi ind ind'
          refine hidkey (.inl hB) _ ?_ ?_ ind'
          · rw [tailFrom_seg e f3.pos]
            exact NextRel.of_sim (sim3 ind) hnr
          · intro w hw h0
            simp [closeToks, nextNC] at hw
            rw [← hw] at h0
            cases h0
        intro _ ind ind'
        have h12 := hsim12 (.inl hB) ind'
        rw [← seg_append e hf12.pos f3.pos]
        have := h12.append (sim3 ind)
        simp only [List.append_assoc] at this
        exact this

/-- **every block / keyword value the parser returns is well-formed**, by induction on the fuel -/
theorem parse_goals (hshape : shapeOk e.table = true) (htags : TagsOk e) (hns : NoSpecialOk e) :
    ∀ fuel, TypeGoal e lx X fuel ∧ TaggedGoal e lx X fuel
  | 0 => by
    refine ⟨?_, ?_⟩
    · intro ty ctx off s v s' h; rw [parseType] at h; cases h
    · intro ctx arms pib ch cm s ch' cmR s' h; rw [parseTagged] at h; cases h
  | fuel + 1 => by
    obtain ⟨ihT, ihL⟩ := parse_goals hshape htags hns fuel
    exact ⟨type_step hin X hshape htags hns fuel ihL, tagged_step hin X fuel ihT ihL⟩

end
end A2l.Tree
