import A2lVerif.Lemmas.PO.Node
import A2lVerif.Lemmas.PO.IntLit
/-! # C02 / C01 gap, fragment "file": `parse_version` and `parse_file` on arbitrary input (strict mode) -/
namespace A2l.Tree
open A2l.G A2l.Sc

/-! ## the version keyword: two integers, read the same way by `parse_version` and by the root's tagged loop -/

theorem parseItems_two_ints_inv {fuel : Nat} {ctx : Ctx} {a b : Nat} {e : Env} {s : PState} {fs : List Val} {s' : PState}
    (h : parseItems fuel ctx [.int a, .int b] e s = .ok fs s') :
    ∃ t1 x hx ox sm t2 y hy oy, fs = [.int x hx ox a, .int y hy oy b] ∧ OneTok e s t1 sm ∧
      parseInt (intTyOf a) t1.text = some (x, hx) ∧ OneTok e sm t2 s' ∧ parseInt (intTyOf b) t2.text = some (y, hy) := by
  cases fuel with
  | zero => rw [parseItems] at h; cases h
  | succ fuel =>
    rw [parseItems] at h
    obtain ⟨v1, s1, h1, h⟩ := bind_eq_ok h
    obtain ⟨vs1, s2, h2, h⟩ := bind_eq_ok h
    cases h
    obtain ⟨t1, x, hx, ox, o1, -, rfl, p1⟩ := parseItem_int_inv h1
    cases fuel with
    | zero => rw [parseItems] at h2; cases h2
    | succ fuel =>
      rw [parseItems] at h2
      obtain ⟨v2, s3, h3, h2⟩ := bind_eq_ok h2
      obtain ⟨vs2, s4, h4, h2⟩ := bind_eq_ok h2
      cases h2
      obtain ⟨t2, y, hy, oy, o2, -, rfl, p2⟩ := parseItem_int_inv h3
      cases fuel with
      | zero => rw [parseItems] at h4; cases h4
      | succ fuel =>
        rw [parseItems] at h4
        cases h4
        exact ⟨t1, x, hx, ox, s1, t2, y, hy, oy, rfl, o1, p1, o2, p2⟩

/-- a type of the shape of `ASAP2_VERSION`: the value, and where its integers come from -/
theorem versionType_inv {fuel ty : Nat} {ctx : Ctx} {off : Nat} {e : Env} {s : PState} {v : Val} {s' : PState} {a b : Nat}
    (hlk : e.table.lookup ty = some (.block false [.int a, .int b] [] false))
    (h : parseType fuel ty ctx off e s = .ok v s') :
    ∃ info t1 x hx ox sm t2 y hy oy, v = .block ty info [.int x hx ox a, .int y hy oy b] [] [] ∧
      OneTok e { s with seqId := s.seqId + 1 } t1 sm ∧ parseInt (intTyOf a) t1.text = some (x, hx) ∧
      OneTok e sm t2 s' ∧ parseInt (intTyOf b) t2.text = some (y, hy) := by
  cases fuel with
  | zero => rw [parseType] at h; cases h
  | succ fuel =>
    rw [parseType] at h
    simp only [getEnv_bind, hlk, getNextId_bind] at h
    obtain ⟨fields, s1, h1, h⟩ := bind_eq_ok h
    obtain ⟨t1, x, hx, ox, sm, t2, y, hy, oy, rfl, o1, p1, o2, p2⟩ := parseItems_two_ints_inv h1
    simp only [Bool.false_eq_true, if_false, pure_bind_eval, List.zip_nil_left, List.foldlM_nil] at h
    cases h
    exact ⟨_, t1, x, hx, ox, sm, t2, y, hy, oy, rfl, o1, p1, o2, p2⟩

/-- two runs of such a type from the same cursor position read the same two integers -/
theorem versionType_det {f1 f2 ty : Nat} {c1 c2 : Ctx} {o1 o2 : Nat} {e : Env} {s1 s2 : PState} {v1 v2 : Val}
    {s1' s2' : PState} {a b : Nat} (hlk : e.table.lookup ty = some (.block false [.int a, .int b] [] false))
    (h1 : parseType f1 ty c1 o1 e s1 = .ok v1 s1') (h2 : parseType f2 ty c2 o2 e s2 = .ok v2 s2') (hp : s1.pos = s2.pos) :
    ∃ i1 i2 x hx y hy ox oy ox' oy', v1 = .block ty i1 [.int x hx ox a, .int y hy oy b] [] [] ∧
      v2 = .block ty i2 [.int x hx ox' a, .int y hy oy' b] [] [] := by
  obtain ⟨i1, t1, x, hx, ox, sm, t2, y, hy, oy, rfl, a1, p1, a2, p2⟩ := versionType_inv hlk h1
  obtain ⟨i2, t1', x', hx', ox', sm', t2', y', hy', oy', rfl, b1, q1, b2, q2⟩ := versionType_inv hlk h2
  obtain ⟨r1, r2⟩ := a1.unique b1 hp
  subst r1
  obtain ⟨r3, -⟩ := a2.unique b2 r2
  subst r3
  rw [p1] at q1
  rw [p2] at q2
  cases q1
  cases q2
  exact ⟨i1, i2, x, hx, y, hy, ox, oy, ox', oy', rfl, rfl⟩

section
variable {e : Env} {lx : LexEnv} (hin : InOk e lx)
include hin

/-- **`parse_version` in strict mode**: the first significant token is the version tag, `ASAP2_VERSION::parse` behind it
    succeeds with a known version; the cursor is reset to 0 -/
theorem parseVersion_ok {fuel : Nat} {ctx : Ctx} {s : PState} {ver : Nat} {s' : PState}
    (h : parseVersion fuel ctx e s = .ok ver s') :
    ∃ t s1 vctx v s2 ty info major h1 o1 w1 minor h2 o2 w2 c1 c2, OneTok e s t s1 ∧ t.ty = 0 ∧
      t.sym = e.known.tagAsap2Version ∧ parseType fuel e.known.tyAsap2Version vctx 0 e s1 = .ok v s2 ∧
      v = .block ty info [.int major h1 o1 w1, .int minor h2 o2 w2] c1 c2 ∧
      versionOf major minor = some ver ∧ s'.pos = 0 ∧ s'.seqId = s2.seqId := by
  have hst := hin.strict
  unfold parseVersion at h
  simp only [getEnv_bind, peekToken_bind] at h
  cases h0 : e.toks[s.pos]? with
  | none =>
    rw [h0] at h
    simp only [setTokenpos_bind] at h
    rw [bind_def, errorOrLogNoLine_strict' hst] at h
    cases h
  | some token =>
    rw [h0] at h
    dsimp only at h
    obtain ⟨r, s1, hr, h⟩ := bind_eq_ok h
    simp only [getState_bind] at h
    unfold attempt at hr
    cases hg : getIdentifier ctx e s with
    | panic => rw [hg] at hr; cases hr
    | fuel => rw [hg] at hr; cases hr
    | err d sx =>
      rw [hg] at hr
      cases hr
      simp only [Bool.false_eq_true, if_false, setTokenpos_bind] at h
      rw [bind_def, errorOrLogNoLine_strict' hst] at h
      cases h
    | ok name sx =>
      rw [hg] at hr
      cases hr
      obtain ⟨t, o1, hty, -, -⟩ := getIdentifier_ok hst hg
      rw [o1.last] at h
      dsimp only at h
      by_cases hv : (t.sym == e.known.tagAsap2Version) = true
      · rw [if_pos hv] at h
        obtain ⟨r2, s2, hr2, h⟩ := bind_eq_ok h
        simp only [setTokenpos_bind] at h
        unfold attempt at hr2
        cases hp : parseType fuel e.known.tyAsap2Version ⟨[], token.fileid, token.line⟩ 0 e s1 with
        | panic => rw [hp] at hr2; cases hr2
        | fuel => rw [hp] at hr2; cases hr2
        | err d sx =>
          rw [hp] at hr2
          cases hr2
          dsimp only at h
          rw [bind_def, errorOrLogNoLine_strict' hst] at h
          cases h
        | ok v sx =>
          rw [hp] at hr2
          cases hr2
          revert h
          generalize hrr : (Except.ok v : Except Diag Val) = rr
          split
          · intro h
            rename_i ty info major hx1 ox1 wx1 minor hx2 ox2 wx2 c1 c2
            cases hrr
            cases hvo : versionOf major minor with
            | none =>
              rw [hvo] at h
              dsimp only at h
              rw [bind_def, errorOrLogNoLine_strict' hst] at h
              cases h
            | some vv =>
              rw [hvo] at h
              cases h
              exact ⟨t, s1, _, _, s2, ty, info, major, hx1, ox1, wx1, minor, hx2, ox2, wx2, c1, c2, o1, hty, by simpa using hv,
                hp, rfl, hvo, rfl, rfl⟩
          · intro h; cases h
          · cases hrr
      · rw [if_neg hv] at h
        simp only [setTokenpos_bind] at h
        rw [bind_def, errorOrLogNoLine_strict' hst] at h
        cases h

end
end A2l.Tree
