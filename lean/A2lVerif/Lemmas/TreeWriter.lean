import A2lVerif.Model.Tree
/-! helper lemmas for C05 (writer structure: chunks, stability, edit locality) -/
namespace A2l.Tree
end A2l.Tree
