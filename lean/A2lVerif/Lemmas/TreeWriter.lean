import A2lVerif.Model.Tree
/-! helper lemmas for C05 (writer structure: chunks, stability, edit locality) -/
namespace A2l.Tree

/-! ## stable insertion: `mergeSort` as an insertion sort -/
section Ins
variable {α : Type _}

/-- stable insertion of an element that stood *in front of* the sorted rest: it goes before the first element it is
    `le` to -/
def ins (le : α → α → Bool) (a : α) : List α → List α
  | [] => [a]
  | b :: s => if le a b then a :: b :: s else b :: ins le a s

theorem ins_append (le : α → α → Bool) (a : α) :
    ∀ (l₁ l₂ : List α), (∀ b ∈ l₁, le a b = false) → (∀ b ∈ l₂, le a b = true) →
      ins le a (l₁ ++ l₂) = l₁ ++ a :: l₂
  | [], [], _, _ => rfl
  | [], b :: l₂, _, h₂ => by simp [ins, h₂ b List.mem_cons_self]
  | b :: l₁, l₂, h₁, h₂ => by
    have hb : le a b = false := h₁ b List.mem_cons_self
    have ih := ins_append le a l₁ l₂ (fun c hc => h₁ c (List.mem_cons_of_mem _ hc)) h₂
    simp [ins, hb, ih]

/-- `mergeSort` puts the head in by stable insertion -/
theorem mergeSort_cons_ins {le : α → α → Bool}
    (trans : ∀ (a b c : α), le a b → le b c → le a c)
    (total : ∀ (a b : α), le a b || le b a)
    (a : α) (l : List α) : (a :: l).mergeSort le = ins le a (l.mergeSort le) := by
  obtain ⟨l₁, l₂, h₁, h₂, h₃⟩ := List.mergeSort_cons trans total a l
  have s := List.pairwise_mergeSort trans total (a :: l)
  rw [h₁] at s
  rw [h₁, h₂]
  symm
  apply ins_append
  · intro b hb
    simpa using h₃ b hb
  · intro b hb
    have := (List.pairwise_append.mp s).2.1
    exact List.rel_of_pairwise_cons this hb

/-- one extra element `x` somewhere in a list -/
def OneMore (x : α) (s s' : List α) : Prop := ∃ l₁ l₂, s = l₁ ++ l₂ ∧ s' = l₁ ++ x :: l₂

theorem ins_oneMore {le : α → α → Bool}
    (trans : ∀ (a b c : α), le a b → le b c → le a c) (a x : α) :
    ∀ (l₁ l₂ : List α), (l₁ ++ x :: l₂).Pairwise (fun a b => le a b) →
      OneMore x (ins le a (l₁ ++ l₂)) (ins le a (l₁ ++ x :: l₂))
  | [], l₂, hs => by
    simp only [List.nil_append, ins]
    cases hax : le a x
    · exact ⟨[], ins le a l₂, by simp, by simp⟩
    · have h2 : ins le a l₂ = a :: l₂ := by
        cases l₂ with
        | nil => rfl
        | cons b l₂ =>
          have hxb : le x b = true := List.rel_of_pairwise_cons hs List.mem_cons_self
          have hab : le a b = true := trans a x b hax hxb
          simp [ins, hab]
      exact ⟨[a], l₂, by simp [h2], by simp⟩
  | b :: l₁, l₂, hs => by
    simp only [List.cons_append, ins]
    cases hab : le a b
    · obtain ⟨m₁, m₂, e₁, e₂⟩ := ins_oneMore trans a x l₁ l₂ (List.Pairwise.of_cons hs)
      exact ⟨b :: m₁, m₂, by simp [e₁], by simp [e₂]⟩
    · exact ⟨a :: b :: l₁, l₂, by simp, by simp⟩

/-- **stability, insertion form**: an element inserted anywhere into the unsorted input appears at one place of the
    sorted output, everything else keeps its order -/
theorem mergeSort_oneMore {le : α → α → Bool}
    (trans : ∀ (a b c : α), le a b → le b c → le a c)
    (total : ∀ (a b : α), le a b || le b a) (x : α) (g₂ : List α) :
    ∀ g₁ : List α, OneMore x ((g₁ ++ g₂).mergeSort le) ((g₁ ++ x :: g₂).mergeSort le)
  | [] => by
    obtain ⟨l₁, l₂, h₁, h₂, -⟩ := List.mergeSort_cons trans total x g₂
    exact ⟨l₁, l₂, by simpa using h₂, by simpa using h₁⟩
  | a :: g₁ => by
    obtain ⟨l₁, l₂, e₁, e₂⟩ := mergeSort_oneMore trans total x g₂ g₁
    have s := List.pairwise_mergeSort trans total (g₁ ++ x :: g₂)
    rw [e₂] at s
    have := ins_oneMore trans a x l₁ l₂ s
    simp only [List.cons_append]
    rw [mergeSort_cons_ins trans total, mergeSort_cons_ins trans total, e₁, e₂]
    exact this

/-- one element exchanged at one place -/
def OneChanged (x x' : α) (s s' : List α) : Prop := ∃ l₁ l₂, s = l₁ ++ x :: l₂ ∧ s' = l₁ ++ x' :: l₂

theorem ins_self_oneChanged {le : α → α → Bool} (x x' : α) (hl : ∀ y, le x y = le x' y) :
    ∀ s : List α, OneChanged x x' (ins le x s) (ins le x' s)
  | [] => ⟨[], [], rfl, rfl⟩
  | b :: s => by
    simp only [ins, ← hl b]
    cases le x b
    · obtain ⟨m₁, m₂, e₁, e₂⟩ := ins_self_oneChanged x x' hl s
      exact ⟨b :: m₁, m₂, by simp [e₁], by simp [e₂]⟩
    · exact ⟨[], b :: s, by simp, by simp⟩

theorem ins_oneChanged {le : α → α → Bool} (a x x' : α) (hr : ∀ y, le y x = le y x') :
    ∀ (l₁ l₂ : List α), OneChanged x x' (ins le a (l₁ ++ x :: l₂)) (ins le a (l₁ ++ x' :: l₂))
  | [], l₂ => by
    simp only [List.nil_append, ins, ← hr a]
    cases le a x
    · exact ⟨[], ins le a l₂, by simp, by simp⟩
    · exact ⟨[a], l₂, by simp, by simp⟩
  | b :: l₁, l₂ => by
    simp only [List.cons_append, ins]
    cases le a b
    · obtain ⟨m₁, m₂, e₁, e₂⟩ := ins_oneChanged a x x' hr l₁ l₂
      exact ⟨b :: m₁, m₂, by simp [e₁], by simp [e₂]⟩
    · exact ⟨a :: b :: l₁, l₂, by simp, by simp⟩

/-- **stability, change form**: exchanging one element for one with the same sort key exchanges exactly that element
    in the sorted output -/
theorem mergeSort_oneChanged {le : α → α → Bool}
    (trans : ∀ (a b c : α), le a b → le b c → le a c)
    (total : ∀ (a b : α), le a b || le b a) (x x' : α)
    (hl : ∀ y, le x y = le x' y) (hr : ∀ y, le y x = le y x') (g₂ : List α) :
    ∀ g₁ : List α, OneChanged x x' ((g₁ ++ x :: g₂).mergeSort le) ((g₁ ++ x' :: g₂).mergeSort le)
  | [] => by
    simp only [List.nil_append]
    rw [mergeSort_cons_ins trans total, mergeSort_cons_ins trans total]
    exact ins_self_oneChanged x x' hl _
  | a :: g₁ => by
    obtain ⟨l₁, l₂, e₁, e₂⟩ := mergeSort_oneChanged trans total x x' hl hr g₂ g₁
    simp only [List.cons_append]
    rw [mergeSort_cons_ins trans total, mergeSort_cons_ins trans total, e₁, e₂]
    exact ins_oneChanged a x x' hr l₁ l₂

end Ins

/-! ## `tagLe` is a total preorder -/

/-- `tagLe` as a proposition: new items (uid 0) last, then by uid, line, tag -/
theorem tagLe_iff (a b : TagInfo) : tagLe a b = true ↔
    ((a.uid = 0 → b.uid = 0) ∧
     ((b.uid = 0 ∧ a.uid ≠ 0) ∨ a.uid < b.uid ∨
      (a.uid = b.uid ∧ (a.line < b.line ∨ (a.line = b.line ∧ String.ofList a.tag ≤ String.ofList b.tag))))) := by
  unfold tagLe
  by_cases ha : a.uid = 0 <;> by_cases hb : b.uid = 0 <;> by_cases hab : a.uid = b.uid <;>
    by_cases hl : a.line = b.line <;> simp [ha, hb, hab, hl] <;> omega

theorem tagLe_total (a b : TagInfo) : (tagLe a b || tagLe b a) = true := by
  rw [Bool.or_eq_true, tagLe_iff, tagLe_iff]
  rcases String.le_total (String.ofList a.tag) (String.ofList b.tag) with hs | hs
  · by_cases h : a.uid = b.uid ∧ a.line = b.line
    · left; refine ⟨by omega, Or.inr (Or.inr ⟨h.1, Or.inr ⟨h.2, hs⟩⟩)⟩
    · omega
  · by_cases h : a.uid = b.uid ∧ a.line = b.line
    · right; refine ⟨by omega, Or.inr (Or.inr ⟨h.1.symm, Or.inr ⟨h.2.symm, hs⟩⟩)⟩
    · omega

theorem tagLe_trans (a b c : TagInfo) (h₁ : tagLe a b = true) (h₂ : tagLe b c = true) : tagLe a c = true := by
  rw [tagLe_iff] at *
  by_cases h : a.uid = b.uid ∧ a.line = b.line ∧ b.uid = c.uid ∧ b.line = c.line
  · obtain ⟨e₁, e₂, e₃, e₄⟩ := h
    have s₁ : String.ofList a.tag ≤ String.ofList b.tag := by
      rcases h₁.2 with h | h | ⟨-, h | ⟨-, h⟩⟩ <;> first | exact h | omega
    have s₂ : String.ofList b.tag ≤ String.ofList c.tag := by
      rcases h₂.2 with h | h | ⟨-, h | ⟨-, h⟩⟩ <;> first | exact h | omega
    exact ⟨by omega, Or.inr (Or.inr ⟨by omega, Or.inr ⟨by omega, String.le_trans s₁ s₂⟩⟩)⟩
  · obtain ⟨h₁a, h₁b⟩ := h₁
    obtain ⟨h₂a, h₂b⟩ := h₂
    refine ⟨by omega, ?_⟩
    rcases h₁b with h | h | ⟨e, h | ⟨e', h⟩⟩ <;> rcases h₂b with k | k | ⟨f, k | ⟨f', k⟩⟩ <;> omega

/-- the sort key of an item: `tagLe` looks at nothing else -/
theorem tagLe_key_left (x x' : TagInfo) (hkey : x'.uid = x.uid ∧ x'.line = x.line ∧ x'.tag = x.tag) (y : TagInfo) :
    tagLe x y = tagLe x' y := by
  unfold tagLe; rw [hkey.1, hkey.2.1, hkey.2.2]

theorem tagLe_key_right (x x' : TagInfo) (hkey : x'.uid = x.uid ∧ x'.line = x.line ∧ x'.tag = x.tag) (y : TagInfo) :
    tagLe y x = tagLe y x' := by
  unfold tagLe; rw [hkey.1, hkey.2.1, hkey.2.2]

/-! ## line breaks -/

theorem countNewlines_foldl (cs : List Char) (n : Nat) :
    cs.foldl (fun n c => if c = '\n' then n + 1 else n) n = n + countNewlines cs := by
  unfold countNewlines
  induction cs generalizing n with
  | nil => simp
  | cons c cs ih =>
    simp only [List.foldl_cons]
    rw [ih, ih (if c = '\n' then 0 + 1 else 0)]
    split <;> omega

theorem countNewlines_nil : countNewlines [] = 0 := rfl

theorem countNewlines_cons (c : Char) (cs : List Char) :
    countNewlines (c :: cs) = (if c = '\n' then 1 else 0) + countNewlines cs := by
  show List.foldl _ _ _ = _
  rw [List.foldl_cons, countNewlines_foldl]

theorem countNewlines_append (a b : List Char) : countNewlines (a ++ b) = countNewlines a + countNewlines b := by
  induction a with
  | nil => simp [countNewlines_nil]
  | cons c a ih => simp only [List.cons_append, countNewlines_cons, ih]; omega

theorem countNewlines_replicate_nl (n : Nat) : countNewlines (List.replicate n '\n') = n := by
  induction n with
  | zero => rfl
  | succ n ih => rw [List.replicate_succ, countNewlines_cons, ih]; simp; omega

theorem countNewlines_blanks (cs : List Char) (h : ∀ c ∈ cs, c = ' ') : countNewlines cs = 0 := by
  induction cs with
  | nil => rfl
  | cons c cs ih =>
    rw [countNewlines_cons, ih (fun d hd => h d (List.mem_cons_of_mem _ hd))]
    have : c = ' ' := h c List.mem_cons_self
    subst this
    decide

theorem mem_indentBlanks (indent : Nat) (c : Char) (h : c ∈ (List.replicate indent [' ', ' ']).flatten) : c = ' ' := by
  simp only [List.mem_flatten, List.mem_replicate] at h
  obtain ⟨l, ⟨-, rfl⟩, hc⟩ := h
  simpa using hc

/-! ## `ends_in_line_comment`: single steps of the scanner, line breaks, indentation -/

theorem lcScan_outside_quote (r : List Char) : lcScan .outside ('"' :: r) = lcScan .inString r := by
  rw [lcScan.eq_def]; simp

theorem lcScan_outside_other (c : Char) (r : List Char) (h1 : c ≠ '"') (h2 : c ≠ '/') :
    lcScan .outside (c :: r) = lcScan .outside r := by
  rw [lcScan.eq_def]; simp only [h1, h2, if_false]

theorem lcScan_outside_slash_nil : lcScan .outside ['/'] = .outside := by
  rw [lcScan.eq_def]; simp

theorem lcScan_outside_slash_slash (r : List Char) : lcScan .outside ('/' :: '/' :: r) = lcScan .lineComment r := by
  rw [lcScan.eq_def]; simp

theorem lcScan_outside_slash_star (r : List Char) : lcScan .outside ('/' :: '*' :: r) = lcScan .blockComment r := by
  rw [lcScan.eq_def]; simp

theorem lcScan_outside_slash_other (d : Char) (r : List Char) (h1 : d ≠ '/') (h2 : d ≠ '*') :
    lcScan .outside ('/' :: d :: r) = lcScan .outside (d :: r) := by
  rw [lcScan.eq_def]; simp [h1, h2]

theorem lcScan_inString (c : Char) (r : List Char) : lcScan .inString (c :: r) =
    if c = '\\' then lcScan .inStringEscaped r else if c = '"' then lcScan .outside r else lcScan .inString r := by
  rw [lcScan.eq_def]

theorem lcScan_inStringEscaped (c : Char) (r : List Char) : lcScan .inStringEscaped (c :: r) = lcScan .inString r := by
  rw [lcScan.eq_def]

theorem lcScan_lineComment (c : Char) (r : List Char) : lcScan .lineComment (c :: r) =
    if c = '\n' then lcScan .outside r else lcScan .lineComment r := by
  rw [lcScan.eq_def]

theorem lcScan_blockComment (c : Char) (r : List Char) : lcScan .blockComment (c :: r) =
    if c = '*' then lcScan .blockCommentStar r else lcScan .blockComment r := by
  rw [lcScan.eq_def]

theorem lcScan_blockCommentStar (c : Char) (r : List Char) : lcScan .blockCommentStar (c :: r) =
    if c = '/' then lcScan .outside r else if c = '*' then lcScan .blockCommentStar r else lcScan .blockComment r := by
  rw [lcScan.eq_def]

/-- the state behind a character that means nothing to the scanner -/
def LcState.other : LcState → LcState
  | .inStringEscaped => .inString
  | .blockCommentStar => .blockComment
  | s => s

/-- the state behind a line break -/
def LcState.afterNl : LcState → LcState
  | .inStringEscaped => .inString
  | .blockCommentStar => .blockComment
  | .lineComment => .outside
  | s => s

theorem lcScan_other (s : LcState) (c : Char) (r : List Char) (h1 : c ≠ '"') (h2 : c ≠ '/') (h3 : c ≠ '*') (h4 : c ≠ '\\')
    (h5 : c ≠ '\n') : lcScan s (c :: r) = lcScan s.other r := by
  cases s
  · exact lcScan_outside_other c r h1 h2
  · rw [lcScan_inString, if_neg h4, if_neg h1]; rfl
  · rw [lcScan_inStringEscaped]; rfl
  · rw [lcScan_lineComment, if_neg h5]; rfl
  · rw [lcScan_blockComment, if_neg h3]; rfl
  · rw [lcScan_blockCommentStar, if_neg h2, if_neg h3]; rfl

theorem lcScan_nl (s : LcState) (r : List Char) : lcScan s ('\n' :: r) = lcScan s.afterNl r := by
  cases s
  · exact lcScan_outside_other _ r (by decide) (by decide)
  · rw [lcScan_inString, if_neg (by decide), if_neg (by decide)]; rfl
  · rw [lcScan_inStringEscaped]; rfl
  · rw [lcScan_lineComment, if_pos rfl]; rfl
  · rw [lcScan_blockComment, if_neg (by decide)]; rfl
  · rw [lcScan_blockCommentStar, if_neg (by decide), if_neg (by decide)]; rfl

theorem LcState.afterNl_idem (s : LcState) : s.afterNl.afterNl = s.afterNl := by cases s <;> rfl
theorem LcState.afterNl_other (s : LcState) : s.afterNl.other = s.afterNl := by cases s <;> rfl

theorem lcScan_afterNl_nls (s : LcState) (r : List Char) : ∀ (k : Nat),
    lcScan s.afterNl (List.replicate k '\n' ++ r) = lcScan s.afterNl r
  | 0 => rfl
  | k + 1 => by
    rw [List.replicate_succ, List.cons_append, lcScan_nl, LcState.afterNl_idem]
    exact lcScan_afterNl_nls s r k

/-- behind a line break blanks do not change the state (outside, inside a string, inside a block comment) -/
theorem lcScan_afterNl_blanks (s : LcState) (r : List Char) : ∀ (bl : List Char), (∀ c ∈ bl, c = ' ') →
    lcScan s.afterNl (bl ++ r) = lcScan s.afterNl r
  | [], _ => rfl
  | c :: bl, h => by
    have : c = ' ' := h c List.mem_cons_self
    subst this
    rw [List.cons_append, lcScan_other _ _ _ (by decide) (by decide) (by decide) (by decide) (by decide),
      LcState.afterNl_other]
    exact lcScan_afterNl_blanks s r bl (fun d hd => h d (List.mem_cons_of_mem _ hd))

/-- **the indentation does not matter to the scanner**: the white space the writer puts in front of a token, for an
    offset ≥ 1, leaves the scanner in the state behind a line break -/
theorem lcScan_ws (s : LcState) (indent n : Nat) (hn : n ≠ 0) (r : List Char) :
    lcScan s (addWhitespace indent n ++ r) = lcScan s.afterNl r := by
  obtain ⟨k, rfl⟩ : ∃ k, n = k + 1 := ⟨n - 1, by omega⟩
  unfold addWhitespace
  rw [if_neg hn, List.replicate_succ, List.cons_append, List.cons_append, lcScan_nl, List.append_assoc,
    lcScan_afterNl_nls, lcScan_afterNl_blanks _ _ _ (mem_indentBlanks indent)]

/-- what stands in front of a line break does not matter for what follows it: if two texts that start with a line break
    are scanned alike from every state, they are scanned alike behind any text -/
theorem lcScan_congr_nl {Y Y' : List Char} (h : ∀ s, lcScan s ('\n' :: Y) = lcScan s ('\n' :: Y')) :
    ∀ (n : Nat) (X : List Char), X.length ≤ n → ∀ s, lcScan s (X ++ '\n' :: Y) = lcScan s (X ++ '\n' :: Y')
  | _, [], _, s => h s
  | 0, _ :: _, hn, _ => by simp at hn
  | n + 1, c :: X, hn, s => by
    have hlen : X.length ≤ n := by simpa using hn
    have ih := lcScan_congr_nl h n X hlen
    cases s with
    | outside =>
      by_cases h1 : c = '"'
      · subst h1; simp only [List.cons_append]; rw [lcScan_outside_quote, lcScan_outside_quote]; exact ih _
      by_cases h2 : c = '/'
      · subst h2
        cases X with
        | nil =>
          simp only [List.cons_append, List.nil_append]; rw [lcScan_outside_slash_other _ _ (by decide) (by decide),
            lcScan_outside_slash_other _ _ (by decide) (by decide)]
          exact h _
        | cons d X' =>
          have hlen' : X'.length ≤ n := by simp at hlen; omega
          by_cases h3 : d = '/'
          · subst h3
            simp only [List.cons_append]; rw [lcScan_outside_slash_slash, lcScan_outside_slash_slash]
            exact lcScan_congr_nl h n X' hlen' _
          by_cases h4 : d = '*'
          · subst h4
            simp only [List.cons_append]; rw [lcScan_outside_slash_star, lcScan_outside_slash_star]
            exact lcScan_congr_nl h n X' hlen' _
          simp only [List.cons_append]; rw [lcScan_outside_slash_other _ _ h3 h4,
            lcScan_outside_slash_other _ _ h3 h4]
          exact ih _
      · simp only [List.cons_append]; rw [lcScan_outside_other _ _ h1 h2, lcScan_outside_other _ _ h1 h2]; exact ih _
    | inString =>
      simp only [List.cons_append]; rw [lcScan_inString, lcScan_inString]
      split
      · exact ih _
      · split <;> exact ih _
    | inStringEscaped => simp only [List.cons_append]; rw [lcScan_inStringEscaped, lcScan_inStringEscaped]; exact ih _
    | lineComment =>
      simp only [List.cons_append]; rw [lcScan_lineComment, lcScan_lineComment]
      split <;> exact ih _
    | blockComment =>
      simp only [List.cons_append]; rw [lcScan_blockComment, lcScan_blockComment]
      split <;> exact ih _
    | blockCommentStar =>
      simp only [List.cons_append]; rw [lcScan_blockCommentStar, lcScan_blockCommentStar]
      split
      · exact ih _
      · split <;> exact ih _

/-- the white space in front of a token written with an offset ≥ 1: the indent level does not matter, behind any text -/
theorem lcScan_ws_indent (X r : List Char) (i j n : Nat) (hn : n ≠ 0) (s : LcState) :
    lcScan s (X ++ (addWhitespace i n ++ r)) = lcScan s (X ++ (addWhitespace j n ++ r)) := by
  obtain ⟨k, rfl⟩ : ∃ k, n = k + 1 := ⟨n - 1, by omega⟩
  have e : ∀ ind, addWhitespace ind (k + 1) ++ r =
      '\n' :: (List.replicate k '\n' ++ ((List.replicate ind [' ', ' ']).flatten ++ r)) := by
    intro ind
    simp [addWhitespace, List.replicate_succ]
  rw [e i, e j]
  refine lcScan_congr_nl (fun s' => ?_) _ X (Nat.le_refl _) s
  rw [lcScan_nl, lcScan_nl, lcScan_afterNl_nls, lcScan_afterNl_nls, lcScan_afterNl_blanks _ _ _ (mem_indentBlanks i),
    lcScan_afterNl_blanks _ _ _ (mem_indentBlanks j)]

/-! ## chunks -/

/-- the text one tagged item contributes: leading line breaks, optional `/begin`, tag, body, optional `/end` tag
    (behind the end offset the writer uses: `endOffOf`, i.e. 1 instead of 0 if the body ends in a `//` comment) -/
def chunk (indent : Nat) (item : TagInfo) : List Char :=
  addWhitespace indent item.startOff ++ (if item.isBlock then "/begin ".toList else []) ++ item.tag ++ item.text ++
    (if item.isBlock then addWhitespace indent (endOffOf item.endOff item.text) ++ "/end ".toList ++ item.tag else [])

/-- items that the plain-concatenation reading applies to: no comments and no position restrictions in the group
    (comments only change the line breaks of their successor, restricted items are permuted among their own slots) -/
def Plain (g : List TagInfo) : Prop := ∀ x ∈ g, x.isComment = false ∧ x.pos = none

theorem Plain.mergeSort {g : List TagInfo} (hp : Plain g) : Plain (g.mergeSort tagLe) :=
  fun x hx => hp x (List.mem_mergeSort.mp hx)

theorem Plain.remove {g₁ g₂ : List TagInfo} {x : TagInfo} (hp : Plain (g₁ ++ x :: g₂)) : Plain (g₁ ++ g₂) := by
  intro y hy
  apply hp y
  simp only [List.mem_append, List.mem_cons] at hy ⊢
  rcases hy with h | h
  · exact Or.inl h
  · exact Or.inr (Or.inr h)

theorem flatMap_congr_mem {α β : Type _} {f g : α → List β} :
    ∀ (l : List α), (∀ x ∈ l, f x = g x) → l.flatMap f = l.flatMap g
  | [], _ => rfl
  | a :: l, h => by
    rw [List.flatMap_cons, List.flatMap_cons, h a List.mem_cons_self,
      flatMap_congr_mem l (fun x hx => h x (List.mem_cons_of_mem _ hx))]

/-- no restricted item: `apply_position_restrictions` changes nothing -/
theorem applyPositionRestrictions_noPos {g : List TagInfo} (hp : ∀ x ∈ g, x.pos = none) :
    applyPositionRestrictions g = g := by
  have : g.filter (·.pos.isSome) = [] := by
    rw [List.filter_eq_nil_iff]
    intro x hx
    simp [hp x hx]
  simp [applyPositionRestrictions, this]

theorem applyPositionRestrictions_plain {g : List TagInfo} (hp : Plain g) : applyPositionRestrictions g = g :=
  applyPositionRestrictions_noPos (fun x hx => (hp x hx).2)

/-- the offsets the writer uses (after the `fix:` commit): an item with start offset 0 directly behind a written line
    comment is written with offset 1; the flag is `after_line_comment` of `add_group` -/
def bumpItems : Bool → List TagInfo → List TagInfo
  | _, [] => []
  | alc, item :: rest =>
    if item.isComment then
      if item.included then item :: bumpItems alc rest
      else { item with startOff := bumpOff alc item.startOff } :: bumpItems (isLineCommentText item.text) rest
    else { item with startOff := bumpOff alc item.startOff } :: bumpItems false rest

/-- what one entry contributes: a comment its line breaks and verbatim text, an element its chunk -/
def itemChunk (indent : Nat) (item : TagInfo) : List Char :=
  if item.isComment then (if item.included then [] else List.replicate item.startOff '\n' ++ item.text)
  else chunk indent item

/-- the loop of `add_group` writes the per-item contributions of the list with bumped offsets -/
theorem addGroupGo_eq (indent : Nat) : ∀ (alc : Bool) (l : List TagInfo),
    addGroupGo indent alc l = (bumpItems alc l).flatMap (itemChunk indent)
  | _, [] => rfl
  | alc, item :: rest => by
    unfold addGroupGo bumpItems
    by_cases hc : item.isComment = true
    · by_cases hi : item.included = true
      · simp only [hc, hi, if_true, List.flatMap_cons, itemChunk, List.nil_append]
        exact addGroupGo_eq indent alc rest
      · simp only [hc, hi, if_true, Bool.false_eq_true, if_false, List.flatMap_cons, itemChunk]
        rw [addGroupGo_eq indent _ rest]
    · simp only [hc, Bool.false_eq_true, if_false, List.flatMap_cons, itemChunk, chunk]
      rw [addGroupGo_eq indent false rest]

theorem bumpOff_false (n : Nat) : bumpOff false n = n := by simp [bumpOff]

/-- without comments the flag is never set: nothing is bumped -/
theorem bumpItems_plain : ∀ (l : List TagInfo), (∀ x ∈ l, x.isComment = false) → bumpItems false l = l
  | [], _ => rfl
  | item :: rest, h => by
    have h0 := h item List.mem_cons_self
    unfold bumpItems
    rw [if_neg (by simp [h0]), bumpOff_false, bumpItems_plain rest (fun x hx => h x (List.mem_cons_of_mem _ hx))]

/-- groups without position restrictions (comments allowed): per-item contributions in sorted order, with the
    offset of an item directly behind a line comment raised from 0 to 1 -/
theorem addGroup_noPos (indent : Nat) (g : List TagInfo) (hp : ∀ x ∈ g, x.pos = none) :
    addGroup indent g = (bumpItems false (g.mergeSort tagLe)).flatMap (itemChunk indent) := by
  unfold addGroup
  rw [applyPositionRestrictions_noPos (fun x hx => hp x (List.mem_mergeSort.mp hx)), addGroupGo_eq]

theorem addGroup_plain (indent : Nat) (g : List TagInfo) (hp : Plain g) :
    addGroup indent g = (g.mergeSort tagLe).flatMap (chunk indent) := by
  rw [addGroup_noPos indent g (fun x hx => (hp x hx).2),
    bumpItems_plain _ (fun x hx => (hp.mergeSort x hx).1)]
  apply flatMap_congr_mem
  intro x hx
  simp [itemChunk, (hp.mergeSort x hx).1]

end A2l.Tree
