import A2lVerif.Model.IncludeWriter
namespace A2l.IncW

theorem elements_go (seen : List (List Char)) (items : List Item) :
    elements (go seen items) = (items.filter fun it => it.incfile.isNone).map (·.name) := by
  induction items generalizing seen with
  | nil => rfl
  | cons it rest ih =>
    cases hi : it.incfile with
    | none => simp [go, hi, elements, List.filter_cons] at ih ⊢; exact ih seen
    | some f =>
      simp only [go, hi, List.filter_cons, Option.isNone_some, Bool.false_eq_true, if_false]
      split
      · exact ih seen
      · simp only [elements, List.filterMap_cons] at ih ⊢
        exact ih (f :: seen)

theorem mem_directives_go (seen : List (List Char)) (items : List Item) (f : List Char) :
    f ∈ directives (go seen items) ↔ f ∉ seen ∧ ∃ it ∈ items, it.incfile = some f := by
  induction items generalizing seen with
  | nil => simp [go, directives]
  | cons it rest ih =>
    cases hi : it.incfile with
    | none =>
      simp only [go, hi, directives, List.filterMap_cons] at ih ⊢
      rw [ih seen]
      constructor
      · rintro ⟨h1, x, hx, h2⟩; exact ⟨h1, x, List.mem_cons_of_mem _ hx, h2⟩
      · rintro ⟨h1, x, hx, h2⟩
        rcases List.mem_cons.1 hx with rfl | hx
        · rw [hi] at h2; cases h2
        · exact ⟨h1, x, hx, h2⟩
    | some g =>
      simp only [go, hi]
      by_cases hs : seen.contains g = true
      · simp only [hs, if_true]
        rw [ih seen]
        have hgs : g ∈ seen := by simpa using hs
        constructor
        · rintro ⟨h1, x, hx, h2⟩; exact ⟨h1, x, List.mem_cons_of_mem _ hx, h2⟩
        · rintro ⟨h1, x, hx, h2⟩
          rcases List.mem_cons.1 hx with rfl | hx
          · rw [hi] at h2; cases h2; exact absurd hgs h1
          · exact ⟨h1, x, hx, h2⟩
      · simp only [hs, Bool.false_eq_true, if_false, directives, List.filterMap_cons, List.mem_cons] at ih ⊢
        have hgs : g ∉ seen := by simpa using hs
        rw [ih (g :: seen)]
        constructor
        · rintro (rfl | ⟨h1, x, hx, h2⟩)
          · exact ⟨hgs, it, .inl rfl, hi⟩
          · exact ⟨fun h => h1 (List.mem_cons_of_mem _ h), x, .inr hx, h2⟩
        · rintro ⟨h1, x, hx, h2⟩
          by_cases hfg : f = g
          · exact .inl hfg
          · right
            refine ⟨fun h => ?_, ?_⟩
            · rcases List.mem_cons.1 h with h | h
              · exact hfg h
              · exact h1 h
            · rcases hx with rfl | hx
              · rw [hi] at h2; cases h2; exact absurd rfl hfg
              · exact ⟨x, hx, h2⟩

theorem nodup_directives_go (seen : List (List Char)) (items : List Item) : (directives (go seen items)).Nodup := by
  induction items generalizing seen with
  | nil => simp [go, directives]
  | cons it rest ih =>
    cases hi : it.incfile with
    | none => simp only [go, hi, directives, List.filterMap_cons] at ih ⊢; exact ih seen
    | some g =>
      simp only [go, hi]
      by_cases hs : seen.contains g = true
      · simp only [hs, if_true]; exact ih seen
      · simp only [hs, Bool.false_eq_true, if_false, directives, List.filterMap_cons, List.nodup_cons] at ih ⊢
        refine ⟨?_, ih (g :: seen)⟩
        intro hm
        have := (mem_directives_go (g :: seen) rest g).1 hm
        exact this.1 List.mem_cons_self

/-! ### where the directive stands -/

/-- `included_files` after the loop has gone over `items` -/
def seenAfter (seen : List (List Char)) : List Item → List (List Char)
  | [] => seen
  | it :: rest =>
    match it.incfile with
    | some f => if seen.contains f then seenAfter seen rest else seenAfter (f :: seen) rest
    | none => seenAfter seen rest

theorem go_append (seen : List (List Char)) (a b : List Item) :
    go seen (a ++ b) = go seen a ++ go (seenAfter seen a) b := by
  induction a generalizing seen with
  | nil => rfl
  | cons it rest ih =>
    cases hi : it.incfile with
    | none => simp only [List.cons_append, go, seenAfter, hi, ih seen]
    | some f =>
      by_cases hs : seen.contains f = true
      · simp only [List.cons_append, go, seenAfter, hi, hs, if_true, ih seen]
      · simp only [List.cons_append, go, seenAfter, hi, hs, Bool.false_eq_true, if_false, ih (f :: seen)]

theorem not_mem_seenAfter (seen : List (List Char)) (a : List Item) (f : List Char) (hf : f ∉ seen)
    (ha : ∀ x ∈ a, x.incfile ≠ some f) : f ∉ seenAfter seen a := by
  induction a generalizing seen with
  | nil => exact hf
  | cons it rest ih =>
    have hrest : ∀ x ∈ rest, x.incfile ≠ some f := fun x hx => ha x (List.mem_cons_of_mem _ hx)
    cases hi : it.incfile with
    | none => simp only [seenAfter, hi]; exact ih seen hf hrest
    | some g =>
      have hgf : f ≠ g := by
        intro h; subst h
        exact ha it List.mem_cons_self hi
      simp only [seenAfter, hi]
      split
      · exact ih seen hf hrest
      · refine ih (g :: seen) ?_ hrest
        simp only [List.mem_cons, not_or]
        exact ⟨hgf, hf⟩

/-- the directive for a file stands exactly where the first element of that file stands in the writer's order: what
    comes before it is what the elements before it produce, and the file is not named again behind it -/
theorem directive_at_first_go (pre post : List Item) (it : Item) (f : List Char) (h : it.incfile = some f)
    (hpre : ∀ x ∈ pre, x.incfile ≠ some f) :
    ∃ tail, go [] (pre ++ it :: post) = go [] pre ++ Entry.directive f :: tail ∧ f ∉ directives tail := by
  have hn : f ∉ seenAfter [] pre := not_mem_seenAfter [] pre f (by simp) hpre
  have hc : (seenAfter [] pre).contains f = false := by
    simpa using hn
  refine ⟨go (f :: seenAfter [] pre) post, ?_, ?_⟩
  · rw [go_append]
    simp only [go, h, hc, Bool.false_eq_true, if_false]
  · intro hm
    exact ((mem_directives_go _ post f).1 hm).1 List.mem_cons_self

end A2l.IncW
