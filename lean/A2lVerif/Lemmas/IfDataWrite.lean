import A2lVerif.Lemmas.IfDataVals
import A2lVerif.Lemmas.TreeWriter
/-!
# IF_DATA, part F: what `GenericIfData::write` writes

The text is the concatenation, in list order, of `white space ++ rendering` of the values `values top g`
(`write_eq_render`), provided the tagged items carry increasing non-zero uids (`UidOk`), which is what the parser
produces (Lemmas/IfDataUid.lean): then the stable sort of `Writer::add_group` leaves the order as it is.
-/
namespace A2l.IfData
open A2l.Tree A2l.Aml A2l.G A2l.Sc

/-- the text of a value behind the white space -/
def renderWV : WV → List Char
  | .ident s => s
  | .str s => ['"'] ++ escape s ++ ['"']
  | .int w v hex => printInt (intTyOf w) v hex
  | .f32 txt => txt
  | .f64 txt => txt
  | .begin_ => "/begin".toList
  | .end_ => "/end".toList

def renderPiece (p : List Char × WV) : List Char := p.1 ++ renderWV p.2

mutual
/-- the values with the white space that precedes each of them (`/end` behind the end offset the writer uses:
    `endOffOf`, i.e. 1 instead of 0 if `ends_in_line_comment` holds of the item's text) -/
def pieces (top : Bool) (indent : Nat) : Gen → List (List Char × WV)
  | .none => []
  | .int w off v hex => [(addWhitespace indent off, .int w v hex)]
  | .float off txt => [(addWhitespace indent off, .f32 txt)]
  | .double off txt => [(addWhitespace indent off, .f64 txt)]
  | .str off s => [(addWhitespace indent off, .str s)]
  | .array items => piecesL indent items
  | .enumItem off s => [(addWhitespace indent off, .ident s)]
  | .seq items => piecesL indent items
  | .taggedStruct items => piecesT indent items
  | .taggedUnion items => piecesT indent items
  | .struct _ items => piecesL indent items
  | .block _ items => if top then piecesL indent items else []
def piecesL (indent : Nat) : List Gen → List (List Char × WV)
  | [] => []
  | g :: rest => pieces false indent g ++ piecesL indent rest
def piecesT (indent : Nat) : List (TItem Gen) → List (List Char × WV)
  | [] => []
  | it :: rest =>
    (if it.isBlock then [(addWhitespace indent it.startOff, .begin_), ([' '], .ident it.tag)]
     else [(addWhitespace indent it.startOff, .ident it.tag)]) ++
    pieces true (indent + 1) it.data ++
    (if it.isBlock then
      [(addWhitespace indent (endOffOf it.endOff (writeG true (indent + 1) it.data)), .end_), ([' '], .ident it.tag)]
     else []) ++
    piecesT indent rest
end

mutual
/-- tagged items carry non-zero uids that increase along every list -/
def UidOk : Gen → Prop
  | .array items => UidOkL items
  | .seq items => UidOkL items
  | .struct _ items => UidOkL items
  | .block _ items => UidOkL items
  | .taggedStruct items => UidOkT items
  | .taggedUnion items => UidOkT items
  | _ => True
def UidOkL : List Gen → Prop
  | [] => True
  | g :: rest => UidOk g ∧ UidOkL rest
def UidOkT : List (TItem Gen) → Prop
  | [] => True
  | it :: rest => it.uid ≠ 0 ∧ (∀ x ∈ rest, it.uid < x.uid) ∧ UidOk it.data ∧ UidOkT rest
end

mutual
theorem pieces_values (top : Bool) (indent : Nat) : ∀ g : Gen, (pieces top indent g).map (·.2) = values top g
  | .none => rfl
  | .int .. => rfl
  | .float .. => rfl
  | .double .. => rfl
  | .str .. => rfl
  | .array items => by rw [pieces, values]; exact piecesL_values indent items
  | .enumItem .. => rfl
  | .seq items => by rw [pieces, values]; exact piecesL_values indent items
  | .taggedStruct items => by rw [pieces, values]; exact piecesT_values indent items
  | .taggedUnion items => by rw [pieces, values]; exact piecesT_values indent items
  | .struct _ items => by rw [pieces, values]; exact piecesL_values indent items
  | .block _ items => by
    rw [pieces, values]
    split
    · exact piecesL_values indent items
    · rfl
theorem piecesL_values (indent : Nat) : ∀ l : List Gen, (piecesL indent l).map (·.2) = valuesL l
  | [] => rfl
  | g :: rest => by
    rw [piecesL, valuesL, List.map_append, pieces_values false indent g, piecesL_values indent rest]
theorem piecesT_values (indent : Nat) : ∀ l : List (TItem Gen), (piecesT indent l).map (·.2) = valuesT l
  | [] => rfl
  | it :: rest => by
    rw [piecesT, valuesT]
    simp only [List.map_append]
    rw [pieces_values true (indent + 1) it.data, piecesT_values indent rest]
    cases it.isBlock <;> rfl
end

theorem tagLe_of_uid_lt (a b : TagInfo) (h0 : a.uid ≠ 0) (h : a.uid < b.uid) : tagLe a b = true := by
  unfold tagLe
  rw [if_neg (by intro h'; exact h0 h'.1), if_neg (by intro h'; omega), if_neg (by omega)]
  simp; omega

theorem tagInfos_uid (indent : Nat) : ∀ (l : List (TItem Gen)) (x : TagInfo), x ∈ tagInfos indent l →
    ∃ it ∈ l, x.uid = it.uid ∧ x.isComment = false ∧ x.pos = none
  | [], x, h => by rw [tagInfos] at h; cases h
  | it :: rest, x, h => by
    rw [tagInfos] at h
    rcases List.mem_cons.1 h with rfl | h'
    · exact ⟨it, List.mem_cons_self .., rfl, rfl, rfl⟩
    · obtain ⟨it', hm, hx⟩ := tagInfos_uid indent rest x h'
      exact ⟨it', List.mem_cons_of_mem _ hm, hx⟩

theorem tagInfos_plain (indent : Nat) (l : List (TItem Gen)) : Plain (tagInfos indent l) := by
  intro x hx
  obtain ⟨_, _, _, h1, h2⟩ := tagInfos_uid indent l x hx
  exact ⟨h1, h2⟩

theorem tagInfos_pairwise (indent : Nat) : ∀ (l : List (TItem Gen)), UidOkT l →
    List.Pairwise (fun a b => tagLe a b = true) (tagInfos indent l)
  | [], _ => by rw [tagInfos]; exact List.Pairwise.nil
  | it :: rest, h => by
    rw [UidOkT] at h
    rw [tagInfos]
    refine List.Pairwise.cons ?_ (tagInfos_pairwise indent rest h.2.2.2)
    intro x hx
    obtain ⟨it', hm, hu, _⟩ := tagInfos_uid indent rest x hx
    exact tagLe_of_uid_lt _ _ h.1 (by rw [hu]; exact h.2.1 it' hm)

theorem addGroup_tagInfos (indent : Nat) (l : List (TItem Gen)) (h : UidOkT l) :
    addGroup indent (tagInfos indent l) = (tagInfos indent l).flatMap (chunk indent) := by
  rw [addGroup_plain indent _ (tagInfos_plain indent l), List.mergeSort_of_pairwise (tagInfos_pairwise indent l h)]

mutual
theorem writeG_render (top : Bool) (indent : Nat) : ∀ g : Gen, UidOk g →
    writeG top indent g = (pieces top indent g).flatMap renderPiece
  | .none, _ => rfl
  | .int .., _ => by simp [writeG, pieces, renderPiece, renderWV]
  | .float .., _ => by simp [writeG, pieces, renderPiece, renderWV]
  | .double .., _ => by simp [writeG, pieces, renderPiece, renderWV]
  | .str .., _ => by simp [writeG, pieces, renderPiece, renderWV]
  | .enumItem .., _ => by simp [writeG, pieces, renderPiece, renderWV]
  | .array items, h => by rw [writeG, pieces]; exact writeItems_render indent items (by rwa [UidOk] at h)
  | .seq items, h => by rw [writeG, pieces]; exact writeItems_render indent items (by rwa [UidOk] at h)
  | .struct _ items, h => by rw [writeG, pieces]; exact writeItems_render indent items (by rwa [UidOk] at h)
  | .block _ items, h => by
    rw [writeG, pieces]
    split
    · exact writeItems_render indent items (by rwa [UidOk] at h)
    · rfl
  | .taggedStruct items, h => by
    rw [UidOk] at h
    rw [writeG, pieces, addGroup_tagInfos indent items h]
    exact tagInfos_render indent items h
  | .taggedUnion items, h => by
    rw [UidOk] at h
    rw [writeG, pieces, addGroup_tagInfos indent items h]
    exact tagInfos_render indent items h
theorem writeItems_render (indent : Nat) : ∀ l : List Gen, UidOkL l →
    writeItems indent l = (piecesL indent l).flatMap renderPiece
  | [], _ => rfl
  | g :: rest, h => by
    rw [UidOkL] at h
    rw [writeItems, piecesL, List.flatMap_append, writeG_render false indent g h.1, writeItems_render indent rest h.2]
theorem tagInfos_render (indent : Nat) : ∀ l : List (TItem Gen), UidOkT l →
    (tagInfos indent l).flatMap (chunk indent) = (piecesT indent l).flatMap renderPiece
  | [], _ => rfl
  | it :: rest, h => by
    rw [UidOkT] at h
    rw [tagInfos, piecesT, List.flatMap_cons, tagInfos_render indent rest h.2.2.2]
    simp only [List.flatMap_append]
    rw [← writeG_render true (indent + 1) it.data h.2.2.1]
    unfold chunk
    cases it.isBlock <;> simp [renderPiece, renderWV]
end

end A2l.IfData
