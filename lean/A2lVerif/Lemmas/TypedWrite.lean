import A2lVerif.Lemmas.TypedContent
import A2lVerif.Lemmas.IfDataWrite
/-!
# Typed IF_DATA access, part H: `Sim`ilar generic values are written as the same text

`Sim a b` and `UidOk b` (the tagged items of `b` carry non-zero uids that increase along every list: what the parser
produces, Lemmas/IfDataUid.lean) imply `writeG top indent a = writeG top indent b`: the writer sorts the items of a
tagged struct by uid (`add_group`), the uids are pairwise different, so the order in which the hash map hands out the
items does not matter; and a `None` item writes nothing.
-/
namespace A2l.Typed
open A2l.Tree A2l.Aml A2l.IfData

/-- one entry of `tagInfos` -/
def tagInfo (indent : Nat) (it : TItem Gen) : TagInfo :=
  { isComment := false, tag := it.tag, uid := it.uid, line := it.line, startOff := it.startOff, endOff := it.endOff,
    isBlock := it.isBlock, text := writeG true (indent + 1) it.data, pos := none, included := false }

theorem tagInfos_map (indent : Nat) : ∀ l : List (TItem Gen), tagInfos indent l = l.map (tagInfo indent)
  | [] => by rw [tagInfos]; rfl
  | it :: rest => by rw [tagInfos, tagInfos_map indent rest]; rfl

theorem uid_pairwise (indent : Nat) : ∀ (l : List (TItem Gen)), UidOkT l →
    List.Pairwise (fun a b : TagInfo => a.uid < b.uid) (l.map (tagInfo indent)) ∧ ∀ x ∈ l.map (tagInfo indent), x.uid ≠ 0
  | [], _ => ⟨List.Pairwise.nil, by intro x hx; cases hx⟩
  | it :: rest, h => by
    rw [UidOkT] at h
    obtain ⟨h1, h2⟩ := uid_pairwise indent rest h.2.2.2
    refine ⟨List.Pairwise.cons ?_ h1, ?_⟩
    · intro x hx
      obtain ⟨y, hy, rfl⟩ := List.mem_map.1 hx
      exact h.2.1 y hy
    · intro x hx
      rcases List.mem_cons.1 hx with rfl | hx
      · exact h.1
      · exact h2 x hx

theorem eq_of_uid_eq : ∀ {l : List TagInfo}, List.Pairwise (fun a b : TagInfo => a.uid < b.uid) l → ∀ {x y : TagInfo},
    x ∈ l → y ∈ l → x.uid = y.uid → x = y
  | [], _, _, _, hx, _, _ => by cases hx
  | a :: l, hp, x, y, hx, hy, he => by
    cases hp with
    | cons h1 h2 =>
      rcases List.mem_cons.1 hx with rfl | hx'
      · rcases List.mem_cons.1 hy with rfl | hy'
        · rfl
        · have := h1 y hy'; omega
      · rcases List.mem_cons.1 hy with rfl | hy'
        · have := h1 x hx'; omega
        · exact eq_of_uid_eq h2 hx' hy' he

/-- sorting a permutation of a list with pairwise different non-zero uids gives the same result -/
theorem mergeSort_perm_eq {l l' : List TagInfo} (hp : l'.Perm l)
    (hu : List.Pairwise (fun a b : TagInfo => a.uid < b.uid) l) (h0 : ∀ x ∈ l, x.uid ≠ 0) :
    l'.mergeSort tagLe = l.mergeSort tagLe := by
  refine List.Perm.eq_of_pairwise (le := fun a b => tagLe a b = true) ?_
    (List.pairwise_mergeSort tagLe_trans tagLe_total l') (List.pairwise_mergeSort tagLe_trans tagLe_total l)
    ((List.mergeSort_perm l' tagLe).trans (hp.trans (List.mergeSort_perm l tagLe).symm))
  intro a b ha hb hab hba
  have ha' : a ∈ l := hp.subset (List.mem_mergeSort.1 ha)
  have hb' : b ∈ l := List.mem_mergeSort.1 hb
  refine eq_of_uid_eq hu ha' hb' ?_
  have := h0 a ha'
  have := h0 b hb'
  rw [tagLe_iff] at hab hba
  omega

theorem uidOkT_data : ∀ {l : List (TItem Gen)}, UidOkT l → ∀ y ∈ l, UidOk y.data
  | [], _, y, hy => by cases hy
  | it :: rest, h, y, hy => by
    rw [UidOkT] at h
    rcases List.mem_cons.1 hy with rfl | hy
    · exact h.2.2.1
    · exact uidOkT_data h.2.2.2 y hy

mutual
theorem sim_write (indent : Nat) : ∀ (top : Bool) (a b : Gen), Sim a b → UidOk b → writeG top indent a = writeG top indent b
  | top, .none, b, h, _ => by rw [Sim] at h; rw [h]
  | top, .int .., b, h, _ => by rw [Sim] at h; rw [h]
  | top, .float .., b, h, _ => by rw [Sim] at h; rw [h]
  | top, .double .., b, h, _ => by rw [Sim] at h; rw [h]
  | top, .str .., b, h, _ => by rw [Sim] at h; rw [h]
  | top, .enumItem .., b, h, _ => by rw [Sim] at h; rw [h]
  | top, .array a, b, h, hu => by
    rw [Sim] at h
    obtain ⟨b', rfl, hl⟩ := h
    rw [UidOk] at hu
    rw [writeG, writeG, simL_write indent a b' hl hu]
  | top, .seq a, b, h, hu => by
    rw [Sim] at h
    obtain ⟨b', rfl, hl⟩ := h
    rw [UidOk] at hu
    rw [writeG, writeG, simL_write indent a b' hl hu]
  | top, .struct l a, b, h, hu => by
    rw [Sim] at h
    obtain ⟨b', rfl, hl⟩ := h
    rw [UidOk] at hu
    rw [writeG, writeG, simL_write indent a b' hl hu]
  | top, .block l a, b, h, hu => by
    rw [Sim] at h
    obtain ⟨b', rfl, hl⟩ := h
    rw [UidOk] at hu
    rw [writeG, writeG]
    rcases hl with hl | ⟨rfl, rfl⟩
    · rw [simL_write indent a b' hl hu]
    · cases top <;> simp [IfData.writeItems, writeG]
  | top, .taggedStruct a, b, h, hu => by
    rw [Sim] at h
    obtain ⟨b1, b2, rfl, hperm, hs⟩ := h
    rw [UidOk] at hu
    rw [writeG, writeG, tagInfos_map, tagInfos_map,
      simT_map indent a b2 hs (fun y hy => uidOkT_data hu y (hperm.symm.subset hy))]
    obtain ⟨hp, h0⟩ := uid_pairwise indent b1 hu
    rw [addGroup_plain indent _ (by rw [← tagInfos_map]; exact tagInfos_plain indent b2),
      addGroup_plain indent _ (by rw [← tagInfos_map]; exact tagInfos_plain indent b1),
      mergeSort_perm_eq (hperm.symm.map (tagInfo indent)) hp h0]
  | top, .taggedUnion a, b, h, hu => by
    rw [Sim] at h
    obtain ⟨b1, b2, rfl, hperm, hs⟩ := h
    rw [UidOk] at hu
    rw [writeG, writeG, tagInfos_map, tagInfos_map,
      simT_map indent a b2 hs (fun y hy => uidOkT_data hu y (hperm.symm.subset hy))]
    obtain ⟨hp, h0⟩ := uid_pairwise indent b1 hu
    rw [addGroup_plain indent _ (by rw [← tagInfos_map]; exact tagInfos_plain indent b2),
      addGroup_plain indent _ (by rw [← tagInfos_map]; exact tagInfos_plain indent b1),
      mergeSort_perm_eq (hperm.symm.map (tagInfo indent)) hp h0]
theorem simL_write (indent : Nat) : ∀ (a b : List Gen), SimL a b → UidOkL b → IfData.writeItems indent a = IfData.writeItems indent b
  | [], b, h, _ => by rw [SimL] at h; rw [h]
  | x :: a, b, h, hu => by
    rw [SimL] at h
    obtain ⟨y, b', rfl, hxy, hl⟩ := h
    rw [UidOkL] at hu
    rw [IfData.writeItems, IfData.writeItems, sim_write indent false x y hxy hu.1, simL_write indent a b' hl hu.2]
theorem simT_map (indent : Nat) : ∀ (a b : List (TItem Gen)), SimT a b → (∀ y ∈ b, UidOk y.data) →
    a.map (tagInfo indent) = b.map (tagInfo indent)
  | [], b, h, _ => by rw [SimT] at h; rw [h]
  | x :: a, b, h, hu => by
    rw [SimT] at h
    obtain ⟨y, b', rfl, h1, h2, h3, h4, h5, h6, h7, h8⟩ := h
    rw [List.map_cons, List.map_cons, simT_map indent a b' h8 (fun z hz => hu z (List.mem_cons_of_mem _ hz))]
    congr 1
    unfold tagInfo
    rw [h1, h2, h3, h4, h5, h6, sim_write (indent + 1) true x.data y.data h7 (hu y (List.mem_cons_self ..))]
end

end A2l.Typed
