import A2lVerif.Lemmas.TypedWrite
import A2lVerif.Lemmas.IfDataUid
/-!
# Typed IF_DATA access, part I: the statements about content that the interpreter of C18 accepted
-/
namespace A2l.Typed
open A2l.Tree A2l.Aml A2l.IfData

/-- the items of `parse_ifdata_make_block(d, ..)` -/
def dataItems : Gen → List Gen
  | .struct _ items => items
  | d => [d]

theorem makeBlock_eq (d : Gen) (line : Nat) : makeBlock d line = .block line (dataItems d) := by
  cases d <;> rfl

/-- in the data `d` (the value that the interpreter built for the root definition `S`), no member of a tagged struct
    that is not declared `( ... )*` occurs more than once -/
def NoRepeatViolation (S : Spec) (d : Gen) : Prop := OnceL (rootItems S) (dataItems d)

/-- content with the shape of `S` decodes, and what the decoded value stores is the same content -/
theorem decode_of_shape (S : Spec) (hf : Flat S) (hd : TagsDistinct S) (d : Gen) (hs : Shape S d) (line u so eo : Nat) :
    ∃ v, typedLoadAt S (makeBlock d line) u so eo = .ok v ∧
      (NoRepeatViolation S d → Sim (typedStore S v) (makeBlock d line)) := by
  obtain ⟨gs, hm, hgs⟩ := data_exact (s := S) (fun h g hg => shape_exact.1 S h g hg)
    (by unfold Flat at hf; rw [hf, Bool.or_true]) hs line
  have hgs' : gs = dataItems d := by
    rw [makeBlock_eq] at hm
    cases hm
    rfl
  subst hgs'
  rw [hm]
  unfold typedLoadAt
  rcases hgs with hex | ⟨hno, hnone⟩
  · obtain ⟨fs, locs, hl, hsim⟩ := exact_load.2.1 (rootItems S) hd _ hex
    refine ⟨.struct ⟨line, u, so, eo, locs⟩ fs, by simp only [loadBlockWith, hl, LRes.ok_bind, LRes.pure_def], ?_⟩
    intro ho
    simp only [typedStore, rootItems]
    rw [Sim]
    exact ⟨_, rfl, .inl (hsim ho)⟩
  · have hno' : rootItems S = [] := hno
    rw [hno', hnone]
    refine ⟨.struct ⟨line, u, so, eo, []⟩ [], by simp only [loadBlockWith, loadFields, LRes.ok_bind, LRes.pure_def], ?_⟩
    intro _
    simp only [typedStore, hno', storeFields_nil]
    rw [Sim]
    exact ⟨_, rfl, .inr ⟨rfl, rfl⟩⟩

variable {e : Env}

theorem itemP_uidOk {f32 : List Char → Option (List Char)} {sp : Spec} {ctx : Ctx} {s s' : PState} {g : Gen}
    (h : itemP f32 sp ctx e s = .ok g s') : UidOk g := by
  have := itemP_uid (e := e) f32 sp ctx s s.seqId (Nat.le_refl _)
  rw [h] at this
  exact this.2

theorem fromSpec_inv {f32 : List Char → Option (List Char)} {ctx : Ctx} {sp : Spec} {s : PState} {g : Gen}
    {s' : PState} (h : fromSpec f32 ctx sp e s = .ok (some g) s') :
    ∃ d s0 s1, itemP f32 sp ctx e s0 = .ok d s1 ∧ g = makeBlock d ctx.line := by
  unfold fromSpec at h
  simp only [getTokenpos_bind] at h
  have hreset : ∀ s1 : PState, ((do setTokenpos s.pos; pure (none : Option Gen) : PM _) e s1 = .ok (some g) s') → False := by
    intro s1 h1
    simp only [setTokenpos_bind] at h1
    obtain ⟨h2, _⟩ := pure_ok h1
    cases h2
  rcases attempt_ok h with ⟨d, s1, h1, h2⟩ | ⟨d, s1, h1, h2⟩
  · dsimp only at h2
    simp only [getEnv_bind] at h2
    obtain ⟨u, s2, h3, h4⟩ := bind_ok h2
    simp only [peekToken_bind] at h4
    cases ht : e.toks[s2.pos]? with
    | none => rw [ht] at h4; exact (hreset s2 h4).elim
    | some t =>
      rw [ht] at h4
      dsimp only at h4
      split at h4
      · obtain ⟨h5, _⟩ := pure_ok h4
        cases h5
        exact ⟨d, s, s1, h1, rfl⟩
      · exact (hreset s2 h4).elim
  · exact (hreset s1 h2).elim

theorem trySpecs_inv {f32 : List Char → Option (List Char)} {ctx : Ctx} : ∀ (specs : List Spec) (s : PState)
    (g : Gen) (s' : PState), trySpecs f32 ctx specs e s = .ok (some g) s' →
    ∃ sp ∈ specs, ∃ d s0 s1, itemP f32 sp ctx e s0 = .ok d s1 ∧ g = makeBlock d ctx.line
  | [], s, g, s', h => by
    rw [trySpecs] at h
    obtain ⟨h1, _⟩ := pure_ok h
    cases h1
  | sp :: rest, s, g, s', h => by
    rw [trySpecs] at h
    obtain ⟨r1, s1, h1, h2⟩ := bind_ok h
    cases r1 with
    | some g1 =>
      obtain ⟨h3, _⟩ := pure_ok h2
      cases h3
      exact ⟨sp, List.mem_cons_self .., fromSpec_inv h1⟩
    | none =>
      dsimp only at h2
      obtain ⟨sp', hm, hx⟩ := trySpecs_inv rest s1 g s' h2
      exact ⟨sp', List.mem_cons_of_mem _ hm, hx⟩

/-- what `parse_ifdata` flags as valid is `parse_ifdata_make_block` of what the interpreter built for one of the
    applicable definitions -/
theorem parseIfdata_valid_inv {f32 : List Char → Option (List Char)} {specs : List Spec} {ctx : Ctx} {s : PState}
    {g : Gen} {s' : PState} (h : parseIfdata f32 specs ctx e s = .ok (some g, true) s') :
    ∃ sp ∈ specs, ∃ d s0 s1, itemP f32 sp ctx e s0 = .ok d s1 ∧ g = makeBlock d ctx.line := by
  unfold parseIfdata at h
  simp only [peekToken_bind] at h
  cases ht : e.toks[s.pos]? with
  | none => rw [ht] at h; cases h
  | some t =>
    rw [ht] at h
    dsimp only at h
    split at h
    · obtain ⟨r1, s1, h1, h2⟩ := bind_ok h
      cases r1 with
      | some g1 =>
        cases h2
        exact trySpecs_inv specs s g _ h1
      | none =>
        dsimp only at h2
        obtain ⟨g2, s2, h3, h4⟩ := bind_ok h2
        cases h4
    · cases h

end A2l.Typed
