import A2lVerif.Lemmas.TypedShape
import A2lVerif.Lemmas.TypedLoad
/-!
# Typed IF_DATA access, part F: from the shape of the interpreter's output to the output types

* `Exact t g`: the generic value `g` is exactly what the generated code for the output type `t` expects (the same
  reading as `Shape`, but for `OTy`: after the fixup phase).
* `Flat S`: the fixup phase and the interpreter agree on the definition `S` (no "no type" / tagged type / nested
  sequence in a position where the code generators have no case; the elements of an array are scalars or the array is
  a `char[n]` string: these are the arrays for which the generated code compiles, and for them the interpreter's
  array loop, which stops after an element that consumed nothing, always delivers `dim` elements). Every definition that `parseA2ml` accepts and the
  macro compiles satisfies it.
* `shape_exact`: `Shape S g → Flat S → Exact (fixItem S) g`, and the same for the data of a tagged item / the root.
-/
namespace A2l.Typed
open A2l.Tree A2l.Aml A2l.IfData

/-! ## induction over `Spec` -/

section induct
set_option linter.unusedSectionVars false
variable {P : Spec → Prop} {PL : List Spec → Prop} {PT : List (Tagged Spec) → Prop}
  (hnone : P .none) (hint : ∀ w, P (.int w)) (hfloat : P .float) (hdouble : P .double)
  (harray : ∀ of dim, P of → P (.array of dim)) (henum : ∀ items, P (.enum items))
  (hstruct : ∀ items, PL items → P (.struct items)) (hseq : ∀ of, P of → P (.seq of))
  (hts : ∀ items, PT items → P (.taggedStruct items)) (htu : ∀ items, PT items → P (.taggedUnion items))
  (hnil : PL []) (hcons : ∀ s rest, P s → PL rest → PL (s :: rest))
  (htnil : PT []) (htcons : ∀ t rest, P t.item → PT rest → PT (t :: rest))
include hnone hint hfloat hdouble harray henum hstruct hseq hts htu hnil hcons htnil htcons

mutual
theorem Spec.ind1 : ∀ s, P s
  | .none => hnone
  | .int w => hint w
  | .float => hfloat
  | .double => hdouble
  | .array of dim => harray of dim (Spec.ind1 of)
  | .enum items => henum items
  | .struct items => hstruct items (Spec.indL items)
  | .seq of => hseq of (Spec.ind1 of)
  | .taggedStruct items => hts items (Spec.indT items)
  | .taggedUnion items => htu items (Spec.indT items)
theorem Spec.indL : ∀ l, PL l
  | [] => hnil
  | s :: rest => hcons s rest (Spec.ind1 s) (Spec.indL rest)
theorem Spec.indT : ∀ l, PT l
  | [] => htnil
  | t :: rest => htcons t rest (Spec.ind1 t.item) (Spec.indT rest)
end

theorem Spec.induct : (∀ s, P s) ∧ (∀ l, PL l) ∧ (∀ l, PT l) :=
  ⟨Spec.ind1 hnone hint hfloat hdouble harray henum hstruct hseq hts htu hnil hcons htnil htcons,
   Spec.indL hnone hint hfloat hdouble harray henum hstruct hseq hts htu hnil hcons htnil htcons,
   Spec.indT hnone hint hfloat hdouble harray henum hstruct hseq hts htu hnil hcons htnil htcons⟩
end induct

/-! ## `Exact` -/

/-- the data of a tagged item of the member `m`: a block with the item's line whose items are exactly the fields of
    the member's block type, or, for a member without data, the single placeholder `None` that
    `parse_ifdata_make_block` wraps -/
def ExactData (exl : List Gen → Prop) (noItems : Prop) (it : TItem Gen) : Prop :=
  ∃ gs, it.data = .block it.line gs ∧ (exl gs ∨ (noItems ∧ gs = [.none]))

mutual
def Exact : OTy → Gen → Prop
  | .none, _ => False
  | .int w, g => ∃ off v hex, g = .int w off v hex
  | .float, g => ∃ off t, g = .float off t
  | .double, g => ∃ off t, g = .double off t
  | .str, g => ∃ off s, g = .str off s
  | .array of dim, g => isTagged of = false ∧ ∃ gs, g = .array gs ∧ gs.length = dim ∧ ∀ x ∈ gs, Exact of x
  | .enum names, g => ∃ off s, g = .enumItem off s ∧ names.contains s = true
  | .struct items, g => ∃ line gs, g = .struct line gs ∧ ExactL items gs
  | .seq of, g => isTagged of = false ∧ ∃ gs, g = .seq gs ∧ ∀ x ∈ gs, Exact of x
  | .tagged union ms, g =>
    ∃ its, g = (if union then Gen.taggedUnion its else Gen.taggedStruct its) ∧ ∀ it ∈ its, ExactT ms it
def ExactL : List OTy → List Gen → Prop
  | [], gs => gs = []
  | t :: rest, gs => ∃ g gs', gs = g :: gs' ∧ Exact t g ∧ ExactL rest gs'
def ExactT : List (OTag OTy) → TItem Gen → Prop
  | [], _ => False
  | m :: rest, it =>
    if m.tag = it.tag then m.isBlock = it.isBlock ∧ ExactData (ExactL m.items) (m.items = []) it
    else ExactT rest it
end

/-! ## `Flat` -/

def isTaggedS : Spec → Bool
  | .taggedStruct _ => true
  | .taggedUnion _ => true
  | _ => false

def isSeq : Spec → Bool
  | .seq _ => true
  | _ => false

def isStruct : Spec → Bool
  | .struct _ => true
  | _ => false

mutual
/-- `fixup_data_type` and the code generators have a case for every node, and the result reads the generic data
    the way the interpreter builds it -/
def flat : Spec → Bool
  | .none => false
  | .int _ => true
  | .float => true
  | .double => true
  | .array of _ => isChar of || isScalarS of
  | .enum _ => true
  | .struct items => flatL items
  | .seq of => !isSeq of && !isNone of && !isTaggedS of && flat of
  | .taggedStruct items => flatT items
  | .taggedUnion items => flatT items
def flatL : List Spec → Bool
  | [] => true
  | s :: rest => flat s && flatL rest
def flatT : List (Tagged Spec) → Bool
  | [] => true
  | t :: rest => (isNone t.item || flat t.item) && flatT rest
end

/-- the definition is one for which the macro generates code that reads the data the way the interpreter builds it -/
def Flat (S : Spec) : Prop := flat S = true

instance (S : Spec) : Decidable (Flat S) := by unfold Flat; infer_instance

/-! ## the fixup phase on flat definitions -/

theorem blockItems_eq (s : Spec) : blockItems s =
    match s with
    | .struct items => fixItems items
    | .none => []
    | s => [fixItem s] := by
  cases s with
  | seq of => cases of <;> rfl
  | _ => rfl

theorem scalar_flat {s : Spec} (h : isScalarS s = true) : flat s = true ∧ isTaggedS s = false := by
  cases s <;> simp_all [isScalarS, flat, isTaggedS]

theorem flat_not_none {s : Spec} (h : flat s = true) : isNone s = false := by
  cases s <;> simp_all [flat, isNone]

theorem structItems_flat : ∀ (items : List Spec), flatL items = true → structItems items = fixItems items
  | [], _ => by rw [structItems, fixItems]
  | s :: rest, h => by
    rw [flatL] at h
    simp only [Bool.and_eq_true] at h
    rw [structItems, fixItems, flat_not_none h.1, structItems_flat rest h.2]
    rfl

theorem fixItem_seq {of : Spec} (h : isSeq of = false) : fixItem (.seq of) = .seq (fixItem of) := by
  cases of <;> first | rfl | (simp [isSeq] at h)

theorem fixItem_array {of : Spec} (dim : Nat) : fixItem (.array of dim) = if isChar of then .str else .array (fixItem of) dim := by
  rw [fixItem]

theorem isTagged_fixItem {s : Spec} (h : isTaggedS s = false) : isTagged (fixItem s) = false := by
  cases s with
  | array of dim => rw [fixItem]; split <;> rfl
  | seq of => cases of <;> rfl
  | taggedStruct items => simp [isTaggedS] at h
  | taggedUnion items => simp [isTaggedS] at h
  | _ => rfl

theorem makeBlock_struct (l : Nat) (items : List Gen) (line : Nat) : makeBlock (.struct l items) line = .block line items := rfl

theorem makeBlock_other (d : Gen) (line : Nat) (h : ∀ l items, d ≠ .struct l items) : makeBlock d line = .block line [d] := by
  cases d <;> first | rfl | exact absurd rfl (h _ _)

/-- a value that has the shape of a definition that is not a struct is not a `Struct` -/
theorem shape_not_struct {s : Spec} {d : Gen} (hs : isStruct s = false) (h : Shape s d) : ∀ l items, d ≠ .struct l items := by
  intro l items he
  subst he
  cases s with
  | none => rw [Shape] at h; cases h
  | int w => rw [Shape] at h; obtain ⟨_, _, _, h⟩ := h; cases h
  | float => rw [Shape] at h; obtain ⟨_, _, h⟩ := h; cases h
  | double => rw [Shape] at h; obtain ⟨_, _, h⟩ := h; cases h
  | array of dim =>
    rw [Shape] at h
    split at h
    · obtain ⟨_, _, h⟩ := h; cases h
    · obtain ⟨_, h, _⟩ := h; cases h
  | enum items => rw [Shape] at h; obtain ⟨_, _, h, _⟩ := h; cases h
  | struct items => simp [isStruct] at hs
  | seq of => rw [Shape] at h; obtain ⟨_, h, _⟩ := h; cases h
  | taggedStruct items => rw [Shape] at h; obtain ⟨_, h, _⟩ := h; cases h
  | taggedUnion items => rw [Shape] at h; obtain ⟨_, h, _⟩ := h; cases h

theorem lookupKV_contains (items : List (List Char × Option Int)) (s : List Char) (h : (lookupKV items s).isSome = true) :
    (items.map (·.1)).contains s = true := by
  unfold lookupKV at h
  rw [Option.isSome_map, List.find?_isSome] at h
  obtain ⟨x, hx, hp⟩ := h
  rw [List.contains_iff_mem]
  exact List.mem_map.2 ⟨x, hx, by simpa using hp⟩

/-- the data of a tagged item / of the root, given the statement for the item itself -/
theorem data_exact {s : Spec} (hP : flat s = true → ∀ g, Shape s g → Exact (fixItem s) g) (hf : (isNone s || flat s) = true)
    {d : Gen} (hd : Shape s d) (line : Nat) :
    ∃ gs, makeBlock d line = .block line gs ∧ (ExactL (blockItems s) gs ∨ (blockItems s = [] ∧ gs = [.none])) := by
  cases hn : isNone s with
  | true =>
    cases s <;> simp [isNone] at hn
    rw [Shape] at hd
    subst hd
    exact ⟨[.none], rfl, .inr ⟨by rw [blockItems], rfl⟩⟩
  | false =>
    rw [hn, Bool.false_or] at hf
    cases hs : isStruct s with
    | true =>
      cases s <;> simp [isStruct] at hs
      rename_i items
      have hex := hP hf d hd
      rw [Shape] at hd
      obtain ⟨gs, rfl, _⟩ := hd
      rw [fixItem, Exact] at hex
      obtain ⟨line', gs', he, hl⟩ := hex
      cases he
      rw [flat] at hf
      refine ⟨gs, rfl, .inl ?_⟩
      rw [blockItems, ← structItems_flat items hf]
      exact hl
    | false =>
      refine ⟨[d], makeBlock_other d line (shape_not_struct hs hd), .inl ?_⟩
      have hb : blockItems s = [fixItem s] := by
        rw [blockItems_eq]
        cases s <;> simp_all [isStruct, isNone]
      rw [hb, ExactL]
      exact ⟨d, [], rfl, hP hf d hd, by rw [ExactL]⟩

theorem shape_exact :
    (∀ s, flat s = true → ∀ g, Shape s g → Exact (fixItem s) g) ∧
    (∀ l, flatL l = true → ∀ gs, ShapeL l gs → ExactL (fixItems l) gs) ∧
    (∀ l, flatT l = true → ∀ it, ShapeT l it → ExactT (fixTagged l) it) := by
  refine Spec.induct (P := fun s => flat s = true → ∀ g, Shape s g → Exact (fixItem s) g)
    (PL := fun l => flatL l = true → ∀ gs, ShapeL l gs → ExactL (fixItems l) gs)
    (PT := fun l => flatT l = true → ∀ it, ShapeT l it → ExactT (fixTagged l) it)
    ?_ ?_ ?_ ?_ ?_ ?_ ?_ ?_ ?_ ?_ ?_ ?_ ?_ ?_
  · intro h; simp [flat] at h
  · intro w _ g h
    rw [Shape] at h
    rw [fixItem, Exact]
    exact h
  · intro _ g h
    rw [Shape] at h
    rw [fixItem, Exact]
    exact h
  · intro _ g h
    rw [Shape] at h
    rw [fixItem, Exact]
    exact h
  · intro of dim ih hf g h
    rw [Shape] at h
    rw [fixItem_array]
    rw [flat] at hf
    cases hc : isChar of with
    | true =>
      rw [hc] at h
      simp only [if_true] at h ⊢
      rw [Exact]
      exact h
    | false =>
      rw [hc] at h hf
      simp only [Bool.false_eq_true, if_false, Bool.false_or] at h hf ⊢
      obtain ⟨gs, rfl, _, hl, hall⟩ := h
      rw [Exact]
      exact ⟨isTagged_fixItem (scalar_flat hf).2, gs, rfl, hl hf, fun x hx => ih (scalar_flat hf).1 x (hall x hx)⟩
  · intro items _ g h
    rw [Shape] at h
    obtain ⟨off, s, rfl, hk⟩ := h
    rw [fixItem, Exact]
    exact ⟨off, s, rfl, lookupKV_contains items s hk⟩
  · intro items ih hf g h
    rw [Shape] at h
    obtain ⟨gs, rfl, hl⟩ := h
    rw [flat] at hf
    rw [fixItem, Exact, structItems_flat items hf]
    exact ⟨0, gs, rfl, ih hf gs hl⟩
  · intro of ih hf g h
    rw [Shape] at h
    obtain ⟨gs, rfl, hall⟩ := h
    rw [flat] at hf
    simp only [Bool.and_eq_true, Bool.not_eq_true'] at hf
    rw [fixItem_seq hf.1.1.1, Exact]
    exact ⟨isTagged_fixItem hf.1.2, gs, rfl, fun x hx => ih hf.2 x (hall x hx)⟩
  · intro items ih hf g h
    rw [Shape] at h
    obtain ⟨its, rfl, _, hall⟩ := h
    rw [flat] at hf
    rw [fixItem, Exact]
    exact ⟨its, rfl, fun it hit => ih hf it (hall it hit)⟩
  · intro items ih hf g h
    rw [Shape] at h
    obtain ⟨its, rfl, _, hall⟩ := h
    rw [flat] at hf
    rw [fixItem, Exact]
    exact ⟨its, rfl, fun it hit => ih hf it (hall it hit)⟩
  · intro _ gs h
    rw [ShapeL] at h
    rw [fixItems, ExactL]
    exact h
  · intro s rest ihs ihr hf gs h
    rw [ShapeL] at h
    obtain ⟨g, gs', rfl, hg, hr⟩ := h
    rw [flatL] at hf
    simp only [Bool.and_eq_true] at hf
    rw [fixItems, ExactL]
    exact ⟨g, gs', rfl, ihs hf.1 g hg, ihr hf.2 gs' hr⟩
  · intro _ it h
    rw [ShapeT] at h
    cases h
  · intro t rest iht ihr hf it h
    rw [flatT] at hf
    simp only [Bool.and_eq_true] at hf
    rw [ShapeT] at h
    rw [fixTagged, ExactT]
    dsimp only
    split
    · rename_i ht
      rw [if_pos ht] at h
      obtain ⟨hb, d, hd, hs⟩ := h
      obtain ⟨gs, hm, hgs⟩ := data_exact iht hf.1 hs it.line
      refine ⟨hb, gs, by rw [hd, hm], ?_⟩
      exact hgs
    · rename_i ht
      rw [if_neg ht] at h
      exact ihr hf.2 it h

end A2l.Typed
