import A2lVerif.Model.Scalars
/-! helper lemmas for the scalar codecs (C01.1, C01.2, C02) -/
namespace A2l.Sc

/-! ## strings -/

/-- the decision taken by one iteration of the `unescape_string` loop on the pair `(a, b)` -/
def unescPair (a b : Char) : Option Char :=
  if (a = '\\' ∨ a = '"') ∧ b = '"' then some '"'
  else if a = '\\' ∧ b = '\'' then some '\''
  else if a = '\\' ∧ b = '\\' then some '\\'
  else if a = '\\' ∧ b = 'n' then some '\n'
  else if a = '\\' ∧ b = 'r' then some '\r'
  else if a = '\\' ∧ b = 't' then some '\t'
  else none

/-- list-recursive specification of `unescape_string` -/
def unescapeL : List Char → List Char
  | [] => []
  | [a] => [a]
  | a :: b :: rest =>
    match unescPair a b with
    | some c => c :: unescapeL rest
    | none => a :: unescapeL (b :: rest)

def Plain (c : Char) : Prop := c ≠ '\'' ∧ c ≠ '"' ∧ c ≠ '\\' ∧ c ≠ '\r' ∧ c ≠ '\n' ∧ c ≠ '\t'

theorem escChar_cases (c : Char) :
    (∃ d, escChar c = ['\\', d] ∧ unescPair '\\' d = some c ∧ d ≠ '\r') ∨ (Plain c ∧ escChar c = [c]) := by
  by_cases h1 : c = '\''
  · subst h1; exact Or.inl ⟨'\'', by decide, by decide, by decide⟩
  by_cases h2 : c = '"'
  · subst h2; exact Or.inl ⟨'"', by decide, by decide, by decide⟩
  by_cases h3 : c = '\\'
  · subst h3; exact Or.inl ⟨'\\', by decide, by decide, by decide⟩
  by_cases h4 : c = '\r'
  · subst h4; exact Or.inl ⟨'r', by decide, by decide, by decide⟩
  by_cases h5 : c = '\n'
  · subst h5; exact Or.inl ⟨'n', by decide, by decide, by decide⟩
  by_cases h6 : c = '\t'
  · subst h6; exact Or.inl ⟨'t', by decide, by decide, by decide⟩
  exact Or.inr ⟨⟨h1, h2, h3, h4, h5, h6⟩, by simp [escChar, h1, h2, h3, h4, h5, h6]⟩

theorem unescPair_plain {c : Char} (h : Plain c) (d : Char) : unescPair c d = none := by
  obtain ⟨_, h2, h3, _⟩ := h
  simp [unescPair, h2, h3]

theorem escape_cons (c : Char) (s : List Char) : escape (c :: s) = escChar c ++ escape s := by
  simp [escape]

theorem escape_eq_nil {s : List Char} (h : escape s = []) : s = [] := by
  cases s with
  | nil => rfl
  | cons c s =>
    simp only [escape, List.flatMap_cons, List.append_eq_nil_iff] at h
    rcases escChar_cases c with ⟨d, hd, _⟩ | ⟨_, hd⟩ <;> simp [hd] at h

theorem unescapeL_escape (s : List Char) : unescapeL (escape s) = s := by
  induction s with
  | nil => simp [escape, unescapeL]
  | cons c s ih =>
    rw [escape_cons]
    rcases escChar_cases c with ⟨d, hd, hp, _⟩ | ⟨hpl, hd⟩
    · simp [hd, unescapeL, hp, ih]
    · rw [hd]
      cases hrest : escape s with
      | nil => have := escape_eq_nil hrest; subst this; simp [unescapeL]
      | cons b rest => rw [hrest] at ih; simp [unescapeL, unescPair_plain hpl b, ih]

/-- a text without backslash and quote after escaping was written unchanged -/
theorem escape_eq_self_of_not_any (s : List Char)
    (h : (escape s).any (fun c => c = '\\' ∨ c = '"') = false) : escape s = s := by
  induction s with
  | nil => simp [escape]
  | cons c s ih =>
    rw [escape_cons] at h ⊢
    rcases escChar_cases c with ⟨d, hd, _, _⟩ | ⟨_, hd⟩
    · rw [hd] at h; simp at h
    · rw [hd] at h ⊢
      simp only [List.cons_append, List.nil_append, List.any_cons, Bool.or_eq_false_iff] at h
      rw [ih h.2]; rfl

/-- one iteration of the loop, in terms of `unescPair` -/
theorem unescLoop_step (cs : Array Char) (idx : Nat) (acc : Array Char) (h1 : 1 ≤ idx) (h : idx < cs.size) :
    unescLoop cs idx acc =
      match unescPair (cs[idx - 1]'(by omega)) cs[idx] with
      | some c => unescLoop cs (idx + 2) (acc.push c)
      | none => unescLoop cs (idx + 1) (acc.push (cs[idx - 1]'(by omega))) := by
  have hp : cs[idx - 1]? = some (cs[idx - 1]'(by omega)) := Array.getElem?_eq_getElem (by omega)
  rw [unescLoop]
  simp only [dif_pos h, hp]
  generalize cs[idx - 1]'(by omega) = a
  generalize cs[idx] = b
  unfold unescPair
  by_cases c1 : (a = '\\' ∨ a = '"') ∧ b = '"'
  · simp only [if_pos c1]
  simp only [if_neg c1]
  by_cases c2 : a = '\\' ∧ b = '\''
  · simp only [if_pos c2]
  simp only [if_neg c2]
  by_cases c3 : a = '\\' ∧ b = '\\'
  · simp only [if_pos c3]
  simp only [if_neg c3]
  by_cases c4 : a = '\\' ∧ b = 'n'
  · simp only [if_pos c4]
  simp only [if_neg c4]
  by_cases c5 : a = '\\' ∧ b = 'r'
  · simp only [if_pos c5]
  simp only [if_neg c5]
  by_cases c6 : a = '\\' ∧ b = 't'
  · simp only [if_pos c6]
  simp only [if_neg c6]

def unescFinish (cs : Array Char) : Out (Array Char × Nat) → Out (List Char)
  | .panic => .panic
  | .ok (acc, idx) =>
    if idx = cs.size then
      match cs[idx - 1]? with
      | some p => .ok (acc.push p).toList
      | none => .panic
    else .ok acc.toList

theorem unescape_eq (s : List Char) :
    unescape s = if s.any (fun c => c = '\\' ∨ c = '"') then unescFinish s.toArray (unescLoop s.toArray 1 #[])
      else .ok s := by
  unfold unescape
  split
  · simp only
    cases unescLoop s.toArray 1 #[] with
    | panic => rfl
    | ok p => rfl
  · rfl

theorem unescFinish_loop (cs : Array Char) (n : Nat) : ∀ (idx : Nat) (acc : Array Char),
    cs.size + 1 - idx = n → 1 ≤ idx → idx ≤ cs.size + 1 →
    unescFinish cs (unescLoop cs idx acc) = .ok (acc.toList ++ unescapeL (cs.toList.drop (idx - 1))) := by
  induction n using Nat.strongRecOn with
  | _ n ih =>
    intro idx acc hn h1 h2
    by_cases hlt : idx < cs.size
    · rw [unescLoop_step cs idx acc h1 hlt]
      have hd : cs.toList.drop (idx - 1) = cs[idx - 1] :: cs[idx] :: cs.toList.drop (idx + 1) := by
        rw [List.drop_eq_getElem_cons (by simp; omega), List.drop_eq_getElem_cons (by simp; omega)]
        simp only [Array.getElem_toList]
        have : idx - 1 + 1 = idx := by omega
        simp only [this]
      rw [hd, unescapeL]
      cases hu : unescPair cs[idx - 1] cs[idx] with
      | some c =>
        simp only
        rw [ih (cs.size + 1 - (idx + 2)) (by omega) (idx + 2) _ rfl (by omega) (by omega)]
        simp
      | none =>
        simp only
        rw [ih (cs.size + 1 - (idx + 1)) (by omega) (idx + 1) _ rfl (by omega) (by omega)]
        have : cs.toList.drop (idx + 1 - 1) = cs[idx] :: cs.toList.drop (idx + 1) := by
          rw [List.drop_eq_getElem_cons (by simp; omega)]; simp
        rw [this]; simp
    · rw [unescLoop, dif_neg hlt]
      by_cases heq : idx = cs.size
      · have hp : cs[idx - 1]? = some (cs[idx - 1]'(by omega)) := Array.getElem?_eq_getElem (by omega)
        simp only [unescFinish, if_pos heq, hp]
        have hd : cs.toList.drop (idx - 1) = [cs[idx - 1]] := by
          rw [List.drop_eq_getElem_cons (by simp; omega), List.drop_of_length_le (by simp; omega)]
          simp
        rw [hd]; simp [unescapeL]
      · simp only [unescFinish, if_neg heq]
        rw [List.drop_of_length_le (by simp; omega)]
        simp [unescapeL]

/-- `unescape_string` never panics; on a text with a backslash or a quote it computes `unescapeL` -/
theorem unescape_okL (s : List Char) : ∃ r, unescape s = .ok r ∧
    (s.any (fun c => c = '\\' ∨ c = '"') = true → r = unescapeL s) ∧
    (s.any (fun c => c = '\\' ∨ c = '"') = false → r = s) := by
  rw [unescape_eq]
  split
  · rename_i h
    refine ⟨unescapeL s, ?_, fun _ => rfl, fun h' => by rw [h] at h'; cases h'⟩
    rw [unescFinish_loop s.toArray _ 1 #[] rfl (Nat.le_refl 1) (by omega)]
    simp
  · rename_i h
    exact ⟨s, rfl, fun h' => absurd h' h, fun _ => rfl⟩

/-! ## integers -/

/-- left-to-right positional value with digit function `f` and base `b` -/
def digitsVal (f : Char → Option Nat) (b : Nat) (a : Nat) (cs : List Char) : Option Nat :=
  cs.foldlM (fun acc c => (f c).map (acc * b + ·)) a

theorem digitsVal_nil (f b a) : digitsVal f b a [] = some a := rfl
theorem digitsVal_cons (f b a c cs) :
    digitsVal f b a (c :: cs) = (f c).bind (fun d => digitsVal f b (a * b + d) cs) := by
  simp only [digitsVal, List.foldlM_cons]
  cases f c <;> rfl

theorem decDigits_eq (cs : List Char) (h : cs ≠ []) : decDigits cs = digitsVal digitVal 10 0 cs := by
  cases cs with
  | nil => exact absurd rfl h
  | cons c cs => rfl
theorem hexDigits_eq (cs : List Char) (h : cs ≠ []) : hexDigits cs = digitsVal hexVal 16 0 cs := by
  cases cs with
  | nil => exact absurd rfl h
  | cons c cs => rfl

theorem digitsVal_go (f : Char → Option Nat) (b : Nat) (digit : Nat → Char) (hb : 2 ≤ b)
    (hd : ∀ d, d < b → f (digit d) = some d) :
    ∀ (fuel n : Nat) (acc : List Char), n < fuel →
      digitsVal f b 0 (natToDigits.go b digit fuel n acc) = digitsVal f b n acc := by
  intro fuel
  induction fuel with
  | zero => intro n acc h; omega
  | succ fuel ih =>
    intro n acc h
    rw [natToDigits.go]
    split
    · rename_i hlt
      rw [digitsVal_cons, hd n hlt]; simp
    · rename_i hge
      have hpos : 0 < b := by omega
      have : n / b < fuel := by
        have := Nat.div_lt_self (n := n) (k := b) (by omega) (by omega)
        omega
      rw [ih _ _ this, digitsVal_cons, hd _ (Nat.mod_lt _ hpos)]
      simp only [Option.bind_some]
      rw [Nat.div_add_mod' n b]

theorem go_ne_nil (b : Nat) (digit : Nat → Char) : ∀ (fuel n : Nat) (acc : List Char),
    acc ≠ [] ∨ 0 < fuel → natToDigits.go b digit fuel n acc ≠ [] := by
  intro fuel
  induction fuel with
  | zero => intro n acc h; rw [natToDigits.go]; rcases h with h | h; exact h; omega
  | succ fuel ih =>
    intro n acc h
    rw [natToDigits.go]
    split
    · simp
    · exact ih _ _ (Or.inl (by simp))

theorem natToDigits_ne_nil (b : Nat) (digit : Nat → Char) (hb : 2 ≤ b) (n : Nat) : natToDigits b digit n ≠ [] := by
  unfold natToDigits
  rw [if_neg (by omega)]
  exact go_ne_nil b digit _ _ _ (Or.inr (by omega))

theorem digitsVal_natToDigits (f : Char → Option Nat) (b : Nat) (digit : Nat → Char) (hb : 2 ≤ b)
    (hd : ∀ d, d < b → f (digit d) = some d) (n : Nat) :
    digitsVal f b 0 (natToDigits b digit n) = some n := by
  unfold natToDigits
  rw [if_neg (by omega)]
  exact digitsVal_go f b digit hb hd _ _ _ (by omega)

theorem digitVal_ofNat : ∀ d, d < 10 → digitVal (Char.ofNat (48 + d)) = some d := by
  have : ∀ d : Fin 10, digitVal (Char.ofNat (48 + d.val)) = some d.val := by decide
  intro d h; exact this ⟨d, h⟩
theorem hexVal_hexDigitUpper : ∀ d, d < 16 → hexVal (hexDigitUpper d) = some d := by
  have : ∀ d : Fin 16, hexVal (hexDigitUpper d.val) = some d.val := by decide
  intro d h; exact this ⟨d, h⟩

theorem decDigits_natToDigits (n : Nat) : decDigits (natToDigits 10 (fun d => Char.ofNat (48 + d)) n) = some n := by
  rw [decDigits_eq _ (natToDigits_ne_nil _ _ (by omega) _)]
  exact digitsVal_natToDigits _ _ _ (by omega) digitVal_ofNat n
theorem hexDigits_natToDigits (n : Nat) : hexDigits (natToDigits 16 hexDigitUpper n) = some n := by
  rw [hexDigits_eq _ (natToDigits_ne_nil _ _ (by omega) _)]
  exact digitsVal_natToDigits _ _ _ (by omega) hexVal_hexDigitUpper n


/-! ### shape of digit strings -/
theorem decDigits_cons_some {c : Char} {cs : List Char} {n : Nat} (h : decDigits (c :: cs) = some n) :
    ∃ d, digitVal c = some d ∧ digitsVal digitVal 10 (0 * 10 + d) cs = some n := by
  rw [decDigits_eq _ (by simp), digitsVal_cons] at h
  cases hd : digitVal c with
  | none => rw [hd] at h; simp at h
  | some d => rw [hd] at h; exact ⟨d, rfl, h⟩

theorem digitVal_some_ne {c : Char} {d : Nat} (h : digitVal c = some d) :
    c ≠ '-' ∧ c ≠ '+' ∧ c ≠ 'x' ∧ c ≠ 'X' := by
  have hs : (digitVal c).isSome = true := by rw [h]; rfl
  refine ⟨?_, ?_, ?_, ?_⟩ <;> (intro hc; subst hc; revert hs; decide)

theorem decDigits_nil : decDigits [] = none := rfl
theorem hexDigits_nil : hexDigits [] = none := rfl

/-- the classification used by `get_integer`: `0x`/`0X` followed by something -/
def IsHexLit (cs : List Char) : Prop :=
  match cs with
  | '0' :: x :: r => (x = 'x' ∨ x = 'X') ∧ r ≠ []
  | _ => False

def hexBody (rest : List Char) : List Char := match rest with | '+' :: r => r | r => r

/-- the reader's value of a decimal literal -/
def decLit (cs : List Char) : Option Int :=
  match cs with
  | '-' :: r => (decDigits r).map (fun n => -(n : Int))
  | '+' :: r => (decDigits r).map Int.ofNat
  | r => (decDigits r).map Int.ofNat

theorem u64FromHex_eq (rest : List Char) :
    u64FromHex rest = match hexDigits (hexBody rest) with
      | some n => if n < 2 ^ 64 then some n else none
      | none => none := rfl

theorem parseInt_hex (t : IntTy) (x : Char) (rest : List Char) (hx : x = 'x' ∨ x = 'X') (hr : rest ≠ []) :
    parseInt t ('0' :: x :: rest) =
      match u64FromHex rest with
      | some n => if t.bits ≥ 64 ∨ n / 2 ^ t.bits = 0 then some (wrapTo t n, true) else none
      | none => none := by
  simp only [parseInt, if_pos (And.intro hx hr)]
  rfl

theorem literalValue_hex (x : Char) (rest : List Char) (hx : x = 'x' ∨ x = 'X') (hr : rest ≠ []) :
    literalValue ('0' :: x :: rest) = (hexDigits (hexBody rest)).map Int.ofNat := by
  simp only [literalValue, if_pos (And.intro hx hr), hexBody]
  rfl

theorem isHexLit_iff (cs : List Char) :
    IsHexLit cs ↔ ∃ x rest, cs = '0' :: x :: rest ∧ (x = 'x' ∨ x = 'X') ∧ rest ≠ [] := by
  constructor
  · intro h
    unfold IsHexLit at h
    split at h
    · exact ⟨_, _, rfl, h⟩
    · exact h.elim
  · rintro ⟨x, rest, rfl, h⟩
    exact h

theorem parseInt_nonhex (t : IntTy) (cs : List Char) (h : ¬ IsHexLit cs) :
    parseInt t cs = (parseDec t cs).map (·, false) := by
  unfold parseInt
  split
  · rename_i x rest
    have h' : ¬((x = 'x' ∨ x = 'X') ∧ rest ≠ []) := h
    rw [if_neg h']
  · rfl

theorem literalValue_nonhex (cs : List Char) (h : ¬ IsHexLit cs) : literalValue cs = decLit cs := by
  unfold literalValue
  split
  · rename_i x rest
    have h' : ¬((x = 'x' ∨ x = 'X') ∧ rest ≠ []) := h
    rw [if_neg h']; rfl
  · rfl
  · rfl
  · rename_i h1 h2 h3
    unfold decLit
    split
    · exact absurd rfl (h2 _)
    · exact absurd rfl (h3 _)
    · rfl


theorem IntTy.min_nonpos (t : IntTy) : t.min ≤ 0 := by cases t <;> decide
theorem IntTy.max_nonneg (t : IntTy) : 0 ≤ t.max := by cases t <;> decide
theorem IntTy.max_lt_pow (t : IntTy) : t.max < ((2 ^ t.bits : Nat) : Int) := by cases t <;> decide
theorem IntTy.min_eq_zero_of_unsigned (t : IntTy) (h : t.signed = false) : t.min = 0 := by
  cases t <;> first | rfl | cases h

/-- what `str::parse::<T>` accepts is the reader's value, and it is in range -/
theorem parseDec_some {t : IntTy} {cs : List Char} {v : Int} (h : parseDec t cs = some v) :
    decLit cs = some v ∧ t.inRange v := by
  have hmin := t.min_nonpos
  have hmax := t.max_nonneg
  unfold parseDec at h
  split at h
  · -- '-' :: r
    rename_i r
    split at h
    · cases hd : decDigits r with
      | none => rw [hd] at h; cases h
      | some n =>
        rw [hd] at h
        simp only at h
        split at h
        · cases h
          refine ⟨?_, ?_⟩
          · simp only [decLit, hd]; rfl
          · unfold IntTy.inRange; omega
        · cases h
    · cases h
  · rename_i r
    cases hd : decDigits r with
    | none => rw [hd] at h; cases h
    | some n =>
      rw [hd] at h
      simp only at h
      split at h
      · cases h
        refine ⟨?_, ?_⟩
        · simp only [decLit, hd]; rfl
        · unfold IntTy.inRange; omega
      · cases h
  · rename_i h1 h2
    cases hd : decDigits cs with
    | none => rw [hd] at h; cases h
    | some n =>
      rw [hd] at h
      simp only at h
      split at h
      · cases h
        refine ⟨?_, ?_⟩
        · unfold decLit
          split
          · exact absurd rfl (h1 _)
          · exact absurd rfl (h2 _)
          · rw [hd]; rfl
        · unfold IntTy.inRange; omega
      · cases h

/-- a decimal literal outside the range of the type is rejected -/
theorem parseDec_none {t : IntTy} {cs : List Char} {n : Int} (hv : decLit cs = some n)
    (hbad : n < t.min ∨ t.max < n) : parseDec t cs = none := by
  have hmin := t.min_nonpos
  have hmax := t.max_nonneg
  unfold decLit at hv
  split at hv
  · rename_i r
    cases hd : decDigits r with
    | none => rw [hd] at hv; cases hv
    | some m =>
      rw [hd] at hv
      have hv' : -(m : Int) = n := Option.some.inj hv
      unfold parseDec
      simp only [hd]
      split
      · rw [if_neg (by omega)]
      · rfl
  · rename_i r
    cases hd : decDigits r with
    | none => rw [hd] at hv; cases hv
    | some m =>
      rw [hd] at hv
      simp only [Option.map_some, Option.some.injEq] at hv
      have hm : Int.ofNat m = (m : Int) := rfl
      unfold parseDec
      simp only [hd]
      rw [if_neg (by omega)]
  · rename_i h1 h2
    cases hd : decDigits cs with
    | none => rw [hd] at hv; cases hv
    | some m =>
      rw [hd] at hv
      simp only [Option.map_some, Option.some.injEq] at hv
      have hm : Int.ofNat m = (m : Int) := rfl
      unfold parseDec
      split
      · exact absurd rfl (h1 _)
      · exact absurd rfl (h2 _)
      · simp only [hd]
        rw [if_neg (by omega)]


/-! ### widths and two's complement -/

theorem IntTy.bits_le (t : IntTy) : t.bits ≤ 64 := by cases t <;> decide
theorem IntTy.bits_eq_of_ge (t : IntTy) (h : t.bits ≥ 64) : t.bits = 64 := by
  have := t.bits_le; omega

/-- reinterpretation of a magnitude that fits the width -/
theorem wrapTo_spec (t : IntTy) (n : Nat) (h : n < 2 ^ t.bits) :
    t.inRange (wrapTo t n) ∧ (t.signed = false → wrapTo t n = n) := by
  unfold wrapTo IntTy.inRange
  rw [Nat.mod_eq_of_lt h]
  cases t <;> simp [IntTy.bits, IntTy.signed, IntTy.min, IntTy.max] at h ⊢ <;> (try split) <;> omega

/-- the two's complement image printed by `{:X}` reads back -/
theorem wrapTo_print (t : IntTy) (v : Int) (n : Nat) (h : t.inRange v)
    (hn : (n : Int) = if v < 0 then v + (2 ^ t.bits : Nat) else v) :
    n < 2 ^ t.bits ∧ wrapTo t n = v := by
  unfold wrapTo
  unfold IntTy.inRange at h
  cases t <;> simp [IntTy.bits, IntTy.signed, IntTy.min, IntTy.max] at h hn ⊢ <;> split at hn <;>
    (refine ⟨by omega, ?_⟩) <;> (try split) <;> omega

theorem printInt_hex_n (t : IntTy) (v : Int) (h : t.inRange v) :
    ∃ n : Nat, printInt t v true = '0' :: 'x' :: natToDigits 16 hexDigitUpper n ∧
      n < 2 ^ t.bits ∧ wrapTo t n = v := by
  refine ⟨if v < 0 then (v + (2 ^ t.bits : Nat)).toNat else v.toNat, by simp [printInt], ?_⟩
  apply wrapTo_print t v _ h
  have h0 := t.min_nonpos
  have h1 := t.max_lt_pow
  unfold IntTy.inRange at h
  split
  · have : 0 ≤ v + ((2 ^ t.bits : Nat) : Int) := by
      cases t <;> simp [IntTy.bits, IntTy.signed, IntTy.min, IntTy.max] at h ⊢ <;> omega
    omega
  · omega

theorem hexFits_iff (t : IntTy) (n : Nat) :
    (n < 2 ^ 64 ∧ (t.bits ≥ 64 ∨ n / 2 ^ t.bits = 0)) ↔ n < 2 ^ t.bits := by
  constructor
  · rintro ⟨h64, hc | hc⟩
    · rw [t.bits_eq_of_ge hc]; exact h64
    · exact Nat.lt_of_div_eq_zero (Nat.pow_pos (by omega)) hc
  · intro hn
    exact ⟨Nat.lt_of_lt_of_le hn (Nat.pow_le_pow_right (by omega) t.bits_le), Or.inr (Nat.div_eq_of_lt hn)⟩

/-- `get_integer` on a hex literal: accepted iff the magnitude fits the width -/
theorem parseInt_hex_spec (t : IntTy) (x : Char) (rest : List Char) (hx : x = 'x' ∨ x = 'X') (hr : rest ≠ []) :
    parseInt t ('0' :: x :: rest) =
      match hexDigits (hexBody rest) with
      | some n => if n < 2 ^ t.bits then some (wrapTo t n, true) else none
      | none => none := by
  rw [parseInt_hex t x rest hx hr, u64FromHex_eq]
  cases hexDigits (hexBody rest) with
  | none => rfl
  | some n =>
    dsimp only
    by_cases hn : n < 2 ^ t.bits
    · obtain ⟨h64, hc⟩ := (hexFits_iff t n).2 hn
      rw [if_pos h64, if_pos hn]
      dsimp only
      rw [if_pos hc]
    · rw [if_neg hn]
      by_cases h64 : n < 2 ^ 64
      · rw [if_pos h64]
        dsimp only
        rw [if_neg (fun hc => hn ((hexFits_iff t n).1 ⟨h64, hc⟩))]
      · rw [if_neg h64]

theorem hexBody_eq_self_of_hexDigits {cs : List Char} {n : Nat} (h : hexDigits cs = some n) : hexBody cs = cs := by
  unfold hexBody
  split
  · rename_i r
    rw [hexDigits_eq _ (by simp), digitsVal_cons] at h
    have : hexVal '+' = none := by decide
    rw [this] at h; cases h
  · rfl

/-- a string of decimal digits is read by `get_integer` as a decimal number -/
theorem parseInt_of_decDigits (t : IntTy) {cs : List Char} {n : Nat} (h : decDigits cs = some n) :
    parseInt t cs = if (n : Int) ≤ t.max then some ((n : Int), false) else none := by
  cases cs with
  | nil => cases h
  | cons c cs =>
    obtain ⟨d, hd, hrest⟩ := decDigits_cons_some h
    obtain ⟨hm, hp, _, _⟩ := digitVal_some_ne hd
    have hnh : ¬ IsHexLit (c :: cs) := by
      rw [isHexLit_iff]
      rintro ⟨x, rest, heq, hx, _⟩
      cases heq
      rw [digitsVal_cons] at hrest
      cases hx' : digitVal x with
      | none => rw [hx'] at hrest; cases hrest
      | some e =>
        obtain ⟨_, _, h3, h4⟩ := digitVal_some_ne hx'
        rcases hx with hx | hx
        · exact h3 hx
        · exact h4 hx
    rw [parseInt_nonhex t _ hnh]
    unfold parseDec
    split
    · rename_i heq; cases heq; exact absurd rfl hm
    · rename_i heq; cases heq; exact absurd rfl hp
    · simp only [h]
      split <;> rfl

theorem parseInt_neg (t : IntTy) {r : List Char} {n : Nat} (h : decDigits r = some n) (hs : t.signed = true)
    (hmin : t.min ≤ -(n : Int)) : parseInt t ('-' :: r) = some (-(n : Int), false) := by
  have hnh : ¬ IsHexLit ('-' :: r) := by
    rw [isHexLit_iff]
    rintro ⟨x, rest, heq, _⟩
    cases heq
  rw [parseInt_nonhex t _ hnh]
  simp only [parseDec, hs, if_true, h, if_pos hmin]
  rfl

end A2l.Sc
