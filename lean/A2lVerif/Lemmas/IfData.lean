import A2lVerif.Model.IfData
import A2lVerif.Lemmas.TreeTotal
import A2lVerif.Lemmas.TreeWriter
import A2lVerif.Lemmas.A2ml
/-!
# helper lemmas for the IF_DATA interpreter (Model/IfData.lean)

Part A: the judgement `Good` = `Safe` of Lemmas/TreeTotal.lean (cursor range, log relation, no panic) plus "the budget
is sufficient" (`≠ .fuel` when the cursor is tracked and the token array has no Include token). One lemma per function.
Part B: inversion lemmas (`f e s = .ok a s' → ...`) that relate the result to the tokens that were consumed.
-/
namespace A2l.IfData
open A2l.Tree A2l.Aml A2l.G A2l.Sc

variable {e : Env} {F : Prop}

/-! ## Part A: `Good` -/

/-- no Include token reaches the parser (the tokenizer replaces them by the tokens of the included file) -/
def NoInc (e : Env) : Prop := ∀ (i : Nat) (t : PTok), e.toks[i]? = some t → t.ty ≠ 3

def Good {α} (F : Prop) (c : Cfg e) (lo : Nat) (lg : List Diag) (r : PRes α) (Q : α → PState → Prop) : Prop :=
  Safe c lo lg r Q ∧ (c.PB → F → r ≠ .fuel)

theorem Good.bindG {α β} {c : Cfg e} {lo lo1 : Nat} {lg : List Diag} {m : PM α} {f : α → PM β} {s : PState}
    {Q1 : α → PState → Prop} {Q2 : β → PState → Prop}
    (h1 : Good F c lo1 lg (m e s) Q1)
    (h2 : ∀ a s1, (c.PB → lo1 ≤ s1.pos ∧ s1.pos ≤ e.toks.size) → c.L lg s1.log → Q1 a s1 → Good F c lo lg (f a e s1) Q2) :
    Good F c lo lg ((m >>= f) e s) Q2 := by
  rw [bind_eq]
  cases h : m e s with
  | ok a s1 => rw [h] at h1; exact h2 a s1 h1.1.1 h1.1.2.1 h1.1.2.2
  | err d s1 => rw [h] at h1; exact ⟨h1.1, fun _ _ h' => by cases h'⟩
  | panic => rw [h] at h1; exact ⟨h1.1, fun _ _ h' => by cases h'⟩
  | fuel => rw [h] at h1; exact ⟨trivial, fun hpb hF _ => h1.2 hpb hF rfl⟩

theorem Good.weaken {α} {c : Cfg e} {lo lo1 : Nat} {lg lg1 : List Diag} {r : PRes α}
    {Q1 Q2 : α → PState → Prop}
    (hlo : c.PB → lo ≤ lo1) (hl : c.L lg lg1)
    (h1 : Good F c lo1 lg1 r Q1) (hq : ∀ a s1, Q1 a s1 → Q2 a s1) : Good F c lo lg r Q2 :=
  ⟨Safe.weaken hlo hl h1.1 hq, h1.2⟩

theorem Good.bind' {α β} {c : Cfg e} {lo : Nat} {lg : List Diag} {m : PM α} {f : α → PM β} {s : PState}
    {Q1 : α → PState → Prop} {Q2 : β → PState → Prop}
    (hl : c.L lg s.log)
    (h1 : Good F c s.pos s.log (m e s) Q1)
    (h2 : ∀ a s1, (c.PB → s.pos ≤ s1.pos ∧ s1.pos ≤ e.toks.size) → c.L lg s1.log → Q1 a s1 → Good F c lo lg (f a e s1) Q2) :
    Good F c lo lg ((m >>= f) e s) Q2 :=
  Good.bindG (lo1 := s.pos) (Good.weaken (fun _ => Nat.le_refl _) hl h1 (fun _ _ h => h)) h2

theorem Good.bind_attempt {α β} {c : Cfg e} {lo : Nat} {lg : List Diag} {m : PM α} {f : Except Diag α → PM β}
    {s : PState} {Q1 : α → PState → Prop} {Q2 : β → PState → Prop}
    (hl : c.L lg s.log)
    (h1 : Good F c s.pos s.log (m e s) Q1)
    (hok : ∀ a s1, (c.PB → s.pos ≤ s1.pos ∧ s1.pos ≤ e.toks.size) → c.L lg s1.log → Q1 a s1 →
      Good F c lo lg (f (.ok a) e s1) Q2)
    (herr : ∀ d s1, (c.PB → s1.pos ≤ e.toks.size) → c.L lg s1.log → Good F c lo lg (f (.error d) e s1) Q2) :
    Good F c lo lg ((attempt m >>= f) e s) Q2 := by
  rw [bind_eq]
  unfold attempt
  cases h : m e s with
  | ok a s1 => rw [h] at h1; exact hok a s1 h1.1.1 (c.L_trans hl h1.1.2.1) h1.1.2.2
  | err d s1 => rw [h] at h1; exact herr d s1 h1.1.1 (c.L_trans hl h1.1.2)
  | panic => rw [h] at h1; exact ⟨h1.1, fun _ _ h' => by cases h'⟩
  | fuel => rw [h] at h1; exact ⟨trivial, fun hpb hF _ => h1.2 hpb hF rfl⟩

theorem Good.pure {α} {c : Cfg e} {lo : Nat} {lg : List Diag} {a : α} {s : PState} {Q : α → PState → Prop}
    (hp : c.PB → lo ≤ s.pos ∧ s.pos ≤ e.toks.size) (hl : c.L lg s.log) (hq : Q a s) :
    Good F c lo lg ((Pure.pure a : PM α) e s) Q := ⟨⟨hp, hl, hq⟩, fun _ _ h => by cases h⟩

theorem Good.fail {α} {c : Cfg e} {lo : Nat} {lg : List Diag} {k : DK} {s : PState} {Q : α → PState → Prop}
    (hp : c.PB → s.pos ≤ e.toks.size) (hl : c.L lg s.log) :
    Good F c lo lg ((A2l.Tree.fail k : PM α) e s) Q := ⟨⟨hp, hl⟩, fun _ _ h => by cases h⟩

theorem Good.bind_lineOffset {β} {c : Cfg e} {lo : Nat} {lg : List Diag} {f : Nat → PM β} {s : PState}
    {Q : β → PState → Prop} (h : ∀ n, Good F c lo lg (f n e s) Q) :
    Good F c lo lg ((getLineOffset >>= f) e s) Q := by
  refine ⟨Safe.bind_lineOffset (fun n => (h n).1), ?_⟩
  intro hpb hF
  rw [bind_eq]
  rcases getLineOffset_cases e s with h1 | ⟨n, h1⟩
  · rw [h1]; intro h'; cases h'
  · rw [h1]; exact (h n).2 hpb hF

theorem errorOrLog_nf (k : DK) (s : PState) : errorOrLog k e s ≠ .fuel := by
  unfold errorOrLog
  simp only [getEnv_bind]
  split <;> (intro h; cases h)

theorem errorOrLog_good (c : Cfg e) (k : DK) (s : PState) (hp : c.Pre s) :
    Good F c s.pos s.log (errorOrLog k e s) (fun _ s' => s'.pos = s.pos) :=
  ⟨errorOrLog_safe c k s hp, fun _ _ => errorOrLog_nf k s⟩

/-- `if p then errorOrLog k` followed by the rest -/
theorem Good.condE {β} {c : Cfg e} {lo : Nat} {lg : List Diag} {p : Prop} [Decidable p] {k : DK} {f : PUnit → PM β}
    {s : PState} {Q : β → PState → Prop} (hp : c.Pre s) (hl : c.L lg s.log)
    (h : ∀ s1, s1.pos = s.pos → c.L lg s1.log → Good F c lo lg (f () e s1) Q) :
    Good F c lo lg ((if p then errorOrLog k >>= f else f ()) e s) Q := by
  split
  · refine Good.bind' hl (errorOrLog_good c k s hp) ?_
    intro _ s1 _ hl1 hq
    exact h s1 hq hl1
  · exact h s rfl hl

theorem Good.condF {β} {c : Cfg e} {lo : Nat} {lg : List Diag} {p : Prop} [Decidable p] {k : DK} {f : PUnit → PM β}
    {s : PState} {Q : β → PState → Prop} (hp : c.Pre s) (hl : c.L lg s.log)
    (h : Good F c lo lg (f () e s) Q) :
    Good F c lo lg ((if p then (A2l.Tree.fail k : PM PUnit) >>= f else f ()) e s) Q := by
  split
  · exact ⟨⟨hp, hl⟩, fun _ _ h' => by cases h'⟩
  · exact h

/-! ### the primitives of Model/Tree.lean -/

theorem getToken_nf (ctx : Ctx) (s : PState) : getToken ctx e s ≠ .fuel := by
  rw [getToken_eval]
  split <;> (intro h; cases h)

theorem getToken_good (c : Cfg e) (ctx : Ctx) (s : PState) (hp : c.Pre s) :
    Good F c s.pos s.log (getToken ctx e s) (fun t s' => s'.pos = s.pos + 1 ∧ e.toks[s.pos]? = some t) :=
  ⟨getToken_safe c ctx s hp, fun _ _ => getToken_nf ctx s⟩

theorem expectTokenAux_nf (ctx : Ctx) (ty : Nat) : ∀ (fuel : Nat) (s : PState), s.pos ≤ e.toks.size →
    e.toks.size - s.pos < fuel → expectTokenAux ctx ty fuel e s ≠ .fuel
  | 0, _, _, h => by omega
  | fuel + 1, s, hs, h => by
    rw [expectTokenAux, bind_eq, getToken_eval]
    cases ht : e.toks[s.pos]? with
    | none => intro h'; cases h'
    | some t =>
      have := lt_of_getElem?_some ht
      dsimp only
      split
      · exact expectTokenAux_nf ctx ty fuel _ (by show s.pos + 1 ≤ _; omega) (by show _ - (s.pos + 1) < fuel; omega)
      · split <;> (intro h'; cases h')

theorem expectToken_nf (ctx : Ctx) (ty : Nat) (s : PState) (hs : s.pos ≤ e.toks.size) :
    expectToken ctx ty e s ≠ .fuel := by
  unfold expectToken
  simp only [getEnv_bind]
  exact expectTokenAux_nf ctx ty _ s hs (by omega)

theorem expectToken_good (c : Cfg e) (ctx : Ctx) (ty : Nat) (s : PState) (hp : c.Pre s) :
    Good F c s.pos s.log (expectToken ctx ty e s)
      (fun t s' => s.pos + 1 ≤ s'.pos ∧ e.toks[s'.pos - 1]? = some t ∧ t.ty = ty) :=
  ⟨expectToken_safe c ctx ty s hp, fun hpb _ => expectToken_nf ctx ty s (hp hpb)⟩

/-- lifting a `_safe` lemma of a composite primitive: the fuel part is proved separately -/
theorem nf_bind {α β} {m : PM α} {f : α → PM β} {s : PState} (h1 : m e s ≠ .fuel)
    (h2 : ∀ a s1, m e s = .ok a s1 → f a e s1 ≠ .fuel) : (m >>= f) e s ≠ .fuel := by
  rw [bind_eq]
  cases h : m e s with
  | ok a s1 => exact h2 a s1 h
  | err d s1 => intro h'; cases h'
  | panic => intro h'; cases h'
  | fuel => exact absurd h h1

theorem getIdentifier_good (c : Cfg e) (ctx : Ctx) (s : PState) (hp : c.Pre s) :
    Good F c s.pos s.log (getIdentifier ctx e s) (fun _ s' => s.pos + 1 ≤ s'.pos) := by
  refine ⟨getIdentifier_safe c ctx s hp, fun hpb hF => ?_⟩
  unfold getIdentifier
  refine nf_bind (expectToken_nf ctx 0 s (hp hpb)) ?_
  intro t s1 _
  cases t.text with
  | nil => intro h; cases h
  | cons ch tl =>
    dsimp only
    split
    · refine nf_bind (errorOrLog_nf _ _) ?_
      intro _ s2 _ h; cases h
    · intro h; cases h

theorem getString_good (c : Cfg e) (ctx : Ctx) (s : PState) (hp : c.Pre s) :
    Good F c s.pos s.log (getString ctx e s) (fun _ s' => s.pos + 1 ≤ s'.pos) := by
  refine ⟨getString_safe c ctx s hp, fun hpb hF => ?_⟩
  unfold getString
  simp only [peekToken_bind]
  generalize e.toks[s.pos]? = o
  split
  · refine nf_bind ((getIdentifier_good c ctx s hp).2 hpb hF) ?_
    intro text s1 _
    refine nf_bind (errorOrLog_nf _ _) ?_
    intro _ s2 _ h; cases h
  · refine nf_bind (expectToken_nf ctx 4 s (hp hpb)) ?_
    intro t s1 _
    obtain ⟨r, hr, _⟩ := unescape_okL (stripQuotes t.text)
    rw [hr]
    intro h; cases h

theorem getStringMaxlen_good (c : Cfg e) (ctx : Ctx) (n : Nat) (s : PState) (hp : c.Pre s) :
    Good F c s.pos s.log (getStringMaxlen ctx n e s) (fun _ s' => s.pos + 1 ≤ s'.pos) := by
  refine ⟨getStringMaxlen_safe c ctx n s hp, fun hpb hF => ?_⟩
  unfold getStringMaxlen
  refine nf_bind ((getString_good c ctx s hp).2 hpb hF) ?_
  intro text s1 _
  dsimp only
  split
  · refine nf_bind (errorOrLog_nf _ _) ?_
    intro _ s2 _ h; cases h
  · intro h; cases h

theorem getInteger_good (c : Cfg e) (ctx : Ctx) (w : Nat) (s : PState) (hp : c.Pre s) :
    Good F c s.pos s.log (getInteger ctx w e s) (fun _ s' => s.pos + 1 ≤ s'.pos) := by
  refine ⟨getInteger_safe c ctx w s hp, fun hpb hF => ?_⟩
  unfold getInteger
  refine nf_bind (expectToken_nf ctx 5 s (hp hpb)) ?_
  intro t s1 _
  cases parseInt (intTyOf w) t.text <;> (intro h; cases h)

theorem getDouble_good (c : Cfg e) (ctx : Ctx) (s : PState) (hp : c.Pre s) :
    Good F c s.pos s.log (getDouble ctx e s) (fun _ s' => s.pos + 1 ≤ s'.pos) := by
  refine ⟨getDouble_safe c ctx s hp, fun hpb hF => ?_⟩
  unfold getDouble
  refine nf_bind (expectToken_nf ctx 5 s (hp hpb)) ?_
  intro t s1 _
  cases t.fl <;> (intro h; cases h)

theorem nf_lineOffset {β} {f : Nat → PM β} {s : PState} (h : ∀ n, f n e s ≠ .fuel) :
    (getLineOffset >>= f) e s ≠ .fuel := by
  rw [bind_eq]
  rcases getLineOffset_cases e s with h1 | ⟨n, h1⟩
  · rw [h1]; intro h'; cases h'
  · rw [h1]; exact h n

theorem nf_attempt {α β} {m : PM α} {f : Except Diag α → PM β} {s : PState} (h1 : m e s ≠ .fuel)
    (hok : ∀ a s1, m e s = .ok a s1 → f (.ok a) e s1 ≠ .fuel)
    (herr : ∀ d s1, m e s = .err d s1 → f (.error d) e s1 ≠ .fuel) : (attempt m >>= f) e s ≠ .fuel := by
  rw [bind_eq]
  unfold attempt
  cases h : m e s with
  | ok a s1 => exact hok a s1 h
  | err d s1 => exact herr d s1 h
  | panic => intro h'; cases h'
  | fuel => exact absurd h h1

theorem getNextTagOrComment_good (c : Cfg e) (ctx : Ctx) (s : PState) (hp : c.Pre s) :
    Good F c s.pos s.log (getNextTagOrComment ctx e s) (NTQ s) := by
  refine ⟨getNextTagOrComment_safe c ctx s hp, fun hpb hF => ?_⟩
  have hs := hp hpb
  unfold getNextTagOrComment
  simp only [getTokenpos_bind, peekToken_bind]
  generalize ho : e.toks[s.pos]? = o
  split
  · simp only [modifyState_bind]
    refine nf_lineOffset ?_
    intro n h; cases h
  · refine nf_bind (getToken_nf ctx s) ?_
    intro t s1 h1
    rw [getToken_eval, ho] at h1
    cases h1
    have := lt_of_getElem?_some ho
    refine nf_lineOffset ?_
    intro n
    refine nf_attempt (expectToken_nf ctx 0 _ (by show s.pos + 1 ≤ _; omega)) ?_ ?_
    · intro a s2 _ h; cases h
    · intro d s2 _
      simp only [setTokenpos_bind]
      intro h; cases h
  · refine nf_attempt (expectToken_nf ctx 0 s hs) ?_ ?_
    · intro a s1 _
      refine nf_lineOffset ?_
      intro n h; cases h
    · intro d s1 _
      refine nf_lineOffset ?_
      intro n
      simp only [setTokenpos_bind]
      intro h; cases h

/-! ### the interpreter -/

def T {α : Type} : α → PState → Prop := fun _ _ => True

theorem getFloat_good (c : Cfg e) (f32 : List Char → Option (List Char)) (ctx : Ctx) (s : PState) (hp : c.Pre s) :
    Good F c s.pos s.log (getFloat f32 ctx e s) (fun _ s' => s.pos + 1 ≤ s'.pos) := by
  unfold getFloat
  refine Good.bind' (c.L_refl _) (expectToken_good c ctx 5 s hp) ?_
  intro t s1 hpos hl hq
  cases f32 t.text with
  | none => exact Good.fail (fun hpb => (hpos hpb).2) hl
  | some r => exact Good.pure hpos hl hq.1

/-- a scalar read followed by `get_line_offset` -/
theorem scalar_then_offset {α} (c : Cfg e) {m : PM α} {g : α → Nat → Gen} {s : PState}
    (h : Good F c s.pos s.log (m e s) (fun _ s' => s.pos + 1 ≤ s'.pos)) :
    Good F c s.pos s.log ((m >>= fun v => getLineOffset >>= fun off => pure (g v off)) e s)
      (fun _ s' => s.pos + 1 ≤ s'.pos) := by
  refine Good.bind' (c.L_refl _) h ?_
  intro v s1 hpos hl hq
  refine Good.bind_lineOffset ?_
  intro off
  exact Good.pure hpos hl hq

/-- what the loops need to know about the parser of an element -/
def GoodP (F : Prop) (c : Cfg e) (p : PM Gen) : Prop := ∀ s, c.Pre s → Good F c s.pos s.log (p e s) T

theorem arrayLoop_good (c : Cfg e) {p : PM Gen} (hp' : GoodP F c p) : ∀ (n : Nat) (s : PState), c.Pre s →
    Good F c s.pos s.log (arrayLoop p n e s) T
  | 0, s, hp => by
    rw [arrayLoop]
    exact Good.pure (fun hpb => ⟨Nat.le_refl _, hp hpb⟩) (c.L_refl _) trivial
  | n + 1, s, hp => by
    rw [arrayLoop]
    simp only [getTokenpos_bind]
    refine Good.bind' (c.L_refl _) (hp' s hp) ?_
    intro v s1 hpos hl _
    simp only [getTokenpos_bind]
    split
    · exact Good.pure hpos hl trivial
    · refine Good.bind' hl (arrayLoop_good c hp' n s1 (fun hpb => (hpos hpb).2)) ?_
      intro vs s2 hpos2 hl2 _
      refine Good.pure ?_ hl2 trivial
      pb_omega

theorem seqLoop_good (c : Cfg e) {p : PM Gen} (hp' : GoodP F c p) (lo : Nat) (lg : List Diag) :
    ∀ (fuel : Nat) (acc : List Gen) (s : PState),
    (c.PB → lo ≤ s.pos ∧ s.pos ≤ e.toks.size) → (c.PB → e.toks.size - s.pos < fuel) → c.L lg s.log →
    Good F c lo lg (seqLoop p fuel acc e s) T
  | 0, _, s, _, hf, _ => ⟨trivial, fun hpb _ => by have := hf hpb; omega⟩
  | fuel + 1, acc, s, hp, hf, hl => by
    rw [seqLoop]
    simp only [getTokenpos_bind]
    refine Good.bind_attempt hl (hp' s (fun hpb => (hp hpb).2)) ?_ ?_
    · intro v s1 hpos hl1 _
      simp only [getTokenpos_bind]
      split
      · simp only [setTokenpos_bind]
        exact Good.pure hp hl1 trivial
      · rename_i hne
        refine seqLoop_good c hp' lo lg fuel (v :: acc) s1 ?_ ?_ hl1
        · intro hpb; have := hp hpb; have := hpos hpb; omega
        · intro hpb; have := hp hpb; have := hpos hpb; have := hf hpb; omega
    · intro d s1 hpos hl1
      simp only [setTokenpos_bind]
      exact Good.pure hp hl1 trivial

theorem skipComments_good (c : Cfg e) (ctx : Ctx) (lo : Nat) (lg : List Diag) : ∀ (fuel : Nat) (s : PState),
    (c.PB → lo ≤ s.pos ∧ s.pos ≤ e.toks.size) → (c.PB → e.toks.size - s.pos < fuel) → c.L lg s.log →
    Good F c lo lg (skipComments ctx fuel e s) T
  | 0, s, _, hf, _ => ⟨trivial, fun hpb _ => by have := hf hpb; omega⟩
  | fuel + 1, s, hp, hf, hl => by
    rw [skipComments]
    simp only [peekToken_bind]
    cases ht : e.toks[s.pos]? with
    | none => exact Good.pure hp hl trivial
    | some t =>
      dsimp only
      split
      · refine Good.bind' hl (getToken_good c ctx s (fun hpb => (hp hpb).2)) ?_
        intro t1 s1 hpos hl1 hq
        refine skipComments_good c ctx lo lg fuel s1 ?_ ?_ hl1
        · intro hpb; have := hp hpb; have := hpos hpb; omega
        · intro hpb; have := hp hpb; have := hf hpb; have := hq.1; have := lt_of_getElem?_some ht; omega
      · exact Good.pure hp hl trivial

theorem endOfTagged_good (c : Cfg e) (newctx : Ctx) (tag : List Char) (isBlock : Bool) (s : PState) (hp : c.Pre s) :
    Good F c s.pos s.log (endOfTagged newctx tag isBlock e s) T := by
  unfold endOfTagged
  split
  · refine Good.bind' (c.L_refl _) (expectToken_good c newctx 2 s hp) ?_
    intro t s1 hpos hl _
    refine Good.bind_lineOffset ?_
    intro off
    refine Good.bind' hl (expectToken_good c newctx 0 s1 (fun hpb => (hpos hpb).2)) ?_
    intro t2 s2 hpos2 hl2 _
    dsimp only
    refine Good.condF (fun hpb => (hpos2 hpb).2) hl2 ?_
    refine Good.pure ?_ hl2 trivial
    pb_omega
  · exact Good.pure (fun hpb => ⟨Nat.le_refl _, hp hpb⟩) (c.L_refl _) trivial

def GoodD (F : Prop) (c : Cfg e) (d : List Char → Option (Bool × (Ctx → PM Gen))) : Prop :=
  ∀ tag b p, d tag = some (b, p) → ∀ ctx, GoodP F c (p ctx)

theorem taggedItem_good (c : Cfg e) {d : List Char → Option (Bool × (Ctx → PM Gen))} (hd : GoodD F c d) (ctx : Ctx)
    (s : PState) (hp : c.Pre s) :
    Good F c s.pos s.log (taggedItem d ctx e s) (fun r s' => c.PB → r.isSome → s.pos + 1 ≤ s'.pos) := by
  unfold taggedItem
  simp only [getTokenpos_bind, getEnv_bind]
  refine Good.bind' (c.L_refl _) (skipComments_good c ctx s.pos s.log _ s (fun hpb => ⟨Nat.le_refl _, hp hpb⟩)
    (fun _ => by omega) (c.L_refl _)) ?_
  intro _ s1 hpos1 hl1 _
  refine Good.bind_attempt hl1 (getNextTagOrComment_good c ctx s1 (fun hpb => (hpos1 hpb).2)) ?_ ?_
  · intro bc s2 hpos2 hl2 hq2
    have hreset : Good F c s.pos s.log ((do setTokenpos s.pos; pure (none : Option (TItem Gen)) : PM _) e s2)
        (fun r s' => c.PB → r.isSome = true → s.pos + 1 ≤ s'.pos) := by
      simp only [setTokenpos_bind]
      exact Good.pure (fun hpb => ⟨Nat.le_refl _, hp hpb⟩) hl2 (fun _ h => by cases h)
    cases bc with
    | comment tok off => exact hreset
    | none => exact hreset
    | block tok isBlock startOff =>
      dsimp only
      cases hdt : d tok.text with
      | none => exact hreset
      | some bp =>
        obtain ⟨b, p⟩ := bp
        dsimp only
        split
        · exact hreset
        · simp only [getNextId_bind]
          have hq2' : s1.pos + 1 ≤ s2.pos := by
            have : s1.pos + (if isBlock = true then 2 else 1) ≤ s2.pos := hq2
            split at this <;> omega
          refine Good.bind' hl2 (hd _ _ _ hdt _ _ (fun hpb => (hpos2 hpb).2)) ?_
          intro data s3 hpos3 hl3 _
          refine Good.bind' hl3 (endOfTagged_good c _ _ _ s3 (fun hpb => (hpos3 hpb).2)) ?_
          intro endOff s4 hpos4 hl4 _
          refine Good.pure ?_ hl4 ?_
          · intro hpb
            have := hpos1 hpb; have := hpos2 hpb; have h3 := hpos3 hpb; have := hpos4 hpb
            dsimp only at h3
            exact ⟨by omega, by omega⟩
          · intro hpb _
            have := hpos1 hpb; have := hpos2 hpb; have h3 := hpos3 hpb; have := hpos4 hpb
            dsimp only at h3
            omega
  · intro d' s2 hpos2 hl2
    simp only [setTokenpos_bind]
    exact Good.pure (fun hpb => ⟨Nat.le_refl _, hp hpb⟩) hl2 (fun _ h => by cases h)
theorem tsLoop_good (c : Cfg e) {d : List Char → Option (Bool × (Ctx → PM Gen))} (hd : GoodD F c d)
    (rep : List Char → Bool) (ctx : Ctx) (lo : Nat) (lg : List Diag) : ∀ (fuel : Nat) (acc : List (TItem Gen)) (s : PState),
    (c.PB → lo ≤ s.pos ∧ s.pos ≤ e.toks.size) → (c.PB → e.toks.size - s.pos < fuel) → c.L lg s.log →
    Good F c lo lg (tsLoop d rep ctx fuel acc e s) T
  | 0, _, s, _, hf, _ => ⟨trivial, fun hpb _ => by have := hf hpb; omega⟩
  | fuel + 1, acc, s, hp, hf, hl => by
    rw [tsLoop]
    refine Good.bind' hl (taggedItem_good c hd ctx s (fun hpb => (hp hpb).2)) ?_
    intro r s1 hpos hl1 hq
    cases r with
    | none =>
      refine Good.pure ?_ hl1 trivial
      intro hpb; have := hp hpb; have := hpos hpb; omega
    | some it =>
      dsimp only
      split
      · exact Good.fail (fun hpb => (hpos hpb).2) hl1
      · refine tsLoop_good c hd rep ctx lo lg fuel (it :: acc) s1 ?_ ?_ hl1
        · intro hpb; have := hp hpb; have := hpos hpb; omega
        · intro hpb; have := hp hpb; have := hpos hpb; have := hf hpb; have := hq hpb rfl; omega

mutual
theorem itemP_good (c : Cfg e) (f32 : List Char → Option (List Char)) : ∀ (sp : Spec) (ctx : Ctx), GoodP F c (itemP f32 sp ctx)
  | .none, ctx => by
    intro s hp
    rw [itemP]
    exact Good.pure (fun hpb => ⟨Nat.le_refl _, hp hpb⟩) (c.L_refl _) trivial
  | .int w, ctx => by
    intro s hp
    rw [itemP]
    refine Good.bind' (c.L_refl _) (getInteger_good c ctx w s hp) ?_
    intro ⟨v, hex⟩ s1 hpos hl _
    refine Good.bind_lineOffset ?_
    intro off
    exact Good.pure hpos hl trivial
  | .float, ctx => by
    intro s hp
    rw [itemP]
    exact Good.weaken (fun _ => Nat.le_refl _) (c.L_refl _) (scalar_then_offset c (getFloat_good c f32 ctx s hp)) (fun _ _ _ => trivial)
  | .double, ctx => by
    intro s hp
    rw [itemP]
    exact Good.weaken (fun _ => Nat.le_refl _) (c.L_refl _) (scalar_then_offset c (getDouble_good c ctx s hp)) (fun _ _ _ => trivial)
  | .array of dim, ctx => by
    intro s hp
    rw [itemP.eq_def]
    dsimp only
    split
    · exact Good.weaken (fun _ => Nat.le_refl _) (c.L_refl _) (scalar_then_offset c (getStringMaxlen_good c ctx dim s hp)) (fun _ _ _ => trivial)
    · refine Good.bind' (c.L_refl _) (arrayLoop_good c (itemP_good c f32 of ctx) dim s hp) ?_
      intro vs s1 hpos hl _
      exact Good.pure hpos hl trivial
  | .enum items, ctx => by
    intro s hp
    rw [itemP]
    refine Good.bind' (c.L_refl _) (getIdentifier_good c ctx s hp) ?_
    intro v s1 hpos hl _
    refine Good.bind_lineOffset ?_
    intro off
    split
    · exact Good.pure hpos hl trivial
    · exact Good.fail (fun hpb => (hpos hpb).2) hl
  | .struct items, ctx => by
    intro s hp
    rw [itemP]
    refine Good.bind' (c.L_refl _) (itemsP_good c f32 items ctx s hp) ?_
    intro vs s1 hpos hl _
    exact Good.pure hpos hl trivial
  | .seq of, ctx => by
    intro s hp
    rw [itemP]
    simp only [getEnv_bind]
    refine Good.bind' (c.L_refl _) (seqLoop_good c (itemP_good c f32 of ctx) s.pos s.log _ [] s
      (fun hpb => ⟨Nat.le_refl _, hp hpb⟩) (fun _ => by omega) (c.L_refl _)) ?_
    intro vs s1 hpos hl _
    exact Good.pure hpos hl trivial
  | .taggedStruct items, ctx => by
    intro s hp
    rw [itemP]
    simp only [getEnv_bind]
    refine Good.bind' (c.L_refl _) (tsLoop_good c (dispatch_good c f32 items) _ ctx s.pos s.log _ [] s
      (fun hpb => ⟨Nat.le_refl _, hp hpb⟩) (fun _ => by omega) (c.L_refl _)) ?_
    intro vs s1 hpos hl _
    exact Good.pure hpos hl trivial
  | .taggedUnion items, ctx => by
    intro s hp
    rw [itemP]
    refine Good.bind' (c.L_refl _) (taggedItem_good c (dispatch_good c f32 items) ctx s hp) ?_
    intro r s1 hpos hl _
    cases r with
    | none => exact Good.pure hpos hl trivial
    | some it => exact Good.pure hpos hl trivial

theorem itemsP_good (c : Cfg e) (f32 : List Char → Option (List Char)) : ∀ (l : List Spec) (ctx : Ctx) (s : PState),
    c.Pre s → Good F c s.pos s.log (itemsP f32 l ctx e s) T
  | [], ctx, s, hp => by
    rw [itemsP]
    exact Good.pure (fun hpb => ⟨Nat.le_refl _, hp hpb⟩) (c.L_refl _) trivial
  | sp :: rest, ctx, s, hp => by
    rw [itemsP]
    refine Good.bind' (c.L_refl _) (itemP_good c f32 sp ctx s hp) ?_
    intro v s1 hpos hl _
    refine Good.bind' hl (itemsP_good c f32 rest ctx s1 (fun hpb => (hpos hpb).2)) ?_
    intro vs s2 hpos2 hl2 _
    refine Good.pure ?_ hl2 trivial
    pb_omega

theorem dispatch_good (c : Cfg e) (f32 : List Char → Option (List Char)) : ∀ (l : List (Tagged Spec)), GoodD F c (dispatch f32 l)
  | [] => by
    intro tag b p h
    rw [dispatch] at h
    cases h
  | t :: rest => by
    intro tag b p h
    rw [dispatch] at h
    split at h
    · cases h
      intro ctx
      exact itemP_good c f32 t.item ctx
    · exact dispatch_good c f32 rest tag b p h
end

theorem fromSpec_good (c : Cfg e) (f32 : List Char → Option (List Char)) (ctx : Ctx) (sp : Spec) (s : PState)
    (hp : c.Pre s) :
    Good F c s.pos s.log (fromSpec f32 ctx sp e s) T := by
  unfold fromSpec
  simp only [getTokenpos_bind]
  have hreset : ∀ s1, c.L s.log s1.log →
      Good F c s.pos s.log ((do setTokenpos s.pos; pure (none : Option Gen) : PM _) e s1) T := by
    intro s1 hl1
    simp only [setTokenpos_bind]
    exact Good.pure (fun hpb => ⟨Nat.le_refl _, hp hpb⟩) hl1 trivial
  refine Good.bind_attempt (c.L_refl _) (itemP_good c f32 sp ctx s hp) ?_ ?_
  · intro g s1 hpos hl1 _
    dsimp only
    simp only [getEnv_bind]
    refine Good.bind' hl1 (skipComments_good c ctx s1.pos s1.log _ s1 (fun hpb => ⟨Nat.le_refl _, (hpos hpb).2⟩)
      (fun _ => by omega) (c.L_refl _)) ?_
    intro _ s2 hpos2 hl2 _
    have hp2 : c.PB → s.pos ≤ s2.pos ∧ s2.pos ≤ e.toks.size := by
      intro hpb; have := hpos hpb; have := hpos2 hpb; omega
    simp only [peekToken_bind]
    cases e.toks[s2.pos]? with
    | none => exact hreset s2 hl2
    | some t =>
      dsimp only
      split
      · exact Good.pure hp2 hl2 trivial
      · exact hreset s2 hl2
  · intro d s1 _ hl1
    exact hreset s1 hl1

theorem trySpecs_good (c : Cfg e) (f32 : List Char → Option (List Char)) (ctx : Ctx) (lo : Nat) (lg : List Diag) :
    ∀ (specs : List Spec) (s : PState), (c.PB → lo ≤ s.pos ∧ s.pos ≤ e.toks.size) → c.L lg s.log →
    Good F c lo lg (trySpecs f32 ctx specs e s) T
  | [], s, hp, hl => by
    rw [trySpecs]
    exact Good.pure hp hl trivial
  | sp :: rest, s, hp, hl => by
    rw [trySpecs]
    refine Good.bind' hl (fromSpec_good c f32 ctx sp s (fun hpb => (hp hpb).2)) ?_
    intro r s1 hpos hl1 _
    have hp1 : c.PB → lo ≤ s1.pos ∧ s1.pos ≤ e.toks.size := by
      intro hpb; have := hp hpb; have := hpos hpb; omega
    cases r with
    | none => exact trySpecs_good c f32 ctx lo lg rest s1 hp1 hl1
    | some g => exact Good.pure hp1 hl1 trivial

/-- the state after `get_token` returned `t` -/
def adv (s : PState) (t : PTok) : PState := { s with pos := s.pos + 1, lastLine := t.line }

theorem expectToken_eval (ctx : Ctx) (ty : Nat) (s : PState) (t : PTok) (h : e.toks[s.pos]? = some t) (h6 : t.ty ≠ 6) :
    expectToken ctx ty e s =
      if t.ty ≠ ty then .err ⟨.unexpectedTokenType, t.line⟩ (adv s t) else .ok t (adv s t) := by
  unfold expectToken
  simp only [getEnv_bind]
  rw [expectTokenAux, bind_eq, getToken_eval, h]
  dsimp only
  rw [if_neg h6]
  split <;> rfl

theorem getInteger_eval (ctx : Ctx) (w : Nat) (s : PState) (t : PTok) (h : e.toks[s.pos]? = some t) (h5 : t.ty = 5) :
    getInteger ctx w e s =
      match parseInt (intTyOf w) t.text with
      | some r => .ok r (adv s t)
      | none => .err ⟨.malformedNumber, t.line⟩ (adv s t) := by
  unfold getInteger
  rw [bind_eq, expectToken_eval ctx 5 s t h (by omega), if_neg (by simp [h5])]
  dsimp only
  cases parseInt (intTyOf w) t.text <;> rfl

theorem getDouble_eval (ctx : Ctx) (s : PState) (t : PTok) (h : e.toks[s.pos]? = some t) (h5 : t.ty = 5) :
    getDouble ctx e s =
      match t.fl with
      | some r => .ok r (adv s t)
      | none => .err ⟨.malformedNumber, t.line⟩ (adv s t) := by
  unfold getDouble
  rw [bind_eq, expectToken_eval ctx 5 s t h (by omega), if_neg (by simp [h5])]
  dsimp only
  cases t.fl <;> rfl

/-! ### the fallback -/

structure AllU (F : Prop) (c : Cfg e) (fuel : Nat) : Prop where
  u : ∀ lo lg ctx isB dp acc s, (c.PB → lo ≤ s.pos ∧ s.pos ≤ e.toks.size) →
    (c.PB → F → 3 * (e.toks.size - s.pos) + 3 ≤ fuel) → c.L lg s.log →
    Good F c lo lg (unknownIfdata fuel ctx isB dp acc e s) T
  ts : ∀ lo lg ctx dp s, (c.PB → lo ≤ s.pos ∧ s.pos ≤ e.toks.size) →
    (c.PB → F → 3 * (e.toks.size - s.pos) + 2 ≤ fuel) → c.L lg s.log →
    Good F c lo lg (unknownTaggedstruct fuel ctx dp e s)
      (fun _ s' => c.PB → ∀ t, e.toks[s'.pos]? = some t → t.ty ≠ 1)
  l : ∀ lo lg ctx dp acc s, (c.PB → lo ≤ s.pos ∧ s.pos ≤ e.toks.size) →
    (c.PB → F → 3 * (e.toks.size - s.pos) + 1 ≤ fuel) → c.L lg s.log →
    Good F c lo lg (unknownTsLoop fuel ctx dp acc e s) T

theorem allU_zero (c : Cfg e) : AllU F c 0 := by
  constructor
  · intro lo lg ctx isB dp acc s _ hf _
    rw [unknownIfdata.eq_def]
    exact ⟨trivial, fun hpb hF => by have := hf hpb hF; omega⟩
  · intro lo lg ctx dp s _ hf _
    rw [unknownTaggedstruct.eq_def]
    exact ⟨trivial, fun hpb hF => by have := hf hpb hF; omega⟩
  · intro lo lg ctx dp acc s _ hf _
    rw [unknownTsLoop.eq_def]
    exact ⟨trivial, fun hpb hF => by have := hf hpb hF; omega⟩

/-- a scalar of the fallback: read, `get_line_offset`, continue the loop -/
theorem u_scalar {α} (c : Cfg e) {fuel : Nat} (ih : AllU F c fuel) {lo : Nat} {lg : List Diag} {m : PM α}
    {g : α → Nat → Gen} {ctx : Ctx} {isB : Bool} {dp : Nat} {acc : List Gen} {s : PState}
    (hp : c.PB → lo ≤ s.pos ∧ s.pos ≤ e.toks.size) (hf : c.PB → F → 3 * (e.toks.size - s.pos) + 3 ≤ fuel + 1)
    (hl : c.L lg s.log)
    (h : Good F c s.pos s.log (m e s) (fun _ s' => s.pos + 1 ≤ s'.pos)) :
    Good F c lo lg ((m >>= fun v => getLineOffset >>= fun off => unknownIfdata fuel ctx isB dp (g v off :: acc)) e s) T := by
  refine Good.bind' hl h ?_
  intro v s1 hpos hl1 hq
  refine Good.bind_lineOffset ?_
  intro off
  refine ih.u lo lg ctx isB dp _ s1 ?_ ?_ hl1
  · intro hpb; have := hp hpb; have := hpos hpb; omega
  · intro hpb hF; have := hp hpb; have := hpos hpb; have := hf hpb hF; omega

theorem adv_back (s : PState) (t : PTok) : ({ adv s t with pos := (adv s t).pos - 1 } : PState) = { s with lastLine := t.line } := by
  simp [adv]

/-- the cascade for a Number token: i32, i64, u64, f64 -/
theorem u_number (c : Cfg e) {fuel : Nat} (ih : AllU F c fuel) {lo : Nat} {lg : List Diag}
    {ctx : Ctx} {isB : Bool} {dp : Nat} {acc : List Gen} {s : PState} {t : PTok}
    (ht : e.toks[s.pos]? = some t) (h5 : t.ty = 5)
    (hp : c.PB → lo ≤ s.pos ∧ s.pos ≤ e.toks.size) (hf : c.PB → F → 3 * (e.toks.size - s.pos) + 3 ≤ fuel + 1)
    (hl : c.L lg s.log) (K : Except Diag (Int × Bool) → PM Gen)
    (w : Nat) (hok : ∀ v hex, K (.ok (v, hex)) = (getLineOffset >>= fun off => unknownIfdata fuel ctx isB dp (.int w off v hex :: acc)))
    (herr : ∀ d, Good F c lo lg (K (.error d) e (adv s t)) T) :
    Good F c lo lg ((attempt (getInteger ctx w) >>= K) e s) T := by
  have hlt := lt_of_getElem?_some ht
  rw [bind_eq]
  unfold attempt
  rw [getInteger_eval ctx w s t ht h5]
  cases parseInt (intTyOf w) t.text with
  | none => exact herr _
  | some r =>
    obtain ⟨v, hex⟩ := r
    dsimp only
    rw [hok]
    refine Good.bind_lineOffset ?_
    intro off
    refine ih.u lo lg ctx isB dp _ _ ?_ ?_ hl
    · intro hpb; have := hp hpb; show lo ≤ s.pos + 1 ∧ s.pos + 1 ≤ _; omega
    · intro hpb hF; have := hf hpb hF; show 3 * (_ - (s.pos + 1)) + 3 ≤ fuel; omega

theorem u_step (c : Cfg e) (hni : c.PB → F → NoInc e) {fuel : Nat} (ih : AllU F c fuel) (lo : Nat) (lg : List Diag) (ctx : Ctx)
    (isB : Bool) (dp : Nat) (acc : List Gen) (s : PState)
    (hp : c.PB → lo ≤ s.pos ∧ s.pos ≤ e.toks.size) (hf : c.PB → F → 3 * (e.toks.size - s.pos) + 3 ≤ fuel + 1)
    (hl : c.L lg s.log) :
    Good F c lo lg (unknownIfdata (fuel + 1) ctx isB dp acc e s) T := by
  rw [unknownIfdata.eq_def]
  dsimp only
  split
  · exact Good.fail (fun hpb => (hp hpb).2) hl
  simp only [peekToken_bind]
  cases ht : e.toks[s.pos]? with
  | none => exact Good.fail (fun hpb => (hp hpb).2) hl
  | some t =>
    have hlt := lt_of_getElem?_some ht
    dsimp only
    by_cases h0 : t.ty = 0
    · rw [if_pos h0]
      exact u_scalar c ih hp hf hl (getIdentifier_good c ctx s (fun hpb => (hp hpb).2))
    rw [if_neg h0]
    by_cases h4 : t.ty = 4
    · rw [if_pos h4]
      exact u_scalar c ih hp hf hl (getString_good c ctx s (fun hpb => (hp hpb).2))
    rw [if_neg h4]
    by_cases h5 : t.ty = 5
    · rw [if_pos h5]
      -- after a failed attempt the token is put back: the state differs from `s` in `lastLine` only
      have hback : ∀ (G : PM Gen), Good F c lo lg (G e { s with lastLine := t.line }) T →
          Good F c lo lg ((undoGetToken >>= fun _ => G) e (adv s t)) T := by
        intro G hG
        rw [undo_bind, if_neg (by show s.pos + 1 ≠ 0; omega), adv_back]
        exact hG
      refine u_number c ih ht h5 hp hf hl _ 2 (fun _ _ => rfl) ?_
      intro _
      refine hback _ ?_
      refine u_number c ih (s := { s with lastLine := t.line }) ht h5 hp hf hl _ 3 (fun _ _ => rfl) ?_
      intro _
      refine hback _ ?_
      refine u_number c ih (s := { s with lastLine := t.line }) ht h5 hp hf hl _ 7 (fun _ _ => rfl) ?_
      intro _
      refine hback _ ?_
      exact u_scalar c ih (s := { s with lastLine := t.line }) hp hf hl
        (getDouble_good c ctx _ (fun hpb => (hp hpb).2))
    rw [if_neg h5]
    by_cases h1 : t.ty = 1
    · rw [if_pos h1]
      split
      · refine Good.bind' hl (ih.ts s.pos s.log ctx dp s (fun hpb => ⟨Nat.le_refl _, (hp hpb).2⟩)
          (fun hpb hF => by have := hf hpb hF; omega) (c.L_refl _)) ?_
        intro ts s1 hpos hl1 hq
        refine ih.u lo lg ctx isB dp _ s1 ?_ ?_ hl1
        · intro hpb; have := hp hpb; have := hpos hpb; omega
        · intro hpb hF
          have := hp hpb; have := hpos hpb; have := hf hpb hF
          have hne : s1.pos ≠ s.pos := by
            intro heq
            have := hq hpb t (by rw [heq]; exact ht)
            exact this h1
          omega
      · exact Good.pure hp hl trivial
    rw [if_neg h1]
    by_cases h2 : t.ty = 2
    · rw [if_pos h2]
      exact Good.pure hp hl trivial
    rw [if_neg h2]
    by_cases h3 : t.ty = 3
    · rw [if_pos h3]
      refine ih.u lo lg ctx isB dp acc s hp ?_ hl
      intro hpb hF
      exact absurd h3 (hni hpb hF _ _ ht)
    rw [if_neg h3]
    refine Good.bind' hl (getToken_good c ctx s (fun hpb => (hp hpb).2)) ?_
    intro t1 s1 hpos hl1 hq
    refine ih.u lo lg ctx isB dp acc s1 ?_ ?_ hl1
    · intro hpb; have := hp hpb; have := hpos hpb; omega
    · intro hpb hF; have := hp hpb; have := hpos hpb; have := hf hpb hF; have := hq.1; omega

theorem lineOffset_bind_err {β} {f : Nat → PM β} {s : PState} {d : Diag} {s1 : PState}
    (h : (getLineOffset >>= f) e s = .err d s1) : ∃ n, f n e s = .err d s1 := by
  rw [bind_eq] at h
  rcases getLineOffset_cases e s with h1 | ⟨n, h1⟩
  · rw [h1] at h; cases h
  · rw [h1] at h; exact ⟨n, h⟩

theorem getNextTagOrComment_err (ctx : Ctx) (s : PState) (d : Diag) (s1 : PState)
    (h : getNextTagOrComment ctx e s = .err d s1) : s1.pos = s.pos := by
  unfold getNextTagOrComment at h
  simp only [getTokenpos_bind, peekToken_bind] at h
  generalize ho : e.toks[s.pos]? = o at h
  split at h
  · simp only [modifyState_bind] at h
    obtain ⟨n, h⟩ := lineOffset_bind_err h
    cases h
  · rw [bind_eq, getToken_eval, ho] at h
    dsimp only at h
    obtain ⟨n, h⟩ := lineOffset_bind_err h
    rw [bind_eq] at h
    unfold attempt at h
    split at h
    · rename_i heq
      split at heq
      · cases heq; cases h
      · cases heq
        simp only [setTokenpos_bind] at h
        cases h; rfl
      · cases heq
      · cases heq
    · rename_i heq; split at heq <;> cases heq
    · cases h
    · cases h
  · rw [bind_eq] at h
    unfold attempt at h
    split at h
    · rename_i heq
      split at heq
      · cases heq
        obtain ⟨n, h⟩ := lineOffset_bind_err h
        cases h
      · cases heq
        obtain ⟨n, h⟩ := lineOffset_bind_err h
        simp only [setTokenpos_bind] at h
        cases h
      · cases heq
      · cases heq
    · rename_i heq; split at heq <;> cases heq
    · cases h
    · cases h

theorem Good.bind_attempt_eq {α β} {c : Cfg e} {lo : Nat} {lg : List Diag} {m : PM α} {f : Except Diag α → PM β}
    {s : PState} {Q1 : α → PState → Prop} {Q2 : β → PState → Prop}
    (hl : c.L lg s.log)
    (h1 : Good F c s.pos s.log (m e s) Q1)
    (hok : ∀ a s1, m e s = .ok a s1 → (c.PB → s.pos ≤ s1.pos ∧ s1.pos ≤ e.toks.size) → c.L lg s1.log → Q1 a s1 →
      Good F c lo lg (f (.ok a) e s1) Q2)
    (herr : ∀ d s1, m e s = .err d s1 → (c.PB → s1.pos ≤ e.toks.size) → c.L lg s1.log →
      Good F c lo lg (f (.error d) e s1) Q2) :
    Good F c lo lg ((attempt m >>= f) e s) Q2 := by
  rw [bind_eq]
  unfold attempt
  cases h : m e s with
  | ok a s1 => rw [h] at h1; exact hok a s1 h h1.1.1 (c.L_trans hl h1.1.2.1) h1.1.2.2
  | err d s1 => rw [h] at h1; exact herr d s1 h h1.1.1 (c.L_trans hl h1.1.2)
  | panic => rw [h] at h1; exact ⟨h1.1, fun _ _ h' => by cases h'⟩
  | fuel => rw [h] at h1; exact ⟨trivial, fun hpb hF _ => h1.2 hpb hF rfl⟩

theorem ts_step (c : Cfg e) {fuel : Nat} (ih : AllU F c fuel) (lo : Nat) (lg : List Diag) (ctx : Ctx) (dp : Nat)
    (s : PState)
    (hp : c.PB → lo ≤ s.pos ∧ s.pos ≤ e.toks.size) (hf : c.PB → F → 3 * (e.toks.size - s.pos) + 2 ≤ fuel + 1)
    (hl : c.L lg s.log) :
    Good F c lo lg (unknownTaggedstruct (fuel + 1) ctx dp e s)
      (fun _ s' => c.PB → ∀ t, e.toks[s'.pos]? = some t → t.ty ≠ 1) := by
  rw [unknownTaggedstruct.eq_def]
  dsimp only
  simp only [getEnv_bind]
  refine Good.bind' hl (skipComments_good c ctx s.pos s.log _ s (fun hpb => ⟨Nat.le_refl _, (hp hpb).2⟩)
    (fun _ => by omega) (c.L_refl _)) ?_
  intro _ s1 hpos1 hl1 _
  refine Good.bind' hl1 (ih.l s1.pos s1.log ctx dp [] s1 (fun hpb => ⟨Nat.le_refl _, (hpos1 hpb).2⟩)
    (fun hpb hF => by have := hpos1 hpb; have := hf hpb hF; omega) (c.L_refl _)) ?_
  intro items s2 hpos2 hl2 _
  have hp2 : c.PB → lo ≤ s2.pos ∧ s2.pos ≤ e.toks.size := by
    intro hpb; have := hp hpb; have := hpos1 hpb; have := hpos2 hpb; omega
  simp only [peekToken_bind]
  cases ht : e.toks[s2.pos]? with
  | none =>
    refine Good.pure hp2 hl2 ?_
    intro _ t h; rw [ht] at h; cases h
  | some t =>
    dsimp only
    split
    · exact Good.fail (fun hpb => (hp2 hpb).2) hl2
    · rename_i hne
      refine Good.pure hp2 hl2 ?_
      intro _ t' h; rw [ht] at h; cases h; exact hne

theorem l_step (c : Cfg e) {fuel : Nat} (ih : AllU F c fuel) (lo : Nat) (lg : List Diag) (ctx : Ctx) (dp : Nat)
    (acc : List (TItem Gen)) (s : PState)
    (hp : c.PB → lo ≤ s.pos ∧ s.pos ≤ e.toks.size) (hf : c.PB → F → 3 * (e.toks.size - s.pos) + 1 ≤ fuel + 1)
    (hl : c.L lg s.log) :
    Good F c lo lg (unknownTsLoop (fuel + 1) ctx dp acc e s) T := by
  rw [unknownTsLoop.eq_def]
  dsimp only
  refine Good.bind_attempt_eq hl (getNextTagOrComment_good c ctx s (fun hpb => (hp hpb).2)) ?_ ?_
  · intro bc s1 _ hpos1 hl1 hq1
    have hp1 : c.PB → lo ≤ s1.pos ∧ s1.pos ≤ e.toks.size := by
      intro hpb; have := hp hpb; have := hpos1 hpb; omega
    cases bc with
    | comment tok off =>
      have hq1' : s.pos + 1 ≤ s1.pos := hq1
      refine ih.l lo lg ctx dp acc s1 hp1 ?_ hl1
      intro hpb hF; have := hp hpb; have := hp1 hpb; have := hf hpb hF; omega
    | none => exact Good.pure hp1 hl1 trivial
    | block tok isBlock startOff =>
      dsimp only
      simp only [getNextId_bind]
      have hq1' : s.pos + 1 ≤ s1.pos := by
        have : s.pos + (if isBlock = true then 2 else 1) ≤ s1.pos := hq1
        split at this <;> omega
      refine Good.bind' hl1 (ih.u s1.pos s1.log _ isBlock (dp + 1) [] { s1 with seqId := s1.seqId + 1 }
        (fun hpb => ⟨Nat.le_refl _, (hp1 hpb).2⟩)
        (fun hpb hF => by have := hp hpb; have := hp1 hpb; have := hf hpb hF; show 3 * (_ - s1.pos) + 3 ≤ fuel; omega) (c.L_refl _)) ?_
      intro result s2 hpos2 hl2 _
      refine Good.bind' hl2 (endOfTagged_good c _ _ _ s2 (fun hpb => (hpos2 hpb).2)) ?_
      intro endOff s3 hpos3 hl3 _
      refine ih.l lo lg ctx dp _ s3 ?_ ?_ hl3
      · intro hpb; have := hp1 hpb; have h2 := hpos2 hpb; have := hpos3 hpb; dsimp only at h2; omega
      · intro hpb hF; have := hp hpb; have := hp1 hpb; have h2 := hpos2 hpb; have := hpos3 hpb; have := hf hpb hF
        dsimp only at h2; omega
  · intro d s1 heq hpos1 hl1
    refine Good.pure ?_ hl1 trivial
    have := getNextTagOrComment_err ctx s d s1 heq
    intro hpb; have := hp hpb; omega

theorem allU (c : Cfg e) (hni : c.PB → F → NoInc e) : ∀ fuel, AllU F c fuel
  | 0 => allU_zero c
  | fuel + 1 =>
    have ih := allU c hni fuel
    ⟨fun lo lg ctx isB dp acc s hp hf hl => u_step c hni ih lo lg ctx isB dp acc s hp hf hl,
     fun lo lg ctx dp s hp hf hl => ts_step c ih lo lg ctx dp s hp hf hl,
     fun lo lg ctx dp acc s hp hf hl => l_step c ih lo lg ctx dp acc s hp hf hl⟩

theorem unknownStart_good (c : Cfg e) (hni : c.PB → F → NoInc e) (ctx : Ctx) (s : PState) (hp : c.Pre s) :
    Good F c s.pos s.log (unknownStart ctx e s) T := by
  unfold unknownStart
  simp only [getEnv_bind, peekToken_bind]
  have hU := allU c hni (unknownFuel e.toks.size)
  have hdirect : Good F c s.pos s.log (unknownIfdata (unknownFuel e.toks.size) ctx true 0 [] e s) T :=
    hU.u s.pos s.log ctx true 0 [] s (fun hpb => ⟨Nat.le_refl _, hp hpb⟩) (fun _ _ => by unfold unknownFuel; omega) (c.L_refl _)
  cases ht : e.toks[s.pos]? with
  | none => exact hdirect
  | some t =>
    dsimp only
    split
    · refine Good.bind' (c.L_refl _) (getToken_good c ctx s hp) ?_
      intro token s1 hpos1 hl1 hq1
      refine Good.bind_lineOffset ?_
      intro startOff
      simp only [getNextId_bind]
      refine Good.bind' hl1 (hU.u s1.pos s1.log _ true 0 [] { s1 with seqId := s1.seqId + 1 }
        (fun hpb => ⟨Nat.le_refl _, (hpos1 hpb).2⟩) (fun _ _ => by unfold unknownFuel; show _ ≤ _; omega) (c.L_refl _)) ?_
      intro result s2 hpos2 hl2 _
      simp only [undo_bind]
      split
      · rename_i h0
        refine ⟨?_, fun _ _ h => by cases h⟩
        intro hnp
        have h2 := hpos2 (c.np_pb hnp)
        have := hq1.1
        dsimp only at h2
        omega
      · refine Good.bind_lineOffset ?_
        intro endOff
        have hgt : Good F c { s2 with pos := s2.pos - 1 }.pos { s2 with pos := s2.pos - 1 }.log
            (getToken ctx e { s2 with pos := s2.pos - 1 }) _ :=
          getToken_good c ctx { s2 with pos := s2.pos - 1 } (fun hpb => by have := (hpos2 hpb).2; show s2.pos - 1 ≤ _; omega)
        refine Good.bind_attempt_eq (lg := s.log) hl2 hgt ?_ ?_
        · intro tk s3 _ hpos3 hl3 hq3
          refine Good.pure ?_ hl3 trivial
          intro hpb
          have := hpos1 hpb; have h2 := hpos2 hpb; have h3 := hpos3 hpb; have := hq1.1; have := hq3.1
          dsimp only at h2 h3 this
          omega
        · intro d s3 heq hpos3 hl3
          refine Good.pure ?_ hl3 trivial
          rw [getToken_eval] at heq
          split at heq
          · cases heq
          · cases heq
            intro hpb
            have := hpos1 hpb; have h2 := hpos2 hpb; have := hq1.1
            dsimp only at h2
            show s.pos ≤ s2.pos - 1 ∧ s2.pos - 1 ≤ _
            omega
    · exact hdirect

theorem parseIfdata_good (c : Cfg e) (hni : c.PB → F → NoInc e) (f32 : List Char → Option (List Char)) (specs : List Spec)
    (ctx : Ctx) (s : PState) (hp : c.Pre s) :
    Good F c s.pos s.log (parseIfdata f32 specs ctx e s) T := by
  unfold parseIfdata
  simp only [peekToken_bind]
  have hp0 : c.PB → s.pos ≤ s.pos ∧ s.pos ≤ e.toks.size := fun hpb => ⟨Nat.le_refl _, hp hpb⟩
  cases e.toks[s.pos]? with
  | none => exact Good.pure hp0 (c.L_refl _) trivial
  | some t =>
    dsimp only
    split
    · refine Good.bind' (c.L_refl _) (trySpecs_good c f32 ctx s.pos s.log specs s hp0 (c.L_refl _)) ?_
      intro r s1 hpos1 hl1 _
      cases r with
      | some g => exact Good.pure hpos1 hl1 trivial
      | none =>
        dsimp only
        refine Good.bind' hl1 (unknownStart_good c hni ctx s1 (fun hpb => (hpos1 hpb).2)) ?_
        intro g s2 hpos2 hl2 _
        refine Good.pure ?_ hl2 trivial
        pb_omega
    · exact Good.pure hp0 (c.L_refl _) trivial

theorem ifDataBlock_good (c : Cfg e) (hni : c.PB → F → NoInc e) (f32 : List Char → Option (List Char)) (builtin : List Spec)
    (ty : Nat) (ctx : Ctx) (startOff : Nat) (s : PState) (hp : c.Pre s) :
    Good F c s.pos s.log (ifDataBlock f32 builtin ty ctx startOff e s) T := by
  unfold ifDataBlock
  simp only [getEnv_bind, getNextId_bind, getTokenpos_bind]
  refine Good.bind' (c.L_refl _) (parseIfdata_good c hni f32 _ ctx { s with seqId := s.seqId + 1 } hp) ?_
  intro ⟨items, valid⟩ s1 hpos1 hl1 _
  dsimp only
  refine Good.bind' hl1 (expectToken_good c ctx 2 s1 (fun hpb => (hpos1 hpb).2)) ?_
  intro _ s2 hpos2 hl2 _
  refine Good.bind_lineOffset ?_
  intro endOff
  refine Good.bind' hl2 (getIdentifier_good c ctx s2 (fun hpb => (hpos2 hpb).2)) ?_
  intro ident s3 hpos3 hl3 _
  refine Good.condE (fun hpb => (hpos3 hpb).2) hl3 ?_
  intro s4 hpos4 hl4
  refine Good.pure ?_ hl4 trivial
  intro hpb
  have h1 := hpos1 hpb; have := hpos2 hpb; have := hpos3 hpb
  dsimp only at h1
  omega

theorem a2mlBlock_good (c : Cfg e) (ty : Nat) (ctx : Ctx) (startOff : Nat) (s : PState) (hp : c.Pre s) :
    Good F c s.pos s.log (a2mlBlock ty ctx startOff e s) T := by
  unfold a2mlBlock
  simp only [getNextId_bind]
  refine Good.bind' (c.L_refl _) (expectToken_good c ctx 4 { s with seqId := s.seqId + 1 } hp) ?_
  intro token s1 hpos1 hl1 _
  refine Good.bind_lineOffset ?_
  intro loc
  have hrest : ∀ s2, s2.pos = s1.pos → c.L s.log s2.log → Good F c s.pos s.log
      ((do
        let _ ← expectToken ctx 2
        let ident ← getIdentifier ctx
        if ident ≠ "A2ML".toList then errorOrLog .incorrectEndTag
        pure (Val.block ty ⟨ctx.line, s.seqId + 1, startOff, 1, ctx.fileid⟩ [.str token.text loc] [] []) : PM Val) e s2) T := by
    intro s2 hpos2 hl2
    have hp2 : c.Pre s2 := fun hpb => by have := hpos1 hpb; omega
    refine Good.bind' hl2 (expectToken_good c ctx 2 s2 hp2) ?_
    intro _ s3 hpos3 hl3 _
    refine Good.bind' hl3 (getIdentifier_good c ctx s3 (fun hpb => (hpos3 hpb).2)) ?_
    intro ident s4 hpos4 hl4 _
    dsimp only
    refine Good.condE (fun hpb => (hpos4 hpb).2) hl4 ?_
    intro s5 hpos5 hl5
    refine Good.pure ?_ hl5 trivial
    intro hpb
    have h1 := hpos1 hpb; have := hpos3 hpb; have := hpos4 hpb
    dsimp only at h1
    omega
  cases hpa : parseA2ml token.text with
  | ok sp => exact hrest s1 rfl hl1
  | err =>
    dsimp only
    refine Good.bind' hl1 (errorOrLog_good c _ s1 (fun hpb => (hpos1 hpb).2)) ?_
    intro _ s2 hpos2 hl2 hq2
    exact hrest s2 hq2 hl2
  | fuel => exact absurd hpa (parseA2ml_ne_fuel _)

theorem specialEnv_specialOk (toks : Array PTok) (strict : Bool) : SpecialOk (specialEnv toks strict) := by
  intro ty ctx off s hs
  refine ⟨fun h => (by cases h), fun v s' h => (by cases h), fun d s' h => ?_⟩
  cases h
  exact ⟨hs, [], rfl⟩

theorem specialEnv_tableOk (toks : Array PTok) (strict : Bool) :
    tableOk (specialEnv toks strict).table (specialEnv toks strict).known = true := rfl

theorem special_good {toks : Array PTok} {strict : Bool} (F : Prop) (c : Cfg (specialEnv toks strict))
    (hni : c.PB → F → NoInc (specialEnv toks strict))
    (tyA2ml : Nat) (f32 : List Char → Option (List Char)) (builtin : List Spec)
    (ty : Nat) (ctx : Ctx) (off : Nat) (s : PState) (hp : c.Pre s) :
    Good F c s.pos s.log (special tyA2ml f32 builtin ty ctx off toks strict s) T := by
  unfold special
  split
  · exact a2mlBlock_good c ty ctx off s hp
  · exact ifDataBlock_good c hni f32 builtin ty ctx off s hp

end A2l.IfData
