import A2lVerif.Lemmas.IfDataVals
/-!
# IF_DATA, part E: the interpreter looks at the cursor position only

Whether a definition accepts the content, and where it stops, does not depend on the rest of the parser state
(`last_token_position`, `sequential_id`, the log): two runs from states with the same cursor position end in the same
kind of outcome at the same position. Used for `valid_iff_interp`: the attempts that `parse_ifdata` makes one after
the other start from states that differ in exactly these components.
-/
namespace A2l.IfData
open A2l.Tree A2l.Aml A2l.G A2l.Sc

variable {e : Env}

/-- same kind of outcome, same cursor position, related values -/
def Sim {α : Type} (R : α → α → Prop) : PRes α → PRes α → Prop
  | .ok a s1, .ok b t1 => R a b ∧ s1.pos = t1.pos
  | .err _ s1, .err _ t1 => s1.pos = t1.pos
  | .panic, .panic => True
  | .fuel, .fuel => True
  | _, _ => False

def Any {α : Type} : α → α → Prop := fun _ _ => True

/-- a function of the parser monad whose control flow and results (up to `R`) depend on the cursor only -/
def PosOnly {α : Type} (R : α → α → Prop) (m : PM α) (e : Env) : Prop :=
  ∀ s t : PState, s.pos = t.pos → Sim R (m e s) (m e t)

theorem Sim.bind {α β} {R : α → α → Prop} {R' : β → β → Prop} {m : PM α} {f g : α → PM β} {s t : PState}
    (h1 : Sim R (m e s) (m e t))
    (h2 : ∀ a b s1 t1, R a b → s1.pos = t1.pos → Sim R' (f a e s1) (g b e t1)) :
    Sim R' ((m >>= f) e s) ((m >>= g) e t) := by
  rw [bind_eq, bind_eq]
  cases hs : m e s <;> cases ht : m e t <;> rw [hs, ht] at h1 <;> first | exact h1.elim | skip
  · exact h2 _ _ _ _ h1.1 h1.2
  · exact h1
  · trivial
  · trivial

theorem Sim.attemptB {α β} {R : α → α → Prop} {R' : β → β → Prop} {m : PM α} {f g : Except Diag α → PM β}
    {s t : PState} (h1 : Sim R (m e s) (m e t))
    (hok : ∀ a b s1 t1, R a b → s1.pos = t1.pos → Sim R' (f (.ok a) e s1) (g (.ok b) e t1))
    (herr : ∀ d d' s1 t1, s1.pos = t1.pos → Sim R' (f (.error d) e s1) (g (.error d') e t1)) :
    Sim R' ((attempt m >>= f) e s) ((attempt m >>= g) e t) := by
  rw [bind_eq, bind_eq]
  unfold attempt
  cases hs : m e s <;> cases ht : m e t <;> rw [hs, ht] at h1 <;> first | exact h1.elim | skip
  · exact hok _ _ _ _ h1.1 h1.2
  · exact herr _ _ _ _ h1
  · trivial
  · trivial

theorem Sim.pure {α} {R : α → α → Prop} {a b : α} {s t : PState} (hr : R a b) (hp : s.pos = t.pos) :
    Sim R ((Pure.pure a : PM α) e s) ((Pure.pure b : PM α) e t) := ⟨hr, hp⟩

theorem Sim.fail {α} {R : α → α → Prop} {k k' : DK} {s t : PState} (hp : s.pos = t.pos) :
    Sim R ((A2l.Tree.fail k : PM α) e s) ((A2l.Tree.fail k' : PM α) e t) := hp

theorem Sim.weaken {α} {R R' : α → α → Prop} {r1 r2 : PRes α} (h : Sim R r1 r2) (hr : ∀ a b, R a b → R' a b) :
    Sim R' r1 r2 := by
  cases r1 <;> cases r2 <;> first | exact h.elim | skip
  · exact ⟨hr _ _ h.1, h.2⟩
  · exact h
  · trivial
  · trivial

theorem getLineOffset_pos (s t : PState) (hp : s.pos = t.pos) :
    (getLineOffset e s = .panic ∧ getLineOffset e t = .panic) ∨
    ∃ n, getLineOffset e s = .ok n s ∧ getLineOffset e t = .ok n t := by
  unfold getLineOffset
  simp only [getEnv_bind, getState_bind]
  rw [← hp]
  split
  · cases e.toks[s.pos - 2]? <;> cases e.toks[s.pos - 1]? <;> simp only []
    iterate 3 exact .inl ⟨rfl, rfl⟩
    repeat' split
    all_goals first | exact .inl ⟨rfl, rfl⟩ | exact .inr ⟨_, rfl, rfl⟩
  · cases e.toks[0]? <;> simp only []
    · exact .inl ⟨rfl, rfl⟩
    · split
      all_goals first | exact .inl ⟨rfl, rfl⟩ | exact .inr ⟨_, rfl, rfl⟩

theorem Sim.lineOffset {β} {R' : β → β → Prop} {f g : Nat → PM β} {s t : PState} (hp : s.pos = t.pos)
    (h : ∀ n, Sim R' (f n e s) (g n e t)) :
    Sim R' ((getLineOffset >>= f) e s) ((getLineOffset >>= g) e t) := by
  rw [bind_eq, bind_eq]
  rcases getLineOffset_pos (e := e) s t hp with ⟨h1, h2⟩ | ⟨n, h1, h2⟩
  · rw [h1, h2]; trivial
  · rw [h1, h2]; exact h n

theorem getToken_sim (ctx : Ctx) : PosOnly Eq (getToken ctx) e := by
  intro s t hp
  rw [getToken_eval, getToken_eval, ← hp]
  cases e.toks[s.pos]? with
  | none => exact hp
  | some t0 => exact ⟨rfl, rfl⟩

theorem expectTokenAux_sim (ctx : Ctx) (ty : Nat) : ∀ fuel, PosOnly Eq (expectTokenAux ctx ty fuel) e
  | 0 => fun _ _ _ => trivial
  | fuel + 1 => by
    intro s t hp
    rw [expectTokenAux]
    refine Sim.bind (getToken_sim ctx s t hp) ?_
    intro a b s1 t1 hab hp1
    subst hab
    split
    · exact expectTokenAux_sim ctx ty fuel s1 t1 hp1
    · split
      · exact Sim.fail hp1
      · exact Sim.pure rfl hp1

theorem expectToken_sim (ctx : Ctx) (ty : Nat) : PosOnly Eq (expectToken ctx ty) e := by
  intro s t hp
  unfold expectToken
  simp only [getEnv_bind]
  exact expectTokenAux_sim ctx ty _ s t hp

theorem errorOrLog_sim (k : DK) : PosOnly Eq (errorOrLog k) e := by
  intro s t hp
  unfold errorOrLog
  simp only [getEnv_bind]
  split
  · exact Sim.fail hp
  · exact ⟨rfl, hp⟩

theorem getIdentifier_sim (ctx : Ctx) : PosOnly Eq (getIdentifier ctx) e := by
  intro s t hp
  unfold getIdentifier
  refine Sim.bind (expectToken_sim ctx 0 s t hp) ?_
  intro a b s1 t1 hab hp1
  subst hab
  cases a.text with
  | nil => trivial
  | cons c tl =>
    dsimp only
    split
    · refine Sim.bind (errorOrLog_sim _ s1 t1 hp1) ?_
      intro _ _ s2 t2 _ hp2
      exact Sim.pure rfl hp2
    · exact Sim.pure rfl hp1

theorem getString_sim (ctx : Ctx) : PosOnly Eq (getString ctx) e := by
  intro s t hp
  unfold getString
  simp only [peekToken_bind]
  rw [← hp]
  generalize e.toks[s.pos]? = o
  split
  · refine Sim.bind (getIdentifier_sim ctx s t hp) ?_
    intro a b s1 t1 hab hp1
    subst hab
    refine Sim.bind (errorOrLog_sim _ s1 t1 hp1) ?_
    intro _ _ s2 t2 _ hp2
    exact Sim.pure rfl hp2
  · refine Sim.bind (expectToken_sim ctx 4 s t hp) ?_
    intro a b s1 t1 hab hp1
    subst hab
    cases unescape (stripQuotes a.text) with
    | ok r => exact Sim.pure rfl hp1
    | panic => trivial

theorem getStringMaxlen_sim (ctx : Ctx) (n : Nat) : PosOnly Eq (getStringMaxlen ctx n) e := by
  intro s t hp
  unfold getStringMaxlen
  refine Sim.bind (getString_sim ctx s t hp) ?_
  intro a b s1 t1 hab hp1
  subst hab
  dsimp only
  split
  · refine Sim.bind (errorOrLog_sim _ s1 t1 hp1) ?_
    intro _ _ s2 t2 _ hp2
    exact Sim.pure rfl hp2
  · exact Sim.pure rfl hp1

theorem getInteger_sim (ctx : Ctx) (w : Nat) : PosOnly Eq (getInteger ctx w) e := by
  intro s t hp
  unfold getInteger
  refine Sim.bind (expectToken_sim ctx 5 s t hp) ?_
  intro a b s1 t1 hab hp1
  subst hab
  cases parseInt (intTyOf w) a.text with
  | none => exact Sim.fail hp1
  | some r => exact Sim.pure rfl hp1

theorem getDouble_sim (ctx : Ctx) : PosOnly Eq (getDouble ctx) e := by
  intro s t hp
  unfold getDouble
  refine Sim.bind (expectToken_sim ctx 5 s t hp) ?_
  intro a b s1 t1 hab hp1
  subst hab
  cases a.fl with
  | none => exact Sim.fail hp1
  | some r => exact Sim.pure rfl hp1

theorem getFloat_sim (f32 : List Char → Option (List Char)) (ctx : Ctx) : PosOnly Eq (getFloat f32 ctx) e := by
  intro s t hp
  unfold getFloat
  refine Sim.bind (expectToken_sim ctx 5 s t hp) ?_
  intro a b s1 t1 hab hp1
  subst hab
  cases f32 a.text with
  | none => exact Sim.fail hp1
  | some r => exact Sim.pure rfl hp1

theorem skipComments_sim (ctx : Ctx) : ∀ fuel, PosOnly Eq (skipComments ctx fuel) e
  | 0 => fun _ _ _ => trivial
  | fuel + 1 => by
    intro s t hp
    rw [skipComments]
    simp only [peekToken_bind]
    rw [← hp]
    cases e.toks[s.pos]? with
    | none => exact Sim.pure rfl hp
    | some t0 =>
      dsimp only
      split
      · refine Sim.bind (getToken_sim ctx s t hp) ?_
        intro _ _ s1 t1 _ hp1
        exact skipComments_sim ctx fuel s1 t1 hp1
      · exact Sim.pure rfl hp

theorem endOfTagged_sim (newctx : Ctx) (tag : List Char) (isBlock : Bool) :
    PosOnly Eq (endOfTagged newctx tag isBlock) e := by
  intro s t hp
  unfold endOfTagged
  split
  · refine Sim.bind (expectToken_sim newctx 2 s t hp) ?_
    intro _ _ s1 t1 _ hp1
    refine Sim.lineOffset hp1 ?_
    intro off
    refine Sim.bind (expectToken_sim newctx 0 s1 t1 hp1) ?_
    intro a b s2 t2 hab hp2
    subst hab
    dsimp only
    split
    · exact hp2
    · exact Sim.pure rfl hp2
  · exact Sim.pure rfl hp

theorem getNextTagOrComment_sim (ctx : Ctx) : PosOnly Eq (getNextTagOrComment ctx) e := by
  intro s t hp
  unfold getNextTagOrComment
  simp only [getTokenpos_bind, peekToken_bind]
  rw [← hp]
  generalize e.toks[s.pos]? = o
  split
  · simp only [modifyState_bind]
    refine Sim.lineOffset (by show s.pos + 1 = t.pos + 1; omega) ?_
    intro off
    exact Sim.pure rfl (by show s.pos + 1 = t.pos + 1; omega)
  · refine Sim.bind (getToken_sim ctx s t hp) ?_
    intro _ _ s1 t1 _ hp1
    refine Sim.lineOffset hp1 ?_
    intro off
    refine Sim.attemptB (expectToken_sim ctx 0 s1 t1 hp1) ?_ ?_
    · intro a b s2 t2 hab hp2
      subst hab
      exact Sim.pure rfl hp2
    · intro d d' s2 t2 hp2
      simp only [setTokenpos_bind]
      exact rfl
  · refine Sim.attemptB (expectToken_sim ctx 0 s t hp) ?_ ?_
    · intro a b s1 t1 hab hp1
      subst hab
      refine Sim.lineOffset hp1 ?_
      intro off
      exact Sim.pure rfl hp1
    · intro d d' s1 t1 hp1
      refine Sim.lineOffset hp1 ?_
      intro off
      simp only [setTokenpos_bind]
      exact Sim.pure rfl rfl

/-- both absent, or both present with the same tag -/
def SameSome : Option (TItem Gen) → Option (TItem Gen) → Prop := fun a b => a.map (·.tag) = b.map (·.tag)

def PosOnlyD (d : List Char → Option (Bool × (Ctx → PM Gen))) (e : Env) : Prop :=
  ∀ tag b p, d tag = some (b, p) → ∀ ctx, PosOnly Any (p ctx) e

theorem arrayLoop_sim {p : PM Gen} (hp' : PosOnly Any p e) : ∀ n, PosOnly Any (arrayLoop p n) e
  | 0 => fun s t hp => by rw [arrayLoop]; exact Sim.pure trivial hp
  | n + 1 => by
    intro s t hp
    rw [arrayLoop]
    simp only [getTokenpos_bind]
    rw [← hp]
    refine Sim.bind (hp' s t hp) ?_
    intro _ _ s1 t1 _ hp1
    simp only [getTokenpos_bind]
    rw [← hp1]
    split
    · exact Sim.pure trivial hp1
    · refine Sim.bind (arrayLoop_sim hp' n s1 t1 hp1) ?_
      intro _ _ s2 t2 _ hp2
      exact Sim.pure trivial hp2

theorem seqLoop_sim {p : PM Gen} (hp' : PosOnly Any p e) : ∀ fuel acc acc' (s t : PState), s.pos = t.pos →
    Sim Any (seqLoop p fuel acc e s) (seqLoop p fuel acc' e t)
  | 0, _, _, _, _, _ => trivial
  | fuel + 1, acc, acc', s, t, hp => by
    rw [seqLoop, seqLoop]
    simp only [getTokenpos_bind]
    rw [← hp]
    refine Sim.attemptB (hp' s t hp) ?_ ?_
    · intro a b s1 t1 _ hp1
      simp only [getTokenpos_bind]
      rw [← hp1]
      split
      · simp only [setTokenpos_bind]
        exact Sim.pure trivial rfl
      · exact seqLoop_sim hp' fuel _ _ s1 t1 hp1
    · intro d d' s1 t1 hp1
      simp only [setTokenpos_bind]
      exact Sim.pure trivial rfl

theorem taggedItem_sim {d : List Char → Option (Bool × (Ctx → PM Gen))} (hd : PosOnlyD d e) (ctx : Ctx) :
    PosOnly SameSome (taggedItem d ctx) e := by
  intro s t hp
  unfold taggedItem
  simp only [getTokenpos_bind, getEnv_bind]
  rw [← hp]
  refine Sim.bind (skipComments_sim ctx _ s t hp) ?_
  intro _ _ s1 t1 _ hp1
  refine Sim.attemptB (getNextTagOrComment_sim ctx s1 t1 hp1) ?_ ?_
  · intro a b s2 t2 hab hp2
    subst hab
    have hreset : Sim SameSome ((do setTokenpos s.pos; pure (none : Option (TItem Gen)) : PM _) e s2)
        ((do setTokenpos s.pos; pure (none : Option (TItem Gen)) : PM _) e t2) := by
      simp only [setTokenpos_bind]
      exact Sim.pure rfl rfl
    cases a with
    | comment tok off => exact hreset
    | none => exact hreset
    | block tok isBlock startOff =>
      dsimp only
      cases hdt : d tok.text with
      | none => exact hreset
      | some bp =>
        obtain ⟨b, p⟩ := bp
        dsimp only
        split
        · exact hreset
        · simp only [getNextId_bind]
          refine Sim.bind (hd _ _ _ hdt _ _ _ hp2) ?_
          intro _ _ s3 t3 _ hp3
          refine Sim.bind (endOfTagged_sim _ _ _ s3 t3 hp3) ?_
          intro _ _ s4 t4 _ hp4
          exact Sim.pure rfl hp4
  · intro d1 d2 s2 t2 hp2
    simp only [setTokenpos_bind]
    exact Sim.pure rfl rfl

theorem any_tag_eq (acc : List (TItem Gen)) (tag : List Char) :
    acc.any (fun x => x.tag = tag) = (acc.map (·.tag)).any (fun x => x = tag) := by
  induction acc with
  | nil => rfl
  | cons a l ih => simp only [List.any_cons, List.map_cons, ih]

theorem tsLoop_sim {d : List Char → Option (Bool × (Ctx → PM Gen))} (hd : PosOnlyD d e) (rep : List Char → Bool)
    (ctx : Ctx) : ∀ fuel acc acc' (s t : PState), s.pos = t.pos → acc.map (·.tag) = acc'.map (·.tag) →
    Sim Any (tsLoop d rep ctx fuel acc e s) (tsLoop d rep ctx fuel acc' e t)
  | 0, _, _, _, _, _, _ => trivial
  | fuel + 1, acc, acc', s, t, hp, hacc => by
    rw [tsLoop, tsLoop]
    refine Sim.bind (taggedItem_sim hd ctx s t hp) ?_
    intro a b s1 t1 hab hp1
    cases a <;> cases b <;> first | cases hab | skip
    · exact Sim.pure trivial hp1
    · rename_i ita itb
      have htag : ita.tag = itb.tag := by simpa [SameSome] using hab
      dsimp only
      rw [any_tag_eq acc, any_tag_eq acc', hacc, htag]
      split
      · exact Sim.fail hp1
      · exact tsLoop_sim hd rep ctx fuel _ _ s1 t1 hp1 (by simp [hacc, htag])

mutual
theorem itemP_sim (f32 : List Char → Option (List Char)) : ∀ (sp : Spec) (ctx : Ctx), PosOnly Any (itemP f32 sp ctx) e
  | .none, ctx => by
    intro s t hp; rw [itemP]; exact Sim.pure trivial hp
  | .int w, ctx => by
    intro s t hp
    rw [itemP]
    refine Sim.bind (getInteger_sim ctx w s t hp) ?_
    intro ⟨v, hex⟩ ⟨v', hex'⟩ s1 t1 _ hp1
    refine Sim.lineOffset hp1 ?_
    intro off
    exact Sim.pure trivial hp1
  | .float, ctx => by
    intro s t hp
    rw [itemP]
    refine Sim.bind (getFloat_sim f32 ctx s t hp) ?_
    intro _ _ s1 t1 _ hp1
    refine Sim.lineOffset hp1 ?_
    intro off
    exact Sim.pure trivial hp1
  | .double, ctx => by
    intro s t hp
    rw [itemP]
    refine Sim.bind (getDouble_sim ctx s t hp) ?_
    intro _ _ s1 t1 _ hp1
    refine Sim.lineOffset hp1 ?_
    intro off
    exact Sim.pure trivial hp1
  | .array of dim, ctx => by
    intro s t hp
    rw [itemP.eq_def]
    dsimp only
    split
    · refine Sim.bind (getStringMaxlen_sim ctx dim s t hp) ?_
      intro _ _ s1 t1 _ hp1
      refine Sim.lineOffset hp1 ?_
      intro off
      exact Sim.pure trivial hp1
    · refine Sim.bind (arrayLoop_sim (itemP_sim f32 of ctx) dim s t hp) ?_
      intro _ _ s1 t1 _ hp1
      exact Sim.pure trivial hp1
  | .enum items, ctx => by
    intro s t hp
    rw [itemP]
    refine Sim.bind (getIdentifier_sim ctx s t hp) ?_
    intro a b s1 t1 hab hp1
    subst hab
    refine Sim.lineOffset hp1 ?_
    intro off
    split
    · exact Sim.pure trivial hp1
    · exact Sim.fail hp1
  | .struct items, ctx => by
    intro s t hp
    rw [itemP]
    refine Sim.bind (itemsP_sim f32 items ctx s t hp) ?_
    intro _ _ s1 t1 _ hp1
    exact Sim.pure trivial hp1
  | .seq of, ctx => by
    intro s t hp
    rw [itemP]
    simp only [getEnv_bind]
    refine Sim.bind (R := Any) (seqLoop_sim (itemP_sim f32 of ctx) _ [] [] s t hp) ?_
    intro _ _ s1 t1 _ hp1
    exact Sim.pure trivial hp1
  | .taggedStruct items, ctx => by
    intro s t hp
    rw [itemP]
    simp only [getEnv_bind]
    refine Sim.bind (R := Any) (tsLoop_sim (dispatch_sim f32 items) _ ctx _ [] [] s t hp rfl) ?_
    intro _ _ s1 t1 _ hp1
    exact Sim.pure trivial hp1
  | .taggedUnion items, ctx => by
    intro s t hp
    rw [itemP]
    refine Sim.bind (taggedItem_sim (dispatch_sim f32 items) ctx s t hp) ?_
    intro a b s1 t1 hab hp1
    cases a <;> cases b <;> first | cases hab | skip
    · exact Sim.pure trivial hp1
    · exact Sim.pure trivial hp1

theorem itemsP_sim (f32 : List Char → Option (List Char)) : ∀ (l : List Spec) (ctx : Ctx), PosOnly Any (itemsP f32 l ctx) e
  | [], ctx => by
    intro s t hp; rw [itemsP]; exact Sim.pure trivial hp
  | sp :: rest, ctx => by
    intro s t hp
    rw [itemsP]
    refine Sim.bind (itemP_sim f32 sp ctx s t hp) ?_
    intro _ _ s1 t1 _ hp1
    refine Sim.bind (itemsP_sim f32 rest ctx s1 t1 hp1) ?_
    intro _ _ s2 t2 _ hp2
    exact Sim.pure trivial hp2

theorem dispatch_sim (f32 : List Char → Option (List Char)) : ∀ (l : List (Tagged Spec)), PosOnlyD (dispatch f32 l) e
  | [] => by
    intro tag b p h; rw [dispatch] at h; cases h
  | t :: rest => by
    intro tag b p h
    rw [dispatch] at h
    split at h
    · cases h
      intro ctx
      exact itemP_sim f32 t.item ctx
    · exact dispatch_sim f32 rest tag b p h
end

/-- behind cursor position `p` there are only comments up to a `/end` token -/
def EndBehindComments (e : Env) (p : Nat) : Prop :=
  ∃ q, p ≤ q ∧ (∀ i, p ≤ i → i < q → ∃ t, e.toks[i]? = some t ∧ t.ty = 6) ∧ ∃ t, e.toks[q]? = some t ∧ t.ty = 2

/-- the definition `sp` describes the content that starts at cursor position `p`: its interpreter, started there,
    succeeds and stops in front of a `/end`, possibly with comments in between -/
def Accepts (e : Env) (f32 : List Char → Option (List Char)) (ctx : Ctx) (sp : Spec) (p : Nat) : Prop :=
  ∃ s0 g s1, s0.pos = p ∧ itemP f32 sp ctx e s0 = .ok g s1 ∧ EndBehindComments e s1.pos

theorem AtEnd.samePos {s t : PState} (h : AtEnd e s) (hp : t.pos = s.pos) : AtEnd e t := by
  unfold AtEnd at *; rw [hp]; exact h

/-- `skipComments` with a sufficient budget stops at the first token that is not a comment -/
theorem skipComments_stops (ctx : Ctx) : ∀ (fuel : Nat) (s : PState), e.toks.size - s.pos < fuel →
    ∃ s2, skipComments ctx fuel e s = .ok () s2 ∧ s.pos ≤ s2.pos ∧
      (∀ i, s.pos ≤ i → i < s2.pos → ∃ t, e.toks[i]? = some t ∧ t.ty = 6) ∧
      (∀ t, e.toks[s2.pos]? = some t → t.ty ≠ 6)
  | 0, _, h => by omega
  | fuel + 1, s, h => by
    rw [skipComments]
    simp only [peekToken_bind]
    cases ht : e.toks[s.pos]? with
    | none =>
      refine ⟨s, rfl, Nat.le_refl _, fun i h1 h2 => by omega, fun t h' => ?_⟩
      rw [ht] at h'; cases h'
    | some t =>
      dsimp only
      split
      · rename_i h6
        rw [bind_eq, getToken_eval, ht]
        dsimp only
        have hlt := lt_of_getElem?_some ht
        obtain ⟨s2, hr, hp, hc, hn⟩ := skipComments_stops ctx fuel (adv s t) (by show _ - (s.pos + 1) < fuel; omega)
        refine ⟨s2, hr, by have : s.pos + 1 ≤ s2.pos := hp; omega, ?_, hn⟩
        intro i h1 h2
        by_cases hi : i = s.pos
        · rw [hi]; exact ⟨t, ht, h6⟩
        · exact hc i (by show s.pos + 1 ≤ i; omega) h2
      · rename_i h6
        refine ⟨s, rfl, Nat.le_refl _, fun i h1 h2 => by omega, fun t' h' => ?_⟩
        rw [ht] at h'; cases h'; exact h6

theorem endBehindComments_iff {p : Nat} {s2 : PState} (hp : p ≤ s2.pos)
    (hc : ∀ i, p ≤ i → i < s2.pos → ∃ t, e.toks[i]? = some t ∧ t.ty = 6)
    (hn : ∀ t, e.toks[s2.pos]? = some t → t.ty ≠ 6) :
    EndBehindComments e p ↔ AtEnd e s2 := by
  constructor
  · rintro ⟨q, hq, hcq, t, htq, h2⟩
    have : q = s2.pos := by
      rcases Nat.lt_trichotomy q s2.pos with h | h | h
      · obtain ⟨t', ht', h6⟩ := hc q hq h
        rw [htq] at ht'; cases ht'; omega
      · exact h
      · obtain ⟨t', ht', h6⟩ := hcq s2.pos hp h
        exact absurd h6 (hn t' ht')
    rw [this] at htq
    exact ⟨t, htq, h2⟩
  · rintro ⟨t, ht, h2⟩
    exact ⟨s2.pos, hp, hc, t, ht, h2⟩

theorem fromSpec_iff {f32 : List Char → Option (List Char)} {ctx : Ctx} {sp : Spec} {s : PState} {r : Option Gen}
    {s' : PState} (h : fromSpec f32 ctx sp e s = .ok r s') : r.isSome ↔ Accepts e f32 ctx sp s.pos := by
  unfold fromSpec at h
  simp only [getTokenpos_bind] at h
  have hreset : ∀ s1 : PState, ((do setTokenpos s.pos; pure (none : Option Gen) : PM _) e s1 = .ok r s') →
      r = none := by
    intro s1 h1
    simp only [setTokenpos_bind] at h1
    obtain ⟨rfl, rfl⟩ := pure_ok h1
    rfl
  -- what a run from another state with the same cursor would do
  have hsim : ∀ s0 g s1, s0.pos = s.pos → itemP f32 sp ctx e s0 = .ok g s1 →
      ∃ g' t1, itemP f32 sp ctx e s = .ok g' t1 ∧ t1.pos = s1.pos := by
    intro s0 g s1 hp0 h0
    have := itemP_sim (e := e) f32 sp ctx s0 s hp0
    rw [h0] at this
    cases hr : itemP f32 sp ctx e s with
    | ok g' t1 => rw [hr] at this; exact ⟨g', t1, rfl, this.2.symm⟩
    | err d t1 => rw [hr] at this; exact this.elim
    | panic => rw [hr] at this; exact this.elim
    | fuel => rw [hr] at this; exact this.elim
  rcases attempt_ok h with ⟨g, s1, h1, h2⟩ | ⟨d, s1, h1, h2⟩
  · dsimp only at h2
    simp only [getEnv_bind] at h2
    obtain ⟨s2, hsk, hp2, hc, hn⟩ := skipComments_stops (e := e) ctx (e.toks.size + 1) s1 (by omega)
    rw [bind_eq, hsk] at h2
    dsimp only at h2
    have hiff := endBehindComments_iff hp2 hc hn
    -- acceptance in terms of the state reached here
    have hacc : Accepts e f32 ctx sp s.pos ↔ AtEnd e s2 := by
      rw [← hiff]
      constructor
      · rintro ⟨s0, g0, s3, hp0, h0, hend⟩
        obtain ⟨g', t1, hr, hp1⟩ := hsim s0 g0 s3 hp0 h0
        rw [h1] at hr; cases hr
        rw [hp1]; exact hend
      · intro hend; exact ⟨s, g, s1, rfl, h1, hend⟩
    rw [hacc]
    simp only [peekToken_bind] at h2
    cases ht : e.toks[s2.pos]? with
    | none =>
      rw [ht] at h2
      rw [hreset s2 h2]
      refine ⟨fun h => (by cases h), ?_⟩
      rintro ⟨t, ht2, _⟩
      rw [ht] at ht2; cases ht2
    | some t =>
      rw [ht] at h2
      dsimp only at h2
      split at h2
      · rename_i h22
        obtain ⟨rfl, rfl⟩ := pure_ok h2
        exact ⟨fun _ => ⟨t, ht, h22⟩, fun _ => rfl⟩
      · rename_i h22
        rw [hreset s2 h2]
        refine ⟨fun h => (by cases h), ?_⟩
        rintro ⟨t', ht2, h2'⟩
        rw [ht] at ht2; cases ht2
        exact (h22 h2').elim
  · rw [hreset s1 h2]
    refine ⟨fun h => (by cases h), ?_⟩
    rintro ⟨s0, g0, s2, hp0, h0, _⟩
    obtain ⟨g', t1, hr, _⟩ := hsim s0 g0 s2 hp0 h0
    rw [h1] at hr; cases hr

theorem trySpecs_iff {f32 : List Char → Option (List Char)} {ctx : Ctx} : ∀ (specs : List Spec) (s : PState)
    (r : Option Gen) (s' : PState), s.pos ≤ e.toks.size → trySpecs f32 ctx specs e s = .ok r s' →
    (r.isSome ↔ ∃ sp ∈ specs, Accepts e f32 ctx sp s.pos)
  | [], s, r, s', _, h => by
    rw [trySpecs] at h
    obtain ⟨rfl, rfl⟩ := pure_ok h
    simp
  | sp :: rest, s, r, s', hs, h => by
    rw [trySpecs] at h
    obtain ⟨r1, s1, h1, h2⟩ := bind_ok h
    have hiff := fromSpec_iff h1
    have hr := fromSpec_ok (f32 := f32) hs h1
    cases r1 with
    | some g =>
      obtain ⟨rfl, rfl⟩ := pure_ok h2
      exact ⟨fun _ => ⟨sp, List.mem_cons_self .., hiff.1 rfl⟩, fun _ => rfl⟩
    | none =>
      dsimp only at h2
      have hp : s1.pos = s.pos := hr
      have ih := trySpecs_iff rest s1 r s' (by omega) h2
      rw [hp] at ih
      rw [ih]
      constructor
      · rintro ⟨sp', hm, ha⟩; exact ⟨sp', List.mem_cons_of_mem _ hm, ha⟩
      · rintro ⟨sp', hm, ha⟩
        rcases List.mem_cons.1 hm with rfl | hm'
        · have := hiff.2 ha; cases this
        · exact ⟨sp', hm', ha⟩

end A2l.IfData
