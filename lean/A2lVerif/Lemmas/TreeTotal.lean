import A2lVerif.Model.Tree
/-! helper lemmas for the panic-freedom of the generic parser (C03) -/
namespace A2l.Tree
end A2l.Tree
