import A2lVerif.Model.Tree
import A2lVerif.Lemmas.Scalars
/-!
# helper lemmas for the C03 theorems about the generic parser (Props/C03Parse.lean)

One judgement `Safe c lo lg r Q` classifies the outcome `r` of a parser function: on `ok`/`err` the cursor is in range
(and, on `ok`, not below `lo`), the log extends `lg` in the sense of the log relation `c.L`, and a panic contradicts
`c.NP`. The configuration `c : Cfg e` says what is tracked (`PB`: cursor positions, `NP`: absence of panics, with the
hypotheses `TokOk`, `tableOk`, non-empty token array that this needs) and what is assumed of the `special` parsers.
Every function of Model/Tree.lean gets one `_safe` lemma for an arbitrary configuration; the mutual block is done by
induction on the fuel (`AllSafe`, `allSafe`). The five theorems are three instances: `cfgFull`, `cfgPos`, `cfgStrict`.
-/
namespace A2l.Tree
open A2l.G A2l.Sc

/-! ## the hypotheses of the C03 parser theorems (moved here verbatim from Props/C03Parse.lean) -/

/-- what the parser relies on about the tokens (all consequences of `lex_inv` and of how tokens are built):
    line numbers are 1-based and non-decreasing, identifier tokens are not empty -/
structure TokOk (toks : Array PTok) : Prop where
  line_pos : ∀ i (h : i < toks.size), 1 ≤ toks[i].line
  line_mono : ∀ i j (hi : i < toks.size) (hj : j < toks.size), i ≤ j → toks[i].line ≤ toks[j].line
  ident_ne : ∀ i (h : i < toks.size), toks[i].ty = 0 → toks[i].text ≠ []
  comment_lines : ∀ i j (hi : i < toks.size) (hj : j < toks.size), i < j → toks[i].ty = 6 →
    toks[i].line + countNewlines toks[i].text ≤ toks[j].line

/-- item types only refer to existing types of the right kind -/
def itemOk (tbl : Table) : ItemTy → Bool
  | .enumRef ty => match tbl.lookup ty with | some (.enum _) => true | _ => false
  | .structRef ty => match tbl.lookup ty with | some (.block _ _ _ _) => true | _ => false
  | .arr of _ => itemOk tbl of
  | .seq of _ => itemOk tbl of
  | _ => true

/-- decidable well-formedness of a grammar table as far as panic-freedom is concerned: every reference resolves to a
    type of the expected kind, and the two types the hand-written code names exist with the expected shape -/
def tableOk (tbl : Table) (k : Known) : Bool :=
  tbl.all (fun e => match e.def_ with
    | .block _ items arms _ =>
      items.all (itemOk tbl) &&
      arms.all (fun a => match tbl.lookup a.ty with | some (.block _ _ _ _) => true | some .special => true | _ => false)
    | .enum _ => true
    | _ => true) &&
  (match tbl.lookup k.tyA2lFile with | some (.block _ _ _ _) => true | _ => false) &&
  (match tbl.lookup k.tyAsap2Version with
   | some (.block false [.int _, .int _] [] false) => true | _ => false)

/-- the hand-written parsers of the `special` types (A2ML, IF_DATA) are a parameter of the model: what is assumed
    of them here (and proved of their own model separately) is that they do not panic and keep the cursor in range -/
def SpecialOk (e : Env) : Prop :=
  ∀ ty ctx off s, s.pos ≤ e.toks.size →
    e.special ty ctx off e.toks e.strict s ≠ .panic ∧
    (∀ v s', e.special ty ctx off e.toks e.strict s = .ok v s' → s.pos ≤ s'.pos ∧ s'.pos ≤ e.toks.size ∧ ∃ l, s'.log = l ++ s.log) ∧
    (∀ d s', e.special ty ctx off e.toks e.strict s = .err d s' → s'.pos ≤ e.toks.size ∧ ∃ l, s'.log = l ++ s.log)

/-- a type that `parseType` can be called on: a block/keyword/struct or a `special` type -/
def tyOk (tbl : Table) (ty : Nat) : Bool :=
  match tbl.lookup ty with | some (.block _ _ _ _) => true | some .special => true | _ => false

/-! ## the judgement -/

/-- outcome classification relative to a lower bound `lo` for the cursor and a reference log `lg`.
    `PB`: positions are tracked; `NP`: panics are excluded. -/
def SafeRaw {α} (PB NP : Prop) (L : List Diag → List Diag → Prop) (size lo : Nat) (lg : List Diag)
    (r : PRes α) (Q : α → PState → Prop) : Prop :=
  match r with
  | .ok a s' => (PB → lo ≤ s'.pos ∧ s'.pos ≤ size) ∧ L lg s'.log ∧ Q a s'
  | .err _ s' => (PB → s'.pos ≤ size) ∧ L lg s'.log
  | .panic => ¬ NP
  | .fuel => True

/-- what is tracked, and under which assumptions -/
structure Cfg (e : Env) where
  PB : Prop
  NP : Prop
  L : List Diag → List Diag → Prop
  np_pb : NP → PB
  tok : NP → TokOk e.toks
  ne : NP → 0 < e.toks.size
  tbl : NP → tableOk e.table e.known = true
  L_refl : ∀ l, L l l
  L_trans : ∀ {a b c}, L a b → L b c → L a c
  L_log : ∀ (d : Diag) l, (e.strict = false ∨ d.kind = .blockRefDeprecated ∨ d.kind = .enumRefDeprecated) → L l (d :: l)
  special : ∀ ty ctx off s, (PB → s.pos ≤ e.toks.size) →
    SafeRaw PB NP L e.toks.size s.pos s.log (e.special ty ctx off e.toks e.strict s) (fun _ _ => True)

variable {e : Env}

def Cfg.Pre (c : Cfg e) (s : PState) : Prop := c.PB → s.pos ≤ e.toks.size

def Safe {α} (c : Cfg e) (lo : Nat) (lg : List Diag) (r : PRes α) (Q : α → PState → Prop) : Prop :=
  SafeRaw c.PB c.NP c.L e.toks.size lo lg r Q

@[simp] theorem Safe_ok {α} (c : Cfg e) (lo lg) (a : α) (s') (Q : α → PState → Prop) :
    Safe c lo lg (.ok a s') Q ↔ ((c.PB → lo ≤ s'.pos ∧ s'.pos ≤ e.toks.size) ∧ c.L lg s'.log ∧ Q a s') := Iff.rfl
@[simp] theorem Safe_err {α} (c : Cfg e) (lo lg) (d) (s') (Q : α → PState → Prop) :
    Safe c lo lg (.err d s') Q ↔ ((c.PB → s'.pos ≤ e.toks.size) ∧ c.L lg s'.log) := Iff.rfl
@[simp] theorem Safe_panic {α} (c : Cfg e) (lo lg) (Q : α → PState → Prop) :
    Safe c lo lg (.panic) Q ↔ ¬ c.NP := Iff.rfl
@[simp] theorem Safe_fuel {α} (c : Cfg e) (lo lg) (Q : α → PState → Prop) :
    Safe c lo lg (.fuel) Q ↔ True := Iff.rfl

/-- closes goals `c.PB → arithmetic` from hypotheses that may be guarded by `c.PB` -/
macro "pb_omega" : tactic =>
  `(tactic| (intro hpb; simp only [hpb, true_implies, forall_const] at *; omega))

theorem bind_eq {α β} (m : PM α) (f : α → PM β) (e : Env) (s : PState) :
    (m >>= f) e s = match m e s with
      | .ok a s' => f a e s' | .err d s' => .err d s' | .panic => .panic | .fuel => .fuel := rfl

theorem Safe.bindG {α β} {c : Cfg e} {lo lo1 : Nat} {lg : List Diag} {m : PM α} {f : α → PM β} {s : PState}
    {Q1 : α → PState → Prop} {Q2 : β → PState → Prop}
    (h1 : Safe c lo1 lg (m e s) Q1)
    (h2 : ∀ a s1, (c.PB → lo1 ≤ s1.pos ∧ s1.pos ≤ e.toks.size) → c.L lg s1.log → Q1 a s1 → Safe c lo lg (f a e s1) Q2) :
    Safe c lo lg ((m >>= f) e s) Q2 := by
  show Safe c lo lg (match m e s with
    | .ok a s' => f a e s' | .err d s' => .err d s' | .panic => .panic | .fuel => .fuel) Q2
  cases h : m e s with
  | ok a s1 => rw [h] at h1; exact h2 a s1 h1.1 h1.2.1 h1.2.2
  | err d s1 => rw [h] at h1; exact h1
  | panic => rw [h] at h1; exact h1
  | fuel => trivial

theorem Safe.weaken {α} {c : Cfg e} {lo lo1 : Nat} {lg lg1 : List Diag} {r : PRes α}
    {Q1 Q2 : α → PState → Prop}
    (hlo : c.PB → lo ≤ lo1) (hl : c.L lg lg1)
    (h1 : Safe c lo1 lg1 r Q1) (hq : ∀ a s1, Q1 a s1 → Q2 a s1) : Safe c lo lg r Q2 := by
  cases r with
  | ok a s1 =>
    refine ⟨?_, c.L_trans hl h1.2.1, hq _ _ h1.2.2⟩
    intro hpb; have := h1.1 hpb; have := hlo hpb; omega
  | err d s1 => exact ⟨h1.1, c.L_trans hl h1.2⟩
  | panic => exact h1
  | fuel => trivial

/-- the usual step: the callee's spec is relative to its own start state -/
theorem Safe.bind' {α β} {c : Cfg e} {lo : Nat} {lg : List Diag} {m : PM α} {f : α → PM β} {s : PState}
    {Q1 : α → PState → Prop} {Q2 : β → PState → Prop}
    (hl : c.L lg s.log)
    (h1 : Safe c s.pos s.log (m e s) Q1)
    (h2 : ∀ a s1, (c.PB → s.pos ≤ s1.pos ∧ s1.pos ≤ e.toks.size) → c.L lg s1.log → Q1 a s1 → Safe c lo lg (f a e s1) Q2) :
    Safe c lo lg ((m >>= f) e s) Q2 :=
  Safe.bindG (lo1 := s.pos) (Safe.weaken (fun _ => Nat.le_refl _) hl h1 (fun _ _ h => h)) h2

/-- `attempt`: after an error only the range of the cursor is known -/
theorem Safe.bind_attempt {α β} {c : Cfg e} {lo : Nat} {lg : List Diag} {m : PM α} {f : Except Diag α → PM β}
    {s : PState} {Q1 : α → PState → Prop} {Q2 : β → PState → Prop}
    (hl : c.L lg s.log)
    (h1 : Safe c s.pos s.log (m e s) Q1)
    (hok : ∀ a s1, (c.PB → s.pos ≤ s1.pos ∧ s1.pos ≤ e.toks.size) → c.L lg s1.log → Q1 a s1 →
      Safe c lo lg (f (.ok a) e s1) Q2)
    (herr : ∀ d s1, (c.PB → s1.pos ≤ e.toks.size) → c.L lg s1.log → Safe c lo lg (f (.error d) e s1) Q2) :
    Safe c lo lg ((attempt m >>= f) e s) Q2 := by
  rw [bind_eq]
  unfold attempt
  cases h : m e s with
  | ok a s1 => rw [h] at h1; exact hok a s1 h1.1 (c.L_trans hl h1.2.1) h1.2.2
  | err d s1 => rw [h] at h1; exact herr d s1 h1.1 (c.L_trans hl h1.2)
  | panic => rw [h] at h1; exact h1
  | fuel => trivial

theorem Safe.pure {α} {c : Cfg e} {lo : Nat} {lg : List Diag} {a : α} {s : PState} {Q : α → PState → Prop}
    (hp : c.PB → lo ≤ s.pos ∧ s.pos ≤ e.toks.size) (hl : c.L lg s.log) (hq : Q a s) :
    Safe c lo lg ((Pure.pure a : PM α) e s) Q := ⟨hp, hl, hq⟩

theorem Safe.fail {α} {c : Cfg e} {lo : Nat} {lg : List Diag} {k : DK} {s : PState} {Q : α → PState → Prop}
    (hp : c.PB → s.pos ≤ e.toks.size) (hl : c.L lg s.log) :
    Safe c lo lg ((fail k : PM α) e s) Q := ⟨hp, hl⟩

/-! ## evaluation of the state primitives under `bind` -/

@[simp] theorem pure_bind_eval {α β} (a : α) (f : α → PM β) (e : Env) (s : PState) :
    ((Pure.pure a : PM α) >>= f) e s = f a e s := rfl
@[simp] theorem getEnv_bind {β} (f : Env → PM β) (e : Env) (s : PState) : (getEnv >>= f) e s = f e e s := rfl
@[simp] theorem getState_bind {β} (f : PState → PM β) (e : Env) (s : PState) : (getState >>= f) e s = f s e s := rfl
@[simp] theorem getTokenpos_bind {β} (f : Nat → PM β) (e : Env) (s : PState) :
    (getTokenpos >>= f) e s = f s.pos e s := rfl
@[simp] theorem peekToken_bind {β} (f : Option PTok → PM β) (e : Env) (s : PState) :
    (peekToken >>= f) e s = f e.toks[s.pos]? e s := rfl
@[simp] theorem setTokenpos_bind {β} (p : Nat) (f : Unit → PM β) (e : Env) (s : PState) :
    (setTokenpos p >>= f) e s = f () e { s with pos := p } := rfl
@[simp] theorem modifyState_bind {β} (g : PState → PState) (f : Unit → PM β) (e : Env) (s : PState) :
    (modifyState g >>= f) e s = f () e (g s) := rfl
@[simp] theorem getNextId_bind {β} (f : Nat → PM β) (e : Env) (s : PState) :
    (getNextId >>= f) e s = f (s.seqId + 1) e { s with seqId := s.seqId + 1 } := rfl
@[simp] theorem undo_bind {β} (f : Unit → PM β) (e : Env) (s : PState) :
    (undoGetToken >>= f) e s = if s.pos = 0 then .panic else f () e { s with pos := s.pos - 1 } := by
  rw [bind_eq]
  unfold undoGetToken
  simp only [getState_bind]
  by_cases h : s.pos = 0
  · simp only [h, if_true]; rfl
  · simp only [h, if_false]; rfl
theorem undo_eval (e : Env) (s : PState) :
    undoGetToken e s = if s.pos = 0 then .panic else .ok () { s with pos := s.pos - 1 } := by
  unfold undoGetToken
  simp only [getState_bind]
  by_cases h : s.pos = 0
  · simp only [h, if_true]; rfl
  · simp only [h, if_false]; rfl

theorem getToken_eval (ctx : Ctx) (e : Env) (s : PState) :
    getToken ctx e s = match e.toks[s.pos]? with
      | some t => .ok t { s with pos := s.pos + 1, lastLine := t.line }
      | none => .err ⟨.unexpectedEOF, s.lastLine⟩ s := by
  unfold getToken
  simp only [getEnv_bind, getState_bind]
  cases e.toks[s.pos]? <;> rfl

/-! ## primitives -/

theorem lt_of_getElem?_some {toks : Array PTok} {i : Nat} {t : PTok} (h : toks[i]? = some t) : i < toks.size := by
  rcases Nat.lt_or_ge i toks.size with h' | h'
  · exact h'
  · rw [getElem?_neg toks i (by omega)] at h; cases h

theorem getToken_safe (c : Cfg e) (ctx : Ctx) (s : PState) (hp : c.Pre s) :
    Safe c s.pos s.log (getToken ctx e s) (fun t s' => s'.pos = s.pos + 1 ∧ e.toks[s.pos]? = some t) := by
  rw [getToken_eval]
  cases h : e.toks[s.pos]? with
  | none => exact ⟨hp, c.L_refl _⟩
  | some t =>
    have := lt_of_getElem?_some h
    refine ⟨?_, c.L_refl _, rfl, rfl⟩
    intro _; show s.pos ≤ s.pos + 1 ∧ s.pos + 1 ≤ e.toks.size; omega

theorem getLineOffset_cases (e : Env) (s : PState) :
    getLineOffset e s = .panic ∨ ∃ n, getLineOffset e s = .ok n s := by
  unfold getLineOffset
  simp only [getEnv_bind, getState_bind]
  split
  · cases e.toks[s.pos - 2]? <;> cases e.toks[s.pos - 1]? <;> simp only []
    iterate 3 exact .inl rfl
    repeat' split
    all_goals first | exact .inl rfl | exact .inr ⟨_, rfl⟩
  · cases e.toks[0]? <;> simp only []
    · exact .inl rfl
    · split
      all_goals first | exact .inl rfl | exact .inr ⟨_, rfl⟩

theorem getLineOffset_ne_panic (e : Env) (s : PState) (hk : TokOk e.toks) (hne : 0 < e.toks.size) :
    getLineOffset e s ≠ .panic := by
  unfold getLineOffset
  simp only [getEnv_bind, getState_bind]
  split
  · rename_i h
    have h2 : s.pos - 2 < e.toks.size := by omega
    have h1 : s.pos - 1 < e.toks.size := by omega
    rw [getElem?_pos e.toks _ h2, getElem?_pos e.toks _ h1]
    dsimp only
    by_cases hf : e.toks[s.pos - 2].fileid = e.toks[s.pos - 1].fileid
    · rw [if_pos hf]
      have hm := hk.line_mono (s.pos - 2) (s.pos - 1) h2 h1 (by omega)
      have hc := hk.comment_lines (s.pos - 2) (s.pos - 1) h2 h1 (by omega)
      by_cases h6 : e.toks[s.pos - 2].ty = 6
      · rw [if_pos h6, if_neg (by have := hc h6; omega)]
        intro h; cases h
      · rw [if_neg h6, if_neg (by omega)]
        intro h; cases h
    · rw [if_neg hf]
      intro h; cases h
  · rw [getElem?_pos e.toks 0 hne]
    dsimp only
    have := hk.line_pos 0 hne
    rw [if_neg (by omega)]
    intro h; cases h

theorem Safe.bind_lineOffset {β} {c : Cfg e} {lo : Nat} {lg : List Diag} {f : Nat → PM β} {s : PState}
    {Q : β → PState → Prop} (h : ∀ n, Safe c lo lg (f n e s) Q) :
    Safe c lo lg ((getLineOffset >>= f) e s) Q := by
  rw [bind_eq]
  rcases getLineOffset_cases e s with h1 | ⟨n, h1⟩
  · rw [h1]
    intro hnp
    exact getLineOffset_ne_panic e s (c.tok hnp) (c.ne hnp) h1
  · rw [h1]; exact h n

theorem logWarning_eval (k : DK) (e : Env) (s : PState) :
    logWarning k e s = .ok () { s with log := ⟨k, s.lastLine⟩ :: s.log } := rfl

theorem errorOrLog_safe (c : Cfg e) (k : DK) (s : PState) (hp : c.Pre s) :
    Safe c s.pos s.log (errorOrLog k e s) (fun _ s' => s'.pos = s.pos) := by
  unfold errorOrLog
  simp only [getEnv_bind]
  split
  · exact ⟨hp, c.L_refl _⟩
  · rename_i h
    rw [logWarning_eval]
    refine ⟨fun hpb => ⟨Nat.le_refl _, hp hpb⟩, c.L_log _ _ (.inl (by simpa using h)), rfl⟩

theorem errorOrLogNoLine_safe (c : Cfg e) (k : DK) (s : PState) (hp : c.Pre s) :
    Safe c s.pos s.log (errorOrLogNoLine k e s) (fun _ s' => s'.pos = s.pos) := by
  unfold errorOrLogNoLine
  simp only [getEnv_bind]
  split
  · exact ⟨hp, c.L_refl _⟩
  · rename_i h
    refine ⟨fun hpb => ⟨Nat.le_refl _, hp hpb⟩, c.L_log _ _ (.inl (by simpa using h)), rfl⟩

theorem logWarning_safe (c : Cfg e) (k : DK) (s : PState) (hp : c.Pre s)
    (hk : k = .blockRefDeprecated ∨ k = .enumRefDeprecated) :
    Safe c s.pos s.log (logWarning k e s) (fun _ s' => s'.pos = s.pos) := by
  rw [logWarning_eval]
  exact ⟨fun hpb => ⟨Nat.le_refl _, hp hpb⟩, c.L_log _ _ (.inr hk), rfl⟩

theorem expectTokenAux_safe (c : Cfg e) (ctx : Ctx) (ty : Nat) : ∀ (fuel : Nat) (s : PState), c.Pre s →
    Safe c s.pos s.log (expectTokenAux ctx ty fuel e s)
      (fun t s' => s.pos + 1 ≤ s'.pos ∧ e.toks[s'.pos - 1]? = some t ∧ t.ty = ty)
  | 0, _, _ => trivial
  | fuel + 1, s, hp => by
    rw [expectTokenAux]
    refine Safe.bind' (c.L_refl _) (getToken_safe c ctx s hp) ?_
    intro t s1 hpos hl hq
    obtain ⟨h1, h2⟩ := hq
    split
    · refine Safe.weaken (fun hpb => (hpos hpb).1) hl (expectTokenAux_safe c ctx ty fuel s1 (fun hpb => (hpos hpb).2)) ?_
      intro a s2 hq
      refine ⟨?_, hq.2⟩
      omega
    · split
      · exact Safe.fail (fun hpb => (hpos hpb).2) hl
      · rename_i hty hty2
        refine Safe.pure hpos hl ⟨by omega, ?_, by simpa using hty2⟩
        rw [h1]; simpa using h2

theorem expectToken_safe (c : Cfg e) (ctx : Ctx) (ty : Nat) (s : PState) (hp : c.Pre s) :
    Safe c s.pos s.log (expectToken ctx ty e s)
      (fun t s' => s.pos + 1 ≤ s'.pos ∧ e.toks[s'.pos - 1]? = some t ∧ t.ty = ty) := by
  unfold expectToken
  simp only [getEnv_bind]
  exact expectTokenAux_safe c ctx ty _ s hp

/-- `if p then errorOrLog k` followed by the rest (`__do_jp`) -/
theorem Safe.condE {β} {c : Cfg e} {lo : Nat} {lg : List Diag} {p : Prop} [Decidable p] {k : DK} {f : PUnit → PM β}
    {s : PState} {Q : β → PState → Prop} (hp : c.Pre s) (hl : c.L lg s.log)
    (h : ∀ s1, s1.pos = s.pos → c.L lg s1.log → Safe c lo lg (f () e s1) Q) :
    Safe c lo lg ((if p then errorOrLog k >>= f else f ()) e s) Q := by
  split
  · refine Safe.bind' hl (errorOrLog_safe c k s hp) ?_
    intro _ s1 _ hl1 hq
    exact h s1 hq hl1
  · exact h s rfl hl

theorem Safe.condW {β} {c : Cfg e} {lo : Nat} {lg : List Diag} {p : Prop} [Decidable p] {k : DK} {f : PUnit → PM β}
    {s : PState} {Q : β → PState → Prop} (hp : c.Pre s) (hl : c.L lg s.log)
    (hk : k = .blockRefDeprecated ∨ k = .enumRefDeprecated)
    (h : ∀ s1, s1.pos = s.pos → c.L lg s1.log → Safe c lo lg (f () e s1) Q) :
    Safe c lo lg ((if p then logWarning k >>= f else f ()) e s) Q := by
  split
  · refine Safe.bind' hl (logWarning_safe c k s hp hk) ?_
    intro _ s1 _ hl1 hq
    exact h s1 hq hl1
  · exact h s rfl hl

theorem Safe.condF {β} {c : Cfg e} {lo : Nat} {lg : List Diag} {p : Prop} [Decidable p] {k : DK} {f : PUnit → PM β}
    {s : PState} {Q : β → PState → Prop} (hp : c.Pre s) (hl : c.L lg s.log)
    (h : Safe c lo lg (f () e s) Q) :
    Safe c lo lg ((if p then (A2l.Tree.fail k : PM PUnit) >>= f else f ()) e s) Q := by
  split
  · exact ⟨hp, hl⟩
  · exact h

theorem getIdentifier_safe (c : Cfg e) (ctx : Ctx) (s : PState) (hp : c.Pre s) :
    Safe c s.pos s.log (getIdentifier ctx e s) (fun _ s' => s.pos + 1 ≤ s'.pos) := by
  unfold getIdentifier
  refine Safe.bind' (c.L_refl _) (expectToken_safe c ctx 0 s hp) ?_
  intro t s1 hpos hl hq
  obtain ⟨h1, h2, h3⟩ := hq
  cases htext : t.text with
  | nil =>
    intro hnp
    have hlt := lt_of_getElem?_some h2
    rw [getElem?_pos e.toks _ hlt] at h2
    have := (c.tok hnp).ident_ne _ hlt
    simp only [Option.some.injEq] at h2
    rw [h2] at this
    exact this h3 htext
  | cons ch tl =>
    dsimp only
    refine Safe.condE (fun hpb => (hpos hpb).2) hl ?_
    intro s2 hpos2 hl2
    refine Safe.pure ?_ hl2 (by omega)
    pb_omega

theorem getString_safe (c : Cfg e) (ctx : Ctx) (s : PState) (hp : c.Pre s) :
    Safe c s.pos s.log (getString ctx e s) (fun _ s' => s.pos + 1 ≤ s'.pos) := by
  unfold getString
  simp only [peekToken_bind]
  generalize e.toks[s.pos]? = o
  split
  · refine Safe.bind' (c.L_refl _) (getIdentifier_safe c ctx s hp) ?_
    intro text s1 hpos hl hq
    refine Safe.bind' hl (errorOrLog_safe c _ s1 (fun hpb => (hpos hpb).2)) ?_
    intro _ s2 hpos2 hl2 hq2
    refine Safe.pure ?_ hl2 (by omega)
    pb_omega
  · refine Safe.bind' (c.L_refl _) (expectToken_safe c ctx 4 s hp) ?_
    intro t s1 hpos hl hq
    obtain ⟨r, hr, _⟩ := unescape_okL (stripQuotes t.text)
    rw [hr]
    exact Safe.pure hpos hl hq.1

theorem getStringMaxlen_safe (c : Cfg e) (ctx : Ctx) (n : Nat) (s : PState) (hp : c.Pre s) :
    Safe c s.pos s.log (getStringMaxlen ctx n e s) (fun _ s' => s.pos + 1 ≤ s'.pos) := by
  unfold getStringMaxlen
  refine Safe.bind' (c.L_refl _) (getString_safe c ctx s hp) ?_
  intro text s1 hpos hl hq
  dsimp only
  refine Safe.condE (fun hpb => (hpos hpb).2) hl ?_
  intro s2 hpos2 hl2
  refine Safe.pure ?_ hl2 (by omega)
  pb_omega

theorem getInteger_safe (c : Cfg e) (ctx : Ctx) (w : Nat) (s : PState) (hp : c.Pre s) :
    Safe c s.pos s.log (getInteger ctx w e s) (fun _ s' => s.pos + 1 ≤ s'.pos) := by
  unfold getInteger
  refine Safe.bind' (c.L_refl _) (expectToken_safe c ctx 5 s hp) ?_
  intro t s1 hpos hl hq
  cases parseInt (intTyOf w) t.text with
  | none => exact Safe.fail (fun hpb => (hpos hpb).2) hl
  | some r => exact Safe.pure hpos hl hq.1

theorem getDouble_safe (c : Cfg e) (ctx : Ctx) (s : PState) (hp : c.Pre s) :
    Safe c s.pos s.log (getDouble ctx e s) (fun _ s' => s.pos + 1 ≤ s'.pos) := by
  unfold getDouble
  refine Safe.bind' (c.L_refl _) (expectToken_safe c ctx 5 s hp) ?_
  intro t s1 hpos hl hq
  cases t.fl with
  | none => exact Safe.fail (fun hpb => (hpos hpb).2) hl
  | some r => exact Safe.pure hpos hl hq.1

theorem parseEnum_safe (c : Cfg e) (items : List EnumItem) (ctx : Ctx) (s : PState) (hp : c.Pre s) :
    Safe c s.pos s.log (parseEnum items ctx e s) (fun _ s' => s.pos + 1 ≤ s'.pos) := by
  unfold parseEnum
  refine Safe.bind' (c.L_refl _) (getIdentifier_safe c ctx s hp) ?_
  intro name s1 hpos hl hq
  simp only [getEnv_bind, getState_bind]
  generalize lookupEnumItem items _ = o
  split
  · refine Safe.condE (fun hpb => (hpos hpb).2) hl ?_
    intro s2 hpos2 hl2
    refine Safe.condW (fun hpb => by have := (hpos hpb).2; omega) hl2 (.inr rfl) ?_
    intro s3 hpos3 hl3
    refine Safe.pure ?_ hl3 (by omega)
    pb_omega
  · exact Safe.fail (fun hpb => (hpos hpb).2) hl

def NTQ (s : PState) : BlockContent → PState → Prop
  | .comment _ _, s' => s.pos + 1 ≤ s'.pos
  | .block _ isB _, s' => s.pos + (if isB then 2 else 1) ≤ s'.pos
  | .none, _ => True

theorem getNextTagOrComment_safe (c : Cfg e) (ctx : Ctx) (s : PState) (hp : c.Pre s) :
    Safe c s.pos s.log (getNextTagOrComment ctx e s) (NTQ s) := by
  unfold getNextTagOrComment
  simp only [getTokenpos_bind, peekToken_bind]
  generalize ho : e.toks[s.pos]? = o
  split
  · simp only [modifyState_bind]
    refine Safe.bind_lineOffset ?_
    intro off
    have := lt_of_getElem?_some ho
    refine Safe.pure ?_ (c.L_refl _) ?_
    · intro _; show s.pos ≤ s.pos + 1 ∧ s.pos + 1 ≤ e.toks.size; omega
    · show s.pos + 1 ≤ s.pos + 1; omega
  · refine Safe.bind' (c.L_refl _) (getToken_safe c ctx s hp) ?_
    intro t s1 hpos hl hq
    refine Safe.bind_lineOffset ?_
    intro off
    refine Safe.bind_attempt hl (expectToken_safe c ctx 0 s1 (fun hpb => (hpos hpb).2)) ?_ ?_
    · intro tok s2 hpos2 hl2 hq2
      refine Safe.pure ?_ hl2 ?_
      · pb_omega
      · show s.pos + 2 ≤ s2.pos; omega
    · intro d s2 hpos2 hl2
      simp only [setTokenpos_bind]
      exact ⟨hp, hl2⟩
  · refine Safe.bind_attempt (c.L_refl _) (expectToken_safe c ctx 0 s hp) ?_ ?_
    · intro tok s1 hpos1 hl1 hq1
      refine Safe.bind_lineOffset ?_
      intro off
      refine Safe.pure hpos1 hl1 ?_
      show s.pos + 1 ≤ s1.pos; omega
    · intro d s1 hpos1 hl1
      refine Safe.bind_lineOffset ?_
      intro off
      simp only [setTokenpos_bind]
      exact Safe.pure (fun hpb => ⟨Nat.le_refl _, hp hpb⟩) hl1 trivial
theorem skipUnknownLoop_safe (c : Cfg e) (ctx : Ctx) (itemTag : List Char) (isB : Bool) (stop : List Nat)
    (lo : Nat) (lg : List Diag) : ∀ (fuel : Nat) (balance : Int) (s : PState),
    (c.PB → lo ≤ s.pos ∧ s.pos ≤ e.toks.size) → (c.PB → ¬ isB = true → (lo : Int) + balance ≤ s.pos) →
    c.L lg s.log →
    Safe c lo lg (skipUnknownLoop ctx itemTag isB stop balance fuel e s) (fun _ _ => True)
  | 0, _, _, _, _, _ => trivial
  | fuel + 1, balance, s, hp, hp2, hl => by
    rw [skipUnknownLoop]
    refine Safe.bind' hl (getToken_safe c ctx s (fun hpb => (hp hpb).2)) ?_
    intro t s1 hpos1 hl1 hq1
    obtain ⟨hq1, -⟩ := hq1
    have hp1' : c.PB → lo ≤ s1.pos ∧ s1.pos ≤ e.toks.size := by
      intro hpb; have := hp hpb; have := hpos1 hpb; omega
    generalize t.ty = ty
    split
    · refine skipUnknownLoop_safe c ctx itemTag isB stop lo lg fuel _ s1 hp1' ?_ hl1
      intro hpb hb; have := hp2 hpb hb; omega
    · split
      · rw [undo_eval]
        split
        · omega
        · refine ⟨?_, hl1, trivial⟩
          intro hpb; have := hp hpb; show lo ≤ s1.pos - 1 ∧ s1.pos - 1 ≤ e.toks.size; omega
      · refine skipUnknownLoop_safe c ctx itemTag isB stop lo lg fuel _ s1 hp1' ?_ hl1
        intro hpb hb; have := hp2 hpb hb; omega
    · split
      · split
        · split
          · exact Safe.pure hp1' hl1 trivial
          · exact Safe.fail (fun hpb => (hp1' hpb).2) hl1
        · refine skipUnknownLoop_safe c ctx itemTag isB stop lo lg fuel _ s1 hp1' ?_ hl1
          intro hpb hb; have := hp2 hpb hb; omega
      · rename_i hb
        split
        · rename_i hbal
          simp only [undo_bind]
          split
          · omega
          · split
            · rename_i hb1
              rw [undo_eval]
              dsimp only
              split
              · intro hnp
                have hpb := c.np_pb hnp
                have := hp2 hpb hb
                omega
              · refine ⟨?_, hl1, trivial⟩
                intro hpb; have := hp hpb; have := hp2 hpb hb
                show lo ≤ s1.pos - 1 - 1 ∧ s1.pos - 1 - 1 ≤ e.toks.size; omega
            · refine Safe.pure ?_ hl1 trivial
              intro hpb; have := hp hpb
              show lo ≤ s1.pos - 1 ∧ s1.pos - 1 ≤ e.toks.size; omega
        · refine skipUnknownLoop_safe c ctx itemTag isB stop lo lg fuel _ s1 hp1' ?_ hl1
          intro hpb hb; have := hp2 hpb hb; omega
    · split
      · exact Safe.fail (fun hpb => (hp1' hpb).2) hl1
      · refine skipUnknownLoop_safe c ctx itemTag isB stop lo lg fuel _ s1 hp1' ?_ hl1
        intro hpb hb; have := hp2 hpb hb; omega
theorem handleUnknown_safe (c : Cfg e) (ctx : Ctx) (itemTag : List Char) (isB : Bool) (stop : List Nat)
    (s : PState) (hp : c.Pre s) :
    Safe c s.pos s.log (handleUnknownTaggedstructTag ctx itemTag isB stop e s) (fun _ _ => True) := by
  unfold handleUnknownTaggedstructTag
  refine Safe.bind' (c.L_refl _) (errorOrLog_safe c _ s hp) ?_
  intro _ s1 hpos1 hl1 hq1
  refine Safe.bind' hl1 (getToken_safe c ctx s1 (fun hpb => (hpos1 hpb).2)) ?_
  intro t s2 hpos2 hl2 hq2
  obtain ⟨hq2, -⟩ := hq2
  simp only [undo_bind, getEnv_bind]
  split
  · omega
  · refine skipUnknownLoop_safe c ctx itemTag isB stop s.pos s.log _ _ _ ?_ ?_ hl2
    · intro hpb; have := hpos2 hpb
      show s.pos ≤ s2.pos - 1 ∧ s2.pos - 1 ≤ e.toks.size; omega
    · intro hpb hb
      show (s.pos : Int) + (if isB = true then 1 else 0) ≤ ((s2.pos - 1 : Nat) : Int)
      rw [if_neg hb]; omega
/-! ## the table -/

theorem lookup_mem {tbl : Table} {ty : Nat} {d : TyDef} (h : tbl.lookup ty = some d) : ∃ en ∈ tbl, en.def_ = d := by
  unfold Table.lookup at h
  cases hf : List.find? (fun e => e.name == ty) tbl with
  | none => rw [hf] at h; cases h
  | some en =>
    rw [hf] at h
    exact ⟨en, List.mem_of_find?_eq_some hf, by simpa using h⟩

theorem tableOk_block {tbl : Table} {k : Known} {ty : Nat} {isB : Bool} {items : List ItemTy} {arms : List Arm}
    {hT : Bool} (h : tableOk tbl k = true) (hl : tbl.lookup ty = some (.block isB items arms hT)) :
    items.all (itemOk tbl) = true ∧ arms.all (fun a => tyOk tbl a.ty) = true := by
  obtain ⟨en, hmem, hd⟩ := lookup_mem hl
  simp only [tableOk, Bool.and_eq_true] at h
  have := List.all_eq_true.1 h.1.1 en hmem
  rw [hd] at this
  simp only [Bool.and_eq_true] at this
  exact this

theorem itemOk_structRef {tbl : Table} {ty : Nat} (h : itemOk tbl (.structRef ty) = true) : tyOk tbl ty = true := by
  unfold itemOk at h
  unfold tyOk
  split at h
  · rename_i h1; rw [h1]
  · cases h

theorem itemOk_enumRef {tbl : Table} {ty : Nat} (h : itemOk tbl (.enumRef ty) = true) :
    ∃ items, tbl.lookup ty = some (.enum items) := by
  unfold itemOk at h
  split at h
  · rename_i items h1; exact ⟨items, h1⟩
  · cases h
/-! ## the mutual block -/

def T {α : Type} : α → PState → Prop := fun _ _ => True

structure AllSafe (c : Cfg e) (fuel : Nat) : Prop where
  item : ∀ ctx it s, (c.NP → itemOk e.table it = true) → c.Pre s →
    Safe c s.pos s.log (parseItem fuel ctx it e s) T
  arr : ∀ ctx of n s, (c.NP → itemOk e.table of = true) → c.Pre s →
    Safe c s.pos s.log (parseArr fuel ctx of n e s) T
  seq : ∀ ctx of stop acc s, (c.NP → itemOk e.table of = true) → c.Pre s →
    Safe c s.pos s.log (parseSeq fuel ctx of stop acc e s) T
  items : ∀ ctx its s, (c.NP → its.all (itemOk e.table) = true) → c.Pre s →
    Safe c s.pos s.log (parseItems fuel ctx its e s) T
  tagged : ∀ ctx arms pib ch cm s, (c.NP → arms.all (fun a => tyOk e.table a.ty) = true) → c.Pre s →
    Safe c s.pos s.log (parseTagged fuel ctx arms pib ch cm e s) T
  type : ∀ ty ctx off s, (c.NP → tyOk e.table ty = true) → c.Pre s →
    Safe c s.pos s.log (parseType fuel ty ctx off e s) T

theorem Safe.ite {α} {c : Cfg e} {lo : Nat} {lg : List Diag} {p : Prop} [Decidable p] {a b : PM α}
    {s : PState} {Q : α → PState → Prop}
    (h1 : p → Safe c lo lg (a e s) Q) (h2 : ¬ p → Safe c lo lg (b e s) Q) :
    Safe c lo lg ((if p then a else b) e s) Q := by
  split
  · exact h1 ‹_›
  · exact h2 ‹_›

theorem allSafe_zero (c : Cfg e) : AllSafe c 0 := by
  constructor
  · intro ctx it s _ _; rw [parseItem]; trivial
  · intro ctx of n s _ _; rw [parseArr]; trivial
  · intro ctx of stop acc s _ _; rw [parseSeq]; trivial
  · intro ctx its s _ _; rw [parseItems]; trivial
  · intro ctx arms pib ch cm s _ _; rw [parseTagged]; trivial
  · intro ty ctx off s _ _; rw [parseType]; trivial

/-- a scalar read followed by `get_line_offset` -/
theorem scalar_then_offset {α} (c : Cfg e) {m : PM α} {g : α → Nat → Val} {s : PState}
    (h : Safe c s.pos s.log (m e s) (fun _ s' => s.pos + 1 ≤ s'.pos)) :
    Safe c s.pos s.log ((m >>= fun v => getLineOffset >>= fun off => pure (g v off)) e s) T := by
  refine Safe.bind' (c.L_refl _) h ?_
  intro v s1 hpos hl _
  refine Safe.bind_lineOffset ?_
  intro off
  exact Safe.pure hpos hl trivial

theorem parseItem_step (c : Cfg e) {fuel : Nat} (ih : AllSafe c fuel) (ctx : Ctx) (it : ItemTy) (s : PState)
    (hit : c.NP → itemOk e.table it = true) (hp : c.Pre s) :
    Safe c s.pos s.log (parseItem (fuel + 1) ctx it e s) T := by
  cases it with
  | ident => rw [parseItem]; exact scalar_then_offset c (getIdentifier_safe c ctx s hp)
  | string => rw [parseItem]; exact scalar_then_offset c (getString_safe c ctx s hp)
  | double => rw [parseItem]; exact scalar_then_offset c (getDouble_safe c ctx s hp)
  | float => rw [parseItem]; exact scalar_then_offset c (getDouble_safe c ctx s hp)
  | int w =>
    rw [parseItem]
    refine Safe.bind' (c.L_refl _) (getInteger_safe c ctx w s hp) ?_
    intro ⟨v, hex⟩ s1 hpos hl _
    refine Safe.bind_lineOffset ?_
    intro off
    exact Safe.pure hpos hl trivial
  | strMax n =>
    rw [parseItem]
    refine Safe.bind' (c.L_refl _) (getStringMaxlen_safe c ctx n s hp) ?_
    intro v s1 hpos hl _
    exact Safe.pure hpos hl trivial
  | enumRef ty =>
    rw [parseItem]
    simp only [getEnv_bind]
    generalize hlk : e.table.lookup ty = o
    split
    · exact scalar_then_offset c (parseEnum_safe c _ ctx s hp)
    · rename_i hne
      intro hnp
      obtain ⟨items, h⟩ := itemOk_enumRef (hit hnp)
      exact hne items (hlk ▸ h)
  | structRef ty =>
    rw [parseItem]
    exact ih.type ty ctx 0 s (fun hnp => itemOk_structRef (hit hnp)) hp
  | arr of dim =>
    rw [parseItem]
    refine Safe.bind' (c.L_refl _) (ih.arr ctx of dim s hit hp) ?_
    intro v s1 hpos hl _
    exact Safe.pure hpos hl trivial
  | seq of stop =>
    rw [parseItem]
    refine Safe.bind' (c.L_refl _) (ih.seq ctx of stop [] s hit hp) ?_
    intro v s1 hpos hl _
    exact Safe.pure hpos hl trivial

theorem parseArr_step (c : Cfg e) {fuel : Nat} (ih : AllSafe c fuel) (ctx : Ctx) (of : ItemTy) (n : Nat) (s : PState)
    (hit : c.NP → itemOk e.table of = true) (hp : c.Pre s) :
    Safe c s.pos s.log (parseArr (fuel + 1) ctx of n e s) T := by
  cases n with
  | zero => rw [parseArr]; exact Safe.pure (fun hpb => ⟨Nat.le_refl _, hp hpb⟩) (c.L_refl _) trivial
  | succ n =>
    rw [parseArr]
    refine Safe.bind' (c.L_refl _) (ih.item ctx of s hit hp) ?_
    intro v s1 hpos hl _
    refine Safe.bind' hl (ih.arr ctx of n s1 hit (fun hpb => (hpos hpb).2)) ?_
    intro vs s2 hpos2 hl2 _
    refine Safe.pure ?_ hl2 trivial
    pb_omega

theorem parseItems_step (c : Cfg e) {fuel : Nat} (ih : AllSafe c fuel) (ctx : Ctx) (its : List ItemTy) (s : PState)
    (hit : c.NP → its.all (itemOk e.table) = true) (hp : c.Pre s) :
    Safe c s.pos s.log (parseItems (fuel + 1) ctx its e s) T := by
  cases its with
  | nil => rw [parseItems]; exact Safe.pure (fun hpb => ⟨Nat.le_refl _, hp hpb⟩) (c.L_refl _) trivial
  | cons it its =>
    rw [parseItems]
    have h1 : c.NP → itemOk e.table it = true := fun hnp => by
      have := hit hnp; simp only [List.all_cons, Bool.and_eq_true] at this; exact this.1
    have h2 : c.NP → its.all (itemOk e.table) = true := fun hnp => by
      have := hit hnp; simp only [List.all_cons, Bool.and_eq_true] at this; exact this.2
    refine Safe.bind' (c.L_refl _) (ih.item ctx it s h1 hp) ?_
    intro v s1 hpos hl _
    refine Safe.bind' hl (ih.items ctx its s1 h2 (fun hpb => (hpos hpb).2)) ?_
    intro vs s2 hpos2 hl2 _
    refine Safe.pure ?_ hl2 trivial
    pb_omega

theorem parseSeq_step (c : Cfg e) {fuel : Nat} (ih : AllSafe c fuel) (ctx : Ctx) (of : ItemTy) (stop : List Nat)
    (acc : List Val) (s : PState) (hit : c.NP → itemOk e.table of = true) (hp : c.Pre s) :
    Safe c s.pos s.log (parseSeq (fuel + 1) ctx of stop acc e s) T := by
  rw [parseSeq]
  simp only [getTokenpos_bind]
  refine Safe.bind_attempt (c.L_refl _) (ih.item ctx of s hit hp) ?_ ?_
  · intro v s1 hpos hl _
    simp only [getEnv_bind, getState_bind]
    refine Safe.ite ?_ ?_
    · intro _
      simp only [setTokenpos_bind]
      exact Safe.pure (fun hpb => ⟨Nat.le_refl _, hp hpb⟩) hl trivial
    · intro _
      exact Safe.weaken (fun hpb => (hpos hpb).1) hl (ih.seq ctx of stop (v :: acc) s1 hit (fun hpb => (hpos hpb).2))
        (fun _ _ h => h)
  · intro d s1 hpos hl
    simp only [setTokenpos_bind]
    exact Safe.pure (fun hpb => ⟨Nat.le_refl _, hp hpb⟩) hl trivial

theorem parseTagged_step (c : Cfg e) {fuel : Nat} (ih : AllSafe c fuel) (ctx : Ctx) (arms : List Arm) (pib : Bool)
    (ch : List (List Val)) (cm : List Cmt) (s : PState)
    (harms : c.NP → arms.all (fun a => tyOk e.table a.ty) = true) (hp : c.Pre s) :
    Safe c s.pos s.log (parseTagged (fuel + 1) ctx arms pib ch cm e s) T := by
  rw [parseTagged]
  refine Safe.bind' (c.L_refl _) (getNextTagOrComment_safe c ctx s hp) ?_
  intro bc s1 hpos hl hq
  cases bc with
  | comment tok off =>
    dsimp only
    refine Safe.ite ?_ ?_
    · intro _
      simp only [getNextId_bind]
      exact Safe.weaken (fun hpb => (hpos hpb).1) hl
        (ih.tagged ctx arms pib ch _ _ harms (fun hpb => (hpos hpb).2)) (fun _ _ h => h)
    · intro _
      exact Safe.weaken (fun hpb => (hpos hpb).1) hl
        (ih.tagged ctx arms pib ch _ _ harms (fun hpb => (hpos hpb).2)) (fun _ _ h => h)
  | none => dsimp only; exact Safe.pure hpos hl trivial
  | block tok isB off =>
    dsimp -zeta only
    generalize hfi : List.findIdx? (fun x => x.tag == tok.sym) arms = oi
    cases oi with
    | none =>
      dsimp -zeta only
      have hp1 : c.Pre s1 := fun hpb => (hpos hpb).2
      refine Safe.ite ?_ ?_
      · intro _
        refine Safe.bind' hl (handleUnknown_safe c ctx tok.text isB _ s1 hp1) ?_
        intro _ s2 hpos2 hl2 _
        exact Safe.weaken (fun hpb => by have := hpos hpb; have := hpos2 hpb; omega) hl2
          (ih.tagged ctx arms pib ch cm s2 harms (fun hpb => (hpos2 hpb).2)) (fun _ _ h => h)
      · intro _
        cases isB with
        | false =>
          simp only [NTQ, Bool.false_eq_true, if_false] at hq
          simp only [Bool.false_eq_true, if_false, undo_bind]
          split
          · omega
          · refine Safe.pure ?_ hl trivial
            intro hpb; have := hpos hpb
            show s.pos ≤ s1.pos - 1 ∧ s1.pos - 1 ≤ e.toks.size; omega
        | true =>
          simp only [NTQ, if_true] at hq
          simp only [if_true, undo_bind]
          split
          · omega
          · split
            · omega
            · refine Safe.pure ?_ hl trivial
              intro hpb; have := hpos hpb
              show s.pos ≤ s1.pos - 1 - 1 ∧ s1.pos - 1 - 1 ≤ e.toks.size; omega
    | some i =>
      dsimp -zeta only
      obtain ⟨hi, -, -⟩ := List.findIdx?_eq_some_iff_getElem.1 hfi
      rw [List.getElem?_eq_getElem hi]
      dsimp -zeta only
      have harm : c.NP → tyOk e.table arms[i].ty = true := fun hnp =>
        List.all_eq_true.1 (harms hnp) _ (List.getElem_mem hi)
      generalize arms[i] = arm at harm
      have hp1 : c.Pre s1 := fun hpb => (hpos hpb).2
      refine Safe.condF hp1 hl ?_
      refine Safe.condF hp1 hl ?_
      simp only [getState_bind]
      refine Safe.condE hp1 hl ?_
      intro s2 hpos2 hl2
      simp only [getState_bind]
      have hp2 : c.Pre s2 := fun hpb => by have := hp1 hpb; omega
      refine Safe.condW hp2 hl2 (.inl rfl) ?_
      intro s3 hpos3 hl3
      have hp3 : c.Pre s3 := fun hpb => by have := hp1 hpb; omega
      refine Safe.bind' hl3 (ih.type arm.ty _ off s3 harm hp3) ?_
      intro v s4 hpos4 hl4 _
      have hp4 : c.Pre s4 := fun hpb => (hpos4 hpb).2
      have hlo4 : c.PB → s.pos ≤ s4.pos := fun hpb => by have := hpos hpb; have := hpos4 hpb; omega
      refine Safe.ite ?_ ?_
      · intro _
        exact Safe.weaken hlo4 hl4 (ih.tagged ctx arms pib _ cm s4 harms hp4) (fun _ _ h => h)
      · intro _
        refine Safe.condE hp4 hl4 ?_
        intro s5 hpos5 hl5
        exact Safe.weaken (fun hpb => by have := hlo4 hpb; omega) hl5
          (ih.tagged ctx arms pib _ cm s5 harms (fun hpb => by have := hp4 hpb; omega)) (fun _ _ h => h)
theorem foldlM_safe {X : Type} (c : Cfg e) (F : Unit → X → PM Unit)
    (hF : ∀ u x s, c.Pre s → Safe c s.pos s.log (F u x e s) (fun _ s' => s'.pos = s.pos)) :
    ∀ (l : List X) (u : Unit) (s : PState), c.Pre s →
      Safe c s.pos s.log (List.foldlM F u l e s) (fun _ s' => s'.pos = s.pos)
  | [], u, s, hp => by
    rw [List.foldlM_nil]
    exact Safe.pure (fun hpb => ⟨Nat.le_refl _, hp hpb⟩) (c.L_refl _) rfl
  | x :: l, u, s, hp => by
    rw [List.foldlM_cons]
    refine Safe.bind' (c.L_refl _) (hF u x s hp) ?_
    intro u' s1 hpos hl hq
    refine Safe.weaken (fun hpb => (hpos hpb).1) hl (foldlM_safe c F hF l u' s1 (fun hpb => (hpos hpb).2)) ?_
    intro _ s2 h; omega

theorem Safe.ite_bind {α β} {c : Cfg e} {lo : Nat} {lg : List Diag} {p : Prop} [Decidable p] {a b : PM α}
    {f : α → PM β} {s : PState} {Q : β → PState → Prop}
    (h : Safe c lo lg (((if p then a else b) >>= f) e s) Q) :
    Safe c lo lg ((if p then a >>= f else b >>= f) e s) Q := by
  split
  · rename_i hp; rw [if_pos hp] at h; exact h
  · rename_i hp; rw [if_neg hp] at h; exact h

theorem parseType_step (c : Cfg e) {fuel : Nat} (ih : AllSafe c fuel) (ty : Nat) (ctx : Ctx) (off : Nat) (s : PState)
    (hty : c.NP → tyOk e.table ty = true) (hp : c.Pre s) :
    Safe c s.pos s.log (parseType (fuel + 1) ty ctx off e s) T := by
  rw [parseType]
  simp only [getEnv_bind]
  generalize hlk : e.table.lookup ty = o
  split
  · rename_i isB items arms hT
    simp -zeta only [getNextId_bind]
    obtain ⟨hitems, harms⟩ : (c.NP → items.all (itemOk e.table) = true) ∧
        (c.NP → arms.all (fun a => tyOk e.table a.ty) = true) :=
      ⟨fun hnp => (tableOk_block (c.tbl hnp) hlk).1, fun hnp => (tableOk_block (c.tbl hnp) hlk).2⟩
    refine Safe.bind' (s := { s with seqId := s.seqId + 1 }) (c.L_refl _) (ih.items ctx items _ hitems hp) ?_
    intro fields s1 hpos1 hl1 _
    refine Safe.ite_bind ?_
    refine Safe.bind' (Q1 := T) hl1 ?_ ?_
    · refine Safe.ite ?_ ?_
      · intro _; exact ih.tagged ctx arms isB _ _ s1 harms (fun hpb => (hpos1 hpb).2)
      · intro _; exact Safe.pure (fun hpb => ⟨Nat.le_refl _, (hpos1 hpb).2⟩) (c.L_refl _) trivial
    · intro x s2 hpos2 hl2 _
      replace hpos1 : c.PB → s.pos ≤ s1.pos ∧ s1.pos ≤ e.toks.size := hpos1
      refine Safe.bind' hl2 (foldlM_safe c _ ?_ _ _ s2 (fun hpb => (hpos2 hpb).2)) ?_
      · intro u ac s' hp'
        refine Safe.ite ?_ ?_
        · intro _
          refine Safe.ite ?_ ?_
          · intro _; exact errorOrLog_safe c _ s' hp'
          · intro _; exact ⟨hp', c.L_refl _⟩
        · intro _; exact Safe.pure (fun hpb => ⟨Nat.le_refl _, hp' hpb⟩) (c.L_refl _) rfl
      · intro _ s3 hpos3 hl3 hq3
        have hlo3 : c.PB → s.pos ≤ s3.pos ∧ s3.pos ≤ e.toks.size := fun hpb => by
          have := hpos1 hpb; have := hpos2 hpb; have := hpos3 hpb; omega
        refine Safe.ite ?_ ?_
        · intro _
          refine Safe.bind' hl3 (expectToken_safe c ctx 2 s3 (fun hpb => (hlo3 hpb).2)) ?_
          intro _ s4 hpos4 hl4 _
          refine Safe.bind_lineOffset ?_
          intro endOff
          refine Safe.bind' hl4 (getIdentifier_safe c ctx s4 (fun hpb => (hpos4 hpb).2)) ?_
          intro ident s5 hpos5 hl5 _
          refine Safe.condE (fun hpb => (hpos5 hpb).2) hl5 ?_
          intro s6 hpos6 hl6
          refine Safe.pure ?_ hl6 trivial
          intro hpb; have := hlo3 hpb; have := hpos4 hpb; have := hpos5 hpb; omega
        · intro _
          exact Safe.pure hlo3 hl3 trivial
  · exact c.special ty ctx off s hp
  · rename_i h1 h2
    intro hnp
    have := hty hnp
    unfold tyOk at this
    rw [hlk] at this
    split at this
    · exact h1 _ _ _ _ rfl
    · exact h2 rfl
    · cases this
theorem allSafe (c : Cfg e) : ∀ fuel, AllSafe c fuel
  | 0 => allSafe_zero c
  | fuel + 1 =>
    have ih := allSafe c fuel
    ⟨parseItem_step c ih, parseArr_step c ih, parseSeq_step c ih, parseItems_step c ih, parseTagged_step c ih,
     parseType_step c ih⟩

/-! ## the three instances -/

/-- the log of the result extends the log at the start -/
def LExt (a b : List Diag) : Prop := ∃ l, b = l ++ a

/-- ... by deprecation warnings only -/
def LDep (a b : List Diag) : Prop :=
  ∃ l, b = l ++ a ∧ ∀ d ∈ l, d.kind = .blockRefDeprecated ∨ d.kind = .enumRefDeprecated

theorem LExt.refl (l : List Diag) : LExt l l := ⟨[], rfl⟩
theorem LExt.trans {a b c : List Diag} : LExt a b → LExt b c → LExt a c := by
  rintro ⟨l1, rfl⟩ ⟨l2, rfl⟩; exact ⟨l2 ++ l1, by simp⟩
theorem LDep.refl (l : List Diag) : LDep l l := ⟨[], rfl, by simp⟩
theorem LDep.trans {a b c : List Diag} : LDep a b → LDep b c → LDep a c := by
  rintro ⟨l1, rfl, h1⟩ ⟨l2, rfl, h2⟩
  refine ⟨l2 ++ l1, by simp, ?_⟩
  intro d hd
  rcases List.mem_append.1 hd with h | h
  · exact h2 d h
  · exact h1 d h

/-- everything is tracked: cursor range, log, no panic -/
def cfgFull (e : Env) (hk : TokOk e.toks) (hne : 0 < e.toks.size) (ht : tableOk e.table e.known = true)
    (hsp : SpecialOk e) : Cfg e where
  PB := True
  NP := True
  L := LExt
  np_pb := id
  tok := fun _ => hk
  ne := fun _ => hne
  tbl := fun _ => ht
  L_refl := LExt.refl
  L_trans := LExt.trans
  L_log := fun d l _ => ⟨[d], rfl⟩
  special := by
    intro ty ctx off s hs
    obtain ⟨h1, h2, h3⟩ := hsp ty ctx off s (hs trivial)
    unfold SafeRaw
    split
    · rename_i a s' heq
      obtain ⟨h, h', h''⟩ := h2 _ _ heq
      exact ⟨fun _ => ⟨h, h'⟩, h'', trivial⟩
    · rename_i d s' heq
      obtain ⟨h, h'⟩ := h3 _ _ heq
      exact ⟨fun _ => h, h'⟩
    · rename_i heq; exact fun _ => h1 heq
    · trivial

/-- cursor range and log, panics allowed (no assumption on tokens or table) -/
def cfgPos (e : Env) (hsp : SpecialOk e) : Cfg e where
  PB := True
  NP := False
  L := LExt
  np_pb := fun h => h.elim
  tok := fun h => h.elim
  ne := fun h => h.elim
  tbl := fun h => h.elim
  L_refl := LExt.refl
  L_trans := LExt.trans
  L_log := fun d l _ => ⟨[d], rfl⟩
  special := by
    intro ty ctx off s hs
    obtain ⟨h1, h2, h3⟩ := hsp ty ctx off s (hs trivial)
    unfold SafeRaw
    split
    · rename_i a s' heq
      obtain ⟨h, h', h''⟩ := h2 _ _ heq
      exact ⟨fun _ => ⟨h, h'⟩, h'', trivial⟩
    · rename_i d s' heq
      obtain ⟨h, h'⟩ := h3 _ _ heq
      exact ⟨fun _ => h, h'⟩
    · exact fun h => h
    · trivial

/-- strict mode, the log only -/
def cfgStrict (e : Env) (hstrict : e.strict = true)
    (hsp : ∀ ty ctx off s,
      (∀ v s', e.special ty ctx off e.toks e.strict s = .ok v s' → LDep s.log s'.log) ∧
      (∀ d s', e.special ty ctx off e.toks e.strict s = .err d s' → LDep s.log s'.log)) : Cfg e where
  PB := False
  NP := False
  L := LDep
  np_pb := fun h => h.elim
  tok := fun h => h.elim
  ne := fun h => h.elim
  tbl := fun h => h.elim
  L_refl := LDep.refl
  L_trans := LDep.trans
  L_log := by
    intro d l h
    refine ⟨[d], rfl, ?_⟩
    intro d' hd'
    rw [List.mem_singleton] at hd'
    subst hd'
    rcases h with h | h
    · rw [hstrict] at h; cases h
    · exact h
  special := by
    intro ty ctx off s hs
    obtain ⟨h2, h3⟩ := hsp ty ctx off s
    unfold SafeRaw
    split
    · rename_i a s' heq
      exact ⟨fun h => h.elim, h2 _ _ heq, trivial⟩
    · rename_i d s' heq
      exact ⟨fun h => h.elim, h3 _ _ heq⟩
    · exact fun h => h
    · trivial

/-! ## the shape of a parsed `ASAP2_VERSION` -/

theorem bind_eq_ok {α β} {m : PM α} {f : α → PM β} {e : Env} {s : PState} {v : β} {s' : PState}
    (h : (m >>= f) e s = .ok v s') : ∃ a s1, m e s = .ok a s1 ∧ f a e s1 = .ok v s' := by
  rw [bind_eq] at h
  cases hm : m e s with
  | ok a s1 => rw [hm] at h; exact ⟨a, s1, rfl, h⟩
  | err d s1 => rw [hm] at h; cases h
  | panic => rw [hm] at h; cases h
  | fuel => rw [hm] at h; cases h

theorem pure_eq_ok {α} {a v : α} {e : Env} {s s' : PState} (h : (Pure.pure a : PM α) e s = .ok v s') : v = a := by
  cases h; rfl

theorem parseItem_int_shape {fuel : Nat} {ctx : Ctx} {w : Nat} {e : Env} {s : PState} {v : Val} {s' : PState}
    (h : parseItem fuel ctx (.int w) e s = .ok v s') : ∃ x hx o, v = .int x hx o w := by
  cases fuel with
  | zero => rw [parseItem] at h; cases h
  | succ fuel =>
    rw [parseItem] at h
    obtain ⟨⟨x, hx⟩, s1, _, h⟩ := bind_eq_ok h
    obtain ⟨o, s2, _, h⟩ := bind_eq_ok h
    exact ⟨x, hx, o, pure_eq_ok h⟩

theorem parseItems_two_int_shape {fuel : Nat} {ctx : Ctx} {a b : Nat} {e : Env} {s : PState} {vs : List Val}
    {s' : PState} (h : parseItems fuel ctx [.int a, .int b] e s = .ok vs s') :
    ∃ x hx ox y hy oy, vs = [.int x hx ox a, .int y hy oy b] := by
  cases fuel with
  | zero => rw [parseItems] at h; cases h
  | succ fuel =>
    rw [parseItems] at h
    obtain ⟨v1, s1, h1, h⟩ := bind_eq_ok h
    obtain ⟨vs1, s2, h2, h⟩ := bind_eq_ok h
    obtain ⟨x, hx, ox, rfl⟩ := parseItem_int_shape h1
    cases fuel with
    | zero => rw [parseItems] at h2; cases h2
    | succ fuel =>
      rw [parseItems] at h2
      obtain ⟨v2, s3, h3, h2⟩ := bind_eq_ok h2
      obtain ⟨vs2, s4, h4, h2⟩ := bind_eq_ok h2
      obtain ⟨y, hy, oy, rfl⟩ := parseItem_int_shape h3
      cases fuel with
      | zero => rw [parseItems] at h4; cases h4
      | succ fuel =>
        rw [parseItems] at h4
        have := pure_eq_ok h4
        subst this
        have := pure_eq_ok h2
        subst this
        exact ⟨x, hx, ox, y, hy, oy, pure_eq_ok h⟩

theorem parseType_version_shape {fuel ty : Nat} {ctx : Ctx} {off : Nat} {e : Env} {s : PState} {v : Val} {s' : PState}
    {a b : Nat} (hlk : e.table.lookup ty = some (.block false [.int a, .int b] [] false))
    (h : parseType fuel ty ctx off e s = .ok v s') :
    ∃ info x hx ox y hy oy c1 c2, v = .block ty info [.int x hx ox a, .int y hy oy b] c1 c2 := by
  cases fuel with
  | zero => rw [parseType] at h; cases h
  | succ fuel =>
    rw [parseType] at h
    simp only [getEnv_bind, hlk, getNextId_bind] at h
    obtain ⟨fields, s1, h1, h⟩ := bind_eq_ok h
    obtain ⟨x, hx, ox, y, hy, oy, rfl⟩ := parseItems_two_int_shape h1
    simp only [Bool.false_eq_true, if_false, pure_bind_eval, List.zip_nil_left, List.foldlM_nil] at h
    exact ⟨_, x, hx, ox, y, hy, oy, _, _, pure_eq_ok h⟩
/-! ## `parse_version`, `parse_file` -/

theorem tableOk_a2lfile {tbl : Table} {k : Known} (h : tableOk tbl k = true) : tyOk tbl k.tyA2lFile = true := by
  simp only [tableOk, Bool.and_eq_true] at h
  have := h.1.2
  unfold tyOk
  split at this
  · rename_i h1; rw [h1]
  · cases this

theorem tableOk_version {tbl : Table} {k : Known} (h : tableOk tbl k = true) :
    ∃ a b, tbl.lookup k.tyAsap2Version = some (.block false [.int a, .int b] [] false) := by
  simp only [tableOk, Bool.and_eq_true] at h
  have := h.2
  split at this
  · rename_i a b h1; exact ⟨a, b, h1⟩
  · cases this

theorem Safe.and_of_eq {α} {c : Cfg e} {lo : Nat} {lg : List Diag} {r : PRes α} {Q Q2 : α → PState → Prop}
    (h : Safe c lo lg r Q) (h2 : ∀ a s', r = .ok a s' → Q2 a s') :
    Safe c lo lg r (fun a s' => Q a s' ∧ Q2 a s') := by
  cases r with
  | ok a s' => exact ⟨h.1, h.2.1, h.2.2, h2 a s' rfl⟩
  | err d s' => exact h
  | panic => exact h
  | fuel => trivial

theorem resetTail_safe (c : Cfg e) (k : DK) (n : Nat) (s1 : PState) (lg : List Diag) (hl : c.L lg s1.log) :
    Safe c 0 lg ((setTokenpos 0 >>= fun _ => errorOrLogNoLine k >>= fun _ => Pure.pure n) e s1) T := by
  simp only [setTokenpos_bind]
  refine Safe.bind' hl (errorOrLogNoLine_safe c k _ (fun _ => Nat.zero_le _)) ?_
  intro _ s2 hpos2 hl2 hq2
  refine Safe.pure ?_ hl2 trivial
  intro hpb; have := hpos2 hpb; omega

theorem parseVersion_safe (c : Cfg e) (fuel : Nat) (ctx : Ctx) (s : PState) (hp : c.Pre s) :
    Safe c 0 s.log (parseVersion fuel ctx e s) T := by
  unfold parseVersion
  simp only [getEnv_bind, peekToken_bind]
  generalize e.toks[s.pos]? = o
  cases o with
  | none =>
    dsimp -zeta only
    exact resetTail_safe c _ _ s _ (c.L_refl _)
  | some token =>
    dsimp -zeta only
    refine Safe.bind_attempt (c.L_refl _) (getIdentifier_safe c ctx s hp) ?_ ?_
    · intro name s1 hpos1 hl1 _
      simp only [getState_bind]
      refine Safe.ite ?_ ?_
      · intro _
        have hp1 : c.Pre s1 := fun hpb => (hpos1 hpb).2
        have hty : c.NP → tyOk e.table e.known.tyAsap2Version = true := fun hnp => by
          obtain ⟨a, b, h⟩ := tableOk_version (c.tbl hnp)
          unfold tyOk; rw [h]
        refine Safe.bind_attempt hl1
          (Safe.and_of_eq ((allSafe c fuel).type e.known.tyAsap2Version _ 0 s1 hty hp1)
            (Q2 := fun v _ => c.NP → ∃ info x hx ox wa y hy oy wb c1 c2,
              v = .block e.known.tyAsap2Version info [.int x hx ox wa, .int y hy oy wb] c1 c2) ?_) ?_ ?_
        · intro v s2 heq hnp
          obtain ⟨a, b, h⟩ := tableOk_version (c.tbl hnp)
          obtain ⟨info, x, hx, ox, y, hy, oy, c1, c2, hv⟩ := parseType_version_shape h heq
          exact ⟨info, x, hx, ox, a, y, hy, oy, b, c1, c2, hv⟩
        · intro v s2 hpos2 hl2 hq
          simp only [setTokenpos_bind]
          generalize hr : (Except.ok v : Except Diag Val) = r
          split
          · rename_i major _ _ _ minor _ _ _ _ _
            generalize versionOf major minor = ov
            cases ov with
            | some n => exact Safe.pure (fun _ => ⟨Nat.zero_le _, Nat.zero_le _⟩) hl2 trivial
            | none =>
              dsimp only
              refine Safe.bind' hl2 (errorOrLogNoLine_safe c _ _ (fun _ => Nat.zero_le _)) ?_
              intro _ s3 hpos3 hl3 hq3
              refine Safe.pure ?_ hl3 trivial
              intro hpb; have := hpos3 hpb; omega
          · rename_i hne
            intro hnp
            obtain ⟨info, x, hx, ox, wa, y, hy, oy, wb, c1, c2, hv⟩ := hq.2 hnp
            subst hv
            exact hne _ _ _ _ _ _ _ _ _ _ _ _ (Except.ok.inj hr.symm)
          · cases hr
        · intro d s2 hpos2 hl2
          simp only [setTokenpos_bind]
          refine Safe.bind' hl2 (errorOrLogNoLine_safe c _ _ (fun _ => Nat.zero_le _)) ?_
          intro _ s3 hpos3 hl3 hq3
          refine Safe.pure ?_ hl3 trivial
          intro hpb; have := hpos3 hpb; omega
      · intro _
        exact resetTail_safe c _ _ s1 _ hl1
    · intro d s1 hpos1 hl1
      simp only [getState_bind]
      rw [if_neg (by simp)]
      exact resetTail_safe c _ _ s1 _ hl1

theorem parseFile_safe (c : Cfg e) (fuel : Nat) (s : PState) (hp : c.Pre s) :
    Safe c 0 s.log (parseFile fuel e s) T := by
  unfold parseFile
  simp only [getEnv_bind]
  refine Safe.bindG (lo1 := 0) (parseVersion_safe c fuel _ s hp) ?_
  intro ver s1 hpos1 hl1 _
  simp only [modifyState_bind]
  refine Safe.bind' (s := { s1 with ver := ver }) hl1
    ((allSafe c fuel).type e.known.tyA2lFile _ 0 _ (fun hnp => tableOk_a2lfile (c.tbl hnp))
      (fun hpb => (hpos1 hpb).2)) ?_
  intro file s2 hpos2 hl2 _
  simp only [peekToken_bind]
  generalize e.toks[s2.pos]? = o
  cases o with
  | none =>
    dsimp only
    exact Safe.pure (fun hpb => ⟨Nat.zero_le _, (hpos2 hpb).2⟩) hl2 trivial
  | some t =>
    dsimp only
    refine Safe.bind' hl2 (errorOrLog_safe c _ s2 (fun hpb => (hpos2 hpb).2)) ?_
    intro _ s3 hpos3 hl3 _
    exact Safe.pure (fun hpb => ⟨Nat.zero_le _, (hpos3 hpb).2⟩) hl3 trivial

end A2l.Tree
