import A2lVerif.Model.Merge
/-! Lemmas about the merge model (`A2l.Mg`): fresh names, the `A' ++ new` shape, names per namespace, the fixpoint loop of
    the plan step, the invariant that tracks B's nodes through the renames, and the special cases (B empty, B = A, A empty). -/
namespace A2l.Mg

/-! ### fresh names (`make_unique_name`) -/

theorem mergeName_toList (c : String) (k : Nat) :
    (mergeName c k).toList = c.toList ++ ".MERGE".toList ++ (if k ≤ 1 then [] else Nat.toDigits 10 k) := by
  unfold mergeName
  split <;> simp [String.toList_append]

theorem toDigits_inj {a b : Nat} (h : Nat.toDigits 10 a = Nat.toDigits 10 b) : a = b := by
  have := congrArg (fun l => Nat.ofDigitChars 10 l 0) h
  simpa using this

/-- the candidates `x.MERGE, x.MERGE2, x.MERGE3, …` are pairwise different -/
theorem mergeName_inj {c : String} {i j : Nat} (hi : 1 ≤ i) (hj : 1 ≤ j)
    (h : mergeName c i = mergeName c j) : i = j := by
  have h' := congrArg String.toList h
  rw [mergeName_toList, mergeName_toList] at h'
  have h'' := List.append_cancel_left h'
  by_cases h1 : i ≤ 1
  · by_cases h2 : j ≤ 1
    · omega
    · simp [h1, h2] at h''
  · by_cases h2 : j ≤ 1
    · simp [h1, h2] at h''
    · simp [h1, h2] at h''
      exact toDigits_inj h''

/-- pigeonhole: a duplicate-free list inside `s` is not longer than `s` -/
theorem nodup_subset_length {α} [DecidableEq α] : ∀ (l s : List α), l.Nodup → (∀ x ∈ l, x ∈ s) → l.length ≤ s.length
  | [], _, _, _ => Nat.zero_le _
  | x :: l, s, hn, hs => by
    have hx : x ∈ s := hs x (List.mem_cons_self ..)
    have hn' := List.nodup_cons.mp hn
    have ih := nodup_subset_length l (s.erase x) hn'.2 (fun y hy => by
      have : y ≠ x := fun e => hn'.1 (e ▸ hy)
      exact (List.mem_erase_of_ne this).mpr (hs y (List.mem_cons_of_mem _ hy)))
    rw [List.length_erase_of_mem hx] at ih
    have : 0 < s.length := List.length_pos_of_mem hx
    simp only [List.length_cons]; omega

/-- the candidates number `lo, …, lo+n-1` -/
def candidates (c : String) (lo : Nat) : Nat → List String
  | 0 => []
  | n + 1 => mergeName c lo :: candidates c (lo + 1) n

theorem length_candidates (c : String) : ∀ (n lo : Nat), (candidates c lo n).length = n
  | 0, _ => rfl
  | n + 1, lo => by simp [candidates, length_candidates c n]

theorem mem_candidates {c : String} {s : String} : ∀ {n lo : Nat}, s ∈ candidates c lo n ↔ ∃ k, lo ≤ k ∧ k < lo + n ∧ s = mergeName c k
  | 0, lo => by simp [candidates]; intro k h1 h2; omega
  | n + 1, lo => by
    simp only [candidates, List.mem_cons, mem_candidates (n := n)]
    constructor
    · rintro (h | ⟨k, h1, h2, h3⟩)
      · exact ⟨lo, Nat.le_refl _, by omega, h⟩
      · exact ⟨k, by omega, by omega, h3⟩
    · rintro ⟨k, h1, h2, h3⟩
      by_cases hk : k = lo
      · exact .inl (hk ▸ h3)
      · exact .inr ⟨k, by omega, by omega, h3⟩

theorem nodup_candidates (c : String) : ∀ (n lo : Nat), 1 ≤ lo → (candidates c lo n).Nodup
  | 0, _, _ => List.nodup_nil
  | n + 1, lo, h => by
    simp only [candidates, List.nodup_cons]
    refine ⟨?_, nodup_candidates c n (lo + 1) (by omega)⟩
    intro hm
    obtain ⟨k, h1, _, h3⟩ := mem_candidates.mp hm
    have := mergeName_inj h (by omega) h3
    omega

/-- the search: as long as all candidates below `idx` are taken and the fuel still exceeds what the
    pigeonhole principle allows, the loop stops at a free candidate, having tested only taken ones before -/
theorem uniqueLoop_spec (taken : String → Bool) (c : String) (names : List String)
    (hnames : ∀ s, taken s = true → s ∈ names) :
    ∀ (fuel idx : Nat), 1 ≤ idx → (∀ k, 1 ≤ k → k < idx → taken (mergeName c k) = true) →
      names.length + 1 ≤ idx - 1 + fuel →
      ∃ k, idx ≤ k ∧ k ≤ names.length + 1 ∧ uniqueLoop taken c fuel idx = mergeName c k ∧
        taken (mergeName c k) = false ∧ ∀ j, 1 ≤ j → j < k → taken (mergeName c j) = true
  | 0, idx, h1, hall, hf => by
    exfalso
    have hsub : ∀ x ∈ candidates c 1 (idx - 1), x ∈ names := by
      intro x hx
      obtain ⟨k, hk1, hk2, rfl⟩ := mem_candidates.mp hx
      exact hnames _ (hall k hk1 (by omega))
    have := nodup_subset_length _ _ (nodup_candidates c (idx - 1) 1 (Nat.le_refl _)) hsub
    rw [length_candidates] at this
    omega
  | fuel + 1, idx, h1, hall, hf => by
    unfold uniqueLoop
    by_cases ht : taken (mergeName c idx) = true
    · rw [if_pos ht]
      have hall' : ∀ k, 1 ≤ k → k < idx + 1 → taken (mergeName c k) = true := by
        intro k hk1 hk2
        by_cases hk : k = idx
        · exact hk ▸ ht
        · exact hall k hk1 (by omega)
      obtain ⟨k, hk1, hk2, hk3, hk4, hk5⟩ := uniqueLoop_spec taken c names hnames fuel (idx + 1) (by omega) hall' (by omega)
      exact ⟨k, by omega, hk2, hk3, hk4, hk5⟩
    · rw [if_neg ht]
      have hle : idx ≤ names.length + 1 := by
        have hsub : ∀ x ∈ candidates c 1 (idx - 1), x ∈ names := by
          intro x hx
          obtain ⟨k, hk1, hk2, rfl⟩ := mem_candidates.mp hx
          exact hnames _ (hall k hk1 (by omega))
        have := nodup_subset_length _ _ (nodup_candidates c (idx - 1) 1 (Nat.le_refl _)) hsub
        rw [length_candidates] at this
        omega
      exact ⟨idx, Nat.le_refl _, hle, rfl, by simpa using ht, hall⟩

theorem lookup_isSome_mem {l : List Node} {s : String} (h : (lookup l s).isSome = true) : s ∈ l.map (·.name) := by
  unfold lookup at h
  obtain ⟨x, hx⟩ := Option.isSome_iff_exists.mp h
  have h1 := List.mem_of_find?_eq_some hx
  have h2 := List.find?_some hx
  simp only [beq_iff_eq] at h2
  exact List.mem_map.mpr ⟨x, h1, h2⟩

theorem mem_lookup_isSome {l : List Node} {s : String} (h : s ∈ l.map (·.name)) : (lookup l s).isSome = true := by
  obtain ⟨x, hx, rfl⟩ := List.mem_map.mp h
  unfold lookup
  rw [List.find?_isSome]
  exact ⟨x, hx, by simp⟩

theorem nameTaken_iff {orig merge : List Node} {s : String} :
    nameTaken orig merge s = true ↔ s ∈ merge.map (·.name) ∨ s ∈ orig.map (·.name) := by
  unfold nameTaken
  rw [Bool.or_eq_true]
  constructor
  · rintro (h | h)
    · exact .inl (lookup_isSome_mem h)
    · exact .inr (lookup_isSome_mem h)
  · rintro (h | h)
    · exact .inl (mem_lookup_isSome h)
    · exact .inr (mem_lookup_isSome h)

/-- `make_unique_name` with the fuel `|orig| + |merge| + 2`: the result is candidate number `k ≤ |orig|+|merge|+1`,
    it is free, and all earlier candidates are taken (so the loop made exactly `k` probes and never ran out of fuel). -/
theorem makeUniqueName_spec (c : String) (orig merge : List Node) :
    ∃ k, 1 ≤ k ∧ k ≤ orig.length + merge.length + 1 ∧ makeUniqueName c orig merge = mergeName c k ∧
      nameTaken orig merge (mergeName c k) = false ∧ ∀ j, 1 ≤ j → j < k → nameTaken orig merge (mergeName c j) = true := by
  have hnames : ∀ s, nameTaken orig merge s = true → s ∈ merge.map (·.name) ++ orig.map (·.name) := by
    intro s hs; exact List.mem_append.mpr (nameTaken_iff.mp hs)
  have := uniqueLoop_spec (nameTaken orig merge) c _ hnames (orig.length + merge.length + 2) 1 (Nat.le_refl _)
    (fun k h1 h2 => by omega) (by simp; omega)
  obtain ⟨k, h1, h2, h3, h4, h5⟩ := this
  refine ⟨k, h1, ?_, h3, h4, h5⟩
  simp at h2; omega

/-- any larger fuel gives the same name: the fuel is never the reason for stopping -/
theorem uniqueLoop_fuel_irrelevant (taken : String → Bool) (c : String) :
    ∀ (f1 f2 idx k : Nat), idx ≤ k → k < idx + f1 → k < idx + f2 → taken (mergeName c k) = false →
      uniqueLoop taken c f1 idx = uniqueLoop taken c f2 idx
  | 0, _, idx, k, h1, h2, _, _ => by omega
  | _ + 1, 0, idx, k, h1, _, h3, _ => by omega
  | f1 + 1, f2 + 1, idx, k, h1, h2, h3, h4 => by
    unfold uniqueLoop
    by_cases ht : taken (mergeName c idx) = true
    · rw [if_pos ht, if_pos ht]
      have : idx ≠ k := fun e => by rw [e, h4] at ht; exact Bool.noConfusion ht
      exact uniqueLoop_fuel_irrelevant taken c f1 f2 (idx + 1) k (by omega) (by omega) (by omega) h4
    · rw [if_neg ht, if_neg ht]

theorem makeUniqueName_not_mem (c : String) (orig merge : List Node) :
    makeUniqueName c orig merge ∉ orig.map (·.name) ∧ makeUniqueName c orig merge ∉ merge.map (·.name) := by
  obtain ⟨k, _, _, h3, h4, _⟩ := makeUniqueName_spec c orig merge
  rw [h3]
  have := fun h => (Bool.eq_false_iff.mp h4) (nameTaken_iff.mpr h)
  exact ⟨fun h => this (.inr h), fun h => this (.inl h)⟩

theorem dot_split {c : Char} : ∀ (l1 l2 r1 r2 : List Char), c ∉ r1 → c ∉ r2 → l1 ++ c :: r1 = l2 ++ c :: r2 → l1 = l2
  | [], [], _, _, _, _, _ => rfl
  | [], y :: l2, r1, r2, h1, _, h => by
    simp only [List.nil_append, List.cons_append, List.cons.injEq] at h
    exact absurd (h.2 ▸ List.mem_append_right _ (List.mem_cons_self ..)) h1
  | x :: l1, [], r1, r2, _, h2, h => by
    simp only [List.nil_append, List.cons_append, List.cons.injEq] at h
    exact absurd (h.2 ▸ List.mem_append_right _ (List.mem_cons_self ..)) h2
  | x :: l1, y :: l2, r1, r2, h1, h2, h => by
    simp only [List.cons_append, List.cons.injEq] at h
    rw [h.1, dot_split l1 l2 r1 r2 h1 h2 h.2]

theorem dot_not_mem_tail (k : Nat) : '.' ∉ "MERGE".toList ++ (if k ≤ 1 then [] else Nat.toDigits 10 k) := by
  intro h
  rcases List.mem_append.mp h with h | h
  · simp at h
  · split at h
    · simp at h
    · have := Nat.isDigit_of_mem_toDigits (by decide) (by decide) h
      simp [Char.isDigit] at this

/-- different base names never produce the same candidate -/
theorem mergeName_base_inj {c1 c2 : String} {i j : Nat} (h : mergeName c1 i = mergeName c2 j) : c1 = c2 := by
  have h' := congrArg String.toList h
  rw [mergeName_toList, mergeName_toList] at h'
  have e : ".MERGE".toList = '.' :: "MERGE".toList := by decide
  rw [e] at h'
  simp only [List.append_assoc, List.cons_append] at h'
  exact String.toList_inj.mp (dot_split _ _ _ _ (dot_not_mem_tail i) (dot_not_mem_tail j) h')

/-! ### the shape `A' ++ new` (C08 `a_preserved`) -/

/-- two lists related element by element -/
inductive Pointwise {α β} (R : α → β → Prop) : List α → List β → Prop where
  | nil : Pointwise R [] []
  | cons {a b l₁ l₂} : R a b → Pointwise R l₁ l₂ → Pointwise R (a :: l₁) (b :: l₂)

theorem Pointwise.refl {α} {R : α → α → Prop} (h : ∀ a, R a a) : ∀ l, Pointwise R l l
  | [] => .nil
  | a :: l => .cons (h a) (Pointwise.refl h l)

theorem Pointwise.length_eq {α β} {R : α → β → Prop} {l₁ l₂} (h : Pointwise R l₁ l₂) : l₁.length = l₂.length := by
  induction h with
  | nil => rfl
  | cons _ _ ih => simp [ih]

theorem Pointwise.trans {α} {R : α → α → Prop} (ht : ∀ a b c, R a b → R b c → R a c) :
    ∀ {l₁ l₂ l₃}, Pointwise R l₁ l₂ → Pointwise R l₂ l₃ → Pointwise R l₁ l₃ := by
  intro l₁ l₂ l₃ h₁
  induction h₁ generalizing l₃ with
  | nil => intro h₂; cases h₂; exact .nil
  | cons hab _ ih => intro h₂; cases h₂ with | cons hbc h₂' => exact .cons (ht _ _ _ hab hbc) (ih h₂')

theorem Pointwise.append_left {α β} {R : α → β → Prop} : ∀ {l₁ l₂ : List α} {m : List β}, Pointwise R (l₁ ++ l₂) m →
    ∃ m₁ m₂, m = m₁ ++ m₂ ∧ Pointwise R l₁ m₁ ∧ Pointwise R l₂ m₂
  | [], l₂, m, h => ⟨[], m, rfl, .nil, h⟩
  | a :: l₁, l₂, m, h => by
    cases h with
    | cons hab h' =>
      obtain ⟨m₁, m₂, e, h₁, h₂⟩ := Pointwise.append_left h'
      exact ⟨_ :: m₁, m₂, by rw [e]; rfl, .cons hab h₁, h₂⟩

theorem Pointwise.mem_left {α β} {R : α → β → Prop} {l₁ l₂} (h : Pointwise R l₁ l₂) {a} (ha : a ∈ l₁) : ∃ b ∈ l₂, R a b := by
  induction h with
  | nil => cases ha
  | cons hab _ ih =>
    rcases List.mem_cons.mp ha with rfl | ha
    · exact ⟨_, List.mem_cons_self .., hab⟩
    · obtain ⟨b, hb, hr⟩ := ih ha; exact ⟨b, List.mem_cons_of_mem _ hb, hr⟩

theorem Pointwise.mem_right {α β} {R : α → β → Prop} {l₁ l₂} (h : Pointwise R l₁ l₂) {b} (hb : b ∈ l₂) : ∃ a ∈ l₁, R a b := by
  induction h with
  | nil => cases hb
  | cons hab _ ih =>
    rcases List.mem_cons.mp hb with rfl | hb
    · exact ⟨_, List.mem_cons_self .., hab⟩
    · obtain ⟨a, ha, hr⟩ := ih hb; exact ⟨a, List.mem_cons_of_mem _ ha, hr⟩

/-- What the merge may do to a node of A: tag and name stay; references are only gained, and only by FUNCTION
    and GROUP nodes; the hash stays, except that a MOD_PAR whose body received MEMORY_SEGMENTs etc. of B has the
    unknown hash `"*"`. -/
structure Pres (a a' : Node) : Prop where
  tag : a'.tag = a.tag
  name : a'.name = a.name
  refs : ∃ extra, a'.refs = a.refs ++ extra ∧ (a.tag ≠ "FUNCTION" → a.tag ≠ "GROUP" → extra = [])
  hash : a'.hash = a.hash ∨ (a.tag = "MOD_PAR" ∧ a'.hash = "*")

theorem Pres.rfl' (a : Node) : Pres a a := ⟨rfl, rfl, ⟨[], by simp, fun _ _ => rfl⟩, .inl rfl⟩

theorem Pres.trans' (a b c : Node) (h₁ : Pres a b) (h₂ : Pres b c) : Pres a c := by
  obtain ⟨e₁, he₁, hn₁⟩ := h₁.refs
  obtain ⟨e₂, he₂, hn₂⟩ := h₂.refs
  refine ⟨h₂.tag.trans h₁.tag, h₂.name.trans h₁.name, ⟨e₁ ++ e₂, by rw [he₂, he₁, List.append_assoc], ?_⟩, ?_⟩
  · intro hf hg
    rw [hn₁ hf hg, hn₂ (h₁.tag ▸ hf) (h₁.tag ▸ hg)]; rfl
  · rcases h₂.hash with h | ⟨ht, h⟩
    · rcases h₁.hash with h' | ⟨ht', h'⟩
      · exact .inl (h.trans h')
      · exact .inr ⟨ht', h.trans h'⟩
    · exact .inr ⟨h₁.tag ▸ ht, h⟩

/-- a node outside FUNCTION, GROUP, MOD_PAR is literally unchanged -/
theorem Pres.eq_of_plain {a a' : Node} (h : Pres a a') (h1 : a.tag ≠ "FUNCTION") (h2 : a.tag ≠ "GROUP") (h3 : a.tag ≠ "MOD_PAR") :
    a' = a := by
  obtain ⟨e, he, hn⟩ := h.refs
  have hr : a'.refs = a.refs := by rw [he, hn h1 h2, List.append_nil]
  have hh : a'.hash = a.hash := by
    rcases h.hash with h | ⟨ht, _⟩
    · exact h
    · exact absurd ht h3
  cases a; cases a'
  simp_all
  exact ⟨h.tag, h.name⟩

/-- `m'` is `m` (each node possibly extended as `Pres` allows) followed by new nodes -/
def Ext (m m' : Module) : Prop := ∃ A' new, m' = A' ++ new ∧ Pointwise Pres m A'

theorem Ext.refl (m : Module) : Ext m m := ⟨m, [], by simp, Pointwise.refl Pres.rfl' m⟩

theorem Ext.append (m new : Module) : Ext m (m ++ new) := ⟨m, new, rfl, Pointwise.refl Pres.rfl' m⟩

theorem Ext.trans {m₁ m₂ m₃ : Module} (h₁ : Ext m₁ m₂) (h₂ : Ext m₂ m₃) : Ext m₁ m₃ := by
  obtain ⟨A₁, n₁, e₁, p₁⟩ := h₁
  obtain ⟨A₂, n₂, e₂, p₂⟩ := h₂
  subst e₁
  obtain ⟨x₁, x₂, e, q₁, _⟩ := Pointwise.append_left p₂
  exact ⟨x₁, x₂ ++ n₂, by rw [e₂, e, List.append_assoc], Pointwise.trans Pres.trans' p₁ q₁⟩

theorem pointwise_updFirst (p : Node → Bool) (f : Node → Node) (hf : ∀ x, p x = true → Pres x (f x)) :
    ∀ l, Pointwise Pres l (updFirst p f l)
  | [] => .nil
  | x :: xs => by
    unfold updFirst
    split
    · exact .cons (hf x ‹_›) (Pointwise.refl Pres.rfl' xs)
    · exact .cons (Pres.rfl' x) (pointwise_updFirst p f hf xs)

theorem Ext.updFirst (p : Node → Bool) (f : Node → Node) (hf : ∀ x, p x = true → Pres x (f x)) (m : Module) :
    Ext m (updFirst p f m) := ⟨_, [], by simp, pointwise_updFirst p f hf m⟩

theorem Ext.foldl {β} (g : Module → β → Module) (hg : ∀ m b, Ext m (g m b)) : ∀ (l : List β) (m : Module), Ext m (l.foldl g m)
  | [], m => Ext.refl m
  | b :: l, m => (hg m b).trans (Ext.foldl g hg l (g m b))

theorem ext_planNs (ns : Ns) (st : St) : Ext st.a (planNs ns st).a := Ext.refl _
theorem ext_applyNs (ns : Ns) (st : St) : Ext st.a (applyNs ns st).a := Ext.append _ _

theorem ext_takeOpt (tag : String) (st : St) : Ext st.a (takeOpt tag st).a := by
  unfold takeOpt
  split
  · split
    · exact Ext.refl _
    · exact Ext.append _ _
  · exact Ext.refl _

theorem ext_takeAll (tag : String) (st : St) : Ext st.a (takeAll tag st).a := by
  unfold takeAll
  split
  · exact Ext.refl _
  · exact Ext.append _ _

theorem ext_mergeModPar (st : St) : Ext st.a (mergeModPar st).a := by
  unfold mergeModPar
  split
  · split
    · apply Ext.updFirst
      intro y hy
      have ht : y.tag = "MOD_PAR" := by simpa using hy
      split
      · exact Pres.rfl' y
      · exact ⟨rfl, rfl, ⟨[], by simp, fun _ _ => rfl⟩, .inr ⟨ht, rfl⟩⟩
    · exact Ext.append _ _
  · exact Ext.refl _

theorem pres_mergeLists (tag : String) (sites : List String) (htag : tag = "FUNCTION" ∨ tag = "GROUP") (b x : Node)
    (hx : x.tag = tag) : Pres x (mergeLists sites b x) := by
  unfold mergeLists
  split
  · exact Pres.rfl' x
  · refine ⟨rfl, rfl, ⟨_, rfl, fun h1 h2 => ?_⟩, .inl rfl⟩
    rcases htag with h | h
    · exact absurd (hx.trans h) h1
    · exact absurd (hx.trans h) h2

theorem ext_byNameStep (tag : String) (sites : List String) (htag : tag = "FUNCTION" ∨ tag = "GROUP") (m : Module) (b : Node) :
    Ext m (byNameStep tag sites m b) := by
  unfold byNameStep
  split
  · apply Ext.updFirst
    intro x hx
    have : x.tag = tag := by
      simp only [Bool.and_eq_true, beq_iff_eq] at hx; exact hx.1
    exact pres_mergeLists tag sites htag b x this
  · exact Ext.append _ _

theorem ext_mergeByName (tag : String) (sites : List String) (htag : tag = "FUNCTION" ∨ tag = "GROUP") (st : St) :
    Ext st.a (mergeByName tag sites st).a :=
  Ext.foldl _ (ext_byNameStep tag sites htag) _ _

theorem ext_mergeUserRights (st : St) : Ext st.a (mergeUserRights st).a := by
  apply Ext.foldl
  intro m b
  unfold userRightsStep
  split
  · exact Ext.refl _
  · exact Ext.append _ _

theorem Ext.step {a : Module} {st : St} (h : Ext a st.a) (f : St → St) (hf : ∀ s : St, Ext s.a (f s).a) :
    Ext a (f st).a := h.trans (hf st)

/-! ### namespaces -/

/-- the names defined in namespace `ns` by the module `m` -/
def names (ns : Ns) (m : Module) : List String := (m.filter (hasTag ns.tags)).map (·.name)

/-- names are unique per namespace (UNIT / COMPU_TAB+COMPU_VTAB+COMPU_VTAB_RANGE / COMPU_METHOD / RECORD_LAYOUT /
    the objects / the typedefs / FUNCTION / GROUP / FRAME / TRANSFORMER) -/
def UniqueNames (m : Module) : Prop := ∀ ns, (names ns m).Nodup

theorem tags_nodup (ns : Ns) : ns.tags.Nodup := by cases ns <;> decide

theorem tags_disjoint {ns ns' : Ns} {t : String} (h : t ∈ ns.tags) (h' : t ∈ ns'.tags) : ns = ns' := by
  cases ns <;> cases ns' <;> first | rfl | (exfalso; revert h h'; simp only [Ns.tags, List.mem_cons, List.not_mem_nil, or_false]; intro h h'; rcases h with rfl | rfl | rfl | rfl | rfl <;> revert h' <;> decide)

theorem filter_or_perm {α} (p q : α → Bool) : ∀ (l : List α), (∀ x ∈ l, p x = true → q x = false) →
    (l.filter p ++ l.filter q).Perm (l.filter fun x => p x || q x)
  | [], _ => List.Perm.refl _
  | x :: l, h => by
    have ih := filter_or_perm p q l (fun y hy => h y (List.mem_cons_of_mem _ hy))
    by_cases hp : p x = true
    · have hq := h x (List.mem_cons_self ..) hp
      simp only [List.filter_cons, hp, hq, Bool.true_or, if_true, List.cons_append]
      exact ih.cons x
    · have hp' : p x = false := by simpa using hp
      by_cases hq : q x = true
      · simp only [List.filter_cons, hp', hq, Bool.false_or, if_true]
        exact List.perm_middle.trans (ih.cons x)
      · have hq' : q x = false := by simpa using hq
        simp only [List.filter_cons, hp', hq', Bool.or_self]
        exact ih

theorem flatMap_filter_perm (m : Module) : ∀ (tags : List String), tags.Nodup →
    (tags.flatMap fun t => m.filter (·.tag == t)).Perm (m.filter (hasTag tags))
  | [], _ => by simp [hasTag]
  | t :: ts, h => by
    have hn := List.nodup_cons.mp h
    have ih := flatMap_filter_perm m ts hn.2
    simp only [List.flatMap_cons]
    refine (List.Perm.append_left _ ih).trans ?_
    have := filter_or_perm (fun n : Node => n.tag == t) (hasTag ts) m (by
      intro x _ hx
      have : x.tag = t := by simpa using hx
      simp only [hasTag, this]
      simpa using hn.1)
    refine this.trans ?_
    apply List.Perm.of_eq
    apply List.filter_congr
    intro x _
    simp only [hasTag, List.contains_cons]

theorem nsNodes_perm (ns : Ns) (m : Module) : (nsNodes ns m).Perm (m.filter (hasTag ns.tags)) :=
  flatMap_filter_perm m ns.tags (tags_nodup ns)

theorem names_nsNodes_perm (ns : Ns) (m : Module) : ((nsNodes ns m).map (·.name)).Perm (names ns m) :=
  (nsNodes_perm ns m).map _

theorem mem_nsNodes {ns : Ns} {m : Module} {n : Node} : n ∈ nsNodes ns m ↔ n ∈ m ∧ n.tag ∈ ns.tags := by
  rw [(nsNodes_perm ns m).mem_iff, List.mem_filter]
  simp [hasTag]

theorem mem_names {ns : Ns} {m : Module} {s : String} : s ∈ names ns m ↔ ∃ n ∈ m, n.tag ∈ ns.tags ∧ n.name = s := by
  simp only [names, List.mem_map, List.mem_filter, hasTag, List.contains_eq_mem, decide_eq_true_eq]
  constructor
  · rintro ⟨n, ⟨h1, h2⟩, h3⟩; exact ⟨n, h1, h2, h3⟩
  · rintro ⟨n, h1, h2, h3⟩; exact ⟨n, ⟨h1, h2⟩, h3⟩

theorem names_append (ns : Ns) (m₁ m₂ : Module) : names ns (m₁ ++ m₂) = names ns m₁ ++ names ns m₂ := by
  simp [names]

/-- nodes whose tag is outside the namespace do not contribute names -/
theorem names_eq_nil {ns : Ns} {m : Module} (h : ∀ n ∈ m, n.tag ∉ ns.tags) : names ns m = [] := by
  simp only [names, List.map_eq_nil_iff, List.filter_eq_nil_iff, hasTag, List.contains_eq_mem, decide_eq_true_eq]
  exact h

/-- nodes whose tags are all inside the namespace contribute all their names -/
theorem names_eq_map {ns : Ns} {m : Module} (h : ∀ n ∈ m, n.tag ∈ ns.tags) : names ns m = m.map (·.name) := by
  simp only [names]
  rw [List.filter_eq_self.mpr]
  intro n hn
  simpa [hasTag] using h n hn

/-! ### `calculate_item_actions` -/

@[simp] theorem Tbl.get_nil {α} (n : String) : Tbl.get ([] : Tbl α) n = none := rfl

theorem Tbl.get_insert {α} (t : Tbl α) (k : String) (v : α) (n : String) :
    (t.insert k v).get n = if k = n then some v else t.get n := by
  simp only [Tbl.get, Tbl.insert, List.find?_cons]
  by_cases h : k = n
  · simp [h]
  · have : (k == n) = false := by simpa using h
    simp [this, h]

/-- "B's element has to be added": no element of this name in A, or a different one -/
def needsAdd (orig : List Node) (b : Node) : Bool :=
  match lookup orig b.name with
  | some a => a != b
  | none => true

/-- "same name, different content" -/
def isConflict (orig : List Node) (b : Node) : Bool :=
  match lookup orig b.name with
  | some a => a != b
  | none => false

theorem calcStep_act (orig merge : List Node) (p : Plan) (b : Node) :
    (calcStep orig merge p b).act = p.act.insert b.name (needsAdd orig b) := by
  unfold calcStep needsAdd
  cases h : lookup orig b.name with
  | none => rfl
  | some a =>
    by_cases e : a = b
    · simp [e]
    · simp [e, bne_iff_ne.mpr e]

theorem calcStep_ren (orig merge : List Node) (p : Plan) (b : Node) :
    (calcStep orig merge p b).ren =
      if isConflict orig b then p.ren.insert b.name (makeUniqueName b.name orig merge) else p.ren := by
  unfold calcStep isConflict
  cases h : lookup orig b.name with
  | none => simp
  | some a =>
    by_cases e : a = b
    · simp [e]
    · simp [e, bne_iff_ne.mpr e]

/-- names that do not occur in the rest of the loop keep their entries -/
theorem calc_frame (orig merge : List Node) (n : String) : ∀ (l : List Node) (p : Plan), n ∉ l.map (·.name) →
    (l.foldl (calcStep orig merge) p).act.get n = p.act.get n ∧ (l.foldl (calcStep orig merge) p).ren.get n = p.ren.get n
  | [], _, _ => ⟨rfl, rfl⟩
  | b :: l, p, h => by
    simp only [List.map_cons, List.mem_cons, not_or] at h
    have ih := calc_frame orig merge n l (calcStep orig merge p b) h.2
    simp only [List.foldl_cons]
    rw [ih.1, ih.2, calcStep_act, calcStep_ren, Tbl.get_insert, if_neg (Ne.symm h.1)]
    refine ⟨rfl, ?_⟩
    split
    · rw [Tbl.get_insert, if_neg (Ne.symm h.1)]
    · rfl

/-- with unique names in B, the entries of an element are those computed from this element -/
theorem calc_entry (orig merge : List Node) : ∀ (l : List Node) (p : Plan), (l.map (·.name)).Nodup → ∀ b ∈ l,
    (l.foldl (calcStep orig merge) p).act.get b.name = some (needsAdd orig b) ∧
    (l.foldl (calcStep orig merge) p).ren.get b.name =
      if isConflict orig b then some (makeUniqueName b.name orig merge) else p.ren.get b.name
  | [], _, _, _, hb => by cases hb
  | x :: l, p, h, b, hb => by
    simp only [List.map_cons, List.nodup_cons] at h
    simp only [List.foldl_cons]
    rcases List.mem_cons.mp hb with rfl | hb'
    · have fr := calc_frame orig merge b.name l (calcStep orig merge p b) h.1
      rw [fr.1, fr.2, calcStep_act, calcStep_ren, Tbl.get_insert, if_pos rfl]
      refine ⟨rfl, ?_⟩
      split
      · rw [Tbl.get_insert, if_pos rfl]
      · rfl
    · have ih := calc_entry orig merge l (calcStep orig merge p x) h.2 b hb'
      rw [ih.1, ih.2]
      refine ⟨rfl, ?_⟩
      have hne : x.name ≠ b.name := fun e => h.1 (e ▸ List.mem_map.mpr ⟨b, hb', rfl⟩)
      split
      · rfl
      · rw [calcStep_ren]
        split
        · rw [Tbl.get_insert, if_neg hne]
        · rfl

/-- general facts (no uniqueness needed): the rename table only holds fresh names made by `make_unique_name`, for
    names of B that are in conflict; an element that is added without being renamed has no namesake in A -/
theorem calc_general (orig merge : List Node) : ∀ (l : List Node) (p : Plan),
    ((∀ n f, p.ren.get n = some f → f = makeUniqueName n orig merge ∧ (lookup orig n).isSome) ∧
     (∀ n, p.act.get n = some true → p.ren.get n = none → lookup orig n = none)) →
    ((∀ n f, (l.foldl (calcStep orig merge) p).ren.get n = some f → f = makeUniqueName n orig merge ∧ (lookup orig n).isSome) ∧
     (∀ n, (l.foldl (calcStep orig merge) p).act.get n = some true → (l.foldl (calcStep orig merge) p).ren.get n = none →
        lookup orig n = none))
  | [], _, h => h
  | b :: l, p, h => by
    simp only [List.foldl_cons]
    apply calc_general orig merge l
    constructor
    · intro n f hf
      rw [calcStep_ren] at hf
      split at hf
      · rename_i hc
        rw [Tbl.get_insert] at hf
        split at hf
        · rename_i e
          subst e
          refine ⟨(Option.some.inj hf).symm, ?_⟩
          unfold isConflict at hc
          split at hc
          · simp_all
          · cases hc
        · exact h.1 n f hf
      · exact h.1 n f hf
    · intro n ha hr
      rw [calcStep_act, Tbl.get_insert] at ha
      rw [calcStep_ren] at hr
      by_cases e : b.name = n
      · subst e
        rw [if_pos rfl] at ha
        have hadd : needsAdd orig b = true := Option.some.inj ha
        by_cases hc : isConflict orig b = true
        · rw [if_pos hc, Tbl.get_insert, if_pos rfl] at hr; cases hr
        · unfold needsAdd at hadd
          unfold isConflict at hc
          split at hadd
          · simp_all
          · assumption
      · rw [if_neg e] at ha
        apply h.2 n ha
        split at hr
        · rw [Tbl.get_insert, if_neg e] at hr; exact hr
        · exact hr

theorem calcActions_general (orig merge : List Node) :
    (∀ n f, (calcActions orig merge).ren.get n = some f → f = makeUniqueName n orig merge ∧ (lookup orig n).isSome) ∧
    (∀ n, (calcActions orig merge).act.get n = some true → (calcActions orig merge).ren.get n = none → lookup orig n = none) :=
  calc_general orig merge merge ⟨[], []⟩ (by constructor <;> intros <;> simp_all)

theorem calcActions_entry (orig merge : List Node) (h : (merge.map (·.name)).Nodup) (b : Node) (hb : b ∈ merge) :
    (calcActions orig merge).act.get b.name = some (needsAdd orig b) ∧
    (calcActions orig merge).ren.get b.name = if isConflict orig b then some (makeUniqueName b.name orig merge) else none :=
  calc_entry orig merge merge ⟨[], []⟩ h b hb

theorem lookup_eq_none {l : List Node} {s : String} : lookup l s = none ↔ s ∉ l.map (·.name) := by
  unfold lookup
  rw [List.find?_eq_none]
  simp only [beq_iff_eq, List.mem_map, not_exists, not_and]

/-! ### moving the elements -/

/-- an element of B as it arrives in A: under its new name if the rename table has one -/
def moved (p : Plan) (x : Node) : Node := { x with name := p.ren.app x.name }

/-- "this element of B is added to A" -/
def isAdded (p : Plan) (x : Node) : Bool := decide (p.act.get x.name = some true)

/-- with unique names the `remove` on the rename table never matters: the loop is a filter and a map -/
theorem appendLoop_eq (p : Plan) : ∀ (L : List Node) (removed : List String), (L.map (·.name)).Nodup →
    (∀ x ∈ L, x.name ∉ removed) → appendLoop p removed L = (L.filter (isAdded p)).map (moved p)
  | [], _, _, _ => rfl
  | x :: L, removed, hn, hr => by
    simp only [List.map_cons, List.nodup_cons] at hn
    have hx : removed.contains x.name = false := by
      simpa using hr x (List.mem_cons_self ..)
    have hrec : ∀ r, (∀ y ∈ L, y.name ∉ r) → appendLoop p r L = (L.filter (isAdded p)).map (moved p) :=
      fun r h => appendLoop_eq p L r hn.2 h
    unfold appendLoop
    by_cases ha : p.act.get x.name = some true
    · have ha' : isAdded p x = true := by simp [isAdded, ha]
      rw [if_pos ha, List.filter_cons_of_pos ha', List.map_cons, hx]
      simp only [Bool.false_eq_true, if_false]
      cases hg : p.ren.get x.name with
      | none =>
        simp only []
        rw [hrec removed (fun y hy => hr y (List.mem_cons_of_mem _ hy))]
        congr 1
        simp [moved, Tbl.app, hg]
      | some f =>
        simp only []
        rw [hrec (x.name :: removed) (fun y hy => by
          simp only [List.mem_cons, not_or]
          exact ⟨fun e => hn.1 (e ▸ List.mem_map.mpr ⟨y, hy, rfl⟩), hr y (List.mem_cons_of_mem _ hy)⟩)]
        congr 1
        simp [moved, Tbl.app, hg]
    · have ha' : ¬ isAdded p x = true := by simp [isAdded, ha]
      rw [if_neg ha, List.filter_cons_of_neg ha']
      exact hrec removed (fun y hy => hr y (List.mem_cons_of_mem _ hy))

/-- what `calculate_item_actions` guarantees, in terms of the names `On` of A's and `Mn` of B's namespace -/
structure PlanFacts (p : Plan) (On Mn : List String) : Prop where
  fresh : ∀ n ∈ Mn, ∀ f, p.ren.get n = some f → f ∉ On ∧ f ∉ Mn ∧ ∃ k, f = mergeName n k
  add : ∀ n ∈ Mn, p.act.get n = some true → p.ren.get n = none → n ∉ On

theorem PlanFacts.congr {p : Plan} {On Mn On' Mn' : List String} (h : PlanFacts p On Mn)
    (ho : ∀ s, s ∈ On' ↔ s ∈ On) (hm : ∀ s, s ∈ Mn' ↔ s ∈ Mn) : PlanFacts p On' Mn' where
  fresh n hn f hf := by
    obtain ⟨h1, h2, h3⟩ := h.fresh n ((hm n).mp hn) f hf
    exact ⟨fun e => h1 ((ho f).mp e), fun e => h2 ((hm f).mp e), h3⟩
  add n hn ha hr := fun e => h.add n ((hm n).mp hn) ha hr ((ho n).mp e)

theorem PlanFacts.nil (p : Plan) (On : List String) : PlanFacts p On [] where
  fresh _ h := by cases h
  add _ h := by cases h

theorem planFacts_calc (orig merge : List Node) :
    PlanFacts (calcActions orig merge) (orig.map (·.name)) (merge.map (·.name)) where
  fresh n _ f hf := by
    obtain ⟨rfl, _⟩ := (calcActions_general orig merge).1 n f hf
    obtain ⟨k, _, _, h3, _, _⟩ := makeUniqueName_spec n orig merge
    exact ⟨(makeUniqueName_not_mem n orig merge).1, (makeUniqueName_not_mem n orig merge).2, k, h3⟩
  add n _ ha hr := lookup_eq_none.mp ((calcActions_general orig merge).2 n ha hr)

theorem nodup_map_on {α β} {f : α → β} : ∀ {l : List α}, l.Nodup → (∀ x ∈ l, ∀ y ∈ l, f x = f y → x = y) → (l.map f).Nodup
  | [], _, _ => List.nodup_nil
  | a :: l, hn, hf => by
    have hn' := List.nodup_cons.mp hn
    simp only [List.map_cons, List.nodup_cons]
    refine ⟨?_, nodup_map_on hn'.2 (fun x hx y hy => hf x (List.mem_cons_of_mem _ hx) y (List.mem_cons_of_mem _ hy))⟩
    intro hm
    obtain ⟨y, hy, e⟩ := List.mem_map.mp hm
    have := hf y (List.mem_cons_of_mem _ hy) a (List.mem_cons_self ..) e
    exact hn'.1 (this ▸ hy)

/-- the renaming is injective on the names of B's namespace -/
theorem app_inj {p : Plan} {On Mn : List String} (h : PlanFacts p On Mn) {n₁ n₂ : String} (h₁ : n₁ ∈ Mn) (h₂ : n₂ ∈ Mn)
    (e : p.ren.app n₁ = p.ren.app n₂) : n₁ = n₂ := by
  unfold Tbl.app at e
  cases g₁ : p.ren.get n₁ with
  | none =>
    cases g₂ : p.ren.get n₂ with
    | none => simpa [g₁, g₂] using e
    | some f₂ =>
      simp only [g₁, g₂, Option.getD_none, Option.getD_some] at e
      exact absurd (e ▸ h₁) (h.fresh n₂ h₂ f₂ g₂).2.1
  | some f₁ =>
    cases g₂ : p.ren.get n₂ with
    | none =>
      simp only [g₁, g₂, Option.getD_none, Option.getD_some] at e
      exact absurd (e ▸ h₂) (h.fresh n₁ h₁ f₁ g₁).2.1
    | some f₂ =>
      simp only [g₁, g₂, Option.getD_some] at e
      obtain ⟨k₁, e₁⟩ := (h.fresh n₁ h₁ f₁ g₁).2.2
      obtain ⟨k₂, e₂⟩ := (h.fresh n₂ h₂ f₂ g₂).2.2
      exact mergeName_base_inj (e₁.symm.trans (e.trans e₂))

theorem app_not_mem {p : Plan} {On Mn : List String} (h : PlanFacts p On Mn) {n : String} (hn : n ∈ Mn)
    (ha : p.act.get n = some true) : p.ren.app n ∉ On := by
  unfold Tbl.app
  cases g : p.ren.get n with
  | none => simpa using h.add n hn ha g
  | some f => simpa using (h.fresh n hn f g).1

theorem moved_names (p : Plan) (L : List Node) :
    ((L.filter (isAdded p)).map (moved p)).map (·.name) = ((L.filter (isAdded p)).map (·.name)).map p.ren.app := by
  simp [moved, List.map_map, Function.comp_def]

/-- the names under which B's elements arrive are pairwise different and not used in A -/
theorem moved_names_nodup {p : Plan} {On : List String} {L : List Node} (hf : PlanFacts p On (L.map (·.name)))
    (hn : (L.map (·.name)).Nodup) :
    (((L.filter (isAdded p)).map (moved p)).map (·.name)).Nodup ∧
    ∀ s ∈ ((L.filter (isAdded p)).map (moved p)).map (·.name), s ∉ On := by
  rw [moved_names]
  have hsub : ((L.filter (isAdded p)).map (·.name)).Sublist (L.map (·.name)) := (List.filter_sublist).map _
  constructor
  · apply nodup_map_on (hsub.nodup hn)
    intro x hx y hy e
    exact app_inj hf (hsub.subset hx) (hsub.subset hy) e
  · intro s hs
    obtain ⟨n, hn', rfl⟩ := List.mem_map.mp hs
    obtain ⟨x, hx, rfl⟩ := List.mem_map.mp hn'
    have hx' := List.mem_filter.mp hx
    have ha : p.act.get x.name = some true := by simpa [isAdded] using hx'.2
    exact app_not_mem hf (List.mem_map.mpr ⟨x, hx'.1, rfl⟩) ha

/-! ### names per namespace are preserved / stay unique (C08 `names_unique`) -/

theorem names_cons (ns : Ns) (x : Node) (m : Module) :
    names ns (x :: m) = if hasTag ns.tags x = true then x.name :: names ns m else names ns m := by
  simp only [names, List.filter_cons]; split <;> rfl

theorem hasTag_congr (tags : List String) {x y : Node} (h : x.tag = y.tag) : hasTag tags x = hasTag tags y := by
  simp only [hasTag, h]

theorem names_map_same {ns : Ns} {f : Node → Node} (hf : ∀ n, (f n).tag = n.tag ∧ (f n).name = n.name) (m : Module) :
    names ns (m.map f) = names ns m := by
  induction m with
  | nil => rfl
  | cons x m ih => rw [List.map_cons, names_cons, names_cons, hasTag_congr _ (hf x).1, (hf x).2, ih]

theorem names_updFirst {ns : Ns} (q : Node → Bool) {f : Node → Node} (hf : ∀ n, (f n).tag = n.tag ∧ (f n).name = n.name) :
    ∀ (m : Module), names ns (updFirst q f m) = names ns m
  | [] => rfl
  | x :: m => by
    unfold updFirst
    split
    · rw [names_cons, names_cons, hasTag_congr _ (hf x).1, (hf x).2]
    · rw [names_cons, names_cons, names_updFirst q hf m]

/-- removing nodes whose tags are outside the namespace does not change its names -/
theorem names_filter_out {ns : Ns} (q : Node → Bool) : ∀ (m : Module), (∀ n ∈ m, q n = false → n.tag ∉ ns.tags) →
    names ns (m.filter q) = names ns m
  | [], _ => rfl
  | x :: m, h => by
    have ih := names_filter_out (ns := ns) q m (fun n hn => h n (List.mem_cons_of_mem _ hn))
    by_cases hq : q x = true
    · rw [List.filter_cons_of_pos hq, names_cons, names_cons, ih]
    · rw [List.filter_cons_of_neg hq]
      have : x.tag ∉ ns.tags := h x (List.mem_cons_self ..) (by simpa using hq)
      have hx : hasTag ns.tags x = false := by simpa [hasTag] using this
      rw [ih, names_cons, hx]
      rfl

theorem names_filter_in {ns : Ns} (q : Node → Bool) (m : Module) (h : ∀ n ∈ m, n.tag ∈ ns.tags → q n = false) :
    names ns (m.filter q) = [] := by
  apply names_eq_nil
  intro n hn ht
  have := List.mem_filter.mp hn
  rw [h n this.1 ht] at this
  exact Bool.noConfusion this.2

theorem St.plan_cons_self (ns : Ns) (p : Plan) (a b : Module) (ps : List (Ns × Plan)) :
    (St.mk a b ((ns, p) :: ps)).plan ns = p := by
  simp [St.plan]

theorem St.plan_cons_ne {ns ns' : Ns} (h : ns ≠ ns') (p : Plan) (a b a' b' : Module) (ps : List (Ns × Plan)) :
    (St.mk a b ((ns, p) :: ps)).plan ns' = (St.mk a' b' ps).plan ns' := by
  have : (ns == ns') = false := by simpa using h
  simp [St.plan, this]

theorem renameNode_tag (ns : Ns) (t : Tbl String) (n : Node) : (renameNode ns t n).tag = n.tag := rfl
theorem renameNode_name (ns : Ns) (t : Tbl String) (n : Node) : (renameNode ns t n).name = n.name := rfl
theorem renameNode_hash (ns : Ns) (t : Tbl String) (n : Node) : (renameNode ns t n).hash = n.hash := rfl

/-- the invariant behind `names_unique` -/
structure NUInv (st : St) : Prop where
  ua : ∀ ns, (names ns st.a).Nodup
  ub : ∀ ns, (names ns st.b).Nodup
  pf : ∀ ns, PlanFacts (st.plan ns) (names ns st.a) (names ns st.b)

theorem NUInv.frame {st st' : St} (h : NUInv st) (ha : ∀ ns, names ns st'.a = names ns st.a)
    (hb : ∀ ns, names ns st'.b = names ns st.b) (hp : ∀ ns, st'.plan ns = st.plan ns) : NUInv st' where
  ua ns := ha ns ▸ h.ua ns
  ub ns := hb ns ▸ h.ub ns
  pf ns := by rw [ha, hb, hp]; exact h.pf ns

theorem nuinv_planNs (ns : Ns) {st : St} (h : NUInv st) : NUInv (planNs ns st) where
  ua := h.ua
  ub ns' := by
    show (names ns' (st.b.map _)).Nodup
    rw [names_map_same (f := renameNode ns _) (fun n => ⟨rfl, rfl⟩)]; exact h.ub ns'
  pf ns' := by
    show PlanFacts _ (names ns' st.a) (names ns' (st.b.map _))
    rw [names_map_same (f := renameNode ns _) (fun n => ⟨rfl, rfl⟩)]
    by_cases e : ns = ns'
    · subst e
      unfold planNs
      rw [St.plan_cons_self]
      exact (planFacts_calc _ _).congr (fun s => ((names_nsNodes_perm ns st.a).mem_iff).symm)
        (fun s => ((names_nsNodes_perm ns st.b).mem_iff).symm)
    · unfold planNs
      rw [St.plan_cons_ne e _ _ _ st.a st.b]
      exact h.pf ns'

theorem appendLoop_tags (p : Plan) : ∀ (L : List Node) (removed : List String), ∀ y ∈ appendLoop p removed L,
    ∃ x ∈ L, y.tag = x.tag
  | [], _, y, hy => by cases hy
  | x :: L, removed, y, hy => by
    unfold appendLoop at hy
    split at hy
    · split at hy
      · rcases List.mem_cons.mp hy with rfl | hy
        · exact ⟨x, List.mem_cons_self .., rfl⟩
        · obtain ⟨z, hz, e⟩ := appendLoop_tags p L _ y hy
          exact ⟨z, List.mem_cons_of_mem _ hz, e⟩
      · rcases List.mem_cons.mp hy with rfl | hy
        · exact ⟨y, List.mem_cons_self .., rfl⟩
        · obtain ⟨z, hz, e⟩ := appendLoop_tags p L _ y hy
          exact ⟨z, List.mem_cons_of_mem _ hz, e⟩
    · obtain ⟨z, hz, e⟩ := appendLoop_tags p L _ y hy
      exact ⟨z, List.mem_cons_of_mem _ hz, e⟩

theorem appendLoop_tag_mem (ns : Ns) (p : Plan) (m : Module) (removed : List String) :
    ∀ y ∈ appendLoop p removed (nsNodes ns m), y.tag ∈ ns.tags := by
  intro y hy
  obtain ⟨x, hx, e⟩ := appendLoop_tags p _ _ y hy
  exact e ▸ (mem_nsNodes.mp hx).2

theorem not_hasTag_of_ne {ns ns' : Ns} (h : ns ≠ ns') {n : Node} (hn : n.tag ∈ ns.tags) : n.tag ∉ ns'.tags :=
  fun h' => h (tags_disjoint hn h')

theorem nuinv_applyNs (ns : Ns) {st : St} (h : NUInv st) : NUInv (applyNs ns st) := by
  have hL : ((nsNodes ns st.b).map (·.name)).Nodup := (names_nsNodes_perm ns st.b).symm.nodup (h.ub ns)
  have hpf : PlanFacts (st.plan ns) (names ns st.a) ((nsNodes ns st.b).map (·.name)) :=
    (h.pf ns).congr (fun _ => Iff.rfl) (fun s => (names_nsNodes_perm ns st.b).mem_iff)
  have hout := moved_names_nodup hpf hL
  have heq := appendLoop_eq (st.plan ns) (nsNodes ns st.b) [] hL (fun _ _ h => by cases h)
  have hb : ∀ ns', ns ≠ ns' → names ns' (st.b.filter fun n => !hasTag ns.tags n) = names ns' st.b := by
    intro ns' e
    apply names_filter_out
    intro n _ hq ht
    have : n.tag ∈ ns.tags := by simpa [hasTag] using hq
    exact not_hasTag_of_ne e this ht
  constructor
  · intro ns'
    show (names ns' (st.a ++ appendLoop (st.plan ns) [] (nsNodes ns st.b))).Nodup
    rw [names_append]
    by_cases e : ns = ns'
    · subst e
      rw [names_eq_map (appendLoop_tag_mem ns _ _ _), heq]
      rw [List.nodup_append]
      exact ⟨h.ua ns, hout.1, fun s hs t ht e => hout.2 t ht (e ▸ hs)⟩
    · rw [names_eq_nil (fun n hn => not_hasTag_of_ne e (appendLoop_tag_mem ns _ _ _ n hn)), List.append_nil]
      exact h.ua ns'
  · intro ns'
    show (names ns' (st.b.filter fun n => !hasTag ns.tags n)).Nodup
    by_cases e : ns = ns'
    · subst e
      rw [names_filter_in]
      · exact List.nodup_nil
      · intro n _ ht; simpa [hasTag] using ht
    · rw [hb ns' e]; exact h.ub ns'
  · intro ns'
    show PlanFacts (st.plan ns') (names ns' (st.a ++ appendLoop (st.plan ns) [] (nsNodes ns st.b)))
      (names ns' (st.b.filter fun n => !hasTag ns.tags n))
    by_cases e : ns = ns'
    · subst e
      rw [names_filter_in]
      · exact PlanFacts.nil _ _
      · intro n _ ht; simpa [hasTag] using ht
    · rw [hb ns' e, names_append,
        names_eq_nil (fun n hn => not_hasTag_of_ne e (appendLoop_tag_mem ns _ _ _ n hn)), List.append_nil]
      exact h.pf ns'

/-- tags of unnamed children of MODULE: in no namespace -/
def NoNs (tag : String) : Prop := ∀ ns : Ns, tag ∉ ns.tags

theorem noNs_of_decide {tag : String} (h : (Ns.all.all fun ns => !ns.tags.contains tag) = true) : NoNs tag := by
  intro ns hm
  have hall : ns ∈ Ns.all := by cases ns <;> decide
  have := List.all_eq_true.mp h ns hall
  simp at this
  exact this hm

theorem names_filter_tag_ne {ns : Ns} {tag : String} (h : tag ∉ ns.tags) (m : Module) :
    names ns (m.filter (·.tag != tag)) = names ns m := by
  apply names_filter_out
  intro n _ hq ht
  have : n.tag = tag := by simpa using hq
  exact h (this ▸ ht)

theorem nuinv_takeOpt {tag : String} (ht : NoNs tag) {st : St} (h : NUInv st) : NUInv (takeOpt tag st) := by
  unfold takeOpt
  split
  · rename_i x hx
    split
    · exact h
    · have hxt : x.tag = tag := by simpa using List.find?_some hx
      apply h.frame
      · intro ns
        show names ns (st.a ++ [x]) = _
        rw [names_append, names_eq_nil (m := [x]) (fun n hn => by
          rw [List.mem_singleton.mp hn, hxt]; exact ht ns), List.append_nil]
      · intro ns
        exact names_filter_tag_ne (ht ns) st.b
      · intro ns; rfl
  · exact h

theorem nuinv_takeAll {tag : String} (ht : NoNs tag) {st : St} (h : NUInv st) : NUInv (takeAll tag st) := by
  unfold takeAll
  split
  · exact h
  · apply h.frame
    · intro ns
      show names ns (st.a ++ st.b.filter (·.tag == tag)) = _
      rw [names_append, names_eq_nil (m := st.b.filter (·.tag == tag)) (fun n hn => by
        have : n.tag = tag := by simpa using (List.mem_filter.mp hn).2
        rw [this]; exact ht ns), List.append_nil]
    · intro ns
      exact names_filter_tag_ne (ht ns) st.b
    · intro ns; rfl

theorem nuinv_mergeModPar {st : St} (h : NUInv st) : NUInv (mergeModPar st) := by
  have ht : NoNs "MOD_PAR" := noNs_of_decide (by decide)
  unfold mergeModPar
  split
  · rename_i x hx
    split
    · apply h.frame
      · intro ns
        apply names_updFirst
        intro n
        split <;> exact ⟨rfl, rfl⟩
      · intro ns; rfl
      · intro ns; rfl
    · have hxt : x.tag = "MOD_PAR" := by simpa using List.find?_some hx
      apply h.frame
      · intro ns
        show names ns (st.a ++ [x]) = _
        rw [names_append, names_eq_nil (m := [x]) (fun n hn => by
          rw [List.mem_singleton.mp hn, hxt]; exact ht ns), List.append_nil]
      · intro ns
        exact names_filter_tag_ne (ht ns) st.b
      · intro ns; rfl
  · exact h

theorem names_foldl_same {β} {ns : Ns} (g : Module → β → Module) (l : List β)
    (hg : ∀ m, ∀ b ∈ l, names ns (g m b) = names ns m) : ∀ (m : Module), names ns (l.foldl g m) = names ns m := by
  induction l with
  | nil => intro m; rfl
  | cons b l ih =>
    intro m
    simp only [List.foldl_cons]
    rw [ih (fun m b hb => hg m b (List.mem_cons_of_mem _ hb)), hg m b (List.mem_cons_self ..)]

theorem nuinv_mergeUserRights {st : St} (h : NUInv st) : NUInv (mergeUserRights st) := by
  have ht : NoNs "USER_RIGHTS" := noNs_of_decide (by decide)
  apply h.frame
  · intro ns
    apply names_foldl_same
    intro m b hb
    have hbt : b.tag = "USER_RIGHTS" := by simpa using (List.mem_filter.mp hb).2
    unfold userRightsStep
    split
    · rfl
    · rw [names_append, names_eq_nil (m := [b]) (fun n hn => by
        rw [List.mem_singleton.mp hn, hbt]; exact ht ns), List.append_nil]
  · intro ns
    exact names_filter_tag_ne (ht ns) st.b
  · intro ns; rfl

theorem mergeLists_tag_name (sites : List String) (b x : Node) :
    (mergeLists sites b x).tag = x.tag ∧ (mergeLists sites b x).name = x.name := by
  unfold mergeLists; split <;> exact ⟨rfl, rfl⟩

theorem names_byNameStep_ne {ns : Ns} {tag : String} (sites : List String) (h : tag ∉ ns.tags) (m : Module) (b : Node)
    (hb : b.tag = tag) : names ns (byNameStep tag sites m b) = names ns m := by
  unfold byNameStep
  split
  · exact names_updFirst _ (mergeLists_tag_name sites b) m
  · rw [names_append, names_eq_nil (m := [b]) (fun n hn => by
      rw [List.mem_singleton.mp hn, hb]; exact h), List.append_nil]

theorem nodup_names_byNameStep {ns : Ns} {tag : String} (sites : List String) (h : ns.tags = [tag]) (m : Module) (b : Node)
    (hb : b.tag = tag) (hm : (names ns m).Nodup) : (names ns (byNameStep tag sites m b)).Nodup := by
  unfold byNameStep
  split
  · rw [names_updFirst _ (mergeLists_tag_name sites b) m]; exact hm
  · rename_i hany
    rw [names_append, names_eq_map (m := [b]) (fun n hn => by
      rw [List.mem_singleton.mp hn, hb, h]; exact List.mem_singleton.mpr rfl)]
    rw [List.nodup_append]
    refine ⟨hm, by simp, ?_⟩
    intro s hs t ht e
    simp only [List.map_cons, List.map_nil, List.mem_singleton] at ht
    subst ht; subst e
    obtain ⟨n, hn, hnt, hnn⟩ := mem_names.mp hs
    apply hany
    rw [List.any_eq_true]
    refine ⟨n, hn, ?_⟩
    rw [h] at hnt
    simp [List.mem_singleton.mp hnt, hnn]

theorem nuinv_mergeByName (ns : Ns) {tag : String} (sites : List String) (hns : ns.tags = [tag]) {st : St} (h : NUInv st) :
    NUInv (mergeByName tag sites st) := by
  have htag : ∀ b ∈ st.b.filter (·.tag == tag), b.tag = tag := fun b hb => by simpa using (List.mem_filter.mp hb).2
  have hne : ∀ ns', ns ≠ ns' → tag ∉ ns'.tags := fun ns' e ht =>
    e (tags_disjoint (by rw [hns]; exact List.mem_singleton.mpr rfl) ht)
  have ha : ∀ ns', ns ≠ ns' → names ns' (mergeByName tag sites st).a = names ns' st.a := by
    intro ns' e
    apply names_foldl_same
    intro m b hb
    exact names_byNameStep_ne sites (hne ns' e) m b (htag b hb)
  have hb : ∀ ns', ns ≠ ns' → names ns' (mergeByName tag sites st).b = names ns' st.b :=
    fun ns' e => names_filter_tag_ne (hne ns' e) st.b
  have hb0 : names ns (mergeByName tag sites st).b = [] := by
    apply names_filter_in
    intro n _ ht
    rw [hns] at ht
    simp [List.mem_singleton.mp ht]
  constructor
  · intro ns'
    by_cases e : ns = ns'
    · subst e
      show (names ns ((st.b.filter (·.tag == tag)).foldl (byNameStep tag sites) st.a)).Nodup
      have : ∀ (l : List Node) (m : Module), (∀ b ∈ l, b.tag = tag) → (names ns m).Nodup →
          (names ns (l.foldl (byNameStep tag sites) m)).Nodup := by
        intro l
        induction l with
        | nil => intro m _ hm; exact hm
        | cons b l ih =>
          intro m hl hm
          exact ih _ (fun b hb => hl b (List.mem_cons_of_mem _ hb))
            (nodup_names_byNameStep sites hns m b (hl b (List.mem_cons_self ..)) hm)
      exact this _ _ htag (h.ua ns)
    · rw [ha ns' e]; exact h.ua ns'
  · intro ns'
    by_cases e : ns = ns'
    · subst e; rw [hb0]; exact List.nodup_nil
    · rw [hb ns' e]; exact h.ub ns'
  · intro ns'
    by_cases e : ns = ns'
    · subst e; rw [hb0]; exact PlanFacts.nil _ _
    · rw [hb ns' e, ha ns' e]; exact h.pf ns'

theorem PlanFacts.empty (On Mn : List String) : PlanFacts ⟨[], []⟩ On Mn where
  fresh _ _ _ hf := by cases hf
  add _ _ ha := by cases ha


/-! ## All renames seen as one map on B's nodes -/

/-! ### the renames seen as one map on B's nodes -/

/-- the plan logged for a namespace (empty tables if none) -/
def planOf (P : List (Ns × Plan)) (ns : Ns) : Plan := ((P.find? (·.1 == ns)).map (·.2)).getD ⟨[], []⟩

theorem St.plan_eq (st : St) (ns : Ns) : st.plan ns = planOf st.plans ns := rfl

/-- `rep`: the name under which the element `name` of B's namespace `ns` is found in the result -/
def rep (P : List (Ns × Plan)) (ns : Ns) (name : String) : String := (planOf P ns).ren.app name

/-- a reference of an element of kind `tag` after all renames: its target is replaced by its representative's name
    if (`tag`, site) is in the table `covered` -/
def repRef (P : List (Ns × Plan)) (tag : String) (r : Ref) : Ref :=
  match coveredNs tag r.site with
  | some ns => { r with target := rep P ns r.target }
  | none => r

def renAll (P : List (Ns × Plan)) (n : Node) : Node := { n with refs := n.refs.map (repRef P n.tag) }

@[simp] theorem renAll_tag (P) (n : Node) : (renAll P n).tag = n.tag := rfl
@[simp] theorem renAll_name (P) (n : Node) : (renAll P n).name = n.name := rfl
@[simp] theorem renAll_hash (P) (n : Node) : (renAll P n).hash = n.hash := rfl
@[simp] theorem repRef_site (P) (tag : String) (r : Ref) : (repRef P tag r).site = r.site := by
  unfold repRef; split <;> rfl

theorem Tbl.app_nil (s : String) : Tbl.app [] s = s := rfl

theorem planOf_not_mem {P : List (Ns × Plan)} {ns : Ns} (h : ns ∉ P.map (·.1)) : planOf P ns = ⟨[], []⟩ := by
  unfold planOf
  rw [List.find?_eq_none.mpr]
  · rfl
  · intro x hx hc
    exact h (List.mem_map.mpr ⟨x, hx, by simpa using hc⟩)

theorem planOf_cons_self (ns : Ns) (p : Plan) (P : List (Ns × Plan)) : planOf ((ns, p) :: P) ns = p := by
  simp [planOf]

theorem planOf_cons_ne {ns ns' : Ns} (h : ns ≠ ns') (p : Plan) (P : List (Ns × Plan)) :
    planOf ((ns, p) :: P) ns' = planOf P ns' := by
  have : (ns == ns') = false := by simpa using h
  simp [planOf, this]

theorem rep_not_mem {P : List (Ns × Plan)} {ns : Ns} (h : ns ∉ P.map (·.1)) (s : String) : rep P ns s = s := by
  unfold rep; rw [planOf_not_mem h]; rfl

theorem repRef_nil (tag : String) (r : Ref) : repRef [] tag r = r := by
  unfold repRef; split <;> rfl

theorem renAll_nil (n : Node) : renAll [] n = n := by
  cases n with
  | mk t nm h refs =>
    simp only [renAll, Node.mk.injEq, true_and]
    rw [List.map_congr_left (g := id) (fun r _ => repRef_nil t r), List.map_id]

theorem repRef_of_none {P : List (Ns × Plan)} {tag : String} {r : Ref} (h : coveredNs tag r.site = none) :
    repRef P tag r = r := by
  unfold repRef; rw [h]

theorem repRef_of_some {P : List (Ns × Plan)} {tag : String} {r : Ref} {ns : Ns} (h : coveredNs tag r.site = some ns) :
    repRef P tag r = { r with target := rep P ns r.target } := by
  unfold repRef; rw [h]

/-- one more `rename_*` pass extends the combined map -/
theorem renAll_cons {P : List (Ns × Plan)} {ns : Ns} (h : ns ∉ P.map (·.1)) (p : Plan) (n : Node) :
    renameNode ns p.ren (renAll P n) = renAll ((ns, p) :: P) n := by
  simp only [renameNode, renAll, List.map_map]
  congr 1
  apply List.map_congr_left
  intro r _
  simp only [Function.comp]
  unfold renameRef
  rw [repRef_site]
  cases hc : coveredNs n.tag r.site with
  | none => simp [repRef_of_none hc]
  | some ns' =>
    rw [repRef_of_some hc, repRef_of_some hc]
    by_cases e : ns' = ns
    · subst e
      simp only [if_true, rep, planOf_cons_self]
      rw [planOf_not_mem h]; rfl
    · have e' : ¬ (some ns' = some ns) := fun h => e (Option.some.inj h)
      simp only [e', if_false, rep, planOf_cons_ne (Ne.symm e)]

/-- a later pass that does not cover the kind of a node leaves it alone -/
theorem renAll_cons_stable (P : List (Ns × Plan)) (ns : Ns) (p : Plan) (n : Node)
    (h : ∀ site, coveredNs n.tag site ≠ some ns) : renAll ((ns, p) :: P) n = renAll P n := by
  simp only [renAll]
  congr 1
  apply List.map_congr_left
  intro r _
  unfold repRef
  cases hc : coveredNs n.tag r.site with
  | none => rfl
  | some ns' =>
    have : ns ≠ ns' := fun e => h r.site (e ▸ hc)
    simp only [rep, planOf_cons_ne this]

/-! ### small facts -/

/-- all namespaces that cover (rename references of) the kinds `tags` are in `ks` -/
def covOK (tags : List String) (ks : List Ns) : Bool :=
  covered.all fun c => !(tags.contains c.1) || ks.contains c.2.2

theorem covOK_spec {tags : List String} {ks : List Ns} (h : covOK tags ks = true) {t site : String} {ns : Ns}
    (ht : t ∈ tags) (hc : coveredNs t site = some ns) : ns ∈ ks := by
  unfold coveredNs at hc
  cases hf : covered.find? (fun c => c.1 == t && c.2.1 == site) with
  | none => rw [hf] at hc; cases hc
  | some c =>
    rw [hf] at hc
    have hmem := List.mem_of_find?_eq_some hf
    have hp := List.find?_some hf
    simp only [Bool.and_eq_true, beq_iff_eq] at hp
    have := List.all_eq_true.mp h c hmem
    simp only [Option.map_some, Option.some.injEq] at hc
    simp only [Bool.or_eq_true, Bool.not_eq_true', List.contains_eq_mem, decide_eq_false_iff_not, decide_eq_true_eq] at this
    rcases this with h1 | h2
    · exact absurd (hp.1 ▸ ht) h1
    · exact hc ▸ h2

/-- the namespaces with `calculate_item_actions` (everything except FUNCTION and GROUP) -/
def Ns.std (ns : Ns) : Prop := ns ≠ .function ∧ ns ≠ .group
instance (ns : Ns) : Decidable ns.std := by unfold Ns.std; exact inferInstance

theorem std_plain {ns : Ns} (h : ns.std) {t : String} (ht : t ∈ ns.tags) : t ≠ "FUNCTION" ∧ t ≠ "GROUP" ∧ t ≠ "MOD_PAR" := by
  obtain ⟨h1, h2⟩ := h
  cases ns <;> first | exact absurd rfl h1 | exact absurd rfl h2 | (revert ht; simp only [Ns.tags, List.mem_cons, List.not_mem_nil, or_false]; intro ht; rcases ht with rfl | rfl | rfl | rfl | rfl <;> decide)

theorem Ext.mem_plain {m m' : Module} (h : Ext m m') {y : Node} (hy : y ∈ m)
    (hp : y.tag ≠ "FUNCTION" ∧ y.tag ≠ "GROUP" ∧ y.tag ≠ "MOD_PAR") : y ∈ m' := by
  obtain ⟨A', new, e, hpw⟩ := h
  obtain ⟨y', hy', hpres⟩ := hpw.mem_left hy
  have := hpres.eq_of_plain hp.1 hp.2.1 hp.2.2
  rw [e]
  exact List.mem_append_left _ (this ▸ hy')

theorem Ext.mem_tag_name {m m' : Module} (h : Ext m m') {y : Node} (hy : y ∈ m) : ∃ y' ∈ m', y'.tag = y.tag ∧ y'.name = y.name := by
  obtain ⟨A', new, e, hpw⟩ := h
  obtain ⟨y', hy', hpres⟩ := hpw.mem_left hy
  exact ⟨y', e ▸ List.mem_append_left _ hy', hpres.tag, hpres.name⟩

theorem flatMap_congr_mem {α β} {f g : α → List β} : ∀ {l : List α}, (∀ x ∈ l, f x = g x) → l.flatMap f = l.flatMap g
  | [], _ => rfl
  | x :: l, h => by
    simp only [List.flatMap_cons]
    rw [h x (List.mem_cons_self ..), flatMap_congr_mem (fun y hy => h y (List.mem_cons_of_mem _ hy))]

theorem nsNodes_congr {ns : Ns} {m m' : Module} (h : ∀ t ∈ ns.tags, m.filter (·.tag == t) = m'.filter (·.tag == t)) :
    nsNodes ns m = nsNodes ns m' := flatMap_congr_mem h

theorem nsNodes_append_other {ns : Ns} (m e : Module) (h : ∀ y ∈ e, y.tag ∉ ns.tags) : nsNodes ns (m ++ e) = nsNodes ns m := by
  apply nsNodes_congr
  intro t ht
  have : e.filter (·.tag == t) = [] := by
    apply List.filter_eq_nil_iff.mpr
    intro y hy hc
    have : y.tag = t := by simpa using hc
    exact h y hy (this ▸ ht)
  rw [List.filter_append, this, List.append_nil]

theorem filter_updFirst_other (q : Node → Bool) (f : Node → Node) (g : Node → Bool)
    (h : ∀ y, q y = true → g y = false ∧ g (f y) = false) : ∀ (m : Module), (updFirst q f m).filter g = m.filter g
  | [] => rfl
  | x :: m => by
    unfold updFirst
    split
    · rename_i hq
      rw [List.filter_cons_of_neg (by simp [(h x hq).2]), List.filter_cons_of_neg (by simp [(h x hq).1])]
    · rw [List.filter_cons, List.filter_cons, filter_updFirst_other q f g h m]

theorem nsNodes_updFirst_other {ns : Ns} (q : Node → Bool) (f : Node → Node) (m : Module)
    (h : ∀ y, q y = true → y.tag ∉ ns.tags) (hf : ∀ y, (f y).tag = y.tag) : nsNodes ns (updFirst q f m) = nsNodes ns m := by
  apply nsNodes_congr
  intro t ht
  apply filter_updFirst_other
  intro y hy
  have : y.tag ≠ t := fun e => h y hy (e ▸ ht)
  simp [hf, this]

theorem mem_updFirst {q : Node → Bool} {f : Node → Node} : ∀ {m : Module} {y : Node}, y ∈ updFirst q f m →
    y ∈ m ∨ ∃ y0 ∈ m, q y0 = true ∧ y = f y0
  | [], _, h => by cases h
  | x :: m, y, h => by
    unfold updFirst at h
    split at h
    · rcases List.mem_cons.mp h with rfl | h
      · exact .inr ⟨x, List.mem_cons_self .., ‹_›, rfl⟩
      · exact .inl (List.mem_cons_of_mem _ h)
    · rcases List.mem_cons.mp h with rfl | h
      · exact .inl (List.mem_cons_self ..)
      · rcases mem_updFirst h with h | ⟨y0, h0, h1, h2⟩
        · exact .inl (List.mem_cons_of_mem _ h)
        · exact .inr ⟨y0, List.mem_cons_of_mem _ h0, h1, h2⟩



/-! ## The fixpoint loop -/


/-! ### the fixpoint loop (`planLoop`) -/

theorem Tbl.get_cons {α} (k : String) (v : α) (t : Tbl α) (n : String) :
    Tbl.get ((k, v) :: t) n = if k = n then some v else Tbl.get t n := Tbl.get_insert t k v n

theorem Tbl.get_append {α} (t₁ t₂ : Tbl α) (n : String) :
    Tbl.get (t₁ ++ t₂) n = match Tbl.get t₁ n with | some v => some v | none => Tbl.get t₂ n := by
  induction t₁ with
  | nil => rfl
  | cons kv t ih =>
    obtain ⟨k, v⟩ := kv
    rw [List.cons_append, Tbl.get_cons, Tbl.get_cons]
    by_cases e : k = n
    · simp [e]
    · simp only [e, if_false]; exact ih

theorem retainNew_get (table new : Tbl String) (k : String) :
    (retainNew table new).get k = if (table.get k).isNone then new.get k else none := by
  unfold retainNew
  induction new with
  | nil => show none = _; split <;> rfl
  | cons kv t ih =>
    obtain ⟨k', v⟩ := kv
    rw [List.filter_cons]
    by_cases e : k' = k
    · subst e
      cases hg : (table.get k').isNone with
      | true => simp [Tbl.get_cons]
      | false =>
        simp only [Bool.false_eq_true, if_false]
        rw [ih, hg]; simp
    · split
      · rw [Tbl.get_cons, Tbl.get_cons, if_neg e, if_neg e]; exact ih
      · rw [Tbl.get_cons, if_neg e]; exact ih

theorem forceTrue_get (table : Tbl String) : ∀ (act : Tbl Bool) (n : String),
    (forceTrue table act).get n = if (table.get n).isSome then some true else act.get n := by
  induction table with
  | nil => intro act n; rfl
  | cons kv t ih =>
    intro act n
    obtain ⟨k, v⟩ := kv
    show (forceTrue t (act.insert k true)).get n = _
    rw [ih, Tbl.get_insert, Tbl.get_cons]
    by_cases e : k = n
    · simp [e]
    · simp [e]

/-- all renames seen as one map: the table `T ns` is applied to the fields covered by `ns` -/
def renWith (T : Ns → Tbl String) (n : Node) : Node :=
  { n with refs := n.refs.map fun r =>
      match coveredNs n.tag r.site with
      | some ns => { r with target := (T ns).app r.target }
      | none => r }

theorem renAll_eq_renWith (P : List (Ns × Plan)) (n : Node) : renAll P n = renWith (fun ns => (planOf P ns).ren) n := rfl

@[simp] theorem renWith_tag (T) (n : Node) : (renWith T n).tag = n.tag := rfl
@[simp] theorem renWith_name (T) (n : Node) : (renWith T n).name = n.name := rfl

theorem renWith_congr {T T' : Ns → Tbl String} {n : Node}
    (h : ∀ site ns, coveredNs n.tag site = some ns → ∀ s, (T ns).app s = (T' ns).app s) : renWith T n = renWith T' n := by
  simp only [renWith]
  congr 1
  apply List.map_congr_left
  intro r _
  cases hc : coveredNs n.tag r.site with
  | none => rfl
  | some ns => simp only [h r.site ns hc]

/-- one more `rename_*` call with the new renames `new` of a round extends the table of `ns` -/
theorem renWith_step (T : Ns → Tbl String) (ns : Ns) (new : Tbl String) (n : Node)
    (c1 : ∀ t v, (T ns).get t = some v → new.get v = none)
    (c2 : ∀ k, (new.get k).isSome → (T ns).get k = none) :
    renameNode ns new (renWith T n) = renWith (fun m => if m = ns then new ++ T ns else T m) n := by
  simp only [renameNode, renWith, List.map_map]
  congr 1
  apply List.map_congr_left
  intro r _
  simp only [Function.comp]
  unfold renameRef
  cases hc : coveredNs n.tag r.site with
  | none => simp [hc]
  | some ns' =>
    simp only [hc]
    by_cases e : ns' = ns
    · subst e
      simp only [if_true]
      congr 1
      unfold Tbl.app
      rw [Tbl.get_append]
      cases hT : (T ns').get r.target with
      | some v =>
        have hn : new.get r.target = none := by
          cases hnew : new.get r.target with
          | none => rfl
          | some w => have := c2 r.target (by simp [hnew]); rw [hT] at this; cases this
        simp [hn, c1 r.target v hT]
      | none =>
        cases hnew : new.get r.target <;> simp [hnew]
    · have e' : ¬ (some ns' = some ns) := fun h => e (Option.some.inj h)
      simp [e', e]

theorem renameNode_nil' (ns : Ns) (n : Node) : renameNode ns [] n = n := by
  cases n with
  | mk t nm h refs =>
    simp only [renameNode, Node.mk.injEq, true_and]
    rw [List.map_congr_left (g := id) (fun r _ => by unfold renameRef; split <;> rfl), List.map_id]

theorem map_renameNode_nil (ns : Ns) (m : Module) : m.map (renameNode ns []) = m := by
  rw [List.map_congr_left (g := id) (fun x _ => renameNode_nil' ns x), List.map_id]

theorem nsNodes_map (ns : Ns) (f : Node → Node) (hf : ∀ n, (f n).tag = n.tag) (m : Module) :
    nsNodes ns (m.map f) = (nsNodes ns m).map f := by
  unfold nsNodes
  induction ns.tags with
  | nil => rfl
  | cons t ts ih =>
    simp only [List.flatMap_cons, List.map_append, ih]
    congr 1
    rw [List.filter_map]
    congr 1
    apply List.filter_congr
    intro x _
    simp [hf]

theorem nsNodes_names_map (ns : Ns) (f : Node → Node) (hf : ∀ n, (f n).tag = n.tag ∧ (f n).name = n.name) (m : Module) :
    (nsNodes ns (m.map f)).map (·.name) = (nsNodes ns m).map (·.name) := by
  rw [nsNodes_map ns f (fun n => (hf n).1), List.map_map]
  apply List.map_congr_left
  intro x _
  exact (hf x).2

theorem uniqueLoop_congr {t₁ t₂ : String → Bool} (h : ∀ s, t₁ s = t₂ s) (c : String) :
    ∀ (fuel idx : Nat), uniqueLoop t₁ c fuel idx = uniqueLoop t₂ c fuel idx
  | 0, _ => rfl
  | fuel + 1, idx => by
    unfold uniqueLoop
    rw [h, uniqueLoop_congr h c fuel (idx + 1)]

theorem lookup_isSome_congr {l l' : List Node} (h : l.map (·.name) = l'.map (·.name)) (s : String) :
    (lookup l s).isSome = (lookup l' s).isSome := by
  cases h1 : (lookup l s).isSome with
  | true => exact (mem_lookup_isSome (h ▸ lookup_isSome_mem h1)).symm
  | false =>
    cases h2 : (lookup l' s).isSome with
    | false => rfl
    | true => rw [mem_lookup_isSome (h.symm ▸ lookup_isSome_mem h2)] at h1; cases h1

/-- `make_unique_name` only looks at the names of the merge module's items -/
theorem makeUniqueName_congr (c : String) (orig : List Node) {merge merge' : List Node}
    (h : merge.map (·.name) = merge'.map (·.name)) : makeUniqueName c orig merge = makeUniqueName c orig merge' := by
  unfold makeUniqueName
  have hl : merge.length = merge'.length := by simpa using congrArg List.length h
  rw [hl]
  apply uniqueLoop_congr
  intro s
  unfold nameTaken
  rw [lookup_isSome_congr h]

theorem calc_ren_key_mem (orig merge : List Node) (S : List String) : ∀ (l : List Node) (p : Plan),
    (∀ n f, p.ren.get n = some f → n ∈ S) → (∀ b ∈ l, b.name ∈ S) →
    ∀ n f, (l.foldl (calcStep orig merge) p).ren.get n = some f → n ∈ S
  | [], _, h, _ => h
  | b :: l, p, h, hl => by
    simp only [List.foldl_cons]
    apply calc_ren_key_mem orig merge S l _ _ (fun b hb => hl b (List.mem_cons_of_mem _ hb))
    intro n f hf
    rw [calcStep_ren] at hf
    split at hf
    · rw [Tbl.get_insert] at hf
      split at hf
      · rename_i e; exact e ▸ hl b (List.mem_cons_self ..)
      · exact h n f hf
    · exact h n f hf

theorem calcActions_ren_key_mem (orig merge : List Node) (n f : String) (h : (calcActions orig merge).ren.get n = some f) :
    n ∈ merge.map (·.name) :=
  calc_ren_key_mem orig merge _ merge ⟨[], []⟩ (fun _ _ h => by cases h) (fun b hb => List.mem_map.mpr ⟨b, hb, rfl⟩) n f h

/-- the entries of a rename table of namespace `ns`: the key is the name of an item of B's namespace that has a namesake
    in A, the value is the fresh name made for it -/
def TblOK (a b0 : Module) (ns : Ns) (T : Tbl String) : Prop :=
  ∀ k v, T.get k = some v → k ∈ (nsNodes ns b0).map (·.name) ∧ (lookup (nsNodes ns a) k).isSome = true ∧
    v = makeUniqueName k (nsNodes ns a) (nsNodes ns b0)

theorem TblOK.nil (a b0 : Module) (ns : Ns) : TblOK a b0 ns [] := fun _ _ h => by cases h

theorem TblOK.value_not_key {a b0 : Module} {ns : Ns} {T T' : Tbl String} (h : TblOK a b0 ns T) (h' : TblOK a b0 ns T')
    {t v : String} (hv : T.get t = some v) : T'.get v = none := by
  cases hg : T'.get v with
  | none => rfl
  | some w =>
    have h1 := (h' v _ hg).1
    have h2 := (h t v hv).2.2
    exact absurd (h2 ▸ h1) (makeUniqueName_not_mem t _ _).2

theorem TblOK.append {a b0 : Module} {ns : Ns} {T T' : Tbl String} (h : TblOK a b0 ns T) (h' : TblOK a b0 ns T') :
    TblOK a b0 ns (T ++ T') := by
  intro k v hg
  rw [Tbl.get_append] at hg
  cases h1 : T.get k with
  | some w => rw [h1] at hg; exact (Option.some.inj hg) ▸ h k w h1
  | none => rw [h1] at hg; exact h' k v hg

/-- the new renames of a round are well-formed entries -/
theorem tblOK_retain (a b0 b : Module) (ns : Ns) (T : Tbl String)
    (hn : (nsNodes ns b).map (·.name) = (nsNodes ns b0).map (·.name)) :
    TblOK a b0 ns (retainNew T (calcActions (nsNodes ns a) (nsNodes ns b)).ren) := by
  intro k v hg
  rw [retainNew_get] at hg
  split at hg
  · refine ⟨hn ▸ calcActions_ren_key_mem _ _ k v hg, ((calcActions_general _ _).1 k v hg).2, ?_⟩
    rw [((calcActions_general _ _).1 k v hg).1]
    exact makeUniqueName_congr k _ hn
  · cases hg

/-- the loop invariant that does not mention the rest of the merge -/
structure LI (a b0 : Module) (nss : List Ns) (b : Module) (ts : Ns → Tbl String) : Prop where
  tok : ∀ ns, TblOK a b0 ns (ts ns)
  names : ∀ ns, (nsNodes ns b).map (·.name) = (nsNodes ns b0).map (·.name)
  nil : ∀ ns, ns ∉ nss → ts ns = []

/-- the invariant inside a round; `done` = the namespaces already processed in this round -/
structure RI (a b0 : Module) (nss : List Ns) (ts : Ns → Tbl String) (done : List Ns) (r : Round) : Prop where
  li : LI a b0 nss r.b (fun m => r.new m ++ ts m)
  fresh : ∀ m k, ((r.new m).get k).isSome = true → (ts m).get k = none
  undone : ∀ m, m ∉ done → r.new m = []
  snap : ∀ m ∈ done, ∃ bm, r.act m = (calcActions (nsNodes m a) (nsNodes m bm)).act ∧
    (∀ k v, (calcActions (nsNodes m a) (nsNodes m bm)).ren.get k = some v → ((r.new m ++ ts m).get k).isSome = true) ∧
    (bm = r.b ∨ ∃ m' ∈ done, r.new m' ≠ [])

theorem roundStep_b (a : Module) (ts : Ns → Tbl String) (r : Round) (ns : Ns) :
    (roundStep a ts r ns).b = r.b.map (renameNode ns (retainNew (ts ns) (calcActions (nsNodes ns a) (nsNodes ns r.b)).ren)) := rfl
theorem roundStep_new (a : Module) (ts : Ns → Tbl String) (r : Round) (ns m : Ns) :
    (roundStep a ts r ns).new m =
      if m = ns then retainNew (ts ns) (calcActions (nsNodes ns a) (nsNodes ns r.b)).ren else r.new m := rfl
theorem roundStep_act (a : Module) (ts : Ns → Tbl String) (r : Round) (ns m : Ns) :
    (roundStep a ts r ns).act m = if m = ns then (calcActions (nsNodes ns a) (nsNodes ns r.b)).act else r.act m := rfl

theorem ri_step {a b0 : Module} {nss : List Ns} {ts : Ns → Tbl String} {done : List Ns} {r : Round}
    (h : RI a b0 nss ts done r) (hts : ∀ ns, TblOK a b0 ns (ts ns)) {ns : Ns} (hns : ns ∈ nss) (hnd : ns ∉ done) :
    RI a b0 nss ts (done ++ [ns]) (roundStep a ts r ns) := by
  have hnew0 : r.new ns = [] := h.undone ns hnd
  have hnames := h.li.names
  have hok : TblOK a b0 ns (retainNew (ts ns) (calcActions (nsNodes ns a) (nsNodes ns r.b)).ren) :=
    tblOK_retain a b0 r.b ns (ts ns) (hnames ns)
  refine ⟨⟨?_, ?_, ?_⟩, ?_, ?_, ?_⟩
  · intro m
    rw [roundStep_new]
    by_cases e : m = ns
    · subst e; rw [if_pos rfl]; exact hok.append (hts m)
    · rw [if_neg e]; exact h.li.tok m
  · intro m
    rw [roundStep_b, nsNodes_names_map m (renameNode ns _) (fun n => ⟨rfl, rfl⟩)]
    exact hnames m
  · intro m hm
    rw [roundStep_new]
    have e : m ≠ ns := fun e => hm (e ▸ hns)
    rw [if_neg e]
    exact h.li.nil m hm
  · intro m k hk
    rw [roundStep_new] at hk
    by_cases e : m = ns
    · subst e
      rw [if_pos rfl, retainNew_get] at hk
      split at hk
      · rename_i hnone; simpa using hnone
      · cases hk
    · rw [if_neg e] at hk; exact h.fresh m k hk
  · intro m hm
    rw [roundStep_new]
    have e : m ≠ ns := fun e => hm (List.mem_append_right _ (List.mem_singleton.mpr e))
    rw [if_neg e]
    exact h.undone m (fun hd => hm (List.mem_append_left _ hd))
  · intro m hm
    by_cases e : m = ns
    · subst e
      refine ⟨r.b, ?_, ?_, ?_⟩
      · rw [roundStep_act, if_pos rfl]
      · intro k v hkv
        rw [roundStep_new, if_pos rfl, Tbl.get_append, retainNew_get]
        cases hT : (ts m).get k with
        | none => simp [hkv]
        | some w => simp
      · by_cases hnil : retainNew (ts m) (calcActions (nsNodes m a) (nsNodes m r.b)).ren = []
        · left; rw [roundStep_b, hnil, map_renameNode_nil]
        · right
          exact ⟨m, List.mem_append_right _ (List.mem_singleton.mpr rfl), by rw [roundStep_new, if_pos rfl]; exact hnil⟩
    · have hm' : m ∈ done := by
        rcases List.mem_append.mp hm with h1 | h1
        · exact h1
        · exact absurd (List.mem_singleton.mp h1) e
      obtain ⟨bm, h1, h2, h3⟩ := h.snap m hm'
      refine ⟨bm, ?_, ?_, ?_⟩
      · rw [roundStep_act, if_neg e]; exact h1
      · rw [roundStep_new, if_neg e]; exact h2
      · by_cases hnil : retainNew (ts ns) (calcActions (nsNodes ns a) (nsNodes ns r.b)).ren = []
        · rcases h3 with h3 | ⟨m', hm'd, hm'n⟩
          · left; rw [roundStep_b, hnil, map_renameNode_nil]; exact h3
          · right
            refine ⟨m', List.mem_append_left _ hm'd, ?_⟩
            rw [roundStep_new]
            have : m' ≠ ns := fun e' => hnd (e' ▸ hm'd)
            rw [if_neg this]; exact hm'n
        · right
          exact ⟨ns, List.mem_append_right _ (List.mem_singleton.mpr rfl), by rw [roundStep_new, if_pos rfl]; exact hnil⟩

theorem ri_foldl {a b0 : Module} {nss : List Ns} {ts : Ns → Tbl String} (hts : ∀ ns, TblOK a b0 ns (ts ns)) :
    ∀ (l done : List Ns) (r : Round), RI a b0 nss ts done r → (∀ ns ∈ l, ns ∈ nss ∧ ns ∉ done) → l.Nodup →
      RI a b0 nss ts (done ++ l) (l.foldl (roundStep a ts) r)
  | [], done, r, h, _, _ => by simpa using h
  | ns :: l, done, r, h, hl, hn => by
    have hn' := List.nodup_cons.mp hn
    have h1 := ri_step h hts (hl ns (List.mem_cons_self ..)).1 (hl ns (List.mem_cons_self ..)).2
    have := ri_foldl hts l (done ++ [ns]) _ h1 (fun m hm => ⟨(hl m (List.mem_cons_of_mem _ hm)).1, fun hd => by
      rcases List.mem_append.mp hd with h2 | h2
      · exact (hl m (List.mem_cons_of_mem _ hm)).2 h2
      · exact hn'.1 (List.mem_singleton.mp h2 ▸ hm)⟩) hn'.2
    simpa [List.append_assoc] using this

theorem ri_init {a b0 : Module} {nss : List Ns} {b : Module} {ts : Ns → Tbl String} (h : LI a b0 nss b ts) :
    RI a b0 nss ts [] ⟨b, fun _ => [], fun _ => []⟩ where
  li := ⟨h.tok, h.names, h.nil⟩
  fresh _ _ hk := by cases hk
  undone _ _ := rfl
  snap _ hm := by cases hm

theorem ri_round {a b0 : Module} {nss : List Ns} {b : Module} {ts : Ns → Tbl String} (h : LI a b0 nss b ts) (hn : nss.Nodup) :
    RI a b0 nss ts nss (loopRound a ts nss b) := by
  have := ri_foldl h.tok nss [] _ (ri_init h) (fun ns hns => ⟨hns, fun h => by cases h⟩) hn
  simpa [loopRound] using this

/-- B's current nodes are the nodes `Bf` with all renames so far applied: `base` = the tables of the other passes -/
def RB (Bf : Module) (base : Ns → Tbl String) (ts : Ns → Tbl String) (r : Round) : Prop :=
  r.b = Bf.map (renWith fun m => (r.new m ++ ts m) ++ base m)

theorem rb_step {a b0 : Module} {nss : List Ns} {ts : Ns → Tbl String} {done : List Ns} {r : Round}
    (h : RI a b0 nss ts done r) (hts : ∀ ns, TblOK a b0 ns (ts ns)) {ns : Ns} (hnd : ns ∉ done)
    {Bf : Module} {base : Ns → Tbl String} (hbase : base ns = []) (hb : RB Bf base ts r) :
    RB Bf base ts (roundStep a ts r ns) := by
  have hnew0 : r.new ns = [] := h.undone ns hnd
  have hok : TblOK a b0 ns (retainNew (ts ns) (calcActions (nsNodes ns a) (nsNodes ns r.b)).ren) :=
    tblOK_retain a b0 r.b ns (ts ns) (h.li.names ns)
  unfold RB at hb ⊢
  have hnewdef : ∀ m, (roundStep a ts r ns).new m =
      if m = ns then retainNew (ts ns) (calcActions (nsNodes ns a) (nsNodes ns r.b)).ren else r.new m := fun m => rfl
  have hfresh : ∀ k, ((retainNew (ts ns) (calcActions (nsNodes ns a) (nsNodes ns r.b)).ren).get k).isSome = true →
      (ts ns).get k = none := by
    intro k hk
    rw [retainNew_get] at hk
    split at hk
    · rename_i hnone; simpa using hnone
    · cases hk
  rw [roundStep_b]
  generalize retainNew (ts ns) (calcActions (nsNodes ns a) (nsNodes ns r.b)).ren = new at hok hnewdef hfresh ⊢
  rw [hb, List.map_map]
  apply List.map_congr_left
  intro x _
  simp only [Function.comp]
  have hT : r.new ns ++ ts ns ++ base ns = ts ns := by simp [hnew0, hbase]
  rw [renWith_step _ ns _ x]
  · congr 1
    funext m
    rw [hnewdef]
    by_cases e : m = ns
    · subst e; simp [hnew0, hbase]
    · simp [e]
  · intro t v hv
    simp only [hT] at hv
    exact (hts ns).value_not_key hok hv
  · intro k hk
    simp only [hT]
    exact hfresh k hk

theorem rb_foldl {a b0 : Module} {nss : List Ns} {ts : Ns → Tbl String} (hts : ∀ ns, TblOK a b0 ns (ts ns))
    {Bf : Module} {base : Ns → Tbl String} (hbase : ∀ ns ∈ nss, base ns = []) :
    ∀ (l done : List Ns) (r : Round), RI a b0 nss ts done r → (∀ ns ∈ l, ns ∈ nss ∧ ns ∉ done) → l.Nodup →
      RB Bf base ts r → RB Bf base ts (l.foldl (roundStep a ts) r)
  | [], _, _, _, _, _, hb => hb
  | ns :: l, done, r, h, hl, hn, hb => by
    have hn' := List.nodup_cons.mp hn
    have h0 := hl ns (List.mem_cons_self ..)
    have h1 := ri_step h hts h0.1 h0.2
    exact rb_foldl hts hbase l (done ++ [ns]) _ h1 (fun m hm => ⟨(hl m (List.mem_cons_of_mem _ hm)).1, fun hd => by
      rcases List.mem_append.mp hd with h2 | h2
      · exact (hl m (List.mem_cons_of_mem _ hm)).2 h2
      · exact hn'.1 (List.mem_singleton.mp h2 ▸ hm)⟩) hn'.2 (rb_step h hts h0.2 (hbase ns h0.1) hb)

theorem rb_round {a b0 : Module} {nss : List Ns} {b : Module} {ts : Ns → Tbl String} (h : LI a b0 nss b ts) (hn : nss.Nodup)
    {Bf : Module} {base : Ns → Tbl String} (hbase : ∀ ns ∈ nss, base ns = [])
    (hb : b = Bf.map (renWith fun m => ts m ++ base m)) :
    (loopRound a ts nss b).b = Bf.map (renWith fun m => ((loopRound a ts nss b).new m ++ ts m) ++ base m) :=
  rb_foldl h.tok hbase nss [] _ (ri_init h) (fun ns hns => ⟨hns, fun h => by cases h⟩) hn hb

/-! the measure: the items of B (of the namespaces of the loop) that are not yet renamed -/

def cnt (b0 : Module) (ns : Ns) (T : Tbl String) : Nat :=
  ((nsNodes ns b0).filter fun m => (T.get m.name).isNone).length

def loopMeasure (b0 : Module) (nss : List Ns) (ts : Ns → Tbl String) : Nat := (nss.map fun ns => cnt b0 ns (ts ns)).sum

theorem length_filter_le_of_imp {α} (p q : α → Bool) : ∀ (l : List α), (∀ x ∈ l, p x = true → q x = true) →
    (l.filter p).length ≤ (l.filter q).length
  | [], _ => Nat.le_refl _
  | x :: l, h => by
    have ih := length_filter_le_of_imp p q l (fun y hy => h y (List.mem_cons_of_mem _ hy))
    by_cases hp : p x = true
    · rw [List.filter_cons_of_pos hp, List.filter_cons_of_pos (h x (List.mem_cons_self ..) hp)]
      simp only [List.length_cons]; omega
    · rw [List.filter_cons_of_neg hp]
      by_cases hq : q x = true
      · rw [List.filter_cons_of_pos hq]; simp only [List.length_cons]; omega
      · rw [List.filter_cons_of_neg hq]; exact ih

theorem length_filter_lt_of_imp {α} (p q : α → Bool) : ∀ (l : List α), (∀ x ∈ l, p x = true → q x = true) →
    (∃ x ∈ l, q x = true ∧ p x = false) → (l.filter p).length < (l.filter q).length
  | [], _, ⟨_, hx, _⟩ => by cases hx
  | x :: l, h, ⟨y, hy, hqy, hpy⟩ => by
    have hle := length_filter_le_of_imp p q l (fun z hz => h z (List.mem_cons_of_mem _ hz))
    rcases List.mem_cons.mp hy with rfl | hy'
    · rw [List.filter_cons_of_neg (by simp [hpy]), List.filter_cons_of_pos hqy]
      simp only [List.length_cons]; omega
    · have ih := length_filter_lt_of_imp p q l (fun z hz => h z (List.mem_cons_of_mem _ hz)) ⟨y, hy', hqy, hpy⟩
      by_cases hp : p x = true
      · rw [List.filter_cons_of_pos hp, List.filter_cons_of_pos (h x (List.mem_cons_self ..) hp)]
        simp only [List.length_cons]; omega
      · rw [List.filter_cons_of_neg hp]
        by_cases hq : q x = true
        · rw [List.filter_cons_of_pos hq]; simp only [List.length_cons]; omega
        · rw [List.filter_cons_of_neg hq]; exact ih

theorem sum_map_lt {α} (f g : α → Nat) : ∀ (l : List α), (∀ x ∈ l, f x ≤ g x) → (∃ x ∈ l, f x < g x) →
    (l.map f).sum < (l.map g).sum
  | [], _, ⟨_, hx, _⟩ => by cases hx
  | x :: l, h, ⟨y, hy, hlt⟩ => by
    have hle : (l.map f).sum ≤ (l.map g).sum := by
      clear hy hlt
      induction l with
      | nil => exact Nat.le_refl _
      | cons z l ih =>
        simp only [List.map_cons, List.sum_cons]
        have := h z (List.mem_cons_of_mem _ (List.mem_cons_self ..))
        have := ih (fun w hw => h w (by
          rcases List.mem_cons.mp hw with rfl | hw
          · exact List.mem_cons_self ..
          · exact List.mem_cons_of_mem _ (List.mem_cons_of_mem _ hw)))
        omega
    simp only [List.map_cons, List.sum_cons]
    rcases List.mem_cons.mp hy with rfl | hy'
    · omega
    · have := sum_map_lt f g l (fun z hz => h z (List.mem_cons_of_mem _ hz)) ⟨y, hy', hlt⟩
      have := h x (List.mem_cons_self ..)
      omega

/-- a round that is not the last one renames at least one more item -/
theorem measure_decreases {a b0 : Module} {nss : List Ns} {ts : Ns → Tbl String} {r : Round} (h : RI a b0 nss ts nss r)
    (hnot : ¬ ∀ ns ∈ nss, r.new ns = []) :
    loopMeasure b0 nss (fun ns => r.new ns ++ ts ns) < loopMeasure b0 nss ts := by
  unfold loopMeasure
  apply sum_map_lt
  · intro ns _
    unfold cnt
    apply length_filter_le_of_imp
    intro m _ hm
    rw [Tbl.get_append] at hm
    cases h1 : (r.new ns).get m.name with
    | some v => rw [h1] at hm; cases hm
    | none => rw [h1] at hm; exact hm
  · have : ∃ ns ∈ nss, r.new ns ≠ [] := by
      apply Classical.byContradiction
      intro hc
      apply hnot
      intro ns hns
      apply Classical.byContradiction
      intro hne
      exact hc ⟨ns, hns, hne⟩
    obtain ⟨ns, hns, hne⟩ := this
    refine ⟨ns, hns, ?_⟩
    unfold cnt
    cases hnew : r.new ns with
    | nil => exact absurd hnew hne
    | cons kv t =>
      obtain ⟨k, v⟩ := kv
      have hget : (r.new ns).get k = some v := by rw [hnew, Tbl.get_cons, if_pos rfl]
      have hk := (h.li.tok ns k v (by rw [Tbl.get_append, hget])).1
      obtain ⟨m, hm, hmk⟩ := List.mem_map.mp hk
      show (List.filter (fun m => ((r.new ns ++ ts ns).get m.name).isNone) (nsNodes ns b0)).length < _
      apply length_filter_lt_of_imp
      · intro m' _ hm'
        rw [Tbl.get_append] at hm'
        cases h1 : (r.new ns).get m'.name with
        | some v => rw [h1] at hm'; cases hm'
        | none => rw [h1] at hm'; exact hm'
      · refine ⟨m, hm, ?_, ?_⟩
        · have := h.fresh ns k (by rw [hget]; rfl)
          simp [hmk, this]
        · simp only [hmk]
          rw [Tbl.get_append, hget]; rfl

theorem cnt_le (b0 : Module) (ns : Ns) (T : Tbl String) : cnt b0 ns T ≤ (nsNodes ns b0).length :=
  List.length_filter_le _ _

theorem loopMeasure_le_fuel (b0 : Module) (nss : List Ns) (ts : Ns → Tbl String) :
    loopMeasure b0 nss ts + 1 ≤ loopFuel nss b0 := by
  unfold loopMeasure loopFuel
  have : (nss.map fun ns => cnt b0 ns (ts ns)).sum ≤ (nss.map fun ns => (nsNodes ns b0).length).sum := by
    induction nss with
    | nil => exact Nat.le_refl _
    | cons x l ih => simp only [List.map_cons, List.sum_cons]; have := cnt_le b0 x (ts x); omega
  omega

theorem fixLoop_succ (a : Module) (nss : List Ns) (fuel : Nat) (b : Module) (ts : Ns → Tbl String) :
    fixLoop a nss (fuel + 1) b ts =
      if nss.all (fun ns => ((loopRound a ts nss b).new ns).isEmpty) = true then
        ((loopRound a ts nss b).b, fun ns => ⟨forceTrue ((loopRound a ts nss b).new ns ++ ts ns) ((loopRound a ts nss b).act ns),
          (loopRound a ts nss b).new ns ++ ts ns⟩)
      else fixLoop a nss fuel (loopRound a ts nss b).b (fun ns => (loopRound a ts nss b).new ns ++ ts ns) := rfl

theorem all_isEmpty_iff (nss : List Ns) (f : Ns → Tbl String) :
    nss.all (fun ns => (f ns).isEmpty) = true ↔ ∀ ns ∈ nss, f ns = [] := by
  simp [List.all_eq_true, List.isEmpty_iff]

/-- what the loop returns: the final merge module with the accumulated rename tables, which is a fixpoint: computing
    the actions once more on it yields the returned actions (up to the forcing) and no rename that is not in the tables -/
structure LoopRes (a b0 : Module) (nss : List Ns) (res : Module × (Ns → Plan)) : Prop where
  li : LI a b0 nss res.1 (fun ns => (res.2 ns).ren)
  act : ∀ ns ∈ nss, ∀ n, (res.2 ns).act.get n =
    if ((res.2 ns).ren.get n).isSome then some true else (calcActions (nsNodes ns a) (nsNodes ns res.1)).act.get n
  conf : ∀ ns ∈ nss, ∀ k v, (calcActions (nsNodes ns a) (nsNodes ns res.1)).ren.get k = some v →
    ((res.2 ns).ren.get k).isSome = true

theorem fixLoop_spec {a b0 : Module} {nss : List Ns} (hn : nss.Nodup) : ∀ (fuel : Nat) (b : Module) (ts : Ns → Tbl String),
    LI a b0 nss b ts → loopMeasure b0 nss ts + 1 ≤ fuel →
    LoopRes a b0 nss (fixLoop a nss fuel b ts) ∧
    (∀ (Bf : Module) (base : Ns → Tbl String), (∀ ns ∈ nss, base ns = []) → b = Bf.map (renWith fun m => ts m ++ base m) →
       (fixLoop a nss fuel b ts).1 = Bf.map (renWith fun m => ((fixLoop a nss fuel b ts).2 m).ren ++ base m))
  | 0, _, _, _, hf => by omega
  | fuel + 1, b, ts, h, hf => by
    have hri := ri_round h hn
    rw [fixLoop_succ]
    by_cases hall : nss.all (fun ns => ((loopRound a ts nss b).new ns).isEmpty) = true
    · rw [if_pos hall]
      have hnil := (all_isEmpty_iff nss _).mp hall
      have hsnap : ∀ m ∈ nss, (loopRound a ts nss b).act m = (calcActions (nsNodes m a) (nsNodes m (loopRound a ts nss b).b)).act ∧
          ∀ k v, (calcActions (nsNodes m a) (nsNodes m (loopRound a ts nss b).b)).ren.get k = some v →
            (((loopRound a ts nss b).new m ++ ts m).get k).isSome = true := by
        intro m hm
        obtain ⟨bm, h1, h2, h3⟩ := hri.snap m hm
        rcases h3 with rfl | ⟨m', hm', hne⟩
        · exact ⟨h1, h2⟩
        · exact absurd (hnil m' hm') hne
      refine ⟨⟨hri.li, ?_, ?_⟩, ?_⟩
      · intro ns hns n
        show (forceTrue _ _).get n = _
        rw [forceTrue_get, (hsnap ns hns).1]
      · intro ns hns k v hkv
        exact (hsnap ns hns).2 k v hkv
      · intro Bf base hbase hb
        exact rb_round h hn hbase hb
    · rw [if_neg hall]
      have hnot : ¬ ∀ ns ∈ nss, (loopRound a ts nss b).new ns = [] := fun hc => hall ((all_isEmpty_iff nss _).mpr hc)
      have hdec := measure_decreases hri hnot
      have ih := fixLoop_spec hn fuel (loopRound a ts nss b).b (fun ns => (loopRound a ts nss b).new ns ++ ts ns) hri.li (by omega)
      refine ⟨ih.1, ?_⟩
      intro Bf base hbase hb
      exact ih.2 Bf base hbase (rb_round h hn hbase hb)

/-- more fuel does not change the result: the fuel is never what stops the loop -/
theorem fixLoop_fuel_irrelevant {a b0 : Module} {nss : List Ns} (hn : nss.Nodup) : ∀ (f₁ f₂ : Nat) (b : Module) (ts : Ns → Tbl String),
    LI a b0 nss b ts → loopMeasure b0 nss ts + 1 ≤ f₁ → loopMeasure b0 nss ts + 1 ≤ f₂ →
    fixLoop a nss f₁ b ts = fixLoop a nss f₂ b ts
  | 0, _, _, _, _, h1, _ => by omega
  | _ + 1, 0, _, _, _, _, h2 => by omega
  | f₁ + 1, f₂ + 1, b, ts, h, h1, h2 => by
    have hri := ri_round h hn
    rw [fixLoop_succ, fixLoop_succ]
    by_cases hall : nss.all (fun ns => ((loopRound a ts nss b).new ns).isEmpty) = true
    · rw [if_pos hall, if_pos hall]
    · rw [if_neg hall, if_neg hall]
      have hnot : ¬ ∀ ns ∈ nss, (loopRound a ts nss b).new ns = [] := fun hc => hall ((all_isEmpty_iff nss _).mpr hc)
      have hdec := measure_decreases hri hnot
      exact fixLoop_fuel_irrelevant hn f₁ f₂ _ _ hri.li (by omega) (by omega)

theorem li_init (a b : Module) (nss : List Ns) : LI a b nss b (fun _ => []) :=
  ⟨fun ns => TblOK.nil a b ns, fun _ => rfl, fun _ _ => rfl⟩

/-- the number of rounds the loop makes when it has enough fuel (`none`: the fuel ran out) -/
def loopRounds (a : Module) (nss : List Ns) : Nat → Module → (Ns → Tbl String) → Option Nat
  | 0, _, _ => none
  | fuel + 1, b, ts =>
    if nss.all (fun ns => ((loopRound a ts nss b).new ns).isEmpty) = true then some 1
    else (loopRounds a nss fuel (loopRound a ts nss b).b (fun ns => (loopRound a ts nss b).new ns ++ ts ns)).map (· + 1)

theorem loopRounds_spec {a b0 : Module} {nss : List Ns} (hn : nss.Nodup) : ∀ (fuel : Nat) (b : Module) (ts : Ns → Tbl String),
    LI a b0 nss b ts → loopMeasure b0 nss ts + 1 ≤ fuel →
    ∃ k, loopRounds a nss fuel b ts = some k ∧ 1 ≤ k ∧ k ≤ loopMeasure b0 nss ts + 1
  | 0, _, _, _, hf => by omega
  | fuel + 1, b, ts, h, hf => by
    have hri := ri_round h hn
    unfold loopRounds
    by_cases hall : nss.all (fun ns => ((loopRound a ts nss b).new ns).isEmpty) = true
    · rw [if_pos hall]; exact ⟨1, rfl, Nat.le_refl _, by omega⟩
    · rw [if_neg hall]
      have hnot : ¬ ∀ ns ∈ nss, (loopRound a ts nss b).new ns = [] := fun hc => hall ((all_isEmpty_iff nss _).mpr hc)
      have hdec := measure_decreases hri hnot
      obtain ⟨k, hk, hk1, hk2⟩ := loopRounds_spec hn fuel _ _ hri.li (by omega)
      exact ⟨k + 1, by rw [hk]; rfl, by omega, by omega⟩

/-! ### what a plan step achieves (`PlanSpec`), for the single round `planNs` and for the loop `planLoop` -/

def planEntries (nss : List Ns) (pl : Ns → Plan) : List (Ns × Plan) := (nss.map fun ns => (ns, pl ns)).reverse

theorem planOf_entries_append (pl : Ns → Plan) (P : List (Ns × Plan)) : ∀ (E : List Ns) (m : Ns),
    planOf (E.map (fun ns => (ns, pl ns)) ++ P) m = if m ∈ E then pl m else planOf P m
  | [], m => by simp
  | ns :: E, m => by
    simp only [List.map_cons, List.cons_append]
    by_cases e : ns = m
    · subst e; rw [planOf_cons_self]; simp
    · rw [planOf_cons_ne e, planOf_entries_append pl P E m]
      have : (m ∈ ns :: E) ↔ m ∈ E := by simp [Ne.symm e]
      by_cases h : m ∈ E <;> simp [h, Ne.symm e]

theorem planOf_planEntries (nss : List Ns) (pl : Ns → Plan) (P : List (Ns × Plan)) (m : Ns) :
    planOf (planEntries nss pl ++ P) m = if m ∈ nss then pl m else planOf P m := by
  unfold planEntries
  rw [← List.map_reverse, planOf_entries_append]
  simp

theorem planEntries_keys (nss : List Ns) (pl : Ns → Plan) : (planEntries nss pl).map (·.1) = nss.reverse := by
  simp [planEntries, List.map_reverse, Function.comp_def]

structure PlanSpec (nss : List Ns) (pl : Ns → Plan) (st st' : St) : Prop where
  a_eq : st'.a = st.a
  plans_eq : st'.plans = planEntries nss pl ++ st.plans
  b_eq : ∀ (Bf : Module) (P : List (Ns × Plan)), st.b = Bf.map (renAll P) → (∀ ns ∈ nss, ns ∉ P.map (·.1)) →
    st'.b = Bf.map (renAll (planEntries nss pl ++ P))
  tbl : ∀ ns ∈ nss, TblOK st.a st.b ns (pl ns).ren
  act : ∀ ns ∈ nss, ∀ n, (pl ns).act.get n =
    if ((pl ns).ren.get n).isSome then some true else (calcActions (nsNodes ns st.a) (nsNodes ns st'.b)).act.get n
  conf : ∀ ns ∈ nss, ∀ k v, (calcActions (nsNodes ns st.a) (nsNodes ns st'.b)).ren.get k = some v →
    ((pl ns).ren.get k).isSome = true

theorem planLoop_spec (nss : List Ns) (hn : nss.Nodup) (st : St) :
    PlanSpec nss (fixLoop st.a nss (loopFuel nss st.b) st.b (fun _ => [])).2 st (planLoop nss st) := by
  have hspec := fixLoop_spec (a := st.a) (b0 := st.b) hn (loopFuel nss st.b) st.b (fun _ => []) (li_init st.a st.b nss)
    (loopMeasure_le_fuel st.b nss _)
  obtain ⟨hres, hlb⟩ := hspec
  refine ⟨rfl, rfl, ?_, fun ns _ => hres.li.tok ns, hres.act, hres.conf⟩
  intro Bf P hb hP
  have hbase : ∀ ns ∈ nss, (fun m => (planOf P m).ren) ns = [] := fun ns hns => by
    show (planOf P ns).ren = []
    rw [planOf_not_mem (hP ns hns)]
  have := hlb Bf (fun m => (planOf P m).ren) hbase hb
  show (fixLoop st.a nss (loopFuel nss st.b) st.b (fun _ => [])).1 = _
  rw [this]
  apply List.map_congr_left
  intro x _
  rw [renAll_eq_renWith]
  congr 1
  funext m
  rw [planOf_planEntries]
  by_cases hm : m ∈ nss
  · rw [if_pos hm]
    have := hbase m hm
    simp only at this
    rw [this, List.append_nil]
  · rw [if_neg hm, hres.li.nil m hm]; rfl

/-- the namespace does not rename references of its own elements (COMPU_TAB…, COMPU_METHOD, RECORD_LAYOUT, FRAME) -/
def selfFree (ns : Ns) : Bool := covered.all fun c => !(ns.tags.contains c.1 && c.2.2 == ns)

theorem selfFree_spec {ns : Ns} (h : selfFree ns = true) {n : Node} (hn : n.tag ∈ ns.tags) (site : String) :
    coveredNs n.tag site ≠ some ns := by
  intro hc
  unfold coveredNs at hc
  cases hf : covered.find? (fun c => c.1 == n.tag && c.2.1 == site) with
  | none => rw [hf] at hc; cases hc
  | some c =>
    rw [hf] at hc
    have hmem := List.mem_of_find?_eq_some hf
    have hp := List.find?_some hf
    simp only [Bool.and_eq_true, beq_iff_eq] at hp
    have := List.all_eq_true.mp h c hmem
    simp only [Option.map_some, Option.some.injEq] at hc
    simp [hp.1, hn, hc] at this

theorem renameNode_selfFree {ns : Ns} (h : selfFree ns = true) (T : Tbl String) {n : Node} (hn : n.tag ∈ ns.tags) :
    renameNode ns T n = n := by
  cases n with
  | mk t nm hh refs =>
    simp only [renameNode, Node.mk.injEq, true_and]
    rw [List.map_congr_left (g := id) (fun r _ => by
      unfold renameRef
      rw [if_neg (selfFree_spec h hn r.site)]; rfl), List.map_id]

theorem calc_ren_act (orig merge : List Node) (hnd : (merge.map (·.name)).Nodup) (n f : String)
    (h : (calcActions orig merge).ren.get n = some f) : (calcActions orig merge).act.get n = some true := by
  obtain ⟨b, hb, rfl⟩ := List.mem_map.mp (calcActions_ren_key_mem orig merge n f h)
  have hent := calcActions_entry orig merge hnd b hb
  rw [hent.2] at h
  rw [hent.1]
  split at h
  · rename_i hc
    unfold isConflict at hc
    unfold needsAdd
    split at hc <;> simp_all
  · cases h

theorem planNs_spec (ns : Ns) (hsf : selfFree ns = true) (st : St) (hnd : ((nsNodes ns st.b).map (·.name)).Nodup) :
    PlanSpec [ns] (fun _ => calcActions (nsNodes ns st.a) (nsNodes ns st.b)) st (planNs ns st) := by
  have hb' : nsNodes ns (planNs ns st).b = nsNodes ns st.b := by
    show nsNodes ns (st.b.map _) = _
    rw [nsNodes_map ns (renameNode ns _) (fun n => rfl)]
    have : ∀ x ∈ nsNodes ns st.b, renameNode ns (calcActions (nsNodes ns st.a) (nsNodes ns st.b)).ren x = id x :=
      fun x hx => renameNode_selfFree hsf _ (mem_nsNodes.mp hx).2
    rw [List.map_congr_left this, List.map_id]
  refine ⟨rfl, rfl, ?_, ?_, ?_, ?_⟩
  · intro Bf P hb hP
    show st.b.map _ = _
    rw [hb, List.map_map]
    apply List.map_congr_left
    intro x _
    exact renAll_cons (hP ns (List.mem_singleton.mpr rfl)) _ x
  · intro m hm k v hkv
    rw [List.mem_singleton.mp hm]
    exact ⟨calcActions_ren_key_mem _ _ k v hkv, ((calcActions_general _ _).1 k v hkv).2, ((calcActions_general _ _).1 k v hkv).1⟩
  · intro m hm n
    rw [List.mem_singleton.mp hm, hb']
    cases hr : (calcActions (nsNodes ns st.a) (nsNodes ns st.b)).ren.get n with
    | none => rfl
    | some f => simp [calc_ren_act _ _ hnd n f hr]
  · intro m hm k v hkv
    rw [List.mem_singleton.mp hm, hb'] at hkv
    rw [hkv]; rfl

/-! without renames the loop is one round -/

theorem St.ext'' {s t : St} (ha : s.a = t.a) (hb : s.b = t.b) (hp : s.plans = t.plans) : s = t := by
  cases s; cases t; simp_all

theorem plan_eta {p : Plan} (h : p.ren = []) : (⟨p.act, []⟩ : Plan) = p := by
  cases p; simp_all

theorem retainNew_nil (T : Tbl String) : retainNew T [] = [] := rfl

theorem planLoop_single_of_no_ren (ns : Ns) (st : St) (h : (calcActions (nsNodes ns st.a) (nsNodes ns st.b)).ren = []) :
    planLoop [ns] st = planNs ns st := by
  have hround : loopRound st.a (fun _ => []) [ns] st.b = roundStep st.a (fun _ => []) ⟨st.b, fun _ => [], fun _ => []⟩ ns := rfl
  have hr : (loopRound st.a (fun _ => []) [ns] st.b).new ns = [] := by
    rw [hround, roundStep_new, if_pos rfl, h]; rfl
  have hfix : fixLoop st.a [ns] (loopFuel [ns] st.b) st.b (fun _ => []) =
      ((loopRound st.a (fun _ => []) [ns] st.b).b, fun m => ⟨forceTrue ((loopRound st.a (fun _ => []) [ns] st.b).new m ++ [])
          ((loopRound st.a (fun _ => []) [ns] st.b).act m), (loopRound st.a (fun _ => []) [ns] st.b).new m ++ []⟩) := by
    show fixLoop st.a [ns] (_ + 1) st.b (fun _ => []) = _
    rw [fixLoop_succ, if_pos ((all_isEmpty_iff _ _).mpr (fun m hm => by rw [List.mem_singleton.mp hm]; exact hr))]
  apply St.ext''
  · rfl
  · show (fixLoop st.a [ns] (loopFuel [ns] st.b) st.b (fun _ => [])).1 = st.b.map _
    rw [hfix, hround, roundStep_b, h]; rfl
  · show [(ns, (fixLoop st.a [ns] (loopFuel [ns] st.b) st.b (fun _ => [])).2 ns)] ++ st.plans = (ns, _) :: st.plans
    rw [hfix]
    simp only [hr, List.append_nil, List.singleton_append, List.cons.injEq, Prod.mk.injEq, true_and, and_true]
    rw [hround, roundStep_act, if_pos rfl]
    exact plan_eta h

theorem planLoop_pair_of_no_ren (n₁ n₂ : Ns) (hne : n₁ ≠ n₂) (st : St)
    (h₁ : (calcActions (nsNodes n₁ st.a) (nsNodes n₁ st.b)).ren = [])
    (h₂ : (calcActions (nsNodes n₂ (planNs n₁ st).a) (nsNodes n₂ (planNs n₁ st).b)).ren = []) :
    planLoop [n₁, n₂] st = planNs n₂ (planNs n₁ st) := by
  have hb1 : (planNs n₁ st).b = st.b.map (renameNode n₁ []) := by
    show st.b.map _ = _
    rw [h₁]
  have hr1b : (roundStep st.a (fun _ => []) ⟨st.b, fun _ => [], fun _ => []⟩ n₁).b = (planNs n₁ st).b := by
    rw [hb1]
    show st.b.map (renameNode n₁ (retainNew [] (calcActions (nsNodes n₁ st.a) (nsNodes n₁ st.b)).ren)) = _
    rw [h₁]; rfl
  have hround : loopRound st.a (fun _ => []) [n₁, n₂] st.b =
      roundStep st.a (fun _ => []) (roundStep st.a (fun _ => []) ⟨st.b, fun _ => [], fun _ => []⟩ n₁) n₂ := rfl
  have hnew2 : (loopRound st.a (fun _ => []) [n₁, n₂] st.b).new n₂ = [] := by
    rw [hround, roundStep_new, if_pos rfl, hr1b]
    show retainNew [] (calcActions (nsNodes n₂ (planNs n₁ st).a) (nsNodes n₂ (planNs n₁ st).b)).ren = []
    rw [h₂]; rfl
  have hnew1 : (loopRound st.a (fun _ => []) [n₁, n₂] st.b).new n₁ = [] := by
    rw [hround, roundStep_new, if_neg hne, roundStep_new, if_pos rfl, h₁]; rfl
  have hfix : fixLoop st.a [n₁, n₂] (loopFuel [n₁, n₂] st.b) st.b (fun _ => []) =
      ((loopRound st.a (fun _ => []) [n₁, n₂] st.b).b, fun m => ⟨forceTrue ((loopRound st.a (fun _ => []) [n₁, n₂] st.b).new m ++ [])
          ((loopRound st.a (fun _ => []) [n₁, n₂] st.b).act m), (loopRound st.a (fun _ => []) [n₁, n₂] st.b).new m ++ []⟩) := by
    show fixLoop st.a [n₁, n₂] (_ + 1) st.b (fun _ => []) = _
    rw [fixLoop_succ, if_pos ((all_isEmpty_iff _ _).mpr (fun m hm => by
      rcases List.mem_cons.mp hm with rfl | hm
      · exact hnew1
      · rw [List.mem_singleton.mp hm]; exact hnew2))]
  apply St.ext''
  · rfl
  · show (fixLoop st.a [n₁, n₂] (loopFuel [n₁, n₂] st.b) st.b (fun _ => [])).1 = (planNs n₁ st).b.map _
    rw [hfix, hround, roundStep_b, hr1b]
    show (planNs n₁ st).b.map (renameNode n₂ (retainNew [] (calcActions (nsNodes n₂ (planNs n₁ st).a) (nsNodes n₂ (planNs n₁ st).b)).ren)) = _
    rw [h₂]; rfl
  · show [(n₂, (fixLoop st.a [n₁, n₂] (loopFuel [n₁, n₂] st.b) st.b (fun _ => [])).2 n₂),
        (n₁, (fixLoop st.a [n₁, n₂] (loopFuel [n₁, n₂] st.b) st.b (fun _ => [])).2 n₁)] ++ st.plans = (n₂, _) :: (n₁, _) :: st.plans
    rw [hfix]
    simp only [hnew1, hnew2, List.append_nil, List.cons_append, List.nil_append, List.cons.injEq, Prod.mk.injEq, true_and, and_true]
    constructor
    · rw [hround, roundStep_act, if_pos rfl, hr1b]
      exact plan_eta h₂
    · rw [hround, roundStep_act, if_neg hne, roundStep_act, if_pos rfl]
      exact plan_eta h₁


/-! ## The invariants of `mergeSt` -/


/-! ### the chains for `a_preserved` and `names_unique` -/

theorem ext_planLoop (nss : List Ns) (st : St) : Ext st.a (planLoop nss st).a := Ext.refl _

/-- every pass of `merge_modules` keeps the nodes that are already in A, in place -/
theorem ext_mergeSt (a b : Module) : Ext a (mergeSt a b).a := by
  have h : Ext a (St.a ⟨a, b, []⟩) := Ext.refl a
  have h := h.step (takeOpt "A2ML") (ext_takeOpt _)
  have h := h.step mergeModPar ext_mergeModPar
  have h := h.step (takeAll "IF_DATA") (ext_takeAll _)
  have h := (h.step (planLoop [.unit]) (ext_planLoop _)).step (applyNs .unit) (ext_applyNs _)
  have h := (h.step (planNs .compuTab) (ext_planNs _)).step (applyNs .compuTab) (ext_applyNs _)
  have h := (h.step (planNs .compuMethod) (ext_planNs _)).step (applyNs .compuMethod) (ext_applyNs _)
  have h := (h.step (planNs .recordLayout) (ext_planNs _)).step (applyNs .recordLayout) (ext_applyNs _)
  have h := h.step (takeOpt "MOD_COMMON") (ext_takeOpt _)
  have h := h.step (planLoop [.object, .typedef]) (ext_planLoop _)
  have h := (h.step (applyNs .object) (ext_applyNs _)).step (applyNs .typedef) (ext_applyNs _)
  have h := h.step (mergeByName "FUNCTION" functionSites) (ext_mergeByName _ _ (.inl rfl))
  have h := h.step (mergeByName "GROUP" groupSites) (ext_mergeByName _ _ (.inr rfl))
  have h := (h.step (planNs .frame) (ext_planNs _)).step (applyNs .frame) (ext_applyNs _)
  have h := (h.step (planLoop [.transformer]) (ext_planLoop _)).step (applyNs .transformer) (ext_applyNs _)
  have h := h.step mergeUserRights ext_mergeUserRights
  have h := h.step (takeOpt "VARIANT_CODING") (ext_takeOpt _)
  exact h

theorem map_renAll_nil (m : Module) : m = m.map (renAll []) := by
  rw [List.map_congr_left (g := id) (fun x _ => renAll_nil x), List.map_id]

theorem St.plan_planEntries {nss : List Ns} {pl : Ns → Plan} {st st' : St} (h : st'.plans = planEntries nss pl ++ st.plans)
    (m : Ns) : st'.plan m = if m ∈ nss then pl m else st.plan m := by
  rw [St.plan_eq, h, planOf_planEntries]; rfl

/-- any plan step keeps the invariant of `names_unique` -/
theorem nuinv_plan {nss : List Ns} {pl : Ns → Plan} {st st' : St} (hs : PlanSpec nss pl st st') (h : NUInv st) : NUInv st' := by
  have hb : ∀ ns, names ns st'.b = names ns st.b := by
    intro ns
    rw [hs.b_eq st.b [] (map_renAll_nil st.b) (fun _ _ h => by cases h)]
    exact names_map_same (f := renAll _) (fun n => ⟨rfl, rfl⟩) st.b
  refine ⟨fun ns => hs.a_eq ▸ h.ua ns, fun ns => hb ns ▸ h.ub ns, ?_⟩
  intro ns
  rw [St.plan_planEntries hs.plans_eq, hb, hs.a_eq]
  by_cases hm : ns ∈ nss
  · rw [if_pos hm]
    have hO : ∀ s, s ∈ names ns st.a ↔ s ∈ (nsNodes ns st.a).map (·.name) := fun s => (names_nsNodes_perm ns st.a).mem_iff.symm
    have hM : ∀ s, s ∈ names ns st.b ↔ s ∈ (nsNodes ns st.b).map (·.name) := fun s => (names_nsNodes_perm ns st.b).mem_iff.symm
    constructor
    · intro n _ f hf
      obtain ⟨_, _, rfl⟩ := hs.tbl ns hm n f hf
      obtain ⟨k, _, _, h3, _, _⟩ := makeUniqueName_spec n (nsNodes ns st.a) (nsNodes ns st.b)
      have hnm := makeUniqueName_not_mem n (nsNodes ns st.a) (nsNodes ns st.b)
      exact ⟨fun e => hnm.1 ((hO _).mp e), fun e => hnm.2 ((hM _).mp e), k, h3⟩
    · intro n _ ha hr
      have hact := hs.act ns hm n
      rw [hr] at hact
      simp only [Option.isSome_none, Bool.false_eq_true, if_false] at hact
      rw [ha] at hact
      have hren : (calcActions (nsNodes ns st.a) (nsNodes ns st'.b)).ren.get n = none := by
        cases hg : (calcActions (nsNodes ns st.a) (nsNodes ns st'.b)).ren.get n with
        | none => rfl
        | some v => have := hs.conf ns hm n v hg; rw [hr] at this; cases this
      have := (calcActions_general _ _).2 n hact.symm hren
      exact fun e => (lookup_eq_none.mp this) ((hO _).mp e)
  · rw [if_neg hm]; exact h.pf ns

theorem nuinv_planLoop (nss : List Ns) (hn : nss.Nodup) {st : St} (h : NUInv st) : NUInv (planLoop nss st) :=
  nuinv_plan (planLoop_spec nss hn st) h

theorem nuinv_mergeSt {a b : Module} (ha : UniqueNames a) (hb : UniqueNames b) : NUInv (mergeSt a b) := by
  have h : NUInv ⟨a, b, []⟩ := ⟨ha, hb, fun ns => PlanFacts.empty _ _⟩
  have h := nuinv_takeOpt (tag := "A2ML") (noNs_of_decide (by decide)) h
  have h := nuinv_mergeModPar h
  have h := nuinv_takeAll (tag := "IF_DATA") (noNs_of_decide (by decide)) h
  have h := nuinv_applyNs .unit (nuinv_planLoop [.unit] (by decide) h)
  have h := nuinv_applyNs .compuTab (nuinv_planNs .compuTab h)
  have h := nuinv_applyNs .compuMethod (nuinv_planNs .compuMethod h)
  have h := nuinv_applyNs .recordLayout (nuinv_planNs .recordLayout h)
  have h := nuinv_takeOpt (tag := "MOD_COMMON") (noNs_of_decide (by decide)) h
  have h := nuinv_planLoop [.object, .typedef] (by decide) h
  have h := nuinv_applyNs .typedef (nuinv_applyNs .object h)
  have h := nuinv_mergeByName .function functionSites rfl h
  have h := nuinv_mergeByName .group groupSites rfl h
  have h := nuinv_applyNs .frame (nuinv_planNs .frame h)
  have h := nuinv_applyNs .transformer (nuinv_planLoop [.transformer] (by decide) h)
  have h := nuinv_mergeUserRights h
  have h := nuinv_takeOpt (tag := "VARIANT_CODING") (noNs_of_decide (by decide)) h
  exact h

/-! ### the invariant -/

/-- how the plan step classified B's element `x` of namespace `ns`: in its final round it compared `x`, as it is after ALL
    renames (`renAll P x`), with A's element of the same name; elements in the rename table are added in any case -/
def EntryOK (A0 : Module) (P : List (Ns × Plan)) (ns : Ns) (x : Node) : Prop :=
  (planOf P ns).act.get x.name =
      some (needsAdd (nsNodes ns A0) (renAll P x) || ((planOf P ns).ren.get x.name).isSome) ∧
  (isConflict (nsNodes ns A0) (renAll P x) = true → ((planOf P ns).ren.get x.name).isSome = true) ∧
  (∀ f, (planOf P ns).ren.get x.name = some f →
      (∃ k, 1 ≤ k ∧ f = mergeName x.name k) ∧ (lookup (nsNodes ns A0) x.name).isSome = true)

/-- B's element `x` of namespace `ns` has a representative `y` in `a`: same kind and body, found under the name
    `rep P ns x.name` (its own name or a fresh `x.MERGE<k>`), carrying `x`'s references after all renames; `y` is a node of
    A (with `x`'s name) or an added node (whose name is not used in A's namespace) -/
def RepOK (A0 : Module) (P : List (Ns × Plan)) (a : Module) (ns : Ns) (x : Node) : Prop :=
  ∃ y ∈ a, y.tag = x.tag ∧ y.hash = x.hash ∧ y.name = rep P ns x.name ∧
    (y.name = x.name ∨ ∃ k, 1 ≤ k ∧ y.name = mergeName x.name k) ∧
    y.refs = (renAll P x).refs ∧
    ((y ∈ A0 ∧ y.name = x.name) ∨ y.name ∉ names ns A0)

/-- the own name of B's element is defined in the namespace -/
def OwnOK (a : Module) (ns : Ns) (x : Node) : Prop := ∃ z ∈ a, z.tag ∈ ns.tags ∧ z.name = x.name

/-- every reference of the node comes from a node of A of the same kind, or is a reference of a node of B of the same
    kind after all renames -/
def ProvOK (A0 B0 : Module) (P : List (Ns × Plan)) (mv : List String) (y : Node) : Prop :=
  ∀ r ∈ y.refs, (∃ a0 ∈ A0, a0.tag = y.tag ∧ r ∈ a0.refs) ∨
    (y.tag ∈ mv ∧ ∃ x ∈ B0, x.tag = y.tag ∧ r ∈ (renAll P x).refs)

/-- `mv`: the kinds already moved out of B; `sv`: the kinds whose references are final (all namespaces that rename
    references of these kinds have been planned); `ks`: the namespaces planned so far (latest first) -/
structure MInv (A0 B0 : Module) (mv sv : List String) (ks : List Ns) (st : St) : Prop where
  nu : NUInv st
  keys : st.plans.map (·.1) = ks
  nd : ks.Nodup
  std : ∀ ns ∈ ks, ns.std
  bform : ∃ keep : Node → Bool, st.b = (B0.filter keep).map (renAll st.plans) ∧ ∀ x ∈ B0, x.tag ∉ mv → keep x = true
  msub : ∀ t ∈ mv, t ∈ sv
  ksv : ∀ ns ∈ ks, ∀ t ∈ ns.tags, t ∈ sv
  settled : ∀ t ∈ sv, ∀ site ns, coveredNs t site = some ns → ns ∈ ks
  aframe : ∀ ns : Ns, (∀ t ∈ ns.tags, t ∉ mv) → nsNodes ns st.a = nsNodes ns A0
  ext : Ext A0 st.a
  prov : ∀ y ∈ st.a, ProvOK A0 B0 st.plans mv y
  pend : ∀ ns ∈ ks, ∀ x ∈ B0, x.tag ∈ ns.tags → EntryOK A0 st.plans ns x
  rep : ∀ ns ∈ ks, (∀ t ∈ ns.tags, t ∈ mv) → ∀ x ∈ B0, x.tag ∈ ns.tags → RepOK A0 st.plans st.a ns x
  own : ∀ ns : Ns, (∀ t ∈ ns.tags, t ∈ mv) → ∀ x ∈ B0, x.tag ∈ ns.tags → OwnOK st.a ns x

theorem tags_ne_nil (ns : Ns) : ∃ t, t ∈ ns.tags := by cases ns <;> exact ⟨_, List.mem_cons_self ..⟩

theorem mem_b_of_keep {A0 B0 : Module} {mv sv : List String} {ks : List Ns} {st : St} (h : MInv A0 B0 mv sv ks st) {x : Node}
    (hx : x ∈ B0) (ht : x.tag ∉ mv) : renAll st.plans x ∈ st.b := by
  obtain ⟨keep, hb, hk⟩ := h.bform
  rw [hb]
  exact List.mem_map.mpr ⟨x, List.mem_filter.mpr ⟨hx, hk x hx ht⟩, rfl⟩

theorem of_mem_b {A0 B0 : Module} {mv sv : List String} {ks : List Ns} {st : St} (h : MInv A0 B0 mv sv ks st) {x' : Node}
    (hx : x' ∈ st.b) : ∃ x ∈ B0, x' = renAll st.plans x := by
  obtain ⟨keep, hb, _⟩ := h.bform
  rw [hb] at hx
  obtain ⟨x, hx, e⟩ := List.mem_map.mp hx
  exact ⟨x, (List.mem_filter.mp hx).1, e.symm⟩

/-- plans of namespaces that do not cover the kind of a node do not touch it -/
theorem renAll_entries_stable (nss : List Ns) (pl : Ns → Plan) (P : List (Ns × Plan)) (x : Node)
    (h : ∀ site ns, coveredNs x.tag site = some ns → ns ∉ nss) : renAll (planEntries nss pl ++ P) x = renAll P x := by
  rw [renAll_eq_renWith, renAll_eq_renWith]
  apply renWith_congr
  intro site ns hc s
  simp only [planOf_planEntries, if_neg (h site ns hc)]

theorem lookup_some {l : List Node} {s : String} {a : Node} (h : lookup l s = some a) : a ∈ l ∧ a.name = s := by
  unfold lookup at h
  exact ⟨List.mem_of_find?_eq_some h, by simpa using List.find?_some h⟩

theorem names_eq_of_nsNodes_eq {ns : Ns} {m m' : Module} (h : nsNodes ns m = nsNodes ns m') (s : String) :
    s ∈ names ns m ↔ s ∈ names ns m' := by
  rw [← (names_nsNodes_perm ns m).mem_iff, ← (names_nsNodes_perm ns m').mem_iff, h]

/-- a plan step (one round or the loop) for the namespaces `nss` -/
theorem minv_plan {A0 B0 : Module} {mv sv : List String} {ks : List Ns} {st st' : St} {nss : List Ns} {pl : Ns → Plan}
    (hs : PlanSpec nss pl st st') (h : MInv A0 B0 mv sv ks st) (hnd : nss.Nodup)
    (hns : ∀ ns ∈ nss, ns ∉ ks) (hstd : ∀ ns ∈ nss, ns.std) (hmv : ∀ ns ∈ nss, ∀ t ∈ ns.tags, t ∉ mv)
    (hcov : covOK (nss.flatMap (·.tags)) (nss.reverse ++ ks) = true) :
    MInv A0 B0 mv (sv ++ nss.flatMap (·.tags)) (nss.reverse ++ ks) st' := by
  have hnu := nuinv_plan hs h.nu
  have hP : ∀ ns ∈ nss, ns ∉ st.plans.map (·.1) := fun ns hm => h.keys ▸ hns ns hm
  have hplanOf : ∀ m, planOf st'.plans m = if m ∈ nss then pl m else planOf st.plans m := fun m => by
    rw [hs.plans_eq, planOf_planEntries]
  -- nodes whose kind is settled are not touched by the new tables
  have hstable : ∀ x : Node, x.tag ∈ sv → renAll st'.plans x = renAll st.plans x := by
    intro x hx
    rw [hs.plans_eq]
    apply renAll_entries_stable
    intro site ns hc hm
    exact hns ns hm (h.settled _ hx site ns hc)
  have hbform : ∃ keep : Node → Bool, st'.b = (B0.filter keep).map (renAll st'.plans) ∧ ∀ x ∈ B0, x.tag ∉ mv → keep x = true := by
    obtain ⟨keep, hb, hk⟩ := h.bform
    exact ⟨keep, by rw [hs.plans_eq]; exact hs.b_eq _ _ hb hP, hk⟩
  refine ⟨hnu, ?_, ?_, ?_, hbform, ?_, ?_, ?_, ?_, ?_, ?_, ?_, ?_, ?_⟩
  · rw [hs.plans_eq, List.map_append, planEntries_keys, h.keys]
  · rw [List.nodup_append]
    refine ⟨(List.reverse_perm nss).symm.nodup hnd, h.nd, ?_⟩
    intro x hx y hy e
    exact hns x (List.mem_reverse.mp hx) (e ▸ hy)
  · intro ns hn
    rcases List.mem_append.mp hn with hn | hn
    · exact hstd ns (List.mem_reverse.mp hn)
    · exact h.std ns hn
  · exact fun t ht => List.mem_append_left _ (h.msub t ht)
  · intro ns hn t ht
    rcases List.mem_append.mp hn with hn | hn
    · exact List.mem_append_right _ (List.mem_flatMap.mpr ⟨ns, List.mem_reverse.mp hn, ht⟩)
    · exact List.mem_append_left _ (h.ksv ns hn t ht)
  · intro t ht site ns hc
    rcases List.mem_append.mp ht with ht | ht
    · exact List.mem_append_right _ (h.settled t ht site ns hc)
    · exact covOK_spec hcov ht hc
  · intro ns hall; rw [hs.a_eq]; exact h.aframe ns hall
  · rw [hs.a_eq]; exact h.ext
  · intro y hy r hr
    rw [hs.a_eq] at hy
    rcases h.prov y hy r hr with h1 | ⟨hmvy, x, hx, hxt, hxr⟩
    · exact .inl h1
    · refine .inr ⟨hmvy, x, hx, hxt, ?_⟩
      rw [hstable x (h.msub _ (hxt ▸ hmvy))]
      exact hxr
  · intro ns' hn x hx hxt
    rcases List.mem_append.mp hn with hn | hn
    · -- a namespace just planned
      have hm : ns' ∈ nss := List.mem_reverse.mp hn
      have htmv : x.tag ∉ mv := hmv ns' hm _ hxt
      obtain ⟨keep, hb, hk⟩ := hbform
      have hxb : renAll st'.plans x ∈ st'.b := by
        rw [hb]; exact List.mem_map.mpr ⟨x, List.mem_filter.mpr ⟨hx, hk x hx htmv⟩, rfl⟩
      have hxM : renAll st'.plans x ∈ nsNodes ns' st'.b := mem_nsNodes.mpr ⟨hxb, hxt⟩
      have hndM : ((nsNodes ns' st'.b).map (·.name)).Nodup := (names_nsNodes_perm ns' st'.b).symm.nodup (hnu.ub ns')
      have hO : nsNodes ns' st.a = nsNodes ns' A0 := h.aframe ns' (hmv ns' hm)
      have hent := calcActions_entry (nsNodes ns' st.a) (nsNodes ns' st'.b) hndM _ hxM
      have hact := hs.act ns' hm x.name
      have hconf := hs.conf ns' hm x.name
      have htbl := hs.tbl ns' hm x.name
      rw [hO] at hent hact hconf htbl
      unfold EntryOK
      rw [hplanOf, if_pos hm]
      refine ⟨?_, ?_, ?_⟩
      · rw [hact]
        have h1 : (calcActions (nsNodes ns' A0) (nsNodes ns' st'.b)).act.get x.name = some (needsAdd (nsNodes ns' A0) (renAll st'.plans x)) := hent.1
        cases hr : ((pl ns').ren.get x.name).isSome with
        | true => simp
        | false => simp [h1]
      · intro hc
        have h2 := hent.2
        rw [if_pos hc] at h2
        exact hconf _ h2
      · intro f hf
        obtain ⟨_, h2, h3⟩ := htbl f hf
        obtain ⟨k, hk1, _, hk3, _, _⟩ := makeUniqueName_spec x.name (nsNodes ns' A0) (nsNodes ns' st.b)
        exact ⟨⟨k, hk1, h3.trans hk3⟩, h2⟩
    · have hnot : ns' ∉ nss := fun hm => hns ns' hm hn
      obtain ⟨h1, h2, h3⟩ := h.pend ns' hn x hx hxt
      unfold EntryOK
      rw [hplanOf, if_neg hnot, hstable x (h.ksv ns' hn _ hxt)]
      exact ⟨h1, h2, h3⟩
  · intro ns' hn hall x hx hxt
    rcases List.mem_append.mp hn with hn | hn
    · exact absurd (hall _ hxt) (hmv ns' (List.mem_reverse.mp hn) _ hxt)
    · have hnot : ns' ∉ nss := fun hm => hns ns' hm hn
      obtain ⟨y, hy, h1, h2, h3, h4, h5, h6⟩ := h.rep ns' hn hall x hx hxt
      refine ⟨y, hs.a_eq ▸ hy, h1, h2, ?_, h4, ?_, h6⟩
      · unfold rep; rw [hplanOf, if_neg hnot]; exact h3
      · rw [hstable x (h.msub _ (hall _ hxt))]; exact h5
  · intro ns hall x hx hxt
    rw [hs.a_eq]; exact h.own ns hall x hx hxt

theorem minv_planNs {A0 B0 : Module} {mv sv : List String} {ks : List Ns} {st : St} (ns : Ns) (h : MInv A0 B0 mv sv ks st)
    (hsf : selfFree ns = true) (hns : ns ∉ ks) (hstd : ns.std) (hmv : ∀ t ∈ ns.tags, t ∉ mv)
    (hcov : covOK ns.tags (ns :: ks) = true) : MInv A0 B0 mv (sv ++ ns.tags) (ns :: ks) (planNs ns st) := by
  have hnd : ((nsNodes ns st.b).map (·.name)).Nodup := (names_nsNodes_perm ns st.b).symm.nodup (h.nu.ub ns)
  have := minv_plan (planNs_spec ns hsf st hnd) h (by simp) (fun m hm => List.mem_singleton.mp hm ▸ hns)
    (fun m hm => List.mem_singleton.mp hm ▸ hstd) (fun m hm => List.mem_singleton.mp hm ▸ hmv) (by simpa using hcov)
  simpa using this

theorem minv_planLoop {A0 B0 : Module} {mv sv : List String} {ks : List Ns} {st : St} (nss : List Ns)
    (h : MInv A0 B0 mv sv ks st) (hnd : nss.Nodup)
    (hns : ∀ ns ∈ nss, ns ∉ ks) (hstd : ∀ ns ∈ nss, ns.std) (hmv : ∀ ns ∈ nss, ∀ t ∈ ns.tags, t ∉ mv)
    (hcov : covOK (nss.flatMap (·.tags)) (nss.reverse ++ ks) = true) :
    MInv A0 B0 mv (sv ++ nss.flatMap (·.tags)) (nss.reverse ++ ks) (planLoop nss st) :=
  minv_plan (planLoop_spec nss hnd st) h hnd hns hstd hmv hcov

theorem minv_applyNs {A0 B0 : Module} {mv sv : List String} {ks : List Ns} {st : St} (ns : Ns) (h : MInv A0 B0 mv sv ks st)
    (hns : ns ∈ ks) (hmv : ∀ t ∈ ns.tags, t ∉ mv) :
    MInv A0 B0 (mv ++ ns.tags) sv ks (applyNs ns st) := by
  have hplans : (applyNs ns st).plans = st.plans := rfl
  have ha : (applyNs ns st).a = st.a ++ appendLoop (st.plan ns) [] (nsNodes ns st.b) := rfl
  have hL : ((nsNodes ns st.b).map (·.name)).Nodup := (names_nsNodes_perm ns st.b).symm.nodup (h.nu.ub ns)
  have heq := appendLoop_eq (st.plan ns) (nsNodes ns st.b) [] hL (fun _ _ h => by cases h)
  have hother : ∀ ns' : Ns, ns' ≠ ns → (∀ t ∈ ns'.tags, t ∈ mv ++ ns.tags) → ∀ t ∈ ns'.tags, t ∈ mv := by
    intro ns' hne hall t ht
    rcases List.mem_append.mp (hall t ht) with h1 | h1
    · exact h1
    · exact absurd (tags_disjoint ht h1) hne
  have hO : nsNodes ns st.a = nsNodes ns A0 := h.aframe ns hmv
  -- the main case analysis for an element of B of this namespace
  have main : ∀ x ∈ B0, x.tag ∈ ns.tags → RepOK A0 st.plans (applyNs ns st).a ns x ∧ OwnOK (applyNs ns st).a ns x := by
    intro x hx hxt
    have hxb := mem_b_of_keep h hx (hmv _ hxt)
    have hxL : renAll st.plans x ∈ nsNodes ns st.b := mem_nsNodes.mpr ⟨hxb, hxt⟩
    obtain ⟨hact, hconf, hren⟩ := h.pend ns hns x hx hxt
    rw [← St.plan_eq] at hact hconf hren
    have hnm : (moved (st.plan ns) (renAll st.plans x)).name = rep st.plans ns x.name := rfl
    -- the name under which `x` arrives, and A's namesake if `x` is renamed
    have hform : (rep st.plans ns x.name = x.name ∨ ∃ k, 1 ≤ k ∧ rep st.plans ns x.name = mergeName x.name k) ∧
        ((st.plan ns).ren.get x.name = none → rep st.plans ns x.name = x.name) := by
      cases hg : (st.plan ns).ren.get x.name with
      | none =>
        have : rep st.plans ns x.name = x.name := by
          show (st.plan ns).ren.app x.name = _
          simp [Tbl.app, hg]
        exact ⟨.inl this, fun _ => this⟩
      | some f =>
        obtain ⟨⟨k, hk1, hk2⟩, _⟩ := hren f hg
        have : rep st.plans ns x.name = f := by
          show (st.plan ns).ren.app x.name = _
          simp [Tbl.app, hg]
        exact ⟨.inr ⟨k, hk1, this.trans hk2⟩, fun h => by cases h⟩
    have hnamesake : ∀ a0, lookup (nsNodes ns A0) x.name = some a0 → OwnOK (applyNs ns st).a ns x := by
      intro a0 hl
      obtain ⟨h1, h2⟩ := lookup_some hl
      rw [← hO] at h1
      obtain ⟨h1a, h1b⟩ := mem_nsNodes.mp h1
      exact ⟨a0, ha ▸ List.mem_append_left _ h1a, h1b, h2⟩
    cases hadd : (needsAdd (nsNodes ns A0) (renAll st.plans x) || ((st.plan ns).ren.get x.name).isSome) with
    | true =>
      rw [hadd] at hact
      have hin : moved (st.plan ns) (renAll st.plans x) ∈ (applyNs ns st).a := by
        rw [ha, heq]
        apply List.mem_append_right
        exact List.mem_map.mpr ⟨_, List.mem_filter.mpr ⟨hxL, by simp [isAdded, hact]⟩, rfl⟩
      have hxn : x.name ∈ names ns st.b := mem_names.mpr ⟨_, hxb, hxt, rfl⟩
      have hnot : rep st.plans ns x.name ∉ names ns A0 := by
        have := app_not_mem (h.nu.pf ns) hxn hact
        rw [names_eq_of_nsNodes_eq hO] at this
        exact this
      refine ⟨⟨_, hin, rfl, rfl, hnm, hnm ▸ hform.1, rfl, .inr (hnm ▸ hnot)⟩, ?_⟩
      cases hl : lookup (nsNodes ns A0) x.name with
      | some a0 => exact hnamesake a0 hl
      | none =>
        have hg : (st.plan ns).ren.get x.name = none := by
          cases hg : (st.plan ns).ren.get x.name with
          | none => rfl
          | some f => have := (hren f hg).2; rw [hl] at this; cases this
        exact ⟨_, hin, hxt, hnm.trans (hform.2 hg)⟩
    | false =>
      rw [Bool.or_eq_false_iff] at hadd
      have hg : (st.plan ns).ren.get x.name = none := by
        cases hg : (st.plan ns).ren.get x.name with
        | none => rfl
        | some f => rw [hg] at hadd; cases hadd.2
      have hna := hadd.1
      unfold needsAdd at hna
      cases hl : lookup (nsNodes ns A0) (renAll st.plans x).name with
      | none => rw [hl] at hna; cases hna
      | some a0 =>
        rw [hl] at hna
        have e : a0 = renAll st.plans x := by simpa using hna
        obtain ⟨h1, h2⟩ := lookup_some hl
        have h1' := h1
        rw [← hO] at h1'
        have hin : a0 ∈ (applyNs ns st).a := ha ▸ List.mem_append_left _ (mem_nsNodes.mp h1').1
        have hn : a0.name = x.name := h2
        exact ⟨⟨a0, hin, by rw [e]; rfl, by rw [e]; rfl, hn.trans (hform.2 hg).symm, .inl hn, by rw [e],
          .inl ⟨(mem_nsNodes.mp h1).1, hn⟩⟩, hnamesake a0 hl⟩
  refine ⟨nuinv_applyNs ns h.nu, h.keys, h.nd, h.std, ?_, ?_, h.ksv, h.settled, ?_, ?_, ?_, ?_, ?_, ?_⟩
  · obtain ⟨keep, hb, hk⟩ := h.bform
    refine ⟨fun x => !hasTag ns.tags x && keep x, ?_, ?_⟩
    · show st.b.filter (fun n => !hasTag ns.tags n) = _
      rw [hplans, hb, List.filter_map, List.filter_filter]
      rfl
    · intro x hx hxt
      have h1 : x.tag ∉ mv := fun e => hxt (List.mem_append_left _ e)
      have h2 : x.tag ∉ ns.tags := fun e => hxt (List.mem_append_right _ e)
      simp [hk x hx h1, hasTag, h2]
  · intro t ht
    rcases List.mem_append.mp ht with h1 | h1
    · exact h.msub t h1
    · exact h.ksv ns hns t h1
  · intro ns' hall
    have hne : ns' ≠ ns := by
      intro e
      obtain ⟨t, ht⟩ := tags_ne_nil ns'
      exact hall t ht (List.mem_append_right _ (e ▸ ht))
    rw [ha, nsNodes_append_other _ _ (fun y hy ht => hne (tags_disjoint ht (appendLoop_tag_mem ns _ _ _ y hy)))]
    exact h.aframe ns' (fun t ht e => hall t ht (List.mem_append_left _ e))
  · exact h.ext.trans (ext_applyNs ns st)
  · intro y hy
    rw [ha] at hy
    rcases List.mem_append.mp hy with hy | hy
    · intro r hr
      rcases h.prov y hy r hr with h1 | ⟨h1, h2⟩
      · exact .inl h1
      · exact .inr ⟨List.mem_append_left _ h1, h2⟩
    · rw [heq] at hy
      obtain ⟨x', hx', rfl⟩ := List.mem_map.mp hy
      have hx'L := (List.mem_filter.mp hx').1
      obtain ⟨hx'b, hx't⟩ := mem_nsNodes.mp hx'L
      obtain ⟨x, hx, rfl⟩ := of_mem_b h hx'b
      intro r hr
      exact .inr ⟨List.mem_append_right _ hx't, x, hx, rfl, hr⟩
  · exact h.pend
  · intro ns' hn hall x hx hxt
    by_cases e : ns' = ns
    · subst e; exact (main x hx hxt).1
    · obtain ⟨y, hy, hrest⟩ := h.rep ns' hn (hother ns' e hall) x hx hxt
      exact ⟨y, ha ▸ List.mem_append_left _ hy, hrest⟩
  · intro ns' hall x hx hxt
    by_cases e : ns' = ns
    · subst e; exact (main x hx hxt).2
    · obtain ⟨z, hz, hrest⟩ := h.own ns' (hother ns' e hall) x hx hxt
      exact ⟨z, ha ▸ List.mem_append_left _ hz, hrest⟩

/-- the passes without `calculate_item_actions`: B loses the kinds `tags`, A is extended (`Ext`) by nodes taken from B -/
theorem minv_frame {A0 B0 : Module} {mv sv : List String} {ks : List Ns} {st st' : St} (tags : List String)
    (h : MInv A0 B0 mv sv ks st) (hnu : NUInv st') (hp : st'.plans = st.plans)
    (q : Node → Bool) (hq : ∀ n n' : Node, n.tag = n'.tag → q n = q n') (hb : st'.b = st.b.filter q)
    (hqt : ∀ n, q n = false → n.tag ∈ tags)
    (hset : covOK tags ks = true)
    (hstd : ∀ ns : Ns, ns.std → ∀ t ∈ ns.tags, t ∉ tags)
    (hext : Ext st.a st'.a)
    (hframe : ∀ ns : Ns, (∀ t ∈ ns.tags, t ∉ tags) → nsNodes ns st'.a = nsNodes ns st.a)
    (hprov : ∀ y ∈ st'.a, ∀ r ∈ y.refs, (∃ y0 ∈ st.a, y0.tag = y.tag ∧ r ∈ y0.refs) ∨
        (y.tag ∈ tags ∧ ∃ x' ∈ st.b, x'.tag = y.tag ∧ r ∈ x'.refs))
    (hown : ∀ ns : Ns, ¬ ns.std → (∀ t ∈ ns.tags, t ∈ mv ++ tags) → ¬ (∀ t ∈ ns.tags, t ∈ mv) →
        ∀ x ∈ B0, x.tag ∈ ns.tags → OwnOK st'.a ns x) :
    MInv A0 B0 (mv ++ tags) (sv ++ tags) ks st' := by
  have hstdmv : ∀ ns : Ns, ns.std → (∀ t ∈ ns.tags, t ∈ mv ++ tags) → ∀ t ∈ ns.tags, t ∈ mv := by
    intro ns hs hall t ht
    rcases List.mem_append.mp (hall t ht) with h1 | h1
    · exact h1
    · exact absurd h1 (hstd ns hs t ht)
  refine ⟨hnu, hp ▸ h.keys, h.nd, h.std, ?_, ?_, fun ns hn t ht => List.mem_append_left _ (h.ksv ns hn t ht), ?_, ?_, h.ext.trans hext, ?_, hp ▸ h.pend, ?_, ?_⟩
  · obtain ⟨keep, hb0, hk⟩ := h.bform
    refine ⟨fun x => q x && keep x, ?_, ?_⟩
    · rw [hb, hp, hb0, List.filter_map, List.filter_filter]
      congr 1
      apply List.filter_congr
      intro x _
      simp only [Function.comp]
      rw [hq (renAll st.plans x) x rfl]
    · intro x hx hxt
      have h1 : x.tag ∉ mv := fun e => hxt (List.mem_append_left _ e)
      have h2 : q x = true := by
        cases hqx : q x with
        | true => rfl
        | false => exact absurd (List.mem_append_right _ (hqt x hqx)) hxt
      simp [hk x hx h1, h2]
  · intro t ht
    rcases List.mem_append.mp ht with h1 | h1
    · exact List.mem_append_left _ (h.msub t h1)
    · exact List.mem_append_right _ h1
  · intro t ht site ns' hc
    rcases List.mem_append.mp ht with h1 | h1
    · exact h.settled t h1 site ns' hc
    · exact covOK_spec hset h1 hc
  · intro ns' hall
    rw [hframe ns' (fun t ht e => hall t ht (List.mem_append_right _ e))]
    exact h.aframe ns' (fun t ht e => hall t ht (List.mem_append_left _ e))
  · intro y hy r hr
    rcases hprov y hy r hr with ⟨y0, hy0, hy0t, hy0r⟩ | ⟨hyt, x', hx', hx't, hx'r⟩
    · rcases h.prov y0 hy0 r hy0r with ⟨a0, h1, h2, h3⟩ | ⟨h1, x, h2, h3, h4⟩
      · exact .inl ⟨a0, h1, h2.trans hy0t, h3⟩
      · exact .inr ⟨List.mem_append_left _ (hy0t ▸ h1), x, h2, h3.trans hy0t, hp ▸ h4⟩
    · obtain ⟨x, hx, rfl⟩ := of_mem_b h hx'
      exact .inr ⟨List.mem_append_right _ hyt, x, hx, hx't, hp ▸ hx'r⟩
  · intro ns' hn hall x hx hxt
    have hs := h.std ns' hn
    obtain ⟨y, hy, h1, hrest⟩ := h.rep ns' hn (hstdmv ns' hs hall) x hx hxt
    have hpl := std_plain hs (h1 ▸ hxt)
    rw [hp]
    exact ⟨y, hext.mem_plain hy hpl, h1, hrest⟩
  · intro ns' hall x hx hxt
    by_cases hold : ∀ t ∈ ns'.tags, t ∈ mv
    · obtain ⟨z, hz, hzt, hzn⟩ := h.own ns' hold x hx hxt
      obtain ⟨z', hz', h1, h2⟩ := hext.mem_tag_name hz
      exact ⟨z', hz', h1 ▸ hzt, h2.trans hzn⟩
    · by_cases hs : ns'.std
      · exact absurd (hstdmv ns' hs hall) hold
      · exact hown ns' hs hall hold x hx hxt

theorem hown_noNs {B0 : Module} {mv tags : List String} {a : Module} (hno : ∀ t ∈ tags, NoNs t) :
    ∀ ns : Ns, ¬ ns.std → (∀ t ∈ ns.tags, t ∈ mv ++ tags) → ¬ (∀ t ∈ ns.tags, t ∈ mv) →
      ∀ x ∈ B0, x.tag ∈ ns.tags → OwnOK a ns x := by
  intro ns _ hall hold
  exfalso
  apply hold
  intro t ht
  rcases List.mem_append.mp (hall t ht) with h | h
  · exact h
  · exact absurd ht (hno t h ns)

theorem hstd_noNs {tags : List String} (hno : ∀ t ∈ tags, NoNs t) : ∀ ns : Ns, ns.std → ∀ t ∈ ns.tags, t ∉ tags :=
  fun ns _ t ht h => hno t h ns ht

theorem filter_true_eq {α} : ∀ (l : List α), l = l.filter (fun _ => true)
  | [] => rfl
  | x :: l => by rw [List.filter_cons_of_pos rfl, ← filter_true_eq l]

/-- nothing happens (but the kinds `tags` count as handled) -/
theorem minv_same {A0 B0 : Module} {mv sv : List String} {ks : List Ns} {st : St} (tags : List String)
    (h : MInv A0 B0 mv sv ks st) (hset : covOK tags ks = true) (hno : ∀ t ∈ tags, NoNs t) :
    MInv A0 B0 (mv ++ tags) (sv ++ tags) ks st :=
  minv_frame tags h h.nu rfl (fun _ => true) (fun _ _ _ => rfl) (filter_true_eq _) (fun _ h => by cases h) hset (hstd_noNs hno)
    (Ext.refl _) (fun _ _ => rfl) (fun y hy r hr => .inl ⟨y, hy, rfl, hr⟩) (hown_noNs hno)

/-- nodes `e` of the kinds `tags` (unnamed kinds) are taken from B and appended -/
theorem minv_append {A0 B0 : Module} {mv sv : List String} {ks : List Ns} {st st' : St} (tags : List String)
    (h : MInv A0 B0 mv sv ks st) (hnu : NUInv st') (hp : st'.plans = st.plans) (e : Module) (ha : st'.a = st.a ++ e)
    (he : ∀ y ∈ e, y ∈ st.b ∧ y.tag ∈ tags)
    (q : Node → Bool) (hq : ∀ n n' : Node, n.tag = n'.tag → q n = q n') (hb : st'.b = st.b.filter q)
    (hqt : ∀ n, q n = false → n.tag ∈ tags)
    (hset : covOK tags ks = true) (hno : ∀ t ∈ tags, NoNs t) :
    MInv A0 B0 (mv ++ tags) (sv ++ tags) ks st' := by
  refine minv_frame tags h hnu hp q hq hb hqt hset (hstd_noNs hno) (ha ▸ Ext.append _ _) ?_ ?_ (hown_noNs hno)
  · intro ns hns
    rw [ha]
    exact nsNodes_append_other _ _ (fun y hy ht => hns _ ht (he y hy).2)
  · intro y hy r hr
    rw [ha] at hy
    rcases List.mem_append.mp hy with hy | hy
    · exact .inl ⟨y, hy, rfl, hr⟩
    · exact .inr ⟨(he y hy).2, y, (he y hy).1, rfl, hr⟩

theorem takeOpt_cases (tag : String) (st : St) : takeOpt tag st = st ∨
    ∃ x ∈ st.b, x.tag = tag ∧ takeOpt tag st = { st with a := st.a ++ [x], b := st.b.filter (·.tag != tag) } := by
  unfold takeOpt
  split
  · rename_i x hx
    split
    · exact .inl rfl
    · exact .inr ⟨x, List.mem_of_find?_eq_some hx, by simpa using List.find?_some hx, rfl⟩
  · exact .inl rfl

theorem filter_ne_tag_spec (tag : String) : (∀ n n' : Node, n.tag = n'.tag → (n.tag != tag) = (n'.tag != tag)) ∧
    (∀ n : Node, (n.tag != tag) = false → n.tag ∈ [tag]) :=
  ⟨fun n n' e => by rw [e], fun n hn => by simpa using hn⟩

theorem minv_takeOpt {A0 B0 : Module} {mv sv : List String} {ks : List Ns} {st : St} (tag : String)
    (h : MInv A0 B0 mv sv ks st) (hset : covOK [tag] ks = true) (hno : NoNs tag) :
    MInv A0 B0 (mv ++ [tag]) (sv ++ [tag]) ks (takeOpt tag st) := by
  have hno' : ∀ t ∈ [tag], NoNs t := fun t ht => (List.mem_singleton.mp ht) ▸ hno
  have hnu := nuinv_takeOpt hno h.nu
  rcases takeOpt_cases tag st with e | ⟨x, hx, hxt, e⟩
  · rw [e]; exact minv_same [tag] h hset hno'
  · rw [e] at hnu ⊢
    exact minv_append [tag] h hnu rfl [x] rfl (fun y hy => by
      rw [List.mem_singleton.mp hy]; exact ⟨hx, by simp [hxt]⟩) _ (filter_ne_tag_spec tag).1 rfl
      (filter_ne_tag_spec tag).2 hset hno'

theorem minv_takeAll {A0 B0 : Module} {mv sv : List String} {ks : List Ns} {st : St} (tag : String)
    (h : MInv A0 B0 mv sv ks st) (hset : covOK [tag] ks = true) (hno : NoNs tag) :
    MInv A0 B0 (mv ++ [tag]) (sv ++ [tag]) ks (takeAll tag st) := by
  have hno' : ∀ t ∈ [tag], NoNs t := fun t ht => (List.mem_singleton.mp ht) ▸ hno
  have hnu := nuinv_takeAll hno h.nu
  unfold takeAll at hnu ⊢
  split
  · exact minv_same [tag] h hset hno'
  · rename_i hany
    rw [if_neg hany] at hnu
    exact minv_append [tag] h hnu rfl _ rfl (fun y hy => by
      have := List.mem_filter.mp hy
      exact ⟨this.1, by simpa using this.2⟩) _ (filter_ne_tag_spec tag).1 rfl
      (filter_ne_tag_spec tag).2 hset hno'

theorem mergeModPar_cases (st : St) : mergeModPar st = st ∨
    (∃ x ∈ st.b, x.tag = "MOD_PAR" ∧ mergeModPar st = { st with a := st.a ++ [x], b := st.b.filter (·.tag != "MOD_PAR") }) ∨
    (∃ f : Node → Node, (∀ y, (f y).tag = y.tag ∧ (f y).name = y.name ∧ (f y).refs = y.refs) ∧
      mergeModPar st = { st with a := updFirst (·.tag == "MOD_PAR") f st.a }) := by
  unfold mergeModPar
  split
  · rename_i x hx
    split
    · refine .inr (.inr ⟨_, ?_, rfl⟩)
      intro y; split <;> exact ⟨rfl, rfl, rfl⟩
    · exact .inr (.inl ⟨x, List.mem_of_find?_eq_some hx, by simpa using List.find?_some hx, rfl⟩)
  · exact .inl rfl

theorem minv_mergeModPar {A0 B0 : Module} {mv sv : List String} {ks : List Ns} {st : St}
    (h : MInv A0 B0 mv sv ks st) (hset : covOK ["MOD_PAR"] ks = true) :
    MInv A0 B0 (mv ++ ["MOD_PAR"]) (sv ++ ["MOD_PAR"]) ks (mergeModPar st) := by
  have hno : NoNs "MOD_PAR" := noNs_of_decide (by decide)
  have hno' : ∀ t ∈ ["MOD_PAR"], NoNs t := fun t ht => (List.mem_singleton.mp ht) ▸ hno
  have hnu := nuinv_mergeModPar h.nu
  have hext := ext_mergeModPar st
  rcases mergeModPar_cases st with e | ⟨x, hx, hxt, e⟩ | ⟨f, hf, e⟩
  · rw [e]; exact minv_same _ h hset hno'
  · rw [e] at hnu ⊢
    exact minv_append _ h hnu rfl [x] rfl (fun y hy => by
      rw [List.mem_singleton.mp hy]; exact ⟨hx, by simp [hxt]⟩) _ (filter_ne_tag_spec _).1 rfl
      (filter_ne_tag_spec _).2 hset hno'
  · rw [e] at hnu hext ⊢
    refine minv_frame _ h hnu rfl (fun _ => true) (fun _ _ _ => rfl) (filter_true_eq _) (fun _ h => by cases h) hset
      (hstd_noNs hno') hext ?_ ?_ (hown_noNs hno')
    · intro ns hns
      apply nsNodes_updFirst_other
      · intro y hy ht
        have : y.tag = "MOD_PAR" := by simpa using hy
        exact hns _ ht (by simp [this])
      · exact fun y => (hf y).1
    · intro y hy r hr
      rcases mem_updFirst hy with hy | ⟨y0, hy0, _, rfl⟩
      · exact .inl ⟨y, hy, rfl, hr⟩
      · exact .inl ⟨y0, hy0, ((hf y0).1).symm, (hf y0).2.2 ▸ hr⟩

theorem foldl_preserves {β} (Q : Module → Prop) (g : Module → β → Module) : ∀ (l : List β) (m : Module), Q m →
    (∀ m b, b ∈ l → Q m → Q (g m b)) → Q (l.foldl g m)
  | [], _, h, _ => h
  | b :: l, m, h, hg => foldl_preserves Q g l (g m b) (hg m b (List.mem_cons_self ..) h)
      (fun m b hb => hg m b (List.mem_cons_of_mem _ hb))

theorem minv_mergeUserRights {A0 B0 : Module} {mv sv : List String} {ks : List Ns} {st : St}
    (h : MInv A0 B0 mv sv ks st) (hset : covOK ["USER_RIGHTS"] ks = true) :
    MInv A0 B0 (mv ++ ["USER_RIGHTS"]) (sv ++ ["USER_RIGHTS"]) ks (mergeUserRights st) := by
  have hno : NoNs "USER_RIGHTS" := noNs_of_decide (by decide)
  have hno' : ∀ t ∈ ["USER_RIGHTS"], NoNs t := fun t ht => (List.mem_singleton.mp ht) ▸ hno
  have hl : ∀ b ∈ st.b.filter (·.tag == "USER_RIGHTS"), b ∈ st.b ∧ b.tag = "USER_RIGHTS" := fun b hb => by
    have := List.mem_filter.mp hb
    exact ⟨this.1, by simpa using this.2⟩
  refine minv_frame _ h (nuinv_mergeUserRights h.nu) rfl _ (filter_ne_tag_spec _).1 rfl (filter_ne_tag_spec _).2 hset
    (hstd_noNs hno') (ext_mergeUserRights st) ?_ ?_ (hown_noNs hno')
  · intro ns hns
    show nsNodes ns ((st.b.filter (·.tag == "USER_RIGHTS")).foldl userRightsStep st.a) = _
    apply foldl_preserves (fun m => nsNodes ns m = nsNodes ns st.a) _ _ _ rfl
    intro m b hb hm
    unfold userRightsStep
    split
    · exact hm
    · rw [nsNodes_append_other _ _ (fun y hy ht => by
        rw [List.mem_singleton.mp hy, (hl b hb).2] at ht
        exact hns _ ht (List.mem_singleton.mpr rfl))]
      exact hm
  · show ∀ y ∈ (st.b.filter (·.tag == "USER_RIGHTS")).foldl userRightsStep st.a, _
    apply foldl_preserves (fun m => ∀ y ∈ m, ∀ r ∈ y.refs, (∃ y0 ∈ st.a, y0.tag = y.tag ∧ r ∈ y0.refs) ∨
        (y.tag ∈ ["USER_RIGHTS"] ∧ ∃ x' ∈ st.b, x'.tag = y.tag ∧ r ∈ x'.refs))
    · exact fun y hy r hr => .inl ⟨y, hy, rfl, hr⟩
    · intro m b hb hm
      unfold userRightsStep
      split
      · exact hm
      · intro y hy
        rcases List.mem_append.mp hy with hy | hy
        · exact hm y hy
        · rw [List.mem_singleton.mp hy]
          exact fun r hr => .inr ⟨by simp [(hl b hb).2], b, (hl b hb).1, rfl, hr⟩

theorem mem_gained {h : List String} : ∀ {l : List String} {t : String}, t ∈ gained h l → t ∈ l := by
  intro l
  induction l generalizing h with
  | nil => intro t ht; cases ht
  | cons x l ih =>
    intro t ht
    unfold gained at ht
    split at ht
    · exact List.mem_cons_of_mem _ (ih ht)
    · rcases List.mem_cons.mp ht with rfl | ht
      · exact List.mem_cons_self ..
      · exact List.mem_cons_of_mem _ (ih ht)

theorem mem_gainedAt {a b : Node} {site : String} {r : Ref} (h : r ∈ gainedAt a b site) : r ∈ b.refs := by
  unfold gainedAt at h
  obtain ⟨t, ht, rfl⟩ := List.mem_map.mp h
  have ht' : t ∈ targetsAt site b := by
    split at ht
    · exact ht
    · exact mem_gained ht
  unfold targetsAt at ht'
  obtain ⟨r', hr', rfl⟩ := List.mem_map.mp ht'
  have := List.mem_filter.mp hr'
  have hs : r'.site = site := by simpa using this.2
  cases r'
  simp only at hs
  subst hs
  exact this.1

theorem mem_refs_mergeLists {sites : List String} {b x : Node} {r : Ref} (h : r ∈ (mergeLists sites b x).refs) :
    r ∈ x.refs ∨ r ∈ b.refs := by
  unfold mergeLists at h
  split at h
  · exact .inl h
  · rcases List.mem_append.mp h with h | h
    · exact .inl h
    · obtain ⟨s, _, hs⟩ := List.mem_flatMap.mp h
      exact .inr (mem_gainedAt hs)

theorem byName_own (tag : String) (sites : List String) (htag : tag = "FUNCTION" ∨ tag = "GROUP") :
    ∀ (l : List Node) (m : Module), (∀ b ∈ l, b.tag = tag) → ∀ b ∈ l,
      ∃ z ∈ l.foldl (byNameStep tag sites) m, z.tag = tag ∧ z.name = b.name
  | [], _, _, _, hb => by cases hb
  | c :: l, m, hl, b, hb => by
    simp only [List.foldl_cons]
    rcases List.mem_cons.mp hb with rfl | hb
    · have h1 : ∃ z ∈ byNameStep tag sites m b, z.tag = tag ∧ z.name = b.name := by
        by_cases hany : m.any (fun x => x.tag == tag && x.name == b.name) = true
        · obtain ⟨x, hx, hxp⟩ := List.any_eq_true.mp hany
          simp only [Bool.and_eq_true, beq_iff_eq] at hxp
          obtain ⟨z, hz, hzt, hzn⟩ := (ext_byNameStep tag sites htag m b).mem_tag_name hx
          exact ⟨z, hz, hzt.trans hxp.1, hzn.trans hxp.2⟩
        · unfold byNameStep
          rw [if_neg hany]
          exact ⟨b, List.mem_append_right _ (List.mem_singleton.mpr rfl), hl b (List.mem_cons_self ..), rfl⟩
      obtain ⟨z, hz, hzt, hzn⟩ := h1
      obtain ⟨z', hz', h1, h2⟩ := (Ext.foldl _ (ext_byNameStep tag sites htag) l _).mem_tag_name hz
      exact ⟨z', hz', h1.trans hzt, h2.trans hzn⟩
    · exact byName_own tag sites htag l _ (fun b hb => hl b (List.mem_cons_of_mem _ hb)) b hb

theorem minv_mergeByName {A0 B0 : Module} {mv sv : List String} {ks : List Ns} {st : St} (nsF : Ns) (tag : String)
    (sites : List String) (hns : nsF.tags = [tag]) (hnstd : ¬ nsF.std) (htag : tag = "FUNCTION" ∨ tag = "GROUP")
    (h : MInv A0 B0 mv sv ks st) (hset : covOK [tag] ks = true) (hmv : tag ∉ mv) :
    MInv A0 B0 (mv ++ [tag]) (sv ++ [tag]) ks (mergeByName tag sites st) := by
  have hl : ∀ b ∈ st.b.filter (·.tag == tag), b ∈ st.b ∧ b.tag = tag := fun b hb => by
    have := List.mem_filter.mp hb
    exact ⟨this.1, by simpa using this.2⟩
  have hmem : tag ∈ nsF.tags := by rw [hns]; exact List.mem_singleton.mpr rfl
  refine minv_frame _ h (nuinv_mergeByName nsF sites hns h.nu) rfl _ (filter_ne_tag_spec _).1 rfl (filter_ne_tag_spec _).2 hset
    ?_ (ext_mergeByName tag sites htag st) ?_ ?_ ?_
  · intro ns hs t ht ht'
    rw [List.mem_singleton.mp ht'] at ht
    exact hnstd (tags_disjoint ht hmem ▸ hs)
  · intro ns hnsd
    have hnt : tag ∉ ns.tags := fun e => hnsd _ e (List.mem_singleton.mpr rfl)
    show nsNodes ns ((st.b.filter (·.tag == tag)).foldl (byNameStep tag sites) st.a) = _
    apply foldl_preserves (fun m => nsNodes ns m = nsNodes ns st.a) _ _ _ rfl
    intro m b hb hm
    unfold byNameStep
    split
    · rw [nsNodes_updFirst_other _ _ _ (fun y hy ht => by
        simp only [Bool.and_eq_true, beq_iff_eq] at hy
        exact hnt (hy.1 ▸ ht)) (fun y => (mergeLists_tag_name sites b y).1)]
      exact hm
    · rw [nsNodes_append_other _ _ (fun y hy ht => by
        rw [List.mem_singleton.mp hy, (hl b hb).2] at ht
        exact hnt ht)]
      exact hm
  · show ∀ y ∈ (st.b.filter (·.tag == tag)).foldl (byNameStep tag sites) st.a, _
    apply foldl_preserves (fun m => ∀ y ∈ m, ∀ r ∈ y.refs, (∃ y0 ∈ st.a, y0.tag = y.tag ∧ r ∈ y0.refs) ∨
        (y.tag ∈ [tag] ∧ ∃ x' ∈ st.b, x'.tag = y.tag ∧ r ∈ x'.refs))
    · exact fun y hy r hr => .inl ⟨y, hy, rfl, hr⟩
    · intro m b hb hm
      unfold byNameStep
      split
      · intro y hy r hr
        rcases mem_updFirst hy with hy | ⟨y0, hy0, hq, rfl⟩
        · exact hm y hy r hr
        · simp only [Bool.and_eq_true, beq_iff_eq] at hq
          have ht0 : (mergeLists sites b y0).tag = y0.tag := (mergeLists_tag_name sites b y0).1
          rcases mem_refs_mergeLists hr with hr | hr
          · rw [ht0]; exact hm y0 hy0 r hr
          · exact .inr ⟨by rw [ht0, hq.1]; exact List.mem_singleton.mpr rfl, b, (hl b hb).1,
              by rw [ht0, hq.1, (hl b hb).2], hr⟩
      · intro y hy
        rcases List.mem_append.mp hy with hy | hy
        · exact hm y hy
        · rw [List.mem_singleton.mp hy]
          exact fun r hr => .inr ⟨by simp [(hl b hb).2], b, (hl b hb).1, rfl, hr⟩
  · intro ns hs hall hold x hx hxt
    have hnt : tag ∈ ns.tags := by
      apply Classical.byContradiction
      intro hnt
      apply hold
      intro t ht
      rcases List.mem_append.mp (hall t ht) with h1 | h1
      · exact h1
      · exact absurd (List.mem_singleton.mp h1 ▸ ht) hnt
    have hnsF : ns = nsF := tags_disjoint hnt hmem
    subst hnsF
    rw [hns] at hxt
    have hxt' : x.tag = tag := List.mem_singleton.mp hxt
    have hxb := mem_b_of_keep h hx (hxt' ▸ hmv)
    have hxl : renAll st.plans x ∈ st.b.filter (·.tag == tag) := List.mem_filter.mpr ⟨hxb, by simp [hxt']⟩
    obtain ⟨z, hz, hzt, hzn⟩ := byName_own tag sites htag _ st.a (fun b hb => (hl b hb).2) _ hxl
    exact ⟨z, hz, by rw [hzt, hns]; exact List.mem_singleton.mpr rfl, hzn⟩

theorem minv_init {a b : Module} (ha : UniqueNames a) (hb : UniqueNames b) : MInv a b [] [] [] ⟨a, b, []⟩ where
  nu := ⟨ha, hb, fun _ => PlanFacts.empty _ _⟩
  keys := rfl
  nd := List.nodup_nil
  std _ h := by cases h
  bform := ⟨fun _ => true, by
    show b = _
    rw [← filter_true_eq, List.map_congr_left (g := id) (fun x _ => renAll_nil x), List.map_id], fun _ _ _ => rfl⟩
  msub _ h := by cases h
  ksv _ h := by cases h
  settled _ h := by cases h
  aframe _ _ := rfl
  ext := Ext.refl _
  prov y hy r hr := .inl ⟨y, hy, rfl, hr⟩
  pend _ h := by cases h
  rep _ h := by cases h
  own ns hall := by
    obtain ⟨t, ht⟩ := tags_ne_nil ns
    cases hall t ht

/-- the kinds moved and the namespaces planned at the end of `merge_modules` -/
def finalMoved : List String :=
  ["A2ML", "MOD_PAR", "IF_DATA"] ++ Ns.unit.tags ++ Ns.compuTab.tags ++ Ns.compuMethod.tags ++ Ns.recordLayout.tags ++
    ["MOD_COMMON"] ++ Ns.object.tags ++ Ns.typedef.tags ++ ["FUNCTION", "GROUP"] ++ Ns.frame.tags ++ Ns.transformer.tags ++
    ["USER_RIGHTS", "VARIANT_CODING"]

def finalKeys : List Ns := [.transformer, .frame, .typedef, .object, .recordLayout, .compuMethod, .compuTab, .unit]

theorem minv_mergeSt {a b : Module} (ha : UniqueNames a) (hb : UniqueNames b) :
    ∃ sv, MInv a b finalMoved sv finalKeys (mergeSt a b) := by
  have h := minv_init ha hb
  have h := minv_takeOpt "A2ML" h (by decide) (noNs_of_decide (by decide))
  have h := minv_mergeModPar h (by decide)
  have h := minv_takeAll "IF_DATA" h (by decide) (noNs_of_decide (by decide))
  have h := minv_planLoop [.unit] h (by decide) (by decide) (by decide) (by decide) (by decide)
  have h := minv_applyNs .unit h (by decide) (by decide)
  have h := minv_planNs .compuTab h (by decide) (by decide) (by decide) (by decide) (by decide)
  have h := minv_applyNs .compuTab h (by decide) (by decide)
  have h := minv_planNs .compuMethod h (by decide) (by decide) (by decide) (by decide) (by decide)
  have h := minv_applyNs .compuMethod h (by decide) (by decide)
  have h := minv_planNs .recordLayout h (by decide) (by decide) (by decide) (by decide) (by decide)
  have h := minv_applyNs .recordLayout h (by decide) (by decide)
  have h := minv_takeOpt "MOD_COMMON" h (by decide) (noNs_of_decide (by decide))
  have h := minv_planLoop [.object, .typedef] h (by decide) (by decide) (by decide) (by decide) (by decide)
  have h := minv_applyNs .object h (by decide) (by decide)
  have h := minv_applyNs .typedef h (by decide) (by decide)
  have h := minv_mergeByName .function "FUNCTION" functionSites rfl (by decide) (.inl rfl) h (by decide) (by decide)
  have h := minv_mergeByName .group "GROUP" groupSites rfl (by decide) (.inr rfl) h (by decide) (by decide)
  have h := minv_planNs .frame h (by decide) (by decide) (by decide) (by decide) (by decide)
  have h := minv_applyNs .frame h (by decide) (by decide)
  have h := minv_planLoop [.transformer] h (by decide) (by decide) (by decide) (by decide) (by decide)
  have h := minv_applyNs .transformer h (by decide) (by decide)
  have h := minv_mergeUserRights h (by decide)
  have h := minv_takeOpt "VARIANT_CODING" h (by decide) (noNs_of_decide (by decide))
  exact ⟨_, h⟩

theorem std_mem_finalKeys {ns : Ns} (h : ns.std) : ns ∈ finalKeys := by
  obtain ⟨h1, h2⟩ := h
  cases ns <;> first | exact absurd rfl h1 | exact absurd rfl h2 | decide

theorem tags_mem_finalMoved (ns : Ns) : ∀ t ∈ ns.tags, t ∈ finalMoved := by
  cases ns <;> decide

/-! ### resolving references (C09 `no_dangling`) -/

/-- reference fields that no `rename_*` function touches, with the namespace they point into -/
def uncoveredNs (site : String) : Option Ns :=
  if site = "FunctionList.name_list" then some .function
  else if site = "SubFunction.identifier_list" then some .function
  else if site = "SubGroup.identifier_list" then some .group
  else if site = "RefGroup.identifier_list" then some .group
  else none

/-- the namespace a reference field points into. `VarCharacteristic.criterion_name_list` holds names of VAR_CRITERIONs
    (not visible in the node abstraction); since fix 75105bb `rename_objects` no longer applies the object table to it
    (it renames `VarCharacteristic.name`, the variant-coded object, instead). -/
def refNs (tag site : String) : Option Ns :=
  if tag = "VARIANT_CODING" ∧ site = "VarCharacteristic.criterion_name_list" then none
  else match coveredNs tag site with
    | some ns => some ns
    | none => uncoveredNs site

/-- every reference (with a known target namespace) finds a node of that name in that namespace -/
def Resolved (m : Module) : Prop :=
  ∀ n ∈ m, ∀ r ∈ n.refs, ∀ ns, refNs n.tag r.site = some ns → r.target ∈ names ns m

theorem refNs_covered {tag site : String} {ns ns' : Ns} (h : refNs tag site = some ns) (hc : coveredNs tag site = some ns') :
    ns' = ns := by
  unfold refNs at h
  split at h
  · cases h
  · rw [hc] at h; exact Option.some.inj h

theorem refNs_uncovered {tag site : String} {ns : Ns} (h : refNs tag site = some ns) (hc : coveredNs tag site = none) :
    uncoveredNs site = some ns := by
  unfold refNs at h
  split at h
  · cases h
  · rw [hc] at h; exact h

theorem coveredNs_std {tag site : String} {ns : Ns} (hc : coveredNs tag site = some ns) : ns.std := by
  have hall : (covered.all fun c => decide (c.2.2 ≠ Ns.function ∧ c.2.2 ≠ Ns.group)) = true := by decide
  unfold coveredNs at hc
  cases hf : covered.find? (fun c => c.1 == tag && c.2.1 == site) with
  | none => rw [hf] at hc; cases hc
  | some c =>
    rw [hf] at hc
    have := List.all_eq_true.mp hall c (List.mem_of_find?_eq_some hf)
    simp only [Option.map_some, Option.some.injEq] at hc
    rw [← hc]
    simpa [Ns.std] using this

theorem names_subset_of_ext {m m' : Module} (h : Ext m m') (ns : Ns) {s : String} (hs : s ∈ names ns m) : s ∈ names ns m' := by
  obtain ⟨n, hn, hnt, hnn⟩ := mem_names.mp hs
  obtain ⟨n', hn', h1, h2⟩ := h.mem_tag_name hn
  exact mem_names.mpr ⟨n', hn', h1 ▸ hnt, h2.trans hnn⟩

theorem resolved_mergeSt {a b : Module} (ha : UniqueNames a) (hb : UniqueNames b) (hra : Resolved a) (hrb : Resolved b) :
    Resolved (mergeSt a b).a := by
  obtain ⟨sv, h⟩ := minv_mergeSt ha hb
  intro n hn r hr ns hns
  rcases h.prov n hn r hr with ⟨a0, ha0, ha0t, ha0r⟩ | ⟨_, x, hx, hxt, hxr⟩
  · exact names_subset_of_ext h.ext ns (hra a0 ha0 r ha0r ns (ha0t ▸ hns))
  · obtain ⟨r0, hr0, rfl⟩ := List.mem_map.mp hxr
    rw [repRef_site, ← hxt] at hns
    have hres := hrb x hx r0 hr0 ns hns
    obtain ⟨x2, hx2, hx2t, hx2n⟩ := mem_names.mp hres
    cases hc : coveredNs x.tag r0.site with
    | some ns' =>
      have e := refNs_covered hns hc
      subst e
      have hstd := coveredNs_std hc
      obtain ⟨y, hy, hyt, _, hyn, _⟩ := h.rep ns' (std_mem_finalKeys hstd) (tags_mem_finalMoved ns') x2 hx2 hx2t
      rw [repRef_of_some hc]
      exact mem_names.mpr ⟨y, hy, hyt ▸ hx2t, by rw [hyn, hx2n]⟩
    | none =>
      rw [repRef_of_none hc]
      obtain ⟨z, hz, hzt, hzn⟩ := h.own ns (tags_mem_finalMoved ns) x2 hx2 hx2t
      exact mem_names.mpr ⟨z, hz, hzt, hzn.trans hx2n⟩



/-! ## Special cases of the merge: B empty, B = A, A empty (C08.5) -/


/-! ### `merge A [] = A` -/

theorem nsNodes_nil (ns : Ns) : nsNodes ns [] = [] := by
  unfold nsNodes
  induction ns.tags with
  | nil => rfl
  | cons t ts ih => simp [List.flatMap_cons]

/-- a pass does nothing to A when B is empty -/
def NoopOnEmpty (f : St → St) : Prop := ∀ st : St, st.b = [] → (f st).a = st.a ∧ (f st).b = []

theorem noop_takeOpt (tag : String) : NoopOnEmpty (takeOpt tag) := by
  intro st hb; unfold takeOpt; rw [hb]; exact ⟨rfl, hb⟩
theorem noop_mergeModPar : NoopOnEmpty mergeModPar := by
  intro st hb; unfold mergeModPar; rw [hb]; exact ⟨rfl, hb⟩
theorem noop_takeAll (tag : String) : NoopOnEmpty (takeAll tag) := by
  intro st hb; unfold takeAll; split
  · exact ⟨rfl, hb⟩
  · simp [hb]
theorem noop_planNs (ns : Ns) : NoopOnEmpty (planNs ns) := by
  intro st hb; unfold planNs; simp [hb]
theorem noop_planLoop (nss : List Ns) (hn : nss.Nodup) : NoopOnEmpty (planLoop nss) := by
  intro st hb
  refine ⟨rfl, ?_⟩
  have := (planLoop_spec nss hn st).b_eq [] [] (by rw [hb]; rfl) (fun _ _ h => by cases h)
  rw [this]; rfl
theorem noop_applyNs (ns : Ns) : NoopOnEmpty (applyNs ns) := by
  intro st hb; unfold applyNs; simp [hb, nsNodes_nil, appendLoop]
theorem noop_mergeByName (tag : String) (sites : List String) : NoopOnEmpty (mergeByName tag sites) := by
  intro st hb; unfold mergeByName; simp [hb]
theorem noop_mergeUserRights : NoopOnEmpty mergeUserRights := by
  intro st hb; unfold mergeUserRights; simp [hb]

theorem NoopOnEmpty.step {f : St → St} (hf : NoopOnEmpty f) {a : Module} {st : St} (h : st.a = a ∧ st.b = []) :
    (f st).a = a ∧ (f st).b = [] := ⟨(hf st h.2).1.trans h.1, (hf st h.2).2⟩

theorem mergeSt_empty_right (a : Module) : (mergeSt a []).a = a := by
  have h : (St.mk a [] []).a = a ∧ (St.mk a [] []).b = [] := ⟨rfl, rfl⟩
  have h := (noop_takeOpt "A2ML").step h
  have h := noop_mergeModPar.step h
  have h := (noop_takeAll "IF_DATA").step h
  have h := (noop_applyNs .unit).step ((noop_planLoop [.unit] (by decide)).step h)
  have h := (noop_applyNs .compuTab).step ((noop_planNs .compuTab).step h)
  have h := (noop_applyNs .compuMethod).step ((noop_planNs .compuMethod).step h)
  have h := (noop_applyNs .recordLayout).step ((noop_planNs .recordLayout).step h)
  have h := (noop_takeOpt "MOD_COMMON").step h
  have h := (noop_planLoop [.object, .typedef] (by decide)).step h
  have h := (noop_applyNs .typedef).step ((noop_applyNs .object).step h)
  have h := (noop_mergeByName "FUNCTION" functionSites).step h
  have h := (noop_mergeByName "GROUP" groupSites).step h
  have h := (noop_applyNs .frame).step ((noop_planNs .frame).step h)
  have h := (noop_applyNs .transformer).step ((noop_planLoop [.transformer] (by decide)).step h)
  have h := noop_mergeUserRights.step h
  have h := (noop_takeOpt "VARIANT_CODING").step h
  exact h.1

/-! ### `merge A A = A` (unique names) -/

theorem renameNode_nil (ns : Ns) (n : Node) : renameNode ns [] n = n := by
  cases n with
  | mk t nm h refs =>
    simp only [renameNode, Node.mk.injEq, true_and]
    rw [List.map_congr_left (g := id) (fun r _ => by unfold renameRef; split <;> rfl), List.map_id]

theorem lookup_self_of_nodup : ∀ {l : List Node}, (l.map (·.name)).Nodup → ∀ {m : Node}, m ∈ l → lookup l m.name = some m
  | [], _, _, h => by cases h
  | x :: l, hn, m, h => by
    simp only [List.map_cons, List.nodup_cons] at hn
    unfold lookup
    rw [List.find?_cons]
    rcases List.mem_cons.mp h with rfl | h
    · simp
    · have : x.name ≠ m.name := fun e => hn.1 (e ▸ List.mem_map.mpr ⟨m, h, rfl⟩)
      have hb : (x.name == m.name) = false := by simpa using this
      simp only [hb]
      exact lookup_self_of_nodup hn.2 h

theorem inj_of_nodup_map {α β} {f : α → β} : ∀ {l : List α}, (l.map f).Nodup → ∀ {x y : α}, x ∈ l → y ∈ l → f x = f y → x = y
  | [], _, _, _, h, _, _ => by cases h
  | a :: l, hn, x, y, hx, hy, e => by
    simp only [List.map_cons, List.nodup_cons] at hn
    rcases List.mem_cons.mp hx with hx | hx <;> rcases List.mem_cons.mp hy with hy | hy
    · rw [hx, hy]
    · exact absurd (List.mem_map.mpr ⟨y, hy, by rw [← e, hx]⟩) hn.1
    · exact absurd (List.mem_map.mpr ⟨x, hx, by rw [e, hy]⟩) hn.1
    · exact inj_of_nodup_map hn.2 hx hy e

/-- two nodes of a namespace with the same name are the same node -/
theorem eq_of_unique {m : Module} {ns : Ns} (h : (names ns m).Nodup) {x y : Node} (hx : x ∈ m) (hy : y ∈ m)
    (hxt : x.tag ∈ ns.tags) (hyt : y.tag ∈ ns.tags) (e : x.name = y.name) : x = y :=
  inj_of_nodup_map h (List.mem_filter.mpr ⟨hx, by simpa [hasTag] using hxt⟩)
    (List.mem_filter.mpr ⟨hy, by simpa [hasTag] using hyt⟩) e

theorem calc_ren_of_no_conflict (orig merge : List Node) : ∀ (l : List Node) (p : Plan), (∀ m ∈ l, isConflict orig m = false) →
    (l.foldl (calcStep orig merge) p).ren = p.ren
  | [], _, _ => rfl
  | b :: l, p, h => by
    simp only [List.foldl_cons]
    rw [calc_ren_of_no_conflict orig merge l _ (fun m hm => h m (List.mem_cons_of_mem _ hm)), calcStep_ren,
      h b (List.mem_cons_self ..)]
    rfl

theorem appendLoop_nil_of (p : Plan) : ∀ (L : List Node) (removed : List String), (∀ x ∈ L, p.act.get x.name ≠ some true) →
    appendLoop p removed L = []
  | [], _, _ => rfl
  | x :: L, removed, h => by
    unfold appendLoop
    rw [if_neg (h x (List.mem_cons_self ..))]
    exact appendLoop_nil_of p L removed (fun y hy => h y (List.mem_cons_of_mem _ hy))

theorem find?_filter_of_imp {α} (q keep : α → Bool) (h : ∀ y, q y = true → keep y = true) : ∀ (l : List α),
    (l.filter keep).find? q = l.find? q
  | [] => rfl
  | x :: l => by
    by_cases hk : keep x = true
    · rw [List.filter_cons_of_pos hk, List.find?_cons, List.find?_cons, find?_filter_of_imp q keep h l]
    · rw [List.filter_cons_of_neg hk, List.find?_cons, find?_filter_of_imp q keep h l]
      have : q x = false := by
        cases hq : q x with
        | false => rfl
        | true => exact absurd (h x hq) hk
      simp [this]

theorem updFirst_eq_self (q : Node → Bool) (f : Node → Node) : ∀ (l : List Node), (∀ y ∈ l, q y = true → f y = y) →
    updFirst q f l = l
  | [], _ => rfl
  | x :: l, h => by
    unfold updFirst
    split
    · rw [h x (List.mem_cons_self ..) ‹_›]
    · rw [updFirst_eq_self q f l (fun y hy => h y (List.mem_cons_of_mem _ hy))]

theorem updFirst_eq_self_of_find (q : Node → Bool) (f : Node → Node) : ∀ (l : List Node),
    (∀ y, l.find? q = some y → f y = y) → updFirst q f l = l
  | [], _ => rfl
  | x :: l, h => by
    unfold updFirst
    split
    · rename_i hq
      rw [h x (by rw [List.find?_cons, hq])]
    · rename_i hq
      have hq' : q x = false := by simpa using hq
      rw [updFirst_eq_self_of_find q f l (fun y hy => h y (by rw [List.find?_cons, hq']; exact hy))]

/-- the invariant of `merge A A`: A is unchanged, B is A without the kinds handled so far, nothing is marked for adding -/
structure SInv (a0 : Module) (mv : List String) (st : St) : Prop where
  sa : st.a = a0
  sb : st.b = a0.filter (fun n => !mv.contains n.tag)
  sp : ∀ ns : Ns, ∀ x ∈ nsNodes ns st.b, (st.plan ns).act.get x.name ≠ some true

theorem St.ext' {s t : St} (ha : s.a = t.a) (hb : s.b = t.b) (hp : s.plans = t.plans) : s = t := by
  cases s; cases t; simp_all

theorem sinv_mem {a0 : Module} {mv : List String} {st : St} (h : SInv a0 mv st) {x : Node} (hx : x ∈ st.b) : x ∈ st.a := by
  rw [h.sa]; rw [h.sb] at hx; exact (List.mem_filter.mp hx).1

theorem sinv_takeOpt {a0 : Module} {mv : List String} {st : St} (tag : String) (h : SInv a0 mv st) :
    SInv a0 mv (takeOpt tag st) := by
  have : takeOpt tag st = st := by
    unfold takeOpt
    split
    · rename_i x hx
      have hxa := sinv_mem h (List.mem_of_find?_eq_some hx)
      have hxt := List.find?_some hx
      rw [if_pos (List.any_eq_true.mpr ⟨x, hxa, hxt⟩)]
    · rfl
  rw [this]; exact h

theorem sinv_takeAll {a0 : Module} {mv : List String} {st : St} (tag : String) (h : SInv a0 mv st) :
    SInv a0 mv (takeAll tag st) := by
  have : takeAll tag st = st := by
    unfold takeAll
    split
    · rfl
    · rename_i hany
      have hnone : ∀ x ∈ st.b, (x.tag == tag) = false := by
        intro x hx
        cases hq : x.tag == tag with
        | false => rfl
        | true => exact absurd (List.any_eq_true.mpr ⟨x, sinv_mem h hx, hq⟩) hany
      apply St.ext'
      · show st.a ++ st.b.filter (·.tag == tag) = st.a
        rw [List.filter_eq_nil_iff.mpr (fun x hx => by simp [hnone x hx]), List.append_nil]
      · show st.b.filter (·.tag != tag) = st.b
        exact List.filter_eq_self.mpr (fun x hx => by simp [bne, hnone x hx])
      · rfl
  rw [this]; exact h

theorem sinv_mergeModPar {a0 : Module} {mv : List String} {st : St} (h : SInv a0 mv st) (hmv : "MOD_PAR" ∉ mv) :
    SInv a0 mv (mergeModPar st) := by
  have : mergeModPar st = st := by
    unfold mergeModPar
    split
    · rename_i x hx
      have hxa := sinv_mem h (List.mem_of_find?_eq_some hx)
      have hxt := List.find?_some hx
      rw [if_pos (List.any_eq_true.mpr ⟨x, hxa, hxt⟩)]
      refine St.ext' ?_ (by rfl) (by rfl)
      show updFirst _ _ st.a = st.a
      apply updFirst_eq_self_of_find
      intro y hy
      have : st.b.find? (·.tag == "MOD_PAR") = st.a.find? (·.tag == "MOD_PAR") := by
        rw [h.sb, h.sa]
        apply find?_filter_of_imp
        intro y hy
        have : y.tag = "MOD_PAR" := by simpa using hy
        simpa [this] using hmv
      rw [← this, hx] at hy
      cases hy
      simp
    · rfl
  rw [this]; exact h

theorem nsNodes_filter_keep {ns : Ns} {mv : List String} (m : Module) (hmv : ∀ t ∈ ns.tags, t ∉ mv) :
    nsNodes ns (m.filter fun n => !mv.contains n.tag) = nsNodes ns m := by
  apply nsNodes_congr
  intro t ht
  rw [List.filter_filter]
  apply List.filter_congr
  intro x _
  by_cases e : x.tag = t
  · simp only [e, beq_self_eq_true, Bool.true_and]
    simpa using hmv t ht
  · simp [e]

theorem sinv_planNs {a0 : Module} {mv : List String} {st : St} (ns : Ns) (hu : UniqueNames a0) (h : SInv a0 mv st)
    (hmv : ∀ t ∈ ns.tags, t ∉ mv) : SInv a0 mv (planNs ns st) := by
  have hM : nsNodes ns st.b = nsNodes ns a0 := by rw [h.sb]; exact nsNodes_filter_keep a0 hmv
  have hnd : ((nsNodes ns a0).map (·.name)).Nodup := (names_nsNodes_perm ns a0).symm.nodup (hu ns)
  have hself : ∀ m ∈ nsNodes ns a0, lookup (nsNodes ns a0) m.name = some m := fun m hm => lookup_self_of_nodup hnd hm
  have hnc : ∀ m ∈ nsNodes ns a0, isConflict (nsNodes ns a0) m = false := by
    intro m hm; unfold isConflict; rw [hself m hm]; simp
  have hna : ∀ m ∈ nsNodes ns a0, needsAdd (nsNodes ns a0) m = false := by
    intro m hm; unfold needsAdd; rw [hself m hm]; simp
  have hren : (calcActions (nsNodes ns st.a) (nsNodes ns st.b)).ren = [] := by
    rw [h.sa, hM]; exact calc_ren_of_no_conflict _ _ _ _ hnc
  have hb : (planNs ns st).b = st.b := by
    show st.b.map _ = st.b
    rw [hren, List.map_congr_left (g := id) (fun x _ => renameNode_nil ns x), List.map_id]
  refine ⟨h.sa, hb.trans h.sb, ?_⟩
  intro ns' x hx
  rw [hb] at hx
  by_cases e : ns = ns'
  · subst e
    unfold planNs
    rw [St.plan_cons_self, h.sa, hM]
    rw [hM] at hx
    rw [(calcActions_entry _ _ hnd x hx).1, hna x hx]
    simp
  · unfold planNs
    rw [St.plan_cons_ne e _ _ _ st.a st.b]
    exact h.sp ns' x hx

theorem sinv_no_ren {a0 : Module} {mv : List String} {st : St} (ns : Ns) (hu : UniqueNames a0) (h : SInv a0 mv st)
    (hmv : ∀ t ∈ ns.tags, t ∉ mv) : (calcActions (nsNodes ns st.a) (nsNodes ns st.b)).ren = [] := by
  have hM : nsNodes ns st.b = nsNodes ns a0 := by rw [h.sb]; exact nsNodes_filter_keep a0 hmv
  have hnd : ((nsNodes ns a0).map (·.name)).Nodup := (names_nsNodes_perm ns a0).symm.nodup (hu ns)
  have hnc : ∀ m ∈ nsNodes ns a0, isConflict (nsNodes ns a0) m = false := by
    intro m hm; unfold isConflict; rw [lookup_self_of_nodup hnd hm]; simp
  rw [h.sa, hM]; exact calc_ren_of_no_conflict _ _ _ _ hnc

theorem sinv_planLoop1 {a0 : Module} {mv : List String} {st : St} (ns : Ns) (hu : UniqueNames a0) (h : SInv a0 mv st)
    (hmv : ∀ t ∈ ns.tags, t ∉ mv) : SInv a0 mv (planLoop [ns] st) := by
  rw [planLoop_single_of_no_ren ns st (sinv_no_ren ns hu h hmv)]
  exact sinv_planNs ns hu h hmv

theorem sinv_planLoop2 {a0 : Module} {mv : List String} {st : St} (n₁ n₂ : Ns) (hne : n₁ ≠ n₂) (hu : UniqueNames a0)
    (h : SInv a0 mv st) (hmv₁ : ∀ t ∈ n₁.tags, t ∉ mv) (hmv₂ : ∀ t ∈ n₂.tags, t ∉ mv) : SInv a0 mv (planLoop [n₁, n₂] st) := by
  have h1 := sinv_planNs n₁ hu h hmv₁
  rw [planLoop_pair_of_no_ren n₁ n₂ hne st (sinv_no_ren n₁ hu h hmv₁) (sinv_no_ren n₂ hu h1 hmv₂)]
  exact sinv_planNs n₂ hu h1 hmv₂

theorem sinv_applyNs {a0 : Module} {mv : List String} {st : St} (ns : Ns) (h : SInv a0 mv st) :
    SInv a0 (mv ++ ns.tags) (applyNs ns st) := by
  refine ⟨?_, ?_, ?_⟩
  · show st.a ++ appendLoop (st.plan ns) [] (nsNodes ns st.b) = a0
    rw [appendLoop_nil_of _ _ _ (h.sp ns), List.append_nil, h.sa]
  · show st.b.filter (fun n => !hasTag ns.tags n) = _
    rw [h.sb, List.filter_filter]
    apply List.filter_congr
    intro x _
    simp [hasTag, Bool.and_comm]
  · intro ns' x hx
    have hx' := mem_nsNodes.mp hx
    exact h.sp ns' x (mem_nsNodes.mpr ⟨(List.mem_filter.mp hx'.1).1, hx'.2⟩)

theorem sinv_filter_tag {a0 : Module} {mv : List String} {st st' : St} (tag : String) (h : SInv a0 mv st)
    (ha : st'.a = st.a) (hb : st'.b = st.b.filter (·.tag != tag)) (hp : st'.plans = st.plans) : SInv a0 (mv ++ [tag]) st' := by
  refine ⟨ha.trans h.sa, ?_, ?_⟩
  · rw [hb, h.sb, List.filter_filter]
    apply List.filter_congr
    intro x _
    by_cases e : x.tag = tag <;> simp [e, bne]
  · intro ns x hx
    rw [hb] at hx
    have hx' := mem_nsNodes.mp hx
    have := h.sp ns x (mem_nsNodes.mpr ⟨(List.mem_filter.mp hx'.1).1, hx'.2⟩)
    show (planOf st'.plans ns).act.get x.name ≠ some true
    rw [hp]; exact this

theorem sinv_mergeByName {a0 : Module} {mv : List String} {st : St} (nsF : Ns) (tag : String) (sites : List String)
    (hns : nsF.tags = [tag]) (hu : UniqueNames a0) (h : SInv a0 mv st) : SInv a0 (mv ++ [tag]) (mergeByName tag sites st) := by
  refine sinv_filter_tag tag h ?_ (by rfl) (by rfl)
  show (st.b.filter (·.tag == tag)).foldl (byNameStep tag sites) st.a = st.a
  apply foldl_preserves (fun m => m = st.a) _ _ _ rfl
  intro m b hb hm
  subst hm
  have hb' := List.mem_filter.mp hb
  have hbt : b.tag = tag := by simpa using hb'.2
  have hba := sinv_mem h hb'.1
  unfold byNameStep
  rw [if_pos (List.any_eq_true.mpr ⟨b, hba, by simp [hbt]⟩)]
  apply updFirst_eq_self
  intro y hy hq
  simp only [Bool.and_eq_true, beq_iff_eq] at hq
  have hmem : tag ∈ nsF.tags := by rw [hns]; exact List.mem_singleton.mpr rfl
  have : y = b := by
    rw [h.sa] at hy hba
    exact eq_of_unique (hu nsF) hy hba (hq.1 ▸ hmem) (hbt ▸ hmem) hq.2
  subst this
  unfold mergeLists
  simp

theorem sinv_mergeUserRights {a0 : Module} {mv : List String} {st : St} (h : SInv a0 mv st) :
    SInv a0 (mv ++ ["USER_RIGHTS"]) (mergeUserRights st) := by
  refine sinv_filter_tag "USER_RIGHTS" h ?_ (by rfl) (by rfl)
  show (st.b.filter (·.tag == "USER_RIGHTS")).foldl userRightsStep st.a = st.a
  apply foldl_preserves (fun m => m = st.a) _ _ _ rfl
  intro m b hb hm
  subst hm
  have hb' := List.mem_filter.mp hb
  unfold userRightsStep
  rw [if_pos (List.any_eq_true.mpr ⟨b, sinv_mem h hb'.1, by simpa using hb'.2⟩)]

theorem mergeSt_self (a : Module) (hu : UniqueNames a) : (mergeSt a a).a = a := by
  have h : SInv a [] ⟨a, a, []⟩ := ⟨rfl, filter_true_eq a, fun ns x _ => by simp [St.plan, Tbl.get]⟩
  have h := sinv_takeOpt "A2ML" h
  have h := sinv_mergeModPar h (by decide)
  have h := sinv_takeAll "IF_DATA" h
  have h := sinv_applyNs .unit (sinv_planLoop1 .unit hu h (by decide))
  have h := sinv_applyNs .compuTab (sinv_planNs .compuTab hu h (by decide))
  have h := sinv_applyNs .compuMethod (sinv_planNs .compuMethod hu h (by decide))
  have h := sinv_applyNs .recordLayout (sinv_planNs .recordLayout hu h (by decide))
  have h := sinv_takeOpt "MOD_COMMON" h
  have h := sinv_planLoop2 .object .typedef (by decide) hu h (by decide) (by decide)
  have h := sinv_applyNs .typedef (sinv_applyNs .object h)
  have h := sinv_mergeByName .function "FUNCTION" functionSites rfl hu h
  have h := sinv_mergeByName .group "GROUP" groupSites rfl hu h
  have h := sinv_applyNs .frame (sinv_planNs .frame hu h (by decide))
  have h := sinv_applyNs .transformer (sinv_planLoop1 .transformer hu h (by decide))
  have h := sinv_mergeUserRights h
  have h := sinv_takeOpt "VARIANT_CODING" h
  exact h.sa

/-! ### `merge [] B`: B's nodes, kind by kind -/

/-- the nodes of the kinds `tags`, kind by kind -/
def byKinds (tags : List String) (m : Module) : Module := tags.flatMap fun t => m.filter (·.tag == t)

theorem byKinds_append (t₁ t₂ : List String) (m : Module) : byKinds (t₁ ++ t₂) m = byKinds t₁ m ++ byKinds t₂ m := by
  simp [byKinds, List.flatMap_append]

theorem mem_byKinds {tags : List String} {m : Module} {y : Node} : y ∈ byKinds tags m ↔ y ∈ m ∧ y.tag ∈ tags := by
  simp only [byKinds, List.mem_flatMap, List.mem_filter, beq_iff_eq]
  constructor
  · rintro ⟨t, ht, hy, rfl⟩; exact ⟨hy, ht⟩
  · rintro ⟨hy, ht⟩; exact ⟨_, ht, hy, rfl⟩

/-- what `merge [] B` needs to be "B, kind by kind": the unnamed singletons occur at most once, FUNCTION and GROUP names are
    unique, the USER_RIGHTS differ (in `user_level_id`, here: hash) -/
structure WellFormedB (b : Module) : Prop where
  single : ∀ t ∈ ["A2ML", "MOD_PAR", "MOD_COMMON", "VARIANT_CODING"], (b.filter (·.tag == t)).length ≤ 1
  fn : ((b.filter (·.tag == "FUNCTION")).map (·.name)).Nodup
  grp : ((b.filter (·.tag == "GROUP")).map (·.name)).Nodup
  ur : ((b.filter (·.tag == "USER_RIGHTS")).map (·.hash)).Nodup

structure EInv (b0 : Module) (mv : List String) (ks : List Ns) (st : St) : Prop where
  ea : st.a = byKinds mv b0
  eb : st.b = b0.filter (fun n => !mv.contains n.tag)
  ep : ∀ ns ∈ ks, (st.plan ns).ren = [] ∧ ∀ x ∈ nsNodes ns st.b, (st.plan ns).act.get x.name = some true

theorem einv_filter_eq {b0 : Module} {mv : List String} {ks : List Ns} {st : St} (h : EInv b0 mv ks st) {tag : String}
    (hmv : tag ∉ mv) : st.b.filter (·.tag == tag) = b0.filter (·.tag == tag) := by
  rw [h.eb, List.filter_filter]
  apply List.filter_congr
  intro x _
  by_cases e : x.tag = tag
  · simp only [e, beq_self_eq_true, Bool.true_and]; simpa using hmv
  · simp [e]

theorem einv_no_tag {b0 : Module} {mv : List String} {ks : List Ns} {st : St} (h : EInv b0 mv ks st) {tag : String}
    (hmv : tag ∉ mv) : ∀ y ∈ st.a, y.tag ≠ tag := by
  intro y hy e
  rw [h.ea] at hy
  exact hmv (e ▸ (mem_byKinds.mp hy).2)

theorem einv_b_step {b0 : Module} {mv : List String} {ks : List Ns} {st : St} (h : EInv b0 mv ks st) (tags : List String) :
    st.b.filter (fun n => !tags.contains n.tag) = b0.filter (fun n => !(mv ++ tags).contains n.tag) := by
  rw [h.eb, List.filter_filter]
  apply List.filter_congr
  intro x _
  simp [Bool.and_comm]

/-- a pass that moves all nodes of the (unnamed) kind `tag` and leaves the plans alone -/
theorem einv_move {b0 : Module} {mv : List String} {ks : List Ns} {st st' : St} (tag : String) (h : EInv b0 mv ks st)
    (ha : st'.a = st.a ++ b0.filter (·.tag == tag)) (hb : st'.b = st.b.filter (·.tag != tag)) (hp : st'.plans = st.plans) :
    EInv b0 (mv ++ [tag]) ks st' := by
  refine ⟨?_, ?_, ?_⟩
  · rw [ha, h.ea, byKinds_append]; simp [byKinds]
  · rw [hb, ← einv_b_step h [tag]]
    apply List.filter_congr
    intro x _
    by_cases e : x.tag = tag <;> simp [e, bne]
  · intro ns hns
    obtain ⟨h1, h2⟩ := h.ep ns hns
    show (planOf st'.plans ns).ren = [] ∧ ∀ x ∈ nsNodes ns st'.b, (planOf st'.plans ns).act.get x.name = some true
    rw [hp]
    refine ⟨h1, fun x hx => h2 x ?_⟩
    rw [hb] at hx
    have hx' := mem_nsNodes.mp hx
    exact mem_nsNodes.mpr ⟨(List.mem_filter.mp hx'.1).1, hx'.2⟩

theorem filter_single {l : List Node} {q : Node → Bool} (hl : (l.filter q).length ≤ 1) {x : Node} (hx : l.find? q = some x) :
    l.filter q = [x] := by
  induction l with
  | nil => cases hx
  | cons y l ih =>
    rw [List.find?_cons] at hx
    cases hq : q y with
    | true =>
      rw [hq] at hx
      rw [List.filter_cons_of_pos hq] at hl ⊢
      simp only [List.length_cons] at hl
      have : (l.filter q).length = 0 := by omega
      rw [List.length_eq_zero_iff.mp this]
      cases hx; rfl
    | false =>
      rw [hq] at hx
      rw [List.filter_cons_of_neg (by simp [hq])] at hl ⊢
      exact ih hl hx

theorem einv_takeOpt {b0 : Module} {mv : List String} {ks : List Ns} {st : St} (tag : String) (h : EInv b0 mv ks st)
    (hmv : tag ∉ mv) (hs : (b0.filter (·.tag == tag)).length ≤ 1) : EInv b0 (mv ++ [tag]) ks (takeOpt tag st) := by
  have hf := einv_filter_eq h hmv
  have hany : ¬ (st.a.any (·.tag == tag) = true) := by
    intro hc
    obtain ⟨y, hy, hyt⟩ := List.any_eq_true.mp hc
    exact einv_no_tag h hmv y hy (by simpa using hyt)
  unfold takeOpt
  split
  · rename_i x hx
    rw [if_neg hany]
    refine einv_move tag h ?_ (by rfl) (by rfl)
    show st.a ++ [x] = _
    rw [← hf, filter_single (hf ▸ hs) hx]
  · rename_i hx
    have hnil : st.b.filter (·.tag == tag) = [] := by
      apply List.filter_eq_nil_iff.mpr
      intro y hy hq
      exact absurd hq (List.find?_eq_none.mp hx y hy)
    refine einv_move tag h ?_ ?_ rfl
    · rw [← hf, hnil, List.append_nil]
    · apply (List.filter_eq_self.mpr _).symm
      intro y hy
      have := List.find?_eq_none.mp hx y hy
      simpa [bne] using this

theorem einv_mergeModPar {b0 : Module} {mv : List String} {ks : List Ns} {st : St} (h : EInv b0 mv ks st)
    (hmv : "MOD_PAR" ∉ mv) (hs : (b0.filter (·.tag == "MOD_PAR")).length ≤ 1) :
    EInv b0 (mv ++ ["MOD_PAR"]) ks (mergeModPar st) := by
  have hf := einv_filter_eq h hmv
  have hany : ¬ (st.a.any (·.tag == "MOD_PAR") = true) := by
    intro hc
    obtain ⟨y, hy, hyt⟩ := List.any_eq_true.mp hc
    exact einv_no_tag h hmv y hy (by simpa using hyt)
  unfold mergeModPar
  split
  · rename_i x hx
    rw [if_neg hany]
    refine einv_move _ h ?_ (by rfl) (by rfl)
    show st.a ++ [x] = _
    rw [← hf, filter_single (hf ▸ hs) hx]
  · rename_i hx
    have hnil : st.b.filter (·.tag == "MOD_PAR") = [] := by
      apply List.filter_eq_nil_iff.mpr
      intro y hy hq
      exact absurd hq (List.find?_eq_none.mp hx y hy)
    refine einv_move _ h ?_ ?_ rfl
    · rw [← hf, hnil, List.append_nil]
    · apply (List.filter_eq_self.mpr _).symm
      intro y hy
      have := List.find?_eq_none.mp hx y hy
      simpa [bne] using this

theorem einv_takeAll {b0 : Module} {mv : List String} {ks : List Ns} {st : St} (tag : String) (h : EInv b0 mv ks st)
    (hmv : tag ∉ mv) : EInv b0 (mv ++ [tag]) ks (takeAll tag st) := by
  have hf := einv_filter_eq h hmv
  have hany : ¬ (st.a.any (·.tag == tag) = true) := by
    intro hc
    obtain ⟨y, hy, hyt⟩ := List.any_eq_true.mp hc
    exact einv_no_tag h hmv y hy (by simpa using hyt)
  unfold takeAll
  rw [if_neg hany]
  exact einv_move tag h (by rw [← hf]) (by rfl) (by rfl)

theorem calc_act_all_true (orig merge : List Node) : ∀ (l : List Node) (p : Plan), (∀ m ∈ l, needsAdd orig m = true) →
    ∀ n ∈ l.map (·.name), (l.foldl (calcStep orig merge) p).act.get n = some true
  | [], _, _, _, hn => by cases hn
  | b :: l, p, h, n, hn => by
    simp only [List.foldl_cons]
    by_cases hl : n ∈ l.map (·.name)
    · exact calc_act_all_true orig merge l _ (fun m hm => h m (List.mem_cons_of_mem _ hm)) n hl
    · have hb : n = b.name := by
        simp only [List.map_cons, List.mem_cons] at hn
        rcases hn with hn | hn
        · exact hn
        · exact absurd hn hl
      rw [(calc_frame orig merge n l _ hl).1, calcStep_act, Tbl.get_insert, if_pos hb.symm, h b (List.mem_cons_self ..)]

theorem appendLoop_all (p : Plan) (hren : p.ren = []) : ∀ (L : List Node) (removed : List String),
    (∀ x ∈ L, p.act.get x.name = some true) → appendLoop p removed L = L
  | [], _, _ => rfl
  | x :: L, removed, h => by
    unfold appendLoop
    rw [if_pos (h x (List.mem_cons_self ..))]
    have : (if removed.contains x.name = true then none else p.ren.get x.name) = none := by
      split
      · rfl
      · rw [hren]; rfl
    rw [this]
    simp only []
    rw [appendLoop_all p hren L removed (fun y hy => h y (List.mem_cons_of_mem _ hy))]

theorem einv_planNs {b0 : Module} {mv : List String} {ks : List Ns} {st : St} (ns : Ns) (h : EInv b0 mv ks st)
    (hmv : ∀ t ∈ ns.tags, t ∉ mv) : EInv b0 mv (ns :: ks) (planNs ns st) := by
  have hO : nsNodes ns st.a = [] := by
    apply List.eq_nil_iff_forall_not_mem.mpr
    intro y hy
    obtain ⟨hya, hyt⟩ := mem_nsNodes.mp hy
    exact einv_no_tag h (hmv _ hyt) y hya rfl
  have hna : ∀ m : Node, needsAdd [] m = true := fun m => rfl
  have hnc : ∀ m : Node, isConflict [] m = false := fun m => rfl
  have hren : (calcActions (nsNodes ns st.a) (nsNodes ns st.b)).ren = [] := by
    rw [hO]; exact calc_ren_of_no_conflict _ _ _ _ (fun m _ => hnc m)
  have hb : (planNs ns st).b = st.b := by
    show st.b.map _ = st.b
    rw [hren, List.map_congr_left (g := id) (fun x _ => renameNode_nil ns x), List.map_id]
  refine ⟨h.ea, hb.trans h.eb, ?_⟩
  intro ns' hns'
  rw [hb]
  by_cases e : ns = ns'
  · subst e
    unfold planNs
    rw [St.plan_cons_self]
    refine ⟨hren, fun x hx => ?_⟩
    rw [hO]
    exact calc_act_all_true _ _ _ _ (fun m _ => hna m) _ (List.mem_map.mpr ⟨x, hx, rfl⟩)
  · unfold planNs
    rw [St.plan_cons_ne e _ _ _ st.a st.b]
    rcases List.mem_cons.mp hns' with h1 | h1
    · exact absurd h1.symm e
    · exact h.ep ns' h1

theorem einv_no_ren {b0 : Module} {mv : List String} {ks : List Ns} {st : St} (ns : Ns) (h : EInv b0 mv ks st)
    (hmv : ∀ t ∈ ns.tags, t ∉ mv) : (calcActions (nsNodes ns st.a) (nsNodes ns st.b)).ren = [] := by
  have hO : nsNodes ns st.a = [] := by
    apply List.eq_nil_iff_forall_not_mem.mpr
    intro y hy
    obtain ⟨hya, hyt⟩ := mem_nsNodes.mp hy
    exact einv_no_tag h (hmv _ hyt) y hya rfl
  rw [hO]; exact calc_ren_of_no_conflict _ _ _ _ (fun m _ => rfl)

theorem einv_planLoop1 {b0 : Module} {mv : List String} {ks : List Ns} {st : St} (ns : Ns) (h : EInv b0 mv ks st)
    (hmv : ∀ t ∈ ns.tags, t ∉ mv) : EInv b0 mv (ns :: ks) (planLoop [ns] st) := by
  rw [planLoop_single_of_no_ren ns st (einv_no_ren ns h hmv)]
  exact einv_planNs ns h hmv

theorem einv_planLoop2 {b0 : Module} {mv : List String} {ks : List Ns} {st : St} (n₁ n₂ : Ns) (hne : n₁ ≠ n₂)
    (h : EInv b0 mv ks st) (hmv₁ : ∀ t ∈ n₁.tags, t ∉ mv) (hmv₂ : ∀ t ∈ n₂.tags, t ∉ mv) :
    EInv b0 mv (n₂ :: n₁ :: ks) (planLoop [n₁, n₂] st) := by
  have h1 := einv_planNs n₁ h hmv₁
  rw [planLoop_pair_of_no_ren n₁ n₂ hne st (einv_no_ren n₁ h hmv₁) (einv_no_ren n₂ h1 hmv₂)]
  exact einv_planNs n₂ h1 hmv₂

theorem einv_applyNs {b0 : Module} {mv : List String} {ks : List Ns} {st : St} (ns : Ns) (h : EInv b0 mv ks st)
    (hns : ns ∈ ks) (hmv : ∀ t ∈ ns.tags, t ∉ mv) : EInv b0 (mv ++ ns.tags) ks (applyNs ns st) := by
  obtain ⟨h1, h2⟩ := h.ep ns hns
  refine ⟨?_, ?_, ?_⟩
  · show st.a ++ appendLoop (st.plan ns) [] (nsNodes ns st.b) = _
    rw [appendLoop_all _ h1 _ _ h2, h.ea, byKinds_append, h.eb, nsNodes_filter_keep b0 hmv]
    rfl
  · show st.b.filter (fun n => !hasTag ns.tags n) = _
    exact einv_b_step h ns.tags
  · intro ns' hns'
    obtain ⟨h1', h2'⟩ := h.ep ns' hns'
    refine ⟨h1', fun x hx => h2' x ?_⟩
    have hx' := mem_nsNodes.mp hx
    exact mem_nsNodes.mpr ⟨(List.mem_filter.mp hx'.1).1, hx'.2⟩

theorem byName_push_all (tag : String) (sites : List String) (a : Module) (ha : ∀ y ∈ a, y.tag ≠ tag) :
    ∀ (l pre : List Node), ((pre ++ l).map (·.name)).Nodup →
      l.foldl (byNameStep tag sites) (a ++ pre) = a ++ pre ++ l
  | [], pre, _ => by simp
  | x :: l, pre, hn => by
    simp only [List.foldl_cons]
    have hnot : ¬ ((a ++ pre).any (fun y => y.tag == tag && y.name == x.name) = true) := by
      intro hc
      obtain ⟨y, hy, hq⟩ := List.any_eq_true.mp hc
      simp only [Bool.and_eq_true, beq_iff_eq] at hq
      rcases List.mem_append.mp hy with hy | hy
      · exact ha y hy hq.1
      · rw [List.map_append, List.nodup_append] at hn
        exact hn.2.2 y.name (List.mem_map.mpr ⟨y, hy, rfl⟩) x.name (by simp) hq.2
    unfold byNameStep
    rw [if_neg hnot]
    have := byName_push_all tag sites a ha l (pre ++ [x]) (by simpa using hn)
    simp only [List.append_assoc] at this ⊢
    exact this

theorem einv_mergeByName {b0 : Module} {mv : List String} {ks : List Ns} {st : St} (tag : String) (sites : List String)
    (h : EInv b0 mv ks st) (hmv : tag ∉ mv) (hu : ((b0.filter (·.tag == tag)).map (·.name)).Nodup) :
    EInv b0 (mv ++ [tag]) ks (mergeByName tag sites st) := by
  refine einv_move tag h ?_ (by rfl) (by rfl)
  show (st.b.filter (·.tag == tag)).foldl (byNameStep tag sites) st.a = _
  rw [einv_filter_eq h hmv]
  have := byName_push_all tag sites st.a (einv_no_tag h hmv) (b0.filter (·.tag == tag)) [] (by simpa using hu)
  simpa using this

theorem userRights_push_all (a : Module) (ha : ∀ y ∈ a, y.tag ≠ "USER_RIGHTS") :
    ∀ (l pre : List Node), ((pre ++ l).map (·.hash)).Nodup →
      l.foldl userRightsStep (a ++ pre) = a ++ pre ++ l
  | [], pre, _ => by simp
  | x :: l, pre, hn => by
    simp only [List.foldl_cons]
    have hnot : ¬ ((a ++ pre).any (fun y => y.tag == "USER_RIGHTS" && y.hash == x.hash) = true) := by
      intro hc
      obtain ⟨y, hy, hq⟩ := List.any_eq_true.mp hc
      simp only [Bool.and_eq_true, beq_iff_eq] at hq
      rcases List.mem_append.mp hy with hy | hy
      · exact ha y hy hq.1
      · rw [List.map_append, List.nodup_append] at hn
        exact hn.2.2 y.hash (List.mem_map.mpr ⟨y, hy, rfl⟩) x.hash (by simp) hq.2
    unfold userRightsStep
    rw [if_neg hnot]
    have := userRights_push_all a ha l (pre ++ [x]) (by simpa using hn)
    simp only [List.append_assoc] at this ⊢
    exact this

theorem einv_mergeUserRights {b0 : Module} {mv : List String} {ks : List Ns} {st : St}
    (h : EInv b0 mv ks st) (hmv : "USER_RIGHTS" ∉ mv) (hu : ((b0.filter (·.tag == "USER_RIGHTS")).map (·.hash)).Nodup) :
    EInv b0 (mv ++ ["USER_RIGHTS"]) ks (mergeUserRights st) := by
  refine einv_move _ h ?_ (by rfl) (by rfl)
  show (st.b.filter (·.tag == "USER_RIGHTS")).foldl userRightsStep st.a = _
  rw [einv_filter_eq h hmv]
  have := userRights_push_all st.a (einv_no_tag h hmv) (b0.filter (·.tag == "USER_RIGHTS")) [] (by simpa using hu)
  simpa using this

theorem mergeSt_empty_left (b : Module) (hw : WellFormedB b) : (mergeSt [] b).a = byKinds finalMoved b := by
  have h : EInv b [] [] ⟨[], b, []⟩ := ⟨rfl, filter_true_eq b, fun _ h => by cases h⟩
  have h := einv_takeOpt "A2ML" h (by decide) (hw.single _ (by decide))
  have h := einv_mergeModPar h (by decide) (hw.single _ (by decide))
  have h := einv_takeAll "IF_DATA" h (by decide)
  have h := einv_applyNs .unit (einv_planLoop1 .unit h (by decide)) (by decide) (by decide)
  have h := einv_applyNs .compuTab (einv_planNs .compuTab h (by decide)) (by decide) (by decide)
  have h := einv_applyNs .compuMethod (einv_planNs .compuMethod h (by decide)) (by decide) (by decide)
  have h := einv_applyNs .recordLayout (einv_planNs .recordLayout h (by decide)) (by decide) (by decide)
  have h := einv_takeOpt "MOD_COMMON" h (by decide) (hw.single _ (by decide))
  have h := einv_planLoop2 .object .typedef (by decide) h (by decide) (by decide)
  have h := einv_applyNs .typedef (einv_applyNs .object h (by decide) (by decide)) (by decide) (by decide)
  have h := einv_mergeByName "FUNCTION" functionSites h (by decide) hw.fn
  have h := einv_mergeByName "GROUP" groupSites h (by decide) hw.grp
  have h := einv_applyNs .frame (einv_planNs .frame h (by decide)) (by decide) (by decide)
  have h := einv_applyNs .transformer (einv_planLoop1 .transformer h (by decide)) (by decide) (by decide)
  have h := einv_mergeUserRights h (by decide) hw.ur
  have h := einv_takeOpt "VARIANT_CODING" h (by decide) (hw.single _ (by decide))
  exact h.ea

/-! ### Boolean checkers for the hypotheses (used for the non-vacuity examples) -/

def uniqueNamesB (m : Module) : Bool := Ns.all.all fun ns => decide (names ns m).Nodup

theorem uniqueNames_of_check {m : Module} (h : uniqueNamesB m = true) : UniqueNames m := by
  intro ns
  have hall : ns ∈ Ns.all := by cases ns <;> decide
  simpa using List.all_eq_true.mp h ns hall


def resolvedB (m : Module) : Bool :=
  m.all fun n => n.refs.all fun r => match refNs n.tag r.site with
    | some ns => (names ns m).contains r.target
    | none => true

theorem resolved_of_check {m : Module} (h : resolvedB m = true) : Resolved m := by
  intro n hn r hr ns hns
  have := List.all_eq_true.mp (List.all_eq_true.mp h n hn) r hr
  rw [hns] at this
  simpa using this


/-! ### example data used by the counterexample / non-vacuity statements of C09 -/

def weakA : Module :=
  [⟨"INSTANCE", "i", "h", [⟨"Instance.type_ref", "td"⟩]⟩, ⟨"TYPEDEF_BLOB", "td", "h1", []⟩]
def weakB : Module :=
  [⟨"INSTANCE", "i", "h", [⟨"Instance.type_ref", "td"⟩]⟩, ⟨"TYPEDEF_BLOB", "td", "h2", []⟩]

def nvA : Module :=
  [⟨"COMPU_METHOD", "cm", "c1", []⟩, ⟨"MEASUREMENT", "m", "h1", [⟨"Measurement.conversion", "cm"⟩]⟩,
   ⟨"FUNCTION", "f", "hf", [⟨"OutMeasurement.identifier_list", "m"⟩]⟩]
def nvB : Module :=
  [⟨"COMPU_METHOD", "cm", "c2", []⟩, ⟨"MEASUREMENT", "m", "h1", [⟨"Measurement.conversion", "cm"⟩]⟩,
   ⟨"FUNCTION", "f", "hf", [⟨"OutMeasurement.identifier_list", "m"⟩, ⟨"SubFunction.identifier_list", "f"⟩]⟩]


end A2l.Mg
