import A2lVerif.Lemmas.Sort15
/-! C15: one call of `sort_new_items` keeps the relative written order of the elements that were already placed.
    Every section procedure maps the placed elements (uid ≠ 0) to the same elements with doubled uid, and gives new
    elements an odd uid or leaves them at 0 — so "was placed before the call" is recognisable afterwards as "uid even and
    not 0" — and doubling does not change how the writer compares two elements. -/
namespace A2l.Srt.L15

/-- placed: the element has a position of its own -/
def placed (e : Elem) : Bool := e.uid != 0
/-- after a call: the element was placed before the call -/
def wasPlaced (e : Elem) : Bool := e.uid != 0 && e.uid % 2 == 0
/-- the element with its uid doubled -/
def dblE (e : Elem) : Elem := { e with uid := 2 * e.uid }
def OddOrZero (n : Nat) : Prop := n = 0 ∨ n % 2 = 1

theorem wasPlaced_double (e : Elem) (h : e.uid ≠ 0) : wasPlaced { e with uid := 2 * e.uid } = true := by
  simp [wasPlaced]; omega

theorem wasPlaced_oddOrZero (e : Elem) (n : Nat) (h : OddOrZero n) : wasPlaced { e with uid := n } = false := by
  rcases h with h | h <;> simp [wasPlaced, h]

theorem placed_of_wasPlaced (e : Elem) (h : wasPlaced e = true) : placed e = true := by
  simp only [wasPlaced, Bool.and_eq_true] at h
  exact h.1

theorem writerLe_dblE (a b : Elem) : writerLe (dblE a) (dblE b) = writerLe a b := by
  rw [Bool.eq_iff_iff, writerLe_eq, writerLe_eq, lexLe_iff, lexLe_iff]
  show ((2 * a.uid ≠ 0 ∧ 2 * b.uid = 0) ∨ ((2 * a.uid = 0 ↔ 2 * b.uid = 0) ∧ (2 * a.uid < 2 * b.uid ∨
    (2 * a.uid = 2 * b.uid ∧ (a.line < b.line ∨ (a.line = b.line ∧ a.tag ≤ b.tag)))))) ↔ _
  by_cases hs : a.tag ≤ b.tag <;> simp only [hs, and_true, and_false, or_false] <;> omega

/-! ### the section procedures -/

theorem renumber_placed (es : List Elem) : ∀ (last : Nat) (es' : List Elem), renumber last es = .ok es' →
    OddOrZero last → es'.filter wasPlaced = (es.filter placed).map dblE := by
  induction es with
  | nil => intro _ _ h _; simp [renumber] at h; subst h; rfl
  | cons a es ih =>
    intro last es' h hl
    rcases renumber_cons_ok h with ⟨ha, _, es'', hr, rfl⟩ | ⟨ha, es'', hr, rfl⟩
    · have hp : placed a = true := by simp [placed, ha]
      rw [List.filter_cons, wasPlaced_double a ha, if_pos rfl, List.filter_cons, hp, if_pos rfl, List.map_cons,
        ih _ _ hr (Or.inr (by omega))]
      rfl
    · have hp : placed a = false := by simp [placed, ha]
      rw [List.filter_cons, wasPlaced_oddOrZero a last hl, List.filter_cons, hp]
      simpa using ih _ _ hr hl

theorem sortObjectlistNew_placed {es es' : List Elem} (h : sortObjectlistNew es = .ok es') :
    (es'.filter wasPlaced).Perm ((es.filter placed).map dblE) := by
  have h' : renumber 0 (es.mergeSort newLe) = .ok es' := h
  rw [renumber_placed _ _ _ h' (Or.inl rfl)]
  exact ((List.mergeSort_perm es newLe).filter placed).map dblE

theorem sortOptional_placed {es es' : List Elem} {n n' : Nat} (hl : es.length ≤ 1)
    (h : sortOptional es n = .ok (es', n')) (hn : OddOrZero n) :
    es'.filter wasPlaced = (es.filter placed).map dblE ∧ OddOrZero n' := by
  match es, hl with
  | [], _ => simp [sortOptional] at h; obtain ⟨rfl, rfl⟩ := h; exact ⟨rfl, hn⟩
  | [a], _ =>
    rw [sortOptional] at h
    by_cases hu : a.uid = 0
    · simp only [hu, ↓reduceIte, Out.ok.injEq, Prod.mk.injEq] at h
      obtain ⟨rfl, rfl⟩ := h
      have hp : placed a = false := by simp [placed, hu]
      refine ⟨?_, hn⟩
      rw [List.filter_cons, wasPlaced_oddOrZero a n hn, List.filter_cons, hp]
      rfl
    · simp only [hu, ↓reduceIte, dbl] at h
      by_cases h2 : 2 * a.uid ≤ u32max
      · simp only [h2, ↓reduceIte] at h
        by_cases h3 : 2 * a.uid + 1 ≤ u32max
        · simp only [h3, ↓reduceIte, Out.ok.injEq, Prod.mk.injEq] at h
          obtain ⟨rfl, rfl⟩ := h
          have hp : placed a = true := by simp [placed, hu]
          refine ⟨?_, Or.inr (by omega)⟩
          rw [List.filter_cons, wasPlaced_double a hu, if_pos rfl, List.filter_cons, hp, if_pos rfl]
          rfl
        · simp [h3] at h
      · simp [h2] at h
  | _ :: _ :: _, hl => simp at hl

theorem doubleAll_placed (es : List Elem) : ∀ es', doubleAll es = .ok es' →
    es'.filter wasPlaced = (es.filter placed).map dblE := by
  induction es with
  | nil => intro _ h; simp [doubleAll] at h; subst h; rfl
  | cons a es ih =>
    intro es' h
    rw [doubleAll] at h
    by_cases h2 : 2 * a.uid ≤ u32max
    · cases hr : doubleAll es with
      | panic => simp [dbl, h2, hr] at h
      | ok es'' =>
        simp [dbl, h2, hr] at h
        subst h
        by_cases hu : a.uid = 0
        · have hp : placed a = false := by simp [placed, hu]
          have hw : wasPlaced { a with uid := 2 * a.uid } = false := by simp [wasPlaced, hu]
          rw [List.filter_cons, hw, List.filter_cons, hp]
          simpa using ih _ hr
        · have hp : placed a = true := by simp [placed, hu]
          rw [List.filter_cons, wasPlaced_double a hu, if_pos rfl, List.filter_cons, hp, if_pos rfl, List.map_cons,
            ih _ hr]
          rfl
    · simp [dbl, h2] at h

theorem keepF_placed (M : Nat) (es : List Elem) : ∀ es', es.foldr (keepF M) (.ok []) = .ok es' →
    es'.filter wasPlaced = (es.filter placed).map dblE := by
  induction es with
  | nil => intro _ h; simp at h; subst h; rfl
  | cons a es ih =>
    intro es' h
    rw [List.foldr_cons] at h
    cases hr : es.foldr (keepF M) (.ok []) with
    | panic => simp [keepF, hr] at h
    | ok rest =>
      simp only [keepF, hr] at h
      by_cases hu : a.uid = 0
      · simp only [hu, ne_eq, not_true_eq_false, ↓reduceIte, dblInc] at h
        by_cases h3 : 2 * M + 1 ≤ u32max
        · simp only [h3, ↓reduceIte, Out.ok.injEq] at h
          subst h
          have hp : placed a = false := by simp [placed, hu]
          rw [List.filter_cons, wasPlaced_oddOrZero a (2 * M + 1) (Or.inr (by omega)), List.filter_cons, hp]
          simpa using ih _ hr
        · simp [h3] at h
      · simp only [ne_eq, hu, not_false_eq_true, ↓reduceIte, dbl] at h
        by_cases h2 : 2 * a.uid ≤ u32max
        · simp only [h2, ↓reduceIte, Out.ok.injEq] at h
          subst h
          have hp : placed a = true := by simp [placed, hu]
          rw [List.filter_cons, wasPlaced_double a hu, if_pos rfl, List.filter_cons, hp, if_pos rfl, List.map_cons,
            ih _ hr]
          rfl
        · simp [h2] at h

theorem foldl_maxuid_le (es : List Elem) : ∀ (a : Nat) (e : Elem), e ∈ es →
    e.uid ≤ es.foldl (fun acc e => max acc e.uid) a := by
  induction es with
  | nil => intro _ e he; cases he
  | cons x xs ih =>
    intro a e he
    rw [List.foldl_cons]
    have hmono : ∀ (l : List Elem) (b : Nat), b ≤ l.foldl (fun acc e => max acc e.uid) b := by
      intro l
      induction l with
      | nil => intro b; exact Nat.le_refl _
      | cons y ys ihy => intro b; rw [List.foldl_cons]; exact Nat.le_trans (Nat.le_max_left _ _) (ihy _)
    rcases List.mem_cons.1 he with rfl | he
    · exact Nat.le_trans (Nat.le_max_right _ _) (hmono xs _)
    · exact ih _ e he

theorem sortKeepList_placed {es es' : List Elem} (h : sortKeepList es = .ok es') :
    es'.filter wasPlaced = (es.filter placed).map dblE := by
  rw [sortKeepList_eq] at h
  split at h
  · rename_i h0
    simp only [Out.ok.injEq] at h
    subst h
    have hz : ∀ e ∈ es, e.uid = 0 := fun e he => by
      have := foldl_maxuid_le es 0 e he
      omega
    have h1 : es.filter wasPlaced = [] := by
      apply List.filter_eq_nil_iff.2
      intro e he
      simp [wasPlaced, hz e he]
    have h2 : es.filter placed = [] := by
      apply List.filter_eq_nil_iff.2
      intro e he
      simp [placed, hz e he]
    rw [h1, h2]
    rfl
  · exact keepF_placed _ _ _ h

/-! ### all sections of the module -/

theorem sniSections_placed (rs : List RSection) : ∀ (next : Nat) (rs' : List RSection),
    sniSections next rs = .ok rs' → OddOrZero next →
    (∀ r ∈ rs, isSingle r.rule → r.sec.elems.length ≤ 1) →
    ((rs'.flatMap (·.sec.elems)).filter wasPlaced).Perm (((rs.flatMap (·.sec.elems)).filter placed).map dblE) := by
  induction rs with
  | nil => intro _ _ h _ _; simp [sniSections] at h; subst h; exact List.Perm.refl _
  | cons r rs ih =>
    intro next rs' h hn hwf
    have hwf' : ∀ r' ∈ rs, isSingle r'.rule → r'.sec.elems.length ≤ 1 :=
      fun r' hr' => hwf r' (List.mem_cons_of_mem _ hr')
    rw [sniSections] at h
    simp only [List.flatMap_cons, List.filter_append, List.map_append]
    cases hrule : r.rule <;> simp only [hrule] at h
    · -- threaded
      cases h1 : sortOptional r.sec.elems next with
      | panic => simp [h1] at h
      | ok p =>
        obtain ⟨es, n'⟩ := p
        simp only [h1] at h
        cases h2 : sniSections n' rs with
        | panic => simp [h2] at h
        | ok rs'' =>
          simp only [h2, Out.ok.injEq] at h
          subst h
          obtain ⟨e1, hn'⟩ := sortOptional_placed (hwf r List.mem_cons_self (Or.inl hrule)) h1 hn
          simp only [List.flatMap_cons, List.filter_append, e1]
          exact List.Perm.append_left _ (ih _ _ h2 hn' hwf')
    · -- maxId
      cases h1 : sortKeepList r.sec.elems with
      | panic => simp [h1] at h
      | ok es =>
        simp only [h1] at h
        cases h2 : sniSections next rs with
        | panic => simp [h2] at h
        | ok rs'' =>
          simp only [h2, Out.ok.injEq] at h
          subst h
          simp only [List.flatMap_cons, List.filter_append, sortKeepList_placed h1]
          exact List.Perm.append_left _ (ih _ _ h2 hn hwf')
    · -- objectList
      cases h1 : sortObjectlistNew r.sec.elems with
      | panic => simp [h1] at h
      | ok es =>
        simp only [h1] at h
        cases h2 : sniSections next rs with
        | panic => simp [h2] at h
        | ok rs'' =>
          simp only [h2, Out.ok.injEq] at h
          subst h
          simp only [List.flatMap_cons, List.filter_append]
          exact List.Perm.append (sortObjectlistNew_placed h1) (ih _ _ h2 hn hwf')
    · -- optionalZero
      cases h1 : sortOptional r.sec.elems 0 with
      | panic => simp [h1] at h
      | ok p =>
        obtain ⟨es, n'⟩ := p
        simp only [h1] at h
        cases h2 : sniSections next rs with
        | panic => simp [h2] at h
        | ok rs'' =>
          simp only [h2, Out.ok.injEq] at h
          subst h
          obtain ⟨e1, _⟩ := sortOptional_placed (hwf r List.mem_cons_self (Or.inr hrule)) h1 (Or.inl rfl)
          simp only [List.flatMap_cons, List.filter_append, e1]
          exact List.Perm.append_left _ (ih _ _ h2 hn hwf')

theorem all_eq (m : RModule) : m.toModule.all = m.sections.flatMap (·.sec.elems) ++ m.comments := by
  simp [Module.all, RModule.toModule, List.flatMap_map]

/-- the elements of the module after the call that were placed before = the placed elements, uids doubled -/
theorem sortNewItems_placed {m m' : RModule} (h : sortNewItems m = .ok m')
    (hwf : ∀ r ∈ m.sections, isSingle r.rule → r.sec.elems.length ≤ 1) :
    (m'.toModule.all.filter wasPlaced).Perm ((m.toModule.all.filter placed).map dblE) := by
  obtain ⟨h1, h2⟩ := sortNewItems_ok_iff h
  rw [all_eq, all_eq, List.filter_append, List.filter_append, List.map_append, doubleAll_placed _ _ h2]
  exact List.Perm.append_right _ (sniSections_placed _ _ _ h1 (Or.inr rfl) hwf)

/-- **the relative written order of the placed elements is unchanged by one call** -/
theorem writeOrder_placed_stable {m m' : RModule} (h : sortNewItems m = .ok m')
    (hwf : ∀ r ∈ m.sections, isSingle r.rule → r.sec.elems.length ≤ 1)
    (hd : ∀ a ∈ m.toModule.all, ∀ b ∈ m.toModule.all, a.uid ≠ 0 → a.uid = b.uid → a = b) :
    (writeOrder m'.toModule).filter wasPlaced = ((writeOrder m.toModule).filter placed).map dblE := by
  apply List.Perm.eq_of_pairwise (le := fun a b => writerLe a b = true)
  · -- antisymmetry on these two lists
    intro a b ha hb hab hba
    have hperm : ((writeOrder m'.toModule).filter wasPlaced).Perm (((writeOrder m.toModule).filter placed).map dblE) :=
      (((List.mergeSort_perm _ writerLe).filter wasPlaced).trans (sortNewItems_placed h hwf)).trans
        (((List.mergeSort_perm _ writerLe).filter placed).map dblE).symm
    have ha' := hperm.subset ha
    obtain ⟨a0, ha0, rfl⟩ := List.mem_map.1 ha'
    obtain ⟨b0, hb0, rfl⟩ := List.mem_map.1 hb
    have ha1 := List.mem_filter.1 ha0
    have hb1 := List.mem_filter.1 hb0
    have ham : a0 ∈ m.toModule.all := (List.mem_mergeSort.1 ha1.1)
    have hbm : b0 ∈ m.toModule.all := (List.mem_mergeSort.1 hb1.1)
    have hane : a0.uid ≠ 0 := by simpa [placed] using ha1.2
    have huid : a0.uid = b0.uid := by
      rw [writerLe_dblE, writerLe_eq, lexLe_iff] at hab hba
      omega
    rw [hd a0 ham b0 hbm hane huid]
  · exact (pairwise_mergeSort_writerLe _).filter _
  · have hp : ((writeOrder m.toModule).filter placed).Pairwise (fun a b => writerLe a b = true) :=
      (pairwise_mergeSort_writerLe _).filter _
    exact List.Pairwise.map dblE (fun a b hab => by rw [writerLe_dblE]; exact hab) hp
  · exact (((List.mergeSort_perm _ writerLe).filter wasPlaced).trans (sortNewItems_placed h hwf)).trans
      (((List.mergeSort_perm _ writerLe).filter placed).map dblE).symm

end A2l.Srt.L15
