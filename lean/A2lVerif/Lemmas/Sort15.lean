import A2lVerif.Model.Sort
/-! helper lemmas for C15 (`sort_new_items` growth law, writer order); in their own namespace `A2l.Srt.L15` so that
    they cannot clash with the helpers of C14 -/
namespace A2l.Srt.L15

/-! ## the comparison functions -/

/-- the common shape of `newLe` and `writerLe` -/
def lexLe (ua la : Nat) (sa : String) (ub lb : Nat) (sb : String) : Bool :=
  if ua = 0 ∧ ub ≠ 0 then false
  else if ub = 0 ∧ ua ≠ 0 then true
  else if ua = ub then
    if la = lb then decide (sa ≤ sb) else decide (la ≤ lb)
  else decide (ua ≤ ub)

theorem newLe_eq (a b : Elem) : newLe a b = lexLe a.uid a.line a.name b.uid b.line b.name := rfl
theorem writerLe_eq (a b : Elem) : writerLe a b = lexLe a.uid a.line a.tag b.uid b.line b.tag := rfl

theorem lexLe_iff (ua la sa ub lb sb) : lexLe ua la sa ub lb sb = true ↔
    ((ua ≠ 0 ∧ ub = 0) ∨
      ((ua = 0 ↔ ub = 0) ∧ (ua < ub ∨ (ua = ub ∧ (la < lb ∨ (la = lb ∧ sa ≤ sb)))))) := by
  unfold lexLe
  by_cases h1 : ua = 0 <;> by_cases h2 : ub = 0 <;> by_cases h3 : ua = ub <;> by_cases h4 : la = lb <;>
    simp [*] <;> omega

theorem lexLe_total (ua la sa ub lb sb) : (lexLe ua la sa ub lb sb || lexLe ub lb sb ua la sa) = true := by
  rw [Bool.or_eq_true, lexLe_iff, lexLe_iff]
  rcases String.le_total sa sb with h | h
  · by_cases h' : sb ≤ sa <;> simp only [h, h', and_true, and_false, or_false] <;> omega
  · by_cases h' : sa ≤ sb <;> simp only [h, h', and_true, and_false, or_false] <;> omega

theorem lexLe_trans (ua la sa ub lb sb uc lc sc)
    (h1 : lexLe ua la sa ub lb sb = true) (h2 : lexLe ub lb sb uc lc sc = true) :
    lexLe ua la sa uc lc sc = true := by
  rw [lexLe_iff] at *
  by_cases s1 : sa ≤ sb <;> by_cases s2 : sb ≤ sc
  · have s3 := String.le_trans s1 s2
    simp only [s1, s2, s3, and_true] at *
    omega
  all_goals
    by_cases s3 : sa ≤ sc <;> simp only [s1, s2, s3, and_true, and_false, or_false] at * <;> omega

theorem newLe_total (a b : Elem) : (newLe a b || newLe b a) = true := by
  simp only [newLe_eq]; exact lexLe_total ..
theorem newLe_trans (a b c : Elem) (h1 : newLe a b = true) (h2 : newLe b c = true) : newLe a c = true := by
  simp only [newLe_eq] at *; exact lexLe_trans _ _ _ _ _ _ _ _ _ h1 h2
theorem writerLe_total (a b : Elem) : (writerLe a b || writerLe b a) = true := by
  simp only [writerLe_eq]; exact lexLe_total ..
theorem writerLe_trans (a b c : Elem) (h1 : writerLe a b = true) (h2 : writerLe b c = true) :
    writerLe a c = true := by
  simp only [writerLe_eq] at *; exact lexLe_trans _ _ _ _ _ _ _ _ _ h1 h2

theorem pairwise_mergeSort_newLe (es : List Elem) : (es.mergeSort newLe).Pairwise (fun a b => newLe a b = true) :=
  List.pairwise_mergeSort newLe_trans newLe_total es

theorem pairwise_mergeSort_writerLe (es : List Elem) :
    (es.mergeSort writerLe).Pairwise (fun a b => writerLe a b = true) :=
  List.pairwise_mergeSort writerLe_trans writerLe_total es

/-- a new element is never sorted before a placed one -/
theorem newLe_zero_left {a b : Elem} (ha : a.uid = 0) (h : newLe a b = true) : b.uid = 0 := by
  rw [newLe_eq, lexLe_iff] at h; omega

/-- placed elements are sorted by uid -/
theorem newLe_placed {a b : Elem} (hb : b.uid ≠ 0) (h : newLe a b = true) : a.uid ≤ b.uid := by
  rw [newLe_eq, lexLe_iff] at h; omega

/-! ## `foldl max` -/

theorem foldl_max_eq (a : Nat) (L : List Nat) : L.foldl max a = max a (L.foldl max 0) := by
  induction L generalizing a with
  | nil => simp
  | cons x xs ih => simp only [List.foldl_cons]; rw [ih (max a x), ih (max 0 x)]; omega

theorem le_foldl_max {x : Nat} {L : List Nat} (h : x ∈ L) : x ≤ L.foldl max 0 := by
  induction L with
  | nil => cases h
  | cons y ys ih =>
    simp only [List.foldl_cons]; rw [foldl_max_eq]
    rcases List.mem_cons.1 h with rfl | h
    · omega
    · have := ih h; omega

theorem foldl_max_perm {L L' : List Nat} (p : L.Perm L') : L.foldl max 0 = L'.foldl max 0 :=
  p.foldl_eq' (by intros; omega) 0


theorem renumber_cons_ok {last : Nat} {e : Elem} {es es' : List Elem}
    (h : renumber last (e :: es) = .ok es') :
    (e.uid ≠ 0 ∧ 2 * e.uid + 1 ≤ u32max ∧
        ∃ es'', renumber (2 * e.uid + 1) es = .ok es'' ∧ es' = { e with uid := 2 * e.uid } :: es'') ∨
    (e.uid = 0 ∧ ∃ es'', renumber last es = .ok es'' ∧ es' = { e with uid := last } :: es'') := by
  rw [renumber] at h
  by_cases hu : e.uid = 0
  · right
    refine ⟨hu, ?_⟩
    simp only [hu, ne_eq, not_true_eq_false, ↓reduceIte] at h
    cases hr : renumber last es with
    | panic => simp [hr] at h
    | ok es'' => simp [hr] at h; exact ⟨es'', rfl, h.symm⟩
  · left
    refine ⟨hu, ?_⟩
    simp only [ne_eq, hu, not_false_eq_true, ↓reduceIte, dbl] at h
    by_cases h2 : 2 * e.uid ≤ u32max
    · simp only [h2, ↓reduceIte] at h
      by_cases h3 : 2 * e.uid + 1 ≤ u32max
      · simp only [h3, ↓reduceIte] at h
        refine ⟨h3, ?_⟩
        cases hr : renumber (2 * e.uid + 1) es with
        | panic => simp [hr] at h
        | ok es'' => simp [hr] at h; exact ⟨es'', rfl, h.symm⟩
      · simp [h3] at h
    · simp [h2] at h


theorem renumber_keys (es : List Elem) : ∀ (last : Nat) (es' : List Elem), renumber last es = .ok es' →
    es'.map Elem.key = es.map Elem.key := by
  induction es with
  | nil => intro last es' h; simp [renumber] at h; subst h; rfl
  | cons e es ih =>
    intro last es' h
    rcases renumber_cons_ok h with ⟨_, _, es'', hr, rfl⟩ | ⟨_, es'', hr, rfl⟩
    · simp [ih _ _ hr, Elem.key]
    · simp [ih _ _ hr, Elem.key]

theorem renumber_grows (es : List Elem) : ∀ (last : Nat) (es' : List Elem), renumber last es = .ok es' →
    ∀ e ∈ es, e.uid ≠ 0 → 2 * e.uid + 1 ≤ u32max ∧
      ∃ e' ∈ es', e'.key = e.key ∧ e'.line = e.line ∧ e'.uid = 2 * e.uid := by
  induction es with
  | nil => intro _ _ _ e he; cases he
  | cons a es ih =>
    intro last es' h e he hu
    rcases renumber_cons_ok h with ⟨_, hb, es'', hr, rfl⟩ | ⟨ha, es'', hr, rfl⟩
    · rcases List.mem_cons.1 he with rfl | he
      · exact ⟨hb, _, List.mem_cons_self, rfl, rfl, rfl⟩
      · obtain ⟨hb', e', he', hk⟩ := ih _ _ hr e he hu
        exact ⟨hb', e', List.mem_cons_of_mem _ he', hk⟩
    · rcases List.mem_cons.1 he with rfl | he
      · exact absurd ha hu
      · obtain ⟨hb', e', he', hk⟩ := ih _ _ hr e he hu
        exact ⟨hb', e', List.mem_cons_of_mem _ he', hk⟩

theorem renumber_ok (es : List Elem) (hb : ∀ e ∈ es, 2 * e.uid + 1 ≤ u32max) :
    ∀ last, ∃ es', renumber last es = .ok es' := by
  induction es with
  | nil => intro _; exact ⟨[], rfl⟩
  | cons a es ih =>
    intro last
    have ha := hb a List.mem_cons_self
    have ih' := ih (fun e he => hb e (List.mem_cons_of_mem _ he))
    rw [renumber]
    by_cases hu : a.uid = 0
    · obtain ⟨es', h⟩ := ih' last
      simp [hu, h]
    · obtain ⟨es', h⟩ := ih' (2 * a.uid + 1)
      have h2 : 2 * a.uid ≤ u32max := by omega
      simp [hu, dbl, h2, ha, h]

/-- on a list sorted by `newLe`, every new element gets `2·(largest placed uid)+1`, or the incoming `last` if
    there is no placed element -/
theorem renumber_new (es : List Elem) : ∀ (last : Nat) (es' : List Elem),
    es.Pairwise (fun a b => newLe a b = true) → renumber last es = .ok es' →
    ∀ e' ∈ es', (e'.uid % 2 = 1 ∨ e'.uid = 0) →
      e'.uid = (if (es.filter (·.uid ≠ 0)).isEmpty then last
                else 2 * ((es.filter (·.uid ≠ 0)).map (·.uid)).foldl max 0 + 1) := by
  induction es with
  | nil => intro _ _ _ h e' he'; simp [renumber] at h; subst h; cases he'
  | cons a es ih =>
    intro last es' hs h e' he' hodd
    rw [List.pairwise_cons] at hs
    rcases renumber_cons_ok h with ⟨ha, _, es'', hr, rfl⟩ | ⟨ha, es'', hr, rfl⟩
    · have hfil : (a :: es).filter (·.uid ≠ 0) = a :: es.filter (·.uid ≠ 0) := by
        simp [ha]
      rw [hfil]
      simp only [List.isEmpty_cons, Bool.false_eq_true, ↓reduceIte, List.map_cons, List.foldl_cons]
      rcases List.mem_cons.1 he' with rfl | he'
      · simp at hodd; omega
      · have := ih _ _ hs.2 hr e' he' hodd
        rw [this, foldl_max_eq (max 0 a.uid)]
        cases hf : es.filter (·.uid ≠ 0) with
        | nil => simp
        | cons b bs =>
          have hb : b ∈ es.filter (·.uid ≠ 0) := by rw [hf]; exact List.mem_cons_self
          rw [List.mem_filter] at hb
          have hb0 : b.uid ≠ 0 := by simpa using hb.2
          have h1 := newLe_placed hb0 (hs.1 b hb.1)
          have h2 : b.uid ≤ ((b :: bs).map (·.uid)).foldl max 0 :=
            le_foldl_max (List.mem_map.2 ⟨b, List.mem_cons_self, rfl⟩)
          simp only [List.isEmpty_cons, Bool.false_eq_true, ↓reduceIte]
          omega
    · have hall : ∀ b ∈ es, b.uid = 0 := fun b hb => newLe_zero_left ha (hs.1 b hb)
      have hfil : es.filter (·.uid ≠ 0) = [] := by
        rw [List.filter_eq_nil_iff]; intro b hb; simp [hall b hb]
      have hfil' : (a :: es).filter (·.uid ≠ 0) = [] := by
        simpa [ha] using hall
      rw [hfil']
      simp only [List.isEmpty_nil, ↓reduceIte]
      rcases List.mem_cons.1 he' with rfl | he'
      · rfl
      · have := ih _ _ hs.2 hr e' he' hodd
        rw [this, hfil]; simp



/-! ## one call on one section -/

/-- one call doubles every placed uid of the list, and that doubling did not overflow -/
def Grows (es es' : List Elem) : Prop :=
  ∀ e ∈ es, e.uid ≠ 0 → 2 * e.uid ≤ u32max ∧ ∃ e' ∈ es', e'.key = e.key ∧ e'.uid = 2 * e.uid

theorem sortObjectlistNew_grows {es es' : List Elem} (h : sortObjectlistNew es = .ok es') : Grows es es' := by
  intro e he hu
  obtain ⟨hb, e', he', hk, _, hu'⟩ := renumber_grows _ _ _ h e (List.mem_mergeSort.2 he) hu
  exact ⟨by omega, e', he', hk, hu'⟩

theorem sortObjectlistNew_ok (es : List Elem) (hb : ∀ e ∈ es, 2 * e.uid + 1 ≤ u32max) :
    ∃ es', sortObjectlistNew es = .ok es' :=
  renumber_ok _ (fun e he => hb e (List.mem_mergeSort.1 he)) 0

theorem sortOptional_grows {es es' : List Elem} {n n' : Nat} (hl : es.length ≤ 1)
    (h : sortOptional es n = .ok (es', n')) : Grows es es' ∧ es'.length = es.length := by
  match es, hl with
  | [], _ => simp [sortOptional] at h; obtain ⟨rfl, -⟩ := h; exact ⟨fun e he => (by cases he), rfl⟩
  | [a], _ =>
    rw [sortOptional] at h
    by_cases hu : a.uid = 0
    · simp only [hu, ↓reduceIte, Out.ok.injEq, Prod.mk.injEq] at h
      rw [← h.1]
      refine ⟨?_, rfl⟩
      intro e he hne
      rw [List.mem_singleton] at he; subst he; exact absurd hu hne
    · simp only [hu, ↓reduceIte, dbl] at h
      by_cases h2 : 2 * a.uid ≤ u32max
      · simp only [h2, ↓reduceIte] at h
        by_cases h3 : 2 * a.uid + 1 ≤ u32max
        · simp only [h3, ↓reduceIte, Out.ok.injEq, Prod.mk.injEq] at h
          rw [← h.1]
          refine ⟨?_, rfl⟩
          intro e he hne
          rw [List.mem_singleton] at he; subst he
          exact ⟨h2, _, List.mem_singleton.2 rfl, rfl, rfl⟩
        · simp [h3] at h
      · simp [h2] at h
  | _ :: _ :: _, hl => simp at hl

theorem sortOptional_ok (es : List Elem) (n : Nat) (hb : ∀ e ∈ es, 2 * e.uid + 1 ≤ u32max) :
    ∃ r, sortOptional es n = .ok r := by
  match es with
  | [] => exact ⟨_, rfl⟩
  | a :: rest =>
    have ha := hb a List.mem_cons_self
    rw [sortOptional]
    by_cases hu : a.uid = 0
    · simp [hu]
    · have h2 : 2 * a.uid ≤ u32max := by omega
      simp [hu, dbl, h2, ha]

theorem doubleAll_grows (es : List Elem) : ∀ es', doubleAll es = .ok es' → Grows es es' := by
  induction es with
  | nil => intro _ _ e he; cases he
  | cons a es ih =>
    intro es' h e he hu
    rw [doubleAll] at h
    by_cases h2 : 2 * a.uid ≤ u32max
    · cases hr : doubleAll es with
      | panic => simp [dbl, h2, hr] at h
      | ok es'' =>
        simp [dbl, h2, hr] at h
        subst h
        rcases List.mem_cons.1 he with rfl | he
        · exact ⟨h2, _, List.mem_cons_self, rfl, rfl⟩
        · obtain ⟨hb, e', he', hk⟩ := ih _ hr e he hu
          exact ⟨hb, e', List.mem_cons_of_mem _ he', hk⟩
    · simp [dbl, h2] at h

theorem doubleAll_ok (es : List Elem) (hb : ∀ e ∈ es, 2 * e.uid + 1 ≤ u32max) :
    ∃ es', doubleAll es = .ok es' := by
  induction es with
  | nil => exact ⟨[], rfl⟩
  | cons a es ih =>
    have ha := hb a List.mem_cons_self
    obtain ⟨es', h⟩ := ih (fun e he => hb e (List.mem_cons_of_mem _ he))
    have h2 : 2 * a.uid ≤ u32max := by omega
    rw [doubleAll]; simp [dbl, h2, h]

/-- the body of the `foldr` in `sortKeepList` -/
def keepF (maxid : Nat) (e : Elem) (acc : Out (List Elem)) : Out (List Elem) :=
  match acc with
  | .panic => .panic
  | .ok rest =>
    if e.uid ≠ 0 then
      match dbl e.uid with | .panic => .panic | .ok u => .ok ({ e with uid := u } :: rest)
    else
      match dblInc maxid with | .panic => .panic | .ok u => .ok ({ e with uid := u } :: rest)

theorem sortKeepList_eq (es : List Elem) :
    sortKeepList es =
      if es.foldl (fun acc e => max acc e.uid) 0 = 0 then .ok es
      else es.foldr (keepF (es.foldl (fun acc e => max acc e.uid) 0)) (.ok []) := rfl

theorem keepF_grows (M : Nat) (es : List Elem) : ∀ es', es.foldr (keepF M) (.ok []) = .ok es' → Grows es es' := by
  induction es with
  | nil => intro _ _ e he; cases he
  | cons a es ih =>
    intro es' h e he hu
    rw [List.foldr_cons] at h
    cases hr : es.foldr (keepF M) (.ok []) with
    | panic => simp [hr, keepF] at h
    | ok es'' =>
      rw [hr] at h
      have hrest : ∀ e ∈ es, e.uid ≠ 0 → 2 * e.uid ≤ u32max ∧ ∃ e' ∈ es', e'.key = e.key ∧ e'.uid = 2 * e.uid := by
        intro e he hu
        obtain ⟨hb, e', he', hk⟩ := ih _ hr e he hu
        refine ⟨hb, e', ?_, hk⟩
        simp only [keepF] at h
        split at h
        · split at h
          · cases h
          · cases h; exact List.mem_cons_of_mem _ he'
        · split at h
          · cases h
          · cases h; exact List.mem_cons_of_mem _ he'
      rcases List.mem_cons.1 he with rfl | he
      · simp only [keepF, hu, ne_eq, not_false_eq_true, ↓reduceIte, dbl] at h
        by_cases h2 : 2 * e.uid ≤ u32max
        · simp only [h2, ↓reduceIte, Out.ok.injEq] at h
          subst h
          exact ⟨h2, _, List.mem_cons_self, rfl, rfl⟩
        · simp [h2] at h
      · exact hrest e he hu

theorem keepF_ok (M : Nat) (hM : 2 * M + 1 ≤ u32max) (es : List Elem) (hb : ∀ e ∈ es, 2 * e.uid + 1 ≤ u32max) :
    ∃ es', es.foldr (keepF M) (.ok []) = .ok es' := by
  induction es with
  | nil => exact ⟨[], rfl⟩
  | cons a es ih =>
    have ha := hb a List.mem_cons_self
    obtain ⟨es', h⟩ := ih (fun e he => hb e (List.mem_cons_of_mem _ he))
    have h2 : 2 * a.uid ≤ u32max := by omega
    rw [List.foldr_cons, h]
    by_cases hu : a.uid = 0
    · simp [keepF, hu, dblInc, hM]
    · simp [keepF, hu, dbl, h2]

theorem foldl_maxuid_mem (es : List Elem) : ∀ a : Nat,
    es.foldl (fun acc e => max acc e.uid) a = a ∨
      ∃ e ∈ es, e.uid = es.foldl (fun acc e => max acc e.uid) a := by
  induction es with
  | nil => intro a; left; rfl
  | cons x xs ih =>
    intro a
    rw [List.foldl_cons]
    rcases ih (max a x.uid) with h | ⟨e, he, h⟩
    · rw [h]
      by_cases hx : x.uid ≤ a
      · left; omega
      · right; exact ⟨x, List.mem_cons_self, by omega⟩
    · right; exact ⟨e, List.mem_cons_of_mem _ he, h⟩

theorem sortKeepList_grows {es es' : List Elem} (h : sortKeepList es = .ok es') : Grows es es' := by
  rw [sortKeepList_eq] at h
  split at h
  · rename_i h0
    intro e he hu
    exfalso
    -- every uid is below the maximum, which is 0
    have : ∀ (l : List Elem) (a : Nat), a ≤ l.foldl (fun acc e => max acc e.uid) a ∧
        ∀ x ∈ l, x.uid ≤ l.foldl (fun acc e => max acc e.uid) a := by
      intro l
      induction l with
      | nil => intro a; exact ⟨Nat.le_refl _, fun x hx => by cases hx⟩
      | cons y ys ih =>
        intro a
        rw [List.foldl_cons]
        obtain ⟨h1, h2⟩ := ih (max a y.uid)
        refine ⟨by omega, fun x hx => ?_⟩
        rcases List.mem_cons.1 hx with rfl | hx
        · omega
        · exact h2 x hx
    have := (this es 0).2 e he
    omega
  · exact keepF_grows _ _ _ h

theorem sortKeepList_ok (es : List Elem) (hb : ∀ e ∈ es, 2 * e.uid + 1 ≤ u32max) :
    ∃ es', sortKeepList es = .ok es' := by
  rw [sortKeepList_eq]
  split
  · exact ⟨_, rfl⟩
  · rename_i h0
    refine keepF_ok _ ?_ es hb
    rcases foldl_maxuid_mem es 0 with h | ⟨e, he, h⟩
    · exact absurd h h0
    · rw [← h]; exact hb e he



/-! ## one call on the module -/

/-- the rules of the `Option<T>` sections -/
def isSingle (r : NewRule) : Prop := r = .threaded ∨ r = .optionalZero

theorem sniSections_cons_ok {next : Nat} {r : RSection} {rs out : List RSection}
    (h : sniSections next (r :: rs) = .ok out) :
    ∃ es next' rs', out = { r with sec := { r.sec with elems := es } } :: rs' ∧
      sniSections next' rs = .ok rs' ∧
      ((isSingle r.rule ∧ ∃ n n', sortOptional r.sec.elems n = .ok (es, n')) ∨
       (¬ isSingle r.rule ∧ sortKeepList r.sec.elems = .ok es) ∨
       (¬ isSingle r.rule ∧ sortObjectlistNew r.sec.elems = .ok es)) := by
  rw [sniSections] at h
  cases hrule : r.rule <;> simp only [hrule] at h
  · cases h1 : sortOptional r.sec.elems next with
    | panic => simp [h1] at h
    | ok p =>
      obtain ⟨es, n'⟩ := p
      simp only [h1] at h
      cases h2 : sniSections n' rs with
      | panic => simp [h2] at h
      | ok rs' =>
        simp only [h2, Out.ok.injEq] at h
        exact ⟨es, n', rs', h.symm, h2, .inl ⟨.inl rfl, _, _, h1⟩⟩
  · cases h1 : sortKeepList r.sec.elems with
    | panic => simp [h1] at h
    | ok es =>
      simp only [h1] at h
      cases h2 : sniSections next rs with
      | panic => simp [h2] at h
      | ok rs' =>
        simp only [h2, Out.ok.injEq] at h
        exact ⟨es, next, rs', h.symm, h2, .inr (.inl ⟨by simp [isSingle], rfl⟩)⟩
  · cases h1 : sortObjectlistNew r.sec.elems with
    | panic => simp [h1] at h
    | ok es =>
      simp only [h1] at h
      cases h2 : sniSections next rs with
      | panic => simp [h2] at h
      | ok rs' =>
        simp only [h2, Out.ok.injEq] at h
        exact ⟨es, next, rs', h.symm, h2, .inr (.inr ⟨by simp [isSingle], rfl⟩)⟩
  · cases h1 : sortOptional r.sec.elems 0 with
    | panic => simp [h1] at h
    | ok p =>
      obtain ⟨es, n'⟩ := p
      simp only [h1] at h
      cases h2 : sniSections next rs with
      | panic => simp [h2] at h
      | ok rs' =>
        simp only [h2, Out.ok.injEq] at h
        exact ⟨es, next, rs', h.symm, h2, .inl ⟨.inr rfl, _, _, h1⟩⟩

theorem sniSections_step (rs : List RSection) : ∀ (next : Nat) (rs' : List RSection),
    sniSections next rs = .ok rs' →
    (∀ r ∈ rs, isSingle r.rule → r.sec.elems.length ≤ 1) →
    (∀ r ∈ rs, ∀ e ∈ r.sec.elems, e.uid ≠ 0 → 2 * e.uid ≤ u32max ∧
        ∃ r' ∈ rs', ∃ e' ∈ r'.sec.elems, e'.key = e.key ∧ e'.uid = 2 * e.uid) ∧
    (∀ r' ∈ rs', isSingle r'.rule → r'.sec.elems.length ≤ 1) := by
  induction rs with
  | nil =>
    intro next rs' h _
    simp [sniSections] at h; subst h
    exact ⟨fun r hr => (by cases hr), fun r hr => (by cases hr)⟩
  | cons r rs ih =>
    intro next rs' h hwf
    obtain ⟨es, next', rs'', rfl, h2, hsec⟩ := sniSections_cons_ok h
    obtain ⟨ih1, ih2⟩ := ih _ _ h2 (fun r hr => hwf r (List.mem_cons_of_mem _ hr))
    have hg : Grows r.sec.elems es ∧ (isSingle r.rule → es.length ≤ 1) := by
      rcases hsec with ⟨hs, n, n', ho⟩ | ⟨hs, hk⟩ | ⟨hs, hk⟩
      · have hl := hwf r List.mem_cons_self hs
        obtain ⟨g, hlen⟩ := sortOptional_grows hl ho
        exact ⟨g, fun _ => by omega⟩
      · exact ⟨sortKeepList_grows hk, fun h => absurd h hs⟩
      · exact ⟨sortObjectlistNew_grows hk, fun h => absurd h hs⟩
    constructor
    · intro r0 hr0 e he hu
      rcases List.mem_cons.1 hr0 with rfl | hr0
      · obtain ⟨hb, e', he', hk⟩ := hg.1 e he hu
        exact ⟨hb, _, List.mem_cons_self, e', he', hk⟩
      · obtain ⟨hb, r', hr', e', he', hk⟩ := ih1 r0 hr0 e he hu
        exact ⟨hb, r', List.mem_cons_of_mem _ hr', e', he', hk⟩
    · intro r' hr' hs
      rcases List.mem_cons.1 hr' with rfl | hr'
      · exact hg.2 hs
      · exact ih2 r' hr' hs

theorem sniSections_ok (rs : List RSection) (hb : ∀ r ∈ rs, ∀ e ∈ r.sec.elems, 2 * e.uid + 1 ≤ u32max) :
    ∀ next, ∃ rs', sniSections next rs = .ok rs' := by
  induction rs with
  | nil => intro _; exact ⟨[], rfl⟩
  | cons r rs ih =>
    intro next
    have hr := hb r List.mem_cons_self
    have ih' := ih (fun r hr => hb r (List.mem_cons_of_mem _ hr))
    rw [sniSections]
    cases hrule : r.rule <;> simp only
    · obtain ⟨⟨es, n'⟩, h1⟩ := sortOptional_ok r.sec.elems next hr
      obtain ⟨rs', h2⟩ := ih' n'
      simp [h1, h2]
    · obtain ⟨es, h1⟩ := sortKeepList_ok r.sec.elems hr
      obtain ⟨rs', h2⟩ := ih' next
      simp [h1, h2]
    · obtain ⟨es, h1⟩ := sortObjectlistNew_ok r.sec.elems hr
      obtain ⟨rs', h2⟩ := ih' next
      simp [h1, h2]
    · obtain ⟨⟨es, n'⟩, h1⟩ := sortOptional_ok r.sec.elems 0 hr
      obtain ⟨rs', h2⟩ := ih' next
      simp [h1, h2]

theorem mem_all_iff (m : RModule) (e : Elem) :
    e ∈ m.toModule.all ↔ (∃ r ∈ m.sections, e ∈ r.sec.elems) ∨ e ∈ m.comments := by
  simp only [Module.all, RModule.toModule, List.mem_append, List.mem_flatMap, List.mem_map]
  constructor
  · rintro (⟨s, ⟨r, hr, rfl⟩, he⟩ | h)
    · exact .inl ⟨r, hr, he⟩
    · exact .inr h
  · rintro (⟨r, hr, he⟩ | h)
    · exact .inl ⟨_, ⟨r, hr, rfl⟩, he⟩
    · exact .inr h

theorem sortNewItems_ok_iff {m m' : RModule} (h : sortNewItems m = .ok m') :
    sniSections 1 m.sections = .ok m'.sections ∧ doubleAll m.comments = .ok m'.comments := by
  rw [sortNewItems] at h
  cases h1 : sniSections 1 m.sections with
  | panic => simp [h1] at h
  | ok ss =>
    cases h2 : doubleAll m.comments with
    | panic => simp [h1, h2] at h
    | ok cs => simp [h1, h2] at h; subst h; exact ⟨rfl, rfl⟩

/-- **one call**: every placed uid is doubled (so the doubling fits into `u32`), and the single sections stay
    single -/
theorem sortNewItems_step {m m' : RModule} (h : sortNewItems m = .ok m')
    (hwf : ∀ r ∈ m.sections, isSingle r.rule → r.sec.elems.length ≤ 1) :
    (∀ e ∈ m.toModule.all, e.uid ≠ 0 → 2 * e.uid ≤ u32max ∧
        ∃ e' ∈ m'.toModule.all, e'.key = e.key ∧ e'.uid = 2 * e.uid) ∧
    (∀ r ∈ m'.sections, isSingle r.rule → r.sec.elems.length ≤ 1) := by
  obtain ⟨h1, h2⟩ := sortNewItems_ok_iff h
  obtain ⟨s1, s2⟩ := sniSections_step _ _ _ h1 hwf
  refine ⟨?_, s2⟩
  intro e he hu
  rcases (mem_all_iff m e).1 he with ⟨r, hr, he⟩ | he
  · obtain ⟨hb, r', hr', e', he', hk⟩ := s1 r hr e he hu
    exact ⟨hb, e', (mem_all_iff m' e').2 (.inl ⟨r', hr', he'⟩), hk⟩
  · obtain ⟨hb, e', he', hk⟩ := doubleAll_grows _ _ h2 e he hu
    exact ⟨hb, e', (mem_all_iff m' e').2 (.inr he'), hk⟩

theorem sortNewItems_ok (m : RModule) (hb : ∀ e ∈ m.toModule.all, 2 * e.uid + 1 ≤ u32max) :
    ∃ m', sortNewItems m = .ok m' := by
  obtain ⟨ss, h1⟩ := sniSections_ok m.sections
    (fun r hr e he => hb e ((mem_all_iff m e).2 (.inl ⟨r, hr, he⟩))) 1
  obtain ⟨cs, h2⟩ := doubleAll_ok m.comments (fun e he => hb e ((mem_all_iff m e).2 (.inr he)))
  exact ⟨⟨ss, cs⟩, by simp [sortNewItems, h1, h2]⟩

/-! ## k calls -/

theorem iterate_step (k : Nat) : ∀ (m m' : RModule), iterate k m = .ok m' →
    (∀ r ∈ m.sections, isSingle r.rule → r.sec.elems.length ≤ 1) →
    ∀ e ∈ m.toModule.all, e.uid ≠ 0 →
      (1 ≤ k → 2 ^ k * e.uid ≤ u32max) ∧ ∃ e' ∈ m'.toModule.all, e'.key = e.key ∧ e'.uid = 2 ^ k * e.uid := by
  induction k with
  | zero =>
    intro m m' h _ e he _
    simp [iterate] at h; subst h
    exact ⟨fun h => by omega, e, he, rfl, by simp⟩
  | succ k ih =>
    intro m m' h hwf e he hu
    rw [iterate] at h
    cases h1 : sortNewItems m with
    | panic => simp [h1] at h
    | ok m1 =>
      simp only [h1] at h
      obtain ⟨s1, s2⟩ := sortNewItems_step h1 hwf
      obtain ⟨hb, e1, he1, hk1, hu1⟩ := s1 e he hu
      have hu1' : e1.uid ≠ 0 := by omega
      obtain ⟨hb', e', he', hk', hu'⟩ := ih m1 m' h s2 e1 he1 hu1'
      have hpow : 2 ^ (k + 1) * e.uid = 2 ^ k * e1.uid := by rw [hu1, Nat.pow_succ]; simp [Nat.mul_assoc]
      refine ⟨fun _ => ?_, e', he', hk'.trans hk1, by rw [hu', hpow]⟩
      rw [hpow]
      by_cases hk : 1 ≤ k
      · exact hb' hk
      · have : k = 0 := by omega
        subst this; simp; omega



/-! ## the overflow witness -/

/-- a named list with two placed elements of uids `u` and `2u` -/
def wit (u : Nat) : RModule :=
  { sections := [⟨.objectList, ⟨.byName, [⟨"MEASUREMENT", "a", u, 3, 0⟩, ⟨"MEASUREMENT", "b", 2 * u, 4, 1⟩]⟩⟩],
    comments := [] }

theorem wit_sorted (u : Nat) :
    ([⟨"MEASUREMENT", "a", u, 3, 0⟩, ⟨"MEASUREMENT", "b", 2 * u, 4, 1⟩] : List Elem).mergeSort newLe =
      [⟨"MEASUREMENT", "a", u, 3, 0⟩, ⟨"MEASUREMENT", "b", 2 * u, 4, 1⟩] := by
  apply List.mergeSort_of_pairwise
  simp only [List.pairwise_cons, List.mem_singleton, forall_eq, List.not_mem_nil, false_imp_iff, implies_true,
    List.Pairwise.nil, and_true]
  rw [newLe_eq, lexLe_iff]; simp only; omega

theorem wit_step (u : Nat) (hu : u ≠ 0) (hb : 4 * u + 1 ≤ u32max) :
    sortNewItems (wit u) = .ok (wit (2 * u)) := by
  have h1 : 2 * u ≤ u32max := by omega
  have h2 : 2 * u + 1 ≤ u32max := by omega
  have h3 : 2 * (2 * u) ≤ u32max := by omega
  have h4 : 2 * (2 * u) + 1 ≤ u32max := by omega
  have h0 : 2 * u ≠ 0 := by omega
  simp [h0, sortNewItems, wit, sniSections, sortObjectlistNew, wit_sorted u, renumber, dbl, doubleAll, hu, h1, h2, h3, h4]

theorem wit_panic (u : Nat) (hu : u ≠ 0) (hb : 2 * u + 1 ≤ u32max) (hbig : u32max < 4 * u) :
    sortNewItems (wit u) = .panic := by
  have h1 : 2 * u ≤ u32max := by omega
  have h3 : ¬ 2 * (2 * u) ≤ u32max := by omega
  have h0 : 2 * u ≠ 0 := by omega
  simp [h0, sortNewItems, wit, sniSections, sortObjectlistNew, wit_sorted u, renumber, dbl, doubleAll, hu, h1, hb, h3]

theorem iterate_add (j k : Nat) : ∀ m : RModule,
    iterate (j + k) m = match iterate j m with | .panic => .panic | .ok m' => iterate k m' := by
  induction j with
  | zero => intro m; simp [iterate]
  | succ j ih =>
    intro m
    rw [Nat.add_right_comm, iterate, iterate]
    cases sortNewItems m with
    | panic => rfl
    | ok m1 => exact ih m1

theorem wit_iterate (k : Nat) : ∀ u : Nat, u ≠ 0 → 2 ^ (k + 1) * u + 1 ≤ u32max →
    iterate k (wit u) = .ok (wit (2 ^ k * u)) := by
  induction k with
  | zero => intro u _ _; simp [iterate]
  | succ k ih =>
    intro u hu hb
    have hp : 1 ≤ 2 ^ k := Nat.one_le_two_pow
    have e1 : 2 ^ (k + 1 + 1) * u = 2 ^ (k + 1) * (2 * u) := by
      rw [Nat.pow_succ 2 (k + 1), Nat.mul_assoc]
    have e2 : 2 ^ (k + 1) * (2 * u) = 2 * (2 * (2 ^ k * u)) := by
      rw [Nat.pow_succ]; ac_rfl
    have e3 : u ≤ 2 ^ k * u := Nat.le_mul_of_pos_left u hp
    rw [iterate, wit_step u hu (by omega)]
    simp only
    rw [ih (2 * u) (by omega) (by omega)]
    congr 2
    rw [Nat.pow_succ, Nat.mul_assoc]


end A2l.Srt.L15
