import A2lVerif.Lemmas.Checker
/-! The reference specification of `check()` — every covered reference site with its target name space — and the proof
    that the structural checker model reports exactly the sites that do not resolve, in order. -/
namespace A2l.Chk

/-- one covered reference: the name a report would carry, and whether the reference resolves -/
structure Site where
  target : Name
  resolves : Bool

/-- what a sound and complete checker names -/
def dangling (ss : List Site) : List Name := (ss.filter fun x => !x.resolves).map (·.target)

def xrefTarget : Report → Option Name
  | .xref _ _ _ t => some t
  | _ => none

def xrefTargets (rs : List Report) : List Name := rs.filterMap xrefTarget

/-! ### the specification: sites per element kind -/

/-- a single-name reference with a reserved word that means "none" -/
def convSite (reserved : Name) (target : Name) (space : List Name) : Site := ⟨target, target == reserved || space.contains target⟩

def nameSite (target : Name) (space : List Name) : Site := ⟨target, space.contains target⟩

def optSite (o : Option Name) (space : List Name) : List Site :=
  match o with
  | none => []
  | some t => [nameSite t space]

def listSites (l : Option (List Name)) (space : List Name) : List Site :=
  match l with
  | none => []
  | some l => l.map fun t => nameSite t space

/-- AXIS_PTS_REF / CURVE_AXIS_REF: `THIS.x` designates component `x` of every containing structure when the typedef is
    not used directly and some structure contains it; otherwise the text is an object name -/
def thisSite (target : Name) (objects : List Name) (direct : Bool) (containing : List TypedefStructure) : Site :=
  match (if !direct && !containing.isEmpty then stripPrefix? (s "THIS.") target else none) with
  | some comp => ⟨comp, isValidStructureComponent comp containing⟩
  | none => nameSite target objects

def optThisSite (o : Option Name) (objects : List Name) (direct : Bool) (containing : List TypedefStructure) : List Site :=
  match o with
  | none => []
  | some t => [thisSite t objects direct containing]

def memSegSite (m : Module) (o : Option Name) : List Site :=
  match o with
  | none => []
  | some n => [⟨n, match m.memorySegment with | some segs => segs.contains n | none => false⟩]

def axisDescrSites (m : Module) (direct : Bool) (containing : List TypedefStructure) (ad : AxisDescr) : List Site :=
  [convSite (s "NO_INPUT_QUANTITY") ad.inputQuantity m.objects,
   convSite (s "NO_COMPU_METHOD") ad.conversion m.compuMethodNames] ++
  optThisSite ad.axisPtsRef m.objects direct containing ++
  optThisSite ad.curveAxisRef m.objects direct containing

def charCommonSites (m : Module) (direct : Bool) (containing : List TypedefStructure) (c : Characteristic) : List Site :=
  [convSite (s "NO_COMPU_METHOD") c.conversion m.compuMethodNames] ++
  c.axisDescr.flatMap (axisDescrSites m direct containing) ++
  [nameSite c.recordLayout m.recordLayoutNames]

def characteristicSites (m : Module) (c : Characteristic) : List Site :=
  charCommonSites m true [] c ++ optSite c.comparisonQuantity m.objects ++ listSites c.dependent m.objects ++
  listSites c.mapList m.objects ++ listSites c.virtualChar m.objects ++ listSites c.functionList m.functionNames ++
  memSegSite m c.refMemorySegment

def typedefCharacteristicSites (m : Module) (t : Characteristic) : List Site :=
  charCommonSites m (m.instance_.any fun i => i.typeRef == t.name)
    (m.typedefStructure.filter fun ts => ts.components.any fun sc => sc.2 == t.name) t

def axisPtsSites (m : Module) (a : AxisPts) : List Site :=
  [convSite (s "NO_COMPU_METHOD") a.conversion m.compuMethodNames,
   convSite (s "NO_INPUT_QUANTITY") a.inputQuantity m.objects,
   nameSite a.depositRecord m.recordLayoutNames] ++
  listSites a.functionList m.functionNames ++ memSegSite m a.refMemorySegment

def typedefAxisSites (m : Module) (t : TypedefAxis) : List Site :=
  [convSite (s "NO_INPUT_QUANTITY") t.inputQuantity m.objects,
   nameSite t.recordLayout m.recordLayoutNames,
   convSite (s "NO_COMPU_METHOD") t.conversion m.compuMethodNames]

def compuMethodSites (m : Module) (cm : CompuMethod) : List Site :=
  optSite cm.compuTabRef m.compuTabs ++ optSite cm.refUnit m.unit ++ optSite cm.statusStringRef m.compuTabs

def functionSites (m : Module) (f : Function) : List Site :=
  listSites f.inMeas m.objects ++ listSites f.locMeas m.objects ++ listSites f.outMeas m.objects ++
  listSites f.defChar m.objects ++ listSites f.refChar m.objects ++ listSites f.subFunction m.functionNames

def groupSites (m : Module) (g : Group) : List Site :=
  listSites g.refChar m.objects ++ listSites g.refMeas m.objects ++ listSites g.functionList m.functionNames ++
  listSites g.subGroup m.groupNames

def measurementSites (m : Module) (x : Measurement) : List Site :=
  [convSite (s "NO_COMPU_METHOD") x.conversion m.compuMethodNames] ++ memSegSite m x.refMemorySegment ++
  listSites x.functionList m.functionNames

def typedefMeasurementSites (m : Module) (x : Measurement) : List Site :=
  [convSite (s "NO_COMPU_METHOD") x.conversion m.compuMethodNames]

def transformerSites (m : Module) (t : Transformer) : List Site :=
  [convSite (s "NO_INVERSE_TRANSFORMER") t.inverse m.transformerNames] ++ listSites t.inObjects m.objects ++
  listSites t.outObjects m.objects

/-- all covered reference sites of a module, in the order in which `check()` visits them. SUB_GROUP occurs twice:
    `check_group` and `check_group_structure` both diagnose a missing sub-group. -/
def sitesOf (m : Module) : List Site :=
  m.axisPts.flatMap (axisPtsSites m) ++
  m.typedefAxis.flatMap (typedefAxisSites m) ++
  m.characteristic.flatMap (characteristicSites m) ++
  m.typedefCharacteristic.flatMap (typedefCharacteristicSites m) ++
  m.compuMethod.flatMap (compuMethodSites m) ++
  m.function.flatMap (functionSites m) ++
  m.group.flatMap (groupSites m) ++
  m.group.flatMap (fun g => listSites g.subGroup m.groupNames) ++
  m.measurement.flatMap (measurementSites m) ++
  m.typedefMeasurement.flatMap (typedefMeasurementSites m) ++
  m.transformer.flatMap (transformerSites m) ++
  m.instance_.flatMap (fun i => [nameSite i.typeRef m.typedefs]) ++
  m.typedefStructure.flatMap (fun ts => ts.components.map fun sc => nameSite sc.2 m.typedefs)

/-! ### atoms -/

@[simp] theorem xrefTargets_nil : xrefTargets [] = [] := rfl
@[simp] theorem xrefTargets_append (a b : List Report) : xrefTargets (a ++ b) = xrefTargets a ++ xrefTargets b := by
  simp [xrefTargets]
@[simp] theorem dangling_nil : dangling [] = [] := rfl
@[simp] theorem dangling_append (a b : List Site) : dangling (a ++ b) = dangling a ++ dangling b := by
  simp [dangling]

theorem dangling_three (a b c : Site) : dangling [a, b, c] = dangling [a] ++ dangling [b] ++ dangling [c] := by
  rw [← dangling_append, ← dangling_append]; rfl

theorem dangling_two (a b : Site) : dangling [a, b] = dangling [a] ++ dangling [b] := by
  rw [← dangling_append]; rfl

theorem xrefTargets_flatMap {α} (f : α → List Report) (xs : List α) :
    xrefTargets (xs.flatMap f) = xs.flatMap fun x => xrefTargets (f x) := by
  induction xs with
  | nil => rfl
  | cons x xs ih => simp [List.flatMap_cons, ih]

theorem dangling_flatMap {α} (f : α → List Site) (xs : List α) :
    dangling (xs.flatMap f) = xs.flatMap fun x => dangling (f x) := by
  induction xs with
  | nil => rfl
  | cons x xs ih => simp [List.flatMap_cons, ih]

theorem flatMap_congr' {α β} (f g : α → List β) (xs : List α) (h : ∀ x, f x = g x) : xs.flatMap f = xs.flatMap g := by
  have : f = g := funext h
  rw [this]

@[simp] theorem xt_conv (a b c reserved t : Name) (space : List Name) :
    xrefTargets (missingUnless reserved a b c t space) = dangling [convSite reserved t space] := by
  unfold missingUnless
  by_cases h1 : t = reserved <;> by_cases h2 : t ∈ space <;> simp [bne, h1, h2, dangling, convSite, xrefTargets, xrefTarget]

@[simp] theorem xt_name (a b c t : Name) (space : List Name) :
    xrefTargets (missing a b c t space) = dangling [nameSite t space] := by
  unfold missing
  by_cases h2 : t ∈ space <;> simp [h2, dangling, nameSite, xrefTargets, xrefTarget]

@[simp] theorem xt_content (a b c : Name) : xrefTargets [Report.content a b c] = [] := rfl

@[simp] theorem xt_if_content (p : Prop) [Decidable p] (a b c : Name) :
    xrefTargets (if p then [Report.content a b c] else []) = [] := by
  split <;> rfl

@[simp] theorem xt_limitReport (carrier : Lim.Carrier) (m : Module) (conv : Name) (dt : Lim.DataType) (a b : Name)
    (lo hi : Rat) : xrefTargets (limitReport carrier m conv dt a b lo hi) = [] := by
  unfold limitReport
  split
  · rfl
  · split <;> (dsimp only; split <;> rfl)

theorem xt_refList (a b : Name) (l space : List Name) :
    xrefTargets (checkReferenceList a b l space) = dangling (l.map fun t => nameSite t space) := by
  simp only [checkReferenceList, xrefTargets, dangling]
  induction l with
  | nil => rfl
  | cons t rest ih => by_cases h : t ∈ space <;> simp_all [nameSite, xrefTarget]

@[simp] theorem xt_optList (a b : Name) (l : Option (List Name)) (space : List Name) :
    xrefTargets (optList a b l space) = dangling (listSites l space) := by
  cases l with
  | none => rfl
  | some l => exact xt_refList a b l space

@[simp] theorem xt_optMissing (a b c : Name) (o : Option Name) (space : List Name) :
    xrefTargets (optMissing a b c o space) = dangling (optSite o space) := by
  cases o with
  | none => rfl
  | some t => exact xt_name _ _ _ _ _

@[simp] theorem xt_functionList (m : Module) (l : Option (List Name)) :
    xrefTargets (checkFunctionList m l) = dangling (listSites l m.functionNames) := by
  simp only [checkFunctionList, xt_optList]

@[simp] theorem xt_memSeg (m : Module) (o : Option Name) :
    xrefTargets (checkRefMemorySegment m o) = dangling (memSegSite m o) := by
  cases o with
  | none => rfl
  | some n =>
    simp only [checkRefMemorySegment, memSegSite]
    cases m.memorySegment with
    | none => simp [dangling, xrefTargets, xrefTarget]
    | some segs => by_cases h : n ∈ segs <;> simp [h, dangling, xrefTargets, xrefTarget]

/-! ### per function -/

theorem xt_thisRef (idx : Nat) (parent target targetType : Name) (objects : List Name) (direct : Bool)
    (containing : List TypedefStructure) :
    xrefTargets (thisRefReports idx parent target targetType objects direct containing) =
      dangling [thisSite target objects direct containing] := by
  unfold thisRefReports thisSite
  cases (if !direct && !containing.isEmpty then stripPrefix? (s "THIS.") target else none) with
  | none => exact xt_name _ _ _ _ _
  | some comp =>
    simp only
    cases h : isValidStructureComponent comp containing <;> simp [h, dangling, xrefTargets, xrefTarget]

theorem xt_axisDescrRefs (idx : Nat) (parent : Name) (ad : AxisDescr) (objects : List Name) (direct : Bool)
    (containing : List TypedefStructure) :
    xrefTargets (axisDescrRefsReports idx parent ad objects direct containing) =
      dangling (optThisSite ad.axisPtsRef objects direct containing ++ optThisSite ad.curveAxisRef objects direct containing) := by
  unfold axisDescrRefsReports
  cases ad.axisPtsRef <;> cases ad.curveAxisRef <;>
    simp only [optThisSite, xt_thisRef, xrefTargets_append, xrefTargets_nil, dangling_append, dangling_nil]

theorem xt_checkAxisDescr (idx : Nat) (parent : Name) (ad : AxisDescr) (m : Module) :
    xrefTargets (checkAxisDescr idx parent ad m m.objects) =
      dangling [convSite (s "NO_INPUT_QUANTITY") ad.inputQuantity m.objects,
                convSite (s "NO_COMPU_METHOD") ad.conversion m.compuMethodNames] := by
  unfold checkAxisDescr
  simp only [xrefTargets_append, xt_conv]
  have h3 : ∀ (p q : Prop) [Decidable p] [Decidable q] (a b c a' b' c' : Name),
      xrefTargets (if p then [Report.content a b c] else if q then [Report.content a' b' c'] else []) = [] := by
    intro p q _ _ a b c a' b' c'
    split
    · rfl
    · split <;> rfl
  rw [h3, List.append_nil, dangling_two]

theorem xt_axisLoop (parent : Name) (m : Module) (direct : Bool) (containing : List TypedefStructure) (idx : Nat)
    (ads : List AxisDescr) :
    xrefTargets (axisLoopReports parent m m.objects direct containing idx ads) =
      dangling (ads.flatMap (axisDescrSites m direct containing)) := by
  induction ads generalizing idx with
  | nil => rfl
  | cons ad rest ih =>
    simp only [axisLoopReports, xrefTargets_append, List.flatMap_cons, dangling_append, ih, xt_checkAxisDescr,
      xt_axisDescrRefs, axisDescrSites, List.append_assoc]

theorem xt_stdAxisLoop (kind name rlName : Name) (m : Module) (rl : RecordLayout) (idx : Nat) (ads : List AxisDescr) :
    xrefTargets (stdAxisLoop kind name rlName m rl idx ads) = [] := by
  induction ads generalizing idx with
  | nil => rfl
  | cons ad rest ih =>
    simp only [stdAxisLoop, xrefTargets_append, ih, List.append_nil]
    split
    · split <;> simp
    · rfl

theorem contains_recordLayoutNames (m : Module) (n : Name) :
    m.recordLayoutNames.contains n = (m.getRecordLayout n).isSome := by
  simp only [Module.getRecordLayout, Module.recordLayoutNames]
  induction m.recordLayout with
  | nil => rfl
  | cons rl rest ih =>
    simp only [List.map_cons, List.contains_cons, List.find?_cons]
    cases h : rl.name == n
    · have : (n == rl.name) = false := by rw [BEq.comm]; exact h
      rw [this, Bool.false_or]; exact ih
    · have : (n == rl.name) = true := by rw [BEq.comm]; exact h
      rw [this]; rfl

theorem dangling_nameSite_of (t : Name) (space : List Name) (b : Bool) (h : space.contains t = b) :
    dangling [nameSite t space] = if b then [] else [t] := by
  subst h
  by_cases h2 : t ∈ space <;> simp [dangling, nameSite, h2]

theorem xt_charCommon (kind : Name) (c : Characteristic) (m : Module) (direct : Bool) (containing : List TypedefStructure) :
    xrefTargets (characteristicCommonReports kind c m m.objects direct containing) =
      dangling (charCommonSites m direct containing c) := by
  unfold characteristicCommonReports charCommonSites
  simp only [xrefTargets_append, dangling_append, xt_conv, xt_axisLoop, xt_if_content,
    List.append_nil]
  congr 1
  rw [dangling_nameSite_of _ _ _ (contains_recordLayoutNames m c.recordLayout)]
  cases hrl : m.getRecordLayout c.recordLayout with
  | none => rfl
  | some rl =>
    simp only [xrefTargets_append, xt_stdAxisLoop, List.append_nil, Option.isSome_some, if_true]
    cases rl.fncValues <;> simp

theorem xt_characteristic (c : Characteristic) (m : Module) :
    xrefTargets (characteristicReports c m m.objects) = dangling (characteristicSites m c) := by
  unfold characteristicReports characteristicSites
  simp only [xrefTargets_append, dangling_append, xt_charCommon, xt_optList, xt_functionList, xt_memSeg, xt_optMissing]

theorem xt_typedefCharacteristic (t : Characteristic) (m : Module) :
    xrefTargets (typedefCharacteristicReports t m m.objects) = dangling (typedefCharacteristicSites m t) := by
  unfold typedefCharacteristicReports typedefCharacteristicSites
  exact xt_charCommon _ _ _ _ _

theorem xt_axisPts (a : AxisPts) (m : Module) :
    xrefTargets (checkAxisPts a m m.objects) = dangling (axisPtsSites m a) := by
  unfold checkAxisPts axisPtsSites
  simp only [xrefTargets_append, dangling_append, xt_conv, xt_functionList, xt_memSeg, dangling_three]
  rw [dangling_nameSite_of _ _ _ (contains_recordLayoutNames m a.depositRecord)]
  cases hrl : m.getRecordLayout a.depositRecord with
  | none => rfl
  | some rl =>
    simp only [Option.isSome_some, if_true]
    cases rl.axisPtsX <;> simp

theorem xt_typedefAxis (t : TypedefAxis) (m : Module) :
    xrefTargets (checkTypedefAxis t m m.objects) = dangling (typedefAxisSites m t) := by
  unfold checkTypedefAxis typedefAxisSites
  simp only [xrefTargets_append, xt_conv, xt_name, dangling_three]

theorem xt_compuMethod (cm : CompuMethod) (m : Module) :
    xrefTargets (checkCompuMethod cm m m.compuTabs) = dangling (compuMethodSites m cm) := by
  unfold checkCompuMethod compuMethodSites
  simp only [xrefTargets_append, dangling_append, xt_optMissing]

theorem xt_function (f : Function) (m : Module) :
    xrefTargets (checkFunction f m m.objects) = dangling (functionSites m f) := by
  unfold checkFunction functionSites
  simp only [xrefTargets_append, dangling_append, xt_optList]

theorem xt_group (g : Group) (m : Module) :
    xrefTargets (checkGroup g m m.objects) = dangling (groupSites m g) := by
  unfold checkGroup groupSites
  simp only [xrefTargets_append, dangling_append, xt_optList]

theorem xt_measurement (x : Measurement) (m : Module) :
    xrefTargets (checkMeasurement x m) = dangling (measurementSites m x) := by
  unfold checkMeasurement measurementSites
  simp only [xrefTargets_append, dangling_append, xt_conv, xt_limitReport, xt_functionList,
    xt_memSeg, List.append_nil]

theorem xt_typedefMeasurement (x : Measurement) (m : Module) :
    xrefTargets (checkTypedefMeasurement x m) = dangling (typedefMeasurementSites m x) := by
  unfold checkTypedefMeasurement typedefMeasurementSites
  simp only [xrefTargets_append, xt_conv, xt_limitReport, List.append_nil]

theorem xt_transformer (t : Transformer) (m : Module) :
    xrefTargets (checkTransformer t m m.objects) = dangling (transformerSites m t) := by
  unfold checkTransformer transformerSites
  simp only [xrefTargets_append, dangling_append, xt_optList, xt_conv]

theorem xt_instance (i : Instance) (m : Module) :
    xrefTargets (checkInstance i m.typedefs) = dangling [nameSite i.typeRef m.typedefs] := by
  unfold checkInstance
  exact xt_name _ _ _ _ _

theorem xt_typedefStructure (ts : TypedefStructure) (m : Module) :
    xrefTargets (checkTypedefStructure ts m.typedefs) = dangling (ts.components.map fun sc => nameSite sc.2 m.typedefs) := by
  unfold checkTypedefStructure
  simp only [xrefTargets, dangling]
  induction ts.components with
  | nil => rfl
  | cons sc rest ih => by_cases h : sc.2 ∈ m.typedefs <;> simp_all [nameSite, xrefTarget]

/-! ### `check_group_structure`: its cross-reference reports are the sub-groups that are no group -/

theorem GMap.isSome_get_cons (k' : Name) (v' : GroupInfo) (rest : GMap) (k : Name) :
    (GMap.get ((k', v') :: rest) k).isSome = (k' == k || (GMap.get rest k).isSome) := by
  rw [GMap.get_cons]
  split <;> simp_all

theorem GMap.pushParent_isSome (gm : GMap) (k p : Name) : (gm.pushParent k p).isSome = (gm.get k).isSome := by
  induction gm with
  | nil => rfl
  | cons e rest ih =>
    obtain ⟨k', v'⟩ := e
    simp only [GMap.pushParent, GMap.isSome_get_cons]
    split
    · rename_i h; simp [h]
    · rename_i h; simp [h, ih]

theorem groupLinkOne_reports (parent : Name) (l : List Name) (gm : GMap) :
    xrefTargets (groupLinkOne parent l gm).2 = dangling (l.map fun t => ⟨t, (gm.get t).isSome⟩) := by
  induction l generalizing gm with
  | nil => rfl
  | cons sg rest ih =>
    simp only [groupLinkOne]
    have hp := GMap.pushParent_isSome gm sg parent
    cases hpp : gm.pushParent sg parent with
    | some gm' =>
      rw [hpp] at hp
      simp only
      rw [ih gm']
      have hk : ∀ t, (gm'.get t).isSome = (gm.get t).isSome := GMap.isSome_get_pushParent gm gm' sg parent hpp
      simp only [hk, List.map_cons, dangling, List.filter_cons, ← hp]
      simp
    | none =>
      rw [hpp] at hp
      simp only
      have := ih gm
      simp only [xrefTargets, dangling, List.filterMap_cons, xrefTarget, List.map_cons, List.filter_cons, ← hp] at this ⊢
      simp [this]

/-- the SUB_GROUP entries of one group as sites, given the test "is a group name" -/
def subGroupSites (isKey : Name → Bool) (g : Group) : List Site := (g.subGroup.getD []).map fun t => ⟨t, isKey t⟩

theorem groupLink_reports (gs : List Group) (gm : GMap) :
    xrefTargets (groupLink gs gm).2 = dangling (gs.flatMap (subGroupSites fun t => (gm.get t).isSome)) := by
  induction gs generalizing gm with
  | nil => rfl
  | cons g rest ih =>
    simp only [groupLink, List.flatMap_cons, dangling_append]
    cases hsg : g.subGroup with
    | none =>
      simp only [subGroupSites, hsg, Option.getD_none, List.map_nil, dangling_nil, List.nil_append, xrefTargets_append,
        xrefTargets_nil]
      exact ih gm
    | some l =>
      simp only [xrefTargets_append, groupLinkOne_reports, subGroupSites, hsg, Option.getD_some]
      congr 1
      rw [ih]
      congr 1
      apply flatMap_congr'
      intro g'
      simp only [subGroupSites]
      apply List.map_congr_left
      intro t _
      simp only [Site.mk.injEq, true_and]
      exact groupLinkOne_keys g.name l gm t

theorem GMap.isSome_get_insert_iff (gm : GMap) (k : Name) (v : GroupInfo) (k0 : Name) :
    ((gm.insert k v).get k0).isSome = (k == k0 || (gm.get k0).isSome) := by
  induction gm with
  | nil =>
    rw [show GMap.insert [] k v = [(k, v)] from rfl, GMap.isSome_get_cons]
  | cons e rest ih =>
    obtain ⟨k', v'⟩ := e
    simp only [GMap.insert]
    split
    · rename_i heq
      have hk : k' = k := by simpa using heq
      subst hk
      simp only [GMap.isSome_get_cons]
      cases k' == k0 <;> simp
    · simp only [GMap.isSome_get_cons, ih]
      cases k' == k0 <;> cases k == k0 <;> simp

theorem groupInit_isSome_aux (gs : List Group) (gm : GMap) (k0 : Name) :
    ((gs.foldl (fun gm g => gm.insert g.name ⟨g.root, []⟩) gm).get k0).isSome =
      ((gs.map (·.name)).contains k0 || (gm.get k0).isSome) := by
  induction gs generalizing gm with
  | nil => simp
  | cons g rest ih =>
    simp only [List.foldl_cons, ih, GMap.isSome_get_insert_iff, List.map_cons, List.contains_cons]
    cases (rest.map (·.name)).contains k0 <;> cases hg : g.name == k0 <;> simp [hg, BEq.comm (a := k0)]

theorem groupInit_isSome (gs : List Group) (k0 : Name) :
    ((groupInit gs).get k0).isSome = (gs.map (·.name)).contains k0 := by
  unfold groupInit
  rw [groupInit_isSome_aux]
  simp [GMap.get]

theorem groupJudge_no_xref (gm : GMap) (gs : List Group) (r : List Report) (h : groupJudge gm gs = .ok r) :
    xrefTargets r = [] := by
  induction gs generalizing r with
  | nil => simp [groupJudge] at h; subst h; rfl
  | cons g rest ih =>
    simp only [groupJudge] at h
    cases hgi : gm.get g.name with
    | none => simp [hgi] at h
    | some gi =>
      simp only [hgi] at h
      split at h
      · cases h
      · rename_i r1 hr1
        cases hr : groupJudge gm rest with
        | panic => simp [hr] at h
        | ok r' =>
          simp only [hr, Out.ok.injEq] at h
          subst h
          rw [xrefTargets_append, ih r' hr, List.append_nil]
          -- `r1` is one of the four group structure reports or empty
          split at hr1
          · cases hr1; rfl
          · split at hr1
            · split at hr1
              · cases hr1; rfl
              · cases hr1
            · split at hr1
              · cases hr1; rfl
              · split at hr1
                · cases hr1; rfl
                · cases hr1; rfl

theorem xt_groupStructure (m : Module) (r : List Report) (h : checkGroupStructure m.group = .ok r) :
    xrefTargets r = dangling (m.group.flatMap fun g => listSites g.subGroup m.groupNames) := by
  unfold checkGroupStructure at h
  cases hgl : groupLink m.group (groupInit m.group) with
  | mk gm rl =>
    rw [hgl] at h
    simp only at h
    cases hj : groupJudge gm m.group with
    | panic => simp [hj] at h
    | ok r' =>
      simp only [hj, Out.ok.injEq] at h
      subst h
      rw [xrefTargets_append, groupJudge_no_xref gm m.group r' hj, List.append_nil]
      have h2 : rl = (groupLink m.group (groupInit m.group)).2 := by rw [hgl]
      rw [h2, groupLink_reports]
      congr 1
      apply flatMap_congr'
      intro g
      cases hsg : g.subGroup with
      | none => simp [subGroupSites, listSites, hsg]
      | some l =>
        simp only [subGroupSites, listSites, hsg, Option.getD_some]
        apply List.map_congr_left
        intro t _
        simp only [nameSite, Site.mk.injEq, true_and]
        rw [groupInit_isSome]
        rfl

/-! ### the module -/

theorem checkModule_xrefTargets (m : Module) (r : List Report) (h : checkModule m = .ok r) :
    xrefTargets r = dangling (sitesOf m) := by
  unfold checkModule at h
  simp only [forEachOut_eq_flatMap _ _ _ (fun c _ => checkCharacteristic_eq c m m.objects),
    forEachOut_eq_flatMap _ _ _ (fun t _ => checkTypedefCharacteristic_eq t m m.objects)] at h
  cases hg : checkGroupStructure m.group with
  | panic => simp [hg] at h
  | ok rg =>
    simp only [hg, Out.ok.injEq] at h
    subst h
    simp only [xrefTargets_append, xrefTargets_flatMap, xt_axisPts, xt_typedefAxis, xt_characteristic,
      xt_typedefCharacteristic, xt_compuMethod, xt_function, xt_group, xt_measurement, xt_typedefMeasurement,
      xt_transformer, xt_instance, xt_typedefStructure, xt_groupStructure m rg hg]
    simp only [sitesOf, dangling_append, dangling_flatMap]

end A2l.Chk
