import A2lVerif.Lemmas.CheckerSpec
/-! `check_group_structure`: functional correctness of the `HashMap<String, GroupInfo>` bookkeeping. After the first two
    loops the map holds, for every group name, the ROOT flag of the (last) group of that name and the list of the
    groups that list it under SUB_GROUP — with multiplicity, in the order of the group list — and the third loop
    classifies every group by these two values alone. -/
namespace A2l.Chk

/-- the names of the groups that list `k` under SUB_GROUP, once per listing, in list order -/
def parentsOf (gs : List Group) (k : Name) : List Name :=
  gs.flatMap fun g => ((g.subGroup.getD []).filter (· == k)).map fun _ => g.name

/-- the ROOT flag the map holds for `k`: that of the last group of that name (`HashMap::insert` overwrites) -/
def rootOf (gs : List Group) (k : Name) : Option Bool := (gs.reverse.find? (·.name == k)).map (·.root)

/-- the third loop's verdict as a function of the ROOT flag and the parents -/
def groupVerdict (name : Name) (root : Bool) (parents : List Name) : List Report :=
  if root && decide (parents.length > 1) then [.groupStructure name (s "root-multi") parents]
  else if root && parents.length == 1 then [.groupStructure name (s "root-one") (parents.take 1)]
  else if !root && decide (parents.length > 1) then [.groupStructure name (s "multi") parents]
  else if !root && parents.isEmpty then [.groupStructure name (s "orphan") []]
  else []

/-- the verdict on group `g` of the list `gs` -/
def verdictFor (gs : List Group) (g : Group) : List Report :=
  match rootOf gs g.name with
  | some r => groupVerdict g.name r (parentsOf gs g.name)
  | none => []

/-! ### the map operations -/

theorem GMap.get_insert (gm : GMap) (k : Name) (v : GroupInfo) (k0 : Name) :
    (gm.insert k v).get k0 = if k == k0 then some v else gm.get k0 := by
  induction gm with
  | nil =>
    rw [show GMap.insert [] k v = [(k, v)] from rfl, GMap.get_cons]
  | cons e rest ih =>
    obtain ⟨k', v'⟩ := e
    simp only [GMap.insert]
    split
    · rename_i heq
      have hk : k' = k := by simpa using heq
      subst hk
      simp only [GMap.get_cons]
      by_cases h : (k' == k0) = true <;> simp [h]
    · rename_i hne
      simp only [GMap.get_cons, ih]
      by_cases h1 : (k' == k0) = true
      · have : (k == k0) = false := by
          have e1 : k' = k0 := by simpa using h1
          subst e1
          cases h : k == k' with
          | false => rfl
          | true =>
            have : k = k' := by simpa using h
            subst this
            simp at hne
        simp [h1, this]
      · simp [h1]

theorem GMap.get_pushParent (gm gm' : GMap) (k p : Name) (h : gm.pushParent k p = some gm') (k0 : Name) :
    gm'.get k0 = if k == k0 then (gm.get k0).map (fun gi => { gi with parents := gi.parents ++ [p] }) else gm.get k0 := by
  induction gm generalizing gm' with
  | nil => simp [GMap.pushParent] at h
  | cons e rest ih =>
    obtain ⟨k', v'⟩ := e
    simp only [GMap.pushParent] at h
    split at h
    · rename_i heq
      have hk : k' = k := by simpa using heq
      subst hk
      cases h
      simp only [GMap.get_cons]
      split <;> simp_all
    · rename_i hne
      cases hp : GMap.pushParent rest k p with
      | none => simp [hp] at h
      | some r =>
        simp only [hp, Option.map_some, Option.some.injEq] at h
        subst h
        simp only [GMap.get_cons, ih r hp]
        by_cases h1 : (k' == k0) = true
        · have e1 : k' = k0 := by simpa using h1
          subst e1
          have : (k == k') = false := by
            cases h : k == k' with
            | false => rfl
            | true =>
              have : k = k' := by simpa using h
              subst this
              simp at hne
          simp [this]
        · simp [h1]

theorem GMap.get_none_of_pushParent_none (gm : GMap) (k p : Name) (h : gm.pushParent k p = none) : gm.get k = none := by
  have := GMap.pushParent_isSome gm k p
  rw [h] at this
  cases hg : gm.get k with
  | none => rfl
  | some _ => simp [hg] at this

/-! ### first loop -/

theorem groupInit_get_aux (gs : List Group) (gm : GMap) (k : Name) :
    (gs.foldl (fun gm g => gm.insert g.name ⟨g.root, []⟩) gm).get k =
      match gs.reverse.find? (·.name == k) with
      | some g => some ⟨g.root, []⟩
      | none => gm.get k := by
  induction gs generalizing gm with
  | nil => rfl
  | cons g rest ih =>
    simp only [List.foldl_cons, ih, List.reverse_cons, List.find?_append]
    cases hr : rest.reverse.find? (·.name == k) with
    | some g' => rfl
    | none =>
      simp only [Option.none_or, List.find?_cons, List.find?_nil, GMap.get_insert]
      cases hg : g.name == k <;> rfl

theorem groupInit_get (gs : List Group) (k : Name) :
    (groupInit gs).get k = (rootOf gs k).map fun r => ⟨r, []⟩ := by
  unfold groupInit rootOf
  rw [groupInit_get_aux]
  cases gs.reverse.find? (·.name == k) <;> rfl

/-! ### second loop -/

theorem groupLinkOne_get (parent : Name) (l : List Name) (gm : GMap) (k : Name) :
    (groupLinkOne parent l gm).1.get k =
      (gm.get k).map fun gi => { gi with parents := gi.parents ++ (l.filter (· == k)).map fun _ => parent } := by
  induction l generalizing gm with
  | nil =>
    simp only [groupLinkOne, List.filter_nil, List.map_nil, List.append_nil]
    cases h : gm.get k <;> rfl
  | cons sg rest ih =>
    simp only [groupLinkOne]
    cases hp : gm.pushParent sg parent with
    | some gm' =>
      simp only
      rw [ih gm', GMap.get_pushParent gm gm' sg parent hp k]
      by_cases h1 : (sg == k) = true
      · simp only [h1, if_true, List.filter_cons]
        cases gm.get k with
        | none => rfl
        | some gi => simp [List.append_assoc]
      · simp only [h1, List.filter_cons]
        rfl
    | none =>
      simp only
      rw [ih gm]
      by_cases h1 : (sg == k) = true
      · have e1 : sg = k := by simpa using h1
        subst e1
        rw [GMap.get_none_of_pushParent_none gm sg parent hp]
        rfl
      · simp only [h1, List.filter_cons]
        rfl

theorem groupLink_get (gs : List Group) (gm : GMap) (k : Name) :
    (groupLink gs gm).1.get k = (gm.get k).map fun gi => { gi with parents := gi.parents ++ parentsOf gs k } := by
  induction gs generalizing gm with
  | nil =>
    simp only [groupLink, parentsOf, List.flatMap_nil, List.append_nil]
    cases h : gm.get k <;> rfl
  | cons g rest ih =>
    simp only [groupLink]
    cases hsg : g.subGroup with
    | none =>
      simp only
      rw [ih gm]
      simp [parentsOf, hsg]
    | some l =>
      simp only
      rw [ih, groupLinkOne_get]
      cases gm.get k with
      | none => rfl
      | some gi => simp [parentsOf, hsg, List.append_assoc]

/-- **the map after the first two loops** -/
theorem groupMap_get (gs : List Group) (k : Name) :
    (groupLink gs (groupInit gs)).1.get k = (rootOf gs k).map fun r => ⟨r, parentsOf gs k⟩ := by
  rw [groupLink_get, groupInit_get]
  cases rootOf gs k <;> simp

/-! ### third loop -/

theorem groupJudge_eq (gm : GMap) (gs : List Group) (f : Name → Option GroupInfo) (hf : ∀ k, gm.get k = f k)
    (hs : ∀ g ∈ gs, (f g.name).isSome) :
    groupJudge gm gs = .ok (gs.flatMap fun g =>
      match f g.name with
      | some gi => groupVerdict g.name gi.isRoot gi.parents
      | none => []) := by
  induction gs with
  | nil => rfl
  | cons g rest ih =>
    have hg := hs g (List.mem_cons_self ..)
    have ih' := ih fun g' hg' => hs g' (List.mem_cons_of_mem _ hg')
    cases hfg : f g.name with
    | none => simp [hfg] at hg
    | some gi =>
      obtain ⟨root, parents⟩ := gi
      cases root <;> rcases parents with _ | ⟨p, _ | ⟨q, r⟩⟩ <;>
        simp [groupJudge, hf, hfg, ih', groupVerdict]

theorem rootOf_isSome (gs : List Group) (g : Group) (hg : g ∈ gs) : (rootOf gs g.name).isSome := by
  unfold rootOf
  cases h : gs.reverse.find? (·.name == g.name) with
  | some _ => rfl
  | none =>
    have := List.find?_eq_none.1 h g (List.mem_reverse.2 hg)
    simp at this

/-- with pairwise different group names the flag the map holds for a group is the group's own -/
theorem rootOf_of_nodup (gs : List Group) (hnd : (gs.map (·.name)).Nodup) (g : Group) (hg : g ∈ gs) :
    rootOf gs g.name = some g.root := by
  unfold rootOf
  cases h : gs.reverse.find? (·.name == g.name) with
  | none =>
    have := List.find?_eq_none.1 h g (List.mem_reverse.2 hg)
    simp at this
  | some g' =>
    have hmem : g' ∈ gs := List.mem_reverse.1 (List.mem_of_find?_eq_some h)
    have hname : g'.name = g.name := by simpa using List.find?_some h
    -- two members of a list whose names are pairwise different and equal names: the same member
    have : g' = g := by
      clear h
      induction gs with
      | nil => cases hg
      | cons x xs ih =>
        simp only [List.map_cons, List.nodup_cons, List.mem_map, not_exists, not_and] at hnd
        rcases List.mem_cons.1 hg with rfl | hg2 <;> rcases List.mem_cons.1 hmem with rfl | hm2
        · rfl
        · exact absurd hname (hnd.1 g' hm2)
        · exact absurd hname.symm (hnd.1 g hg2)
        · exact ih hnd.2 hg2 hm2
    rw [this]
    rfl

/-- **`check_group_structure` in closed form** (any group list): the missing sub-groups, then one verdict per group from
    the ROOT flag held for its name and the groups that list it -/
theorem checkGroupStructure_eq (gs : List Group) :
    checkGroupStructure gs = .ok ((groupLink gs (groupInit gs)).2 ++ gs.flatMap (verdictFor gs)) := by
  unfold checkGroupStructure
  cases hgl : groupLink gs (groupInit gs) with
  | mk gm rl =>
    have hget : ∀ k, gm.get k = (rootOf gs k).map fun r => ⟨r, parentsOf gs k⟩ := by
      intro k
      have := groupMap_get gs k
      rw [hgl] at this
      exact this
    have hj := groupJudge_eq gm gs (fun k => (rootOf gs k).map fun r => ⟨r, parentsOf gs k⟩) hget
      (fun g hg => by
        have := rootOf_isSome gs g hg
        cases h : rootOf gs g.name with
        | none => simp [h] at this
        | some _ => rfl)
    simp only [hj]
    congr 2
    apply flatMap_congr'
    intro g
    unfold verdictFor
    cases rootOf gs g.name <;> rfl

end A2l.Chk
