import A2lVerif.Lemmas.IfDataVals
/-!
# IF_DATA, part H: the A2ML rules read declaratively (`Conf`), and: what the interpreter accepts conforms
-/
namespace A2l.IfData
open A2l.Tree A2l.Aml A2l.G A2l.Sc

/-- `get_identifier` accepts the text without a diagnostic: it does not start with a digit and is at most 1024 bytes -/
def TextClean (v : List Char) : Prop :=
  match v with
  | [] => False
  | c :: _ => ¬ (isAsciiDigit c || utf8Len v > 1024) = true

def IdentClean (t : PTok) : Prop := TextClean t.text

mutual
/-- **the A2ML rules, read declaratively**: the (comment-free) token list `l` is an instance of the definition `sp`.
    `strict = false` adds what the non-strict reader tolerates with a diagnostic. Sequences and tagged structs may
    have any number of elements: nothing here says "greedy". -/
inductive Conf (strict : Bool) (f32 : List Char → Option (List Char)) : Spec → List PTok → Prop where
  | none : Conf strict f32 .none []
  | int {w : Nat} {t : PTok} {r : Int × Bool} : t.ty = 5 → parseInt (intTyOf w) t.text = some r → Conf strict f32 (.int w) [t]
  | float {t : PTok} {txt : List Char} : t.ty = 5 → f32 t.text = some txt → Conf strict f32 .float [t]
  | double {t : PTok} {txt : List Char} : t.ty = 5 → t.fl = some txt → Conf strict f32 .double [t]
  /-- `char[n]`: a string of at most `n` bytes (longer: tolerated by the non-strict reader) -/
  | str {n : Nat} {t : PTok} {s : List Char} : t.ty = 4 → unescape (stripQuotes t.text) = .ok s →
      (strict = true → utf8Len s ≤ n) → Conf strict f32 (.array (.int 0) n) [t]
  /-- an identifier in place of the string: tolerated by the non-strict reader -/
  | strIdent {n : Nat} {t : PTok} : strict = false → t.ty = 0 → Conf strict f32 (.array (.int 0) n) [t]
  | array {of : Spec} {n : Nat} {l : List PTok} : of ≠ .int 0 → ConfRep strict f32 of n l →
      Conf strict f32 (.array of n) l
  | enum {items : List (List Char × Option Int)} {t : PTok} : t.ty = 0 → (lookupKV items t.text).isSome = true →
      (strict = true → IdentClean t) → Conf strict f32 (.enum items) [t]
  | struct {items : List Spec} {l : List PTok} : ConfAll strict f32 items l → Conf strict f32 (.struct items) l
  | seq {of : Spec} {l : List PTok} {n : Nat} : ConfRep strict f32 of n l → Conf strict f32 (.seq of) l
  /-- any number of tagged members; a member that is not defined as `("TAG" ...)*` occurs at most once -/
  | taggedStruct {items : List (Tagged Spec)} {l : List PTok} {tags : List (List Char)} :
      ConfTags strict f32 items l tags → TagsOk (repOf items) tags → Conf strict f32 (.taggedStruct items) l
  | taggedUnionNone {items : List (Tagged Spec)} : Conf strict f32 (.taggedUnion items) []
  | taggedUnion {items : List (Tagged Spec)} {l : List PTok} {tag : List Char} : ConfTag strict f32 items l tag →
      Conf strict f32 (.taggedUnion items) l
/-- the members of a struct, in order -/
inductive ConfAll (strict : Bool) (f32 : List Char → Option (List Char)) : List Spec → List PTok → Prop where
  | nil : ConfAll strict f32 [] []
  | cons {sp : Spec} {rest : List Spec} {l1 l2 : List PTok} : Conf strict f32 sp l1 → ConfAll strict f32 rest l2 →
      ConfAll strict f32 (sp :: rest) (l1 ++ l2)
/-- `n` instances of the same definition one after the other (array elements, sequence elements) -/
inductive ConfRep (strict : Bool) (f32 : List Char → Option (List Char)) : Spec → Nat → List PTok → Prop where
  | zero {sp : Spec} : ConfRep strict f32 sp 0 []
  | succ {sp : Spec} {n : Nat} {l1 l2 : List PTok} : Conf strict f32 sp l1 → ConfRep strict f32 sp n l2 →
      ConfRep strict f32 sp (n + 1) (l1 ++ l2)
/-- one tagged member: recognised by its tag and its block-ness; a block is closed by `/end TAG` -/
inductive ConfTag (strict : Bool) (f32 : List Char → Option (List Char)) :
    List (Tagged Spec) → List PTok → List Char → Prop where
  | kw {items : List (Tagged Spec)} {tg : Tagged Spec} {t : PTok} {body : List PTok} :
      lookupTagged items t.text = some tg → tg.isBlock = false → t.ty = 0 → Conf strict f32 tg.item body →
      ConfTag strict f32 items (t :: body) t.text
  | block {items : List (Tagged Spec)} {tg : Tagged Spec} {b t e t' : PTok} {body : List PTok} :
      lookupTagged items t.text = some tg → tg.isBlock = true → b.ty = 1 → t.ty = 0 → Conf strict f32 tg.item body →
      e.ty = 2 → t'.ty = 0 → t'.text = t.text → ConfTag strict f32 items (b :: t :: body ++ [e, t']) t.text
/-- any number of tagged members -/
inductive ConfTags (strict : Bool) (f32 : List Char → Option (List Char)) :
    List (Tagged Spec) → List PTok → List (List Char) → Prop where
  | nil {items : List (Tagged Spec)} : ConfTags strict f32 items [] []
  | cons {items : List (Tagged Spec)} {l1 l2 : List PTok} {tag : List Char} {tags : List (List Char)} :
      ConfTag strict f32 items l1 tag → ConfTags strict f32 items l2 tags →
      ConfTags strict f32 items (l1 ++ l2) (tag :: tags)
end

variable {e : Env}

/-- the interpreter went from `s` to `s'` and the non-comment tokens in between are an instance of `sp` -/
def CRel (e : Env) (f32 : List Char → Option (List Char)) (sp : Spec) (s s' : PState) : Prop :=
  s.pos ≤ s'.pos ∧ s'.pos ≤ e.toks.size ∧ Conf e.strict f32 sp (span e.toks s.pos s'.pos)

theorem rel_single_inv {f32 : List Char → Option (List Char)} {s s' : PState} {w : WV} (h : Rel e f32 s s' [w]) :
    ∃ t, span e.toks s.pos s'.pos = [t] ∧ agree e.strict f32 w t := by
  obtain ⟨b, l2, hl, ha, hrest⟩ := h.2.2.cons_inv
  rw [hrest.nil_inv] at hl
  exact ⟨b, hl, ha⟩

theorem getIdentifier_clean {ctx : Ctx} {s : PState} {v : List Char} {s' : PState}
    (h : getIdentifier ctx e s = .ok v s') : v ≠ [] ∧ (e.strict = true → TextClean v) := by
  unfold getIdentifier at h
  obtain ⟨t, s1, h1, h2⟩ := bind_ok h
  cases htext : t.text with
  | nil => rw [htext] at h2; cases h2
  | cons ch tl =>
    rw [htext] at h2
    dsimp only at h2
    split at h2
    · obtain ⟨u, s2, h3, h4⟩ := bind_ok h2
      obtain ⟨rfl, rfl⟩ := pure_ok h4
      refine ⟨by simp, fun hst => ?_⟩
      rw [(errorOrLog_ok h3).2] at hst; cases hst
    · rename_i hbad
      obtain ⟨rfl, rfl⟩ := pure_ok h2
      exact ⟨by simp, fun _ => hbad⟩

theorem rel_nil_inv {f32 : List Char → Option (List Char)} {s s' : PState} (h : Rel e f32 s s' []) :
    span e.toks s.pos s'.pos = [] := h.2.2.nil_inv

theorem rel_pair_inv {f32 : List Char → Option (List Char)} {s s' : PState} {w1 w2 : WV} (h : Rel e f32 s s' [w1, w2]) :
    ∃ t1 t2, span e.toks s.pos s'.pos = [t1, t2] ∧ agree e.strict f32 w1 t1 ∧ agree e.strict f32 w2 t2 := by
  obtain ⟨b, l2, hl, ha, hrest⟩ := h.2.2.cons_inv
  obtain ⟨b2, l3, hl2, ha2, hrest2⟩ := hrest.cons_inv
  rw [hrest2.nil_inv] at hl2
  rw [hl2] at hl
  exact ⟨b, b2, hl, ha, ha2⟩

def CP (e : Env) (f32 : List Char → Option (List Char)) (sp : Spec) (p : PM Gen) : Prop :=
  ∀ s g s', s.pos ≤ e.toks.size → p e s = .ok g s' → CRel e f32 sp s s'

def CD (e : Env) (f32 : List Char → Option (List Char)) (items : List (Tagged Spec))
    (d : List Char → Option (Bool × (Ctx → PM Gen))) : Prop :=
  ∀ tag b p, d tag = some (b, p) →
    ∃ tg, lookupTagged items tag = some tg ∧ tg.isBlock = b ∧ ∀ ctx, CP e f32 tg.item (p ctx)

/-- an element that matches the empty token list matches it any number of times (this is why the array loop may
    stop at the first element that consumes nothing: the remaining `dim - k` elements would all be empty too) -/
theorem confRep_nil {strict : Bool} {f32 : List Char → Option (List Char)} {sp : Spec} (h : Conf strict f32 sp []) :
    ∀ m, ConfRep strict f32 sp m []
  | 0 => .zero
  | m + 1 => ConfRep.succ (l1 := []) (l2 := []) h (confRep_nil h m)

theorem arrayLoop_conf {f32 : List Char → Option (List Char)} {of : Spec} {p : PM Gen} (hp : CP e f32 of p) :
    ∀ (n : Nat) (s : PState) (vs : List Gen) (s' : PState), s.pos ≤ e.toks.size → arrayLoop p n e s = .ok vs s' →
    s.pos ≤ s'.pos ∧ s'.pos ≤ e.toks.size ∧ ConfRep e.strict f32 of n (span e.toks s.pos s'.pos)
  | 0, s, vs, s', hs, h => by
    rw [arrayLoop] at h
    obtain ⟨rfl, rfl⟩ := pure_ok h
    rw [span_self]
    exact ⟨Nat.le_refl _, hs, .zero⟩
  | n + 1, s, vs, s', hs, h => by
    rw [arrayLoop] at h
    simp only [getTokenpos_bind] at h
    obtain ⟨v, s1, h1, h2⟩ := bind_ok h
    simp only [getTokenpos_bind] at h2
    have r1 := hp s v s1 hs h1
    split at h2
    · rename_i heq
      obtain ⟨rfl, rfl⟩ := pure_ok h2
      have hc := r1.2.2
      rw [heq, span_self] at hc ⊢
      exact ⟨Nat.le_refl _, hs, confRep_nil hc _⟩
    · obtain ⟨vs', s2, h3, h4⟩ := bind_ok h2
      obtain ⟨rfl, rfl⟩ := pure_ok h4
      have r2 := arrayLoop_conf hp n s1 vs' s2 r1.2.1 h3
      rw [span_append e.toks r1.1 r2.1]
      exact ⟨Nat.le_trans r1.1 r2.1, r2.2.1, .succ r1.2.2 r2.2.2⟩

theorem seqLoop_conf {f32 : List Char → Option (List Char)} {of : Spec} {p : PM Gen} (hp : CP e f32 of p) :
    ∀ (fuel : Nat) (acc : List Gen) (s : PState) (vs : List Gen) (s' : PState), s.pos ≤ e.toks.size →
    seqLoop p fuel acc e s = .ok vs s' →
    s.pos ≤ s'.pos ∧ s'.pos ≤ e.toks.size ∧ ∃ k, ConfRep e.strict f32 of k (span e.toks s.pos s'.pos)
  | 0, _, _, _, _, _, h => by cases h
  | fuel + 1, acc, s, vs, s', hs, h => by
    rw [seqLoop] at h
    simp only [getTokenpos_bind] at h
    have hstop : ∀ s1 : PState, ((do setTokenpos s.pos; pure acc.reverse : PM (List Gen)) e s1 = .ok vs s') →
        s.pos ≤ s'.pos ∧ s'.pos ≤ e.toks.size ∧ ∃ k, ConfRep e.strict f32 of k (span e.toks s.pos s'.pos) := by
      intro s1 h1
      simp only [setTokenpos_bind] at h1
      obtain ⟨rfl, rfl⟩ := pure_ok h1
      refine ⟨Nat.le_refl _, hs, 0, ?_⟩
      show ConfRep _ _ _ _ (span e.toks s.pos s.pos)
      rw [span_self]
      exact .zero
    rcases attempt_ok h with ⟨v, s1, h1, h2⟩ | ⟨d, s1, h1, h2⟩
    · simp only [getTokenpos_bind] at h2
      split at h2
      · exact hstop s1 h2
      · have r1 := hp s v s1 hs h1
        obtain ⟨hp1, hp2, k, hk⟩ := seqLoop_conf hp fuel (v :: acc) s1 vs s' r1.2.1 h2
        refine ⟨Nat.le_trans r1.1 hp1, hp2, k + 1, ?_⟩
        rw [span_append e.toks r1.1 hp1]
        exact .succ r1.2.2 hk
    · exact hstop s1 h2

theorem getStringMaxlen_len {ctx : Ctx} {n : Nat} {s : PState} {v : List Char} {s' : PState}
    (h : getStringMaxlen ctx n e s = .ok v s') : e.strict = true → utf8Len v ≤ n := by
  unfold getStringMaxlen at h
  obtain ⟨text, s1, h1, h2⟩ := bind_ok h
  dsimp only at h2
  split at h2
  · obtain ⟨u, s2, h3, h4⟩ := bind_ok h2
    intro hst
    rw [(errorOrLog_ok h3).2] at hst; cases hst
  · rename_i hlen
    obtain ⟨rfl, rfl⟩ := pure_ok h2
    intro _
    omega

/-- what `parse_ifdata_taggeditem` consumed, declaratively -/
def TIConf (e : Env) (f32 : List Char → Option (List Char)) (items : List (Tagged Spec)) (s : PState) :
    Option (TItem Gen) → PState → Prop
  | none, s' => s'.pos = s.pos
  | some it, s' => s.pos ≤ s'.pos ∧ s'.pos ≤ e.toks.size ∧ ConfTag e.strict f32 items (span e.toks s.pos s'.pos) it.tag

theorem taggedItem_conf {f32 : List Char → Option (List Char)} {items : List (Tagged Spec)}
    {d : List Char → Option (Bool × (Ctx → PM Gen))} (hd : CD e f32 items d) {ctx : Ctx} {s : PState}
    {r : Option (TItem Gen)} {s' : PState} (hs : s.pos ≤ e.toks.size) (h : taggedItem d ctx e s = .ok r s') :
    TIConf e f32 items s r s' := by
  unfold taggedItem at h
  simp only [getTokenpos_bind, getEnv_bind] at h
  obtain ⟨u, s1, h1, h2⟩ := bind_ok h
  have r0 := skipComments_ok f32 ctx _ s u s1 h1 hs
  have hreset : ∀ s2 : PState, ((do setTokenpos s.pos; pure (none : Option (TItem Gen)) : PM _) e s2 = .ok r s') →
      TIConf e f32 items s r s' := by
    intro s2 h3
    simp only [setTokenpos_bind] at h3
    obtain ⟨rfl, rfl⟩ := pure_ok h3
    rfl
  rcases attempt_ok h2 with ⟨bc, s2, h3, h4⟩ | ⟨d', s2, h3, h4⟩
  · have hnt := getNextTagOrComment_ok f32 h3
    cases bc with
    | comment tok off => exact hreset s2 h4
    | none => exact hreset s2 h4
    | block tok isBlock startOff =>
      dsimp only at h4
      cases hdt : d tok.text with
      | none => rw [hdt] at h4; exact hreset s2 h4
      | some bp =>
        obtain ⟨b, p⟩ := bp
        rw [hdt] at h4
        dsimp only at h4
        split at h4
        · exact hreset s2 h4
        · rename_i hb
          simp only [getNextId_bind] at h4
          obtain ⟨data, s3, h5, h6⟩ := bind_ok h4
          obtain ⟨endOff, s4, h7, h8⟩ := bind_ok h6
          obtain ⟨rfl, rfl⟩ := pure_ok h8
          obtain ⟨tg, hlk, hblk, hcp⟩ := hd _ _ _ hdt
          have r1 : Rel e f32 s1 s2 ((if isBlock then [.begin_] else []) ++ [.ident tok.text]) := hnt
          have r2 := hcp _ { s2 with seqId := s2.seqId + 1 } data s3 r1.2.1 h5
          have r2p : s2.pos ≤ s3.pos := r2.1
          have r3 := endOfTagged_ok f32 h7 r2.2.1
          have hb' : b = isBlock := by
            cases b <;> cases isBlock <;> simp_all
          have hspan : span e.toks s.pos s4.pos =
              span e.toks s1.pos s2.pos ++ span e.toks s2.pos s3.pos ++ span e.toks s3.pos s4.pos := by
            rw [span_append e.toks r0.1 (Nat.le_trans r1.1 (Nat.le_trans r2p r3.1)), rel_nil_inv r0, List.nil_append,
              span_append e.toks r1.1 (Nat.le_trans r2p r3.1), span_append e.toks r2p r3.1, List.append_assoc]
          refine ⟨Nat.le_trans r0.1 (Nat.le_trans r1.1 (Nat.le_trans r2p r3.1)), r3.2.1, ?_⟩
          rw [hspan]
          show ConfTag _ _ _ _ tok.text
          cases isBlock with
          | false =>
            rw [if_neg (by simp)] at r1 r3
            obtain ⟨t, ht, hat⟩ := rel_single_inv r1
            rw [ht, rel_nil_inv r3, List.append_nil]
            rw [← hat.2]
            refine .kw (tg := tg) (by rw [hat.2]; exact hlk) (by rw [hblk, hb']) hat.1 r2.2.2
          | true =>
            rw [if_pos rfl] at r1 r3
            obtain ⟨b1, t, ht, hab, hat⟩ := rel_pair_inv r1
            obtain ⟨e1, t', ht', hae, hat'⟩ := rel_pair_inv r3
            rw [ht, ht', ← hat.2]
            exact .block (tg := tg) (by rw [hat.2]; exact hlk) (by rw [hblk, hb']) hab hat.1 r2.2.2 hae hat'.1
              (by rw [hat'.2, hat.2])
  · exact hreset s2 h4

theorem tsLoop_conf {f32 : List Char → Option (List Char)} {items : List (Tagged Spec)}
    {d : List Char → Option (Bool × (Ctx → PM Gen))} (hd : CD e f32 items d) (rep : List Char → Bool) (ctx : Ctx) :
    ∀ (fuel : Nat) (acc : List (TItem Gen)) (s : PState) (vs : List (TItem Gen)) (s' : PState), s.pos ≤ e.toks.size →
    tsLoop d rep ctx fuel acc e s = .ok vs s' →
    s.pos ≤ s'.pos ∧ s'.pos ≤ e.toks.size ∧
      ∃ tags, ConfTags e.strict f32 items (span e.toks s.pos s'.pos) tags ∧
        vs.map (·.tag) = acc.reverse.map (·.tag) ++ tags
  | 0, _, _, _, _, _, h => by cases h
  | fuel + 1, acc, s, vs, s', hs, h => by
    rw [tsLoop] at h
    obtain ⟨r, s1, h1, h2⟩ := bind_ok h
    have hr := taggedItem_conf hd hs h1
    cases r with
    | none =>
      obtain ⟨rfl, rfl⟩ := pure_ok h2
      have hp : s1.pos = s.pos := hr
      rw [hp, span_self]
      exact ⟨Nat.le_refl _, hs, [], .nil, by simp⟩
    | some it =>
      dsimp only at h2
      split at h2
      · cases h2
      obtain ⟨hp1, hp2, hc⟩ : s.pos ≤ s1.pos ∧ s1.pos ≤ e.toks.size ∧
        ConfTag e.strict f32 items (span e.toks s.pos s1.pos) it.tag := hr
      obtain ⟨hq1, hq2, tags, hcs, htags⟩ := tsLoop_conf hd rep ctx fuel (it :: acc) s1 vs s' hp2 h2
      rw [span_append e.toks hp1 hq1]
      exact ⟨Nat.le_trans hp1 hq1, hq2, it.tag :: tags, .cons hc hcs, by simp [htags]⟩

theorem scalar_conf {α} {f32 : List Char → Option (List Char)} {sp : Spec} {m : PM α} {g : α → Nat → Gen}
    {s : PState} {r : Gen} {s' : PState}
    (hm : ∀ v s1, m e s = .ok v s1 → CRel e f32 sp s s1)
    (h : (m >>= fun v => getLineOffset >>= fun off => pure (g v off)) e s = .ok r s') : CRel e f32 sp s s' := by
  obtain ⟨v, s1, h1, h2⟩ := bind_ok h
  obtain ⟨off, h2⟩ := lineOffset_ok h2
  obtain ⟨rfl, rfl⟩ := pure_ok h2
  exact hm v s1 h1

mutual
theorem itemP_conf (f32 : List Char → Option (List Char)) : ∀ (sp : Spec) (ctx : Ctx), CP e f32 sp (itemP f32 sp ctx)
  | .none, ctx => by
    intro s g s' hs h
    rw [itemP] at h
    obtain ⟨rfl, rfl⟩ := pure_ok h
    refine ⟨Nat.le_refl _, hs, ?_⟩
    rw [span_self]; exact .none
  | .int w, ctx => by
    intro s g s' hs h
    rw [itemP] at h
    obtain ⟨⟨v, hex⟩, s1, h1, h2⟩ := bind_ok h
    obtain ⟨off, h2⟩ := lineOffset_ok h2
    obtain ⟨rfl, rfl⟩ := pure_ok h2
    have r := getInteger_ok f32 h1
    obtain ⟨t, ht, hat⟩ := rel_single_inv r
    refine ⟨r.1, r.2.1, ?_⟩
    rw [ht]; exact .int hat.1 hat.2
  | .float, ctx => by
    intro s g s' hs h
    rw [itemP] at h
    refine scalar_conf (fun v s1 h1 => ?_) h
    have r := getFloat_ok f32 h1
    obtain ⟨t, ht, hat⟩ := rel_single_inv r
    refine ⟨r.1, r.2.1, ?_⟩
    rw [ht]; exact .float hat.1 hat.2
  | .double, ctx => by
    intro s g s' hs h
    rw [itemP] at h
    refine scalar_conf (fun v s1 h1 => ?_) h
    have r := getDouble_ok f32 h1
    obtain ⟨t, ht, hat⟩ := rel_single_inv r
    refine ⟨r.1, r.2.1, ?_⟩
    rw [ht]; exact .double hat.1 hat.2
  | .array of dim, ctx => by
    intro s g s' hs h
    rw [itemP.eq_def] at h
    dsimp only at h
    split at h
    · refine scalar_conf (fun v s1 h1 => ?_) h
      have r := getStringMaxlen_ok f32 h1
      have hlen := getStringMaxlen_len h1
      obtain ⟨t, ht, hat⟩ := rel_single_inv r
      refine ⟨r.1, r.2.1, ?_⟩
      rw [ht]
      rcases hat with ⟨h4, hu⟩ | ⟨hst, h0, _⟩
      · exact .str h4 hu hlen
      · exact .strIdent hst h0
    · rename_i hne
      obtain ⟨vs, s1, h1, h2⟩ := bind_ok h
      obtain ⟨rfl, rfl⟩ := pure_ok h2
      obtain ⟨hp1, hp2, hc⟩ := arrayLoop_conf (itemP_conf f32 of ctx) dim s vs s1 hs h1
      exact ⟨hp1, hp2, .array (fun heq => hne (by rw [heq])) hc⟩
  | .enum items, ctx => by
    intro s g s' hs h
    rw [itemP] at h
    obtain ⟨v, s1, h1, h2⟩ := bind_ok h
    obtain ⟨off, h2⟩ := lineOffset_ok h2
    split at h2
    · rename_i hsome
      obtain ⟨rfl, rfl⟩ := pure_ok h2
      have r := getIdentifier_ok f32 h1
      have hcl := getIdentifier_clean h1
      obtain ⟨t, ht, hat⟩ := rel_single_inv r
      refine ⟨r.1, r.2.1, ?_⟩
      rw [ht]
      refine .enum hat.1 (by rw [hat.2]; exact hsome) (fun hst => ?_)
      unfold IdentClean; rw [hat.2]; exact hcl.2 hst
    · cases h2
  | .struct items, ctx => by
    intro s g s' hs h
    rw [itemP] at h
    obtain ⟨vs, s1, h1, h2⟩ := bind_ok h
    obtain ⟨rfl, rfl⟩ := pure_ok h2
    obtain ⟨hp1, hp2, hc⟩ := itemsP_conf f32 items ctx s vs s1 hs h1
    exact ⟨hp1, hp2, .struct hc⟩
  | .seq of, ctx => by
    intro s g s' hs h
    rw [itemP] at h
    simp only [getEnv_bind] at h
    obtain ⟨vs, s1, h1, h2⟩ := bind_ok h
    obtain ⟨rfl, rfl⟩ := pure_ok h2
    obtain ⟨hp1, hp2, k, hc⟩ := seqLoop_conf (itemP_conf f32 of ctx) _ [] s vs s1 hs h1
    exact ⟨hp1, hp2, .seq hc⟩
  | .taggedStruct items, ctx => by
    intro s g s' hs h
    rw [itemP] at h
    simp only [getEnv_bind] at h
    obtain ⟨vs, s1, h1, h2⟩ := bind_ok h
    obtain ⟨rfl, rfl⟩ := pure_ok h2
    obtain ⟨hp1, hp2, tags, hc, htags⟩ := tsLoop_conf (dispatch_conf f32 items) _ ctx _ [] s vs s1 hs h1
    have hok := tsLoop_tagsOk (repOf items) ctx _ [] s vs s1 h1 List.Pairwise.nil
    rw [htags] at hok
    exact ⟨hp1, hp2, .taggedStruct hc (by simpa using hok)⟩
  | .taggedUnion items, ctx => by
    intro s g s' hs h
    rw [itemP] at h
    obtain ⟨r, s1, h1, h2⟩ := bind_ok h
    have hr := taggedItem_conf (dispatch_conf f32 items) hs h1
    cases r with
    | none =>
      obtain ⟨rfl, rfl⟩ := pure_ok h2
      have hp : s1.pos = s.pos := hr
      refine ⟨by omega, by omega, ?_⟩
      rw [hp, span_self]; exact .taggedUnionNone
    | some it =>
      obtain ⟨rfl, rfl⟩ := pure_ok h2
      obtain ⟨hp1, hp2, hc⟩ : s.pos ≤ s1.pos ∧ s1.pos ≤ e.toks.size ∧
        ConfTag e.strict f32 items (span e.toks s.pos s1.pos) it.tag := hr
      exact ⟨hp1, hp2, .taggedUnion hc⟩

theorem itemsP_conf (f32 : List Char → Option (List Char)) : ∀ (l : List Spec) (ctx : Ctx) (s : PState) (vs : List Gen)
    (s' : PState), s.pos ≤ e.toks.size → itemsP f32 l ctx e s = .ok vs s' →
    s.pos ≤ s'.pos ∧ s'.pos ≤ e.toks.size ∧ ConfAll e.strict f32 l (span e.toks s.pos s'.pos)
  | [], ctx, s, vs, s', hs, h => by
    rw [itemsP] at h
    obtain ⟨rfl, rfl⟩ := pure_ok h
    rw [span_self]
    exact ⟨Nat.le_refl _, hs, .nil⟩
  | sp :: rest, ctx, s, vs, s', hs, h => by
    rw [itemsP] at h
    obtain ⟨v, s1, h1, h2⟩ := bind_ok h
    obtain ⟨vs', s2, h3, h4⟩ := bind_ok h2
    obtain ⟨rfl, rfl⟩ := pure_ok h4
    have r1 := itemP_conf f32 sp ctx s v s1 hs h1
    obtain ⟨hq1, hq2, hc⟩ := itemsP_conf f32 rest ctx s1 vs' s2 r1.2.1 h3
    rw [span_append e.toks r1.1 hq1]
    exact ⟨Nat.le_trans r1.1 hq1, hq2, .cons r1.2.2 hc⟩

theorem dispatch_conf (f32 : List Char → Option (List Char)) : ∀ (l : List (Tagged Spec)), CD e f32 l (dispatch f32 l)
  | [] => by
    intro tag b p h; rw [dispatch] at h; cases h
  | t :: rest => by
    intro tag b p h
    rw [dispatch] at h
    split at h
    · rename_i heq
      cases h
      refine ⟨t, ?_, rfl, fun ctx => itemP_conf f32 t.item ctx⟩
      unfold lookupTagged
      rw [List.find?_cons_of_pos (by simpa using heq)]
    · rename_i hne
      obtain ⟨tg, hlk, hb, hcp⟩ := dispatch_conf f32 rest tag b p h
      refine ⟨tg, ?_, hb, hcp⟩
      unfold lookupTagged at hlk ⊢
      rw [List.find?_cons_of_neg (by simpa using hne)]
      exact hlk
end

theorem fromSpec_conf {f32 : List Char → Option (List Char)} {ctx : Ctx} {sp : Spec} {s : PState} {g : Gen}
    {s' : PState} (hs : s.pos ≤ e.toks.size) (h : fromSpec f32 ctx sp e s = .ok (some g) s') : CRel e f32 sp s s' := by
  unfold fromSpec at h
  simp only [getTokenpos_bind] at h
  have hreset : ∀ s1 : PState, ((do setTokenpos s.pos; pure (none : Option Gen) : PM _) e s1 = .ok (some g) s') →
      False := by
    intro s1 h1
    simp only [setTokenpos_bind] at h1
    cases h1
  rcases attempt_ok h with ⟨g0, s1, h1, h2⟩ | ⟨d, s1, h1, h2⟩
  · dsimp only at h2
    simp only [getEnv_bind] at h2
    obtain ⟨u, s2, h3, h4⟩ := bind_ok h2
    have r1 := itemP_conf f32 sp ctx s g0 s1 hs h1
    have r2 := skipComments_ok f32 ctx _ s1 u s2 h3 r1.2.1
    simp only [peekToken_bind] at h4
    cases ht : e.toks[s2.pos]? with
    | none => rw [ht] at h4; exact (hreset s2 h4).elim
    | some t =>
      rw [ht] at h4
      dsimp only at h4
      split at h4
      · obtain ⟨_, rfl⟩ := pure_ok h4
        refine ⟨Nat.le_trans r1.1 r2.1, r2.2.1, ?_⟩
        rw [span_append e.toks r1.1 r2.1, rel_nil_inv r2, List.append_nil]
        exact r1.2.2
      · exact (hreset s2 h4).elim
  · exact (hreset s1 h2).elim

theorem trySpecs_conf {f32 : List Char → Option (List Char)} {ctx : Ctx} : ∀ (specs : List Spec) (s : PState)
    (g : Gen) (s' : PState), s.pos ≤ e.toks.size → trySpecs f32 ctx specs e s = .ok (some g) s' →
    ∃ sp ∈ specs, CRel e f32 sp s s'
  | [], s, g, s', _, h => by
    rw [trySpecs] at h
    cases h
  | sp :: rest, s, g, s', hs, h => by
    rw [trySpecs] at h
    obtain ⟨r1, s1, h1, h2⟩ := bind_ok h
    cases r1 with
    | some g1 =>
      obtain ⟨hg, rfl⟩ := pure_ok h2
      cases hg
      exact ⟨sp, List.mem_cons_self .., fromSpec_conf hs h1⟩
    | none =>
      dsimp only at h2
      have hp : s1.pos = s.pos := fromSpec_ok (f32 := f32) hs h1
      obtain ⟨sp', hm, hc⟩ := trySpecs_conf rest s1 g s' (by omega) h2
      refine ⟨sp', List.mem_cons_of_mem _ hm, ?_⟩
      unfold CRel at hc ⊢
      rw [← hp]; exact hc

/-- **what `parse_ifdata` flags as valid conforms to one of the applicable definitions** -/
theorem valid_conforms {f32 : List Char → Option (List Char)} {specs : List Spec} {ctx : Ctx} {s : PState}
    {r : Option Gen} {s' : PState} (h : parseIfdata f32 specs ctx e s = .ok (r, true) s') :
    ∃ sp ∈ specs, Conf e.strict f32 sp (span e.toks s.pos s'.pos) := by
  unfold parseIfdata at h
  simp only [peekToken_bind] at h
  cases ht : e.toks[s.pos]? with
  | none => rw [ht] at h; cases h
  | some t =>
    have hlt := lt_of_getElem?_some ht
    rw [ht] at h
    dsimp only at h
    split at h
    · obtain ⟨r1, s1, h1, h2⟩ := bind_ok h
      cases r1 with
      | some g =>
        cases h2
        obtain ⟨sp, hm, hc⟩ := trySpecs_conf specs s g s' (Nat.le_of_lt hlt) h1
        exact ⟨sp, hm, hc.2.2⟩
      | none =>
        dsimp only at h2
        obtain ⟨g, s2, h3, h4⟩ := bind_ok h2
        cases h4
    · cases h

end A2l.IfData
