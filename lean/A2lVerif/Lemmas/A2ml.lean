import A2lVerif.Model.A2ml
/-!
# helper lemmas for the A2ML definition parser (Model/A2ml.lean): the recursion budgets are sufficient

`tokAux` consumes at least one character per iteration; the parser functions are ranked so that
`4 * (tokens left) + rank ≤ fuel` is preserved by every call (at most four calls happen between two consumed tokens).
-/
namespace A2l.Aml

/-! ## tokenizer -/

theorem skipBlock_length : ∀ (cs r : List Char), skipBlock cs = some r → r.length < cs.length
  | [], r, h => by simp [skipBlock] at h
  | [c], r, h => by simp [skipBlock] at h
  | c :: d :: rest, r, h => by
    rw [skipBlock] at h
    split at h
    · cases h; simp only [List.length_cons]; omega
    · have := skipBlock_length (d :: rest) r h
      simp only [List.length_cons] at *; omega

theorem skipLine_length : ∀ (cs : List Char), (skipLine cs).length ≤ cs.length
  | [] => by simp [skipLine]
  | c :: rest => by
    rw [skipLine]
    split
    · simp
    · have := skipLine_length rest
      simp only [List.length_cons]; omega

theorem takeTag_length : ∀ (cs t r : List Char), takeTag cs = some (t, r) → r.length < cs.length
  | [], t, r, h => by simp [takeTag] at h
  | c :: rest, t, r, h => by
    rw [takeTag] at h
    split at h
    · cases h; simp
    · split at h
      · rename_i t' r' heq
        cases h
        have := takeTag_length rest t' r heq
        simp only [List.length_cons]; omega
      · cases h

theorem spanWord_length : ∀ (cs : List Char), (spanWord cs).2.length ≤ cs.length
  | [] => by simp [spanWord]
  | c :: rest => by
    rw [spanWord]
    split
    · have := spanWord_length rest
      simp only [List.length_cons]
      omega
    · simp

theorem tokAux_ne_fuel : ∀ (fuel : Nat) (cs : List Char) (acc : List ATok),
    cs.length < fuel → tokAux fuel cs acc ≠ .fuel
  | 0, _, _, h => by omega
  | fuel + 1, [], acc, _ => by simp [tokAux]
  | fuel + 1, c :: rest, acc, h => by
    have hlen : rest.length < fuel := by simp only [List.length_cons] at h; omega
    rw [tokAux]
    split
    · exact tokAux_ne_fuel fuel rest acc hlen
    · split
      · split
        · intro h'; cases h'
        · rename_i r heq
          have h1 := skipBlock_length _ _ heq
          have h2 : (rest.drop 1).length ≤ rest.length := by simp
          exact tokAux_ne_fuel fuel r acc (by omega)
      · split
        · exact tokAux_ne_fuel fuel _ acc (by have := skipLine_length rest; omega)
        · split
          · intro h'; cases h'
          · split
            · split
              · intro h'; cases h'
              · rename_i t r heq
                have := takeTag_length _ _ _ heq
                exact tokAux_ne_fuel fuel r _ (by omega)
            · split
              · exact tokAux_ne_fuel fuel rest _ hlen
              · split
                · have hs := spanWord_length rest
                  generalize spanWord rest = wr at hs ⊢
                  obtain ⟨w, r⟩ := wr
                  dsimp only at hs ⊢
                  split
                  · exact tokAux_ne_fuel fuel r _ (by omega)
                  · intro h'; cases h'
                · split
                  · have hs := spanWord_length rest
                    generalize spanWord rest = wr at hs ⊢
                    obtain ⟨w, r⟩ := wr
                    dsimp only at hs ⊢
                    exact tokAux_ne_fuel fuel r _ (by omega)
                  · intro h'; cases h'

theorem tokenize_ne_fuel (cs : List Char) : tokenize cs ≠ .fuel :=
  tokAux_ne_fuel _ cs [] (Nat.lt_succ_self _)

/-! ## parser -/

def OkLe {α} (r : R α) (n : Nat) : Prop := r ≠ .fuel ∧ ∀ a rest, r = .ok a rest → rest.length ≤ n
def OkLt {α} (r : R α) (n : Nat) : Prop := r ≠ .fuel ∧ ∀ a rest, r = .ok a rest → rest.length < n

theorem OkLt.err {α} (n : Nat) : OkLt (R.err : R α) n := ⟨fun h => (by cases h), fun _ _ h => (by cases h)⟩
theorem OkLe.err {α} (n : Nat) : OkLe (R.err : R α) n := ⟨fun h => (by cases h), fun _ _ h => (by cases h)⟩
theorem OkLt.ok {α} {n : Nat} {a : α} {rest : List ATok} (h : rest.length < n) : OkLt (R.ok a rest) n :=
  ⟨fun h => (by cases h), fun _ _ h' => (by cases h'; exact h)⟩
theorem OkLe.ok {α} {n : Nat} {a : α} {rest : List ATok} (h : rest.length ≤ n) : OkLe (R.ok a rest) n :=
  ⟨fun h => (by cases h), fun _ _ h' => (by cases h'; exact h)⟩

theorem arrayDims_le : ∀ (n : Nat) (depth levels : Nat) (base : Spec) (toks : List ATok), toks.length ≤ n →
    OkLe (arrayDims depth levels base toks) toks.length
  | 0, depth, levels, base, toks, h => by
    have : toks = [] := List.eq_nil_of_length_eq_zero (by omega)
    subst this
    rw [arrayDims]
    · exact OkLe.ok (Nat.le_refl _)
    · intro rest h; cases h
  | n + 1, depth, levels, base, toks, h => by
    unfold arrayDims
    split
    · rename_i rest
      split
      · split
        · rename_i c rest'
          split
          · rename_i rest''
            have := arrayDims_le n depth (levels + 1) (.array base (dimOf c)) rest''
              (by simp only [List.length_cons] at h; omega)
            refine ⟨this.1, ?_⟩
            intro a r hr
            have := this.2 a r hr
            simp only [List.length_cons]; omega
          · exact OkLe.err _
        · exact OkLe.err _
      · exact OkLe.err _
    · exact OkLe.ok (Nat.le_refl _)

theorem enumLoop_lt : ∀ (n : Nat) (acc : List (List Char × Option Int)) (toks : List ATok), toks.length ≤ n →
    OkLt (enumLoop acc toks) toks.length
  | 0, acc, toks, h => by
    have : toks = [] := List.eq_nil_of_length_eq_zero (by omega)
    subst this
    rw [enumLoop]
    · exact OkLt.err _
    · intro t rest h; cases h
  | n + 1, acc, toks, h => by
    unfold enumLoop
    split
    · rename_i t rest
      simp only [List.length_cons] at h ⊢
      split
      · split
        · split
          · rename_i rest3
            rename_i c rest2
            have := enumLoop_lt n (insertKV t (some c) acc) rest3 (by simp only [List.length_cons] at h; omega)
            refine ⟨this.1, ?_⟩
            intro a r hr
            have := this.2 a r hr
            simp only [List.length_cons]; omega
          · exact OkLt.ok (by simp only [List.length_cons]; omega)
          · exact OkLt.err _
        · exact OkLt.err _
      · rename_i rest1
        have := enumLoop_lt n (insertKV t none acc) rest1 (by simp only [List.length_cons] at h; omega)
        refine ⟨this.1, ?_⟩
        intro a r hr
        have := this.2 a r hr
        simp only [List.length_cons]; omega
      · exact OkLt.ok (by simp only [List.length_cons]; omega)
      · exact OkLt.err _
    · exact OkLt.err _

theorem optionalName_le (toks : List ATok) : (optionalName toks).2.length ≤ toks.length := by
  unfold optionalName
  split
  · simp
  · simp

theorem typeEnum_le (types : TypeSet) (toks : List ATok) : OkLe (typeEnum types toks) toks.length := by
  unfold typeEnum
  have hn := optionalName_le toks
  generalize optionalName toks = nt at hn ⊢
  obtain ⟨name, toks'⟩ := nt
  dsimp only at hn ⊢
  split
  · rename_i rest
    have := enumLoop_lt rest.length [] rest (Nat.le_refl _)
    split
    · rename_i items rest' heq
      have := this.2 _ _ heq
      exact OkLe.ok (by simp only [List.length_cons] at hn; omega)
    · exact OkLe.err _
    · rename_i heq; exact absurd heq this.1
  · split
    · split
      · exact OkLe.ok hn
      · exact OkLe.err _
    · exact OkLe.err _

def PType (f : Nat) : Prop := ∀ types d tok toks, 4 * toks.length + 4 ≤ f → OkLe (type_ f types d tok toks) toks.length
def PSLoop (f : Nat) : Prop := ∀ types d acc toks, 4 * toks.length + 3 ≤ f → OkLt (structLoop f types d acc toks) toks.length
def PTLoop (f : Nat) : Prop := ∀ types d ar acc toks, 4 * toks.length + 4 ≤ f → OkLt (taggedLoop f types d ar acc toks) toks.length
def PTMem (f : Nat) : Prop := ∀ types d ar toks, 4 * toks.length + 3 ≤ f → OkLt (taggedMember f types d ar toks) toks.length
def PTDef (f : Nat) : Prop := ∀ types d toks, 4 * toks.length + 2 ≤ f → OkLt (taggedDef f types d toks) toks.length
def PMem (f : Nat) : Prop := ∀ types d toks, 4 * toks.length + 1 ≤ f → OkLt (member f types d toks) toks.length

theorem member_step (f : Nat) (ih : PType f) : PMem (f + 1) := by
  intro types d toks h
  rw [member.eq_def]
  dsimp only
  split
  · exact OkLt.err _
  · rename_i tok rest
    simp only [List.length_cons] at h ⊢
    have h1 := ih types d tok rest (by omega)
    split
    · rename_i nm base rest1 heq
      have h2 := h1.2 _ _ heq
      have h3 := arrayDims_le rest1.length d (specDepth base) base rest1 (Nat.le_refl _)
      refine ⟨h3.1, ?_⟩
      intro a r hr
      have := h3.2 a r hr
      omega
    · exact OkLt.err _
    · rename_i heq; exact absurd heq h1.1

theorem taggedDef_step (f : Nat) (ih : PMem f) : PTDef (f + 1) := by
  intro types d toks h
  rw [taggedDef.eq_def]
  dsimp only
  split
  · rename_i rest
    simp only [List.length_cons] at h ⊢
    have h1 := ih types (d + 1) rest (by omega)
    split
    · rename_i m rest1 heq
      have h2 := h1.2 _ _ heq
      split
      · split
        · exact OkLt.ok (by simp only [List.length_cons] at h2; omega)
        · exact OkLt.err _
      · exact OkLt.err _
    · exact OkLt.err _
    · rename_i heq; exact absurd heq h1.1
  · exact ih types d toks (by omega)

theorem skipIf_le (b : Bool) (tok : ATok) (rest : List ATok) (r : Bool) (tok' : ATok) (rest' : List ATok)
    (h : skipIf b tok rest = some (r, tok', rest')) : rest'.length ≤ rest.length := by
  unfold skipIf at h
  split at h
  · split at h
    · cases h
    · cases h; simp
  · cases h; exact Nat.le_refl _

theorem tagClose_le (rep : Bool) (t : Tagged Spec) (rest : List ATok) : OkLe (tagClose rep t rest) rest.length := by
  unfold tagClose
  split
  · split
    · split
      · exact OkLe.ok (by simp only [List.length_cons]; omega)
      · exact OkLe.err _
    · exact OkLe.err _
  · exact OkLe.ok (Nat.le_refl _)

theorem taggedMember_step (f : Nat) (ih : PTDef f) : PTMem (f + 1) := by
  intro types d ar toks h
  rw [taggedMember.eq_def]
  dsimp only
  split
  · exact OkLt.err _
  · rename_i tok rest
    simp only [List.length_cons] at h ⊢
    split
    · exact OkLt.err _
    · rename_i rep tok1 rest1 hs1
      have l1 := skipIf_le _ _ _ _ _ _ hs1
      split
      · exact OkLt.err _
      · rename_i isB tok2 rest2 hs2
        have l2 := skipIf_le _ _ _ _ _ _ hs2
        split
        · rename_i tg
          have hinner : OkLe (tagInner (taggedDef f types d) rest2) rest2.length := by
            unfold tagInner
            split
            · exact OkLe.ok (Nat.le_refl _)
            · exact OkLe.ok (Nat.le_refl _)
            · have := ih types d rest2 (by omega)
              exact ⟨this.1, fun a r hr => Nat.le_of_lt (this.2 a r hr)⟩
          split
          · rename_i item rest3 heq
            have l3 := hinner.2 _ _ heq
            have := tagClose_le rep ⟨tg, item, isB, rep⟩ rest3
            exact ⟨this.1, fun a r hr => by have := this.2 a r hr; omega⟩
          · exact OkLt.err _
          · rename_i heq; exact absurd heq hinner.1
        · exact OkLt.err _

theorem taggedLoop_step (f : Nat) (ih1 : PTMem f) (ih2 : PTLoop f) : PTLoop (f + 1) := by
  intro types d ar acc toks h
  rw [taggedLoop.eq_def]
  dsimp only
  have h1 := ih1 types d ar toks (by omega)
  split
  · rename_i m rest heq
    have l1 := h1.2 _ _ heq
    split
    · rename_i rest1
      simp only [List.length_cons] at l1
      split
      · exact OkLt.ok (by simp only [List.length_cons] at l1; omega)
      · have := ih2 types d ar (insertTagged m acc) rest1 (by omega)
        exact ⟨this.1, fun a r hr => by have := this.2 a r hr; omega⟩
    · exact OkLt.err _
  · exact OkLt.err _
  · rename_i heq; exact absurd heq h1.1

theorem structLoop_step (f : Nat) (ih1 : PMem f) (ih2 : PSLoop f) : PSLoop (f + 1) := by
  intro types d acc toks h
  rw [structLoop.eq_def]
  dsimp only
  have h1 := ih1 types d toks (by omega)
  split
  · rename_i m rest heq
    have l1 := h1.2 _ _ heq
    split
    · rename_i rest1
      simp only [List.length_cons] at l1
      split
      · exact OkLt.ok (by simp only [List.length_cons] at l1; omega)
      · have := ih2 types d (m :: acc) rest1 (by omega)
        exact ⟨this.1, fun a r hr => by have := this.2 a r hr; omega⟩
    · exact OkLt.err _
  · exact OkLt.err _
  · rename_i heq; exact absurd heq h1.1

theorem type_step (f : Nat) (ih1 : PSLoop f) (ih2 : PTLoop f) : PType (f + 1) := by
  intro types d tok toks h
  rw [type_.eq_def]
  dsimp only
  split
  · split
    iterate 10 exact OkLe.ok (Nat.le_refl _)
    · exact typeEnum_le types toks
    · have hn := optionalName_le toks
      generalize optionalName toks = nt at hn ⊢
      obtain ⟨name, toks'⟩ := nt
      dsimp only at hn ⊢
      split
      · rename_i rest
        simp only [List.length_cons] at hn
        have h1 := ih1 types (d + 1) [] rest (by omega)
        split
        · rename_i items rest' heq
          have := h1.2 _ _ heq
          exact OkLe.ok (by omega)
        · exact OkLe.err _
        · rename_i heq; exact absurd heq h1.1
      · split
        · split
          · split
            · exact OkLe.ok hn
            · exact OkLe.err _
          · exact OkLe.err _
        · exact OkLe.err _
    · have hn := optionalName_le toks
      generalize optionalName toks = nt at hn ⊢
      obtain ⟨name, toks'⟩ := nt
      dsimp only at hn ⊢
      split
      · rename_i rest
        simp only [List.length_cons] at hn
        have h1 := ih2 types (d + 1) true [] rest (by omega)
        split
        · rename_i items rest' heq
          have := h1.2 _ _ heq
          exact OkLe.ok (by omega)
        · exact OkLe.err _
        · rename_i heq; exact absurd heq h1.1
      · split
        · split
          · split
            · exact OkLe.ok hn
            · exact OkLe.err _
          · exact OkLe.err _
        · exact OkLe.err _
    · have hn := optionalName_le toks
      generalize optionalName toks = nt at hn ⊢
      obtain ⟨name, toks'⟩ := nt
      dsimp only at hn ⊢
      split
      · rename_i rest
        simp only [List.length_cons] at hn
        have h1 := ih2 types (d + 1) false [] rest (by omega)
        split
        · rename_i items rest' heq
          have := h1.2 _ _ heq
          exact OkLe.ok (by omega)
        · exact OkLe.err _
        · rename_i heq; exact absurd heq h1.1
      · split
        · split
          · split
            · exact OkLe.ok hn
            · exact OkLe.err _
          · exact OkLe.err _
        · exact OkLe.err _
    · exact OkLe.err _
  · exact OkLe.err _

theorem all_ok : ∀ f, PType f ∧ PSLoop f ∧ PTLoop f ∧ PTMem f ∧ PTDef f ∧ PMem f
  | 0 => ⟨fun _ _ _ _ h => by omega, fun _ _ _ _ h => by omega, fun _ _ _ _ _ h => by omega, fun _ _ _ _ h => by omega,
          fun _ _ _ h => by omega, fun _ _ _ h => by omega⟩
  | f + 1 =>
    have ⟨h1, h2, h3, h4, h5, h6⟩ := all_ok f
    ⟨type_step f h2 h3, structLoop_step f h6 h2, taggedLoop_step f h4 h3, taggedMember_step f h5,
     taggedDef_step f h6, member_step f h1⟩


theorem declStep_le (fuel : Nat) (types : TypeSet) (ifdata : Option Spec) (tok : ATok) (rest : List ATok)
    (h : 4 * rest.length + 4 ≤ fuel) : OkLe (declStep fuel types ifdata tok rest) rest.length := by
  have hty := (all_ok fuel).1 types 0 tok rest h
  unfold declStep
  split
  · split
    · rename_i tg rest1
      simp only [List.length_cons] at h ⊢
      have h1 := (all_ok fuel).2.2.2.2.1 types 0 rest1 (by omega)
      split
      · rename_i blk rest2 heq
        have := h1.2 _ _ heq
        exact OkLe.ok (by omega)
      · exact OkLe.err _
      · rename_i heq; exact absurd heq h1.1
    · exact OkLe.err _
  iterate 4
    · split
      · rename_i heq; exact OkLe.ok (hty.2 _ _ heq)
      · rename_i heq; exact OkLe.ok (hty.2 _ _ heq)
      · exact OkLe.err _
      · rename_i heq; exact absurd heq hty.1
  iterate 10
    · split
      · rename_i heq; exact OkLe.ok (hty.2 _ _ heq)
      · exact OkLe.err _
      · rename_i heq; exact absurd heq hty.1
  · exact OkLe.err _

theorem declLoop_ne_fuel (fuel : Nat) : ∀ (n : Nat) (types : TypeSet) (ifdata : Option Spec) (toks : List ATok),
    toks.length < n → 4 * toks.length + 4 ≤ fuel → declLoop fuel n types ifdata toks ≠ .fuel
  | 0, _, _, _, h, _ => by omega
  | n + 1, types, ifdata, [], _, _ => by
    unfold declLoop
    cases ifdata <;> (intro h; cases h)
  | n + 1, types, ifdata, tok :: rest, h, hf => by
    simp only [List.length_cons] at h hf
    unfold declLoop
    have h1 := declStep_le fuel types ifdata tok rest (by omega)
    split
    · rename_i types' ifdata' rest1 heq
      have l1 := h1.2 _ _ heq
      split
      · rename_i rest2
        simp only [List.length_cons] at l1
        exact declLoop_ne_fuel fuel n types' ifdata' rest2 (by omega) (by omega)
      · intro h'; cases h'
    · intro h'; cases h'
    · rename_i heq; exact absurd heq h1.1

theorem parseToks_ne_fuel (toks : List ATok) : parseToks toks ≠ .fuel :=
  declLoop_ne_fuel _ _ _ _ _ (Nat.lt_succ_self _) (by unfold parseFuel; omega)

theorem parseA2ml_ne_fuel (cs : List Char) : parseA2ml cs ≠ .fuel := by
  unfold parseA2ml
  split
  · exact parseToks_ne_fuel _
  · intro h; cases h
  · rename_i heq; exact absurd heq (tokenize_ne_fuel cs)

end A2l.Aml
